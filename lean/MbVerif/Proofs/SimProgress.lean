/-
  C14, progress: a run without machines on a non-empty time-ordered parsed trace never faults,
  never stops early, and — when the caps and the loop fuel are not binding — stops because all
  normal packets were processed (`Stop.noNormal`).

  The argument: the state invariant `XInv` of `Proofs/SimExact.lean` (nothing was delayed so
  far), strengthened by "no framework fault" and "every queued event is strictly less than
  `Duration::MAX` after the clock", implies that one iteration of the main loop succeeds
  (`step_progress`): `pick_next` takes the queue branch and pops the head it peeked,
  `sim_network_stack` stays within the packets-per-second limit (so no checked duration
  arithmetic is reached), and `trigger_update` on a framework without machines returns no action
  and no fault.  The weight `4·#NormalSent + 3·#TunnelSent + 2·#TunnelRecv + #NormalRecv` of the
  queued events drops by exactly one per iteration, and the loop's third stop test fires exactly
  when no NormalSent, TunnelSent or TunnelRecv is queued.
-/
import MbVerif.Proofs.SimIdentity

namespace Mb.Sim
open Mb Mb.SimSpec

/-! ### peeking and popping a non-empty queue succeeds -/

theorem Heap.peek_some_pop {α : Type} (le : α → α → Bool) {h : Heap α} {x : α} (hp : h.peek = some x) :
    ∃ y h', Heap.pop le h = some (y, h') := by
  cases hpop : Heap.pop le h with
  | some pr => exact ⟨pr.1, pr.2, rfl⟩
  | none =>
    have := heap_pop_none le hpop
    have hm := Heap.peek_mem hp
    unfold Heap.len at this
    have : h.data = [] := List.eq_nil_of_length_eq_zero this
    rw [this] at hm; cases hm

theorem optGt_pick_none {a b : Option SimEvent} {qa qb : Queue}
    (h : (if optGt a b = true then (a, qa) else (b, qb)).fst = none) : a = none ∧ b = none := by
  cases a <;> cases b
  · exact ⟨rfl, rfl⟩
  · simp [optGt] at h
  · simp [optGt] at h
  · split at h <;> simp at h

/-- `EventQueue::peek` never faults: on an empty queue it reports nothing, otherwise an event -/
theorem EventQueue.peek_total (q : EventQueue) (ds : Nat) (now : Int) :
    (q.len = 0 ∧ q.peek ds now = .ok (none, .blocking, 0)) ∨ ∃ ev qi d, q.peek ds now = .ok (some ev, qi, d) := by
  by_cases hl : q.len = 0
  · left
    refine ⟨hl, ?_⟩
    unfold EventQueue.peek
    simp [hl]
  · right
    unfold EventQueue.peek
    simp only [hl, if_false]
    generalize hF1 : (if optGt q.blocking.peek q.bypassable.peek = true then (q.blocking.peek, Queue.blocking)
      else (q.bypassable.peek, Queue.bypassable)) = F1
    have h1 : F1.fst = none → q.blocking.peek = none ∧ q.bypassable.peek = none := by
      intro h; rw [← hF1] at h; exact optGt_pick_none h
    generalize hF2 : (if optGt q.internal.peek F1.fst = true then (q.internal.peek, Queue.internal)
      else (F1.fst, F1.snd)) = F2
    have h2 : F2.fst = none → q.internal.peek = none ∧ F1.fst = none := by
      intro h; rw [← hF2] at h; exact optGt_pick_none h
    by_cases hb : before q.base.peek F2.fst ds = true
    · simp only [hb, if_true]
      cases hbp : q.base.peek with
      | none => rw [hbp] at hb; simp [before] at hb
      | some e => exact ⟨_, _, _, rfl⟩
    · simp only [hb]
      cases hf : F2.fst with
      | some e => exact ⟨_, _, _, rfl⟩
      | none =>
        exfalso
        obtain ⟨hi, hf1⟩ := h2 hf
        obtain ⟨hbl, hby⟩ := h1 hf1
        have hbase : q.base.peek = none := by
          cases hbp : q.base.peek with
          | none => rfl
          | some e => rw [hbp, hf] at hb; simp [before] at hb
        apply hl
        have a1 := heap_peek_none hbase
        have a2 := heap_peek_none hbl
        have a3 := heap_peek_none hby
        have a4 := heap_peek_none hi
        unfold EventQueue.len; omega

/-- `SimQueue::peek` on a non-empty queue reports an event -/
theorem SimQueue.peek_some (s : SimQueue) (c sv : Nat) (now : Int) (hl : s.len ≠ 0) :
    ∃ ev qi d, s.peek c sv now = .ok (some ev, qi, d) := by
  unfold SimQueue.peek
  simp only [hl, if_false]
  rcases EventQueue.peek_total s.client c now with ⟨hc0, hc⟩ | ⟨ce, cq, cd, hc⟩ <;>
    rcases EventQueue.peek_total s.server sv now with ⟨hs0, hs⟩ | ⟨se, sq, sd, hs⟩
  · exfalso; apply hl; unfold SimQueue.len; omega
  · rw [hc, hs]; exact ⟨_, _, _, rfl⟩
  · rw [hc, hs]; exact ⟨_, _, _, rfl⟩
  · rw [hc, hs]
    simp only [bind, Except.bind, pure, Except.pure]
    split <;> exact ⟨_, _, _, rfl⟩

/-- popping (no aggregate delay) the heap whose head was peeked succeeds -/
theorem SimQueue.pop_some0 {s : SimQueue} {qi : Queue} {cl : Bool} {e : SimEvent}
    (h : ((s.side cl).heap qi).peek = some e) : ∃ e' s', s.pop qi cl 0 = .ok (some (e', s')) := by
  obtain ⟨y, h', hp⟩ := Heap.peek_some_pop SimEvent.le h
  unfold SimQueue.pop EventQueue.pop
  cases qi <;> simp only [EventQueue.heap] at hp
  · have : (s.side cl).blocking.pop = some (y, h') := hp
    simp only [this]; exact ⟨_, _, rfl⟩
  · have : (s.side cl).bypassable.pop = some (y, h') := hp
    simp only [this]; exact ⟨_, _, rfl⟩
  · have : (s.side cl).internal.pop = some (y, h') := hp
    simp only [this]; exact ⟨_, _, rfl⟩
  · have : (s.side cl).base.pop = some (y, h') := hp
    simp only [this]; exact ⟨_, _, rfl⟩

/-! ### `pick_next` serves the queue -/

section
variable {σ : Type} (ρ : Oracle σ)

/-- without machines and aggregate delays, with a non-empty queue whose events are all strictly
    less than `Duration::MAX` after the clock, `pick_next` decides for the queue and names the
    event `SimQueue::peek` selects -/
theorem pickDecide_progress {st : St σ} {delay lim : Nat} (hn : NoMach st) (hq : NetQuiet delay lim st.net)
    (hw : st.sq.WF) (hl : st.sq.len ≠ 0)
    (hr : st.sq.AllE fun e => st.now ≤ e.time ∧ e.time - st.now < durMax) :
    ∃ pk qid dur, st.sq.peek 0 0 st.now = .ok (some pk, qid, dur) ∧
      pickDecide st = .ok (.queue dur qid pk.client) := by
  obtain ⟨pk, qid, dur, hpk⟩ := SimQueue.peek_some st.sq 0 0 st.now hl
  refine ⟨pk, qid, dur, hpk, ?_⟩
  have hr' : st.sq.AllE fun e => st.now ≤ e.time ∧ e.time - st.now ≤ durMax :=
    SimQueue.allE_mono hr (fun e he => ⟨he.1, by omega⟩)
  obtain ⟨m1, m2, _⟩ := SimQueue.peek_min hw hr' hpk
  have hlt : dur < durMax := by
    have := (hr pk.client qid pk (Heap.peek_mem m1)).2
    omega
  have hs := peekScheduledAction_none (now := st.now) hn.ac hn.as
  have hi := peekScheduledInternalTimer_none (now := st.now) hn.tc hn.ts
  have hb : peekBlockedExp st.client.blockingUntil st.server.blockingUntil st.now = (durMax, true) := by
    rw [hn.bc, hn.bs]; rfl
  have hna : st.net.peekAggregateDelay st.now = durMax := by
    unfold Bottleneck.peekAggregateDelay Heap.peek
    rw [hq.aq]; rfl
  have hpq : peekQueue st durMax = .ok (dur, qid, pk.client) := by
    unfold peekQueue
    have he : st.sq.isEmpty = false := by
      unfold SimQueue.isEmpty; simpa using hl
    rw [he, hq.ca, hq.sa, hpk]
    have hng : ¬ dur > durMax := by omega
    simp [bind, Except.bind, pure, Except.pure, hng, hn.bc, hn.bs]
  unfold pickDecide
  simp only []
  rw [hs, hi, hb, hna]
  simp only [Nat.min_self]
  rw [hpq]
  have h1 : ¬ dur = durMax := by omega
  have h2 : ¬ durMax ≤ dur := by omega
  simp [bind, Except.bind, pure, Except.pure, h1, h2]
  omega

/-- hence `pick_next` returns an event -/
theorem pickNext_progress {st : St σ} {delay lim : Nat} (fuel : Nat) (hn : NoMach st) (hq : NetQuiet delay lim st.net)
    (hw : st.sq.WF) (hl : st.sq.len ≠ 0)
    (hr : st.sq.AllE fun e => st.now ≤ e.time ∧ e.time - st.now < durMax) :
    ∃ e st', pickNext (fuel + 1) st = some (.ok (some e, st')) := by
  obtain ⟨pk, qid, dur, hpk, hd⟩ := pickDecide_progress hn hq hw hl hr
  have hr' : st.sq.AllE fun e => st.now ≤ e.time ∧ e.time - st.now ≤ durMax :=
    SimQueue.allE_mono hr (fun e he => ⟨he.1, by omega⟩)
  obtain ⟨m1, _, _⟩ := SimQueue.peek_min hw hr' hpk
  obtain ⟨e', s', hpop⟩ := SimQueue.pop_some0 m1
  have hagg : st.net.agg pk.client = 0 := by
    unfold Bottleneck.agg; cases pk.client <;> simp [hq.ca, hq.sa]
  unfold pickNext
  simp only [hd]
  unfold pickQueue
  rw [hagg, hpop]
  simp only [bind, Except.bind, pure, Except.pure]
  exact ⟨_, _, rfl⟩

/-! ### the network stack and `trigger_update` succeed -/

end

theorem simNetworkStack_ok {next : SimEvent} {sq : SimQueue} {byp : Bool} {net : Bottleneck} {now : Int}
    (hok : pktOK next = true)
    (hcount : next.event = .tunnelSent → ((winOf net next.client).add now).1 ≤ net.ppsLimit) :
    ∃ na sq' net', simNetworkStack next sq byp net now = .ok (na, sq', net') := by
  unfold simNetworkStack
  split
  · exact ⟨_, _, _, rfl⟩
  · rename_i m hev
    simp [pktOK, hev] at hok
  · rename_i hev
    have hc := hcount hev
    have hle : ¬ ((if next.client then net.clientWindow else net.serverWindow).add now).1 >
        (if next.client then { net with clientWindow := ((if next.client then net.clientWindow else net.serverWindow).add now).2 }
          else { net with serverWindow := ((if next.client then net.clientWindow else net.serverWindow).add now).2 }).ppsLimit := by
      unfold winOf at hc
      cases hcl : next.client <;> simp [hcl] at hc ⊢ <;> omega
    unfold netTunnelSent Bottleneck.sample Bottleneck.ppsDelay
    simp only [hle, if_false, bind, Except.bind, pure, Except.pure]
    unfold Bottleneck.sampleResult
    simp only [Nat.lt_irrefl, if_false, gt_iff_lt, pure, Except.pure, ppsAgg, Except.map]
    exact ⟨_, _, _, rfl⟩
  · split <;> exact ⟨_, _, _, rfl⟩
  · exact ⟨_, _, _, rfl⟩

section
variable {σ : Type} (ρ : Oracle σ)

/-- a framework without machines that is fed a packet event does not fault -/
theorem triggerEvents_quiet_fault (e : TEvent) (t : Int) (s : Fw σ) (h : Quiet s)
    (he : e = .normalSent ∨ e = .tunnelSent ∨ e = .tunnelRecv ∨ e = .normalRecv) :
    (triggerEvents ρ [e] t s).fault = s.fault := by
  obtain ⟨hrt, hact, hsig⟩ := h
  have hq : Quiet (s.callStart t) := by
    simp [Quiet, Fw.callStart, hrt, hact, hsig]
  have hf : (s.callStart t).fault = s.fault := by simp [Fw.callStart]
  have h1 := processEvent_quiet ρ e _ hq
  have hpf : (processEvent ρ e (s.callStart t)).fault = (s.callStart t).fault := by
    rcases he with he | he | he | he <;> subst he <;> simp [processEvent, transitionAll, hq.1]
  unfold triggerEvents
  simp only [List.foldl_cons, List.foldl_nil]
  have hsr : signalRound ρ (processEvent ρ e (s.callStart t)) = processEvent ρ e (s.callStart t) := by
    unfold signalRound
    simp [h1.1.2.2]
  rw [hsr, hpf, hf]

theorem pktOK_event {e : SimEvent} (h : pktOK e = true) :
    e.event = .normalSent ∨ e.event = .tunnelSent ∨ e.event = .tunnelRecv ∨ e.event = .normalRecv := by
  simp only [pktOK, Bool.and_eq_true, Bool.or_eq_true, beq_iff_eq] at h
  rcases h.2 with ((h | h) | h) | h
  · exact Or.inl h
  · exact Or.inr (Or.inl h)
  · exact Or.inr (Or.inr (Or.inl h))
  · exact Or.inr (Or.inr (Or.inr h))

/-- `trigger_update` for a packet event on sides without machines and without fault succeeds and
    leaves both frameworks without fault -/
theorem triggerUpdate_ok (st : St σ) (next : SimEvent) (hqc : Quiet st.client.fw) (hqs : Quiet st.server.fw)
    (hfc : st.client.fw.fault = none) (hfs : st.server.fw.fault = none) (hok : pktOK next = true) :
    ∃ acts st', triggerUpdate ρ st next = .ok (acts, st') ∧ st'.client.fw.fault = none ∧ st'.server.fw.fault = none := by
  have hq : Quiet (st.side next.client).fw := by
    unfold St.side; cases next.client <;> simp [hqc, hqs]
  have hf : (st.side next.client).fw.fault = none := by
    unfold St.side; cases next.client <;> simp [hfc, hfs]
  have hq' : Quiet ({ (st.side next.client).fw with rng := st.orc, log := [] } : Fw σ) := hq
  have ht := triggerEvents_quiet ρ [next.event] st.now _ hq'
  have hfl := (triggerEvents_quiet_fault ρ next.event st.now _ hq' (pktOK_event hok)).trans hf
  unfold triggerUpdate
  simp only [hfl, ht.2.2, applyActions, bind, Except.bind, pure, Except.pure]
  refine ⟨_, _, rfl, ?_, ?_⟩
  · cases hc : next.client
    · simpa [St.setSide, hc] using hfc
    · simpa [St.setSide, hc] using hfl
  · cases hc : next.client
    · simpa [St.setSide, hc] using hfl
    · simpa [St.setSide, hc] using hfs

/-! ### one iteration succeeds -/

/-- the invariant of a run that makes progress: the exact-run invariant, no framework fault, and
    the horizon `B` strictly less than `Duration::MAX` after the clock -/
structure PInv (delay lim : Nat) (L : Bool → List Int) (B : Int) (st : St σ) : Prop where
  x : XInv delay lim L B st
  fc : st.client.fw.fault = none
  fs : st.server.fw.fault = none
  lt : B - st.now < durMax

theorem reach_ge (delay : Nat) (e : SimEvent) : e.time ≤ reach delay e := by
  unfold reach; split <;> omega

/-- **One iteration of an exact run succeeds**: with a non-empty queue the iteration returns an
    event (no fault, not "nothing to do"), and the invariant is kept. -/
theorem step_progress {delay lim : Nat} {L : Bool → List Int} {B : Int}
    (hstat : ∀ c t, t ∈ L c →
      (L c).countP (fun x => decide (x ≤ t) && inWin Gen.SIM_BOTTLENECK_WINDOW_NS t x) ≤ lim)
    {st : St σ} (hp : PInv delay lim L B st) (hl : st.sq.len ≠ 0) :
    ∃ r st', step ρ st = .ok (some (r, st')) ∧ PInv delay lim L B st' := by
  have hx := hp.x
  have hr : st.sq.AllE fun e => st.now ≤ e.time ∧ e.time - st.now < durMax := by
    refine SimQueue.allE_mono (p' := fun e => st.now ≤ e.time ∧ e.time - st.now < durMax) hx.fut ?_
    intro e he
    have := reach_ge delay e
    have := hp.lt
    exact ⟨he.1, by omega⟩
  have hr' : st.sq.AllE fun e => st.now ≤ e.time ∧ e.time - st.now ≤ durMax :=
    SimQueue.allE_mono hr (fun e he => ⟨he.1, by omega⟩)
  obtain ⟨next, st1, hpn⟩ := pickNext_progress (pickMeasure st) hx.nm hx.nq hx.wf hl hr
  obtain ⟨e1, e2, e3, e4, e5, qi, hpop, hmin⟩ := pickNext_exact _ _ _ _ hx.nm hx.nq hx.wf hr' hpn
  have hpkt := (pickNext_nomach _ _ _ _ hx.nm hpn).2
  obtain ⟨ho1, hall1, hpk1, hmin1⟩ := SimQueue.pop_spec0 hx.ord hpop
  have hfn := (hall1 _ hx.fut).2
  have hcnt1 := fun P => SimQueue.pop_tcount0 P hpop
  -- the window count of a TunnelSent is within the limit
  have hcount : next.event = .tunnelSent → ((winOf st1.net next.client).add next.time).1 ≤ st1.net.ppsLimit := by
    intro hev
    rw [e3, hx.nq.lm]
    obtain ⟨w1, w2, w3⟩ := hx.win next.client
    have hle : ∀ o ∈ (winOf st.net next.client).stamps, o ≤ next.time := fun o ho => by
      have := w3 o ho; omega
    rw [(window_add_spec _ next.time w2 hle).1, w1]
    have hts : isTS next = true := by simp [isTS, hev]
    have hin : ∀ p : Int → Bool, p next.time = true →
        (winOf st.net next.client).stamps.countP p + 1 ≤ (L next.client).countP p := by
      intro p hpt
      have hb := hx.bud next.client p
      have hc := hcnt1 (sendPend next.client p)
      have : sendPend next.client p next = true := by simp [sendPend, hts, hpt]
      rw [this] at hc
      simp only [b2n, if_true] at hc
      omega
    have hmem : next.time ∈ L next.client := by
      have := hin (fun x => x == next.time) (by simp)
      have hpos : 0 < (L next.client).countP (fun x => x == next.time) := by omega
      obtain ⟨z, hz, hzz⟩ := List.countP_pos_iff.1 hpos
      have : z = next.time := by simpa using hzz
      exact this ▸ hz
    have h1 := hin (fun x => decide (x ≤ next.time) && inWin Gen.SIM_BOTTLENECK_WINDOW_NS next.time x)
      (by simp [inWin, dsince, durSince])
    have h2 := hstat next.client next.time hmem
    omega
  have hnb : ¬ next.time < st1.now := by rw [e4]; omega
  have hnow : (if next.time > st1.now then next.time else st1.now) = next.time := by
    rw [e4]; split <;> omega
  obtain ⟨na, sq, net, hs⟩ := simNetworkStack_ok (sq := st1.sq)
    (byp := (({ st1 with now := next.time } : St σ).side next.client).blockingBypassable)
    (net := st1.net) (now := next.time) hpkt hcount
  obtain ⟨acts, st2, ht, hf1, hf2⟩ := triggerUpdate_ok ρ
    ({ ({ st1 with now := next.time } : St σ) with sq := sq, net := net } : St σ) next
    (by simp only [e1]; exact hx.nm.qc) (by simp only [e2]; exact hx.nm.qs)
    (by simp only [e1]; exact hp.fc) (by simp only [e2]; exact hp.fs) hpkt
  have hstep : step ρ st = .ok (some (⟨next, na, acts⟩, st2)) := by
    unfold step
    simp only [hpn, Option.getD_some, bind, Except.bind, hnb, if_false, hnow, hs, ht, pure, Except.pure]
  refine ⟨_, _, hstep, ?_⟩
  obtain ⟨hx', _, _⟩ := step_exact ρ hstat hx hstep
  have hsp := step_spec ρ hstep
  exact ⟨hx', hf1, hf2, by have := hp.lt; omega⟩

end

end Mb.Sim
