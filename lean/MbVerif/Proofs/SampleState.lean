/-
  Helper lemmas for C06: `sampleLoop` against the bands of running sums, monotonicity of the
  running sums of a validated vector, and the counting lemma.
-/
import MbVerif.Spec.C06
import MbVerif.Spec.C12
import MbVerif.Proofs.Fp

namespace Mb
namespace C06
open Fp

/-! ### bands -/

theorem bands_targets (c : FV) (ts : List Trans) : (bands c ts).map (·.target) = ts.map (·.target) := by
  induction ts generalizing c with
  | nil => rfl
  | cons t ts ih => simp [bands, ih]

/-- in a monotone vector every band starts at or above the start value and is non-empty or empty
    but never inverted -/
theorem mono_bands {c : FV} {ts : List Trans} (h : Mono c ts) :
    ∀ b ∈ bands c ts, le c b.lo = true ∧ le b.lo b.hi = true := by
  induction ts generalizing c with
  | nil => intro b hb; simp [bands] at hb
  | cons t ts ih =>
    intro b hb
    simp only [bands, List.mem_cons] at hb
    obtain ⟨h1, h2⟩ := h
    have hc : c ≠ .nan := by intro e; subst e; simp at h1
    rcases hb with rfl | hb
    · exact ⟨le_refl_of_ne_nan hc, h1⟩
    · obtain ⟨i1, i2⟩ := ih h2 b hb
      exact ⟨le_trans' h1 i1, i2⟩

theorem mono_total {c : FV} {ts : List Trans} (h : Mono c ts) (hc : c ≠ .nan) : le c (total c ts) = true := by
  induction ts generalizing c with
  | nil => exact le_refl_of_ne_nan hc
  | cons t ts ih =>
    obtain ⟨h1, h2⟩ := h
    have hc' : add f32 c (val32 t.prob) ≠ .nan := by intro e; rw [e] at h1; simp at h1
    exact le_trans' h1 (ih h2 hc')

/-- **which transition is taken**: with non-decreasing running sums, the loop returns target `t`
    exactly when the draw lies in a band of `t` -/
theorem sampleLoop_some_iff {r c : FV} {ts : List Trans} (hm : Mono c ts) (hr : le c r = true) (t : Nat) :
    sampleLoop r c ts = some t ↔ ∃ b ∈ bands c ts, b.target = t ∧ le b.lo r = true ∧ lt r b.hi = true := by
  induction ts generalizing c with
  | nil => simp [sampleLoop, bands]
  | cons t0 ts ih =>
    obtain ⟨h1, h2⟩ := hm
    have hrn : r ≠ .nan := by intro e; subst e; simp at hr
    simp only [sampleLoop, bands]
    set c' := add f32 c (val32 t0.prob) with hc'
    have hcn : c' ≠ .nan := by intro e; rw [e] at h1; simp at h1
    by_cases hlt : lt r c' = true
    · rw [if_pos hlt]
      constructor
      · intro h
        injection h with h
        exact ⟨_, List.mem_cons_self, h, hr, hlt⟩
      · rintro ⟨b, hb, hbt, hlo, hhi⟩
        rcases List.mem_cons.mp hb with rfl | hb
        · simp only at hbt; rw [hbt]
        · -- a later band starts at or above c' > r: impossible
          have := (mono_bands h2 b hb).1
          have hlt' : lt r b.lo = true := lt_of_lt_of_le' hlt this
          have : lt r r = true := lt_of_lt_of_le' hlt' hlo
          rw [lt_irrefl] at this; exact absurd this (by simp)
    · rw [if_neg hlt]
      have hge : le c' r = true := by
        have := lt_or_ge_of_ne_nan hrn hcn
        rw [this] at hlt; simpa using hlt
      rw [ih h2 hge]
      constructor
      · rintro ⟨b, hb, rest⟩; exact ⟨b, List.mem_cons_of_mem _ hb, rest⟩
      · rintro ⟨b, hb, hbt, hlo, hhi⟩
        rcases List.mem_cons.mp hb with rfl | hb
        · exact absurd hhi hlt
        · exact ⟨b, hb, hbt, hlo, hhi⟩

/-- no transition exactly when the draw is at or above the last running sum -/
theorem sampleLoop_none_iff {r c : FV} {ts : List Trans} (hm : Mono c ts) (hr : le c r = true) :
    sampleLoop r c ts = none ↔ le (total c ts) r = true := by
  induction ts generalizing c with
  | nil => simp [sampleLoop, total, hr]
  | cons t0 ts ih =>
    obtain ⟨h1, h2⟩ := hm
    have hrn : r ≠ .nan := by intro e; subst e; simp at hr
    simp only [sampleLoop, total]
    set c' := add f32 c (val32 t0.prob) with hc'
    have hcn : c' ≠ .nan := by intro e; rw [e] at h1; simp at h1
    by_cases hlt : lt r c' = true
    · rw [if_pos hlt]
      constructor
      · intro h; exact absurd h (by simp)
      · intro h
        have h3 : le c' (total c' ts) = true := mono_total h2 hcn
        have : lt r r = true := lt_of_lt_of_le' hlt (le_trans' h3 h)
        rw [lt_irrefl] at this; exact absurd this (by simp)
    · rw [if_neg hlt]
      have hge : le c' r = true := by
        have := lt_or_ge_of_ne_nan hrn hcn
        rw [this] at hlt; simpa using hlt
      exact ih h2 hge

/-! ### the running sums of a validated vector never decrease -/

/-- a running sum: `+inf`, or a non-negative f32 value -/
def Good : FV → Prop
  | .fin a => 0 ≤ a ∧ Rep 24 (-149) a ∧ a < pow2 128
  | .inf neg => neg = false
  | .nan => False

theorem good_zero : Good (.fin 0) := ⟨le_refl _, rep_zero _ _, pow2_pos _⟩

theorem Fmt.round_fin_bound (f : Fmt) {q r : ℚ} (h : f.round q = .fin r) :
    r = rne f.p f.emin q ∧ r < pow2 f.emax ∧ -pow2 f.emax < r := by
  unfold Fmt.round at h
  simp only [] at h
  split at h
  · exact absurd h (by simp)
  · split at h
    · exact absurd h (by simp)
    · rename_i h1 h2
      injection h with h
      subst h
      exact ⟨rfl, not_le.mp h1, not_le.mp h2⟩

theorem good_step {c p : FV} (hc : Good c) (hp : C12.Prob p) :
    le c (add f32 c p) = true ∧ Good (add f32 c p) := by
  rcases p with _ | _ | q
  · exact hp.elim
  · exact hp.elim
  · rcases c with _ | s | a
    · exact hc.elim
    · simp only [Good] at hc; subst hc; simp [add, le, Good]
    · obtain ⟨ha0, harep, halt⟩ := hc
      obtain ⟨hq0, _⟩ := hp
      simp only [add]
      have hle : a ≤ a + q := by linarith
      have hmono := Fmt.round_mono f32 (by decide) hle
      have hself : f32.round a = .fin a :=
        Fmt.round_eq_self_of_rep f32 harep halt (by have := pow2_pos f32.emax; linarith)
      rw [hself] at hmono
      refine ⟨hmono, ?_⟩
      rcases Fmt.round_of_nonneg f32 (by linarith : 0 ≤ a + q) with h | ⟨h, hr⟩
      · rw [h]; rfl
      · have hb := Fmt.round_fin_bound f32 h
        rw [h]
        exact ⟨hr, rne_rep 24 (by decide) (-149) _, hb.2.1⟩

theorem mono_of_probs {c : FV} {ts : List Trans} (hc : Good c)
    (hp : ∀ t ∈ ts, C12.Prob (val32 t.prob)) : Mono c ts := by
  induction ts generalizing c with
  | nil => trivial
  | cons t ts ih =>
    obtain ⟨h1, h2⟩ := good_step hc (hp t List.mem_cons_self)
    exact ⟨h1, ih h2 (fun t' ht' => hp t' (List.mem_cons_of_mem _ ht'))⟩

theorem good_bands {c : FV} {ts : List Trans} (hc : Good c)
    (hp : ∀ t ∈ ts, C12.Prob (val32 t.prob)) : ∀ b ∈ bands c ts, Good b.lo ∧ Good b.hi := by
  induction ts generalizing c with
  | nil => intro b hb; simp [bands] at hb
  | cons t ts ih =>
    intro b hb
    obtain ⟨_, h2⟩ := good_step hc (hp t List.mem_cons_self)
    rcases List.mem_cons.mp hb with rfl | hb
    · exact ⟨hc, h2⟩
    · exact ih h2 (fun t' ht' => hp t' (List.mem_cons_of_mem _ ht')) b hb

theorem good_total {c : FV} {ts : List Trans} (hc : Good c)
    (hp : ∀ t ∈ ts, C12.Prob (val32 t.prob)) : Good (total c ts) := by
  induction ts generalizing c with
  | nil => exact hc
  | cons t ts ih =>
    exact ih (good_step hc (hp t List.mem_cons_self)).2 (fun t' ht' => hp t' (List.mem_cons_of_mem _ ht'))

theorem total_eq_f32sum (ts : List Trans) : total (.fin 0) ts = C12.f32sum ts := by
  unfold C12.f32sum
  generalize (FV.fin 0) = c
  induction ts generalizing c with
  | nil => rfl
  | cons t ts ih => simp only [total, List.foldl_cons]; exact ih _

/-! ### counting -/

theorem count_interval (n lo hi : Nat) :
    ((List.range n).filter (fun k => decide (lo ≤ k ∧ k < hi))).length = min n hi - min n lo := by
  induction n with
  | zero => simp
  | succ n ih =>
    rw [List.range_succ, List.filter_append, List.length_append, ih]
    by_cases h : lo ≤ n ∧ n < hi
    · simp only [List.filter_cons, h, and_self, decide_true, ↓reduceIte, List.filter_nil,
        List.length_cons, List.length_nil]
      omega
    · have : decide (lo ≤ n ∧ n < hi) = false := by simpa using h
      simp only [List.filter_cons, this, Bool.false_eq_true, ↓reduceIte, List.filter_nil, List.length_nil]
      omega

theorem count_congr {P Q : Nat → Bool} (h : ∀ k, k < N → P k = Q k) : count P = count Q := by
  unfold count
  rw [List.filter_congr (fun k hk => h k (List.mem_range.mp hk))]

theorem N_pos : (0 : ℚ) < (N : ℚ) := by unfold N; norm_num

theorem ceil_eq (q : ℚ) : q.ceil = ⌈q⌉ := by
  rw [Rat.ceil_eq_neg_floor_neg, Int.ceil, floor_eq]
  rfl

theorem ceilN_fin {q : ℚ} (h0 : 0 ≤ q) : ∀ k : Nat, k < N → (ceilN (.fin q) ≤ k ↔ q ≤ (k : ℚ) / (N : ℚ)) := by
  intro k hk
  simp only [ceilN]
  have hc : (0 : Int) ≤ (q * (N : ℚ)).ceil := by
    rw [ceil_eq]; exact Int.ceil_nonneg (mul_nonneg h0 N_pos.le)
  rw [le_div_iff₀ N_pos]
  constructor
  · intro h
    have h1 : (q * (N : ℚ)).ceil.toNat ≤ k := by omega
    have h2 : (q * (N : ℚ)).ceil ≤ (k : Int) := by omega
    rw [ceil_eq] at h2
    exact_mod_cast Int.ceil_le.mp h2
  · intro h
    have h2 : ⌈q * (N : ℚ)⌉ ≤ (k : Int) := Int.ceil_le.mpr (by exact_mod_cast h)
    rw [← ceil_eq] at h2
    omega

/-- **counting lemma**: the number of `k < N` with `a ≤ k/N < b` is `⌈bN⌉ − ⌈aN⌉` (clipped) -/
theorem count_band {a b : ℚ} (ha : 0 ≤ a) (hb : 0 ≤ b) :
    count (fun k => decide (a ≤ (k : ℚ) / (N : ℚ)) && decide ((k : ℚ) / (N : ℚ) < b)) =
      ceilN (.fin b) - ceilN (.fin a) := by
  have hA : ceilN (.fin a) ≤ N := by simp only [ceilN]; exact Nat.min_le_left _ _
  have hB : ceilN (.fin b) ≤ N := by simp only [ceilN]; exact Nat.min_le_left _ _
  rw [count_congr (Q := fun k => decide (ceilN (.fin a) ≤ k ∧ k < ceilN (.fin b)))]
  · unfold count
    rw [count_interval]
    omega
  · intro k hk
    have h1 := ceilN_fin ha k hk
    have h2 := ceilN_fin hb k hk
    by_cases c1 : a ≤ (k : ℚ) / (N : ℚ) <;> by_cases c2 : (k : ℚ) / (N : ℚ) < b
    · have : ¬ ceilN (.fin b) ≤ k := fun h => absurd (h2.mp h) (not_le.mpr c2)
      simp [c1, c2, h1.mpr c1]; omega
    · have : ceilN (.fin b) ≤ k := h2.mpr (not_lt.mp c2)
      simp [c1, c2]; omega
    · have : ¬ ceilN (.fin a) ≤ k := fun h => c1 (h1.mp h)
      simp [c1, c2]; omega
    · have : ¬ ceilN (.fin a) ≤ k := fun h => c1 (h1.mp h)
      simp [c1, c2]; omega

theorem ceilN_le_N (v : FV) : ceilN v ≤ N := by
  rcases v with _ | ⟨_ | _⟩ | q <;> simp [ceilN]

/-- counting for bands whose ends are running sums (`+inf` ends included) -/
theorem count_good_band {lo hi : FV} (hlo : Good lo) (hhi : Good hi) :
    count (fun k => le lo (draw k) && lt (draw k) hi) = ceilN hi - ceilN lo := by
  rcases lo with _ | s | a
  · exact hlo.elim
  · -- lo = +inf: no outcome, and ceilN lo = N
    simp only [Good] at hlo; subst hlo
    have : count (fun k => le (.inf false) (draw k) && lt (draw k) hi) = count (fun _ => false) := by
      apply count_congr; intro k _; simp [draw, le]
    rw [this]
    have : ceilN (.inf false) = N := rfl
    rw [this]
    have := ceilN_le_N hi
    simp [count]; omega
  · rcases hi with _ | s | b
    · exact hhi.elim
    · simp only [Good] at hhi; subst hhi
      have h1 : count (fun k => le (.fin a) (draw k) && lt (draw k) (.inf false)) =
          count (fun k => decide (a ≤ (k : ℚ) / (N : ℚ)) && decide ((k : ℚ) / (N : ℚ) < 1)) := by
        apply count_congr; intro k hk
        have : (k : ℚ) / (N : ℚ) < 1 := by
          rw [div_lt_one N_pos]; exact_mod_cast hk
        simp [draw, lt, this]
      rw [h1, count_band hlo.1 (by norm_num)]
      have : ceilN (.fin 1) = N := by
        simp only [ceilN, one_mul]
        have : ((N : ℚ)).ceil = (N : Int) := by exact_mod_cast Rat.ceil_intCast (N : Int)
        rw [this]; simp
      rw [this]; rfl
    · have h1 : count (fun k => le (.fin a) (draw k) && lt (draw k) (.fin b)) =
          count (fun k => decide (a ≤ (k : ℚ) / (N : ℚ)) && decide ((k : ℚ) / (N : ℚ) < b)) := by
        apply count_congr; intro k _; simp [draw]
      rw [h1, count_band hlo.1 hhi.1]

end C06
end Mb
