/-
  Helper lemmas for C06: `sampleLoop` against the bands of running sums, monotonicity of the
  running sums of a validated vector, and the counting lemma.
-/
import MbVerif.Spec.C06
import MbVerif.Spec.C12
import MbVerif.Proofs.Fp

namespace Mb
namespace C06
open Fp

/-! ### bands -/

theorem bands_targets (c : FV) (ts : List Trans) : (bands c ts).map (·.target) = ts.map (·.target) := by
  induction ts generalizing c with
  | nil => rfl
  | cons t ts ih => simp [bands, ih]

/-- in a monotone vector every band starts at or above the start value and is non-empty or empty
    but never inverted -/
theorem mono_bands {c : FV} {ts : List Trans} (h : Mono c ts) :
    ∀ b ∈ bands c ts, le c b.lo = true ∧ le b.lo b.hi = true := by
  induction ts generalizing c with
  | nil => intro b hb; simp [bands] at hb
  | cons t ts ih =>
    intro b hb
    simp only [bands, List.mem_cons] at hb
    obtain ⟨h1, h2⟩ := h
    have hc : c ≠ .nan := by intro e; subst e; simp at h1
    rcases hb with rfl | hb
    · exact ⟨le_refl_of_ne_nan hc, h1⟩
    · obtain ⟨i1, i2⟩ := ih h2 b hb
      exact ⟨le_trans' h1 i1, i2⟩

theorem mono_total {c : FV} {ts : List Trans} (h : Mono c ts) (hc : c ≠ .nan) : le c (total c ts) = true := by
  induction ts generalizing c with
  | nil => exact le_refl_of_ne_nan hc
  | cons t ts ih =>
    obtain ⟨h1, h2⟩ := h
    have hc' : add f32 c (val32 t.prob) ≠ .nan := by intro e; rw [e] at h1; simp at h1
    exact le_trans' h1 (ih h2 hc')

/-- **which transition is taken**: with non-decreasing running sums, the loop returns target `t`
    exactly when the draw lies in a band of `t` -/
theorem sampleLoop_some_iff {r c : FV} {ts : List Trans} (hm : Mono c ts) (hr : le c r = true) (t : Nat) :
    sampleLoop r c ts = some t ↔ ∃ b ∈ bands c ts, b.target = t ∧ le b.lo r = true ∧ lt r b.hi = true := by
  induction ts generalizing c with
  | nil => simp [sampleLoop, bands]
  | cons t0 ts ih =>
    obtain ⟨h1, h2⟩ := hm
    have hrn : r ≠ .nan := by intro e; subst e; simp at hr
    simp only [sampleLoop, bands]
    set c' := add f32 c (val32 t0.prob) with hc'
    have hcn : c' ≠ .nan := by intro e; rw [e] at h1; simp at h1
    by_cases hlt : lt r c' = true
    · rw [if_pos hlt]
      constructor
      · intro h
        injection h with h
        exact ⟨_, List.mem_cons_self, h, hr, hlt⟩
      · rintro ⟨b, hb, hbt, hlo, hhi⟩
        rcases List.mem_cons.mp hb with rfl | hb
        · simp only at hbt; rw [hbt]
        · -- a later band starts at or above c' > r: impossible
          have := (mono_bands h2 b hb).1
          have hlt' : lt r b.lo = true := lt_of_lt_of_le' hlt this
          have : lt r r = true := lt_of_lt_of_le' hlt' hlo
          rw [lt_irrefl] at this; exact absurd this (by simp)
    · rw [if_neg hlt]
      have hge : le c' r = true := by
        have := lt_or_ge_of_ne_nan hrn hcn
        rw [this] at hlt; simpa using hlt
      rw [ih h2 hge]
      constructor
      · rintro ⟨b, hb, rest⟩; exact ⟨b, List.mem_cons_of_mem _ hb, rest⟩
      · rintro ⟨b, hb, hbt, hlo, hhi⟩
        rcases List.mem_cons.mp hb with rfl | hb
        · exact absurd hhi hlt
        · exact ⟨b, hb, hbt, hlo, hhi⟩

/-- no transition exactly when the draw is at or above the last running sum -/
theorem sampleLoop_none_iff {r c : FV} {ts : List Trans} (hm : Mono c ts) (hr : le c r = true) :
    sampleLoop r c ts = none ↔ le (total c ts) r = true := by
  induction ts generalizing c with
  | nil => simp [sampleLoop, total, hr]
  | cons t0 ts ih =>
    obtain ⟨h1, h2⟩ := hm
    have hrn : r ≠ .nan := by intro e; subst e; simp at hr
    simp only [sampleLoop, total]
    set c' := add f32 c (val32 t0.prob) with hc'
    have hcn : c' ≠ .nan := by intro e; rw [e] at h1; simp at h1
    by_cases hlt : lt r c' = true
    · rw [if_pos hlt]
      constructor
      · intro h; exact absurd h (by simp)
      · intro h
        have h3 : le c' (total c' ts) = true := mono_total h2 hcn
        have : lt r r = true := lt_of_lt_of_le' hlt (le_trans' h3 h)
        rw [lt_irrefl] at this; exact absurd this (by simp)
    · rw [if_neg hlt]
      have hge : le c' r = true := by
        have := lt_or_ge_of_ne_nan hrn hcn
        rw [this] at hlt; simpa using hlt
      exact ih h2 hge

/-! ### the running sums of a validated vector never decrease -/

/-- a running sum: `+inf`, or a non-negative f32 value -/
def Good : FV → Prop
  | .fin a => 0 ≤ a ∧ Rep 24 (-149) a ∧ a < pow2 128
  | .inf neg => neg = false
  | .nan => False

theorem good_zero : Good (.fin 0) := ⟨le_refl _, rep_zero _ _, pow2_pos _⟩

theorem Fmt.round_fin_bound (f : Fmt) {q r : ℚ} (h : f.round q = .fin r) :
    r = rne f.p f.emin q ∧ r < pow2 f.emax ∧ -pow2 f.emax < r := by
  unfold Fmt.round at h
  simp only [] at h
  split at h
  · exact absurd h (by simp)
  · split at h
    · exact absurd h (by simp)
    · rename_i h1 h2
      injection h with h
      subst h
      exact ⟨rfl, not_le.mp h1, not_le.mp h2⟩

theorem good_step {c p : FV} (hc : Good c) (hp : C12.Prob p) :
    le c (add f32 c p) = true ∧ Good (add f32 c p) := by
  rcases p with _ | _ | q
  · exact hp.elim
  · exact hp.elim
  · rcases c with _ | s | a
    · exact hc.elim
    · simp only [Good] at hc; subst hc; simp [add, le, Good]
    · obtain ⟨ha0, harep, halt⟩ := hc
      obtain ⟨hq0, _⟩ := hp
      simp only [add]
      have hle : a ≤ a + q := by linarith
      have hmono := Fmt.round_mono f32 (by decide) hle
      have hself : f32.round a = .fin a :=
        Fmt.round_eq_self_of_rep f32 harep halt (by have := pow2_pos f32.emax; linarith)
      rw [hself] at hmono
      refine ⟨hmono, ?_⟩
      rcases Fmt.round_of_nonneg f32 (by linarith : 0 ≤ a + q) with h | ⟨h, hr⟩
      · rw [h]; rfl
      · have hb := Fmt.round_fin_bound f32 h
        rw [h]
        exact ⟨hr, rne_rep 24 (by decide) (-149) _, hb.2.1⟩

theorem mono_of_probs {c : FV} {ts : List Trans} (hc : Good c)
    (hp : ∀ t ∈ ts, C12.Prob (val32 t.prob)) : Mono c ts := by
  induction ts generalizing c with
  | nil => trivial
  | cons t ts ih =>
    obtain ⟨h1, h2⟩ := good_step hc (hp t List.mem_cons_self)
    exact ⟨h1, ih h2 (fun t' ht' => hp t' (List.mem_cons_of_mem _ ht'))⟩

theorem good_bands {c : FV} {ts : List Trans} (hc : Good c)
    (hp : ∀ t ∈ ts, C12.Prob (val32 t.prob)) : ∀ b ∈ bands c ts, Good b.lo ∧ Good b.hi := by
  induction ts generalizing c with
  | nil => intro b hb; simp [bands] at hb
  | cons t ts ih =>
    intro b hb
    obtain ⟨_, h2⟩ := good_step hc (hp t List.mem_cons_self)
    rcases List.mem_cons.mp hb with rfl | hb
    · exact ⟨hc, h2⟩
    · exact ih h2 (fun t' ht' => hp t' (List.mem_cons_of_mem _ ht')) b hb

theorem good_total {c : FV} {ts : List Trans} (hc : Good c)
    (hp : ∀ t ∈ ts, C12.Prob (val32 t.prob)) : Good (total c ts) := by
  induction ts generalizing c with
  | nil => exact hc
  | cons t ts ih =>
    exact ih (good_step hc (hp t List.mem_cons_self)).2 (fun t' ht' => hp t' (List.mem_cons_of_mem _ ht'))

theorem total_eq_f32sum (ts : List Trans) : total (.fin 0) ts = C12.f32sum ts := by
  unfold C12.f32sum
  generalize (FV.fin 0) = c
  induction ts generalizing c with
  | nil => rfl
  | cons t ts ih => simp only [total, List.foldl_cons]; exact ih _

/-! ### counting -/

theorem count_interval (n lo hi : Nat) :
    ((List.range n).filter (fun k => decide (lo ≤ k ∧ k < hi))).length = min n hi - min n lo := by
  induction n with
  | zero => simp
  | succ n ih =>
    rw [List.range_succ, List.filter_append, List.length_append, ih]
    by_cases h : lo ≤ n ∧ n < hi
    · simp only [List.filter_cons, h, and_self, decide_true, ↓reduceIte, List.filter_nil,
        List.length_cons, List.length_nil]
      omega
    · have : decide (lo ≤ n ∧ n < hi) = false := by simpa using h
      simp only [List.filter_cons, this, Bool.false_eq_true, ↓reduceIte, List.filter_nil, List.length_nil]
      omega

theorem count_congr {P Q : Nat → Bool} (h : ∀ k, k < N → P k = Q k) : count P = count Q := by
  unfold count
  rw [List.filter_congr (fun k hk => h k (List.mem_range.mp hk))]

theorem N_pos : (0 : ℚ) < (N : ℚ) := by unfold N; norm_num

theorem ceil_eq (q : ℚ) : q.ceil = ⌈q⌉ := by
  rw [Rat.ceil_eq_neg_floor_neg, Int.ceil, floor_eq]
  rfl

theorem ceilN_fin {q : ℚ} (h0 : 0 ≤ q) : ∀ k : Nat, k < N → (ceilN (.fin q) ≤ k ↔ q ≤ (k : ℚ) / (N : ℚ)) := by
  intro k hk
  simp only [ceilN]
  have hc : (0 : Int) ≤ (q * (N : ℚ)).ceil := by
    rw [ceil_eq]; exact Int.ceil_nonneg (mul_nonneg h0 N_pos.le)
  rw [le_div_iff₀ N_pos]
  constructor
  · intro h
    have h1 : (q * (N : ℚ)).ceil.toNat ≤ k := by omega
    have h2 : (q * (N : ℚ)).ceil ≤ (k : Int) := by omega
    rw [ceil_eq] at h2
    exact_mod_cast Int.ceil_le.mp h2
  · intro h
    have h2 : ⌈q * (N : ℚ)⌉ ≤ (k : Int) := Int.ceil_le.mpr (by exact_mod_cast h)
    rw [← ceil_eq] at h2
    omega

/-- **counting lemma**: the number of `k < N` with `a ≤ k/N < b` is `⌈bN⌉ − ⌈aN⌉` (clipped) -/
theorem count_band {a b : ℚ} (ha : 0 ≤ a) (hb : 0 ≤ b) :
    count (fun k => decide (a ≤ (k : ℚ) / (N : ℚ)) && decide ((k : ℚ) / (N : ℚ) < b)) =
      ceilN (.fin b) - ceilN (.fin a) := by
  have hA : ceilN (.fin a) ≤ N := by simp only [ceilN]; exact Nat.min_le_left _ _
  have hB : ceilN (.fin b) ≤ N := by simp only [ceilN]; exact Nat.min_le_left _ _
  rw [count_congr (Q := fun k => decide (ceilN (.fin a) ≤ k ∧ k < ceilN (.fin b)))]
  · unfold count
    rw [count_interval]
    omega
  · intro k hk
    have h1 := ceilN_fin ha k hk
    have h2 := ceilN_fin hb k hk
    by_cases c1 : a ≤ (k : ℚ) / (N : ℚ) <;> by_cases c2 : (k : ℚ) / (N : ℚ) < b
    · have : ¬ ceilN (.fin b) ≤ k := fun h => absurd (h2.mp h) (not_le.mpr c2)
      simp [c1, c2, h1.mpr c1]; omega
    · have : ceilN (.fin b) ≤ k := h2.mpr (not_lt.mp c2)
      simp [c1, c2]; omega
    · have : ¬ ceilN (.fin a) ≤ k := fun h => c1 (h1.mp h)
      simp [c1, c2]; omega
    · have : ¬ ceilN (.fin a) ≤ k := fun h => c1 (h1.mp h)
      simp [c1, c2]; omega

theorem ceilN_le_N (v : FV) : ceilN v ≤ N := by
  rcases v with _ | ⟨_ | _⟩ | q <;> simp [ceilN]

/-- counting for bands whose ends are running sums (`+inf` ends included) -/
theorem count_good_band {lo hi : FV} (hlo : Good lo) (hhi : Good hi) :
    count (fun k => le lo (draw k) && lt (draw k) hi) = ceilN hi - ceilN lo := by
  rcases lo with _ | s | a
  · exact hlo.elim
  · -- lo = +inf: no outcome, and ceilN lo = N
    simp only [Good] at hlo; subst hlo
    have : count (fun k => le (.inf false) (draw k) && lt (draw k) hi) = count (fun _ => false) := by
      apply count_congr; intro k _; simp [draw, le]
    rw [this]
    have : ceilN (.inf false) = N := rfl
    rw [this]
    have := ceilN_le_N hi
    simp [count]; omega
  · rcases hi with _ | s | b
    · exact hhi.elim
    · simp only [Good] at hhi; subst hhi
      have h1 : count (fun k => le (.fin a) (draw k) && lt (draw k) (.inf false)) =
          count (fun k => decide (a ≤ (k : ℚ) / (N : ℚ)) && decide ((k : ℚ) / (N : ℚ) < 1)) := by
        apply count_congr; intro k hk
        have : (k : ℚ) / (N : ℚ) < 1 := by
          rw [div_lt_one N_pos]; exact_mod_cast hk
        simp [draw, lt, this]
      rw [h1, count_band hlo.1 (by norm_num)]
      have : ceilN (.fin 1) = N := by
        simp only [ceilN, one_mul]
        have : ((N : ℚ)).ceil = (N : Int) := by exact_mod_cast Rat.ceil_intCast (N : Int)
        rw [this]; simp
      rw [this]; rfl
    · have h1 : count (fun k => le (.fin a) (draw k) && lt (draw k) (.fin b)) =
          count (fun k => decide (a ≤ (k : ℚ) / (N : ℚ)) && decide ((k : ℚ) / (N : ℚ) < b)) := by
        apply count_congr; intro k _; simp [draw]
      rw [h1, count_band hlo.1 hhi.1]

/-! ### closeness of the share to the declared probability -/

theorem bands_hi_eq (c : FV) (ts : List Trans) : ∀ b ∈ bands c ts, b.hi = add f32 b.lo b.p := by
  induction ts generalizing c with
  | nil => intro b hb; simp [bands] at hb
  | cons t ts ih =>
    intro b hb
    rcases List.mem_cons.mp hb with rfl | hb
    · rfl
    · exact ih _ b hb

theorem bands_p_mem (c : FV) (ts : List Trans) : ∀ b ∈ bands c ts, ∃ t ∈ ts, b.p = val32 t.prob ∧ b.target = t.target := by
  induction ts generalizing c with
  | nil => intro b hb; simp [bands] at hb
  | cons t ts ih =>
    intro b hb
    rcases List.mem_cons.mp hb with rfl | hb
    · exact ⟨t, List.mem_cons_self, rfl, rfl⟩
    · obtain ⟨t', ht', h⟩ := ih _ b hb
      exact ⟨t', List.mem_cons_of_mem _ ht', h⟩

theorem mono_band_le_total {c : FV} {ts : List Trans} (h : Mono c ts) :
    ∀ b ∈ bands c ts, le b.hi (total c ts) = true := by
  induction ts generalizing c with
  | nil => intro b hb; simp [bands] at hb
  | cons t ts ih =>
    intro b hb
    obtain ⟨h1, h2⟩ := h
    have hc' : add f32 c (val32 t.prob) ≠ .nan := by intro e; rw [e] at h1; simp at h1
    rcases List.mem_cons.mp hb with rfl | hb
    · exact mono_total h2 hc'
    · exact ih h2 b hb

theorem rep_two : Rep 24 (-149) 2 := ⟨1, 1, by decide, by decide, by simp [pow2_eq_zpow]⟩

theorem ceilN_bounds {q : ℚ} (h0 : 0 ≤ q) (h1 : q ≤ 1) :
    q * (N : ℚ) ≤ (ceilN (.fin q) : ℚ) ∧ (ceilN (.fin q) : ℚ) < q * (N : ℚ) + 1 := by
  simp only [ceilN]
  have hc0 : (0 : Int) ≤ (q * (N : ℚ)).ceil := by
    rw [ceil_eq]; exact Int.ceil_nonneg (mul_nonneg h0 N_pos.le)
  have hcN : (q * (N : ℚ)).ceil ≤ (N : Int) := by
    rw [ceil_eq]; apply Int.ceil_le.mpr
    have : q * (N : ℚ) ≤ 1 * (N : ℚ) := mul_le_mul_of_nonneg_right h1 N_pos.le
    simpa using this
  have hmin : min N (q * (N : ℚ)).ceil.toNat = (q * (N : ℚ)).ceil.toNat := by
    apply Nat.min_eq_right; omega
  rw [hmin]
  have hcast : (((q * (N : ℚ)).ceil.toNat : Nat) : ℚ) = (((q * (N : ℚ)).ceil : Int) : ℚ) := by
    have : (((q * (N : ℚ)).ceil.toNat : Nat) : Int) = (q * (N : ℚ)).ceil := Int.toNat_of_nonneg hc0
    exact_mod_cast congrArg (fun z : Int => (z : ℚ)) this
  rw [hcast, ceil_eq]
  exact ⟨Int.le_ceil _, Int.ceil_lt_add_one _⟩

/-- the share of a band differs from the declared probability by less than the resolution of
    the draw (`2^-23`) plus one f32 rounding of a sum below 2 (`2^-24`) -/
theorem band_share_close {lo hi p : FV} (hlo : Good lo) (hp : C12.Prob p) (hhi : hi = add f32 lo p)
    {c : ℚ} (hc : hi = .fin c) (hc1 : c ≤ 1) :
    ∃ pq : ℚ, p = .fin pq ∧
      |(((ceilN hi - ceilN lo : Nat)) : ℚ) / (N : ℚ) - pq| < 1 / 2 ^ 23 + 1 / 2 ^ 24 := by
  rcases p with _ | _ | pq
  · exact hp.elim
  · exact hp.elim
  obtain ⟨hpq0, hpq1⟩ := hp
  refine ⟨pq, rfl, ?_⟩
  rcases lo with _ | s | a
  · exact hlo.elim
  · simp only [Good] at hlo; subst hlo
    rw [hhi] at hc; simp [add] at hc
  obtain ⟨ha0, harep, halt⟩ := hlo
  -- hi = round (a + pq) = fin c
  have hround : f32.round (a + pq) = .fin c := by rw [← hc, hhi]; rfl
  obtain ⟨hceq, _, _⟩ := Fmt.round_fin_bound f32 hround
  have hsum_pos : 0 < a + pq := by linarith
  -- a ≤ c
  have hac : a ≤ c := by
    rw [hceq]
    exact le_rne_of_rep_le 24 (by decide) (-149) harep (by linarith)
  -- a + pq < 2, otherwise c ≥ 2
  have hlt2 : a + pq < 2 := by
    by_contra hge
    have : (2 : ℚ) ≤ rne 24 (-149) (a + pq) := le_rne_of_rep_le 24 (by decide) (-149) rep_two (not_lt.mp hge)
    have h2 : (2 : ℚ) ≤ c := by rw [hceq]; exact this
    linarith
  have hexpo : expo 24 (-149) (a + pq) ≤ -23 := by
    have h1 : ilog2 (a + pq) < 1 := ilog2_lt_of_lt_pow2 hsum_pos (by simpa [pow2_eq_zpow] using hlt2)
    unfold expo; omega
  have herr : |c - (a + pq)| ≤ 1 / 2 ^ 24 := by
    have h := rne_err_pos 24 (-149) hsum_pos
    have h2 : pow2 (expo 24 (-149) (a + pq)) ≤ pow2 (-23) := pow2_le_pow2 hexpo
    have h3 : pow2 (-23) / 2 = 1 / 2 ^ 24 := by rw [pow2_eq_zpow, zpow_neg]; norm_num
    have h4 : f32.p = 24 := rfl
    have h5 : f32.emin = -149 := rfl
    rw [h4, h5] at hceq
    rw [hceq]
    calc |rne 24 (-149) (a + pq) - (a + pq)| ≤ pow2 (expo 24 (-149) (a + pq)) / 2 := h
      _ ≤ pow2 (-23) / 2 := by linarith
      _ = 1 / 2 ^ 24 := h3
  have hc0 : 0 ≤ c := le_trans ha0 hac
  have ha1 : a ≤ 1 := le_trans hac hc1
  obtain ⟨hc_lo, hc_hi⟩ := ceilN_bounds hc0 hc1
  obtain ⟨ha_lo, ha_hi⟩ := ceilN_bounds ha0 ha1
  have hmono : ceilN (.fin a) ≤ ceilN (.fin c) := by
    -- ⌈aN⌉ ≤ ⌈cN⌉
    simp only [ceilN]
    have : (a * (N : ℚ)).ceil ≤ (c * (N : ℚ)).ceil := by
      rw [ceil_eq, ceil_eq]
      exact Int.ceil_le_ceil (mul_le_mul_of_nonneg_right hac N_pos.le)
    omega
  rw [hc]
  have hsub : (((ceilN (.fin c) - ceilN (.fin a) : Nat)) : ℚ) = (ceilN (.fin c) : ℚ) - (ceilN (.fin a) : ℚ) := by
    exact Nat.cast_sub hmono
  rw [hsub]
  have hN : (N : ℚ) = 2 ^ 23 := by unfold N; norm_num
  have hNpos := N_pos
  rw [abs_le] at herr
  have h23 : (1 : ℚ) / 2 ^ 23 = 1 / (N : ℚ) := by rw [hN]
  rw [h23]
  have hmul : ∀ x : ℚ, (x + 1 / (N : ℚ)) * (N : ℚ) = x * (N : ℚ) + 1 := by
    intro x; field_simp
  have hmul' : ∀ x : ℚ, (x - 1 / (N : ℚ)) * (N : ℚ) = x * (N : ℚ) - 1 := by
    intro x; field_simp
  have hD1 : ((ceilN (.fin c) : ℚ) - (ceilN (.fin a) : ℚ)) / (N : ℚ) < (c - a) + 1 / (N : ℚ) := by
    rw [div_lt_iff₀ hNpos, hmul]; nlinarith
  have hD2 : (c - a) - 1 / (N : ℚ) < ((ceilN (.fin c) : ℚ) - (ceilN (.fin a) : ℚ)) / (N : ℚ) := by
    rw [lt_div_iff₀ hNpos, hmul']; nlinarith
  rw [abs_lt]
  constructor <;> linarith [herr.1, herr.2]

theorem rep_one : Rep 24 (-149) 1 := ⟨1, 0, by decide, by decide, by simp [pow2_zero]⟩

theorem round_one : f32.round 1 = .fin 1 :=
  Fmt.round_eq_self_of_rep f32 rep_one
    (by have : pow2 0 < pow2 f32.emax := pow2_lt_pow2 (by decide); rwa [pow2_zero] at this)
    (by have := pow2_pos f32.emax; linarith)

theorem rep_unit (k : Nat) (hk : k < 2 ^ 23) : Rep 24 (-149) ((k : ℚ) / ((2 ^ 23 : Nat) : ℚ)) := by
  refine ⟨k, -23, by decide, ?_, ?_⟩
  · rw [abs_of_nonneg (by positivity)]
    have : (k : Int) < 2 ^ 23 := by exact_mod_cast hk
    omega
  · rw [pow2_eq_zpow]; push_cast
    rw [zpow_neg]; norm_num; ring

end C06
end Mb
