/-
  Basic lemmas about the simulator model: the `Except` plumbing, and that `pick_next` and its
  branches never touch the clock.
-/
import MbVerif.Sim.Main

namespace Mb.Sim
open Mb

theorem bind_ok_iff {ε α β : Type} (x : Except ε α) (f : α → Except ε β) (b : β) :
    (x >>= f) = .ok b ↔ ∃ a, x = .ok a ∧ f a = .ok b := by
  cases x with
  | error e => simp [bind, Except.bind]
  | ok a => simp [bind, Except.bind]

theorem bind_error_iff {ε α β : Type} (x : Except ε α) (f : α → Except ε β) (e : ε) :
    (x >>= f) = .error e ↔ x = .error e ∨ ∃ a, x = .ok a ∧ f a = .error e := by
  cases x with
  | error e' => simp [bind, Except.bind]
  | ok a => simp [bind, Except.bind]

section
variable {σ : Type}

@[simp] theorem setSide_now (st : St σ) (c : Bool) (x : Side σ) : (st.setSide c x).now = st.now := by
  unfold St.setSide; split <;> rfl

@[simp] theorem setSide_net (st : St σ) (c : Bool) (x : Side σ) : (st.setSide c x).net = st.net := by
  unfold St.setSide; split <;> rfl

@[simp] theorem setSide_sq (st : St σ) (c : Bool) (x : Side σ) : (st.setSide c x).sq = st.sq := by
  unfold St.setSide; split <;> rfl

@[simp] theorem setSide_orc (st : St σ) (c : Bool) (x : Side σ) : (st.setSide c x).orc = st.orc := by
  unfold St.setSide; split <;> rfl

theorem pickAgg_now {st st' : St σ} (h : pickAgg st = .ok st') : st'.now = st.now := by
  unfold pickAgg at h
  split at h
  · cases h
  rw [bind_ok_iff] at h
  obtain ⟨net, _, h2⟩ := h
  cases h2; rfl

theorem pickBlockExp_now {st st' : St σ} {b : Nat} {c : Bool} {e : SimEvent}
    (h : pickBlockExp st b c = .ok (e, st')) : st'.now = st.now := by
  unfold pickBlockExp at h
  rw [bind_ok_iff] at h
  obtain ⟨net, _, h2⟩ := h
  cases h2; simp

theorem pickBlockExp_ev {st st' : St σ} {b : Nat} {c : Bool} {e : SimEvent}
    (h : pickBlockExp st b c = .ok (e, st')) : e = ⟨.blockingEnd, st.now + b, c, false, false, false⟩ := by
  unfold pickBlockExp at h
  rw [bind_ok_iff] at h
  obtain ⟨net, _, h2⟩ := h
  cases h2; rfl

theorem pickQueue_now {st st' : St σ} {q : Nat} {qid : Queue} {c : Bool} {e : SimEvent}
    (h : pickQueue st q qid c = .ok (e, st')) : st'.now = st.now := by
  unfold pickQueue at h
  rw [bind_ok_iff] at h
  obtain ⟨r, _, h2⟩ := h
  cases r with
  | none => simp at h2
  | some p =>
    obtain ⟨tmp, sq⟩ := p
    simp only [] at h2
    cases h2; rfl

/-- the event returned by the queue branch is never before the clock plus the peeked offset -/
theorem pickQueue_time {st st' : St σ} {q : Nat} {qid : Queue} {c : Bool} {e : SimEvent}
    (h : pickQueue st q qid c = .ok (e, st')) : st.now + q ≤ e.time := by
  unfold pickQueue at h
  rw [bind_ok_iff] at h
  obtain ⟨r, _, h2⟩ := h
  cases r with
  | none => simp at h2
  | some p =>
    obtain ⟨tmp, sq⟩ := p
    simp only [] at h2
    cases h2
    by_cases hm : st.now + (q : Int) > tmp.time
    · simp [hm]
    · simp [hm]; omega

theorem doInternalTimer_now {st st' : St σ} {t : Int} {e : SimEvent}
    (h : doInternalTimer st t = .ok (e, st')) : st'.now = st.now := by
  unfold doInternalTimer at h
  split at h
  · cases h; rfl
  · split at h
    · cases h; rfl
    · cases h

theorem doScheduledAction_now {st st' : St σ} {t : Int} {e : SimEvent}
    (h : doScheduledAction st t = .ok (e, st')) : st'.now = st.now := by
  unfold doScheduledAction at h
  simp only [] at h
  split at h
  · cases h
  · split at h
    · cases h
    · cases h
    · cases h; simp
    · cases h; simp

theorem pickTimer_now {st st' : St σ} {i : Nat} (h : pickTimer st i = .ok st') : st'.now = st.now := by
  unfold pickTimer at h
  rw [bind_ok_iff] at h
  obtain ⟨⟨ev, st1⟩, h1, h2⟩ := h
  cases h2
  simpa using doInternalTimer_now h1

theorem pickAction_now {st st' : St σ} {s : Nat} (h : pickAction st s = .ok st') : st'.now = st.now := by
  unfold pickAction at h
  rw [bind_ok_iff] at h
  obtain ⟨⟨ev, st1⟩, h1, h2⟩ := h
  cases h2
  simpa using doScheduledAction_now h1

/-- `pick_next` does not move the clock -/
theorem pickNext_now : ∀ (fuel : Nat) (st st' : St σ) (e : Option SimEvent),
    pickNext fuel st = some (.ok (e, st')) → st'.now = st.now := by
  intro fuel
  induction fuel with
  | zero => intro st st' e h; simp [pickNext] at h
  | succ n ih =>
    intro st st' e h
    unfold pickNext at h
    split at h
    · cases h
    · cases h; rfl
    · split at h
      · cases h
      · rename_i st1 h1
        rw [ih _ _ _ h, pickAgg_now h1]
    · split at h
      · cases h
      · rename_i e1 st1 h1
        cases h
        exact pickBlockExp_now h1
    · split at h
      · cases h
      · rename_i e1 st1 h1
        cases h
        exact pickQueue_now h1
    · split at h
      · cases h
      · rename_i st1 h1
        rw [ih _ _ _ h, pickTimer_now h1]
    · split at h
      · cases h
      · rename_i st1 h1
        rw [ih _ _ _ h, pickAction_now h1]

end
end Mb.Sim
