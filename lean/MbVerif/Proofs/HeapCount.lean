/-
  The heap model neither loses nor invents elements: for every predicate `p`, `push` adds the
  pushed element to the count and `pop` removes exactly the returned one; `pop` returns what
  `peek` shows.
-/
import MbVerif.Sim.Heap

namespace Mb.Sim
open Mb

def b2n (b : Bool) : Nat := if b then 1 else 0

section
variable {α : Type} (p : α → Bool)

theorem countP_set_add (l : List α) (i : Nat) (a : α) (h : i < l.length) :
    (l.set i a).countP p + b2n (p l[i]) = l.countP p + b2n (p a) := by
  rw [List.countP_set h]
  have := List.boole_getElem_le_countP (p := p) h
  unfold b2n
  split <;> split <;> simp_all <;> omega

/-- replacing the hole's content by `v = d[c]` and moving the hole to `c` keeps the multiset of
    "list with the hole filled by x" -/
theorem countP_move_hole (d : List α) (hole c : Nat) (x v : α) (hh : hole < d.length) (hc : c < d.length)
    (hne : c ≠ hole) (hv : d[c]? = some v) :
    ((d.set hole v).set c x).countP p = (d.set hole x).countP p := by
  have hv' : d[c] = v := by
    have := List.getElem?_eq_getElem hc
    rw [this] at hv; exact Option.some.inj hv
  have h1 := countP_set_add p (d.set hole v) c x (by simpa using hc)
  have h2 := countP_set_add p d hole v hh
  have h3 := countP_set_add p d hole x hh
  have h4 : (d.set hole v)[c]'(by simpa using hc) = v := by
    rw [List.getElem_set_ne (by omega)]; exact hv'
  rw [h4] at h1
  omega

variable (le : α → α → Bool)

theorem siftUp_countP (x : α) : ∀ (fuel : Nat) (d : List α) (start pos : Nat), pos < d.length →
    (Heap.siftUp le x fuel d start pos).countP p = (d.set pos x).countP p := by
  intro fuel
  induction fuel with
  | zero => intro d start pos h; simp [Heap.siftUp]
  | succ n ih =>
    intro d start pos hpos
    unfold Heap.siftUp
    split
    · rename_i hgt
      simp only []
      have hpar : (pos - 1) / 2 < pos := by omega
      cases hd : d[(pos - 1) / 2]? with
      | none => simp
      | some pp =>
        simp only []
        split
        · rfl
        · rw [ih (d.set pos pp) start ((pos - 1) / 2) (by simp; omega)]
          exact countP_move_hole p d pos ((pos - 1) / 2) x pp hpos (by omega) (by omega) hd
    · rfl

theorem siftDownLoop_countP (x : α) : ∀ (fuel : Nat) (d : List α) (endd hole : Nat), hole < d.length →
    (Heap.siftDownLoop le fuel d endd hole).2 < (Heap.siftDownLoop le fuel d endd hole).1.length ∧
    ((Heap.siftDownLoop le fuel d endd hole).1.set (Heap.siftDownLoop le fuel d endd hole).2 x).countP p =
      (d.set hole x).countP p := by
  intro fuel
  induction fuel with
  | zero => intro d endd hole h; simp [Heap.siftDownLoop, h]
  | succ n ih =>
    intro d endd hole hh
    unfold Heap.siftDownLoop
    simp only []
    split
    · cases ha : d[2 * hole + 1]? with
      | none => simp [hh]
      | some a =>
        cases hb : d[2 * hole + 1 + 1]? with
        | none => simp [hh]
        | some b =>
          simp only []
          have hca : 2 * hole + 1 < d.length := by
            have := List.getElem?_eq_some_iff.1 ha; exact this.1
          have hcb : 2 * hole + 1 + 1 < d.length := by
            have := List.getElem?_eq_some_iff.1 hb; exact this.1
          by_cases hle : le a b = true
          · simp only [hle, if_true]
            have := ih (d.set hole b) endd (2 * hole + 1 + 1) (by simpa using hcb)
            refine ⟨this.1, ?_⟩
            rw [this.2]
            exact countP_move_hole p d hole (2 * hole + 1 + 1) x b hh hcb (by omega) hb
          · simp only [hle, Bool.false_eq_true, if_false]
            have := ih (d.set hole a) endd (2 * hole + 1) (by simpa using hca)
            refine ⟨this.1, ?_⟩
            rw [this.2]
            exact countP_move_hole p d hole (2 * hole + 1) x a hh hca (by omega) ha
    · split
      · cases ha : d[2 * hole + 1]? with
        | none => simp [hh]
        | some a =>
          simp only []
          have hca : 2 * hole + 1 < d.length := by
            have := List.getElem?_eq_some_iff.1 ha; exact this.1
          refine ⟨by simpa using hca, ?_⟩
          exact countP_move_hole p d hole (2 * hole + 1) x a hh hca (by omega) ha
      · simp [hh]

theorem siftDownToBottom_countP (x : α) (d : List α) (h : 0 < d.length) :
    (Heap.siftDownToBottom le x d).countP p = (d.set 0 x).countP p := by
  unfold Heap.siftDownToBottom
  simp only []
  have h1 := siftDownLoop_countP p le x d.length d d.length 0 h
  rw [siftUp_countP p le x _ _ 0 _ h1.1]
  exact h1.2

/-- `push` adds exactly the pushed element -/
theorem heap_push_countP (h : Heap α) (x : α) :
    (Heap.push le h x).data.countP p = h.data.countP p + b2n (p x) := by
  unfold Heap.push
  simp only []
  rw [siftUp_countP p le x _ _ 0 _ (by simp)]
  have h1 := countP_set_add p (h.data ++ [x]) h.data.length x (by simp)
  have h2 : (h.data ++ [x])[h.data.length]'(by simp) = x := by simp
  rw [h2] at h1
  have h3 : (h.data ++ [x]).countP p = h.data.countP p + b2n (p x) := by
    simp [List.countP_append, List.countP_cons, b2n]
  omega

/-- `pop` removes exactly the returned element, and that element is the one `peek` shows -/
theorem heap_pop_countP {h h' : Heap α} {x : α} (hp : Heap.pop le h = some (x, h')) :
    h.data.countP p = h'.data.countP p + b2n (p x) ∧ h.peek = some x := by
  unfold Heap.pop at hp
  cases hl : h.data.getLast? with
  | none => simp [hl] at hp
  | some last =>
    simp only [hl] at hp
    obtain ⟨ys, hys⟩ := List.getLast?_eq_some_iff.1 hl
    have hdl : h.data.dropLast = ys := by rw [hys]; simp
    rw [hdl] at hp
    cases ys with
    | nil =>
      simp only [] at hp
      cases hp
      simp [hys, Heap.peek, List.countP_cons, b2n]
    | cons root rest =>
      simp only [Option.some.injEq, Prod.mk.injEq] at hp
      obtain ⟨hx, hh⟩ := hp
      subst hx; subst hh
      constructor
      · simp only []
        rw [siftDownToBottom_countP p le last (root :: rest) (by simp)]
        have h1 := countP_set_add p (root :: rest) 0 last (by simp)
        simp only [List.getElem_cons_zero] at h1
        rw [hys, List.countP_append]
        have : List.countP p [last] = b2n (p last) := by simp [List.countP_cons, b2n]
        omega
      · simp [Heap.peek, hys]

theorem heap_empty_countP : (Heap.empty : Heap α).data.countP p = 0 := rfl

end
end Mb.Sim
