/-
  Helper lemmas for C20: the action slot round trip `decodeAction (encodeAction c) = some c`
  for every action whose values fit their fields, from the generic byte lemma and facts about
  the header-derived layout that the kernel evaluates (`variantOK`).
-/
import MbVerif.Proofs.FfiBytes

namespace Mb.Ffi

theorem variantOK_all : ∀ v : Variant, variantOK v = true := by
  intro v; cases v <;> decide

theorem timerOfCode_timerCode (t : Timer) : timerOfCode (timerCode t) = some t := by
  cases t <;> decide

theorem boolOf_boolVal (b : Bool) : boolOf (boolVal b) = some b := by
  cases b <;> rfl

theorem build_values (c : CAction) : CAction.build c.variant c.values = some c := by
  cases c <;> simp [CAction.variant, CAction.values, CAction.build, timerOfCode_timerCode, boolOf_boolVal]

theorem values_length (c : CAction) : c.values.length = c.variant.paths.length := by
  cases c <;> rfl

theorem leaves_length (v : Variant) : v.leaves.length = v.paths.length := by
  simp [Variant.leaves]

theorem writes_fst (c : CAction) : c.writes.map (·.1) = tagLeaf :: c.variant.leaves := by
  simp only [CAction.writes, List.map_cons]
  congr 1
  apply List.map_fst_zip
  rw [leaves_length, values_length]; exact Nat.le_refl _

theorem zip_snd_mod (ls : List Leaf) (vs : List Nat) (hlen : vs.length = ls.length)
    (hfit : (ls.zip vs).all (fun w => decide (w.2 < 256 ^ w.1.size)) = true) :
    (ls.zip vs).map (fun w => w.2 % 256 ^ w.1.size) = vs := by
  induction ls generalizing vs with
  | nil => cases vs with
    | nil => rfl
    | cons _ _ => simp at hlen
  | cons l ls ih => cases vs with
    | nil => simp at hlen
    | cons v vs =>
      simp only [List.zip_cons_cons, List.all_cons, Bool.and_eq_true, decide_eq_true_eq] at hfit
      simp only [List.zip_cons_cons, List.map_cons]
      rw [Nat.mod_eq_of_lt hfit.1, ih vs (by simpa using hlen) hfit.2]

theorem variantOK_parts {v : Variant} (h : variantOK v = true) :
    leavesOK actionL.size (tagLeaf :: v.leaves) = true ∧ v.tag < 256 ^ tagLeaf.size ∧
    variantOfTag v.tag = some v := by
  simp only [variantOK, Bool.and_eq_true, decide_eq_true_eq, beq_iff_eq] at h
  exact ⟨h.1.1.1.1.1, h.1.1.1.2, h.1.1.2⟩

/-- what is read from an encoded slot -/
theorem read_encode (c : CAction) (hfit : c.fits = true) :
    (encodeAction c).length = actionL.size ∧
    readLeaf (encodeAction c) tagLeaf = c.variant.tag ∧
    c.variant.leaves.map (readLeaf (encodeAction c)) = c.values := by
  obtain ⟨hok, htag, _⟩ := variantOK_parts (variantOK_all c.variant)
  have hlen0 : (List.replicate actionL.size FILLER).length = actionL.size := by simp
  have hok' : leavesOK (List.replicate actionL.size FILLER).length (c.writes.map (·.1)) = true := by
    rw [hlen0, writes_fst]; exact hok
  have hrt := readLeaf_writeAll (List.replicate actionL.size FILLER) c.writes hok'
  have hlen := writeAll_length (List.replicate actionL.size FILLER) c.writes (leavesOK_inBounds hok')
  rw [writes_fst] at hrt
  simp only [CAction.writes, List.map_cons, List.cons.injEq] at hrt
  refine ⟨by rw [encodeAction, hlen, hlen0], ?_, ?_⟩
  · rw [encodeAction, CAction.writes, hrt.1, Nat.mod_eq_of_lt htag]
  · rw [encodeAction, CAction.writes, hrt.2]
    exact zip_snd_mod _ _ (by rw [leaves_length, values_length]) hfit

/-- ROUND TRIP of one slot: decoding the bytes of an action with the header-derived layout gives
    the action back, field for field -/
theorem decode_encode (c : CAction) (hfit : c.fits = true) : decodeAction (encodeAction c) = some c := by
  obtain ⟨hlen, htag, hvals⟩ := read_encode c hfit
  obtain ⟨_, _, hvt⟩ := variantOK_parts (variantOK_all c.variant)
  simp only [decodeAction, hlen, ne_eq, not_true_eq_false, if_false, htag, hvt, hvals, build_values]

theorem encodeAction_length (c : CAction) : (encodeAction c).length = actionL.size := by
  obtain ⟨hok, _, _⟩ := variantOK_parts (variantOK_all c.variant)
  have hlen0 : (List.replicate actionL.size FILLER).length = actionL.size := by simp
  have hok' : leavesOK (List.replicate actionL.size FILLER).length (c.writes.map (·.1)) = true := by
    rw [hlen0, writes_fst]; exact hok
  rw [encodeAction, writeAll_length _ _ (leavesOK_inBounds hok'), hlen0]

/-! ### the values of a converted framework action fit -/

theorem durOfMicros_eq_splitNanos (us : Nat) : durOfMicros us = splitNanos us := by
  simp only [durOfMicros, splitNanos, CDuration.mk.injEq]
  omega

theorem convertAction_eq_view (a : TAction) : convertAction a = view a := by
  cases a <;> simp [convertAction, view, durOfMicros_eq_splitNanos]

theorem durOfMicros_bounds (us : Nat) (h : us < 2 ^ 64) :
    (durOfMicros us).secs < 2 ^ 64 ∧ (durOfMicros us).nanos < 2 ^ 32 := by
  simp only [durOfMicros]; omega

theorem timerCode_lt (t : Timer) : timerCode t < 256 ^ 4 := by
  cases t <;> decide

theorem boolVal_lt (b : Bool) : boolVal b < 256 ^ 1 := by
  cases b <;> decide

/-- the leaf sizes of each variant, in the order of `Variant.paths`, can hold `usize`, `u64`,
    `u32`, `bool`, and the timer enum (kernel-evaluated from the header) -/
def sizesOK : Bool :=
  (Variant.cancel.leaves.map (·.size) == [8, 4]) &&
  (Variant.sendPadding.leaves.map (·.size) == [8, 8, 4, 1, 1]) &&
  (Variant.blockOutgoing.leaves.map (·.size) == [8, 8, 4, 1, 1, 8, 4]) &&
  (Variant.updateTimer.leaves.map (·.size) == [8, 8, 4, 1])

theorem sizesOK_true : sizesOK = true := by decide

end Mb.Ffi

namespace Mb.Ffi

theorem fits_via_sizes (ls : List Leaf) (vs : List Nat) :
    (ls.zip vs).all (fun w => decide (w.2 < 256 ^ w.1.size)) =
    ((ls.map (·.size)).zip vs).all (fun w => decide (w.2 < 256 ^ w.1)) := by
  induction ls generalizing vs with
  | nil => rfl
  | cons l ls ih => cases vs with
    | nil => rfl
    | cons v vs => simp [ih]

theorem sizes_cancel : Variant.cancel.leaves.map (·.size) = [8, 4] := by decide
theorem sizes_sendPadding : Variant.sendPadding.leaves.map (·.size) = [8, 8, 4, 1, 1] := by decide
theorem sizes_blockOutgoing : Variant.blockOutgoing.leaves.map (·.size) = [8, 8, 4, 1, 1, 8, 4] := by decide
theorem sizes_updateTimer : Variant.updateTimer.leaves.map (·.size) = [8, 8, 4, 1] := by decide

/-- the values of a converted in-range framework action fit their C fields -/
theorem convertAction_fits (a : TAction) (h : inRange a) : (convertAction a).fits = true := by
  cases a with
  | cancel m t =>
    have ht := timerCode_lt t
    simp only [inRange] at h
    simp only [CAction.fits, convertAction, CAction.variant, CAction.values, fits_via_sizes, sizes_cancel]
    simp only [List.zip_cons_cons, List.zip_nil_right, List.all_cons, List.all_nil, Bool.and_true,
      Bool.and_eq_true, decide_eq_true_eq]
    omega
  | sendPadding to b r m =>
    simp only [inRange] at h
    have hd := durOfMicros_bounds to h.2
    have hb := boolVal_lt b
    have hr := boolVal_lt r
    simp only [CAction.fits, convertAction, CAction.variant, CAction.values, fits_via_sizes, sizes_sendPadding]
    simp only [List.zip_cons_cons, List.zip_nil_right, List.all_cons, List.all_nil, Bool.and_true,
      Bool.and_eq_true, decide_eq_true_eq]
    omega
  | blockOutgoing to du b r m =>
    simp only [inRange] at h
    have hd := durOfMicros_bounds to h.2.1
    have hd2 := durOfMicros_bounds du h.2.2
    have hb := boolVal_lt b
    have hr := boolVal_lt r
    simp only [CAction.fits, convertAction, CAction.variant, CAction.values, fits_via_sizes, sizes_blockOutgoing]
    simp only [List.zip_cons_cons, List.zip_nil_right, List.all_cons, List.all_nil, Bool.and_true,
      Bool.and_eq_true, decide_eq_true_eq]
    omega
  | updateTimer du r m =>
    simp only [inRange] at h
    have hd := durOfMicros_bounds du h.2
    have hr := boolVal_lt r
    simp only [CAction.fits, convertAction, CAction.variant, CAction.values, fits_via_sizes, sizes_updateTimer]
    simp only [List.zip_cons_cons, List.zip_nil_right, List.all_cons, List.all_nil, Bool.and_true,
      Bool.and_eq_true, decide_eq_true_eq]
    omega

end Mb.Ffi
