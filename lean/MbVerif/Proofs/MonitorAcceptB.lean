/-
  The monitors `C08.monitor` and `C09.monitor` (Spec/C08.lean, Spec/C09.lean) accept the model's own
  trace `LL.modelTrace` of every history.

  C08. `checkLog` / `strayCZ` / "no CounterZero at the start" are `CL.call_good` (CounterLog.lean).
  New here is the value rule `C08.checkValues`: the relation `V ms s t` says that `t` extends the log
  of `s` by a chronological segment which `checkValues`, started with the state function of `s` and
  ANY list of recent raw samples, walks through without an alarm, arriving at the state function of
  `t`. It is reflexive, transitive, holds for `transition` / `updateCounter` (induction on the fuel;
  no validity or no-fault hypothesis) and hence - by the generic walker - for whole calls.

  C09. `checkCall` is read off the log of a call in three parts (reported events, first delivery
  round, second delivery round). New here: which machine and which event the `sampled _ _ SIGNAL`
  entries of each part belong to (`Own`), so that the monitor's `signallers` / `responders` can be
  compared with the model's pending-signal slot (SigSlot.lean) and deliveries (SigLive.lean).
-/
import MbVerif.Proofs.CounterLog
import MbVerif.Proofs.LimitMonitor
import MbVerif.Proofs.SigLive

namespace Mb
namespace MB
open C08 (checkValues ctrSpec operandOf)

variable {σ : Type} (ρ : Oracle σ)

/-! ## C08: the value rule -/

/-- the current state of every machine (0 for a machine that does not exist), as the monitor reads
    it off the snapshot -/
def stF (s : Fw σ) : Nat → Nat := fun j => match s.rt[j]? with | some r => r.currentState | none => 0

theorem stF_congr {s t : Fw σ} (h : ∀ j : Nat, (t.rt[j]?).map (·.currentState) = (s.rt[j]?).map (·.currentState)) :
    stF t = stF s := by
  funext j
  have := h j
  unfold stF
  cases ht : t.rt[j]? <;> cases hs : s.rt[j]? <;> rw [ht, hs] at this <;> simp at this ⊢
  exact this

/-- entries that `checkValues` passes without looking at the tracked states -/
def quietV : LogEntry → Bool
  | .sampled .. => false
  | .counter .. => false
  | _ => true

theorem checkValues_quiet (ms : List Machine) (st : Nat → Nat) (e : LogEntry) (he : quietV e = true)
    (recent : List F64) (rest : List LogEntry) :
    ∃ recent', checkValues ms st recent (e :: rest) = checkValues ms st recent' rest := by
  cases e with
  | sampled => cases he
  | counter => cases he
  | trans => exact ⟨recent, by simp only [checkValues]⟩
  | draw => exact ⟨recent, by simp only [checkValues]⟩
  | distRaw b => exact ⟨recent ++ [b], by simp only [checkValues]⟩
  | limit => exact ⟨[], by simp only [checkValues]⟩

theorem checkValues_quiets (ms : List Machine) (st : Nat → Nat) (c : List LogEntry) (hc : ∀ e ∈ c, quietV e = true)
    (recent : List F64) (rest : List LogEntry) :
    ∃ recent', checkValues ms st recent (c ++ rest) = checkValues ms st recent' rest := by
  induction c generalizing recent with
  | nil => exact ⟨recent, rfl⟩
  | cons e c ih =>
    obtain ⟨r1, h1⟩ := checkValues_quiet ms st e (hc e (by simp)) recent (c ++ rest)
    obtain ⟨r2, h2⟩ := ih (fun e' he' => hc e' (by simp [he'])) r1
    exact ⟨r2, by rw [List.cons_append, h1, h2]⟩

/-- raw samples are collected in order -/
theorem checkValues_raws (ms : List Machine) (st : Nat → Nat) (raws : List F64) (recent : List F64)
    (rest : List LogEntry) :
    checkValues ms st recent (raws.map .distRaw ++ rest) = checkValues ms st (recent ++ raws) rest := by
  induction raws generalizing recent with
  | nil => simp
  | cons b raws ih =>
    simp only [List.map_cons, List.cons_append, checkValues]
    rw [ih]; simp

/-- `t` extends the log of `s` by a segment that the value rule of `C08.monitor` walks through,
    from the states of `s` to the states of `t`, whatever raw samples were collected before and
    whatever follows -/
def V (ms : List Machine) (s t : Fw σ) : Prop :=
  t.machines = s.machines ∧ ∃ c : List LogEntry, t.log = c.reverse ++ s.log ∧
    (s.machines = ms → ∀ recent rest, ∃ recent',
      checkValues ms (stF s) recent (c ++ rest) = checkValues ms (stF t) recent' rest)

variable {ms : List Machine}

theorem V.refl (s : Fw σ) : V ms s s := ⟨rfl, [], rfl, fun _ recent _ => ⟨recent, rfl⟩⟩

theorem V.trans {s t u : Fw σ} (h₁ : V ms s t) (h₂ : V ms t u) : V ms s u := by
  obtain ⟨m1, c1, e1, p1⟩ := h₁
  obtain ⟨m2, c2, e2, p2⟩ := h₂
  refine ⟨m2.trans m1, c1 ++ c2, by rw [e2, e1, List.reverse_append, List.append_assoc], fun hm recent rest => ?_⟩
  obtain ⟨r1, k1⟩ := p1 hm recent (c2 ++ rest)
  obtain ⟨r2, k2⟩ := p2 (m1.trans hm) r1 rest
  exact ⟨r2, by rw [List.append_assoc, k1, k2]⟩

/-- more quiet entries, no machine changes its state -/
theorem V.quiet {s t : Fw σ} (c : List LogEntry) (hc : ∀ e ∈ c, quietV e = true) (hm : t.machines = s.machines)
    (hl : t.log = c.reverse ++ s.log)
    (hk : ∀ j : Nat, (t.rt[j]?).map (·.currentState) = (s.rt[j]?).map (·.currentState)) : V ms s t := by
  refine ⟨hm, c, hl, fun _ recent rest => ?_⟩
  rw [stF_congr hk]
  exact checkValues_quiets ms _ c hc recent rest

theorem V.keep {s t : Fw σ} (hm : t.machines = s.machines) (hl : t.log = s.log)
    (hk : ∀ j : Nat, (t.rt[j]?).map (·.currentState) = (s.rt[j]?).map (·.currentState)) : V ms s t :=
  V.quiet [] (by simp) hm (by simp [hl]) hk

theorem V.same {s t : Fw σ} (hm : t.machines = s.machines) (hl : t.log = s.log) (hrt : t.rt = s.rt) : V ms s t :=
  V.keep hm hl (fun j => by rw [hrt])

theorem V.withFault (s : Fw σ) (f : Fault) : V ms s (s.withFault f) := V.same (by simp) (by simp) (by simp)

theorem V.modRt (s : Fw σ) (j : Nat) (g : Runtime → Runtime) (hg : ∀ r, (g r).currentState = r.currentState) :
    V ms s (s.modRt j g) := by
  refine V.keep (by simp) (by simp) (fun i => ?_)
  by_cases hi : i = j
  · subst hi
    rw [Fw.modRt_rt_self]
    cases s.rt[i]? <;> simp [hg]
  · rw [Fw.modRt_rt_other s j i g hi]

theorem V.push (s : Fw σ) (e : LogEntry) (he : quietV e = true) : V ms s (s.push e) :=
  V.quiet [e] (by simpa using he) rfl rfl (fun _ => rfl)

/-- sampling: the log grows by quiet entries, runtimes and machines are untouched -/
def QV (s t : Fw σ) : Prop :=
  t.rt = s.rt ∧ t.machines = s.machines ∧ ∃ c : List LogEntry, t.log = c.reverse ++ s.log ∧ ∀ e ∈ c, quietV e = true

theorem QV.refl (s : Fw σ) : QV s s := ⟨rfl, rfl, [], rfl, by simp⟩

theorem QV.trans {s t u : Fw σ} (h₁ : QV s t) (h₂ : QV t u) : QV s u := by
  obtain ⟨r1, m1, c1, e1, q1⟩ := h₁
  obtain ⟨r2, m2, c2, e2, q2⟩ := h₂
  refine ⟨r2.trans r1, m2.trans m1, c1 ++ c2, by rw [e2, e1, List.reverse_append, List.append_assoc], fun e he => ?_⟩
  rcases List.mem_append.1 he with h | h
  · exact q1 e h
  · exact q2 e h

theorem QV.toV {s t : Fw σ} (h : QV s t) : V ms s t := by
  obtain ⟨r, m, c, e, q⟩ := h
  exact V.quiet c q m e (fun j => by rw [r])

theorem qv_distSample (d : Dist) (s : Fw σ) : QV s (distSample ρ d s).2 := by
  unfold distSample
  exact ⟨rfl, rfl, [.distRaw _], rfl, by simp [quietV]⟩

theorem qv_sampleLimit (a : Action) (s : Fw σ) : QV s (sampleLimit ρ a s).2 := by
  unfold sampleLimit; split
  · exact QV.refl s
  · exact qv_distSample ρ _ s

theorem qv_sampleTimeout (a : Action) (s : Fw σ) : QV s (sampleTimeout ρ a s).2 := by
  unfold sampleTimeout; split
  · exact qv_distSample ρ _ s
  · exact qv_distSample ρ _ s
  · exact QV.refl s

theorem qv_sampleDuration (a : Action) (s : Fw σ) : QV s (sampleDuration ρ a s).2 := by
  unfold sampleDuration; split
  · exact qv_distSample ρ _ s
  · exact qv_distSample ρ _ s
  · exact QV.refl s

theorem v_scheduleAction (mi next : Nat) (s : Fw σ) : V ms s (scheduleAction ρ mi next s) := by
  unfold scheduleAction
  cases hm : s.machines[mi]? with
  | none => exact V.withFault s _
  | some m =>
    simp only []
    cases hst : m.states[next]? with
    | none => exact V.withFault s _
    | some st =>
      simp only []
      split
      · exact V.withFault s _
      · cases hact : st.action with
        | none => exact V.same rfl rfl rfl
        | some act =>
          cases act with
          | cancel t => exact V.same rfl rfl rfl
          | sendPadding b rp tmo lim =>
            simp only
            exact (qv_sampleTimeout ρ _ s).toV.trans (V.same rfl rfl rfl)
          | blockOutgoing b rp tmo du lim =>
            simp only
            exact ((qv_sampleTimeout ρ _ s).trans (qv_sampleDuration ρ _ _)).toV.trans (V.same rfl rfl rfl)
          | updateTimer rp du lim =>
            simp only
            exact (qv_sampleDuration ρ _ s).toV.trans (V.same rfl rfl rfl)

/-- the log grows by quiet entries and no machine changes its state (limits, counters and flags
    may change) -/
def QS (s t : Fw σ) : Prop :=
  t.machines = s.machines ∧ (∀ j : Nat, (t.rt[j]?).map (·.currentState) = (s.rt[j]?).map (·.currentState)) ∧
    ∃ c : List LogEntry, t.log = c.reverse ++ s.log ∧ ∀ e ∈ c, quietV e = true

theorem QS.refl (s : Fw σ) : QS s s := ⟨rfl, fun _ => rfl, [], rfl, by simp⟩

theorem QS.trans {s t u : Fw σ} (h₁ : QS s t) (h₂ : QS t u) : QS s u := by
  obtain ⟨m1, r1, c1, e1, q1⟩ := h₁
  obtain ⟨m2, r2, c2, e2, q2⟩ := h₂
  refine ⟨m2.trans m1, fun j => (r2 j).trans (r1 j), c1 ++ c2,
    by rw [e2, e1, List.reverse_append, List.append_assoc], fun e he => ?_⟩
  rcases List.mem_append.1 he with h | h
  · exact q1 e h
  · exact q2 e h

theorem QV.toQS {s t : Fw σ} (h : QV s t) : QS s t := by
  obtain ⟨r, m, c, e, q⟩ := h
  exact ⟨m, fun j => by rw [r], c, e, q⟩

theorem QS.withFault (s : Fw σ) (f : Fault) : QS s (s.withFault f) :=
  ⟨by simp, fun j => by simp, [], by simp, by simp⟩

theorem QS.modRt (s : Fw σ) (j : Nat) (g : Runtime → Runtime) (hg : ∀ r, (g r).currentState = r.currentState) :
    QS s (s.modRt j g) := by
  refine ⟨by simp, fun i => ?_, [], by simp, by simp⟩
  by_cases hi : i = j
  · subst hi
    rw [Fw.modRt_rt_self]
    cases s.rt[i]? <;> simp [hg]
  · rw [Fw.modRt_rt_other s j i g hi]

theorem QS.push (s : Fw σ) (e : LogEntry) (he : quietV e = true) : QS s (s.push e) :=
  ⟨rfl, fun _ => rfl, [e], rfl, by simpa using he⟩

theorem QS.toV {s t : Fw σ} (h : QS s t) : V ms s t := by
  obtain ⟨m, r, c, e, q⟩ := h
  exact V.quiet c q m e r

/-- the state-change block of `transition`: nothing happens if the target is the current state;
    otherwise the state is set and the rest is quiet -/
theorem enterState_shape (mi : Nat) (m : Machine) (cur next : Nat) (s : Fw σ) :
    (cur = next ∧ enterState ρ mi m cur next s = s) ∨
    (cur ≠ next ∧ QS (s.modRt mi (fun r => { r with currentState := next })) (enterState ρ mi m cur next s)) := by
  unfold enterState
  by_cases h : cur = next
  · exact Or.inl ⟨h, by simp [h]⟩
  · refine Or.inr ⟨h, ?_⟩
    rw [if_pos h]
    simp only
    generalize s.modRt mi (fun r => { r with currentState := next }) = s0
    split
    · exact QS.withFault _ _
    · split
      · next a _ =>
        exact ((qv_sampleLimit ρ a s0).toQS.trans (QS.modRt _ mi _ (by intro _; rfl))).trans (QS.push _ _ rfl)
      · exact (QS.modRt _ mi _ (by intro _; rfl)).trans (QS.push _ _ rfl)

theorem checkValues_sampled (ms : List Machine) (st : Nat → Nat) (mi ev next : Nat) (recent : List F64)
    (rest : List LogEntry) :
    checkValues ms st recent (.sampled mi ev next :: rest) =
      checkValues ms (if next != STATE_SIGNAL then (fun j => if j == mi then next else st j) else st) [] rest := by
  simp only [checkValues]

/-- a sampled target that is not the signal pseudo-state, after which machine `mi` is in that
    state, followed by quiet entries -/
theorem V.sampled {s t : Fw σ} {mi ev next : Nat} (c : List LogEntry) (hc : ∀ e ∈ c, quietV e = true)
    (hns : next ≠ STATE_SIGNAL) (hm : t.machines = s.machines)
    (hl : t.log = c.reverse ++ (.sampled mi ev next :: s.log))
    (hk : ∀ j : Nat, (t.rt[j]?).map (·.currentState) = if j = mi then some next else (s.rt[j]?).map (·.currentState))
    (hex : ∃ r, s.rt[mi]? = some r) : V ms s t := by
  refine ⟨hm, .sampled mi ev next :: c, by simp [hl], fun _ recent rest => ?_⟩
  rw [List.cons_append, checkValues_sampled]
  have hns' : (next != STATE_SIGNAL) = true := by simpa using hns
  rw [hns', if_pos rfl]
  have hst : (fun j => if j == mi then next else stF s j) = stF t := by
    funext j
    have := hk j
    unfold stF
    by_cases hj : j = mi
    · subst hj
      simp only [if_true] at this
      cases ht : t.rt[j]? with
      | none => rw [ht] at this; simp at this
      | some r' => rw [ht] at this; simp at this; simp [this]
    · simp only [hj, if_false] at this
      have hj' : (j == mi) = false := by simpa using hj
      simp only [hj']
      cases ht : t.rt[j]? <;> cases hs : s.rt[j]? <;> rw [ht, hs] at this <;> simp at this ⊢
      exact this.symm
  rw [hst]
  exact checkValues_quiets ms _ c hc [] rest

/-- the signal pseudo-state: the tracked states stay -/
theorem V.sampledSignal {s t : Fw σ} {mi ev : Nat} (hm : t.machines = s.machines)
    (hl : t.log = .sampled mi ev STATE_SIGNAL :: s.log) (hrt : t.rt = s.rt) : V ms s t := by
  refine ⟨hm, [.sampled mi ev STATE_SIGNAL], by simp [hl], fun _ recent rest => ?_⟩
  rw [List.cons_append, checkValues_sampled]
  have : stF t = stF s := stF_congr (fun j => by rw [hrt])
  rw [this]
  exact ⟨[], by simp⟩

/-! ### the counter update -/

/-- number of raw samples one counter specification consumes -/
def needOf (c : Option Counter) : Nat :=
  match c with
  | some c => if !c.copy && c.dist.isSome then 1 else 0
  | none => 0

/-- the monitor's expected new value of counter A and the raw samples left for B -/
def expAOf (ca : Option Counter) (ao bo : Nat) (raws : List F64) : Nat × List F64 :=
  match ca with
  | none => (ao, raws)
  | some c => (applyOp c.operation ao (operandOf c bo raws).1, (operandOf c bo raws).2)

/-- the monitor's expected new value of counter B -/
def expBOf (cb : Option Counter) (ao bo : Nat) (raws : List F64) : Nat :=
  match cb with
  | none => bo
  | some c => applyOp c.operation bo (operandOf c ao raws).1

theorem checkValues_counter (ms : List Machine) (st : Nat → Nat) (mi ao an bo bn : Nat) (recent : List F64)
    (rest : List LogEntry) (ca cb : Option Counter) (hspec : ctrSpec ms mi (st mi) = some (ca, cb))
    (hA : an = (expAOf ca ao bo (recent.drop (recent.length - (needOf ca + needOf cb)))).1)
    (hB : bn = expBOf cb ao bo (expAOf ca ao bo (recent.drop (recent.length - (needOf ca + needOf cb)))).2) :
    checkValues ms st recent (.counter mi ao an bo bn :: rest) = checkValues ms st [] rest := by
  subst hA hB
  cases ca <;> cases cb <;> simp [checkValues, hspec, needOf, expAOf, expBOf]

/-- the operand of a counter update as the model computes it is the operand the monitor computes
    from the raw samples the update logs -/
theorem operand_val (c : Counter) (other : Nat) (s : Fw σ) :
    ∃ raws : List F64, raws.length = needOf (some c) ∧
      (counterOperand ρ c other s).2.log = (raws.map LogEntry.distRaw).reverse ++ s.log ∧
      (counterOperand ρ c other s).2.rt = s.rt ∧ (counterOperand ρ c other s).2.machines = s.machines ∧
      ∀ more, operandOf c other (raws ++ more) = ((counterOperand ρ c other s).1, more) := by
  unfold counterOperand operandOf
  cases hc : c.copy with
  | true => exact ⟨[], by simp [needOf, hc], rfl, rfl, rfl, fun more => by simp⟩
  | false =>
    simp only [Bool.false_eq_true, if_false]
    unfold sampleValue
    cases hd : c.dist with
    | none => exact ⟨[], by simp [needOf, hc, hd], rfl, rfl, rfl, fun more => by simp⟩
    | some d =>
      simp only []
      unfold distSample
      refine ⟨[match d.constUniform with | some lo => lo | none => (ρ.d d s.rng).1], by simp [needOf, hc, hd],
        rfl, rfl, rfl, fun more => ?_⟩
      cases d.constUniform <;> simp

theorem applyA_val (mi : Nat) (c : Option Counter) (oldA oldB : Nat) (s : Fw σ) (r : Runtime)
    (hr : s.rt[mi]? = some r) (hoA : oldA = r.counterA) :
    ∃ (raws : List F64) (newA : Nat) (r' : Runtime), raws.length = needOf c ∧
      (applyCounterA ρ mi c oldA oldB s).1.log = (raws.map LogEntry.distRaw).reverse ++ s.log ∧
      (applyCounterA ρ mi c oldA oldB s).1.machines = s.machines ∧
      (applyCounterA ρ mi c oldA oldB s).1.rt[mi]? = some r' ∧ r'.currentState = r.currentState ∧
      r'.counterA = newA ∧ r'.counterB = r.counterB ∧
      (∀ j, j ≠ mi → (applyCounterA ρ mi c oldA oldB s).1.rt[j]? = s.rt[j]?) ∧
      ∀ more, expAOf c oldA oldB (raws ++ more) = (newA, more) := by
  unfold applyCounterA
  cases c with
  | none => exact ⟨[], oldA, r, rfl, rfl, rfl, hr, rfl, hoA.symm, rfl, fun _ _ => rfl, fun more => rfl⟩
  | some c =>
    simp only []
    obtain ⟨raws, hlen, hl, hrt, hm, hop⟩ := operand_val ρ c oldB s
    generalize counterOperand ρ c oldB s = p at hl hrt hm hop ⊢
    obtain ⟨_, h2, h3, h4, h5⟩ := CL.storeA_spec mi oldA (applyOp c.operation oldA p.1) p.2 r (by rw [hrt]; exact hr)
    refine ⟨raws, applyOp c.operation oldA p.1, _, hlen, by rw [h4, hl], h5.trans hm, h2, rfl, rfl, rfl,
      fun j hj => by rw [h3 j hj, hrt], fun more => ?_⟩
    simp only [expAOf, hop more]

theorem applyB_val (mi : Nat) (c : Option Counter) (oldA oldB : Nat) (s : Fw σ) (r : Runtime)
    (hr : s.rt[mi]? = some r) (hoB : oldB = r.counterB) :
    ∃ (raws : List F64) (newB : Nat) (r' : Runtime), raws.length = needOf c ∧
      (applyCounterB ρ mi c oldA oldB s).1.log = (raws.map LogEntry.distRaw).reverse ++ s.log ∧
      (applyCounterB ρ mi c oldA oldB s).1.machines = s.machines ∧
      (applyCounterB ρ mi c oldA oldB s).1.rt[mi]? = some r' ∧ r'.currentState = r.currentState ∧
      r'.counterA = r.counterA ∧ r'.counterB = newB ∧
      (∀ j, j ≠ mi → (applyCounterB ρ mi c oldA oldB s).1.rt[j]? = s.rt[j]?) ∧
      expBOf c oldA oldB raws = newB := by
  unfold applyCounterB
  cases c with
  | none => exact ⟨[], oldB, r, rfl, rfl, rfl, hr, rfl, rfl, hoB.symm, fun _ _ => rfl, rfl⟩
  | some c =>
    simp only []
    obtain ⟨raws, hlen, hl, hrt, hm, hop⟩ := operand_val ρ c oldA s
    generalize counterOperand ρ c oldA s = p at hl hrt hm hop ⊢
    obtain ⟨_, h2, h3, h4, h5⟩ := CL.storeB_spec mi oldB (applyOp c.operation oldB p.1) p.2 r (by rw [hrt]; exact hr)
    refine ⟨raws, applyOp c.operation oldB p.1, _, hlen, by rw [h4, hl], h5.trans hm, h2, rfl, rfl, rfl,
      fun j hj => by rw [h3 j hj, hrt], ?_⟩
    have := hop []
    rw [List.append_nil] at this
    simp only [expBOf, this]

theorem drop_suffix {α : Type} (pre suf : List α) (n : Nat) (hn : suf.length = n) :
    (pre ++ suf).drop ((pre ++ suf).length - n) = suf := by
  subst hn
  rw [List.length_append, Nat.add_sub_cancel]
  exact List.drop_left

/-- the counter entry of `update_counter`, preceded by the raw samples of its two operands -/
theorem V.counter {s t : Fw σ} {mi : Nat} {r : Runtime} {m : Machine} {st : State} (rawsA rawsB : List F64)
    (newA newB : Nat)
    (hr : s.rt[mi]? = some r) (hm : s.machines[mi]? = some m) (hst : m.states[r.currentState]? = some st)
    (hmm : t.machines = s.machines)
    (hl : t.log = .counter mi r.counterA newA r.counterB newB ::
      ((rawsB.map LogEntry.distRaw).reverse ++ ((rawsA.map LogEntry.distRaw).reverse ++ s.log)))
    (hk : ∀ j : Nat, (t.rt[j]?).map (·.currentState) = (s.rt[j]?).map (·.currentState))
    (hlenA : rawsA.length = needOf st.counterA) (hlenB : rawsB.length = needOf st.counterB)
    (hA : ∀ more, expAOf st.counterA r.counterA r.counterB (rawsA ++ more) = (newA, more))
    (hB : expBOf st.counterB r.counterA r.counterB rawsB = newB) : V ms s t := by
  refine ⟨hmm, rawsA.map .distRaw ++ (rawsB.map .distRaw ++ [.counter mi r.counterA newA r.counterB newB]),
    by simp [hl], fun hms recent rest => ?_⟩
  rw [stF_congr hk]
  refine ⟨[], ?_⟩
  rw [List.append_assoc, checkValues_raws, List.append_assoc, checkValues_raws]
  have hdrop : (recent ++ rawsA ++ rawsB).drop ((recent ++ rawsA ++ rawsB).length - (needOf st.counterA + needOf st.counterB)) =
      rawsA ++ rawsB := by
    rw [List.append_assoc]
    exact drop_suffix recent (rawsA ++ rawsB) _ (by rw [List.length_append, hlenA, hlenB])
  refine checkValues_counter ms (stF s) mi _ _ _ _ _ rest st.counterA st.counterB ?_ ?_ ?_
  · unfold ctrSpec stF
    rw [← hms, hm, hr]
    simp only [hst]
  · rw [hdrop, hA rawsB]
  · rw [hdrop, hA rawsB, hB]

theorem v_main (fuel : Nat) :
    (∀ mi ev (s : Fw σ), V ms s (transition ρ fuel mi ev s).1) ∧
    (∀ mi (s : Fw σ), V ms s (updateCounter ρ fuel mi s).1) := by
  induction fuel with
  | zero =>
    refine ⟨fun mi ev s => ?_, fun mi s => ?_⟩
    · rw [transition]; exact V.withFault _ _
    · rw [updateCounter]; exact V.withFault _ _
  | succ n ih =>
    obtain ⟨ihT, ihU⟩ := ih
    refine ⟨fun mi ev s => ?_, fun mi s => ?_⟩
    · rw [transition]
      cases hr : s.rt[mi]? with
      | none => exact V.withFault _ _
      | some r =>
      cases hm : s.machines[mi]? with
      | none => exact V.withFault _ _
      | some m =>
      simp only []
      have h0 : V ms s (s.push (.trans mi ev.toNat r.currentState)) := V.push _ _ rfl
      have hr0 : (s.push (.trans mi ev.toNat r.currentState)).rt[mi]? = some r := hr
      generalize s.push (.trans mi ev.toNat r.currentState) = s' at h0 hr0 ⊢
      split
      · exact h0
      · cases hst : m.states[r.currentState]? with
        | none => exact h0.trans (V.withFault _ _)
        | some st =>
        simp only []
        cases htr : st.transitions[ev.toNat]? with
        | none => exact h0.trans (V.withFault _ _)
        | some ov =>
        cases ov with
        | none => exact h0
        | some vec =>
        simp only []
        generalize hs1 : (({ s' with rng := (ρ.u s'.rng).2 }).push (.draw (ρ.u s'.rng).1)) = s1
        have q1 : V ms s s1 := by
          subst hs1
          exact h0.trans (V.quiet [.draw _] (by simp [quietV]) rfl rfl (fun _ => rfl))
        have hr1 : s1.rt[mi]? = some r := by subst hs1; exact hr0
        cases hss : sampleState vec (ρ.u s'.rng).1 with
        | none => simp only []; exact q1
        | some next =>
        simp only []
        split
        · next hend =>
          subst hend
          refine q1.trans (V.sampled (mi := mi) (ev := ev.toNat) (next := STATE_END) [] (by simp)
            STATE_END_ne_SIGNAL (by simp) (by simp [Fw.push]) (fun j => ?_) ⟨r, hr1⟩)
          by_cases hj : j = mi
          · subst hj
            rw [Fw.modRt_rt_self, Fw.push_rt, hr1, if_pos rfl]; rfl
          · rw [Fw.modRt_rt_other _ mi j _ hj, if_neg hj]; rfl
        · split
          · next hsig =>
            subst hsig
            exact q1.trans (V.sampledSignal rfl rfl rfl)
          · next hne hns =>
            have q3 : V ms s1 (enterState ρ mi m r.currentState next (s1.push (.sampled mi ev.toNat next))) := by
              rcases enterState_shape ρ mi m r.currentState next (s1.push (.sampled mi ev.toNat next)) with
                ⟨heq, he⟩ | ⟨hneq, hq⟩
              · rw [he]
                refine V.sampled (mi := mi) (ev := ev.toNat) (next := next) [] (by simp) hns rfl rfl (fun j => ?_) ⟨r, hr1⟩
                by_cases hj : j = mi
                · subst hj
                  rw [Fw.push_rt, hr1, if_pos rfl, ← heq]; rfl
                · rw [if_neg hj]; rfl
              · obtain ⟨hm3, hk3, c, hl3, hc3⟩ := hq
                refine V.sampled (mi := mi) (ev := ev.toNat) (next := next) c hc3 hns (by rw [hm3]; simp)
                  (by rw [hl3]; simp [Fw.push]) (fun j => ?_) ⟨r, hr1⟩
                rw [hk3 j]
                by_cases hj : j = mi
                · subst hj
                  rw [Fw.modRt_rt_self, Fw.push_rt, hr1, if_pos rfl]; rfl
                · rw [Fw.modRt_rt_other _ mi j _ hj, if_neg hj]; rfl
            have q3' := q1.trans q3
            generalize enterState ρ mi m r.currentState next (s1.push (.sampled mi ev.toNat next)) = s3 at q3' ⊢
            cases hr3 : s3.rt[mi]? with
            | none => simp only []; exact q3'.trans (V.withFault _ _)
            | some r1 =>
            simp only []
            cases hb : belowActionLimits s3.g r1 m with
            | none => simp only []; exact q3'.trans (V.withFault _ _)
            | some below =>
            simp only []
            have q4 := q3'.trans (ihU mi s3)
            have q5 : V ms s (if ((updateCounter ρ n mi s3).2.1 && below) = true
                then scheduleAction ρ mi next (updateCounter ρ n mi s3).1 else (updateCounter ρ n mi s3).1) := by
              split
              · exact q4.trans (v_scheduleAction ρ mi next _)
              · exact q4
            generalize (if ((updateCounter ρ n mi s3).2.1 && below) = true
                then scheduleAction ρ mi next (updateCounter ρ n mi s3).1 else (updateCounter ρ n mi s3).1) = s5 at q5 ⊢
            cases hr5 : s5.rt[mi]? with
            | none => simp only []; exact q5.trans (V.withFault _ _)
            | some r2 => simp only []; exact q5
    · rw [updateCounter]
      cases hr : s.rt[mi]? with
      | none => exact V.withFault _ _
      | some r =>
      cases hm : s.machines[mi]? with
      | none => exact V.withFault _ _
      | some m =>
      simp only []
      cases hst : m.states[r.currentState]? with
      | none => exact V.withFault _ _
      | some st =>
      simp only []
      obtain ⟨rawsA, newA, rA, hlenA, hlA, hmA, hrtA, hcsA, hcA, hcbA, hoA, hexpA⟩ :=
        applyA_val ρ mi st.counterA r.counterA r.counterB s r hr rfl
      generalize applyCounterA ρ mi st.counterA r.counterA r.counterB s = ra at hlA hmA hrtA hoA ⊢
      obtain ⟨rawsB, newB, rB, hlenB, hlB, hmB, hrtB, hcsB, hcaB, hcB, hoB, hexpB⟩ :=
        applyB_val ρ mi st.counterB r.counterA r.counterB ra.1 rA hrtA hcbA.symm
      generalize applyCounterB ρ mi st.counterB r.counterA r.counterB ra.1 = rb at hlB hmB hrtB hoB ⊢
      have hcA' : counterAOf rb.1 mi = newA := by unfold counterAOf; rw [hrtB]; simp only []; rw [hcaB, hcA]
      have hcB' : counterBOf rb.1 mi = newB := by unfold counterBOf; rw [hrtB]; simp only []; exact hcB
      rw [hcA', hcB']
      have q2 : V ms s (rb.1.push (.counter mi r.counterA newA r.counterB newB)) := by
        refine V.counter rawsA rawsB newA newB hr hm hst (by simp [hmB, hmA]) (by simp [Fw.push, hlB, hlA])
          (fun j => ?_) hlenA hlenB hexpA hexpB
        by_cases hj : j = mi
        · subst hj
          rw [Fw.push_rt, hrtB, hr]; simp [hcsB, hcsA]
        · rw [Fw.push_rt, hoB j hj, hoA j hj]
      generalize rb.1.push (.counter mi r.counterA newA r.counterB newB) = s2 at q2 ⊢
      split
      · have qT := q2.trans (ihT mi .counterZero s2)
        split
        · exact qT.trans (V.withFault _ _)
        · exact qT
      · exact q2

/-! ### whole calls -/

theorem v_decrement (j : Nat) (s : Fw σ) : V ms s (decrementLimit ρ j s) := by
  unfold decrementLimit
  cases hr : s.rt[j]? with
  | none => exact V.withFault _ _
  | some r =>
  cases hm : s.machines[j]? with
  | none => exact V.withFault _ _
  | some m =>
  simp only []
  generalize (if r.stateLimit > 0 then r.stateLimit - 1 else r.stateLimit) = lim
  have h1 : V ms s ((s.modRt j (fun r' => { r' with stateLimit := lim })).push (.limit j lim true)) :=
    (V.modRt s j _ (by intro _; rfl)).trans (V.push _ _ rfl)
  generalize (s.modRt j (fun r' => { r' with stateLimit := lim })).push (.limit j lim true) = s1 at h1 ⊢
  cases hst : m.states[r.currentState]? with
  | none => exact h1.trans (V.withFault _ _)
  | some st =>
  simp only []
  cases hact : st.action with
  | none => exact h1
  | some a =>
    simp only []
    split
    · split
      · exact h1.trans (V.withFault _ _)
      · exact (h1.trans (V.same (t := { s1 with actions := s1.actions.set j none }) rfl rfl rfl)).trans
          ((v_main ρ FUEL).1 j .limitReached _)
    · exact h1

theorem walkV : WalkEv ρ (V (σ := σ) ms) where
  refl := V.refl
  trans := V.trans
  transition j ev s _ := (v_main ρ FUEL).1 j ev s
  decrement j s _ := v_decrement ρ j s
  fault s f := V.withFault s f
  signal s p := V.same rfl rfl rfl
  setG s g' := V.same rfl rfl rfl
  acct s j f hf := V.modRt s j f (fun r => by rw [hf r])

theorem stF_callStart (s : Fw σ) (t : Int) : stF (s.callStart t) = stF s := by
  refine stF_congr (fun j => ?_)
  simp only [Fw.callStart, List.getElem?_map]
  cases s.rt[j]? <;> rfl

/-- **The value rule accepts the log segment of every call of the model**: every logged counter
    update equals the specified saturating operation on the specified operand (1, the saturating
    cast of the clamped raw sample logged just before, or the other counter's old value), in the
    state the monitor tracks from the snapshot before the call and the `sampled` entries. -/
theorem call_values (es : List TEvent) (t : Int) (s : Fw σ) (hm : s.machines = ms) :
    (triggerEvents ρ es t s).machines = s.machines ∧
    ∃ c, (triggerEvents ρ es t s).log = c.reverse ++ s.log ∧ checkValues ms (stF s) [] c = none := by
  unfold triggerEvents
  have W := walkV ρ (σ := σ) (ms := ms)
  have h0 : V ms s (s.callStart t) := V.keep rfl rfl (fun j => by
    simp only [Fw.callStart, List.getElem?_map]
    cases s.rt[j]? <;> rfl)
  have h1 : V ms (s.callStart t) (es.foldl (fun s e => processEvent ρ e s) (s.callStart t)) :=
    W.toWalkCore.foldl _ (fun a e => W.processEvent e a) es _
  have h2 := W.toWalkCore.signalRound (es.foldl (fun s e => processEvent ρ e s) (s.callStart t))
  obtain ⟨hmm, c, hl, hp⟩ := (h0.trans h1).trans h2
  refine ⟨hmm, c, hl, ?_⟩
  obtain ⟨recent', hc⟩ := hp hm [] []
  rw [List.append_nil] at hc
  rw [hc]
  simp only [checkValues]

/-! ### `C08.monitor` on the model's trace -/

theorem stF_snap (s : Fw σ) : (fun j => match s.snap.rts[j]? with | some r => r.state | none => 0) = stF s := by
  funext j
  unfold stF Fw.snap
  simp only [List.getElem?_map]
  cases s.rt[j]? <;> rfl

theorem stOf_snap (s : Fw σ) : LL.stOf s.snap = stF s := by
  funext j
  unfold LL.stOf stF Fw.snap
  simp only [List.getElem?_map]
  cases s.rt[j]? <;> rfl

theorem go08_nil (t : FwTrace) (i : Nat) (prev : Snap) : C08.monitor.go t i prev [] = none := by
  rw [C08.monitor.go]

theorem go08_bad (t : FwTrace) (i : Nat) (prev : Snap) (c : CallRec) (cs : List CallRec) (h : c.res ≠ .ok) :
    C08.monitor.go t i prev (c :: cs) = none := by
  rw [C08.monitor.go]
  have : (c.res != Res.ok) = true := by simpa using h
  simp [this]

theorem go08_ok (t : FwTrace) (i : Nat) (prev : Snap) (c : CallRec) (cs : List CallRec)
    (hv : checkValues t.machines (fun j => match prev.rts[j]? with | some r => r.state | none => 0) [] c.log = none)
    (hl : C08.checkLog { a := [], b := [] } c.log = none)
    (hh : CL.headCZ c.log = false)
    (hs : C08.strayCZ c.log = none) :
    C08.monitor.go t i prev (c :: cs) = if c.res != .ok then none else C08.monitor.go t (i + 1) c.snap cs := by
  rw [C08.monitor.go]
  split
  · rfl
  · split
    · next msg heq => exact absurd (heq.symm.trans hv) (by simp)
    · split
      · next msg heq => exact absurd (heq.symm.trans hl) (by simp)
      · split
        · next msg heq =>
          exfalso
          cases hlog : c.log with
          | nil => rw [hlog] at heq; simp at heq
          | cons e l =>
            rw [hlog] at heq hh
            cases e with
            | trans mi ev st =>
              have : (ev == Gen.EV_CounterZero) = false := hh
              simp [this] at heq
            | _ => simp at heq
        · split
          · next msg heq => exact absurd (heq.symm.trans hs) (by simp)
          · rfl

/-- the u64 bound on the counters, in the form `CL.call_good` wants -/
def U64 (s : Fw σ) : Prop := ∀ r ∈ s.rt, r.counterA ≤ Fp.u64Max ∧ r.counterB ≤ Fp.u64Max

theorem go08_model (t : FwTrace) (h : List Call) : ∀ (i : Nat) (s : Fw σ), s.machines = t.machines → U64 s →
    C08.monitor.go t i s.snap (LL.callRecs ρ s h) = none := by
  induction h with
  | nil => intro i s _ _; exact go08_nil _ _ _
  | cons c h ih =>
    intro i s hm hb
    rw [LL.callRecs]
    have hb0 : U64 (LL.resetLog s) := hb
    have hm0 : (LL.resetLog s).machines = t.machines := hm
    have hl0 : (LL.resetLog s).log = [] := rfl
    obtain ⟨cc, f', hcc, hg, hi⟩ := CL.call_good ρ c.1 c.2 (LL.resetLog s) hb0
    obtain ⟨hmm, cv, hcv, hval⟩ := call_values ρ (ms := t.machines) c.1 c.2 (LL.resetLog s) hm0
    rw [hl0, List.append_nil] at hcc hcv
    by_cases hok : (triggerEvents ρ c.1 c.2 (LL.resetLog s)).fault = none
    · have hlog : (LL.callRec ρ s c).log = cc := by
        show (triggerEvents ρ c.1 c.2 (LL.resetLog s)).log.reverse = cc
        rw [hcc, List.reverse_reverse]
      have hlog' : (LL.callRec ρ s c).log = cv := by
        show (triggerEvents ρ c.1 c.2 (LL.resetLog s)).log.reverse = cv
        rw [hcv, List.reverse_reverse]
      rw [go08_ok]
      · have hres : (LL.callRec ρ s c).res = .ok := (LL.resOf_ok _).2 hok
        simp only [hres, bne_self_eq_false, Bool.false_eq_true, if_false]
        refine ih (i + 1) _ (hmm.trans hm0) ?_
        intro r hr
        obtain ⟨k, hk, hget⟩ := List.getElem_of_mem hr
        exact hi.bnd k r (by rw [List.getElem?_eq_getElem hk, hget])
      · rw [hlog', stF_snap]
        exact hval
      · rw [hlog]
        have := hg.chk [] rfl
        rw [List.append_nil] at this
        rw [this]; rfl
      · rw [hlog]; exact hg.head
      · rw [hlog]
        have := hg.stray [] rfl
        rw [List.append_nil] at this
        rw [this]; rfl
    · exact go08_bad _ _ _ _ _ (fun hres => hok ((LL.resOf_ok _).1 hres))

theorem u64_init (ms : List Machine) (fp fb : F64) (t0 : Int) (rng : σ) : U64 (Fw.init ρ ms fp fb t0 rng) := by
  have step : ∀ (s : Fw σ) (mi : Nat), (∀ r ∈ s.rt, r.counterA = 0 ∧ r.counterB = 0) →
      ∀ r ∈ (initLimit ρ s mi).rt, r.counterA = 0 ∧ r.counterB = 0 := by
    intro s mi hs
    unfold initLimit
    split
    · simpa using hs
    · split
      · simpa using hs
      · split
        · exact hs
        · next a _ =>
          have hrt := (sampleLimit_spec ρ mi a s).1.rt
          intro r hr
          obtain ⟨i, hi, hget⟩ := List.getElem_of_mem hr
          have hr' : ((sampleLimit ρ a s).2.modRt mi
              (fun r => { r with stateLimit := (sampleLimit ρ a s).1 })).rt[i]? = some r := by
            rw [List.getElem?_eq_getElem hi, hget]
          by_cases him : i = mi
          · subst him
            rw [Fw.modRt_rt_self, hrt] at hr'
            cases h0 : s.rt[i]? with
            | none => rw [h0] at hr'; cases hr'
            | some r0 =>
              rw [h0] at hr'
              simp only [Option.map_some, Option.some.injEq] at hr'
              rw [← hr']
              exact hs r0 (List.mem_of_getElem? h0)
          · rw [Fw.modRt_rt_other _ mi i _ him, hrt] at hr'
            exact hs r (List.mem_of_getElem? hr')
  have hz : ∀ r ∈ (Fw.init ρ ms fp fb t0 rng).rt, r.counterA = 0 ∧ r.counterB = 0 := by
    unfold Fw.init
    generalize List.range ms.length = idx
    have h0 : ∀ r ∈ (Fw.init0 ms fp fb t0 rng).rt, r.counterA = 0 ∧ r.counterB = 0 := by
      intro r hr
      simp only [Fw.init0, List.mem_map] at hr
      obtain ⟨_, _, rfl⟩ := hr
      exact ⟨rfl, rfl⟩
    generalize Fw.init0 ms fp fb t0 rng = s0 at h0
    induction idx generalizing s0 with
    | nil => exact h0
    | cons i idx ih => exact ih _ (step s0 i h0)
  intro r hr
  obtain ⟨ha, hb⟩ := hz r hr
  rw [ha, hb]; exact ⟨Nat.zero_le _, Nat.zero_le _⟩

/-- **`C08.monitor` accepts the model's own trace of every history.** -/
theorem monitor08_model (ms : List Machine) (fp fb : F64) (t0 : Int) (rng : σ) (h : List Call) :
    C08.monitor (LL.modelTrace ρ ms fp fb t0 rng h) = none := by
  unfold C08.monitor
  exact go08_model ρ (LL.modelTrace ρ ms fp fb t0 rng h) h 1 (Fw.init ρ ms fp fb t0 rng)
    (LL.machines_run (init_run ρ ms fp fb t0 rng)) (u64_init ρ ms fp fb t0 rng)

/-! ## C09: `checkCall` on lists -/

open C09 (dedup signallers responders deliveries checkCall)

theorem dedup_fold_mem (l acc : List Nat) (a : Nat) :
    a ∈ l.foldl (fun acc x => if acc.contains x then acc else acc ++ [x]) acc ↔ a ∈ acc ∨ a ∈ l := by
  induction l generalizing acc with
  | nil => simp
  | cons x l ih =>
    rw [List.foldl_cons, ih]
    by_cases h : acc.contains x = true
    · rw [if_pos h]
      have hx : x ∈ acc := by simpa using h
      constructor
      · rintro (h1 | h1)
        · exact Or.inl h1
        · exact Or.inr (List.mem_cons_of_mem _ h1)
      · rintro (h1 | h1)
        · exact Or.inl h1
        · rcases List.mem_cons.1 h1 with rfl | h2
          · exact Or.inl hx
          · exact Or.inr h2
    · rw [if_neg h]
      simp only [List.mem_append, List.mem_cons]
      tauto

theorem mem_dedup (l : List Nat) (a : Nat) : a ∈ dedup l ↔ a ∈ l := by
  unfold dedup
  rw [dedup_fold_mem]
  simp

theorem dedup_fold_nodup (l acc : List Nat) (h : acc.Nodup) :
    (l.foldl (fun acc x => if acc.contains x then acc else acc ++ [x]) acc).Nodup := by
  induction l generalizing acc with
  | nil => exact h
  | cons x l ih =>
    rw [List.foldl_cons]
    apply ih
    by_cases hx : acc.contains x = true
    · rw [if_pos hx]; exact h
    · rw [if_neg hx]
      have hx' : x ∉ acc := by simpa using hx
      rw [List.nodup_append]
      refine ⟨h, List.nodup_singleton x, ?_⟩
      intro a ha b hb
      rw [List.mem_singleton] at hb
      subst hb
      exact fun hab => hx' (hab ▸ ha)

theorem dedup_nodup (l : List Nat) : (dedup l).Nodup := dedup_fold_nodup l [] List.nodup_nil

/-- a duplicate-free list with two entries holds two distinct values -/
theorem two_distinct (k : List Nat) (hk : k.Nodup) (h2 : k.length ≥ 2) : ∃ a ∈ k, ∃ b ∈ k, a ≠ b := by
  match k, hk, h2 with
  | a :: b :: r, hk, _ =>
    rw [List.nodup_cons] at hk
    exact ⟨a, by simp, b, by simp, fun hab => hk.1 (by simp [hab])⟩

/-- the part of `C09.checkCall` after the signallers have been counted -/
def checkBody (n : Nat) (many : Bool) (k resp : List Nat) (log : List LogEntry) (liveAtEnd : Nat → Bool) :
    Option String :=
  let ms := List.range n
  match ms.find? (fun i => deliveries log i > 1) with
  | some i => some s!"machine {i} received more than one Signal"
  | none =>
  if many then
    match ms.find? (fun i => liveAtEnd i && deliveries log i != 1) with
    | some i => some s!"several signallers but live machine {i} received {deliveries log i} Signals"
    | none => none
  else match k with
  | [] =>
    match ms.find? (fun i => deliveries log i != 0) with
    | some i => some s!"no signaller but machine {i} received a Signal"
    | none => none
  | x :: _ =>
    match ms.find? (fun i => i != x && liveAtEnd i && deliveries log i != 1) with
    | some i => some s!"lone signaller {x} but live machine {i} received {deliveries log i} Signals"
    | none =>
      let answered := resp.any (fun y => y != x)
      if answered then
        if liveAtEnd x && deliveries log x != 1 then some s!"lone signaller {x} was answered but received {deliveries log x} Signals" else none
      else if deliveries log x != 0 then some s!"lone signaller {x} received its own Signal (signalled {(signallers log).length} distinct, not answered)"
      else none

/-- the list of signallers the monitor works with: those of this call and the one carried over -/
def kOf (pending : Option SignalTarget) (log : List LogEntry) : List Nat :=
  match pending with
  | some (.allExcept x) => dedup (signallers log ++ [x])
  | _ => signallers log

theorem checkCall_eq (n : Nat) (pending : Option SignalTarget) (log : List LogEntry) (live : Nat → Bool) :
    checkCall n pending log live =
      checkBody n (pending == some .all || decide ((kOf pending log).length ≥ 2)) (kOf pending log) (responders log) log live := by
  cases pending with
  | none => rfl
  | some p => cases p <;> rfl

theorem checkBody_none (n : Nat) (many : Bool) (k resp : List Nat) (log : List LogEntry) (live : Nat → Bool)
    (hle : ∀ i, deliveries log i ≤ 1)
    (hmany : many = true → ∀ i, i < n → live i = true → deliveries log i = 1)
    (hnone : many = false → k = [] → ∀ i, i < n → deliveries log i = 0)
    (hlone : ∀ x r, many = false → k = x :: r →
      (∀ i, i < n → i ≠ x → live i = true → deliveries log i = 1) ∧
      ((∃ y ∈ resp, y ≠ x) → live x = true → deliveries log x = 1) ∧
      ((¬ ∃ y ∈ resp, y ≠ x) → deliveries log x = 0)) :
    checkBody n many k resp log live = none := by
  unfold checkBody
  simp only []
  have e1 : (List.range n).find? (fun i => decide (deliveries log i > 1)) = none := by
    rw [List.find?_eq_none]
    intro i _
    have := hle i
    simp only [decide_eq_true_eq]; omega
  rw [e1]
  simp only []
  cases hm : many with
  | true =>
    simp only [if_true]
    have e2 : (List.range n).find? (fun i => live i && deliveries log i != 1) = none := by
      rw [List.find?_eq_none]
      intro i hi
      rw [List.mem_range] at hi
      cases hl : live i with
      | false => simp
      | true => simp [hmany hm i hi hl]
    rw [e2]
  | false =>
    simp only [Bool.false_eq_true, if_false]
    cases hk : k with
    | nil =>
      simp only []
      have e3 : (List.range n).find? (fun i => deliveries log i != 0) = none := by
        rw [List.find?_eq_none]
        intro i hi
        rw [List.mem_range] at hi
        simp [hnone hm hk i hi]
      rw [e3]
    | cons x r =>
      simp only []
      obtain ⟨h1, h2, h3⟩ := hlone x r hm hk
      have e4 : (List.range n).find? (fun i => i != x && live i && deliveries log i != 1) = none := by
        rw [List.find?_eq_none]
        intro i hi
        rw [List.mem_range] at hi
        by_cases hix : i = x
        · simp [hix]
        · cases hl : live i with
          | false => simp
          | true => simp [h1 i hi hix hl]
      rw [e4]
      simp only []
      by_cases ha : ∃ y ∈ resp, y ≠ x
      · have hany : resp.any (fun y => y != x) = true := by
          rw [List.any_eq_true]
          obtain ⟨y, hy, hyx⟩ := ha
          exact ⟨y, hy, by simpa using hyx⟩
        rw [hany]
        simp only [if_true]
        cases hl : live x with
        | false => simp
        | true => simp [h2 ha hl]
      · have hany : resp.any (fun y => y != x) = false := by
          rw [Bool.eq_false_iff]
          intro h
          rw [List.any_eq_true] at h
          obtain ⟨y, hy, hyx⟩ := h
          exact ha ⟨y, hy, by simpa using hyx⟩
        rw [hany]
        simp [h3 ha]

/-! ## C09: whose entries a transition logs -/

/-- entries that are neither deliveries nor sampled targets -/
def inert : LogEntry → Bool
  | .trans .. => false
  | .sampled .. => false
  | _ => true

/-- `t` extends the log of `s` (newest first) by inert entries; the number of machines stays -/
def QI (s t : Fw σ) : Prop :=
  t.rt.length = s.rt.length ∧ ∃ l : List LogEntry, t.log = l ++ s.log ∧ ∀ e ∈ l, inert e = true

theorem QI.refl (s : Fw σ) : QI s s := ⟨rfl, [], rfl, by simp⟩

theorem QI.trans {s t u : Fw σ} (h₁ : QI s t) (h₂ : QI t u) : QI s u := by
  obtain ⟨n1, l1, e1, q1⟩ := h₁
  obtain ⟨n2, l2, e2, q2⟩ := h₂
  refine ⟨n2.trans n1, l2 ++ l1, by rw [e2, e1, List.append_assoc], fun e he => ?_⟩
  rcases List.mem_append.1 he with h | h
  · exact q2 e h
  · exact q1 e h

theorem QI.same {s t : Fw σ} (hl : t.log = s.log) (hn : t.rt.length = s.rt.length) : QI s t :=
  ⟨hn, [], by simp [hl], by simp⟩

theorem QI.withFault (s : Fw σ) (f : Fault) : QI s (s.withFault f) := QI.same (by simp) (by simp)

theorem QI.modRt (s : Fw σ) (j : Nat) (g : Runtime → Runtime) : QI s (s.modRt j g) := QI.same (by simp) (by simp)

theorem QI.push (s : Fw σ) (e : LogEntry) (he : inert e = true) : QI s (s.push e) :=
  ⟨rfl, [e], rfl, by simpa using he⟩

theorem QI.ofQ {s t : Fw σ} (h : LL.Q s t) : QI s t := by
  obtain ⟨c, e, g, r, _⟩ := h
  refine ⟨by rw [r], c.reverse, e, fun x hx => ?_⟩
  obtain ⟨b, rfl⟩ := g x (List.mem_reverse.1 hx)
  rfl

theorem qi_enterState (mi : Nat) (m : Machine) (cur next : Nat) (s : Fw σ) : QI s (enterState ρ mi m cur next s) := by
  unfold enterState
  split
  · simp only
    have h1 : QI s (s.modRt mi (fun r => { r with currentState := next })) := QI.modRt s mi _
    split
    · exact h1.trans (QI.withFault _ _)
    · split
      · next a _ =>
        exact ((h1.trans (QI.ofQ (LL.q_sampleLimit ρ a _))).trans (QI.modRt _ mi _)).trans (QI.push _ _ rfl)
      · exact (h1.trans (QI.modRt _ mi _)).trans (QI.push _ _ rfl)
  · exact QI.refl s

theorem qi_storeCounterA (mi oldA newA : Nat) (s : Fw σ) : QI s (storeCounterA mi oldA newA s).1 := by
  unfold storeCounterA; simp only
  split
  · exact (QI.modRt s mi _).trans (QI.modRt _ mi _)
  · exact QI.modRt s mi _

theorem qi_storeCounterB (mi oldB newB : Nat) (s : Fw σ) : QI s (storeCounterB mi oldB newB s).1 := by
  unfold storeCounterB; simp only
  split
  · exact (QI.modRt s mi _).trans (QI.modRt _ mi _)
  · exact QI.modRt s mi _

theorem qi_applyCounterA (mi : Nat) (c : Option Counter) (oldA oldB : Nat) (s : Fw σ) :
    QI s (applyCounterA ρ mi c oldA oldB s).1 := by
  unfold applyCounterA
  cases c with
  | none => exact QI.refl s
  | some c => exact (QI.ofQ (LL.q_counterOperand ρ c oldB s)).trans (qi_storeCounterA mi _ _ _)

theorem qi_applyCounterB (mi : Nat) (c : Option Counter) (oldA oldB : Nat) (s : Fw σ) :
    QI s (applyCounterB ρ mi c oldA oldB s).1 := by
  unfold applyCounterB
  cases c with
  | none => exact QI.refl s
  | some c => exact (QI.ofQ (LL.q_counterOperand ρ c oldA s)).trans (qi_storeCounterB mi _ _ _)

theorem qi_scheduleAction (mi next : Nat) (s : Fw σ) : QI s (scheduleAction ρ mi next s) := by
  unfold scheduleAction
  cases hm : s.machines[mi]? with
  | none => exact QI.withFault s _
  | some m =>
    simp only []
    cases hst : m.states[next]? with
    | none => exact QI.withFault s _
    | some st =>
      simp only []
      split
      · exact QI.withFault s _
      · cases hact : st.action with
        | none => exact QI.same rfl rfl
        | some act =>
          cases act with
          | cancel t => exact QI.same rfl rfl
          | sendPadding b rp tmo lim =>
            simp only
            exact (QI.ofQ (LL.q_sampleTimeout ρ _ s)).trans (QI.same rfl rfl)
          | blockOutgoing b rp tmo du lim =>
            simp only
            exact (QI.ofQ ((LL.q_sampleTimeout ρ _ s).trans (LL.q_sampleDuration ρ _ _))).trans (QI.same rfl rfl)
          | updateTimer rp du lim =>
            simp only
            exact (QI.ofQ (LL.q_sampleDuration ρ _ s)).trans (QI.same rfl rfl)

/-- what a transition of machine `j` on the event numbered `evn` may log: deliveries to `j` of that
    event or of CounterZero, and targets sampled for `j` on one of these two events -/
def Own (j evn : Nat) : LogEntry → Prop
  | .trans m e _ => m = j ∧ (e = evn ∨ e = Gen.EV_CounterZero)
  | .sampled m e _ => m = j ∧ (e = evn ∨ e = Gen.EV_CounterZero)
  | _ => True

theorem Own.ofInert {j evn : Nat} {e : LogEntry} (h : inert e = true) : Own j evn e := by
  cases e <;> trivial

theorem Own.ofCZ {j evn : Nat} {e : LogEntry} (h : Own j Gen.EV_CounterZero e) : Own j evn e := by
  cases e with
  | trans m e' st => exact ⟨h.1, Or.inr (h.2.elim id id)⟩
  | sampled m e' nx => exact ⟨h.1, Or.inr (h.2.elim id id)⟩
  | _ => trivial

/-- `t` extends the log of `s` (newest first) by entries of machine `j` for the event `evn` -/
def O (j evn : Nat) (s t : Fw σ) : Prop :=
  t.rt.length = s.rt.length ∧ ∃ l : List LogEntry, t.log = l ++ s.log ∧ ∀ e ∈ l, Own j evn e

theorem O.refl (j evn : Nat) (s : Fw σ) : O j evn s s := ⟨rfl, [], rfl, by simp⟩

theorem O.trans {j evn : Nat} {s t u : Fw σ} (h₁ : O j evn s t) (h₂ : O j evn t u) : O j evn s u := by
  obtain ⟨n1, l1, e1, q1⟩ := h₁
  obtain ⟨n2, l2, e2, q2⟩ := h₂
  refine ⟨n2.trans n1, l2 ++ l1, by rw [e2, e1, List.append_assoc], fun e he => ?_⟩
  rcases List.mem_append.1 he with h | h
  · exact q2 e h
  · exact q1 e h

theorem QI.toO {j evn : Nat} {s t : Fw σ} (h : QI s t) : O j evn s t := by
  obtain ⟨n, l, e, q⟩ := h
  exact ⟨n, l, e, fun x hx => Own.ofInert (q x hx)⟩

theorem O.ofCZ {j evn : Nat} {s t : Fw σ} (h : O j Gen.EV_CounterZero s t) : O j evn s t := by
  obtain ⟨n, l, e, q⟩ := h
  exact ⟨n, l, e, fun x hx => (q x hx).ofCZ⟩

theorem O.push {j evn : Nat} (s : Fw σ) (e : LogEntry) (he : Own j evn e) : O j evn s (s.push e) :=
  ⟨rfl, [e], rfl, by simpa using he⟩

theorem o_main (mi : Nat) (fuel : Nat) :
    (∀ (ev : Event) (s : Fw σ), O mi ev.toNat s (transition ρ fuel mi ev s).1) ∧
    (∀ (s : Fw σ), O mi Gen.EV_CounterZero s (updateCounter ρ fuel mi s).1) := by
  induction fuel with
  | zero =>
    refine ⟨fun ev s => ?_, fun s => ?_⟩
    · rw [transition]; exact (QI.withFault _ _).toO
    · rw [updateCounter]; exact (QI.withFault _ _).toO
  | succ n ih =>
    obtain ⟨ihT, ihU⟩ := ih
    refine ⟨fun ev s => ?_, fun s => ?_⟩
    · rw [transition]
      cases hr : s.rt[mi]? with
      | none => exact (QI.withFault _ _).toO
      | some r =>
      cases hm : s.machines[mi]? with
      | none => exact (QI.withFault _ _).toO
      | some m =>
      simp only []
      have h0 : O mi ev.toNat s (s.push (.trans mi ev.toNat r.currentState)) := O.push _ _ ⟨rfl, Or.inl rfl⟩
      generalize s.push (.trans mi ev.toNat r.currentState) = s' at h0 ⊢
      split
      · exact h0
      · cases hst : m.states[r.currentState]? with
        | none => exact h0.trans (QI.withFault _ _).toO
        | some st =>
        simp only []
        cases htr : st.transitions[ev.toNat]? with
        | none => exact h0.trans (QI.withFault _ _).toO
        | some ov =>
        cases ov with
        | none => exact h0
        | some vec =>
        simp only []
        have q1 : O mi ev.toNat s (({ s' with rng := (ρ.u s'.rng).2 }).push (.draw (ρ.u s'.rng).1)) :=
          h0.trans ⟨rfl, [.draw _], rfl, by simp [Own]⟩
        generalize (({ s' with rng := (ρ.u s'.rng).2 }).push (.draw (ρ.u s'.rng).1)) = s1 at q1 ⊢
        split
        · exact q1
        · next next _ =>
          have q2 : O mi ev.toNat s (s1.push (.sampled mi ev.toNat next)) := q1.trans (O.push _ _ ⟨rfl, Or.inl rfl⟩)
          generalize s1.push (.sampled mi ev.toNat next) = s2 at q2 ⊢
          split
          · exact q2.trans (QI.modRt _ _ _).toO
          · split
            · exact q2.trans (QI.same rfl rfl).toO
            · have q3 := q2.trans (qi_enterState ρ mi m r.currentState next s2).toO
              generalize enterState ρ mi m r.currentState next s2 = s3 at q3 ⊢
              cases hr3 : s3.rt[mi]? with
              | none => simp only []; exact q3.trans (QI.withFault _ _).toO
              | some r1 =>
              simp only []
              cases hb : belowActionLimits s3.g r1 m with
              | none => simp only []; exact q3.trans (QI.withFault _ _).toO
              | some below =>
              simp only []
              have q4 := q3.trans (ihU s3).ofCZ
              have q5 : O mi ev.toNat s (if ((updateCounter ρ n mi s3).2.1 && below) = true
                  then scheduleAction ρ mi next (updateCounter ρ n mi s3).1 else (updateCounter ρ n mi s3).1) := by
                split
                · exact q4.trans (qi_scheduleAction ρ mi next _).toO
                · exact q4
              generalize (if ((updateCounter ρ n mi s3).2.1 && below) = true
                  then scheduleAction ρ mi next (updateCounter ρ n mi s3).1 else (updateCounter ρ n mi s3).1) = s5 at q5 ⊢
              cases hr5 : s5.rt[mi]? with
              | none => simp only []; exact q5.trans (QI.withFault _ _).toO
              | some r2 => simp only []; exact q5
    · rw [updateCounter]
      cases hr : s.rt[mi]? with
      | none => exact (QI.withFault _ _).toO
      | some r =>
      cases hm : s.machines[mi]? with
      | none => exact (QI.withFault _ _).toO
      | some m =>
      simp only []
      cases hst : m.states[r.currentState]? with
      | none => exact (QI.withFault _ _).toO
      | some st =>
      simp only []
      have hA := qi_applyCounterA ρ mi st.counterA r.counterA r.counterB s
      generalize applyCounterA ρ mi st.counterA r.counterA r.counterB s = ra at hA ⊢
      have hB := qi_applyCounterB ρ mi st.counterB r.counterA r.counterB ra.1
      generalize applyCounterB ρ mi st.counterB r.counterA r.counterB ra.1 = rb at hB ⊢
      have h2 : O mi Gen.EV_CounterZero s
          (rb.1.push (.counter mi r.counterA (counterAOf rb.1 mi) r.counterB (counterBOf rb.1 mi))) :=
        ((hA.trans hB).trans (QI.push _ _ rfl)).toO
      split
      · have hT := h2.trans (ihT .counterZero _)
        split
        · exact hT.trans (QI.withFault _ _).toO
        · exact hT
      · exact h2

theorem o_transition (j : Nat) (ev : Event) (s : Fw σ) : O j ev.toNat s (transition ρ FUEL j ev s).1 :=
  (o_main ρ j FUEL).1 ev s

/-- a transition for a machine without a runtime or without a description logs nothing -/
theorem transition_absent (fuel j : Nat) (ev : Event) (s : Fw σ) (h : s.rt[j]? = none ∨ s.machines[j]? = none) :
    (transition ρ fuel j ev s).1.log = s.log := by
  cases fuel with
  | zero => rw [transition]; simp
  | succ n =>
    rw [transition]
    rcases h with h | h
    · rw [h]; simp
    · rw [h]
      cases s.rt[j]? <;> simp

/-! ## C09: the three parts of a call's log -/

open C09 (sigStep firstRound afterFirst eventsDone)

theorem signal_toNat : Event.signal.toNat = Gen.EV_Signal := rfl

/-- `t` extends the log of `s` by a segment in which every delivery goes to an existing machine and
    every target sampled on the Signal event is accompanied by a Signal delivery -/
def P1 (s t : Fw σ) : Prop :=
  t.rt.length = s.rt.length ∧ ∃ l : List LogEntry, t.log = l ++ s.log ∧
    (∀ m ev st, LogEntry.trans m ev st ∈ l → m < s.rt.length) ∧
    (∀ m nx, LogEntry.sampled m Gen.EV_Signal nx ∈ l → ∃ m' st, LogEntry.trans m' Gen.EV_Signal st ∈ l)

theorem P1.refl (s : Fw σ) : P1 s s := ⟨rfl, [], rfl, by simp, by simp⟩

theorem P1.trans {s t u : Fw σ} (h₁ : P1 s t) (h₂ : P1 t u) : P1 s u := by
  obtain ⟨n1, l1, e1, a1, b1⟩ := h₁
  obtain ⟨n2, l2, e2, a2, b2⟩ := h₂
  refine ⟨n2.trans n1, l2 ++ l1, by rw [e2, e1, List.append_assoc], fun m ev st h => ?_, fun m nx h => ?_⟩
  · rcases List.mem_append.1 h with h | h
    · rw [← n1]; exact a2 m ev st h
    · exact a1 m ev st h
  · rcases List.mem_append.1 h with h | h
    · obtain ⟨m', st, hm⟩ := b2 m nx h
      exact ⟨m', st, List.mem_append_left _ hm⟩
    · obtain ⟨m', st, hm⟩ := b1 m nx h
      exact ⟨m', st, List.mem_append_right _ hm⟩

theorem QI.toP1 {s t : Fw σ} (h : QI s t) : P1 s t := by
  obtain ⟨n, l, e, q⟩ := h
  refine ⟨n, l, e, fun m ev st hm => ?_, fun m nx hm => ?_⟩
  · have := q _ hm; cases this
  · have := q _ hm; cases this

theorem p1_transition (j : Nat) (ev : Event) (s : Fw σ) : P1 s (transition ρ FUEL j ev s).1 := by
  obtain ⟨hn, l, hl, hown⟩ := o_transition ρ j ev s
  cases hr : s.rt[j]? with
  | none => exact ⟨hn, [], by rw [transition_absent ρ FUEL j ev s (Or.inl hr)]; rfl, by simp, by simp⟩
  | some r =>
  cases hm : s.machines[j]? with
  | none => exact ⟨hn, [], by rw [transition_absent ρ FUEL j ev s (Or.inr hm)]; rfl, by simp, by simp⟩
  | some m =>
    have hj : j < s.rt.length := by
      rcases Nat.lt_or_ge j s.rt.length with h | h
      · exact h
      · rw [List.getElem?_eq_none h] at hr; cases hr
    refine ⟨hn, l, hl, fun m' e' st hmem => ?_, fun m' nx hmem => ?_⟩
    · have := hown _ hmem
      rw [this.1]; exact hj
    · have hO := hown _ hmem
      have hev : ev.toNat = Gen.EV_Signal := by
        rcases hO.2 with h | h
        · exact h.symm
        · exact absurd h (by decide)
      obtain ⟨l', e', hmem'⟩ := transition_logs_own_entry ρ 7 j ev s r m hr hm
      rw [← FUEL_succ] at e'
      have hll : l' = l := List.append_cancel_right (e'.symm.trans hl)
      rw [hll, hev] at hmem'
      exact ⟨j, r.currentState, hmem'⟩

theorem p1_decrement (j : Nat) (s : Fw σ) : P1 s (decrementLimit ρ j s) := by
  unfold decrementLimit
  cases hr : s.rt[j]? with
  | none => exact (QI.withFault _ _).toP1
  | some r =>
  cases hm : s.machines[j]? with
  | none => exact (QI.withFault _ _).toP1
  | some m =>
  simp only []
  generalize (if r.stateLimit > 0 then r.stateLimit - 1 else r.stateLimit) = lim
  have h1 : P1 s ((s.modRt j (fun r' => { r' with stateLimit := lim })).push (.limit j lim true)) :=
    ((QI.modRt s j _).trans (QI.push _ _ rfl)).toP1
  generalize (s.modRt j (fun r' => { r' with stateLimit := lim })).push (.limit j lim true) = s1 at h1 ⊢
  cases hst : m.states[r.currentState]? with
  | none => exact h1.trans (QI.withFault _ _).toP1
  | some st =>
  simp only []
  cases hact : st.action with
  | none => exact h1
  | some a =>
    simp only []
    split
    · split
      · exact h1.trans (QI.withFault _ _).toP1
      · exact (h1.trans (QI.same (t := { s1 with actions := s1.actions.set j none }) rfl rfl).toP1).trans
          (p1_transition ρ j .limitReached _)
    · exact h1

theorem walkP1 : WalkEv ρ (P1 (σ := σ)) where
  refl := P1.refl
  trans := P1.trans
  transition j ev s _ := p1_transition ρ j ev s
  decrement j s _ := p1_decrement ρ j s
  fault s f := (QI.withFault s f).toP1
  signal _ _ := (QI.same rfl rfl).toP1
  setG _ _ := (QI.same rfl rfl).toP1
  acct s j f _ := (QI.modRt s j f).toP1

theorem p1_eventsDone (es : List TEvent) (t : Int) (s : Fw σ) : P1 s (eventsDone ρ es t s) := by
  unfold eventsDone
  have W := walkP1 ρ (σ := σ)
  have h0 : P1 s (s.callStart t) :=
    (QI.same (s := s) (t := s.callStart t) rfl (by simp [Fw.callStart])).toP1
  exact h0.trans (W.toWalkCore.foldl _ (fun a e => W.processEvent e a) es _)

/-- **Part 1.** The reported events of a call sample no target on the Signal event: every
    transition to the signal pseudo-state recorded there counts as a signaller for the monitor. -/
theorem events_noSignalEv (es : List TEvent) (t : Int) (s : Fw σ) (l1 : List LogEntry)
    (hl : (eventsDone ρ es t s).log = l1 ++ s.log) (m nx : Nat) : LogEntry.sampled m Gen.EV_Signal nx ∉ l1 := by
  intro hmem
  obtain ⟨_, l, e, _, hb⟩ := p1_eventsDone ρ es t s
  have hll : l = l1 := List.append_cancel_right (e.symm.trans hl)
  subst hll
  obtain ⟨m', st, hm'⟩ := hb m nx hmem
  have h := C09.sig_eventsDone ρ es t s m'
  unfold sigOf at h
  rw [e, wsum_append] at h
  have h1 := wsum_mem_le (μSig m') _ l hm'
  have h2 : μSig m' (.trans m' Gen.EV_Signal st) = 1 := by simp [μSig]
  omega

/-- every delivery logged by a call goes to an existing machine -/
theorem call_trans_lt (es : List TEvent) (t : Int) (s : Fw σ) (l : List LogEntry)
    (hl : (triggerEvents ρ es t s).log = l ++ s.log) (m ev st : Nat) (hmem : LogEntry.trans m ev st ∈ l) :
    m < s.rt.length := by
  have W := walkP1 ρ (σ := σ)
  have h := (p1_eventsDone ρ es t s).trans (W.toWalkCore.signalRound (eventsDone ρ es t s))
  rw [← C09.triggerEvents_eq] at h
  obtain ⟨_, l', e, ha, _⟩ := h
  have hll : l' = l := List.append_cancel_right (e.symm.trans hl)
  subst hll
  exact ha m ev st hmem

/-- the deliveries of a round to the machines of a list: every entry belongs to one of them -/
theorem fold_signal_own (l : List Nat) (s : Fw σ) :
    ∃ seg, (l.foldl (fun s mi => (transition ρ FUEL mi .signal s).1) s).log = seg ++ s.log ∧
      ∀ e ∈ seg, ∃ j ∈ l, Own j Gen.EV_Signal e := by
  induction l generalizing s with
  | nil => exact ⟨[], rfl, by simp⟩
  | cons a l ih =>
    simp only [List.foldl_cons]
    obtain ⟨_, l0, e0, o0⟩ := o_transition ρ a .signal s
    obtain ⟨seg, e1, o1⟩ := ih (transition ρ FUEL a .signal s).1
    refine ⟨seg ++ l0, by rw [e1, e0, List.append_assoc], fun e he => ?_⟩
    rcases List.mem_append.1 he with h | h
    · obtain ⟨j, hj, hO⟩ := o1 e h
      exact ⟨j, List.mem_cons_of_mem _ hj, hO⟩
    · exact ⟨a, by simp, o0 e h⟩

/-- **Parts 2 and 3.** With a lone signaller `x`, the delivery round logs first the entries of the
    machines other than `x` (first round) and then entries of `x` only (second round, if any). -/
theorem round_lone_log (s : Fw σ) (x : Nat) (h : s.signalPending = some (.allExcept x)) :
    ∃ l2 l3, (afterFirst ρ s (some x)).log = l2 ++ s.log ∧ (signalRound ρ s).log = l3 ++ (l2 ++ s.log) ∧
      (∀ e ∈ l2, ∃ j, j ≠ x ∧ Own j Gen.EV_Signal e) ∧ (∀ e ∈ l3, Own x Gen.EV_Signal e) := by
  rw [C09.sr_round_lone ρ s x h]
  unfold afterFirst
  simp only []
  obtain ⟨l2, e2, o2⟩ := fold_signal_own ρ (firstRound s.rt.length (some x)) ({ s with signalPending := none } : Fw σ)
  have o2' : ∀ e ∈ l2, ∃ j, j ≠ x ∧ Own j Gen.EV_Signal e := by
    intro e he
    obtain ⟨j, hj, hO⟩ := o2 e he
    exact ⟨j, fun hjx => C09.sr_excluded_not_visited s.rt.length x (hjx ▸ hj), hO⟩
  generalize ((firstRound s.rt.length (some x)).foldl (fun s mi => (transition ρ FUEL mi .signal s).1)
    ({ s with signalPending := none } : Fw σ)) = s2 at e2 ⊢
  have e2' : s2.log = l2 ++ s.log := e2
  cases hs2 : s2.signalPending with
  | none => exact ⟨l2, [], e2', by simp [e2'], o2', by simp⟩
  | some _ =>
    simp only []
    obtain ⟨_, l3, e3, o3⟩ := o_transition ρ x .signal ({ s2 with signalPending := none } : Fw σ)
    exact ⟨l2, l3, e2', by rw [e3]; show l3 ++ s2.log = _; rw [e2'], o2', o3⟩

/-! ## C09: the facts about the log of a call that make `checkCall` accept -/

/-- machine `a` counts as a signaller for the monitor: the segment records a transition of `a` to the
    signal pseudo-state on an event other than Signal, or `a` is carried over from the previous call -/
def InK (pending : Option SignalTarget) (l : List LogEntry) (a : Nat) : Prop :=
  (∃ ev, LogEntry.sampled a ev STATE_SIGNAL ∈ l ∧ ev ≠ Gen.EV_Signal) ∨ pending = some (.allExcept a)

/-- machine `a` answered a delivered Signal by signalling -/
def Resp (l : List LogEntry) (a : Nat) : Prop := LogEntry.sampled a Gen.EV_Signal STATE_SIGNAL ∈ l

/-- what the model guarantees about the log segment `l` (newest first) of a call: nobody signalled
    and nobody received a Signal; or several machines signalled and every live machine received
    exactly one; or only `x` signalled, every other live machine received exactly one and `x` one
    iff it was answered (`ans`), where an answer shows in the log as a signaller or responder
    other than `x` -/
structure CallFacts (n : Nat) (pending : Option SignalTarget) (l : List LogEntry) (live : Nat → Bool) : Prop where
  le : ∀ i, deliveries l i ≤ 1
  sc : (pending = none ∧ (∀ a ev, LogEntry.sampled a ev STATE_SIGNAL ∉ l) ∧ ∀ i, deliveries l i = 0) ∨
       ((pending = some .all ∨ ∃ a b, a ≠ b ∧ InK pending l a ∧ InK pending l b) ∧
          ∀ i, i < n → live i = true → deliveries l i = 1) ∨
       (∃ (x : Nat) (ans : Prop), pending ≠ some .all ∧ InK pending l x ∧
          (∀ i, i < n → i ≠ x → live i = true → deliveries l i = 1) ∧
          (ans → live x = true → deliveries l x = 1) ∧ (¬ ans → deliveries l x = 0) ∧
          (∀ j, j ≠ x → InK pending l j → ans) ∧ (∀ j, j ≠ x → Resp l j → ans) ∧
          (ans → ∃ j, j ≠ x ∧ (InK pending l j ∨ Resp l j)))

theorem mem_signallers (L : List LogEntry) (a : Nat) :
    a ∈ signallers L ↔ ∃ ev, LogEntry.sampled a ev STATE_SIGNAL ∈ L ∧ ev ≠ Gen.EV_Signal := by
  unfold signallers
  rw [mem_dedup, List.mem_filterMap]
  constructor
  · rintro ⟨e, he, hf⟩
    cases e with
    | sampled mi ev next =>
      simp only at hf
      split at hf
      · next hc =>
        simp only [Bool.and_eq_true, beq_iff_eq, bne_iff_ne, ne_eq] at hc
        have := Option.some.inj hf
        subst this
        exact ⟨ev, by rw [← hc.1]; exact he, hc.2⟩
      · cases hf
    | _ => simp at hf
  · rintro ⟨ev, hmem, hne⟩
    exact ⟨_, hmem, by simp [hne]⟩

theorem mem_responders (L : List LogEntry) (a : Nat) :
    a ∈ responders L ↔ LogEntry.sampled a Gen.EV_Signal STATE_SIGNAL ∈ L := by
  unfold responders
  rw [mem_dedup, List.mem_filterMap]
  constructor
  · rintro ⟨e, he, hf⟩
    cases e with
    | sampled mi ev next =>
      simp only at hf
      split at hf
      · next hc =>
        simp only [Bool.and_eq_true, beq_iff_eq] at hc
        have := Option.some.inj hf
        subst this
        rw [← hc.1, ← hc.2]; exact he
      · cases hf
    | _ => simp at hf
  · intro hmem
    exact ⟨_, hmem, by simp⟩

theorem mem_kOf (pending : Option SignalTarget) (L : List LogEntry) (a : Nat) :
    a ∈ kOf pending L ↔ a ∈ signallers L ∨ pending = some (.allExcept a) := by
  cases pending with
  | none => simp [kOf]
  | some p =>
    cases p with
    | all => simp [kOf]
    | allExcept x =>
      simp only [kOf, mem_dedup, List.mem_append, List.mem_singleton, Option.some.injEq, SignalTarget.allExcept.injEq]
      constructor
      · rintro (h | h)
        · exact Or.inl h
        · exact Or.inr h.symm
      · rintro (h | h)
        · exact Or.inl h
        · exact Or.inr h.symm

theorem kOf_nodup (pending : Option SignalTarget) (L : List LogEntry) : (kOf pending L).Nodup := by
  cases pending with
  | none => exact dedup_nodup _
  | some p =>
    cases p with
    | all => exact dedup_nodup _
    | allExcept x => exact dedup_nodup _

theorem checkCall_of_facts (n : Nat) (pending : Option SignalTarget) (l : List LogEntry) (live : Nat → Bool)
    (h : CallFacts n pending l live) : checkCall n pending l.reverse live = none := by
  rw [checkCall_eq]
  have hdel : ∀ i, deliveries l.reverse i = deliveries l i := fun i => by
    unfold deliveries; rw [List.countP_reverse]
  have hK : ∀ a, a ∈ kOf pending l.reverse ↔ InK pending l a := by
    intro a
    rw [mem_kOf, mem_signallers]
    simp only [InK, List.mem_reverse]
  have hR : ∀ a, a ∈ responders l.reverse ↔ Resp l a := by
    intro a
    rw [mem_responders]
    simp only [Resp, List.mem_reverse]
  have hnd := kOf_nodup pending l.reverse
  generalize kOf pending l.reverse = K at hK hnd ⊢
  generalize responders l.reverse = RS at hR ⊢
  have hmanyT : (pending == some .all || decide (K.length ≥ 2)) = true →
      pending = some .all ∨ ∃ a b, a ≠ b ∧ InK pending l a ∧ InK pending l b := by
    intro hm
    rw [Bool.or_eq_true] at hm
    rcases hm with hm | hm
    · exact Or.inl (by simpa using hm)
    · obtain ⟨a, ha, b, hb, hab⟩ := two_distinct K hnd (by simpa using hm)
      exact Or.inr ⟨a, b, hab, (hK a).1 ha, (hK b).1 hb⟩
  have hmanyF : (pending == some .all || decide (K.length ≥ 2)) = false → pending ≠ some .all ∧ K.length < 2 := by
    intro hm
    rw [Bool.or_eq_false_iff] at hm
    exact ⟨by simpa using hm.1, by simpa using hm.2⟩
  refine checkBody_none n _ K RS l.reverse live (fun i => by rw [hdel]; exact h.le i) ?_ ?_ ?_
  · intro hm i hi hl
    rw [hdel]
    rcases h.sc with ⟨hp, hno, _⟩ | ⟨_, hd⟩ | ⟨x, ans, hp, _, h1, h2, _, h4, _, _⟩
    · exfalso
      have hnoK : ∀ a, ¬ InK pending l a := by
        rintro a (⟨ev, hmem, _⟩ | hpa)
        · exact hno a ev hmem
        · rw [hp] at hpa; cases hpa
      rcases hmanyT hm with hpa | ⟨a, _, _, ha, _⟩
      · rw [hp] at hpa; cases hpa
      · exact hnoK a ha
    · exact hd i hi hl
    · rcases hmanyT hm with hpa | ⟨a, b, hab, ha, hb⟩
      · exact absurd hpa hp
      · have hans : ans := by
          by_cases hax : a = x
          · exact h4 b (fun hbx => hab (hax.trans hbx.symm)) hb
          · exact h4 a hax ha
        by_cases hix : i = x
        · subst hix; exact h2 hans hl
        · exact h1 i hi hix hl
  · intro hm hk0 i hi
    rw [hdel]
    obtain ⟨hpne, _⟩ := hmanyF hm
    rcases h.sc with ⟨_, _, hz⟩ | ⟨hd, _⟩ | ⟨x, ans, _, hx, _⟩
    · exact hz i
    · exfalso
      rcases hd with hpa | ⟨a, _, _, ha, _⟩
      · exact hpne hpa
      · have := (hK a).2 ha
        rw [hk0] at this; cases this
    · exfalso
      have := (hK x).2 hx
      rw [hk0] at this; cases this
  · intro x' r hm hk1
    obtain ⟨hpne, hlen⟩ := hmanyF hm
    have hr : r = [] := by
      rw [hk1] at hlen
      cases r with
      | nil => rfl
      | cons _ _ => simp at hlen; omega
    subst hr
    have hKx : ∀ a, InK pending l a → a = x' := by
      intro a ha
      have := (hK a).2 ha
      rw [hk1] at this
      simpa using this
    rcases h.sc with ⟨hp, hno, _⟩ | ⟨hd, _⟩ | ⟨x, ans, _, hx, h1, h2, h3, _, h5, h6⟩
    · exfalso
      have hx' : InK pending l x' := (hK x').1 (by rw [hk1]; simp)
      rcases hx' with ⟨ev, hmem, _⟩ | hpa
      · exact hno x' ev hmem
      · rw [hp] at hpa; cases hpa
    · exfalso
      rcases hd with hpa | ⟨a, b, hab, ha, hb⟩
      · exact hpne hpa
      · exact hab ((hKx a ha).trans (hKx b hb).symm)
    · have hxx : x = x' := hKx x hx
      subst hxx
      refine ⟨fun i hi hix hl => by rw [hdel]; exact h1 i hi hix hl, fun hex hl => ?_, fun hnex => ?_⟩
      · rw [hdel]
        obtain ⟨y, hy, hyx⟩ := hex
        exact h2 (h5 y hyx ((hR y).1 hy)) hl
      · rw [hdel]
        refine h3 (fun hans => ?_)
        obtain ⟨j, hjx, hj⟩ := h6 hans
        rcases hj with hj | hj
        · exact hjx (hKx j hj)
        · exact hnex ⟨j, (hR j).2 hj, hjx⟩

/-! ## C09: every call of the model has these facts -/

theorem mem_signalsIn (l : List LogEntry) (a : Nat) :
    a ∈ signalsIn l ↔ ∃ ev, LogEntry.sampled a ev STATE_SIGNAL ∈ l := by
  unfold signalsIn
  rw [List.mem_filterMap]
  constructor
  · rintro ⟨e, he, hf⟩
    rw [List.mem_reverse] at he
    cases e with
    | sampled mi ev next =>
      simp only [sigEntry] at hf
      split at hf
      · next hc =>
        have := Option.some.inj hf
        subst this
        exact ⟨ev, by rw [← hc]; exact he⟩
      · cases hf
    | _ => simp [sigEntry] at hf
  · rintro ⟨ev, hmem⟩
    exact ⟨_, List.mem_reverse.2 hmem, by simp [sigEntry]⟩

theorem deliveries_zero_of_absent (l : List LogEntry) (x n : Nat)
    (hD : ∀ m ev st, LogEntry.trans m ev st ∈ l → m < n) (hx : n ≤ x) : deliveries l x = 0 := by
  unfold deliveries
  rw [List.countP_eq_zero]
  intro e he
  cases e with
  | trans m ev st =>
    have := hD m ev st he
    have hne : (m == x) = false := by
      have : m ≠ x := by omega
      simpa using this
    simp [hne]
  | _ => simp

theorem notEnded_lt {s : Fw σ} {j : Nat} (h : notEnded s j = true) : j < s.rt.length := by
  unfold notEnded at h
  rcases Nat.lt_or_ge j s.rt.length with h' | h'
  · exact h'
  · rw [List.getElem?_eq_none h'] at h; cases h

/-- **The log segment of every call of the model has the facts `checkCall` needs.** No validity
    or no-fault hypothesis; `s.signalPending` is whatever the previous call left over. -/
theorem call_facts (es : List TEvent) (t : Int) (s : Fw σ) (hlen : s.rt.length = s.machines.length)
    (l : List LogEntry) (hl : (triggerEvents ρ es t s).log = l ++ s.log) :
    CallFacts s.rt.length s.signalPending l (fun j => notEnded (triggerEvents ρ es t s) j) := by
  obtain ⟨l1, hE, hP⟩ := C09.slot_tracks_log ρ es t s
  have hA := events_noSignalEv ρ es t s l1 hE
  have hD := call_trans_lt ρ es t s l hl
  have hrun : Run (eventsDone ρ es t s) (signalRound ρ (eventsDone ρ es t s)) :=
    (walkRun ρ).toWalkCore.signalRound _
  obtain ⟨lr, hlr⟩ := hrun.logExt
  rw [← C09.triggerEvents_eq] at hlr
  have hsplit : l = lr ++ l1 := by
    apply List.append_cancel_right (bs := s.log)
    rw [← hl, hlr, hE, List.append_assoc]
  have hle : ∀ i, deliveries l i ≤ 1 := by
    intro i
    have h1 := sig_triggerEvents ρ i es t s
    unfold sigOf at h1
    rw [hl, wsum_append] at h1
    have h2 := wsum_le_of_le (μLive_le i) l
    rw [C09.wsum_live_eq_deliveries] at h2
    omega
  have hsig1 : ∀ a, a ∈ signalsIn l1 → ∃ ev, LogEntry.sampled a ev STATE_SIGNAL ∈ l ∧ ev ≠ Gen.EV_Signal := by
    intro a ha
    obtain ⟨ev, hmem⟩ := (mem_signalsIn l1 a).1 ha
    refine ⟨ev, by rw [hsplit]; exact List.mem_append_right _ hmem, fun hev => ?_⟩
    rw [hev] at hmem
    exact hA a _ hmem
  refine ⟨hle, ?_⟩
  cases hPE : (eventsDone ρ es t s).signalPending with
  | none =>
    left
    rw [hPE] at hP
    have hsome := C09.sigStep_fold_isSome (signalsIn l1) s.signalPending
    rw [← hP] at hsome
    have hp0 : s.signalPending = none := by
      cases h : s.signalPending with
      | none => rfl
      | some _ => rw [h] at hsome; simp at hsome
    have hids : signalsIn l1 = [] := by
      cases h : signalsIn l1 with
      | nil => rfl
      | cons _ _ => rw [h] at hsome; simp at hsome
    have hTE : triggerEvents ρ es t s = eventsDone ρ es t s := by
      rw [C09.triggerEvents_eq, C09.sr_round_none ρ _ hPE]
    have hll : l = l1 := by
      apply List.append_cancel_right (bs := s.log)
      rw [← hl, hTE, hE]
    refine ⟨hp0, fun a ev hmem => ?_, fun i => ?_⟩
    · rw [hll] at hmem
      have : a ∈ signalsIn l1 := (mem_signalsIn l1 a).2 ⟨ev, hmem⟩
      rw [hids] at this; cases this
    · have h := C09.live_eventsDone ρ es t s i
      unfold liveSigOf at h
      rw [hE, wsum_append, C09.wsum_live_eq_deliveries] at h
      rw [hll]; omega
  | some p =>
    cases p with
    | all =>
      right; left
      refine ⟨?_, fun i hi hlive => ?_⟩
      · rw [hPE] at hP
        cases hp0 : s.signalPending with
        | none =>
          right
          rw [hp0] at hP
          obtain ⟨a, ha, b, hb, hab⟩ := (C09.lone_or_many (signalsIn l1)).2.2.1 hP.symm
          exact ⟨a, b, hab, Or.inl (hsig1 a ha), Or.inl (hsig1 b hb)⟩
        | some q =>
          cases q with
          | all => exact Or.inl rfl
          | allExcept y =>
            right
            rw [hp0, C09.sr_pending_spec] at hP
            by_cases hall : (signalsIn l1).all (· == y) = true
            · rw [if_pos hall] at hP; cases hP
            · have hex : ∃ a ∈ signalsIn l1, a ≠ y := by
                by_contra hno
                apply hall
                rw [List.all_eq_true]
                intro a ha
                have : a = y := by
                  by_contra hne
                  exact hno ⟨a, ha, hne⟩
                simpa using this
              obtain ⟨a, ha, hay⟩ := hex
              exact ⟨a, y, hay, Or.inl (hsig1 a ha), Or.inr rfl⟩
      · obtain ⟨l', e', _, d2, _⟩ := C09.call_deliveries ρ es t s i ⟨hi, hlen ▸ hi⟩ hlive
        have : l' = l := List.append_cancel_right (e'.symm.trans hl)
        rw [← this]; exact d2 hPE
    | allExcept x =>
      right; right
      rw [hPE] at hP
      have hpa : s.signalPending ≠ some .all ∧ (∀ a ∈ signalsIn l1, a = x) ∧
          (∀ j, s.signalPending = some (.allExcept j) → j = x) ∧ InK s.signalPending l x := by
        cases hp0 : s.signalPending with
        | none =>
          rw [hp0] at hP
          obtain ⟨hne, hall⟩ := ((C09.lone_or_many (signalsIn l1)).2.1 x).1 hP.symm
          refine ⟨by simp, hall, (fun j hj => by cases hj), ?_⟩
          obtain ⟨a, ha⟩ := List.exists_mem_of_ne_nil _ hne
          have hax := hall a ha
          rw [hax] at ha
          exact Or.inl (hsig1 x ha)
        | some q =>
          cases q with
          | all => rw [hp0, C09.sigStep_all] at hP; cases hP
          | allExcept y =>
            rw [hp0, C09.sr_pending_spec] at hP
            by_cases hall : (signalsIn l1).all (· == y) = true
            · rw [if_pos hall] at hP
              have hyx : y = x := by
                injection hP with h
                injection h with h
                exact h.symm
              subst hyx
              refine ⟨by simp, fun a ha => ?_, fun j hj => ?_, Or.inr rfl⟩
              · have := List.all_eq_true.mp hall a ha
                simpa using this
              · injection hj with h
                injection h with h
                exact h.symm
            · rw [if_neg hall] at hP; cases hP
      obtain ⟨hpne, hids, hpx, hxK⟩ := hpa
      obtain ⟨l2, l3, eF, eT, o2, o3⟩ := round_lone_log ρ (eventsDone ρ es t s) x hPE
      rw [← C09.triggerEvents_eq] at eT
      have hl3 : l = l3 ++ (l2 ++ l1) := by
        apply List.append_cancel_right (bs := s.log)
        rw [← hl, eT, hE]
        simp [List.append_assoc]
      obtain ⟨l2', eF', hans⟩ := C09.afterFirst_answered ρ (eventsDone ρ es t s) (some x)
      have hl2 : l2' = l2 := List.append_cancel_right (eF'.symm.trans eF)
      rw [hl2] at hans
      have hmemcases : ∀ e, e ∈ l → e ∈ l3 ∨ e ∈ l2 ∨ e ∈ l1 := by
        intro e he
        rw [hl3] at he
        simpa [List.mem_append] using he
      have hin2 : ∀ a ev, LogEntry.sampled a ev STATE_SIGNAL ∈ l2 →
          (afterFirst ρ (eventsDone ρ es t s) (some x)).signalPending.isSome = true := by
        intro a ev hmem
        apply hans.2
        intro hnil
        have : a ∈ signalsIn l2 := (mem_signalsIn l2 a).2 ⟨ev, hmem⟩
        rw [hnil] at this; cases this
      have hrtlen : (triggerEvents ρ es t s).rt.length = s.rt.length := run_rtLen (triggerEvents_run ρ es t s)
      refine ⟨x, (afterFirst ρ (eventsDone ρ es t s) (some x)).signalPending.isSome = true, hpne, hxK,
        ?_, ?_, ?_, ?_, ?_, ?_⟩
      · intro i hi hix hlive
        obtain ⟨l', e', _, _, d3⟩ := C09.call_deliveries ρ es t s i ⟨hi, hlen ▸ hi⟩ hlive
        have : l' = l := List.append_cancel_right (e'.symm.trans hl)
        rw [← this]; exact (d3 x hPE).1 hix
      · intro hans' hlive
        have hi : x < s.rt.length := by rw [← hrtlen]; exact notEnded_lt hlive
        obtain ⟨l', e', _, _, d3⟩ := C09.call_deliveries ρ es t s x ⟨hi, hlen ▸ hi⟩ hlive
        have : l' = l := List.append_cancel_right (e'.symm.trans hl)
        rw [← this, (d3 x hPE).2 rfl, if_pos hans']
      · intro hnans
        by_cases hi : x < s.rt.length
        · have h := ((C09.call_delivers_live ρ es t s x ⟨hi, hlen ▸ hi⟩).2.2 x hPE).2 rfl
          have hc : ¬ ((afterFirst ρ (eventsDone ρ es t s) (some x)).signalPending.isSome = true ∧
              notEnded (eventsDone ρ es t s) x = true) := fun hc => hnans hc.1
          rw [if_neg hc] at h
          unfold liveSigOf at h
          rw [hl, wsum_append, C09.wsum_live_eq_deliveries] at h
          omega
        · exact deliveries_zero_of_absent l x s.rt.length hD (by omega)
      · intro j hjx hj
        rcases hj with ⟨ev, hmem, hev⟩ | hpj
        · rcases hmemcases _ hmem with h | h | h
          · exact absurd (o3 _ h).1 hjx
          · exact hin2 j ev h
          · exact absurd (hids j ((mem_signalsIn l1 j).2 ⟨ev, h⟩)) hjx
        · exact absurd (hpx j hpj) hjx
      · intro j hjx hj
        rcases hmemcases _ hj with h | h | h
        · exact absurd (o3 _ h).1 hjx
        · exact hin2 j _ h
        · exact absurd h (hA j _)
      · intro hans'
        have hne := hans.1 hans'
        obtain ⟨a, ha⟩ := List.exists_mem_of_ne_nil _ hne
        obtain ⟨ev, hmem⟩ := (mem_signalsIn l2 a).1 ha
        obtain ⟨j, hjx, hO⟩ := o2 _ hmem
        have haj : a = j := hO.1
        have hml : LogEntry.sampled a ev STATE_SIGNAL ∈ l := by rw [hl3]; simp [hmem]
        refine ⟨a, by rw [haj]; exact hjx, ?_⟩
        by_cases hev : ev = Gen.EV_Signal
        · right; rw [hev] at hml; exact hml
        · left; exact Or.inl ⟨ev, hml, hev⟩

/-! ### `C09.monitor` on the model's trace -/

theorem go09_nil (n i : Nat) (pending : Option SignalTarget) : C09.monitor.go n i pending [] = none := by
  rw [C09.monitor.go]

theorem go09_bad (n i : Nat) (pending : Option SignalTarget) (c : CallRec) (cs : List CallRec) (h : c.res ≠ .ok) :
    C09.monitor.go n i pending (c :: cs) = none := by
  rw [C09.monitor.go]
  have : (c.res != Res.ok) = true := by simpa using h
  simp [this]

theorem go09_ok (n i : Nat) (pending : Option SignalTarget) (c : CallRec) (cs : List CallRec)
    (h : checkCall n pending c.log
      (fun j => match c.snap.rts[j]? with | some r => r.state != STATE_END | none => false) = none) :
    C09.monitor.go n i pending (c :: cs) =
      if c.res != .ok then none else C09.monitor.go n (i + 1) c.snap.signalPending cs := by
  rw [C09.monitor.go]
  split
  · rfl
  · simp only []
    split
    · next msg heq => exact absurd (heq.symm.trans h) (by simp)
    · rfl

theorem live_snap (s : Fw σ) :
    (fun j => match s.snap.rts[j]? with | some r => r.state != STATE_END | none => false) = fun j => notEnded s j := by
  funext j
  unfold notEnded Fw.snap
  simp only [List.getElem?_map]
  cases s.rt[j]? <;> rfl

theorem go09_model (n : Nat) (h : List Call) : ∀ (i : Nat) (s : Fw σ), s.rt.length = n → s.machines.length = n →
    C09.monitor.go n i s.signalPending (LL.callRecs ρ s h) = none := by
  induction h with
  | nil => intro i s _ _; exact go09_nil _ _ _
  | cons c h ih =>
    intro i s hn hm
    rw [LL.callRecs]
    by_cases hok : (triggerEvents ρ c.1 c.2 (LL.resetLog s)).fault = none
    · have hres : (LL.callRec ρ s c).res = .ok := (LL.resOf_ok _).2 hok
      have hrun := triggerEvents_run ρ c.1 c.2 (LL.resetLog s)
      rw [go09_ok]
      · simp only [hres, bne_self_eq_false, Bool.false_eq_true, if_false]
        exact ih (i + 1) _ ((run_rtLen hrun).trans hn) ((congrArg List.length (LL.machines_run hrun)).trans hm)
      · have hf := call_facts ρ c.1 c.2 (LL.resetLog s) (hn.trans hm.symm)
          (triggerEvents ρ c.1 c.2 (LL.resetLog s)).log (List.append_nil _).symm
        have := checkCall_of_facts _ _ _ _ hf
        show checkCall n s.signalPending (triggerEvents ρ c.1 c.2 (LL.resetLog s)).log.reverse
          (fun j => match (triggerEvents ρ c.1 c.2 (LL.resetLog s)).snap.rts[j]? with
            | some r => r.state != STATE_END | none => false) = none
        rw [live_snap, ← hn]
        exact this
    · exact go09_bad _ _ _ _ _ (fun hres => hok ((LL.resOf_ok _).1 hres))

/-- **`C09.monitor` accepts the model's own trace of every history.** -/
theorem monitor09_model (ms : List Machine) (fp fb : F64) (t0 : Int) (rng : σ) (h : List Call) :
    C09.monitor (LL.modelTrace ρ ms fp fb t0 rng h) = none := by
  unfold C09.monitor
  have hm : (Fw.init ρ ms fp fb t0 rng).machines = ms := LL.machines_run (init_run ρ ms fp fb t0 rng)
  have hI := Inv04.init ρ ms fp fb t0 rng
  exact go09_model ρ ms.length h 1 (Fw.init ρ ms fp fb t0 rng) (by rw [hI.rtLen, hm]) (by rw [hm])

end MB
end Mb
