/-
  The monitors `C08.monitor` and `C09.monitor` (Spec/C08.lean, Spec/C09.lean) accept the model's own
  trace `LL.modelTrace` of every history.

  C08. `checkLog` / `strayCZ` / "no CounterZero at the start" are `CL.call_good` (CounterLog.lean).
  New here is the value rule `C08.checkValues`: the relation `V ms s t` says that `t` extends the log
  of `s` by a chronological segment which `checkValues`, started with the state function of `s` and
  ANY list of recent raw samples, walks through without an alarm, arriving at the state function of
  `t`. It is reflexive, transitive, holds for `transition` / `updateCounter` (induction on the fuel;
  no validity or no-fault hypothesis) and hence - by the generic walker - for whole calls.

  C09. `checkCall` is read off the log of a call in three parts (reported events, first delivery
  round, second delivery round). New here: which machine and which event the `sampled _ _ SIGNAL`
  entries of each part belong to (`Own`), so that the monitor's `signallers` / `responders` can be
  compared with the model's pending-signal slot (SigSlot.lean) and deliveries (SigLive.lean).
-/
import MbVerif.Proofs.CounterLog
import MbVerif.Proofs.LimitMonitor
import MbVerif.Proofs.SigLive

namespace Mb
namespace MB
open C08 (checkValues ctrSpec operandOf)

variable {σ : Type} (ρ : Oracle σ)

/-! ## C08: the value rule -/

/-- the current state of every machine (0 for a machine that does not exist), as the monitor reads
    it off the snapshot -/
def stF (s : Fw σ) : Nat → Nat := fun j => match s.rt[j]? with | some r => r.currentState | none => 0

theorem stF_congr {s t : Fw σ} (h : ∀ j : Nat, (t.rt[j]?).map (·.currentState) = (s.rt[j]?).map (·.currentState)) :
    stF t = stF s := by
  funext j
  have := h j
  unfold stF
  cases ht : t.rt[j]? <;> cases hs : s.rt[j]? <;> rw [ht, hs] at this <;> simp at this ⊢
  exact this

/-- entries that `checkValues` passes without looking at the tracked states -/
def quietV : LogEntry → Bool
  | .sampled .. => false
  | .counter .. => false
  | _ => true

theorem checkValues_quiet (ms : List Machine) (st : Nat → Nat) (e : LogEntry) (he : quietV e = true)
    (recent : List F64) (rest : List LogEntry) :
    ∃ recent', checkValues ms st recent (e :: rest) = checkValues ms st recent' rest := by
  cases e with
  | sampled => cases he
  | counter => cases he
  | trans => exact ⟨recent, by simp only [checkValues]⟩
  | draw => exact ⟨recent, by simp only [checkValues]⟩
  | distRaw b => exact ⟨recent ++ [b], by simp only [checkValues]⟩
  | limit => exact ⟨[], by simp only [checkValues]⟩

theorem checkValues_quiets (ms : List Machine) (st : Nat → Nat) (c : List LogEntry) (hc : ∀ e ∈ c, quietV e = true)
    (recent : List F64) (rest : List LogEntry) :
    ∃ recent', checkValues ms st recent (c ++ rest) = checkValues ms st recent' rest := by
  induction c generalizing recent with
  | nil => exact ⟨recent, rfl⟩
  | cons e c ih =>
    obtain ⟨r1, h1⟩ := checkValues_quiet ms st e (hc e (by simp)) recent (c ++ rest)
    obtain ⟨r2, h2⟩ := ih (fun e' he' => hc e' (by simp [he'])) r1
    exact ⟨r2, by rw [List.cons_append, h1, h2]⟩

/-- raw samples are collected in order -/
theorem checkValues_raws (ms : List Machine) (st : Nat → Nat) (raws : List F64) (recent : List F64)
    (rest : List LogEntry) :
    checkValues ms st recent (raws.map .distRaw ++ rest) = checkValues ms st (recent ++ raws) rest := by
  induction raws generalizing recent with
  | nil => simp
  | cons b raws ih =>
    simp only [List.map_cons, List.cons_append, checkValues]
    rw [ih]; simp

/-- `t` extends the log of `s` by a segment that the value rule of `C08.monitor` walks through,
    from the states of `s` to the states of `t`, whatever raw samples were collected before and
    whatever follows -/
def V (ms : List Machine) (s t : Fw σ) : Prop :=
  t.machines = s.machines ∧ ∃ c : List LogEntry, t.log = c.reverse ++ s.log ∧
    (s.machines = ms → ∀ recent rest, ∃ recent',
      checkValues ms (stF s) recent (c ++ rest) = checkValues ms (stF t) recent' rest)

variable {ms : List Machine}

theorem V.refl (s : Fw σ) : V ms s s := ⟨rfl, [], rfl, fun _ recent _ => ⟨recent, rfl⟩⟩

theorem V.trans {s t u : Fw σ} (h₁ : V ms s t) (h₂ : V ms t u) : V ms s u := by
  obtain ⟨m1, c1, e1, p1⟩ := h₁
  obtain ⟨m2, c2, e2, p2⟩ := h₂
  refine ⟨m2.trans m1, c1 ++ c2, by rw [e2, e1, List.reverse_append, List.append_assoc], fun hm recent rest => ?_⟩
  obtain ⟨r1, k1⟩ := p1 hm recent (c2 ++ rest)
  obtain ⟨r2, k2⟩ := p2 (m1.trans hm) r1 rest
  exact ⟨r2, by rw [List.append_assoc, k1, k2]⟩

/-- more quiet entries, no machine changes its state -/
theorem V.quiet {s t : Fw σ} (c : List LogEntry) (hc : ∀ e ∈ c, quietV e = true) (hm : t.machines = s.machines)
    (hl : t.log = c.reverse ++ s.log)
    (hk : ∀ j : Nat, (t.rt[j]?).map (·.currentState) = (s.rt[j]?).map (·.currentState)) : V ms s t := by
  refine ⟨hm, c, hl, fun _ recent rest => ?_⟩
  rw [stF_congr hk]
  exact checkValues_quiets ms _ c hc recent rest

theorem V.keep {s t : Fw σ} (hm : t.machines = s.machines) (hl : t.log = s.log)
    (hk : ∀ j : Nat, (t.rt[j]?).map (·.currentState) = (s.rt[j]?).map (·.currentState)) : V ms s t :=
  V.quiet [] (by simp) hm (by simp [hl]) hk

theorem V.same {s t : Fw σ} (hm : t.machines = s.machines) (hl : t.log = s.log) (hrt : t.rt = s.rt) : V ms s t :=
  V.keep hm hl (fun j => by rw [hrt])

theorem V.withFault (s : Fw σ) (f : Fault) : V ms s (s.withFault f) := V.same (by simp) (by simp) (by simp)

theorem V.modRt (s : Fw σ) (j : Nat) (g : Runtime → Runtime) (hg : ∀ r, (g r).currentState = r.currentState) :
    V ms s (s.modRt j g) := by
  refine V.keep (by simp) (by simp) (fun i => ?_)
  by_cases hi : i = j
  · subst hi
    rw [Fw.modRt_rt_self]
    cases s.rt[i]? <;> simp [hg]
  · rw [Fw.modRt_rt_other s j i g hi]

theorem V.push (s : Fw σ) (e : LogEntry) (he : quietV e = true) : V ms s (s.push e) :=
  V.quiet [e] (by simpa using he) rfl rfl (fun _ => rfl)

/-- sampling: the log grows by quiet entries, runtimes and machines are untouched -/
def QV (s t : Fw σ) : Prop :=
  t.rt = s.rt ∧ t.machines = s.machines ∧ ∃ c : List LogEntry, t.log = c.reverse ++ s.log ∧ ∀ e ∈ c, quietV e = true

theorem QV.refl (s : Fw σ) : QV s s := ⟨rfl, rfl, [], rfl, by simp⟩

theorem QV.trans {s t u : Fw σ} (h₁ : QV s t) (h₂ : QV t u) : QV s u := by
  obtain ⟨r1, m1, c1, e1, q1⟩ := h₁
  obtain ⟨r2, m2, c2, e2, q2⟩ := h₂
  refine ⟨r2.trans r1, m2.trans m1, c1 ++ c2, by rw [e2, e1, List.reverse_append, List.append_assoc], fun e he => ?_⟩
  rcases List.mem_append.1 he with h | h
  · exact q1 e h
  · exact q2 e h

theorem QV.toV {s t : Fw σ} (h : QV s t) : V ms s t := by
  obtain ⟨r, m, c, e, q⟩ := h
  exact V.quiet c q m e (fun j => by rw [r])

theorem qv_distSample (d : Dist) (s : Fw σ) : QV s (distSample ρ d s).2 := by
  unfold distSample
  exact ⟨rfl, rfl, [.distRaw _], rfl, by simp [quietV]⟩

theorem qv_sampleLimit (a : Action) (s : Fw σ) : QV s (sampleLimit ρ a s).2 := by
  unfold sampleLimit; split
  · exact QV.refl s
  · exact qv_distSample ρ _ s

theorem qv_sampleTimeout (a : Action) (s : Fw σ) : QV s (sampleTimeout ρ a s).2 := by
  unfold sampleTimeout; split
  · exact qv_distSample ρ _ s
  · exact qv_distSample ρ _ s
  · exact QV.refl s

theorem qv_sampleDuration (a : Action) (s : Fw σ) : QV s (sampleDuration ρ a s).2 := by
  unfold sampleDuration; split
  · exact qv_distSample ρ _ s
  · exact qv_distSample ρ _ s
  · exact QV.refl s

theorem v_scheduleAction (mi next : Nat) (s : Fw σ) : V ms s (scheduleAction ρ mi next s) := by
  unfold scheduleAction
  cases hm : s.machines[mi]? with
  | none => exact V.withFault s _
  | some m =>
    simp only []
    cases hst : m.states[next]? with
    | none => exact V.withFault s _
    | some st =>
      simp only []
      split
      · exact V.withFault s _
      · cases hact : st.action with
        | none => exact V.same rfl rfl rfl
        | some act =>
          cases act with
          | cancel t => exact V.same rfl rfl rfl
          | sendPadding b rp tmo lim =>
            simp only
            exact (qv_sampleTimeout ρ _ s).toV.trans (V.same rfl rfl rfl)
          | blockOutgoing b rp tmo du lim =>
            simp only
            exact ((qv_sampleTimeout ρ _ s).trans (qv_sampleDuration ρ _ _)).toV.trans (V.same rfl rfl rfl)
          | updateTimer rp du lim =>
            simp only
            exact (qv_sampleDuration ρ _ s).toV.trans (V.same rfl rfl rfl)

/-- the log grows by quiet entries and no machine changes its state (limits, counters and flags
    may change) -/
def QS (s t : Fw σ) : Prop :=
  t.machines = s.machines ∧ (∀ j : Nat, (t.rt[j]?).map (·.currentState) = (s.rt[j]?).map (·.currentState)) ∧
    ∃ c : List LogEntry, t.log = c.reverse ++ s.log ∧ ∀ e ∈ c, quietV e = true

theorem QS.refl (s : Fw σ) : QS s s := ⟨rfl, fun _ => rfl, [], rfl, by simp⟩

theorem QS.trans {s t u : Fw σ} (h₁ : QS s t) (h₂ : QS t u) : QS s u := by
  obtain ⟨m1, r1, c1, e1, q1⟩ := h₁
  obtain ⟨m2, r2, c2, e2, q2⟩ := h₂
  refine ⟨m2.trans m1, fun j => (r2 j).trans (r1 j), c1 ++ c2,
    by rw [e2, e1, List.reverse_append, List.append_assoc], fun e he => ?_⟩
  rcases List.mem_append.1 he with h | h
  · exact q1 e h
  · exact q2 e h

theorem QV.toQS {s t : Fw σ} (h : QV s t) : QS s t := by
  obtain ⟨r, m, c, e, q⟩ := h
  exact ⟨m, fun j => by rw [r], c, e, q⟩

theorem QS.withFault (s : Fw σ) (f : Fault) : QS s (s.withFault f) :=
  ⟨by simp, fun j => by simp, [], by simp, by simp⟩

theorem QS.modRt (s : Fw σ) (j : Nat) (g : Runtime → Runtime) (hg : ∀ r, (g r).currentState = r.currentState) :
    QS s (s.modRt j g) := by
  refine ⟨by simp, fun i => ?_, [], by simp, by simp⟩
  by_cases hi : i = j
  · subst hi
    rw [Fw.modRt_rt_self]
    cases s.rt[i]? <;> simp [hg]
  · rw [Fw.modRt_rt_other s j i g hi]

theorem QS.push (s : Fw σ) (e : LogEntry) (he : quietV e = true) : QS s (s.push e) :=
  ⟨rfl, fun _ => rfl, [e], rfl, by simpa using he⟩

theorem QS.toV {s t : Fw σ} (h : QS s t) : V ms s t := by
  obtain ⟨m, r, c, e, q⟩ := h
  exact V.quiet c q m e r

/-- the state-change block of `transition`: nothing happens if the target is the current state;
    otherwise the state is set and the rest is quiet -/
theorem enterState_shape (mi : Nat) (m : Machine) (cur next : Nat) (s : Fw σ) :
    (cur = next ∧ enterState ρ mi m cur next s = s) ∨
    (cur ≠ next ∧ QS (s.modRt mi (fun r => { r with currentState := next })) (enterState ρ mi m cur next s)) := by
  unfold enterState
  by_cases h : cur = next
  · exact Or.inl ⟨h, by simp [h]⟩
  · refine Or.inr ⟨h, ?_⟩
    rw [if_pos h]
    simp only
    generalize s.modRt mi (fun r => { r with currentState := next }) = s0
    split
    · exact QS.withFault _ _
    · split
      · next a _ =>
        exact ((qv_sampleLimit ρ a s0).toQS.trans (QS.modRt _ mi _ (by intro _; rfl))).trans (QS.push _ _ rfl)
      · exact (QS.modRt _ mi _ (by intro _; rfl)).trans (QS.push _ _ rfl)

theorem checkValues_sampled (ms : List Machine) (st : Nat → Nat) (mi ev next : Nat) (recent : List F64)
    (rest : List LogEntry) :
    checkValues ms st recent (.sampled mi ev next :: rest) =
      checkValues ms (if next != STATE_SIGNAL then (fun j => if j == mi then next else st j) else st) [] rest := by
  simp only [checkValues]

/-- a sampled target that is not the signal pseudo-state, after which machine `mi` is in that
    state, followed by quiet entries -/
theorem V.sampled {s t : Fw σ} {mi ev next : Nat} (c : List LogEntry) (hc : ∀ e ∈ c, quietV e = true)
    (hns : next ≠ STATE_SIGNAL) (hm : t.machines = s.machines)
    (hl : t.log = c.reverse ++ (.sampled mi ev next :: s.log))
    (hk : ∀ j : Nat, (t.rt[j]?).map (·.currentState) = if j = mi then some next else (s.rt[j]?).map (·.currentState))
    (hex : ∃ r, s.rt[mi]? = some r) : V ms s t := by
  refine ⟨hm, .sampled mi ev next :: c, by simp [hl], fun _ recent rest => ?_⟩
  rw [List.cons_append, checkValues_sampled]
  have hns' : (next != STATE_SIGNAL) = true := by simpa using hns
  rw [hns', if_pos rfl]
  have hst : (fun j => if j == mi then next else stF s j) = stF t := by
    funext j
    have := hk j
    unfold stF
    by_cases hj : j = mi
    · subst hj
      simp only [if_true] at this
      cases ht : t.rt[j]? with
      | none => rw [ht] at this; simp at this
      | some r' => rw [ht] at this; simp at this; simp [this]
    · simp only [hj, if_false] at this
      have hj' : (j == mi) = false := by simpa using hj
      simp only [hj']
      cases ht : t.rt[j]? <;> cases hs : s.rt[j]? <;> rw [ht, hs] at this <;> simp at this ⊢
      exact this.symm
  rw [hst]
  exact checkValues_quiets ms _ c hc [] rest

/-- the signal pseudo-state: the tracked states stay -/
theorem V.sampledSignal {s t : Fw σ} {mi ev : Nat} (hm : t.machines = s.machines)
    (hl : t.log = .sampled mi ev STATE_SIGNAL :: s.log) (hrt : t.rt = s.rt) : V ms s t := by
  refine ⟨hm, [.sampled mi ev STATE_SIGNAL], by simp [hl], fun _ recent rest => ?_⟩
  rw [List.cons_append, checkValues_sampled]
  have : stF t = stF s := stF_congr (fun j => by rw [hrt])
  rw [this]
  exact ⟨[], by simp⟩

/-! ### the counter update -/

/-- number of raw samples one counter specification consumes -/
def needOf (c : Option Counter) : Nat :=
  match c with
  | some c => if !c.copy && c.dist.isSome then 1 else 0
  | none => 0

/-- the monitor's expected new value of counter A and the raw samples left for B -/
def expAOf (ca : Option Counter) (ao bo : Nat) (raws : List F64) : Nat × List F64 :=
  match ca with
  | none => (ao, raws)
  | some c => (applyOp c.operation ao (operandOf c bo raws).1, (operandOf c bo raws).2)

/-- the monitor's expected new value of counter B -/
def expBOf (cb : Option Counter) (ao bo : Nat) (raws : List F64) : Nat :=
  match cb with
  | none => bo
  | some c => applyOp c.operation bo (operandOf c ao raws).1

theorem checkValues_counter (ms : List Machine) (st : Nat → Nat) (mi ao an bo bn : Nat) (recent : List F64)
    (rest : List LogEntry) (ca cb : Option Counter) (hspec : ctrSpec ms mi (st mi) = some (ca, cb))
    (hA : an = (expAOf ca ao bo (recent.drop (recent.length - (needOf ca + needOf cb)))).1)
    (hB : bn = expBOf cb ao bo (expAOf ca ao bo (recent.drop (recent.length - (needOf ca + needOf cb)))).2) :
    checkValues ms st recent (.counter mi ao an bo bn :: rest) = checkValues ms st [] rest := by
  subst hA hB
  cases ca <;> cases cb <;> simp [checkValues, hspec, needOf, expAOf, expBOf]

/-- the operand of a counter update as the model computes it is the operand the monitor computes
    from the raw samples the update logs -/
theorem operand_val (c : Counter) (other : Nat) (s : Fw σ) :
    ∃ raws : List F64, raws.length = needOf (some c) ∧
      (counterOperand ρ c other s).2.log = (raws.map LogEntry.distRaw).reverse ++ s.log ∧
      (counterOperand ρ c other s).2.rt = s.rt ∧ (counterOperand ρ c other s).2.machines = s.machines ∧
      ∀ more, operandOf c other (raws ++ more) = ((counterOperand ρ c other s).1, more) := by
  unfold counterOperand operandOf
  cases hc : c.copy with
  | true => exact ⟨[], by simp [needOf, hc], rfl, rfl, rfl, fun more => by simp⟩
  | false =>
    simp only [Bool.false_eq_true, if_false]
    unfold sampleValue
    cases hd : c.dist with
    | none => exact ⟨[], by simp [needOf, hc, hd], rfl, rfl, rfl, fun more => by simp⟩
    | some d =>
      simp only []
      unfold distSample
      refine ⟨[match d.constUniform with | some lo => lo | none => (ρ.d d s.rng).1], by simp [needOf, hc, hd],
        rfl, rfl, rfl, fun more => ?_⟩
      cases d.constUniform <;> simp

theorem applyA_val (mi : Nat) (c : Option Counter) (oldA oldB : Nat) (s : Fw σ) (r : Runtime)
    (hr : s.rt[mi]? = some r) (hoA : oldA = r.counterA) :
    ∃ (raws : List F64) (newA : Nat) (r' : Runtime), raws.length = needOf c ∧
      (applyCounterA ρ mi c oldA oldB s).1.log = (raws.map LogEntry.distRaw).reverse ++ s.log ∧
      (applyCounterA ρ mi c oldA oldB s).1.machines = s.machines ∧
      (applyCounterA ρ mi c oldA oldB s).1.rt[mi]? = some r' ∧ r'.currentState = r.currentState ∧
      r'.counterA = newA ∧ r'.counterB = r.counterB ∧
      (∀ j, j ≠ mi → (applyCounterA ρ mi c oldA oldB s).1.rt[j]? = s.rt[j]?) ∧
      ∀ more, expAOf c oldA oldB (raws ++ more) = (newA, more) := by
  unfold applyCounterA
  cases c with
  | none => exact ⟨[], oldA, r, rfl, rfl, rfl, hr, rfl, hoA.symm, rfl, fun _ _ => rfl, fun more => rfl⟩
  | some c =>
    simp only []
    obtain ⟨raws, hlen, hl, hrt, hm, hop⟩ := operand_val ρ c oldB s
    generalize counterOperand ρ c oldB s = p at hl hrt hm hop ⊢
    obtain ⟨_, h2, h3, h4, h5⟩ := CL.storeA_spec mi oldA (applyOp c.operation oldA p.1) p.2 r (by rw [hrt]; exact hr)
    refine ⟨raws, applyOp c.operation oldA p.1, _, hlen, by rw [h4, hl], h5.trans hm, h2, rfl, rfl, rfl,
      fun j hj => by rw [h3 j hj, hrt], fun more => ?_⟩
    simp only [expAOf, hop more]

theorem applyB_val (mi : Nat) (c : Option Counter) (oldA oldB : Nat) (s : Fw σ) (r : Runtime)
    (hr : s.rt[mi]? = some r) (hoB : oldB = r.counterB) :
    ∃ (raws : List F64) (newB : Nat) (r' : Runtime), raws.length = needOf c ∧
      (applyCounterB ρ mi c oldA oldB s).1.log = (raws.map LogEntry.distRaw).reverse ++ s.log ∧
      (applyCounterB ρ mi c oldA oldB s).1.machines = s.machines ∧
      (applyCounterB ρ mi c oldA oldB s).1.rt[mi]? = some r' ∧ r'.currentState = r.currentState ∧
      r'.counterA = r.counterA ∧ r'.counterB = newB ∧
      (∀ j, j ≠ mi → (applyCounterB ρ mi c oldA oldB s).1.rt[j]? = s.rt[j]?) ∧
      expBOf c oldA oldB raws = newB := by
  unfold applyCounterB
  cases c with
  | none => exact ⟨[], oldB, r, rfl, rfl, rfl, hr, rfl, rfl, hoB.symm, fun _ _ => rfl, rfl⟩
  | some c =>
    simp only []
    obtain ⟨raws, hlen, hl, hrt, hm, hop⟩ := operand_val ρ c oldA s
    generalize counterOperand ρ c oldA s = p at hl hrt hm hop ⊢
    obtain ⟨_, h2, h3, h4, h5⟩ := CL.storeB_spec mi oldB (applyOp c.operation oldB p.1) p.2 r (by rw [hrt]; exact hr)
    refine ⟨raws, applyOp c.operation oldB p.1, _, hlen, by rw [h4, hl], h5.trans hm, h2, rfl, rfl, rfl,
      fun j hj => by rw [h3 j hj, hrt], ?_⟩
    have := hop []
    rw [List.append_nil] at this
    simp only [expBOf, this]

theorem drop_suffix {α : Type} (pre suf : List α) (n : Nat) (hn : suf.length = n) :
    (pre ++ suf).drop ((pre ++ suf).length - n) = suf := by
  subst hn
  rw [List.length_append, Nat.add_sub_cancel]
  exact List.drop_left

/-- the counter entry of `update_counter`, preceded by the raw samples of its two operands -/
theorem V.counter {s t : Fw σ} {mi : Nat} {r : Runtime} {m : Machine} {st : State} (rawsA rawsB : List F64)
    (newA newB : Nat)
    (hr : s.rt[mi]? = some r) (hm : s.machines[mi]? = some m) (hst : m.states[r.currentState]? = some st)
    (hmm : t.machines = s.machines)
    (hl : t.log = .counter mi r.counterA newA r.counterB newB ::
      ((rawsB.map LogEntry.distRaw).reverse ++ ((rawsA.map LogEntry.distRaw).reverse ++ s.log)))
    (hk : ∀ j : Nat, (t.rt[j]?).map (·.currentState) = (s.rt[j]?).map (·.currentState))
    (hlenA : rawsA.length = needOf st.counterA) (hlenB : rawsB.length = needOf st.counterB)
    (hA : ∀ more, expAOf st.counterA r.counterA r.counterB (rawsA ++ more) = (newA, more))
    (hB : expBOf st.counterB r.counterA r.counterB rawsB = newB) : V ms s t := by
  refine ⟨hmm, rawsA.map .distRaw ++ (rawsB.map .distRaw ++ [.counter mi r.counterA newA r.counterB newB]),
    by simp [hl], fun hms recent rest => ?_⟩
  rw [stF_congr hk]
  refine ⟨[], ?_⟩
  rw [List.append_assoc, checkValues_raws, List.append_assoc, checkValues_raws]
  have hdrop : (recent ++ rawsA ++ rawsB).drop ((recent ++ rawsA ++ rawsB).length - (needOf st.counterA + needOf st.counterB)) =
      rawsA ++ rawsB := by
    rw [List.append_assoc]
    exact drop_suffix recent (rawsA ++ rawsB) _ (by rw [List.length_append, hlenA, hlenB])
  refine checkValues_counter ms (stF s) mi _ _ _ _ _ rest st.counterA st.counterB ?_ ?_ ?_
  · unfold ctrSpec stF
    rw [← hms, hm, hr]
    simp only [hst]
  · rw [hdrop, hA rawsB]
  · rw [hdrop, hA rawsB, hB]

theorem v_main (fuel : Nat) :
    (∀ mi ev (s : Fw σ), V ms s (transition ρ fuel mi ev s).1) ∧
    (∀ mi (s : Fw σ), V ms s (updateCounter ρ fuel mi s).1) := by
  induction fuel with
  | zero =>
    refine ⟨fun mi ev s => ?_, fun mi s => ?_⟩
    · rw [transition]; exact V.withFault _ _
    · rw [updateCounter]; exact V.withFault _ _
  | succ n ih =>
    obtain ⟨ihT, ihU⟩ := ih
    refine ⟨fun mi ev s => ?_, fun mi s => ?_⟩
    · rw [transition]
      cases hr : s.rt[mi]? with
      | none => exact V.withFault _ _
      | some r =>
      cases hm : s.machines[mi]? with
      | none => exact V.withFault _ _
      | some m =>
      simp only []
      have h0 : V ms s (s.push (.trans mi ev.toNat r.currentState)) := V.push _ _ rfl
      have hr0 : (s.push (.trans mi ev.toNat r.currentState)).rt[mi]? = some r := hr
      generalize s.push (.trans mi ev.toNat r.currentState) = s' at h0 hr0 ⊢
      split
      · exact h0
      · cases hst : m.states[r.currentState]? with
        | none => exact h0.trans (V.withFault _ _)
        | some st =>
        simp only []
        cases htr : st.transitions[ev.toNat]? with
        | none => exact h0.trans (V.withFault _ _)
        | some ov =>
        cases ov with
        | none => exact h0
        | some vec =>
        simp only []
        generalize hs1 : (({ s' with rng := (ρ.u s'.rng).2 }).push (.draw (ρ.u s'.rng).1)) = s1
        have q1 : V ms s s1 := by
          subst hs1
          exact h0.trans (V.quiet [.draw _] (by simp [quietV]) rfl rfl (fun _ => rfl))
        have hr1 : s1.rt[mi]? = some r := by subst hs1; exact hr0
        cases hss : sampleState vec (ρ.u s'.rng).1 with
        | none => simp only []; exact q1
        | some next =>
        simp only []
        split
        · next hend =>
          subst hend
          refine q1.trans (V.sampled (mi := mi) (ev := ev.toNat) (next := STATE_END) [] (by simp)
            STATE_END_ne_SIGNAL (by simp) (by simp [Fw.push]) (fun j => ?_) ⟨r, hr1⟩)
          by_cases hj : j = mi
          · subst hj
            rw [Fw.modRt_rt_self, Fw.push_rt, hr1, if_pos rfl]; rfl
          · rw [Fw.modRt_rt_other _ mi j _ hj, if_neg hj]; rfl
        · split
          · next hsig =>
            subst hsig
            exact q1.trans (V.sampledSignal rfl rfl rfl)
          · next hne hns =>
            have q3 : V ms s1 (enterState ρ mi m r.currentState next (s1.push (.sampled mi ev.toNat next))) := by
              rcases enterState_shape ρ mi m r.currentState next (s1.push (.sampled mi ev.toNat next)) with
                ⟨heq, he⟩ | ⟨hneq, hq⟩
              · rw [he]
                refine V.sampled (mi := mi) (ev := ev.toNat) (next := next) [] (by simp) hns rfl rfl (fun j => ?_) ⟨r, hr1⟩
                by_cases hj : j = mi
                · subst hj
                  rw [Fw.push_rt, hr1, if_pos rfl, ← heq]; rfl
                · rw [if_neg hj]; rfl
              · obtain ⟨hm3, hk3, c, hl3, hc3⟩ := hq
                refine V.sampled (mi := mi) (ev := ev.toNat) (next := next) c hc3 hns (by rw [hm3]; simp)
                  (by rw [hl3]; simp [Fw.push]) (fun j => ?_) ⟨r, hr1⟩
                rw [hk3 j]
                by_cases hj : j = mi
                · subst hj
                  rw [Fw.modRt_rt_self, Fw.push_rt, hr1, if_pos rfl]; rfl
                · rw [Fw.modRt_rt_other _ mi j _ hj, if_neg hj]; rfl
            have q3' := q1.trans q3
            generalize enterState ρ mi m r.currentState next (s1.push (.sampled mi ev.toNat next)) = s3 at q3' ⊢
            cases hr3 : s3.rt[mi]? with
            | none => simp only []; exact q3'.trans (V.withFault _ _)
            | some r1 =>
            simp only []
            cases hb : belowActionLimits s3.g r1 m with
            | none => simp only []; exact q3'.trans (V.withFault _ _)
            | some below =>
            simp only []
            have q4 := q3'.trans (ihU mi s3)
            have q5 : V ms s (if ((updateCounter ρ n mi s3).2.1 && below) = true
                then scheduleAction ρ mi next (updateCounter ρ n mi s3).1 else (updateCounter ρ n mi s3).1) := by
              split
              · exact q4.trans (v_scheduleAction ρ mi next _)
              · exact q4
            generalize (if ((updateCounter ρ n mi s3).2.1 && below) = true
                then scheduleAction ρ mi next (updateCounter ρ n mi s3).1 else (updateCounter ρ n mi s3).1) = s5 at q5 ⊢
            cases hr5 : s5.rt[mi]? with
            | none => simp only []; exact q5.trans (V.withFault _ _)
            | some r2 => simp only []; exact q5
    · rw [updateCounter]
      cases hr : s.rt[mi]? with
      | none => exact V.withFault _ _
      | some r =>
      cases hm : s.machines[mi]? with
      | none => exact V.withFault _ _
      | some m =>
      simp only []
      cases hst : m.states[r.currentState]? with
      | none => exact V.withFault _ _
      | some st =>
      simp only []
      obtain ⟨rawsA, newA, rA, hlenA, hlA, hmA, hrtA, hcsA, hcA, hcbA, hoA, hexpA⟩ :=
        applyA_val ρ mi st.counterA r.counterA r.counterB s r hr rfl
      generalize applyCounterA ρ mi st.counterA r.counterA r.counterB s = ra at hlA hmA hrtA hoA ⊢
      obtain ⟨rawsB, newB, rB, hlenB, hlB, hmB, hrtB, hcsB, hcaB, hcB, hoB, hexpB⟩ :=
        applyB_val ρ mi st.counterB r.counterA r.counterB ra.1 rA hrtA hcbA.symm
      generalize applyCounterB ρ mi st.counterB r.counterA r.counterB ra.1 = rb at hlB hmB hrtB hoB ⊢
      have hcA' : counterAOf rb.1 mi = newA := by unfold counterAOf; rw [hrtB]; simp only []; rw [hcaB, hcA]
      have hcB' : counterBOf rb.1 mi = newB := by unfold counterBOf; rw [hrtB]; simp only []; exact hcB
      rw [hcA', hcB']
      have q2 : V ms s (rb.1.push (.counter mi r.counterA newA r.counterB newB)) := by
        refine V.counter rawsA rawsB newA newB hr hm hst (by simp [hmB, hmA]) (by simp [Fw.push, hlB, hlA])
          (fun j => ?_) hlenA hlenB hexpA hexpB
        by_cases hj : j = mi
        · subst hj
          rw [Fw.push_rt, hrtB, hr]; simp [hcsB, hcsA]
        · rw [Fw.push_rt, hoB j hj, hoA j hj]
      generalize rb.1.push (.counter mi r.counterA newA r.counterB newB) = s2 at q2 ⊢
      split
      · have qT := q2.trans (ihT mi .counterZero s2)
        split
        · exact qT.trans (V.withFault _ _)
        · exact qT
      · exact q2

/-! ### whole calls -/

theorem v_decrement (j : Nat) (s : Fw σ) : V ms s (decrementLimit ρ j s) := by
  unfold decrementLimit
  cases hr : s.rt[j]? with
  | none => exact V.withFault _ _
  | some r =>
  cases hm : s.machines[j]? with
  | none => exact V.withFault _ _
  | some m =>
  simp only []
  generalize (if r.stateLimit > 0 then r.stateLimit - 1 else r.stateLimit) = lim
  have h1 : V ms s ((s.modRt j (fun r' => { r' with stateLimit := lim })).push (.limit j lim true)) :=
    (V.modRt s j _ (by intro _; rfl)).trans (V.push _ _ rfl)
  generalize (s.modRt j (fun r' => { r' with stateLimit := lim })).push (.limit j lim true) = s1 at h1 ⊢
  cases hst : m.states[r.currentState]? with
  | none => exact h1.trans (V.withFault _ _)
  | some st =>
  simp only []
  cases hact : st.action with
  | none => exact h1
  | some a =>
    simp only []
    split
    · split
      · exact h1.trans (V.withFault _ _)
      · exact (h1.trans (V.same (t := { s1 with actions := s1.actions.set j none }) rfl rfl rfl)).trans
          ((v_main ρ FUEL).1 j .limitReached _)
    · exact h1

theorem walkV : WalkEv ρ (V (σ := σ) ms) where
  refl := V.refl
  trans := V.trans
  transition j ev s _ := (v_main ρ FUEL).1 j ev s
  decrement j s _ := v_decrement ρ j s
  fault s f := V.withFault s f
  signal s p := V.same rfl rfl rfl
  setG s g' := V.same rfl rfl rfl
  acct s j f hf := V.modRt s j f (fun r => by rw [hf r])

theorem stF_callStart (s : Fw σ) (t : Int) : stF (s.callStart t) = stF s := by
  refine stF_congr (fun j => ?_)
  simp only [Fw.callStart, List.getElem?_map]
  cases s.rt[j]? <;> rfl

/-- **The value rule accepts the log segment of every call of the model**: every logged counter
    update equals the specified saturating operation on the specified operand (1, the saturating
    cast of the clamped raw sample logged just before, or the other counter's old value), in the
    state the monitor tracks from the snapshot before the call and the `sampled` entries. -/
theorem call_values (es : List TEvent) (t : Int) (s : Fw σ) (hm : s.machines = ms) :
    (triggerEvents ρ es t s).machines = s.machines ∧
    ∃ c, (triggerEvents ρ es t s).log = c.reverse ++ s.log ∧ checkValues ms (stF s) [] c = none := by
  unfold triggerEvents
  have W := walkV ρ (σ := σ) (ms := ms)
  have h0 : V ms s (s.callStart t) := V.keep rfl rfl (fun j => by
    simp only [Fw.callStart, List.getElem?_map]
    cases s.rt[j]? <;> rfl)
  have h1 : V ms (s.callStart t) (es.foldl (fun s e => processEvent ρ e s) (s.callStart t)) :=
    W.toWalkCore.foldl _ (fun a e => W.processEvent e a) es _
  have h2 := W.toWalkCore.signalRound (es.foldl (fun s e => processEvent ρ e s) (s.callStart t))
  obtain ⟨hmm, c, hl, hp⟩ := (h0.trans h1).trans h2
  refine ⟨hmm, c, hl, ?_⟩
  obtain ⟨recent', hc⟩ := hp hm [] []
  rw [List.append_nil] at hc
  rw [hc]
  simp only [checkValues]

/-! ### `C08.monitor` on the model's trace -/

theorem stF_snap (s : Fw σ) : (fun j => match s.snap.rts[j]? with | some r => r.state | none => 0) = stF s := by
  funext j
  unfold stF Fw.snap
  simp only [List.getElem?_map]
  cases s.rt[j]? <;> rfl

theorem go08_nil (t : FwTrace) (i : Nat) (prev : Snap) : C08.monitor.go t i prev [] = none := by
  rw [C08.monitor.go]

theorem go08_bad (t : FwTrace) (i : Nat) (prev : Snap) (c : CallRec) (cs : List CallRec) (h : c.res ≠ .ok) :
    C08.monitor.go t i prev (c :: cs) = none := by
  rw [C08.monitor.go]
  have : (c.res != Res.ok) = true := by simpa using h
  simp [this]

theorem go08_ok (t : FwTrace) (i : Nat) (prev : Snap) (c : CallRec) (cs : List CallRec)
    (hv : checkValues t.machines (fun j => match prev.rts[j]? with | some r => r.state | none => 0) [] c.log = none)
    (hl : C08.checkLog { a := [], b := [] } c.log = none)
    (hh : CL.headCZ c.log = false)
    (hs : C08.strayCZ c.log = none) :
    C08.monitor.go t i prev (c :: cs) = if c.res != .ok then none else C08.monitor.go t (i + 1) c.snap cs := by
  rw [C08.monitor.go]
  split
  · rfl
  · split
    · next msg heq => exact absurd (heq.symm.trans hv) (by simp)
    · split
      · next msg heq => exact absurd (heq.symm.trans hl) (by simp)
      · split
        · next msg heq =>
          exfalso
          cases hlog : c.log with
          | nil => rw [hlog] at heq; simp at heq
          | cons e l =>
            rw [hlog] at heq hh
            cases e with
            | trans mi ev st =>
              have : (ev == Gen.EV_CounterZero) = false := hh
              simp [this] at heq
            | _ => simp at heq
        · split
          · next msg heq => exact absurd (heq.symm.trans hs) (by simp)
          · rfl

/-- the u64 bound on the counters, in the form `CL.call_good` wants -/
def U64 (s : Fw σ) : Prop := ∀ r ∈ s.rt, r.counterA ≤ Fp.u64Max ∧ r.counterB ≤ Fp.u64Max

theorem go08_model (t : FwTrace) (h : List Call) : ∀ (i : Nat) (s : Fw σ), s.machines = t.machines → U64 s →
    C08.monitor.go t i s.snap (LL.callRecs ρ s h) = none := by
  induction h with
  | nil => intro i s _ _; exact go08_nil _ _ _
  | cons c h ih =>
    intro i s hm hb
    rw [LL.callRecs]
    have hb0 : U64 (LL.resetLog s) := hb
    have hm0 : (LL.resetLog s).machines = t.machines := hm
    have hl0 : (LL.resetLog s).log = [] := rfl
    obtain ⟨cc, f', hcc, hg, hi⟩ := CL.call_good ρ c.1 c.2 (LL.resetLog s) hb0
    obtain ⟨hmm, cv, hcv, hval⟩ := call_values ρ (ms := t.machines) c.1 c.2 (LL.resetLog s) hm0
    rw [hl0, List.append_nil] at hcc hcv
    by_cases hok : (triggerEvents ρ c.1 c.2 (LL.resetLog s)).fault = none
    · have hlog : (LL.callRec ρ s c).log = cc := by
        show (triggerEvents ρ c.1 c.2 (LL.resetLog s)).log.reverse = cc
        rw [hcc, List.reverse_reverse]
      have hlog' : (LL.callRec ρ s c).log = cv := by
        show (triggerEvents ρ c.1 c.2 (LL.resetLog s)).log.reverse = cv
        rw [hcv, List.reverse_reverse]
      rw [go08_ok]
      · have hres : (LL.callRec ρ s c).res = .ok := (LL.resOf_ok _).2 hok
        simp only [hres, bne_self_eq_false, Bool.false_eq_true, if_false]
        refine ih (i + 1) _ (hmm.trans hm0) ?_
        intro r hr
        obtain ⟨k, hk, hget⟩ := List.getElem_of_mem hr
        exact hi.bnd k r (by rw [List.getElem?_eq_getElem hk, hget])
      · rw [hlog', stF_snap]
        exact hval
      · rw [hlog]
        have := hg.chk [] rfl
        rw [List.append_nil] at this
        rw [this]; rfl
      · rw [hlog]; exact hg.head
      · rw [hlog]
        have := hg.stray [] rfl
        rw [List.append_nil] at this
        rw [this]; rfl
    · exact go08_bad _ _ _ _ _ (fun hres => hok ((LL.resOf_ok _).1 hres))

theorem u64_init (ms : List Machine) (fp fb : F64) (t0 : Int) (rng : σ) : U64 (Fw.init ρ ms fp fb t0 rng) := by
  have step : ∀ (s : Fw σ) (mi : Nat), (∀ r ∈ s.rt, r.counterA = 0 ∧ r.counterB = 0) →
      ∀ r ∈ (initLimit ρ s mi).rt, r.counterA = 0 ∧ r.counterB = 0 := by
    intro s mi hs
    unfold initLimit
    split
    · simpa using hs
    · split
      · simpa using hs
      · split
        · exact hs
        · next a _ =>
          have hrt := (sampleLimit_spec ρ mi a s).1.rt
          intro r hr
          obtain ⟨i, hi, hget⟩ := List.getElem_of_mem hr
          have hr' : ((sampleLimit ρ a s).2.modRt mi
              (fun r => { r with stateLimit := (sampleLimit ρ a s).1 })).rt[i]? = some r := by
            rw [List.getElem?_eq_getElem hi, hget]
          by_cases him : i = mi
          · subst him
            rw [Fw.modRt_rt_self, hrt] at hr'
            cases h0 : s.rt[i]? with
            | none => rw [h0] at hr'; cases hr'
            | some r0 =>
              rw [h0] at hr'
              simp only [Option.map_some, Option.some.injEq] at hr'
              rw [← hr']
              exact hs r0 (List.mem_of_getElem? h0)
          · rw [Fw.modRt_rt_other _ mi i _ him, hrt] at hr'
            exact hs r (List.mem_of_getElem? hr')
  have hz : ∀ r ∈ (Fw.init ρ ms fp fb t0 rng).rt, r.counterA = 0 ∧ r.counterB = 0 := by
    unfold Fw.init
    generalize List.range ms.length = idx
    have h0 : ∀ r ∈ (Fw.init0 ms fp fb t0 rng).rt, r.counterA = 0 ∧ r.counterB = 0 := by
      intro r hr
      simp only [Fw.init0, List.mem_map] at hr
      obtain ⟨_, _, rfl⟩ := hr
      exact ⟨rfl, rfl⟩
    generalize Fw.init0 ms fp fb t0 rng = s0 at h0
    induction idx generalizing s0 with
    | nil => exact h0
    | cons i idx ih => exact ih _ (step s0 i h0)
  intro r hr
  obtain ⟨ha, hb⟩ := hz r hr
  rw [ha, hb]; exact ⟨Nat.zero_le _, Nat.zero_le _⟩

/-- **`C08.monitor` accepts the model's own trace of every history.** -/
theorem monitor08_model (ms : List Machine) (fp fb : F64) (t0 : Int) (rng : σ) (h : List Call) :
    C08.monitor (LL.modelTrace ρ ms fp fb t0 rng h) = none := by
  unfold C08.monitor
  exact go08_model ρ (LL.modelTrace ρ ms fp fb t0 rng h) h 1 (Fw.init ρ ms fp fb t0 rng)
    (LL.machines_run (init_run ρ ms fp fb t0 rng)) (u64_init ρ ms fp fb t0 rng)

end MB
end Mb
