/-
  Call-level counting on the ghost log: the work bound of C01 and "at most one Signal per machine
  per call" of C09.
-/
import MbVerif.Proofs.LogCount
import MbVerif.Proofs.SignalRound
import MbVerif.Spec.C01

namespace Mb
variable {σ : Type} (ρ : Oracle σ)

/-- a loop whose body adds at most `b j` to the log weight adds at most the sum -/
theorem wsum_foldl {μ : LogEntry → Nat} {α : Type} (F : Fw σ → α → Fw σ) (b : α → Nat)
    (h : ∀ s j, wsum μ (F s j).log ≤ wsum μ s.log + b j) (l : List α) (s : Fw σ) :
    wsum μ (l.foldl F s).log ≤ wsum μ s.log + (l.map b).sum := by
  induction l generalizing s with
  | nil => simp
  | cons a l ih =>
    simp only [List.foldl_cons, List.map_cons, List.sum_cons]
    have := ih (F s a)
    have := h s a
    omega

/-! ### transition invocations (work bound) -/

/-- weight 1 on every `trans` entry -/
def μSteps : LogEntry → Nat
  | .trans .. => 1
  | _ => 0

theorem μSteps_transOnly : TransOnly μSteps := by
  intro e he
  cases e with
  | trans m ev st => exact absurd rfl (he m ev st)
  | _ => rfl

/-- number of transition invocations recorded in the log -/
def stepsOf (s : Fw σ) : Nat := wsum μSteps s.log

theorem steps_transition (mi : Nat) (ev : Event) (s : Fw σ) :
    stepsOf (transition ρ FUEL mi ev s).1 ≤ stepsOf s + 3 := by
  have := (count_main ρ μSteps_transOnly 1 FUEL).1 mi ev 1 s (fun _ => Nat.le_refl _) (fun _ => Nat.le_refl _)
  have hu := unset_le_two s mi
  unfold stepsOf; omega

theorem steps_decrement (mi : Nat) (s : Fw σ) : stepsOf (decrementLimit ρ mi s) ≤ stepsOf s + 3 := by
  unfold decrementLimit
  cases hr : s.rt[mi]? with
  | none => simp only []; unfold stepsOf; rw [(quiet_withFault (μ := μSteps) s _).w]; omega
  | some r =>
  cases hm : s.machines[mi]? with
  | none => simp only []; unfold stepsOf; rw [(quiet_withFault (μ := μSteps) s _).w]; omega
  | some m =>
  simp only []
  generalize (if r.stateLimit > 0 then r.stateLimit - 1 else r.stateLimit) = lim
  have q1 : QuietLog μSteps s ((s.modRt mi (fun r' => { r' with stateLimit := lim })).push (.limit mi lim true)) :=
    (quiet_modRt s mi _).trans (quiet_push μSteps_transOnly _ _ (fun _ _ _ h => by cases h))
  generalize (s.modRt mi (fun r' => { r' with stateLimit := lim })).push (.limit mi lim true) = s1 at q1 ⊢
  have h1 : stepsOf s1 ≤ stepsOf s + 3 := by unfold stepsOf; rw [q1.w]; omega
  cases hst : m.states[r.currentState]? with
  | none => simp only []; unfold stepsOf at *; rw [(quiet_withFault (μ := μSteps) s1 _).w]; exact h1
  | some st =>
  simp only []
  cases hact : st.action with
  | none => exact h1
  | some a =>
    simp only []
    split
    · split
      · unfold stepsOf at *; rw [(quiet_withFault (μ := μSteps) s1 _).w]; exact h1
      · have := steps_transition ρ mi .limitReached ({ s1 with actions := s1.actions.set mi none } : Fw σ)
        have e : stepsOf ({ s1 with actions := s1.actions.set mi none } : Fw σ) = stepsOf s := by
          unfold stepsOf; exact q1.w
        omega
    · exact h1

theorem steps_transDec (mi : Nat) (ev : Event) (s : Fw σ) (c : Fw σ × Bool → Bool) :
    stepsOf (if c (transition ρ FUEL mi ev s) = true then decrementLimit ρ mi (transition ρ FUEL mi ev s).1
             else (transition ρ FUEL mi ev s).1) ≤ stepsOf s + 3 + (if c (transition ρ FUEL mi ev s) = true then 3 else 0) := by
  have h := steps_transition ρ mi ev s
  split
  · have := steps_decrement ρ mi (transition ρ FUEL mi ev s).1; omega
  · omega

theorem sum_map_const (l : List Nat) (k : Nat) : (l.map (fun _ => k)).sum = l.length * k := by
  induction l with
  | nil => simp
  | cons a l ih => simp [ih, Nat.add_mul, Nat.add_comm]

/-- Σ_{j<n} (3 + [j = m]·3) ≤ 3n + 3 -/
theorem sum_range_indicator (n m : Nat) :
    ((List.range n).map (fun j => 3 + (if j = m then 3 else 0))).sum ≤ 3 * n + 3 := by
  induction n with
  | zero => simp
  | succ n ih =>
    rw [List.range_succ, List.map_append, List.sum_append]
    simp only [List.map_cons, List.map_nil, List.sum_cons, List.sum_nil]
    by_cases h : n = m
    · subst h
      -- all earlier indices differ from n
      have : ((List.range n).map (fun j => 3 + (if j = n then 3 else 0))).sum = 3 * n := by
        have heq : (List.range n).map (fun j => 3 + (if j = n then 3 else 0)) = (List.range n).map (fun _ => 3) := by
          apply List.map_congr_left
          intro j hj
          have : j ≠ n := by have := List.mem_range.mp hj; omega
          simp [this]
        rw [heq, sum_map_const]; simp [Nat.mul_comm]
      simp only [if_true]; omega
    · simp only [h, if_false]; omega

theorem steps_processEvent (e : TEvent) (s : Fw σ) :
    stepsOf (processEvent ρ e s) ≤ stepsOf s + (3 * s.rt.length + 3) := by
  have hall : ∀ (ev : Event) (s' : Fw σ), stepsOf (transitionAll ρ ev s') ≤ stepsOf s' + 3 * s'.rt.length := by
    intro ev s'
    unfold transitionAll
    have := wsum_foldl (μ := μSteps) (fun s mi => (transition ρ FUEL mi ev s).1) (fun _ => 3)
      (fun s j => steps_transition ρ j ev s) (List.range s'.rt.length) s'
    rw [sum_map_const] at this
    simp only [List.length_range] at this
    unfold stepsOf; omega
  unfold processEvent
  cases e with
  | normalRecv => simp only []; have := hall .normalRecv s; omega
  | paddingRecv => simp only []; have := hall .paddingRecv s; omega
  | tunnelRecv => simp only []; have := hall .tunnelRecv s; omega
  | tunnelSent => simp only []; have := hall .tunnelSent s; omega
  | normalSent =>
    simp only []
    have := wsum_foldl (μ := μSteps)
      (fun s mi => (transition ρ FUEL mi .normalSent
        (s.modRt mi (fun r => { r with acct := { r.acct with normalSent := r.acct.normalSent + 1 } }))).1) (fun _ => 3)
      (fun s j => by
        have := steps_transition ρ j .normalSent
          (s.modRt j (fun r => { r with acct := { r.acct with normalSent := r.acct.normalSent + 1 } }))
        unfold stepsOf at this
        rw [(quiet_modRt (μ := μSteps) s j _).w] at this
        exact this)
      (List.range s.rt.length) ({ s with g := { s.g with normalSent := s.g.normalSent + 1 } } : Fw σ)
    rw [sum_map_const] at this
    simp only [List.length_range] at this
    unfold stepsOf
    have e0 : wsum μSteps ({ s with g := { s.g with normalSent := s.g.normalSent + 1 } } : Fw σ).log = wsum μSteps s.log := rfl
    omega
  | paddingSent mi =>
    simp only []
    split
    · unfold stepsOf; simp only []; omega
    · next hge =>
      have hmi : mi < s.rt.length := by simpa using hge
      have := steps_transDec ρ mi .paddingSent
        (({ s with g := { s.g with paddingSent := s.g.paddingSent + 1 } } : Fw σ).modRt mi
          (fun r => { r with acct := { r.acct with paddingSent := r.acct.paddingSent + 1 } }))
        (fun p => !p.2 && notEnded p.1 mi)
      have e0 : stepsOf (({ s with g := { s.g with paddingSent := s.g.paddingSent + 1 } } : Fw σ).modRt mi
          (fun r => { r with acct := { r.acct with paddingSent := r.acct.paddingSent + 1 } })) = stepsOf s := by
        unfold stepsOf; rw [(quiet_modRt (μ := μSteps) _ mi _).w]
      refine Nat.le_trans this ?_
      rw [e0]
      split <;> omega
  | blockingBegin m =>
    simp only []
    generalize hs1 : (if !s.g.blockingActive then
        ({ s with g := { s.g with blockingActive := true, blockingStarted := s.g.now } } : Fw σ) else s) = s1
    have e1 : stepsOf s1 = stepsOf s ∧ s1.rt.length = s.rt.length := by subst hs1; split <;> exact ⟨rfl, rfl⟩
    have := wsum_foldl (μ := μSteps)
      (fun s mi => if (!(transition ρ FUEL mi .blockingBegin s).2 && notEnded (transition ρ FUEL mi .blockingBegin s).1 mi && mi == m) = true
        then decrementLimit ρ mi (transition ρ FUEL mi .blockingBegin s).1 else (transition ρ FUEL mi .blockingBegin s).1)
      (fun j => 3 + (if j = m then 3 else 0))
      (fun s j => by
        have := steps_transDec ρ j .blockingBegin s (fun p => !p.2 && notEnded p.1 j && j == m)
        unfold stepsOf at this
        refine Nat.le_trans this ?_
        by_cases hjm : j = m
        · simp only [hjm, if_true]; split <;> omega
        · have : (j == m) = false := by simpa using hjm
          simp only [this, Bool.and_false, Bool.false_eq_true, if_false, hjm]; omega)
      (List.range s1.rt.length) s1
    have hsum := sum_range_indicator s1.rt.length m
    have hl := e1.2
    have h0 := e1.1
    unfold stepsOf at *
    omega
  | blockingEnd =>
    simp only []
    generalize (if s.g.blockingActive then durSince s.g.now s.g.blockingStarted else 0) = blocked
    generalize hs1 : (if s.g.blockingActive = true then
        ({ (if s.g.blockingDur + blocked > durMax then s.withFault Fault.durOverflow else s) with
            g := { (if s.g.blockingDur + blocked > durMax then s.withFault Fault.durOverflow else s).g with
              blockingDur := (if s.g.blockingDur + blocked > durMax then s.withFault Fault.durOverflow else s).g.blockingDur + blocked,
              blockingActive := false } } : Fw σ) else s) = s1
    have e1 : stepsOf s1 = stepsOf s ∧ s1.rt.length = s.rt.length := by
      subst hs1
      split
      · split
        · exact ⟨by unfold stepsOf; simp, by simp⟩
        · exact ⟨rfl, rfl⟩
      · exact ⟨rfl, rfl⟩
    have := wsum_foldl (μ := μSteps)
      (fun s' mi => (transition ρ FUEL mi .blockingEnd
        (if blocked ≠ 0 then
          match s'.rt[mi]? with
          | none => s'.withFault .oob
          | some r =>
            (if r.acct.blockingDur + blocked > durMax then s'.withFault .durOverflow else s').modRt mi
              (fun r => { r with acct := { r.acct with blockingDur := r.acct.blockingDur + blocked } })
         else s')).1)
      (fun _ => 3)
      (fun s' j => by
        have h := steps_transition ρ j .blockingEnd
          (if blocked ≠ 0 then
            match s'.rt[j]? with
            | none => s'.withFault .oob
            | some r =>
              (if r.acct.blockingDur + blocked > durMax then s'.withFault .durOverflow else s').modRt j
                (fun r => { r with acct := { r.acct with blockingDur := r.acct.blockingDur + blocked } })
           else s')
        have hq : stepsOf (if blocked ≠ 0 then
            match s'.rt[j]? with
            | none => s'.withFault .oob
            | some r =>
              (if r.acct.blockingDur + blocked > durMax then s'.withFault .durOverflow else s').modRt j
                (fun r => { r with acct := { r.acct with blockingDur := r.acct.blockingDur + blocked } })
           else s') = stepsOf s' := by
          unfold stepsOf
          split
          · cases s'.rt[j]? with
            | none => simp
            | some r => simp only []; split <;> simp
          · rfl
        unfold stepsOf at h hq
        omega)
      (List.range s1.rt.length) s1
    rw [sum_map_const] at this
    simp only [List.length_range] at this
    have hl := e1.2
    have h0 := e1.1
    unfold stepsOf at h0 ⊢
    refine Nat.le_trans this ?_
    omega
  | timerBegin mi =>
    simp only []
    split
    · omega
    · next hge =>
      have hmi : mi < s.rt.length := by simpa using hge
      have := steps_transDec ρ mi .timerBegin s (fun p => !p.2 && notEnded p.1 mi)
      refine Nat.le_trans this ?_
      split <;> omega
  | timerEnd mi =>
    simp only []
    split
    · omega
    · have := steps_transition ρ mi .timerEnd s; omega


theorem run_rtLen {s t : Fw σ} (h : Run s t) : t.rt.length = s.rt.length :=
  Run.inv (fun u : Fw σ => u.rt.length = s.rt.length)
    (fun a b ha hp => by
      cases hp with
      | step mi st => rw [st.frame.rtLen]; exact ha
      | setG => exact ha
      | setAcct => simpa using ha
      | callStart => simpa [Fw.callStart] using ha) h rfl

theorem steps_signalFold (excluded : Option Nat) (s : Fw σ) (n : Nat) :
    stepsOf ((List.range n).foldl (fun s mi =>
      if (excluded == some mi) = true then s else (transition ρ FUEL mi .signal s).1) s) ≤ stepsOf s + 3 * n := by
  have := wsum_foldl (μ := μSteps) (fun s mi =>
      if (excluded == some mi) = true then s else (transition ρ FUEL mi .signal s).1) (fun _ => 3)
    (fun s j => by
      split
      · omega
      · exact steps_transition ρ j .signal s) (List.range n) s
  rw [sum_map_const] at this
  simp only [List.length_range] at this
  unfold stepsOf; omega

theorem steps_signalRound (s : Fw σ) : stepsOf (signalRound ρ s) ≤ stepsOf s + (3 * s.rt.length + 3) := by
  unfold signalRound
  cases hsig : s.signalPending with
  | none => simp only []; omega
  | some sig =>
    cases sig with
    | all =>
      simp only []
      have h := steps_signalFold ρ none ({ s with signalPending := none } : Fw σ) s.rt.length
      have e0 : stepsOf ({ s with signalPending := none } : Fw σ) = stepsOf s := rfl
      generalize ((List.range s.rt.length).foldl (fun s mi =>
          if ((none : Option Nat) == some mi) = true then s else (transition ρ FUEL mi .signal s).1)
          ({ s with signalPending := none } : Fw σ)) = s2 at h ⊢
      cases hs2 : s2.signalPending with
      | none => simp only []; omega
      | some _ =>
        simp only []
        have : stepsOf ({ s2 with signalPending := none } : Fw σ) = stepsOf s2 := rfl
        omega
    | allExcept x =>
      simp only []
      have h := steps_signalFold ρ (some x) ({ s with signalPending := none } : Fw σ) s.rt.length
      have e0 : stepsOf ({ s with signalPending := none } : Fw σ) = stepsOf s := rfl
      generalize ((List.range s.rt.length).foldl (fun s mi =>
          if (some x == some mi) = true then s else (transition ρ FUEL mi .signal s).1)
          ({ s with signalPending := none } : Fw σ)) = s2 at h ⊢
      cases hs2 : s2.signalPending with
      | none => simp only []; omega
      | some _ =>
        simp only []
        have := steps_transition ρ x .signal ({ s2 with signalPending := none } : Fw σ)
        have e2 : stepsOf ({ s2 with signalPending := none } : Fw σ) = stepsOf s2 := rfl
        omega

/-- The work of one call: at most 3·(machines + 1)·(events + 1) transition invocations. -/
theorem steps_triggerEvents (es : List TEvent) (t : Int) (s : Fw σ) :
    stepsOf (triggerEvents ρ es t s) ≤ stepsOf s + 3 * (s.rt.length + 1) * (es.length + 1) := by
  unfold triggerEvents
  have hfold : ∀ (es : List TEvent) (s' : Fw σ),
      stepsOf (es.foldl (fun s e => processEvent ρ e s) s') ≤ stepsOf s' + (3 * s'.rt.length + 3) * es.length ∧
      (es.foldl (fun s e => processEvent ρ e s) s').rt.length = s'.rt.length := by
    intro es
    induction es with
    | nil => intro s'; exact ⟨by simp, rfl⟩
    | cons e es ih =>
      intro s'
      simp only [List.foldl_cons, List.length_cons]
      have h1 := steps_processEvent ρ e s'
      have hl : (processEvent ρ e s').rt.length = s'.rt.length := run_rtLen (processEvent_run ρ e s')
      obtain ⟨h2, h3⟩ := ih (processEvent ρ e s')
      rw [hl] at h2
      refine ⟨?_, h3.trans hl⟩
      have : (3 * s'.rt.length + 3) * (es.length + 1) = (3 * s'.rt.length + 3) * es.length + (3 * s'.rt.length + 3) := by
        rw [Nat.mul_add]; simp
      omega
  obtain ⟨h1, h2⟩ := hfold es (s.callStart t)
  have h3 := steps_signalRound ρ (es.foldl (fun s e => processEvent ρ e s) (s.callStart t))
  have hl0 : (s.callStart t).rt.length = s.rt.length := by simp [Fw.callStart]
  have e0 : stepsOf (s.callStart t) = stepsOf s := rfl
  rw [h2, hl0] at h3
  rw [hl0] at h1
  have : 3 * (s.rt.length + 1) * (es.length + 1) = (3 * s.rt.length + 3) * es.length + (3 * s.rt.length + 3) := by
    have : 3 * (s.rt.length + 1) = 3 * s.rt.length + 3 := by omega
    rw [this, Nat.mul_add]; simp
  omega

end Mb
