/-
  C03: accuracy of the blocked share the code computes in doubles
  (`Duration::as_secs_f64` twice, one division) against the exact rational share.

  Range assumption throughout: durations `< 2^53 · 10^9` ns (≈ 285 million years), so that the
  whole seconds are exactly representable; the elapsed time `b` is positive.

  Main results
  * `rne_rel_err`      one binary64 rounding of `q ≥ 2^-1022` has relative error `≤ 2^-53`
  * `secsF64_accuracy` `secsF64 ns = .fin s`, `|s − ns/10^9| ≤ (ns/10^9) · 2^-52`   (ε₁ = 2^-52)
  * `divDur_accuracy`  `divDur a b = .fin d`, `|d − a/b| ≤ (a/b) · 2^-50`           (ε  = 2^-50)
  * `C03_exact`        `belowShare a b f = true`  → `(a/b) · (1 − 2^-50) < q`
  * `C03_exact'`       `belowShare a b f = true`  → `a/b < q · (1 + 2^-49)`
  * `C03_exact_conv`   `belowShare a b f = false` → `q ≤ (a/b) · (1 + 2^-50)`
  * `C03_exact_band`   the contrapositives: outside the band the double test equals `a/b < q`
  where `val64 f = .fin q`, `q > 0` (a set limit; for `q ≤ 0`/NaN `belowShare` is `true` by
  definition, `belowShare_unset`; for `+inf` too since the computed share is finite,
  `belowShare_inf`).
-/
import MbVerif.Proofs.Fp
import MbVerif.Proofs.C02Exact
import MbVerif.Spec.C03
import Mathlib.Tactic.NormNum
import Mathlib.Tactic.Linarith
import Mathlib.Tactic.Positivity
import Mathlib.Tactic.Ring
import Mathlib.Tactic.FieldSimp

namespace Mb
open Fp

/-! ### generic facts -/

theorem pow2_neg_eq (k : Nat) : pow2 (-(k : Int)) = 1 / 2 ^ k := by
  rw [pow2_eq_zpow, zpow_neg, zpow_natCast, one_div]

theorem pow2_nat_eq (k : Nat) : pow2 (k : Int) = 2 ^ k := by
  rw [pow2_eq_zpow, zpow_natCast]

theorem rep_pow2 {k : Int} (h : -1074 ≤ k) : Rep 53 (-1074) (pow2 k) :=
  ⟨1, k, h, by norm_num, by simp⟩

/-- in the normal range of binary64 one rounding has relative error at most `2^-53` -/
theorem rne_rel_err {q : ℚ} (hq : pow2 (-1022) ≤ q) :
    |rne 53 (-1074) q - q| ≤ q * (1 / 2 ^ 53) := by
  have hq0 : 0 < q := lt_of_lt_of_le (pow2_pos _) hq
  have h := rne_err_pos 53 (-1074) hq0
  have hil : -1022 ≤ ilog2 q := le_ilog2_of_pow2_le hq0 hq
  have hex : expo 53 (-1074) q = ilog2 q - 52 := by
    unfold expo; push_cast; omega
  rw [hex] at h
  have h52 : pow2 52 = 2 ^ 52 := pow2_nat_eq 52
  have h2 : pow2 (ilog2 q - 52) / 2 = pow2 (ilog2 q) * (1 / 2 ^ 53) := by
    rw [pow2_sub, h52]; ring
  rw [h2] at h
  have hlo := (ilog2_spec hq0).1
  exact le_trans h (mul_le_mul_of_nonneg_right hlo (by positivity))

/-- a non-negative number bounded by a representable value below the overflow threshold rounds
    to a finite double -/
theorem round_fin_of_le {q B : ℚ} (h0 : 0 ≤ q) (hB : Rep 53 (-1074) B) (hqB : q ≤ B)
    (hB2 : B < pow2 1024) : f64.round q = .fin (rne 53 (-1074) q) := by
  have hr : rne 53 (-1074) q ≤ B := rne_le_of_le_rep 53 (by decide) _ hB hqB
  have hr0 : 0 ≤ rne 53 (-1074) q := rne_nonneg 53 (-1074) h0
  have hp := pow2_pos 1024
  have h1 : ¬ pow2 f64.emax ≤ rne f64.p f64.emin q := by
    show ¬ pow2 1024 ≤ rne 53 (-1074) q
    intro h; linarith
  have h2 : ¬ rne f64.p f64.emin q ≤ -pow2 f64.emax := by
    show ¬ rne 53 (-1074) q ≤ -pow2 1024
    intro h; linarith
  unfold Fmt.round
  simp only []
  rw [if_neg h1, if_neg h2]
  rfl

theorem round_zero : f64.round 0 = .fin 0 := by
  have hp := pow2_pos 1024
  exact Fmt.round_eq_self_of_rep f64 (rep_zero _ _) (by show (0 : ℚ) < pow2 1024; exact hp)
    (by show -pow2 1024 < 0; linarith)

/-- relative errors compose -/
theorem rel_comp {x y z e1 e2 : ℚ} (he2 : 0 ≤ e2)
    (h1 : |y - x| ≤ x * e1) (h2 : |z - y| ≤ y * e2) :
    |z - x| ≤ x * (e1 + e2 + e1 * e2) := by
  have hy : y ≤ x * (1 + e1) := by have := (abs_le.mp h1).2; linarith
  have h3 : y * e2 ≤ x * (1 + e1) * e2 := mul_le_mul_of_nonneg_right hy he2
  have h4 : |z - x| ≤ |z - y| + |y - x| := by
    have := abs_add_le (z - y) (y - x); simpa using this
  calc |z - x| ≤ |z - y| + |y - x| := h4
    _ ≤ x * (1 + e1) * e2 + x * e1 := by linarith
    _ = x * (e1 + e2 + e1 * e2) := by ring

/-- relative error of a quotient of two approximations -/
theorem div_rel {c B sa sb e η : ℚ} (hc : 0 ≤ c) (hB : 0 < B) (he1 : e < 1) (hη : η ≤ 1)
    (hsa : |sa - c * B| ≤ c * B * e) (hsb : |sb - B| ≤ B * e)
    (h1 : 1 + e ≤ (1 + η) * (1 - e)) (h2 : (1 - η) * (1 + e) ≤ 1 - e) :
    |sa / sb - c| ≤ c * η := by
  have hsa' := abs_le.mp hsa
  have hsb' := abs_le.mp hsb
  have hsblo : B * (1 - e) ≤ sb := by linarith
  have hsbhi : sb ≤ B * (1 + e) := by linarith
  have hsb0 : 0 < sb := lt_of_lt_of_le (mul_pos hB (by linarith)) hsblo
  have hcB : 0 ≤ c * B := mul_nonneg hc hB.le
  have hη1 : 0 ≤ 1 + η := by
    by_contra hcon
    have : (1 + η) * (1 - e) < 0 := mul_neg_of_neg_of_pos (not_le.mp hcon) (by linarith)
    have : 0 ≤ e := by
      by_contra hneg
      have h5 := abs_nonneg (sb - B)
      have : B * e < 0 := mul_neg_of_pos_of_neg hB (not_le.mp hneg)
      linarith
    linarith
  rw [abs_le]
  constructor
  · -- c (1 - η) ≤ sa / sb
    have : c * (1 - η) ≤ sa / sb := by
      rw [le_div_iff₀ hsb0]
      calc c * (1 - η) * sb ≤ c * (1 - η) * (B * (1 + e)) :=
            mul_le_mul_of_nonneg_left hsbhi (mul_nonneg hc (by linarith))
        _ = c * B * ((1 - η) * (1 + e)) := by ring
        _ ≤ c * B * (1 - e) := mul_le_mul_of_nonneg_left h2 hcB
        _ ≤ sa := by linarith
    linarith
  · have : sa / sb ≤ c * (1 + η) := by
      rw [div_le_iff₀ hsb0]
      calc sa ≤ c * B * (1 + e) := by linarith
        _ ≤ c * B * ((1 + η) * (1 - e)) := mul_le_mul_of_nonneg_left h1 hcB
        _ = c * (1 + η) * (B * (1 - e)) := by ring
        _ ≤ c * (1 + η) * sb := mul_le_mul_of_nonneg_left hsblo (mul_nonneg hc hη1)
    linarith

/-! ### `Duration::as_secs_f64` -/

theorem pow2_neg30 : pow2 (-30) = 1 / 2 ^ 30 := by
  have := pow2_neg_eq 30
  simpa using this

theorem rep_one : Rep 53 (-1074) 1 := by
  have := rep_pow2 (k := 0) (by norm_num)
  rwa [pow2_zero] at this

theorem rep_inv30 : Rep 53 (-1074) (1 / 2 ^ 30) := by
  rw [← pow2_neg30]; exact rep_pow2 (by norm_num)

theorem rep_two53 : Rep 53 (-1074) (2 ^ 53) := by
  have := rep_pow2 (k := 53) (by norm_num)
  rwa [show pow2 53 = 2 ^ 53 from pow2_nat_eq 53] at this

theorem two53_lt : (2 : ℚ) ^ 53 < pow2 1024 := by
  rw [← show pow2 53 = 2 ^ 53 from pow2_nat_eq 53]; exact pow2_lt_pow2 (by norm_num)

theorem one_lt_pow2_1024 : (1 : ℚ) < pow2 1024 := by
  rw [← pow2_zero]; exact pow2_lt_pow2 (by norm_num)

theorem normal_of_inv30_le {q : ℚ} (h : 1 / 2 ^ 30 ≤ q) : pow2 (-1022) ≤ q :=
  calc pow2 (-1022) ≤ pow2 (-30) := pow2_le_pow2 (by norm_num)
    _ = 1 / 2 ^ 30 := pow2_neg30
    _ ≤ q := h

/-- the rounded fractional part `fl(r / 10^9)` for `0 < r < 10^9` -/
theorem frac_round {r : Nat} (hr0 : 0 < r) (hr : r < 10 ^ 9) :
    ∃ t : ℚ, f64.round ((r : ℚ) / 1000000000) = .fin t ∧ Rep 53 (-1074) t ∧
      |t - (r : ℚ) / 10 ^ 9| ≤ (r : ℚ) / 10 ^ 9 * (1 / 2 ^ 53) ∧ 1 / 2 ^ 30 ≤ t ∧ t ≤ 1 := by
  have hρe : (r : ℚ) / 10 ^ 9 = (r : ℚ) / 1000000000 := by norm_num
  rw [hρe]
  set ρ : ℚ := (r : ℚ) / 1000000000 with hρ
  have hr1 : (1 : ℚ) ≤ r := by exact_mod_cast hr0
  have hr2 : (r : ℚ) < 1000000000 := by exact_mod_cast hr
  have hlo : 1 / 2 ^ 30 ≤ ρ := by
    rw [hρ, div_le_div_iff₀ (by positivity) (by positivity)]; norm_num; linarith
  have hhi : ρ ≤ 1 := by
    rw [hρ, div_le_one (by positivity)]; linarith
  have hρ0 : 0 ≤ ρ := le_trans (by positivity) hlo
  refine ⟨rne 53 (-1074) ρ, ?_, rne_rep 53 (by decide) _ _, ?_, ?_, ?_⟩
  · exact round_fin_of_le hρ0 rep_one hhi one_lt_pow2_1024
  · exact rne_rel_err (normal_of_inv30_le hlo)
  · exact le_rne_of_rep_le 53 (by decide) _ rep_inv30 hlo
  · exact rne_le_of_le_rep 53 (by decide) _ rep_one hhi

/-- `Duration::as_secs_f64` with range information: the result is a finite double within relative
    error `2^-52` of the exact number of seconds, it is `≥ 2^-30` for a non-zero duration, and
    `≤ 2^53`. -/
theorem secsF64_bounds (ns : Nat) (h : ns < 2 ^ 53 * 10 ^ 9) :
    ∃ s : ℚ, secsF64 ns = .fin s ∧
      |s - (ns : ℚ) / 10 ^ 9| ≤ (ns : ℚ) / 10 ^ 9 * (1 / 2 ^ 52) ∧
      (0 < ns → 1 / 2 ^ 30 ≤ s) ∧ s ≤ 2 ^ 53 := by
  unfold secsF64
  set S := ns / 1000000000 with hS
  set r := ns % 1000000000 with hr
  have hSlt : S < 2 ^ 53 := by
    rw [hS]; apply Nat.div_lt_of_lt_mul; norm_num at h ⊢; omega
  have hrlt : r < 10 ^ 9 := by rw [hr]; exact Nat.mod_lt _ (by norm_num)
  have hnat : 1000000000 * S + r = ns := Nat.div_add_mod ns 1000000000
  have hns : (ns : ℚ) = (S : ℚ) * 10 ^ 9 + r := by
    have : ((1000000000 * S + r : ℕ) : ℚ) = (ns : ℚ) := congrArg Nat.cast hnat
    rw [← this]; push_cast; ring
  have hx : (ns : ℚ) / 10 ^ 9 = S + (r : ℚ) / 10 ^ 9 := by rw [hns]; field_simp
  have hS0' : (0 : ℚ) ≤ S := by positivity
  have hS53 : (S : ℚ) + 1 ≤ 2 ^ 53 := by
    have : S + 1 ≤ 2 ^ 53 := hSlt
    exact_mod_cast this
  rw [ofNat_exact S hSlt, ofNat_exact r (lt_trans hrlt (by norm_num))]
  have hdiv : div f64 (.fin (r : ℚ)) (.fin 1000000000) = f64.round ((r : ℚ) / 1000000000) := by
    simp [div]
  rw [hdiv, hx]
  by_cases hr0 : r = 0
  · rw [hr0]
    simp only [Nat.cast_zero, zero_div, round_zero, add, add_zero]
    refine ⟨S, ofNat_exact S hSlt, by simp, ?_, by linarith⟩
    intro hpos
    have : 1 ≤ S := by omega
    have : (1 : ℚ) ≤ S := by exact_mod_cast this
    have : (1 : ℚ) / 2 ^ 30 ≤ 1 := by norm_num
    linarith
  · obtain ⟨t, ht, htrep, hterr, htlo, hthi⟩ := frac_round (Nat.pos_of_ne_zero hr0) hrlt
    rw [ht]
    simp only [add]
    have hρ0 : (0 : ℚ) ≤ (r : ℚ) / 10 ^ 9 := by positivity
    have hterr' := abs_le.mp hterr
    by_cases hS0 : S = 0
    · rw [hS0]
      simp only [Nat.cast_zero, zero_add]
      have h1024 := one_lt_pow2_1024
      refine ⟨t, Fmt.round_eq_self_of_rep f64 htrep (by show t < pow2 1024; linarith)
        (by show -pow2 1024 < t; linarith [show (0 : ℚ) < 1 / 2 ^ 30 by positivity]), ?_,
        fun _ => htlo, by linarith [show (1 : ℚ) ≤ 2 ^ 53 by norm_num]⟩
      refine le_trans hterr ?_
      apply mul_le_mul_of_nonneg_left _ hρ0
      norm_num
    · have hS1 : (1 : ℚ) ≤ S := by
        have : 1 ≤ S := Nat.pos_of_ne_zero hS0
        exact_mod_cast this
      have hq0 : (0 : ℚ) ≤ (S : ℚ) + t := by linarith [show (0 : ℚ) < 1 / 2 ^ 30 by positivity]
      have hqhi : (S : ℚ) + t ≤ 2 ^ 53 := by linarith
      have hqlo : (1 : ℚ) / 2 ^ 30 ≤ (S : ℚ) + t := by linarith
      have herr := rne_rel_err (normal_of_inv30_le hqlo)
      refine ⟨rne 53 (-1074) ((S : ℚ) + t), round_fin_of_le hq0 rep_two53 hqhi two53_lt, ?_,
        fun _ => le_rne_of_rep_le 53 (by decide) _ rep_inv30 hqlo,
        rne_le_of_le_rep 53 (by decide) _ rep_two53 hqhi⟩
      have herr' := abs_le.mp herr
      rw [abs_le]
      constructor <;> linarith

/-- **Accuracy of `Duration::as_secs_f64`.**  For a duration of `ns < 2^53 · 10^9` nanoseconds
    (about 285 million years; the whole seconds are then exactly representable) the double the
    code computes is finite and within relative error `ε₁ = 2^-52` of the exact number of seconds
    `ns / 10^9`.  (For `ns = 0` the bound forces `s = 0`, see `secsF64_zero`.) -/
theorem secsF64_accuracy (ns : Nat) (h : ns < 2 ^ 53 * 10 ^ 9) :
    ∃ s : ℚ, secsF64 ns = .fin s ∧
      |s - (ns : ℚ) / 10 ^ 9| ≤ (ns : ℚ) / 10 ^ 9 * (1 / 2 ^ 52) := by
  obtain ⟨s, h1, h2, _⟩ := secsF64_bounds ns h
  exact ⟨s, h1, h2⟩

theorem secsF64_zero : secsF64 0 = .fin 0 := by
  obtain ⟨s, h1, h2⟩ := secsF64_accuracy 0 (by norm_num)
  have : s = 0 := by simpa using h2
  rw [h1, this]

/-! ### `div_duration_f64` -/

/-- **Accuracy of the double share.**  For durations `a, b < 2^53 · 10^9` ns with `b > 0` the
    quotient `div_duration_f64(a, b)` computed in doubles (two `as_secs_f64`, one division) is a
    finite double (no overflow, no NaN) within relative error `ε = 2^-50` of the exact rational
    quotient `a / b`.  (For `a = 0` the bound forces `d = 0`, see `divDur_zero`.) -/
theorem divDur_accuracy (a b : Nat) (ha : a < 2 ^ 53 * 10 ^ 9) (hb : b < 2 ^ 53 * 10 ^ 9)
    (hb0 : 0 < b) :
    ∃ d : ℚ, divDur a b = .fin d ∧ |d - (a : ℚ) / b| ≤ (a : ℚ) / b * (1 / 2 ^ 50) := by
  obtain ⟨sa, hsa, hsaerr, hsalo, hsahi⟩ := secsF64_bounds a ha
  obtain ⟨sb, hsb, hsberr, hsblo, hsbhi⟩ := secsF64_bounds b hb
  have hsblo := hsblo hb0
  have hsbpos : 0 < sb := lt_of_lt_of_le (by positivity) hsblo
  unfold divDur
  rw [hsa, hsb]
  have hdiv : div f64 (.fin sa) (.fin sb) = f64.round (sa / sb) := by
    simp [div, hsbpos.ne']
  rw [hdiv]
  by_cases ha0 : a = 0
  · subst ha0
    have : sa = 0 := by simpa using hsaerr
    exact ⟨0, by rw [this, zero_div, round_zero], by simp⟩
  · have hsalo := hsalo (Nat.pos_of_ne_zero ha0)
    have hbq : (0 : ℚ) < b := by exact_mod_cast hb0
    -- the quotient of the two doubles is in the normal range
    have hqlo : (1 : ℚ) / 2 ^ 83 ≤ sa / sb := by
      rw [le_div_iff₀ hsbpos]; linarith
    have hqhi : sa / sb ≤ 2 ^ 83 := by
      rw [div_le_iff₀ hsbpos]; linarith
    have h83 : pow2 83 = 2 ^ 83 := pow2_nat_eq 83
    have hrep83 : Rep 53 (-1074) (2 ^ 83) := by
      have := rep_pow2 (k := 83) (by norm_num)
      rwa [h83] at this
    have h83lt : (2 : ℚ) ^ 83 < pow2 1024 := by
      rw [← h83]; exact pow2_lt_pow2 (by norm_num)
    have hnorm : pow2 (-1022) ≤ sa / sb := by
      have h1 : pow2 (-83) = 1 / 2 ^ 83 := by
        have := pow2_neg_eq 83
        simpa using this
      calc pow2 (-1022) ≤ pow2 (-83) := pow2_le_pow2 (by norm_num)
        _ = 1 / 2 ^ 83 := h1
        _ ≤ sa / sb := hqlo
    have hq0 : 0 ≤ sa / sb := le_trans (by positivity) hqlo
    have herr := rne_rel_err hnorm
    refine ⟨rne 53 (-1074) (sa / sb), round_fin_of_le hq0 hrep83 hqhi h83lt, ?_⟩
    -- error of the exact quotient of the two doubles
    have hc : (0 : ℚ) ≤ (a : ℚ) / b := by positivity
    have hB : (0 : ℚ) < (b : ℚ) / 10 ^ 9 := by positivity
    have hcB : (a : ℚ) / b * ((b : ℚ) / 10 ^ 9) = (a : ℚ) / 10 ^ 9 := by
      field_simp
    have hsa' : |sa - (a : ℚ) / b * ((b : ℚ) / 10 ^ 9)| ≤
        (a : ℚ) / b * ((b : ℚ) / 10 ^ 9) * (1 / 2 ^ 52) := by rw [hcB]; exact hsaerr
    have hquot : |sa / sb - (a : ℚ) / b| ≤ (a : ℚ) / b * (1 / 2 ^ 51 + 1 / 2 ^ 100) :=
      div_rel hc hB (by norm_num) (by norm_num) hsa' hsberr (by norm_num) (by norm_num)
    have htot := rel_comp (by norm_num) hquot herr
    refine le_trans htot (mul_le_mul_of_nonneg_left ?_ hc)
    norm_num

theorem divDur_zero (b : Nat) (hb : b < 2 ^ 53 * 10 ^ 9) (hb0 : 0 < b) : divDur 0 b = .fin 0 := by
  obtain ⟨d, h1, h2⟩ := divDur_accuracy 0 b (by norm_num) hb hb0
  have : d = 0 := by simpa using h2
  rw [h1, this]

/-! ### consequence for the exact rational share -/

/-- the double test of `belowShare` for a set limit `q > 0`, in terms of the computed double -/
theorem belowShare_iff (a b : Nat) (f : F64) {q d : ℚ} (hv : val64 f = .fin q) (hq : 0 < q)
    (hd : divDur a b = .fin d) : C03.belowShare a b f = true ↔ d < q := by
  unfold C03.belowShare
  rw [hv, hd]
  simp [gt, ge, lt, le, hq]

/-- **C03, exact share (soundness of "below").**  Durations `a, b < 2^53 · 10^9` ns, `b > 0`, limit
    `f` a finite double `q > 0`.  Whenever the code's double test says "the blocked share is below
    the limit", the exact rational share `a / b` is below the limit up to the relative tolerance
    `ε = 2^-50`:  `(a / b) · (1 − 2^-50) < q`. -/
theorem C03_exact (a b : Nat) (f : F64) (q : ℚ) (ha : a < 2 ^ 53 * 10 ^ 9)
    (hb : b < 2 ^ 53 * 10 ^ 9) (hb0 : 0 < b) (hv : val64 f = .fin q) (hq : 0 < q)
    (h : C03.belowShare a b f = true) : (a : ℚ) / b * (1 - 1 / 2 ^ 50) < q := by
  obtain ⟨d, hd, herr⟩ := divDur_accuracy a b ha hb hb0
  have hlt := (belowShare_iff a b f hv hq hd).mp h
  have := (abs_le.mp herr).1
  linarith

/-- the same with the tolerance on the limit: `a / b < q · (1 + 2^-49)` -/
theorem C03_exact' (a b : Nat) (f : F64) (q : ℚ) (ha : a < 2 ^ 53 * 10 ^ 9)
    (hb : b < 2 ^ 53 * 10 ^ 9) (hb0 : 0 < b) (hv : val64 f = .fin q) (hq : 0 < q)
    (h : C03.belowShare a b f = true) : (a : ℚ) / b < q * (1 + 1 / 2 ^ 49) := by
  have h1 := C03_exact a b f q ha hb hb0 hv hq h
  by_contra hcon
  have hge : q * (1 + 1 / 2 ^ 49) ≤ (a : ℚ) / b := not_lt.mp hcon
  have h2 : q * (1 + 1 / 2 ^ 49) * (1 - 1 / 2 ^ 50) ≤ (a : ℚ) / b * (1 - 1 / 2 ^ 50) :=
    mul_le_mul_of_nonneg_right hge (by norm_num)
  have h3 : q * 1 ≤ q * ((1 + 1 / 2 ^ 49) * (1 - 1 / 2 ^ 50)) :=
    mul_le_mul_of_nonneg_left (by norm_num) hq.le
  linarith

/-- **C03, exact share (converse direction).**  Whenever the code's double test says "not below
    the limit" (for a set limit `q > 0`), the exact rational share reaches the limit up to the
    same tolerance: `q ≤ (a / b) · (1 + 2^-50)`. -/
theorem C03_exact_conv (a b : Nat) (f : F64) (q : ℚ) (ha : a < 2 ^ 53 * 10 ^ 9)
    (hb : b < 2 ^ 53 * 10 ^ 9) (hb0 : 0 < b) (hv : val64 f = .fin q) (hq : 0 < q)
    (h : C03.belowShare a b f = false) : q ≤ (a : ℚ) / b * (1 + 1 / 2 ^ 50) := by
  obtain ⟨d, hd, herr⟩ := divDur_accuracy a b ha hb hb0
  have hnlt : ¬ d < q := by
    intro hlt
    have := (belowShare_iff a b f hv hq hd).mpr hlt
    rw [this] at h; exact absurd h (by simp)
  have := (abs_le.mp herr).2
  linarith [not_lt.mp hnlt]

/-- outside the tolerance band `q · (1 ± 2^-50)`-ish the double test and the exact rational test
    `a / b < q` agree -/
theorem C03_exact_band (a b : Nat) (f : F64) (q : ℚ) (ha : a < 2 ^ 53 * 10 ^ 9)
    (hb : b < 2 ^ 53 * 10 ^ 9) (hb0 : 0 < b) (hv : val64 f = .fin q) (hq : 0 < q) :
    ((a : ℚ) / b * (1 + 1 / 2 ^ 50) < q → C03.belowShare a b f = true) ∧
    (q ≤ (a : ℚ) / b * (1 - 1 / 2 ^ 50) → C03.belowShare a b f = false) := by
  constructor
  · intro h
    by_contra hcon
    have := C03_exact_conv a b f q ha hb hb0 hv hq (by simpa using hcon)
    linarith
  · intro h
    by_contra hcon
    have := C03_exact a b f q ha hb hb0 hv hq (by simpa using hcon)
    linarith

/-- a limit that is not positive (or NaN) is "not set": the test always says "below" -/
theorem belowShare_unset (a b : Nat) (f : F64)
    (hv : val64 f = .nan ∨ ∃ q : ℚ, val64 f = .fin q ∧ q ≤ 0) : C03.belowShare a b f = true := by
  unfold C03.belowShare
  rcases hv with hv | ⟨q, hv, hq⟩
  · rw [hv]; simp [gt]
  · rw [hv]; simp [gt, lt, not_lt.mpr hq]

/-- an infinite limit is never reached: the computed share is finite -/
theorem belowShare_inf (a b : Nat) (f : F64) (ha : a < 2 ^ 53 * 10 ^ 9)
    (hb : b < 2 ^ 53 * 10 ^ 9) (hb0 : 0 < b) (hv : val64 f = .inf false) :
    C03.belowShare a b f = true := by
  obtain ⟨d, hd, _⟩ := divDur_accuracy a b ha hb hb0
  unfold C03.belowShare
  rw [hv, hd]
  rfl

/-! ### non-vacuity: the hypotheses are satisfiable and both verdicts occur (limit `f = 0.5`) -/

example : C03.belowShare 1000000000 4000000000 0x3FE0000000000000 = true := by decide +kernel
example : C03.belowShare 1 3 0x3FE0000000000000 = true := by decide +kernel
example : C03.belowShare 3000000001 4000000000 0x3FE0000000000000 = false := by decide +kernel

example : (1 : ℚ) / 3 * (1 - 1 / 2 ^ 50) < 1 / 2 := by
  have := C03_exact 1 3 0x3FE0000000000000 (1 / 2) (by norm_num) (by norm_num) (by norm_num)
    (by decide +kernel) (by norm_num) (by decide +kernel)
  simpa using this

example : (1 : ℚ) / 2 ≤ (3000000001 : ℚ) / 4000000000 * (1 + 1 / 2 ^ 50) := by
  have := C03_exact_conv 3000000001 4000000000 0x3FE0000000000000 (1 / 2) (by norm_num)
    (by norm_num) (by norm_num) (by decide +kernel) (by norm_num) (by decide +kernel)
  simpa using this

end Mb
