/-
  Safety of the framework model: for well-formed machines no index is ever out of range and the
  recursion fuel is never exhausted; the only possible fault is the duration overflow.
-/
import MbVerif.Proofs.Walk
import MbVerif.Validate

namespace Mb
variable {σ : Type} (ρ : Oracle σ)

/-- structural well-formedness of a machine, as established by validation (targets) and by the
    Rust types (one transition slot per event) -/
structure MachineOK (m : Machine) : Prop where
  nonempty : 0 < m.states.length
  shape : ∀ st ∈ m.states, st.transitions.length = EVENT_NUM
  targets : ∀ st ∈ m.states, ∀ (e : Nat) (vec : List Trans), st.transitions[e]? = some (some vec) →
    ∀ t ∈ vec, t.target < m.states.length ∨ t.target = STATE_END ∨ t.target = STATE_SIGNAL
  small : m.states.length ≤ STATE_MAX

/-- invariant: array lengths agree and every machine is in an existing state or in END -/
structure Valid (s : Fw σ) : Prop where
  lenRt : s.rt.length = s.machines.length
  lenAct : s.actions.length = s.machines.length
  ok : ∀ m ∈ s.machines, MachineOK m
  cur : ∀ (i : Nat) (m : Machine) (r : Runtime), s.machines[i]? = some m → s.rt[i]? = some r →
    r.currentState < m.states.length ∨ r.currentState = STATE_END

/-- the pending signal, if it excludes a machine, excludes an existing one -/
def SigOK (s : Fw σ) : Prop := ∀ (x : Nat), s.signalPending = some (.allExcept x) → x < s.rt.length

/-- number of counter-zero flags of machine `mi` still unset -/
def unset (s : Fw σ) (mi : Nat) : Nat :=
  (if zeroedAOf s mi then 0 else 1) + (if zeroedBOf s mi then 0 else 1)

theorem zeroedAOf_modRt (s : Fw σ) (mi : Nat) (f : Runtime → Runtime) :
    zeroedAOf (s.modRt mi f) mi = ((s.rt[mi]?).map (fun r => (f r).zeroedA)).getD false := by
  unfold zeroedAOf; rw [Fw.modRt_rt_self]; cases s.rt[mi]? <;> rfl

theorem zeroedBOf_modRt (s : Fw σ) (mi : Nat) (f : Runtime → Runtime) :
    zeroedBOf (s.modRt mi f) mi = ((s.rt[mi]?).map (fun r => (f r).zeroedB)).getD false := by
  unfold zeroedBOf; rw [Fw.modRt_rt_self]; cases s.rt[mi]? <;> rfl

theorem zeroedAOf_eq (s : Fw σ) (mi : Nat) : zeroedAOf s mi = ((s.rt[mi]?).map (·.zeroedA)).getD false := by
  unfold zeroedAOf; cases s.rt[mi]? <;> rfl

theorem zeroedBOf_eq (s : Fw σ) (mi : Nat) : zeroedBOf s mi = ((s.rt[mi]?).map (·.zeroedB)).getD false := by
  unfold zeroedBOf; cases s.rt[mi]? <;> rfl

/-- `unset` only depends on the runtime of the machine -/
theorem unset_congr {s t : Fw σ} {mi : Nat} (h : t.rt[mi]? = s.rt[mi]?) : unset t mi = unset s mi := by
  unfold unset zeroedAOf zeroedBOf; rw [h]

/-- a runtime update that keeps the flags keeps `unset` -/
theorem unset_modRt_keep (s : Fw σ) (mi : Nat) (f : Runtime → Runtime)
    (hA : ∀ r, (f r).zeroedA = r.zeroedA) (hB : ∀ r, (f r).zeroedB = r.zeroedB) :
    unset (s.modRt mi f) mi = unset s mi := by
  unfold unset
  rw [zeroedAOf_modRt, zeroedBOf_modRt, zeroedAOf_eq, zeroedBOf_eq]
  cases s.rt[mi]? <;> simp [hA, hB]

/-- the fault field only changes from none to a duration overflow -/
def NoNewBad (s t : Fw σ) : Prop := t.fault = s.fault ∨ (s.fault = none ∧ t.fault = some .durOverflow)

theorem NoNewBad.refl (s : Fw σ) : NoNewBad s s := Or.inl rfl

theorem NoNewBad.trans {s t u : Fw σ} (h₁ : NoNewBad s t) (h₂ : NoNewBad t u) : NoNewBad s u := by
  rcases h₁ with h₁ | ⟨h₁, h₁'⟩ <;> rcases h₂ with h₂ | ⟨h₂, h₂'⟩
  · exact Or.inl (h₂.trans h₁)
  · exact Or.inr ⟨by rw [← h₁]; exact h₂, h₂'⟩
  · exact Or.inr ⟨h₁, by rw [h₂]; exact h₁'⟩
  · rw [h₁'] at h₂; cases h₂

theorem NoNewBad.of_eq {s t : Fw σ} (h : t.fault = s.fault) : NoNewBad s t := Or.inl h

theorem NoNewBad.durOverflow (s : Fw σ) : NoNewBad s (s.withFault .durOverflow) := by
  unfold NoNewBad Fw.withFault
  cases h : s.fault with
  | none => right; simp
  | some f => left; simp [h]

theorem Event.toNat_lt (e : Event) : e.toNat < EVENT_NUM := by
  cases e <;> decide

/-! ### `Valid` is preserved by every primitive step -/

theorem Valid.modRt {s : Fw σ} (hV : Valid s) (mi : Nat) (f : Runtime → Runtime)
    (hf : ∀ m r, s.machines[mi]? = some m → s.rt[mi]? = some r →
      (f r).currentState < m.states.length ∨ (f r).currentState = STATE_END) : Valid (s.modRt mi f) := by
  refine ⟨by simpa using hV.lenRt, by simpa using hV.lenAct, by simpa using hV.ok, ?_⟩
  intro i m r hm hr
  have hm' : s.machines[i]? = some m := by simpa using hm
  by_cases hi : i = mi
  · subst hi
    rw [Fw.modRt_rt_self] at hr
    cases hr0 : s.rt[i]? with
    | none => rw [hr0] at hr; simp at hr
    | some r0 =>
      rw [hr0] at hr
      have : r = f r0 := by simpa using hr.symm
      subst this
      exact hf m r0 hm' hr0
  · rw [Fw.modRt_rt_other s mi i f hi] at hr
    exact hV.cur i m r hm' hr

theorem Valid.step {mi : Nat} {s t : Fw σ} (hV : Valid s) (h : Step mi s t) : Valid t := by
  cases h with
  | push => exact ⟨hV.lenRt, hV.lenAct, hV.ok, hV.cur⟩
  | fault f => exact ⟨by simpa using hV.lenRt, by simpa using hV.lenAct, by simpa using hV.ok,
      fun i m r hm hr => hV.cur i m r (by simpa using hm) (by simpa using hr)⟩
  | rng => exact ⟨hV.lenRt, hV.lenAct, hV.ok, hV.cur⟩
  | setState x hx =>
    refine hV.modRt mi _ (fun m r hm hr => ?_)
    obtain ⟨⟨m', r', st, ev, vec, t, hm', hr', hst, hvec, htv, htx⟩, hns⟩ := hx
    rw [hm] at hm'; rw [hr] at hr'
    cases hm'; cases hr'
    have hmem : m ∈ s.machines := List.mem_of_getElem? hm
    have hstm : st ∈ m.states := List.mem_of_getElem? hst
    have := (hV.ok m hmem).targets st hstm ev vec hvec t htv
    rw [htx] at this
    rcases this with h1 | h1 | h1
    · exact Or.inl h1
    · exact Or.inr h1
    · exact absurd h1 hns
  | setLimit l => exact hV.modRt mi _ (fun m r hm hr => hV.cur mi m r hm hr)
  | setCtrA v => exact hV.modRt mi _ (fun m r hm hr => hV.cur mi m r hm hr)
  | setCtrB v => exact hV.modRt mi _ (fun m r hm hr => hV.cur mi m r hm hr)
  | signal => exact ⟨hV.lenRt, hV.lenAct, hV.ok, hV.cur⟩
  | zeroA => exact hV.modRt mi _ (fun m r hm hr => hV.cur mi m r hm hr)
  | zeroB => exact hV.modRt mi _ (fun m r hm hr => hV.cur mi m r hm hr)
  | clear hlen => exact ⟨hV.lenRt, by simpa using hV.lenAct, hV.ok, hV.cur⟩
  | sched => exact ⟨hV.lenRt, by simpa using hV.lenAct, hV.ok, hV.cur⟩


theorem Valid.reach {mi : Nat} {s t : Fw σ} (h : Reach mi s t) (hV : Valid s) : Valid t :=
  Reach.inv Valid (fun _ _ hV st => hV.step st) h hV

/-! ### pieces that keep the fault, the pending signal and the number of machines -/

/-- `t` has the same fault, pending signal, machines, lengths and zero flags (or more flags set) -/
structure Keep (s t : Fw σ) : Prop where
  fault : t.fault = s.fault
  signal : t.signalPending = s.signalPending
  rtLen : t.rt.length = s.rt.length

theorem Keep.refl (s : Fw σ) : Keep s s := ⟨rfl, rfl, rfl⟩
theorem Keep.trans {s t u : Fw σ} (h₁ : Keep s t) (h₂ : Keep t u) : Keep s u :=
  ⟨h₂.fault.trans h₁.fault, h₂.signal.trans h₁.signal, h₂.rtLen.trans h₁.rtLen⟩

theorem Keep.noNewBad {s t : Fw σ} (h : Keep s t) : NoNewBad s t := Or.inl h.fault
theorem Keep.sigOK {s t : Fw σ} (h : Keep s t) (hs : SigOK s) : SigOK t := by
  intro x hx; rw [h.signal] at hx; rw [h.rtLen]; exact hs x hx

theorem keep_modRt (s : Fw σ) (mi : Nat) (f : Runtime → Runtime) (h : mi < s.rt.length) :
    Keep s (s.modRt mi f) := by
  have : ∃ r, s.rt[mi]? = some r := ⟨s.rt[mi], List.getElem?_eq_getElem h⟩
  obtain ⟨r, hr⟩ := this
  rw [Fw.modRt_of_some s mi f r hr]
  exact ⟨rfl, rfl, by simp⟩

theorem keep_rngLog {s t : Fw σ} (h : RngLogOnly s t) : Keep s t :=
  ⟨h.fault, h.signal, by rw [h.rt]⟩

theorem keep_enterState (mi : Nat) (m : Machine) (cur next : Nat) (s : Fw σ) (hmi : mi < s.rt.length)
    (hnext : next < m.states.length) : Keep s (enterState ρ mi m cur next s) := by
  unfold enterState
  split
  · simp only
    have h1 := keep_modRt s mi (fun r => { r with currentState := next }) hmi
    have hst : ∃ st, m.states[next]? = some st := ⟨m.states[next], List.getElem?_eq_getElem hnext⟩
    obtain ⟨st, hst⟩ := hst
    rw [hst]
    simp only
    split
    · next a _ =>
      obtain ⟨hrl, _⟩ := sampleLimit_spec ρ mi a (s.modRt mi (fun r => { r with currentState := next }))
      refine ((h1.trans (keep_rngLog hrl)).trans (keep_modRt _ mi _ ?_)).trans ⟨rfl, rfl, rfl⟩
      rw [hrl.rt]; simpa using hmi
    · exact (h1.trans (keep_modRt _ mi _ (by simpa using hmi))).trans ⟨rfl, rfl, rfl⟩
  · exact Keep.refl s

theorem keep_storeCounterA (mi oldA newA : Nat) (s : Fw σ) (hmi : mi < s.rt.length) :
    Keep s (storeCounterA mi oldA newA s).1 := by
  unfold storeCounterA
  simp only
  have h1 := keep_modRt s mi (fun r => { r with counterA := newA }) hmi
  split
  · exact h1.trans (keep_modRt _ mi _ (by simpa using hmi))
  · exact h1

theorem keep_storeCounterB (mi oldB newB : Nat) (s : Fw σ) (hmi : mi < s.rt.length) :
    Keep s (storeCounterB mi oldB newB s).1 := by
  unfold storeCounterB
  simp only
  have h1 := keep_modRt s mi (fun r => { r with counterB := newB }) hmi
  split
  · exact h1.trans (keep_modRt _ mi _ (by simpa using hmi))
  · exact h1

theorem keep_applyCounterA (mi : Nat) (c : Option Counter) (oldA oldB : Nat) (s : Fw σ) (hmi : mi < s.rt.length) :
    Keep s (applyCounterA ρ mi c oldA oldB s).1 := by
  unfold applyCounterA
  cases c with
  | none => exact Keep.refl s
  | some c =>
    have hrl := (counterOperand_spec ρ mi c oldB s).1
    exact (keep_rngLog hrl).trans (keep_storeCounterA mi _ _ _ (by rw [hrl.rt]; exact hmi))

theorem keep_applyCounterB (mi : Nat) (c : Option Counter) (oldA oldB : Nat) (s : Fw σ) (hmi : mi < s.rt.length) :
    Keep s (applyCounterB ρ mi c oldA oldB s).1 := by
  unfold applyCounterB
  cases c with
  | none => exact Keep.refl s
  | some c =>
    have hrl := (counterOperand_spec ρ mi c oldA s).1
    exact (keep_rngLog hrl).trans (keep_storeCounterB mi _ _ _ (by rw [hrl.rt]; exact hmi))

theorem keep_scheduleAction (mi next : Nat) (s : Fw σ) (m : Machine) (st : State)
    (hm : s.machines[mi]? = some m) (hst : m.states[next]? = some st) (hlen : mi < s.actions.length) :
    Keep s (scheduleAction ρ mi next s) := by
  unfold scheduleAction
  rw [hm]
  simp only [hst]
  rw [if_neg (by omega)]
  cases hact : st.action with
  | none => exact ⟨rfl, rfl, rfl⟩
  | some act =>
    cases act with
    | cancel t => exact ⟨rfl, rfl, rfl⟩
    | sendPadding b rp tmo lim =>
      simp only
      obtain ⟨hrl, _⟩ := sampleTimeout_spec ρ mi (.sendPadding b rp tmo lim) s
      exact (keep_rngLog hrl).trans ⟨rfl, rfl, rfl⟩
    | blockOutgoing b rp tmo du lim =>
      simp only
      obtain ⟨hrl, _⟩ := sampleTimeout_spec ρ mi (.blockOutgoing b rp tmo du lim) s
      obtain ⟨hrl2, _⟩ := sampleDuration_spec ρ mi (.blockOutgoing b rp tmo du lim)
        (sampleTimeout ρ (.blockOutgoing b rp tmo du lim) s).2
      exact ((keep_rngLog hrl).trans (keep_rngLog hrl2)).trans ⟨rfl, rfl, rfl⟩
    | updateTimer rp du lim =>
      simp only
      obtain ⟨hrl, _⟩ := sampleDuration_spec ρ mi (.updateTimer rp du lim) s
      exact (keep_rngLog hrl).trans ⟨rfl, rfl, rfl⟩

theorem bool_cnt (x y x' y' : Bool) (h1 : x = true → x' = true) (h2 : y = true → y' = true) :
    ((if x' = true then 0 else 1) + (if y' = true then 0 else 1) : Nat) ≤
      (if x = true then 0 else 1) + (if y = true then 0 else 1) := by
  cases x <;> cases y <;> cases x' <;> cases y' <;> simp_all

/-- flags only get set -/
theorem unset_modRt_le (s : Fw σ) (mi : Nat) (f : Runtime → Runtime)
    (hA : ∀ r, r.zeroedA = true → (f r).zeroedA = true) (hB : ∀ r, r.zeroedB = true → (f r).zeroedB = true) :
    unset (s.modRt mi f) mi ≤ unset s mi := by
  unfold unset
  rw [zeroedAOf_modRt, zeroedBOf_modRt, zeroedAOf_eq, zeroedBOf_eq]
  cases hr : s.rt[mi]? with
  | none => simp
  | some r =>
    simp only [Option.map_some, Option.getD_some]
    exact bool_cnt _ _ _ _ (hA r) (hB r)

theorem unset_le_of_step {mi : Nat} {s t : Fw σ} (h : Step mi s t) : unset t mi ≤ unset s mi := by
  cases h with
  | zeroA => exact unset_modRt_le s mi _ (fun _ _ => rfl) (fun _ h => h)
  | zeroB => exact unset_modRt_le s mi _ (fun _ h => h) (fun _ _ => rfl)
  | push | rng | signal | clear | sched => exact Nat.le_refl _
  | fault => exact Nat.le_of_eq (unset_congr (by simp))
  | setState | setLimit | setCtrA | setCtrB => exact unset_modRt_le s mi _ (fun _ h => h) (fun _ h => h)

theorem unset_le_of_reach {mi : Nat} {s t : Fw σ} (h : Reach mi s t) : unset t mi ≤ unset s mi := by
  induction h with
  | refl => exact Nat.le_refl _
  | tail _ st ih => exact Nat.le_trans (unset_le_of_step st) ih

theorem unset_storeCounterA (mi oldA newA : Nat) (s : Fw σ) (hmi : mi < s.rt.length) :
    unset (storeCounterA mi oldA newA s).1 mi + (if (storeCounterA mi oldA newA s).2 then 1 else 0) ≤ unset s mi := by
  unfold storeCounterA
  simp only
  have hr' : ∃ r, s.rt[mi]? = some r := ⟨s.rt[mi], List.getElem?_eq_getElem hmi⟩
  obtain ⟨r, hr⟩ := hr'
  have hu1 : unset (s.modRt mi (fun r => { r with counterA := newA })) mi = unset s mi :=
    unset_modRt_keep s mi (fun r => { r with counterA := newA }) (fun _ => rfl) (fun _ => rfl)
  split
  · next h =>
    simp only [Bool.and_eq_true, Bool.not_eq_true'] at h
    have hz := h.2
    rw [zeroedAOf_modRt, hr] at hz
    simp only [Option.map_some, Option.getD_some] at hz
    unfold unset
    rw [zeroedAOf_modRt, zeroedBOf_modRt, Fw.modRt_rt_self, hr, zeroedAOf_eq, zeroedBOf_eq, hr]
    simp [hz]
    omega
  · simp [hu1]

theorem unset_storeCounterB (mi oldB newB : Nat) (s : Fw σ) (hmi : mi < s.rt.length) :
    unset (storeCounterB mi oldB newB s).1 mi + (if (storeCounterB mi oldB newB s).2 then 1 else 0) ≤ unset s mi := by
  unfold storeCounterB
  simp only
  have hr' : ∃ r, s.rt[mi]? = some r := ⟨s.rt[mi], List.getElem?_eq_getElem hmi⟩
  obtain ⟨r, hr⟩ := hr'
  have hu1 : unset (s.modRt mi (fun r => { r with counterB := newB })) mi = unset s mi :=
    unset_modRt_keep s mi (fun r => { r with counterB := newB }) (fun _ => rfl) (fun _ => rfl)
  split
  · next h =>
    simp only [Bool.and_eq_true, Bool.not_eq_true'] at h
    have hz := h.2
    rw [zeroedBOf_modRt, hr] at hz
    simp only [Option.map_some, Option.getD_some] at hz
    unfold unset
    rw [zeroedAOf_modRt, zeroedBOf_modRt, Fw.modRt_rt_self, hr, zeroedAOf_eq, zeroedBOf_eq, hr]
    simp [hz]
  · simp [hu1]

theorem unset_applyCounterA (mi : Nat) (c : Option Counter) (oldA oldB : Nat) (s : Fw σ) (hmi : mi < s.rt.length) :
    unset (applyCounterA ρ mi c oldA oldB s).1 mi + (if (applyCounterA ρ mi c oldA oldB s).2 then 1 else 0) ≤ unset s mi := by
  unfold applyCounterA
  cases c with
  | none => simp
  | some c =>
    have hrl := (counterOperand_spec ρ mi c oldB s).1
    have := unset_storeCounterA mi oldA (applyOp c.operation oldA (counterOperand ρ c oldB s).1)
      (counterOperand ρ c oldB s).2 (by rw [hrl.rt]; exact hmi)
    have h2 : unset (counterOperand ρ c oldB s).2 mi = unset s mi := unset_congr (by rw [hrl.rt])
    simp only []
    omega

theorem unset_applyCounterB (mi : Nat) (c : Option Counter) (oldA oldB : Nat) (s : Fw σ) (hmi : mi < s.rt.length) :
    unset (applyCounterB ρ mi c oldA oldB s).1 mi + (if (applyCounterB ρ mi c oldA oldB s).2 then 1 else 0) ≤ unset s mi := by
  unfold applyCounterB
  cases c with
  | none => simp
  | some c =>
    have hrl := (counterOperand_spec ρ mi c oldA s).1
    have := unset_storeCounterB mi oldB (applyOp c.operation oldB (counterOperand ρ c oldA s).1)
      (counterOperand ρ c oldA s).2 (by rw [hrl.rt]; exact hmi)
    have h2 : unset (counterOperand ρ c oldA s).2 mi = unset s mi := unset_congr (by rw [hrl.rt])
    simp only []
    omega

/-- no new fault other than a duration overflow, and the pending signal stays well-formed -/
def Safe (s t : Fw σ) : Prop := NoNewBad s t ∧ (SigOK s → SigOK t)

theorem Safe.refl (s : Fw σ) : Safe s s := ⟨NoNewBad.refl s, id⟩
theorem Safe.trans {s t u : Fw σ} (h₁ : Safe s t) (h₂ : Safe t u) : Safe s u :=
  ⟨h₁.1.trans h₂.1, fun h => h₂.2 (h₁.2 h)⟩
theorem Keep.safe {s t : Fw σ} (h : Keep s t) : Safe s t := ⟨h.noNewBad, h.sigOK⟩

theorem Valid.states_some {s : Fw σ} (hV : Valid s) {mi : Nat} {m : Machine} {r : Runtime}
    (hm : s.machines[mi]? = some m) (hr : s.rt[mi]? = some r) (hne : r.currentState ≠ STATE_END) :
    ∃ st, m.states[r.currentState]? = some st ∧ st ∈ m.states := by
  rcases hV.cur mi m r hm hr with h | h
  · exact ⟨m.states[r.currentState], List.getElem?_eq_getElem h, List.getElem_mem h⟩
  · exact absurd h hne

theorem safe_main (fuel : Nat) :
    (∀ mi ev (s : Fw σ), Valid s → mi < s.rt.length → 2 * unset s mi + 2 ≤ fuel →
      Safe s (transition ρ fuel mi ev s).1) ∧
    (∀ mi (s : Fw σ), Valid s → mi < s.rt.length →
      (∀ r, s.rt[mi]? = some r → r.currentState ≠ STATE_END) → 2 * unset s mi + 1 ≤ fuel →
      Safe s (updateCounter ρ fuel mi s).1) := by
  induction fuel with
  | zero =>
    refine ⟨fun mi ev s _ _ h => ?_, fun mi s _ _ _ h => ?_⟩ <;> omega
  | succ n ih =>
    obtain ⟨ihT, ihU⟩ := ih
    refine ⟨fun mi ev s hV hmi hfuel => ?_, fun mi s hV hmi hne hfuel => ?_⟩
    · -- transition
      rw [transition]
      have hr' : ∃ r, s.rt[mi]? = some r := ⟨s.rt[mi], List.getElem?_eq_getElem hmi⟩
      obtain ⟨r, hr⟩ := hr'
      have hmi' : mi < s.machines.length := by rw [← hV.lenRt]; exact hmi
      have hm' : ∃ m, s.machines[mi]? = some m := ⟨s.machines[mi], List.getElem?_eq_getElem hmi'⟩
      obtain ⟨m, hm⟩ := hm'
      have hmok : MachineOK m := hV.ok m (List.mem_of_getElem? hm)
      rw [hr, hm]
      simp only []
      have k0 : Keep s (s.push (.trans mi ev.toNat r.currentState)) := ⟨rfl, rfl, rfl⟩
      split
      · exact k0.safe
      · next hnend =>
        obtain ⟨st, hst, hstm⟩ := hV.states_some hm hr hnend
        rw [hst]
        simp only []
        have hev : ev.toNat < st.transitions.length := by
          rw [hmok.shape st hstm]; exact Event.toNat_lt ev
        have hov : ∃ ov, st.transitions[ev.toNat]? = some ov := ⟨_, List.getElem?_eq_getElem hev⟩
        obtain ⟨ov, hvec⟩ := hov
        rw [hvec]
        cases ov with
        | none => simp only []; exact k0.safe
        | some vec =>
        simp only []
        generalize hs1 : (({ (s.push (.trans mi ev.toNat r.currentState)) with
            rng := (ρ.u (s.push (.trans mi ev.toNat r.currentState)).rng).2 }).push
              (.draw (ρ.u (s.push (.trans mi ev.toNat r.currentState)).rng).1)) = s1
        have k1 : Keep s s1 := by subst hs1; exact ⟨rfl, rfl, rfl⟩
        have e1 : s1.machines = s.machines ∧ s1.rt = s.rt ∧ s1.actions = s.actions := by
          subst hs1; exact ⟨rfl, rfl, rfl⟩
        cases hss : sampleState vec (ρ.u (s.push (.trans mi ev.toNat r.currentState)).rng).1 with
        | none => simp only []; exact k1.safe
        | some next =>
        simp only []
        generalize hs2 : s1.push (.sampled mi ev.toNat next) = s2
        have k2 : Keep s s2 := by subst hs2; exact k1.trans ⟨rfl, rfl, rfl⟩
        have e2 : s2.machines = s.machines ∧ s2.rt = s.rt ∧ s2.actions = s.actions := by
          subst hs2; exact ⟨e1.1, e1.2.1, e1.2.2⟩
        have hmi2 : mi < s2.rt.length := by rw [e2.2.1]; exact hmi
        obtain ⟨t, htv, htx⟩ := sampleState_mem _ _ _ hss
        have htgt := hmok.targets st hstm ev.toNat vec hvec t htv
        rw [htx] at htgt
        split
        · exact (k2.trans (keep_modRt s2 mi _ hmi2)).safe
        · next hnend2 =>
          split
          · next hsig =>
            -- signalFrom
            refine k2.safe.trans ⟨Or.inl rfl, fun _ x hx => ?_⟩
            unfold signalFrom at hx ⊢
            simp only at hx ⊢
            cases hsp : s2.signalPending with
            | none => rw [hsp] at hx; simp at hx; rw [← hx]; exact hmi2
            | some p =>
              rw [hsp] at hx
              cases p with
              | all => simp at hx
              | allExcept o =>
                simp only at hx
                split at hx
                · simp at hx; rw [← hx]; exact hmi2
                · simp at hx
          · next hnsig =>
            have hnext : next < m.states.length := by
              rcases htgt with h | h | h
              · exact h
              · exact absurd h hnend2
              · exact absurd h hnsig
            have hV2 : Valid s2 := ⟨by rw [e2.2.1, e2.1]; exact hV.lenRt, by rw [e2.2.2, e2.1]; exact hV.lenAct,
              by rw [e2.1]; exact hV.ok, fun i m' r' hm' hr' => hV.cur i m' r' (by rw [← e2.1]; exact hm') (by rw [← e2.2.1]; exact hr')⟩
            have hT : TargetOK s2 mi next :=
              ⟨⟨m, r, st, ev.toNat, vec, t, by rw [e2.1]; exact hm, by rw [e2.2.1]; exact hr, hst, hvec, htv, htx⟩, hnsig⟩
            have hre3 := enterState_reach ρ mi m r.currentState next s2 hT
            have k3 := k2.trans (keep_enterState ρ mi m r.currentState next s2 hmi2 hnext)
            obtain ⟨r1', hr1', hr1c⟩ := enterState_cur ρ mi m r.currentState next s2 r (by rw [e2.2.1]; exact hr) rfl
            have hu3 : unset (enterState ρ mi m r.currentState next s2) mi ≤ unset s mi := by
              have := unset_le_of_reach hre3
              have h2 : unset s2 mi = unset s mi := unset_congr (by rw [e2.2.1])
              omega
            have hV3 : Valid (enterState ρ mi m r.currentState next s2) := hV2.reach hre3
            have hf3 := hre3.frame
            generalize hs3 : enterState ρ mi m r.currentState next s2 = s3 at k3 hr1' hu3 hV3 hf3 ⊢
            rw [hr1']
            simp only []
            have hmi3 : mi < s3.rt.length := by rw [hf3.rtLen]; exact hmi2
            have hm3 : s3.machines[mi]? = some m := by rw [hf3.machines, e2.1]; exact hm
            have hstn : ∃ stn, m.states[next]? = some stn := ⟨_, List.getElem?_eq_getElem hnext⟩
            obtain ⟨stn, hstn⟩ := hstn
            cases hb : belowActionLimits s3.g r1' m with
            | none =>
              simp only []
              have : m.states[r1'.currentState]?.isNone = false := by rw [hr1c, hstn]; rfl
              rw [this]
              simp only [Bool.false_eq_true, if_false]
              exact k3.safe.trans ⟨NoNewBad.durOverflow s3, fun h x hx => by
                have := h x (by simpa using hx); simpa using this⟩
            | some below =>
            simp only []
            have hU := ihU mi s3 hV3 hmi3 (fun r' hr' => by
              rw [hr1'] at hr'; cases hr'; rw [hr1c]; exact hnend2) (by omega)
            have hreU := updateCounter_reach ρ n mi s3
            have hfU := hreU.frame
            have hVU : Valid (updateCounter ρ n mi s3).1 := hV3.reach hreU
            have h4 := k3.safe.trans hU
            have h5 : Safe s (if ((updateCounter ρ n mi s3).2.1 && below) = true
                then scheduleAction ρ mi next (updateCounter ρ n mi s3).1 else (updateCounter ρ n mi s3).1) := by
              split
              · refine h4.trans (keep_scheduleAction ρ mi next _ m stn ?_ hstn ?_).safe
                · rw [hfU.machines]; exact hm3
                · rw [hVU.lenAct, ← hVU.lenRt, hfU.rtLen]; exact hmi3
              · exact h4
            have hlen5 : mi < (if ((updateCounter ρ n mi s3).2.1 && below) = true
                then scheduleAction ρ mi next (updateCounter ρ n mi s3).1 else (updateCounter ρ n mi s3).1).rt.length := by
              split
              · have hsch : Reach mi (updateCounter ρ n mi s3).1 (scheduleAction ρ mi next (updateCounter ρ n mi s3).1) := by
                  have hr4 : ∃ r4, (updateCounter ρ n mi s3).1.rt[mi]? = some r4 :=
                    ⟨_, List.getElem?_eq_getElem (by rw [hfU.rtLen]; exact hmi3)⟩
                  obtain ⟨r4, hr4⟩ := hr4
                  refine scheduleAction_reach ρ mi next _ m r4 (by rw [hfU.machines]; exact hm3) hr4 ?_
                  intro st' act hst' hact
                  have hacct := hfU.acct
                  rw [hr1', hr4] at hacct
                  have hb' : below = true := by
                    rename_i hcond; cases below <;> simp_all
                  exact ⟨r1', st', by simpa using hacct.symm, hr1c, hst', hact, by rw [hfU.g, hb, hb']⟩
                rw [hsch.frame.rtLen, hfU.rtLen]; exact hmi3
              · rw [hfU.rtLen]; exact hmi3
            generalize (if ((updateCounter ρ n mi s3).2.1 && below) = true
                then scheduleAction ρ mi next (updateCounter ρ n mi s3).1 else (updateCounter ρ n mi s3).1) = s5 at h5 hlen5 ⊢
            have : ∃ r2, s5.rt[mi]? = some r2 := ⟨_, List.getElem?_eq_getElem hlen5⟩
            obtain ⟨r2, hr2⟩ := this
            rw [hr2]
            exact h5
    · -- updateCounter
      rw [updateCounter]
      have hr' : ∃ r, s.rt[mi]? = some r := ⟨s.rt[mi], List.getElem?_eq_getElem hmi⟩
      obtain ⟨r, hr⟩ := hr'
      have hmi' : mi < s.machines.length := by rw [← hV.lenRt]; exact hmi
      have hm' : ∃ m, s.machines[mi]? = some m := ⟨s.machines[mi], List.getElem?_eq_getElem hmi'⟩
      obtain ⟨m, hm⟩ := hm'
      rw [hr, hm]
      simp only []
      obtain ⟨st, hst, hstm⟩ := hV.states_some hm hr (hne r hr)
      rw [hst]
      simp only []
      have kA := keep_applyCounterA ρ mi st.counterA r.counterA r.counterB s hmi
      have reA := applyCounterA_reach ρ mi st.counterA r.counterA r.counterB s
      have uA := unset_applyCounterA ρ mi st.counterA r.counterA r.counterB s hmi
      generalize applyCounterA ρ mi st.counterA r.counterA r.counterB s = ra at kA reA uA ⊢
      have hmiA : mi < ra.1.rt.length := by rw [kA.rtLen]; exact hmi
      have kB := keep_applyCounterB ρ mi st.counterB r.counterA r.counterB ra.1 hmiA
      have reB := applyCounterB_reach ρ mi st.counterB r.counterA r.counterB ra.1
      have uB := unset_applyCounterB ρ mi st.counterB r.counterA r.counterB ra.1 hmiA
      generalize applyCounterB ρ mi st.counterB r.counterA r.counterB ra.1 = rb at kB reB uB ⊢
      have kAB0 := kA.trans kB
      have hVB0 : Valid rb.1 := (hV.reach reA).reach reB
      generalize hs2 : rb.1.push (.counter mi r.counterA (counterAOf rb.1 mi) r.counterB (counterBOf rb.1 mi)) = s2
      have kAB : Keep s s2 := by subst hs2; exact kAB0.trans ⟨rfl, rfl, rfl⟩
      have hVB : Valid s2 := by subst hs2; exact ⟨hVB0.lenRt, hVB0.lenAct, hVB0.ok, hVB0.cur⟩
      have hus2 : unset s2 mi = unset rb.1 mi := by subst hs2; rfl
      have hmiB : mi < s2.rt.length := by rw [kAB.rtLen]; exact hmi
      split
      · next hz =>
        have hu : 2 * unset s2 mi + 2 ≤ n := by
          have : (if ra.2 = true then 1 else 0) + (if rb.2 = true then 1 else 0) ≥ 1 := by
            cases ha : ra.2 <;> cases hb : rb.2 <;> simp_all
          omega
        have hT := ihT mi .counterZero s2 hVB hmiB hu
        have hreT := transition_reach ρ n mi .counterZero s2
        have hVT := hVB.reach hreT
        have hlenT : mi < (transition ρ n mi .counterZero s2).1.actions.length := by
          rw [hVT.lenAct, ← hVT.lenRt, hreT.frame.rtLen]; exact hmiB
        have : ∃ a, (transition ρ n mi .counterZero s2).1.actions[mi]? = some a :=
          ⟨_, List.getElem?_eq_getElem hlenT⟩
        obtain ⟨a, ha⟩ := this
        rw [ha]
        exact kAB.safe.trans hT
      · exact kAB.safe

end Mb
