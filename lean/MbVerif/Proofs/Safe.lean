/-
  Safety of the framework model: for well-formed machines no index is ever out of range and the
  recursion fuel is never exhausted; the only possible fault is the duration overflow.
-/
import MbVerif.Proofs.Walk
import MbVerif.Validate

namespace Mb
variable {σ : Type} (ρ : Oracle σ)

/-- structural well-formedness of a machine, as established by validation (targets) and by the
    Rust types (one transition slot per event) -/
structure MachineOK (m : Machine) : Prop where
  nonempty : 0 < m.states.length
  shape : ∀ st ∈ m.states, st.transitions.length = EVENT_NUM
  targets : ∀ st ∈ m.states, ∀ (e : Nat) (vec : List Trans), st.transitions[e]? = some (some vec) →
    ∀ t ∈ vec, t.target < m.states.length ∨ t.target = STATE_END ∨ t.target = STATE_SIGNAL
  small : m.states.length ≤ STATE_MAX

/-- invariant: array lengths agree and every machine is in an existing state or in END -/
structure Valid (s : Fw σ) : Prop where
  lenRt : s.rt.length = s.machines.length
  lenAct : s.actions.length = s.machines.length
  ok : ∀ m ∈ s.machines, MachineOK m
  cur : ∀ (i : Nat) (m : Machine) (r : Runtime), s.machines[i]? = some m → s.rt[i]? = some r →
    r.currentState < m.states.length ∨ r.currentState = STATE_END

/-- the pending signal, if it excludes a machine, excludes an existing one -/
def SigOK (s : Fw σ) : Prop := ∀ (x : Nat), s.signalPending = some (.allExcept x) → x < s.rt.length

/-- number of counter-zero flags still unset -/
def unset (s : Fw σ) : Nat := (if s.zeroedA then 0 else 1) + (if s.zeroedB then 0 else 1)

/-- the fault field only changes from none to a duration overflow -/
def NoNewBad (s t : Fw σ) : Prop := t.fault = s.fault ∨ (s.fault = none ∧ t.fault = some .durOverflow)

theorem NoNewBad.refl (s : Fw σ) : NoNewBad s s := Or.inl rfl

theorem NoNewBad.trans {s t u : Fw σ} (h₁ : NoNewBad s t) (h₂ : NoNewBad t u) : NoNewBad s u := by
  rcases h₁ with h₁ | ⟨h₁, h₁'⟩ <;> rcases h₂ with h₂ | ⟨h₂, h₂'⟩
  · exact Or.inl (h₂.trans h₁)
  · exact Or.inr ⟨by rw [← h₁]; exact h₂, h₂'⟩
  · exact Or.inr ⟨h₁, by rw [h₂]; exact h₁'⟩
  · rw [h₁'] at h₂; cases h₂

theorem NoNewBad.of_eq {s t : Fw σ} (h : t.fault = s.fault) : NoNewBad s t := Or.inl h

theorem NoNewBad.durOverflow (s : Fw σ) : NoNewBad s (s.withFault .durOverflow) := by
  unfold NoNewBad Fw.withFault
  cases h : s.fault with
  | none => right; simp
  | some f => left; simp [h]

theorem Event.toNat_lt (e : Event) : e.toNat < EVENT_NUM := by
  cases e <;> decide

/-! ### `Valid` is preserved by every primitive step -/

theorem Valid.modRt {s : Fw σ} (hV : Valid s) (mi : Nat) (f : Runtime → Runtime)
    (hf : ∀ m r, s.machines[mi]? = some m → s.rt[mi]? = some r →
      (f r).currentState < m.states.length ∨ (f r).currentState = STATE_END) : Valid (s.modRt mi f) := by
  refine ⟨by simpa using hV.lenRt, by simpa using hV.lenAct, by simpa using hV.ok, ?_⟩
  intro i m r hm hr
  have hm' : s.machines[i]? = some m := by simpa using hm
  by_cases hi : i = mi
  · subst hi
    rw [Fw.modRt_rt_self] at hr
    cases hr0 : s.rt[i]? with
    | none => rw [hr0] at hr; simp at hr
    | some r0 =>
      rw [hr0] at hr
      have : r = f r0 := by simpa using hr.symm
      subst this
      exact hf m r0 hm' hr0
  · rw [Fw.modRt_rt_other s mi i f hi] at hr
    exact hV.cur i m r hm' hr

theorem Valid.step {mi : Nat} {s t : Fw σ} (hV : Valid s) (h : Step mi s t) : Valid t := by
  cases h with
  | push => exact ⟨hV.lenRt, hV.lenAct, hV.ok, hV.cur⟩
  | fault f => exact ⟨by simpa using hV.lenRt, by simpa using hV.lenAct, by simpa using hV.ok,
      fun i m r hm hr => hV.cur i m r (by simpa using hm) (by simpa using hr)⟩
  | rng => exact ⟨hV.lenRt, hV.lenAct, hV.ok, hV.cur⟩
  | setState x hx =>
    refine hV.modRt mi _ (fun m r hm hr => ?_)
    obtain ⟨⟨m', r', st, ev, vec, t, hm', hr', hst, hvec, htv, htx⟩, hns⟩ := hx
    rw [hm] at hm'; rw [hr] at hr'
    cases hm'; cases hr'
    have hmem : m ∈ s.machines := List.mem_of_getElem? hm
    have hstm : st ∈ m.states := List.mem_of_getElem? hst
    have := (hV.ok m hmem).targets st hstm ev vec hvec t htv
    rw [htx] at this
    rcases this with h1 | h1 | h1
    · exact Or.inl h1
    · exact Or.inr h1
    · exact absurd h1 hns
  | setLimit l => exact hV.modRt mi _ (fun m r hm hr => hV.cur mi m r hm hr)
  | setCtrA v => exact hV.modRt mi _ (fun m r hm hr => hV.cur mi m r hm hr)
  | setCtrB v => exact hV.modRt mi _ (fun m r hm hr => hV.cur mi m r hm hr)
  | signal => exact ⟨hV.lenRt, hV.lenAct, hV.ok, hV.cur⟩
  | zeroA => exact ⟨hV.lenRt, hV.lenAct, hV.ok, hV.cur⟩
  | zeroB => exact ⟨hV.lenRt, hV.lenAct, hV.ok, hV.cur⟩
  | clear hlen => exact ⟨hV.lenRt, by simpa using hV.lenAct, hV.ok, hV.cur⟩
  | sched => exact ⟨hV.lenRt, by simpa using hV.lenAct, hV.ok, hV.cur⟩

end Mb
