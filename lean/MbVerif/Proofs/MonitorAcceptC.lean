/-
  `C02.monitor` and `C03.monitor` on the model's own trace (`LL.modelTrace`, the records the driver
  would build from the model, ghost log emptied before every call).

  Both monitors walk the calls in order, keep their own recount of the reported events (packet
  counts / blocking periods) over ALL calls (single events and batches), stop at the first call
  that did not return `ok`, and test the actions returned by single-event calls only.

  * shared: `single_slot` — after a single-event call from ANY state with the slot invariant, every
    returned action sits in the slot of its machine and was gated (`GateConseq`) with the accounting
    state after the event.
  * C02: `C02acc.go_model` — the monitor's recount equals the model's counters (`CntRel`, kept as an
    invariant along `LL.callRecs`), the gate gives the double comparison `padOKF`, and
    `below_exact` turns it into the monitor's exact rational comparison as long as fewer than 2^53
    packets were reported.  `C02acc.reject_big`: the schema of a model trace beyond 2^53 packets
    that the monitor rejects (a batch of `n` PaddingSent reports for an unused id is evaluated
    symbolically, `triggerEvents_pad_unknown`; instantiated in Props/C02.lean).
  * C03: `C03acc.go_model` — the monitor's `BlockAcc` is the model's blocking accounting (`BlkRel`),
    the gate gives `blockOKF`, which is the monitor's `blockOK` verbatim (both use the double share).
-/
import MbVerif.Proofs.LimitMonitor
import MbVerif.Proofs.C02Exact
import MbVerif.Proofs.C03

namespace Mb
variable {σ : Type} (ρ : Oracle σ)

/-! ### shared: the actions returned by a single-event call were gated after the event -/

theorem single_slot {Q : Globals → RtAcct → Machine → TAction → Prop} (hQ : GateConseq Q)
    (s : Fw σ) (hI : Inv04 s) (e : TEvent) (t : Int) (a : TAction)
    (ha : a ∈ (triggerEvents ρ [e] t s).actionsOut) :
    ∃ m rr, s.machines[a.machine]? = some m ∧ (triggerEvents ρ [e] t s).rt[a.machine]? = some rr ∧
      Q (triggerEvents ρ [e] t s).g rr.acct m a := by
  have hrun := triggerEvents_run ρ [e] t s
  have hI' : Inv04 (triggerEvents ρ [e] t s) := hI.run hrun
  have hm := LL.machines_run hrun
  have hslot : SlotInv Q (triggerEvents ρ [e] t s) := triggerEvents_single_slotInv ρ hQ e t s
  unfold Fw.actionsOut at ha
  rw [List.mem_filterMap] at ha
  obtain ⟨x, hx, hxa⟩ := ha
  simp only [id] at hxa
  subst hxa
  obtain ⟨i, hi⟩ := List.getElem?_of_mem hx
  have hmi : a.machine = i := (hI'.slots i _ hi).1
  obtain ⟨m, rr, hmm, hrr, hq⟩ := hslot i _ hi
  rw [hmi]
  exact ⟨m, rr, by rw [← hm]; exact hmm, hrr, hq⟩

theorem ofFw_resetLog (s : Fw σ) : Acct.ofFw (LL.resetLog s) = Acct.ofFw s := rfl

/-! ### C02 -/

namespace C02acc

/-- the packet counters of an accounting pair are the recount of `evs` -/
structure Cnt (fp : F64) (evs : List TEvent) (p : Globals × List RtAcct) : Prop where
  padAll : p.1.paddingSent = C02.countPadAll evs
  normal : p.1.normalSent = C02.countNormal evs
  frac : p.1.maxPaddingFrac = fp
  at_ : ∀ i a, p.2[i]? = some a → a.paddingSent = C02.countPad i evs ∧ a.normalSent = C02.countNormal evs

theorem Cnt.init (ms : List Machine) (fp fb : F64) (t0 : Int) (rng : σ) :
    Cnt fp [] (Acct.ofFw (Fw.init ρ ms fp fb t0 rng)) := by
  rw [init_acct]
  refine ⟨rfl, rfl, rfl, ?_⟩
  intro i a ha
  simp only [Acct.ofFw, Fw.init0, List.getElem?_map] at ha
  cases hmi : ms[i]? with
  | none => rw [hmi] at ha; simp at ha
  | some m =>
    rw [hmi] at ha
    simp only [Option.map_some, Option.some.injEq] at ha
    subst ha
    exact ⟨rfl, rfl⟩

theorem Cnt.call {fp : F64} {evs : List TEvent} {p : Globals × List RtAcct} (h : Cnt fp evs p)
    (es : List TEvent) (t : Int) : Cnt fp (evs ++ es) (Acct.call es t p) := by
  have hr := CntRel.call es t p
  refine ⟨?_, ?_, hr.frac.trans h.frac, ?_⟩
  · rw [hr.padAll, h.padAll]; simp [C02.countPadAll, List.countP_append]
  · rw [hr.normal, h.normal]; simp [C02.countNormal, List.countP_append]
  · intro i a' ha'
    have hlt : i < p.2.length := by
      rw [← hr.len]
      rcases Nat.lt_or_ge i (Acct.call es t p).2.length with h' | h'
      · exact h'
      · simp [List.getElem?_eq_none h'] at ha'
    obtain ⟨a'', ha'', hp, hn⟩ := hr.at_ i _ (List.getElem?_eq_getElem hlt)
    rw [ha'] at ha''
    cases ha''
    obtain ⟨h1, h2⟩ := h.at_ i _ (List.getElem?_eq_getElem hlt)
    constructor
    · rw [hp, h1]; simp [C02.countPad, List.countP_append]
    · rw [hn, h2]; simp [C02.countNormal, List.countP_append]

/-- the number of packets (sent normal or padding, any machine) among the events -/
def packets (evs : List TEvent) : Nat := C02.countPadAll evs + C02.countNormal evs

theorem packets_append (a b : List TEvent) : packets (a ++ b) = packets a + packets b := by
  simp [packets, C02.countPadAll, C02.countNormal, List.countP_append]; omega

theorem countPad_le_all (mi : Nat) (evs : List TEvent) : C02.countPad mi evs ≤ C02.countPadAll evs := by
  unfold C02.countPad C02.countPadAll
  apply List.countP_mono_left
  intro x _ hx
  cases x <;> simp_all

/-- the double comparison of the code implies the monitor's exact test below 2^53 packets -/
theorem padOK_of_F (m : Machine) (fp : F64) (evs : List TEvent) (mi : Nat) (hsmall : packets evs < 2 ^ 53)
    (hok : padOKF m.allowedPaddingPackets m.maxPaddingFrac fp (C02.countPad mi evs) (C02.countNormal evs)
      (C02.countPadAll evs) (C02.countNormal evs)) :
    C02.padOK m fp (C02.countPad mi evs) (C02.countNormal evs) (C02.countPadAll evs) = true := by
  have hle := countPad_le_all mi evs
  unfold packets at hsmall
  unfold C02.padOK
  unfold padOKF at hok
  simp only [Bool.or_eq_true, Bool.and_eq_true, decide_eq_true_eq]
  rcases hok with hb | ⟨h1, h2⟩
  · exact Or.inl hb
  · right
    constructor
    · have hh := below_exact (C02.countPad mi evs) (C02.countNormal evs + C02.countPad mi evs) m.maxPaddingFrac
        (by omega) (by omega) h1
      rwa [Nat.add_comm] at hh
    · exact below_exact (C02.countPadAll evs) (C02.countPadAll evs + C02.countNormal evs) fp (by omega) (by omega) h2

/-- the monitor's test of one returned action -/
def badAct (t : FwTrace) (hist : List TEvent) (a : TAction) : Bool :=
  match a with
  | .sendPadding _ _ _ mi =>
    match t.machines[mi]? with
    | some m => !C02.padOK m t.fp (C02.countPad mi hist) (C02.countNormal hist) (C02.countPadAll hist)
    | none => true
  | _ => false

theorem go_nil (t : FwTrace) (i : Nat) (hist : List TEvent) : C02.monitor.go t i hist [] = none := by
  rw [C02.monitor.go]

theorem go_fault (t : FwTrace) (i : Nat) (hist : List TEvent) (c : CallRec) (cs : List CallRec)
    (h : c.res ≠ .ok) : C02.monitor.go t i hist (c :: cs) = none := by
  rw [C02.monitor.go]
  simp [h]

theorem go_batch (t : FwTrace) (i : Nat) (hist : List TEvent) (c : CallRec) (cs : List CallRec)
    (h : c.res = .ok) (hl : c.events.length ≠ 1) :
    C02.monitor.go t i hist (c :: cs) = C02.monitor.go t (i + 1) (hist ++ c.events) cs := by
  rw [C02.monitor.go]
  simp [h, hl]

theorem go_single (t : FwTrace) (i : Nat) (hist : List TEvent) (c : CallRec) (cs : List CallRec)
    (h : c.res = .ok) (hb : ∀ a ∈ c.actions, badAct t (hist ++ c.events) a = false) :
    C02.monitor.go t i hist (c :: cs) = C02.monitor.go t (i + 1) (hist ++ c.events) cs := by
  rw [C02.monitor.go]
  have hf : c.actions.find? (badAct t (hist ++ c.events)) = none := by
    rw [List.find?_eq_none]
    intro a ha
    simp [hb a ha]
  simp only [h, bne_self_eq_false, Bool.false_eq_true, if_false]
  split
  · generalize hfind : List.find? _ c.actions = r
    have hr : r = none := by rw [← hfind]; exact hf
    rw [hr]
  · rfl

/-- one single-event call of the model: no returned action fails the monitor's test -/
theorem step_ok (t : FwTrace) (hist : List TEvent) (s : Fw σ) (hm : s.machines = t.machines) (hI : Inv04 s)
    (hc : Cnt t.fp hist (Acct.ofFw s)) (e : TEvent) (tm : Int) (hsmall : packets (hist ++ [e]) < 2 ^ 53) :
    ∀ a ∈ (triggerEvents ρ [e] tm (LL.resetLog s)).actionsOut, badAct t (hist ++ [e]) a = false := by
  intro a ha
  cases a with
  | cancel => rfl
  | blockOutgoing => rfl
  | updateTimer => rfl
  | sendPadding tmo b r mi =>
    obtain ⟨m, rr, hmm, hrr, hq⟩ := single_slot ρ gateConseq_QPad (LL.resetLog s) (LL.inv04_resetLog hI) e tm _ ha
    have hmm' : t.machines[mi]? = some m := by rw [← hm]; exact hmm
    have hc' : Cnt t.fp (hist ++ [e]) (Acct.ofFw (triggerEvents ρ [e] tm (LL.resetLog s))) := by
      rw [triggerEvents_acct, ofFw_resetLog]; exact hc.call [e] tm
    have hra : (Acct.ofFw (triggerEvents ρ [e] tm (LL.resetLog s))).2[mi]? = some rr.acct := by
      simp only [TAction.machine] at hrr
      simp [Acct.ofFw, List.getElem?_map, hrr]
    obtain ⟨hp, hn⟩ := hc'.at_ mi _ hra
    have hgp := hc'.padAll
    have hgn := hc'.normal
    have hgf := hc'.frac
    simp only [Acct.ofFw] at hgp hgn hgf
    simp only [QPad] at hq
    rw [hp, hn, hgp, hgn, hgf] at hq
    simp only [badAct, hmm']
    rw [padOK_of_F m t.fp (hist ++ [e]) mi hsmall hq]
    rfl

theorem go_model (t : FwTrace) (h : List Call) : ∀ (i : Nat) (hist : List TEvent) (s : Fw σ),
    s.machines = t.machines → Inv04 s → Cnt t.fp hist (Acct.ofFw s) → packets (hist ++ events h) < 2 ^ 53 →
    C02.monitor.go t i hist (LL.callRecs ρ s h) = none := by
  induction h with
  | nil => intro i hist s _ _ _ _; exact go_nil _ _ _
  | cons c h ih =>
    intro i hist s hm hI hc hsmall
    rw [LL.callRecs]
    by_cases hok : (LL.callRec ρ s c).res = .ok
    · have hrun := triggerEvents_run ρ c.1 c.2 (LL.resetLog s)
      have hnext : C02.monitor.go t (i + 1) (hist ++ c.1) (LL.callRecs ρ (triggerEvents ρ c.1 c.2 (LL.resetLog s)) h) = none := by
        refine ih (i + 1) (hist ++ c.1) _ ((LL.machines_run hrun).trans hm) ((LL.inv04_resetLog hI).run hrun) ?_ ?_
        · rw [triggerEvents_acct, ofFw_resetLog]; exact hc.call c.1 c.2
        · have : hist ++ c.1 ++ events h = hist ++ events (c :: h) := by simp [events]
          rw [this]; exact hsmall
      by_cases hl : c.1.length = 1
      · obtain ⟨e, he⟩ := List.length_eq_one_iff.1 hl
        rw [go_single t i hist _ _ hok]
        · exact hnext
        · show ∀ a ∈ (triggerEvents ρ c.1 c.2 (LL.resetLog s)).actionsOut, badAct t (hist ++ c.1) a = false
          rw [he]
          apply step_ok ρ t hist s hm hI hc e c.2
          have : packets (hist ++ [e]) ≤ packets (hist ++ events (c :: h)) := by
            have : hist ++ events (c :: h) = (hist ++ [e]) ++ events h := by simp [events, he]
            rw [this, packets_append (hist ++ [e])]; omega
          omega
      · rw [go_batch t i hist _ _ hok hl]
        exact hnext
    · exact go_fault t i hist _ _ hok

theorem monitor_model (ms : List Machine) (fp fb : F64) (t0 : Int) (rng : σ) (h : List Call)
    (hsmall : packets (events h) < 2 ^ 53) :
    C02.monitor (LL.modelTrace ρ ms fp fb t0 rng h) = none := by
  unfold C02.monitor
  exact go_model ρ (LL.modelTrace ρ ms fp fb t0 rng h) h 1 [] (Fw.init ρ ms fp fb t0 rng)
    (LL.machines_run (init_run ρ ms fp fb t0 rng)) (Inv04.init ρ ms fp fb t0 rng)
    (Cnt.init ρ ms fp fb t0 rng) (by simpa using hsmall)

/-! #### beyond 2^53 packets: a model trace that the monitor rejects

A batch of `n` PaddingSent reports for an id `k` no machine has only bumps the framework-wide
padding counter, so the state after it is an explicit term for every `n` (no evaluation of the
batch needed); a following single-event call is then a closed computation. -/

/-- the framework-wide padding counter raised by `n` -/
def bump (n : Nat) (s : Fw σ) : Fw σ := { s with g := { s.g with paddingSent := s.g.paddingSent + n } }

theorem processEvent_pad_unknown (s : Fw σ) (k : Nat) (hk : s.rt.length ≤ k) :
    processEvent ρ (.paddingSent k) s = bump 1 s := by
  simp [processEvent, bump, hk]

theorem fold_pad_unknown (n k : Nat) : ∀ (s : Fw σ), s.rt.length ≤ k →
    (List.replicate n (TEvent.paddingSent k)).foldl (fun s e => processEvent ρ e s) s = bump n s := by
  induction n with
  | zero => intro s _; rfl
  | succ n ih =>
    intro s hk
    rw [List.replicate_succ, List.foldl_cons, processEvent_pad_unknown ρ s k hk, ih (bump 1 s) hk]
    simp [bump, Nat.add_assoc, Nat.add_comm 1 n]

theorem triggerEvents_pad_unknown (n k : Nat) (t : Int) (s : Fw σ) (hk : s.rt.length ≤ k)
    (hsig : s.signalPending = none) :
    triggerEvents ρ (List.replicate n (.paddingSent k)) t s = bump n (s.callStart t) := by
  unfold triggerEvents
  rw [fold_pad_unknown ρ n k _ (by simpa [Fw.callStart] using hk)]
  unfold signalRound
  have : (bump n (s.callStart t)).signalPending = none := hsig
  rw [this]

theorem go_reject (t : FwTrace) (i : Nat) (hist : List TEvent) (c : CallRec) (cs : List CallRec)
    (h : c.res = .ok) (hl : c.events.length = 1) (a : TAction) (ha : a ∈ c.actions)
    (hb : badAct t (hist ++ c.events) a = true) : C02.monitor.go t i hist (c :: cs) ≠ none := by
  rw [C02.monitor.go]
  simp only [h, bne_self_eq_false, Bool.false_eq_true, if_false, hl, beq_self_eq_true, if_true]
  generalize hfind : List.find? _ c.actions = r
  have hr : c.actions.find? (badAct t (hist ++ c.events)) = r := hfind
  cases r with
  | some x => simp
  | none =>
    rw [List.find?_eq_none] at hr
    exact absurd hb (hr a ha)

theorem callRecs_two (s : Fw σ) (es1 es2 : List TEvent) (t1 t2 : Int) :
    LL.callRecs ρ s [(es1, t1), (es2, t2)] =
      [LL.callRec ρ s (es1, t1), LL.callRec ρ (triggerEvents ρ es1 t1 (LL.resetLog s)) (es2, t2)] := by
  rw [LL.callRecs, LL.callRecs, LL.callRecs]

theorem badAct_pad (t : FwTrace) (hist : List TEvent) (tmo : Nat) (b r : Bool) (mi : Nat) (m : Machine)
    (hmi : t.machines[mi]? = some m)
    (hpad : C02.padOK m t.fp (C02.countPad mi hist) (C02.countNormal hist) (C02.countPadAll hist) = false) :
    badAct t hist (.sendPadding tmo b r mi) = true := by
  simp only [badAct, hmi, hpad, Bool.not_false]

/-- a batch followed by a single-event call with a rejected action -/
theorem reject_two (T : FwTrace) (c1 c2 : CallRec) (hc : T.calls = [c1, c2]) (h1 : c1.res = .ok)
    (hl1 : c1.events.length ≠ 1) (h2 : c2.res = .ok) (hl2 : c2.events.length = 1) (a : TAction)
    (ha : a ∈ c2.actions) (hb : badAct T ([] ++ c1.events ++ c2.events) a = true) : C02.monitor T ≠ none := by
  unfold C02.monitor
  rw [hc, go_batch T 1 [] c1 [c2] h1 hl1]
  exact go_reject T 2 _ c2 [] h2 hl2 a ha hb

theorem counts_big (n k mi : Nat) (e : TEvent) (hkm : k ≠ mi) :
    C02.countPad mi ([] ++ List.replicate n (.paddingSent k) ++ [e]) = C02.countPad mi [e] ∧
    C02.countNormal ([] ++ List.replicate n (.paddingSent k) ++ [e]) = C02.countNormal [e] ∧
    C02.countPadAll ([] ++ List.replicate n (.paddingSent k) ++ [e]) = n + C02.countPadAll [e] := by
  refine ⟨?_, ?_, ?_⟩
  · simp [C02.countPad, List.countP_append, List.countP_replicate, hkm]
  · simp [C02.countNormal, List.countP_append, List.countP_replicate]
  · simp [C02.countPadAll, List.countP_append, List.countP_replicate]

/-- **`C02.monitor` rejects a trace of the model with more than 2^53 packets** (schema): after a
    batch of `n` PaddingSent reports for an id `k` that no machine has, a single-event call `[e]` in
    which the model returns SendPadding for `mi` although the exact test fails on the counts -/
theorem reject_big (ms : List Machine) (fp fb : F64) (t0 : Int) (rng : σ) (n k : Nat) (t1 t2 : Int) (e : TEvent)
    (tmo : Nat) (b r : Bool) (mi : Nat) (m : Machine)
    (hk : ms.length ≤ k) (hn : n ≠ 1)
    (hf0 : (Fw.init ρ ms fp fb t0 rng).fault = none)
    (hsig : (Fw.init ρ ms fp fb t0 rng).signalPending = none)
    (hres : (triggerEvents ρ [e] t2
      (LL.resetLog (bump n ((LL.resetLog (Fw.init ρ ms fp fb t0 rng)).callStart t1)))).fault = none)
    (ha : TAction.sendPadding tmo b r mi ∈ (triggerEvents ρ [e] t2
      (LL.resetLog (bump n ((LL.resetLog (Fw.init ρ ms fp fb t0 rng)).callStart t1)))).actionsOut)
    (hmi : ms[mi]? = some m) (hkm : k ≠ mi)
    (hpad : C02.padOK m fp (C02.countPad mi [e]) (C02.countNormal [e]) (n + C02.countPadAll [e]) = false) :
    C02.monitor (LL.modelTrace ρ ms fp fb t0 rng [(List.replicate n (.paddingSent k), t1), ([e], t2)]) ≠ none := by
  have hlen : (LL.resetLog (Fw.init ρ ms fp fb t0 rng)).rt.length ≤ k := by
    have h1 := (Inv04.init ρ ms fp fb t0 rng).rtLen
    rw [LL.machines_run (init_run ρ ms fp fb t0 rng)] at h1
    have h2 : (LL.resetLog (Fw.init ρ ms fp fb t0 rng)).rt = (Fw.init ρ ms fp fb t0 rng).rt := rfl
    have h3 : (Fw.init0 ms fp fb t0 rng).machines = ms := rfl
    rw [h2, h1, h3]; exact hk
  have hs1 := triggerEvents_pad_unknown ρ n k t1 (LL.resetLog (Fw.init ρ ms fp fb t0 rng)) hlen hsig
  generalize hT : LL.modelTrace ρ ms fp fb t0 rng [(List.replicate n (.paddingSent k), t1), ([e], t2)] = T
  have hTm : T.machines = ms := by rw [← hT]; rfl
  have hTf : T.fp = fp := by rw [← hT]; rfl
  have hTc : T.calls = LL.callRecs ρ (Fw.init ρ ms fp fb t0 rng) [(List.replicate n (.paddingSent k), t1), ([e], t2)] := by
    rw [← hT]; rfl
  rw [callRecs_two, hs1] at hTc
  generalize Fw.init ρ ms fp fb t0 rng = S0 at *
  generalize hS1 : bump n ((LL.resetLog S0).callStart t1) = S1 at *
  have hf1 : S1.fault = none := by rw [← hS1]; exact hf0
  refine reject_two T _ _ hTc ?_ ?_ ?_ ?_ (.sendPadding tmo b r mi) ha ?_
  · have : (LL.callRec ρ S0 (List.replicate n (TEvent.paddingSent k), t1)).res =
        LL.resOf (triggerEvents ρ (List.replicate n (TEvent.paddingSent k)) t1 (LL.resetLog S0)).fault := rfl
    rw [this, hs1]; exact (LL.resOf_ok _).2 hf1
  · have : (LL.callRec ρ S0 (List.replicate n (TEvent.paddingSent k), t1)).events =
        List.replicate n (TEvent.paddingSent k) := rfl
    rw [this, List.length_replicate]; exact hn
  · exact (LL.resOf_ok _).2 hres
  · rfl
  · have e1 : (LL.callRec ρ S0 (List.replicate n (TEvent.paddingSent k), t1)).events =
        List.replicate n (TEvent.paddingSent k) := rfl
    have e2 : (LL.callRec ρ S1 ([e], t2)).events = [e] := rfl
    rw [e1, e2]
    obtain ⟨c1, c2, c3⟩ := counts_big n k mi e hkm
    apply badAct_pad T _ tmo b r mi m (by rw [hTm]; exact hmi)
    rw [c1, c2, c3, hTf]; exact hpad

end C02acc

/-! ### C03 -/

namespace C03acc

/-- the monitor's test of one returned action -/
def badAct (t : FwTrace) (now : Int) (b : C03.BlockAcc) (a : TAction) : Bool :=
  match a with
  | .blockOutgoing _ _ _ rp mi =>
    match t.machines[mi]? with
    | some m => !C03.blockOK m.allowedBlockedMicrosec m.maxBlockingFrac t.fb rp t.t0 now b
    | none => true
  | _ => false

theorem go_nil (t : FwTrace) (i : Nat) (b : C03.BlockAcc) : C03.monitor.go t i b [] = none := by
  rw [C03.monitor.go]

theorem go_fault (t : FwTrace) (i : Nat) (b : C03.BlockAcc) (c : CallRec) (cs : List CallRec)
    (h : c.res ≠ .ok) : C03.monitor.go t i b (c :: cs) = none := by
  rw [C03.monitor.go]
  simp [h]

theorem go_batch (t : FwTrace) (i : Nat) (b : C03.BlockAcc) (c : CallRec) (cs : List CallRec)
    (h : c.res = .ok) (hl : c.events.length ≠ 1) :
    C03.monitor.go t i b (c :: cs) = C03.monitor.go t (i + 1) (C03.blockCall (c.events, c.t) b) cs := by
  rw [C03.monitor.go]
  simp [h, hl]

theorem go_single (t : FwTrace) (i : Nat) (b : C03.BlockAcc) (c : CallRec) (cs : List CallRec)
    (h : c.res = .ok) (hb : ∀ a ∈ c.actions, badAct t c.t (C03.blockCall (c.events, c.t) b) a = false) :
    C03.monitor.go t i b (c :: cs) = C03.monitor.go t (i + 1) (C03.blockCall (c.events, c.t) b) cs := by
  rw [C03.monitor.go]
  have hf : c.actions.find? (badAct t c.t (C03.blockCall (c.events, c.t) b)) = none := by
    rw [List.find?_eq_none]
    intro a ha
    simp [hb a ha]
  simp only [h, bne_self_eq_false, Bool.false_eq_true, if_false]
  split
  · generalize hfind : List.find? _ c.actions = r
    have hr : r = none := by rw [← hfind]; exact hf
    rw [hr]
  · rfl

/-- the allowance table of a machine list (ns) -/
def allow (ms : List Machine) (i : Nat) : Nat := (ms[i]?.map (·.allowedBlockedMicrosec * 1000)).getD 0

theorem blk_init (ms : List Machine) (fp fb : F64) (t0 : Int) (rng : σ) :
    BlkRel t0 fb (allow ms) { active := false, started := t0, total := 0 } (Acct.ofFw (Fw.init ρ ms fp fb t0 rng)) := by
  rw [init_acct]
  refine ⟨rfl, rfl, rfl, rfl, rfl, ?_⟩
  intro j a ha
  simp only [Acct.ofFw, Fw.init0, List.getElem?_map] at ha
  cases hmj : ms[j]? with
  | none => rw [hmj] at ha; simp at ha
  | some mj =>
    rw [hmj] at ha
    simp only [Option.map_some, Option.some.injEq] at ha
    subst ha
    simp [allow, hmj]

/-- one single-event call of the model: no returned action fails the monitor's test -/
theorem step_ok (t : FwTrace) (b : C03.BlockAcc) (s : Fw σ) (hm : s.machines = t.machines) (hI : Inv04 s)
    (hb : BlkRel t.t0 t.fb (allow t.machines) b (Acct.ofFw s)) (e : TEvent) (tm : Int) :
    ∀ a ∈ (triggerEvents ρ [e] tm (LL.resetLog s)).actionsOut,
      badAct t tm (C03.blockCall ([e], tm) b) a = false := by
  intro a ha
  cases a with
  | cancel => rfl
  | sendPadding => rfl
  | updateTimer => rfl
  | blockOutgoing tmo dur bp rp mi =>
    obtain ⟨m, rr, hmm, hrr, hq⟩ := single_slot ρ gateConseq_QBlock (LL.resetLog s) (LL.inv04_resetLog hI) e tm _ ha
    have hmm' : t.machines[mi]? = some m := by rw [← hm]; exact hmm
    have hrel := hb.call ([e], tm)
    rw [← ofFw_resetLog, ← triggerEvents_acct ρ] at hrel
    obtain ⟨hrel, hnow⟩ := hrel
    generalize C03.blockCall ([e], tm) b = B at hrel ⊢
    generalize triggerEvents ρ [e] tm (LL.resetLog s) = s' at hrel hnow hrr hq
    have hra : (Acct.ofFw s').2[mi]? = some rr.acct := by
      simp only [TAction.machine] at hrr
      simp [Acct.ofFw, List.getElem?_map, hrr]
    obtain ⟨hp1, hp2, hp3⟩ := hrel.per mi rr.acct hra
    have hal : rr.acct.allowedBlocked = m.allowedBlockedMicrosec * 1000 := by
      rw [hp3]; simp [allow, hmm']
    have hA := hrel.active
    have hS := hrel.started
    have hT := hrel.total
    have hSt := hrel.start
    have hF := hrel.frac
    simp only [Acct.ofFw] at hA hS hT hSt hF hnow
    simp only [QBlock, blockOKF] at hq
    rw [hp1, hp2, hal, hA, hS, hT, hSt, hF, hnow] at hq
    simp only [badAct, hmm']
    have : C03.blockOK m.allowedBlockedMicrosec m.maxBlockingFrac t.fb rp t.t0 tm B = true := by
      unfold C03.blockOK C03.blockedNow
      simp only [Bool.or_eq_true, Bool.and_eq_true, decide_eq_true_eq]
      rcases hq with ⟨h1, h2⟩ | h2 | ⟨h2, h3⟩
      · left; left; exact ⟨h1, h2⟩
      · left; right; exact h2
      · right; exact ⟨h2, h3⟩
    rw [this]; rfl

theorem go_model (t : FwTrace) (h : List Call) : ∀ (i : Nat) (b : C03.BlockAcc) (s : Fw σ),
    s.machines = t.machines → Inv04 s → BlkRel t.t0 t.fb (allow t.machines) b (Acct.ofFw s) →
    C03.monitor.go t i b (LL.callRecs ρ s h) = none := by
  induction h with
  | nil => intro i b s _ _ _; exact go_nil _ _ _
  | cons c h ih =>
    intro i b s hm hI hb
    rw [LL.callRecs]
    by_cases hok : (LL.callRec ρ s c).res = .ok
    · have hrun := triggerEvents_run ρ c.1 c.2 (LL.resetLog s)
      have hnext : C03.monitor.go t (i + 1) (C03.blockCall c b)
          (LL.callRecs ρ (triggerEvents ρ c.1 c.2 (LL.resetLog s)) h) = none := by
        refine ih (i + 1) _ _ ((LL.machines_run hrun).trans hm) ((LL.inv04_resetLog hI).run hrun) ?_
        rw [triggerEvents_acct, ofFw_resetLog]; exact (hb.call c).1
      by_cases hl : c.1.length = 1
      · obtain ⟨e, he⟩ := List.length_eq_one_iff.1 hl
        rw [go_single t i b _ _ hok]
        · exact hnext
        · show ∀ a ∈ (triggerEvents ρ c.1 c.2 (LL.resetLog s)).actionsOut,
            badAct t c.2 (C03.blockCall (c.1, c.2) b) a = false
          rw [he]
          exact step_ok ρ t b s hm hI hb e c.2
      · rw [go_batch t i b _ _ hok hl]
        exact hnext
    · exact go_fault t i b _ _ hok

theorem monitor_model (ms : List Machine) (fp fb : F64) (t0 : Int) (rng : σ) (h : List Call) :
    C03.monitor (LL.modelTrace ρ ms fp fb t0 rng h) = none := by
  unfold C03.monitor
  exact go_model ρ (LL.modelTrace ρ ms fp fb t0 rng h) h 1 _ (Fw.init ρ ms fp fb t0 rng)
    (LL.machines_run (init_run ρ ms fp fb t0 rng)) (Inv04.init ρ ms fp fb t0 rng)
    (blk_init ρ ms fp fb t0 rng)

end C03acc

end Mb
