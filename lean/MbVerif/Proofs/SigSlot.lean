/-
  C09: the pending-signal slot is a function of the ghost log. Every transition to the signal
  pseudo-state is recorded as a `sampled mi ev STATE_SIGNAL` entry, and the slot after any part of
  a call is the fold of `sigStep` over the machines of these entries, in chronological order.
-/
import MbVerif.Proofs.SigDeliver

namespace Mb
variable {σ : Type} (ρ : Oracle σ)

/-- the machine that signalled, if the entry records a transition to the signal pseudo-state -/
def sigEntry : LogEntry → Option Nat
  | .sampled mi _ next => if next = STATE_SIGNAL then some mi else none
  | _ => none

/-- the machines that transitioned to the signal pseudo-state according to a log segment (newest
    first), in chronological order, with repetitions -/
def signalsIn (l : List LogEntry) : List Nat := l.reverse.filterMap sigEntry

theorem signalsIn_append (l2 l1 : List LogEntry) : signalsIn (l2 ++ l1) = signalsIn l1 ++ signalsIn l2 := by
  simp [signalsIn, List.reverse_append, List.filterMap_append]

theorem signalsIn_quiet (l : List LogEntry) (h : ∀ e ∈ l, sigEntry e = none) : signalsIn l = [] := by
  unfold signalsIn
  rw [List.filterMap_eq_nil_iff]
  intro e he
  exact h e (List.mem_reverse.mp he)

/-- `t` extends the log of `s` by a segment, and the slot of `t` is the slot of `s` stepped by the
    signalling transitions recorded in the segment -/
def Trk (s t : Fw σ) : Prop :=
  ∃ l, t.log = l ++ s.log ∧ t.signalPending = (signalsIn l).foldl C09.sigStep s.signalPending

theorem Trk.refl (s : Fw σ) : Trk s s := ⟨[], rfl, rfl⟩

theorem Trk.trans {s t u : Fw σ} (h₁ : Trk s t) (h₂ : Trk t u) : Trk s u := by
  obtain ⟨l1, e1, p1⟩ := h₁
  obtain ⟨l2, e2, p2⟩ := h₂
  refine ⟨l2 ++ l1, by rw [e2, e1, List.append_assoc], ?_⟩
  rw [signalsIn_append, List.foldl_append, ← p1, p2]

/-- `t` extends the log of `s` by entries that record no signalling, and the slot is unchanged -/
structure Qt (s t : Fw σ) : Prop where
  log : ∃ l, t.log = l ++ s.log ∧ ∀ e ∈ l, sigEntry e = none
  sig : t.signalPending = s.signalPending

theorem Qt.refl (s : Fw σ) : Qt s s := ⟨⟨[], rfl, by simp⟩, rfl⟩

theorem Qt.trans {s t u : Fw σ} (h₁ : Qt s t) (h₂ : Qt t u) : Qt s u := by
  obtain ⟨⟨l1, e1, q1⟩, p1⟩ := h₁
  obtain ⟨⟨l2, e2, q2⟩, p2⟩ := h₂
  refine ⟨⟨l2 ++ l1, by rw [e2, e1, List.append_assoc], fun e he => ?_⟩, p2.trans p1⟩
  rcases List.mem_append.mp he with h | h
  · exact q2 e h
  · exact q1 e h

theorem Qt.trk {s t : Fw σ} (h : Qt s t) : Trk s t := by
  obtain ⟨⟨l, e, q⟩, p⟩ := h
  refine ⟨l, e, ?_⟩
  rw [signalsIn_quiet l q]; exact p

theorem Qt.same {s t : Fw σ} (hl : t.log = s.log) (hs : t.signalPending = s.signalPending) : Qt s t :=
  ⟨⟨[], by simp [hl], by simp⟩, hs⟩

theorem Qt.push (s : Fw σ) (e : LogEntry) (he : sigEntry e = none) : Qt s (s.push e) :=
  ⟨⟨[e], rfl, by simp [he]⟩, rfl⟩

theorem Qt.withFault (s : Fw σ) (f : Fault) : Qt s (s.withFault f) := Qt.same (by simp) (by simp)

theorem Qt.modRt (s : Fw σ) (mi : Nat) (f : Runtime → Runtime) : Qt s (s.modRt mi f) := Qt.same (by simp) (by simp)

/-! ### the pieces of `transition` record no signalling -/

theorem qt_distSample (d : Dist) (s : Fw σ) : Qt s (distSample ρ d s).2 := by
  unfold distSample
  exact ⟨⟨[.distRaw _], rfl, by simp [sigEntry]⟩, rfl⟩

theorem qt_sampleLimit (a : Action) (s : Fw σ) : Qt s (sampleLimit ρ a s).2 := by
  unfold sampleLimit; split
  · exact Qt.refl s
  · exact qt_distSample ρ _ s

theorem qt_sampleValue (c : Counter) (s : Fw σ) : Qt s (sampleValue ρ c s).2 := by
  unfold sampleValue; split
  · exact Qt.refl s
  · exact qt_distSample ρ _ s

theorem qt_sampleTimeout (a : Action) (s : Fw σ) : Qt s (sampleTimeout ρ a s).2 := by
  unfold sampleTimeout; split
  · exact qt_distSample ρ _ s
  · exact qt_distSample ρ _ s
  · exact Qt.refl s

theorem qt_sampleDuration (a : Action) (s : Fw σ) : Qt s (sampleDuration ρ a s).2 := by
  unfold sampleDuration; split
  · exact qt_distSample ρ _ s
  · exact qt_distSample ρ _ s
  · exact Qt.refl s

theorem qt_enterState (mi : Nat) (m : Machine) (cur next : Nat) (s : Fw σ) :
    Qt s (enterState ρ mi m cur next s) := by
  unfold enterState
  split
  · simp only
    have h1 : Qt s (s.modRt mi (fun r => { r with currentState := next })) := Qt.modRt s mi _
    split
    · exact h1.trans (Qt.withFault _ _)
    · split
      · next a _ =>
        exact ((h1.trans (qt_sampleLimit ρ a _)).trans (Qt.modRt _ mi _)).trans (Qt.push _ _ rfl)
      · exact (h1.trans (Qt.modRt _ mi _)).trans (Qt.push _ _ rfl)
  · exact Qt.refl s

theorem qt_counterOperand (c : Counter) (other : Nat) (s : Fw σ) : Qt s (counterOperand ρ c other s).2 := by
  unfold counterOperand; split
  · exact Qt.refl s
  · exact qt_sampleValue ρ c s

theorem qt_storeCounterA (mi oldA newA : Nat) (s : Fw σ) : Qt s (storeCounterA mi oldA newA s).1 := by
  unfold storeCounterA; simp only
  split
  · exact (Qt.modRt s mi _).trans (Qt.modRt _ mi _)
  · exact Qt.modRt s mi _

theorem qt_storeCounterB (mi oldB newB : Nat) (s : Fw σ) : Qt s (storeCounterB mi oldB newB s).1 := by
  unfold storeCounterB; simp only
  split
  · exact (Qt.modRt s mi _).trans (Qt.modRt _ mi _)
  · exact Qt.modRt s mi _

theorem qt_applyCounterA (mi : Nat) (c : Option Counter) (oldA oldB : Nat) (s : Fw σ) :
    Qt s (applyCounterA ρ mi c oldA oldB s).1 := by
  unfold applyCounterA
  cases c with
  | none => exact Qt.refl s
  | some c => exact (qt_counterOperand ρ c oldB s).trans (qt_storeCounterA mi _ _ _)

theorem qt_applyCounterB (mi : Nat) (c : Option Counter) (oldA oldB : Nat) (s : Fw σ) :
    Qt s (applyCounterB ρ mi c oldA oldB s).1 := by
  unfold applyCounterB
  cases c with
  | none => exact Qt.refl s
  | some c => exact (qt_counterOperand ρ c oldA s).trans (qt_storeCounterB mi _ _ _)

theorem qt_scheduleAction (mi next : Nat) (s : Fw σ) : Qt s (scheduleAction ρ mi next s) := by
  unfold scheduleAction
  cases hm : s.machines[mi]? with
  | none => exact Qt.withFault s _
  | some m =>
    simp only []
    cases hst : m.states[next]? with
    | none => exact Qt.withFault s _
    | some st =>
      simp only []
      split
      · exact Qt.withFault s _
      · cases hact : st.action with
        | none => exact Qt.same rfl rfl
        | some act =>
          cases act with
          | cancel t => exact Qt.same rfl rfl
          | sendPadding b rp tmo lim =>
            simp only
            exact (qt_sampleTimeout ρ _ s).trans (Qt.same rfl rfl)
          | blockOutgoing b rp tmo du lim =>
            simp only
            exact ((qt_sampleTimeout ρ _ s).trans (qt_sampleDuration ρ _ _)).trans (Qt.same rfl rfl)
          | updateTimer rp du lim =>
            simp only
            exact (qt_sampleDuration ρ _ s).trans (Qt.same rfl rfl)

theorem STATE_END_ne_SIGNAL : STATE_END ≠ STATE_SIGNAL := by decide

/-! ### `transition` / `update_counter` -/

theorem trk_main (fuel : Nat) :
    (∀ mi ev (s : Fw σ), Trk s (transition ρ fuel mi ev s).1) ∧
    (∀ mi (s : Fw σ), Trk s (updateCounter ρ fuel mi s).1) := by
  induction fuel with
  | zero =>
    refine ⟨fun mi ev s => ?_, fun mi s => ?_⟩
    · rw [transition]; exact (Qt.withFault _ _).trk
    · rw [updateCounter]; exact (Qt.withFault _ _).trk
  | succ n ih =>
    obtain ⟨ihT, ihU⟩ := ih
    refine ⟨fun mi ev s => ?_, fun mi s => ?_⟩
    · rw [transition]
      cases hr : s.rt[mi]? with
      | none => exact (Qt.withFault _ _).trk
      | some r =>
      cases hm : s.machines[mi]? with
      | none => exact (Qt.withFault _ _).trk
      | some m =>
      simp only []
      have h0 : Qt s (s.push (.trans mi ev.toNat r.currentState)) := Qt.push _ _ rfl
      split
      · exact h0.trk
      · cases hst : m.states[r.currentState]? with
        | none => exact (h0.trans (Qt.withFault _ _)).trk
        | some st =>
        simp only []
        cases htr : st.transitions[ev.toNat]? with
        | none => exact (h0.trans (Qt.withFault _ _)).trk
        | some ov =>
        cases ov with
        | none => exact h0.trk
        | some vec =>
        simp only []
        have h1 : Qt s (({ s.push (.trans mi ev.toNat r.currentState) with
              rng := (ρ.u (s.push (.trans mi ev.toNat r.currentState)).rng).2 }).push
            (.draw (ρ.u (s.push (.trans mi ev.toNat r.currentState)).rng).1)) :=
          h0.trans ⟨⟨[.draw (ρ.u (s.push (.trans mi ev.toNat r.currentState)).rng).1], rfl, by simp [sigEntry]⟩, rfl⟩
        generalize (({ s.push (.trans mi ev.toNat r.currentState) with
              rng := (ρ.u (s.push (.trans mi ev.toNat r.currentState)).rng).2 }).push
            (.draw (ρ.u (s.push (.trans mi ev.toNat r.currentState)).rng).1)) = s1 at h1 ⊢
        split
        · exact h1.trk
        · next nxt _ =>
          split
          · next hend =>
            have hq : sigEntry (.sampled mi ev.toNat nxt) = none := by
              have : nxt ≠ STATE_SIGNAL := by rw [hend]; exact STATE_END_ne_SIGNAL
              simp [sigEntry, this]
            exact ((h1.trans (Qt.push _ _ hq)).trans (Qt.modRt _ mi _)).trk
          · split
            · next hsig =>
              refine h1.trk.trans ⟨[.sampled mi ev.toNat nxt], rfl, ?_⟩
              rw [C09.signalFrom_pending]
              simp [signalsIn, sigEntry, hsig]
            · next hsig =>
              have hq : sigEntry (.sampled mi ev.toNat nxt) = none := by simp [sigEntry, hsig]
              have h3 := ((h1.trans (Qt.push _ _ hq)).trans (qt_enterState ρ mi m r.currentState nxt _)).trk
              generalize enterState ρ mi m r.currentState nxt _ = s3 at h3 ⊢
              refine h3.trans ?_
              cases hr3 : s3.rt[mi]? with
              | none => exact (Qt.withFault _ _).trk
              | some r1 =>
              simp only []
              cases hb : belowActionLimits s3.g r1 m with
              | none => exact (Qt.withFault _ _).trk
              | some below =>
              simp only []
              have hU := ihU mi s3
              have h5 : Trk s3 (if ((updateCounter ρ n mi s3).2.1 && below) = true
                  then scheduleAction ρ mi nxt (updateCounter ρ n mi s3).1 else (updateCounter ρ n mi s3).1) := by
                split
                · exact hU.trans (qt_scheduleAction ρ mi nxt _).trk
                · exact hU
              generalize (if ((updateCounter ρ n mi s3).2.1 && below) = true
                  then scheduleAction ρ mi nxt (updateCounter ρ n mi s3).1 else (updateCounter ρ n mi s3).1) = s5 at h5 ⊢
              cases hr5 : s5.rt[mi]? with
              | none => exact h5.trans (Qt.withFault _ _).trk
              | some r2 => exact h5
    · rw [updateCounter]
      cases hr : s.rt[mi]? with
      | none => exact (Qt.withFault _ _).trk
      | some r =>
      cases hm : s.machines[mi]? with
      | none => exact (Qt.withFault _ _).trk
      | some m =>
      simp only []
      cases hst : m.states[r.currentState]? with
      | none => exact (Qt.withFault _ _).trk
      | some st =>
      simp only []
      have hA := qt_applyCounterA ρ mi st.counterA r.counterA r.counterB s
      generalize applyCounterA ρ mi st.counterA r.counterA r.counterB s = ra at hA ⊢
      have hB := qt_applyCounterB ρ mi st.counterB r.counterA r.counterB ra.1
      generalize applyCounterB ρ mi st.counterB r.counterA r.counterB ra.1 = rb at hB ⊢
      have h2 : Qt s (rb.1.push (.counter mi r.counterA (counterAOf rb.1 mi) r.counterB (counterBOf rb.1 mi))) :=
        (hA.trans hB).trans (Qt.push _ _ rfl)
      split
      · have hT := h2.trk.trans (ihT mi .counterZero _)
        split
        · exact hT.trans (Qt.withFault _ _).trk
        · exact hT
      · exact h2.trk

theorem trk_transition (fuel j : Nat) (ev : Event) (s : Fw σ) : Trk s (transition ρ fuel j ev s).1 :=
  (trk_main ρ fuel).1 j ev s

theorem trk_decrement (j : Nat) (s : Fw σ) : Trk s (decrementLimit ρ j s) := by
  unfold decrementLimit
  cases hr : s.rt[j]? with
  | none => exact (Qt.withFault _ _).trk
  | some r =>
  cases hm : s.machines[j]? with
  | none => exact (Qt.withFault _ _).trk
  | some m =>
  simp only []
  generalize (if r.stateLimit > 0 then r.stateLimit - 1 else r.stateLimit) = lim
  have h1 : Qt s ((s.modRt j (fun r' => { r' with stateLimit := lim })).push (.limit j lim true)) :=
    (Qt.modRt s j _).trans (Qt.push _ _ rfl)
  generalize (s.modRt j (fun r' => { r' with stateLimit := lim })).push (.limit j lim true) = s1 at h1 ⊢
  cases hst : m.states[r.currentState]? with
  | none => exact (h1.trans (Qt.withFault _ _)).trk
  | some st =>
  simp only []
  cases hact : st.action with
  | none => exact h1.trk
  | some a =>
    simp only []
    split
    · split
      · exact (h1.trans (Qt.withFault _ _)).trk
      · exact (h1.trans (Qt.same (t := { s1 with actions := s1.actions.set j none }) rfl rfl)).trk.trans
          (trk_transition ρ FUEL j .limitReached _)
    · exact h1.trk

theorem trk_transDec (j : Nat) (ev : Event) (s : Fw σ) (cnd : Fw σ × Bool → Bool) :
    Trk s (if cnd (transition ρ FUEL j ev s) = true then decrementLimit ρ j (transition ρ FUEL j ev s).1
           else (transition ρ FUEL j ev s).1) := by
  split
  · exact (trk_transition ρ FUEL j ev s).trans (trk_decrement ρ j _)
  · exact trk_transition ρ FUEL j ev s

theorem trk_fold {α : Type} (F : Fw σ → α → Fw σ) (hF : ∀ s j, Trk s (F s j)) (l : List α) (s : Fw σ) :
    Trk s (l.foldl F s) := by
  induction l generalizing s with
  | nil => exact Trk.refl s
  | cons j t ih => exact (hF s j).trans (ih _)

theorem trk_setG (s : Fw σ) (g' : Globals) : Trk s { s with g := g' } := (Qt.same rfl rfl).trk

theorem trk_processEvent (e : TEvent) (s : Fw σ) : Trk s (processEvent ρ e s) := by
  cases e with
  | normalRecv => exact trk_fold _ (fun a j => trk_transition ρ FUEL j _ a) _ s
  | paddingRecv => exact trk_fold _ (fun a j => trk_transition ρ FUEL j _ a) _ s
  | tunnelRecv => exact trk_fold _ (fun a j => trk_transition ρ FUEL j _ a) _ s
  | tunnelSent => exact trk_fold _ (fun a j => trk_transition ρ FUEL j _ a) _ s
  | normalSent =>
    simp only [processEvent]
    refine (trk_setG s { s.g with normalSent := s.g.normalSent + 1 }).trans (trk_fold _ (fun a j => ?_) _ _)
    exact (Qt.modRt a j _).trk.trans (trk_transition ρ FUEL j _ _)
  | paddingSent x =>
    simp only [processEvent]
    refine (trk_setG s { s.g with paddingSent := s.g.paddingSent + 1 }).trans ?_
    split
    · exact Trk.refl _
    · exact (Qt.modRt _ x _).trk.trans (trk_transDec ρ x .paddingSent _ (fun p => !p.2 && notEnded p.1 x))
  | blockingBegin x =>
    simp only [processEvent]
    have h1 : Trk s (if !s.g.blockingActive then
        { s with g := { s.g with blockingActive := true, blockingStarted := s.g.now } } else s) := by
      split
      · exact trk_setG s _
      · exact Trk.refl s
    refine h1.trans (trk_fold _ (fun a j => ?_) _ _)
    exact trk_transDec ρ j .blockingBegin a (fun p => !p.2 && notEnded p.1 j && j == x)
  | blockingEnd =>
    simp only [processEvent]
    generalize (if s.g.blockingActive then durSince s.g.now s.g.blockingStarted else 0) = blocked
    have h1 : Trk s (if s.g.blockingActive then
        { (if s.g.blockingDur + blocked > durMax then s.withFault .durOverflow else s) with
          g := { (if s.g.blockingDur + blocked > durMax then s.withFault .durOverflow else s).g with
            blockingDur := (if s.g.blockingDur + blocked > durMax then s.withFault .durOverflow else s).g.blockingDur + blocked,
            blockingActive := false } }
        else s) := by
      split
      · refine Trk.trans (t := (if s.g.blockingDur + blocked > durMax then s.withFault .durOverflow else s)) ?_ (trk_setG _ _)
        split
        · exact (Qt.withFault _ _).trk
        · exact Trk.refl s
      · exact Trk.refl s
    refine h1.trans (trk_fold _ (fun a j => ?_) _ _)
    refine Trk.trans (t := (if blocked ≠ 0 then
          match a.rt[j]? with
          | none => a.withFault .oob
          | some r =>
            (if r.acct.blockingDur + blocked > durMax then a.withFault .durOverflow else a).modRt j
              (fun r => { r with acct := { r.acct with blockingDur := r.acct.blockingDur + blocked } })
        else a)) ?_ (trk_transition ρ FUEL j _ _)
    split
    · split
      · exact (Qt.withFault _ _).trk
      · refine Trk.trans (t := (if _ then a.withFault .durOverflow else a)) ?_ (Qt.modRt _ j _).trk
        split
        · exact (Qt.withFault _ _).trk
        · exact Trk.refl a
    · exact Trk.refl a
  | timerBegin x =>
    simp only [processEvent]
    split
    · exact Trk.refl _
    · exact trk_transDec ρ x .timerBegin _ (fun p => !p.2 && notEnded p.1 x)
  | timerEnd x =>
    simp only [processEvent]
    split
    · exact Trk.refl _
    · exact trk_transition ρ FUEL x _ _

end Mb

namespace Mb.C09
open Mb
variable {σ : Type} (ρ : Oracle σ)

/-- the slot after the reported events of a call is the slot at the start of the call stepped by
    the signalling transitions the call's log segment records -/
theorem slot_tracks_log (es : List TEvent) (t : Int) (s : Fw σ) :
    ∃ l, (eventsDone ρ es t s).log = l ++ s.log ∧
      (eventsDone ρ es t s).signalPending = (signalsIn l).foldl sigStep s.signalPending := by
  unfold eventsDone
  have h0 : Trk s (s.callStart t) := (Qt.same rfl rfl).trk
  exact h0.trans (trk_fold _ (fun a e => trk_processEvent ρ e a) _ _)

/-- the slot after the first delivery round is the fold over the signalling transitions recorded
    during the round, starting from the empty slot -/
theorem afterFirst_tracks_log (s : Fw σ) (excluded : Option Nat) :
    ∃ l, (afterFirst ρ s excluded).log = l ++ s.log ∧
      (afterFirst ρ s excluded).signalPending = (signalsIn l).foldl sigStep none := by
  unfold afterFirst
  exact trk_fold (fun s mi => (transition ρ FUEL mi .signal s).1) (fun a j => trk_transition ρ FUEL j .signal a) _
    ({ s with signalPending := none } : Fw σ)

theorem sigStep_isSome (p : Option SignalTarget) (mi : Nat) : (sigStep p mi).isSome = true := by
  unfold sigStep
  cases p with
  | none => rfl
  | some q =>
    cases q with
    | all => rfl
    | allExcept o => simp only []; split <;> rfl

theorem sigStep_fold_isSome (ids : List Nat) (p : Option SignalTarget) :
    (ids.foldl sigStep p).isSome = (p.isSome || !ids.isEmpty) := by
  induction ids generalizing p with
  | nil => simp
  | cons i ids ih => rw [List.foldl_cons, ih, sigStep_isSome]; simp

/-- the first delivery round leaves a signal pending iff its log segment records a transition to the
    signal pseudo-state (a machine answered a delivered Signal by signalling) -/
theorem afterFirst_answered (s : Fw σ) (excluded : Option Nat) :
    ∃ l, (afterFirst ρ s excluded).log = l ++ s.log ∧
      ((afterFirst ρ s excluded).signalPending.isSome = true ↔ signalsIn l ≠ []) := by
  obtain ⟨l, e, p⟩ := afterFirst_tracks_log ρ s excluded
  refine ⟨l, e, ?_⟩
  rw [p, sigStep_fold_isSome]
  cases signalsIn l <;> simp

/-- the slot as a function of the list of signalling machines: empty iff nobody signalled;
    `allExcept x` iff somebody signalled and all signals came from `x`; `all` iff two distinct
    machines signalled -/
theorem lone_or_many (ids : List Nat) :
    (ids.foldl sigStep none = none ↔ ids = []) ∧
    (∀ x, ids.foldl sigStep none = some (.allExcept x) ↔ ids ≠ [] ∧ ∀ i ∈ ids, i = x) ∧
    (ids.foldl sigStep none = some .all ↔ ∃ a ∈ ids, ∃ b ∈ ids, a ≠ b) := by
  cases ids with
  | nil => simp
  | cons y r =>
    rw [sr_first]
    by_cases hall : r.all (· == y) = true
    · rw [if_pos hall]
      have hall' : ∀ i ∈ r, i = y := by
        intro i hi
        have := List.all_eq_true.mp hall i hi
        simpa using this
      refine ⟨by simp, fun x => ⟨fun h => ?_, fun h => ?_⟩, ⟨fun h => (by cases h), fun h => ?_⟩⟩
      · have hx : y = x := by injection h with h; injection h
        subst hx
        refine ⟨by simp, fun i hi => ?_⟩
        rcases List.mem_cons.mp hi with h' | h'
        · exact h'
        · exact hall' i h'
      · have : y = x := h.2 y (by simp)
        rw [this]
      · exfalso
        obtain ⟨a, ha, b, hb, hab⟩ := h
        have ea : a = y := by
          rcases List.mem_cons.mp ha with h' | h'
          · exact h'
          · exact hall' a h'
        have eb : b = y := by
          rcases List.mem_cons.mp hb with h' | h'
          · exact h'
          · exact hall' b h'
        exact hab (ea.trans eb.symm)
    · rw [if_neg hall]
      have hex : ∃ i ∈ r, i ≠ y := by
        by_contra hno
        apply hall
        rw [List.all_eq_true]
        intro i hi
        have : i = y := by
          by_contra hne
          exact hno ⟨i, hi, hne⟩
        simpa using this
      obtain ⟨i, hi, hiy⟩ := hex
      refine ⟨by simp, fun x => ⟨fun h => (by cases h), fun h => ?_⟩, ⟨fun _ => ?_, fun _ => rfl⟩⟩
      · exfalso
        have e1 : i = x := h.2 i (by simp [hi])
        have e2 : y = x := h.2 y (by simp)
        exact hiy (e1.trans e2.symm)
      · exact ⟨i, by simp [hi], y, by simp, hiy⟩

theorem sigStep_fold_from (ids0 ids : List Nat) :
    ids.foldl sigStep (ids0.foldl sigStep none) = (ids0 ++ ids).foldl sigStep none := by
  rw [List.foldl_append]

end Mb.C09
