/-
  Totality of the simulator with machines, part 2: the time-bound invariant of the main loop and
  its preservation by `pick_next`.

  The invariant bounds every pending time relative to the clock (`SlotI`, `qpred`), the age of
  every blocked TunnelSent (`now ≤ e.time + A`), every pending aggregate delay (`≤ D`) and the
  total aggregate delay of a side (`≤ J`).  All bounds are abstract numbers here; the main
  theorem instantiates them with multiples of the 24 h cap on sampled timeouts / durations.
-/
import MbVerif.Proofs.SimNoFaultQ

namespace Mb.Sim
open Mb

/-! ### the constants -/

namespace TB
/-- the cap on a sampled timeout, in ns -/
def TO : Nat := Gen.MAX_SAMPLED_TIMEOUT * 1000
/-- the cap on a sampled internal-timer duration, in ns -/
def TD : Nat := Gen.MAX_SAMPLED_TIMER_DURATION * 1000
/-- the cap on a sampled blocking duration, in ns -/
def BD : Nat := Gen.MAX_SAMPLED_BLOCK_DURATION * 1000
/-- a blocking expires at most this long after it was scheduled -/
def W : Nat := TO + BD
/-- the largest multiple of the network delay `push_aggregate_delay` computes -/
def aggK : Nat := max (max Gen.SIM_AGG_CLIENTEXP_CLIENT Gen.SIM_AGG_CLIENTEXP_SERVER)
  (max Gen.SIM_AGG_SERVEREXP_CLIENT Gen.SIM_AGG_SERVEREXP_SERVER)
end TB

/-- the numbers the invariant is stated with -/
structure TPar where
  /-- network delay -/
  d : Nat
  /-- every base (trace) time is at most this -/
  Tm : Int
  /-- the start of the simulation -/
  t0 : Int
  /-- bound on the extra delay per packet over the limit -/
  pw : Nat
  /-- bound on the delay the packets-per-second bottleneck adds to one packet -/
  P : Nat
  /-- bound on one pending aggregate delay -/
  D : Nat
  /-- bound on the total aggregate delay of a side -/
  JM : Nat

/-- queued internal events are at most this far after the clock -/
def TPar.S (π : TPar) : Nat := TB.TO + TB.TD + π.d + π.P

/-- what the checked duration arithmetic of the network needs -/
structure TPar.OK (π : TPar) : Prop where
  jm : π.JM ≤ durMax
  kd : TB.aggK * π.d ≤ durMax
  pd : π.P + π.d ≤ durMax

/-- the time bound of a queued event, by heap: base events are trace times, internal events are
    at most `S` after the clock, a queued TunnelSent is due and at most `A` old -/
def qpred (π : TPar) (A : Nat) (now : Int) (_c : Bool) (qi : Queue) (e : SimEvent) : Prop :=
  match qi with
  | .base => e.time ≤ π.Tm
  | .internal => e.time ≤ now + π.S
  | .blocking => e.time ≤ now ∧ now ≤ e.time + A
  | .bypassable => e.time ≤ now ∧ now ≤ e.time + A

/-- a scheduled action is a padding or a blocking with a capped duration -/
def actBound : TAction → Prop
  | .sendPadding _ _ _ _ => True
  | .blockOutgoing _ du _ _ _ => du ≤ Gen.MAX_SAMPLED_BLOCK_DURATION
  | _ => False

section
variable {σ : Type}

/-- time bounds of one side's slots -/
structure SlotI (now : Int) (sd : Side σ) : Prop where
  acts : ∀ a, some a ∈ sd.schedAction → a.time ≤ now + TB.TO ∧ actBound a.action
  tims : ∀ t, some t ∈ sd.schedTimer → t ≤ now + TB.TD
  untl : ∀ u, sd.blockingUntil = some u → u ≤ now + TB.W

/-- the bottleneck: window sizes, aggregate delays -/
structure NetI (π : TPar) (kw J : Nat) (net : Bottleneck) : Prop where
  delay : net.network.delay = π.d
  ppsA : net.ppsAddedDelay ≤ π.pw
  winC : net.clientWindow.stamps.length ≤ kw
  winS : net.serverWindow.stamps.length ≤ kw
  aggC : net.clientAgg + π.D * net.aggQueue.data.countP (fun p => p.client) ≤ J
  aggS : net.serverAgg + π.D * net.aggQueue.data.countP (fun p => !p.client) ≤ J
  dl : ∀ p ∈ net.aggQueue.data, p.delay ≤ π.D

/-- the invariant of the pick phase -/
structure PI (π : TPar) (A : Nat) (Hn : Int) (kw J : Nat) (st : St σ) : Prop where
  t0le : π.t0 ≤ st.now
  nowle : st.now ≤ Hn
  wf : st.sq.WF
  ord : st.sq.Ord
  q : st.sq.AllQ (qpred π A st.now)
  sides : ∀ c, SlotI st.now (st.side c)
  net : NetI π kw J st.net

end

/-! ### the bottleneck's aggregate delays -/

theorem NetI.ghost {π : TPar} {kw J : Nat} {b : Bottleneck} (h : NetI π kw J b) (g : Ghost) :
    NetI π kw J { b with ghost := g } :=
  ⟨h.delay, h.ppsA, h.winC, h.winS, h.aggC, h.aggS, h.dl⟩

theorem NetI.mono {π : TPar} {kw J J' : Nat} {b : Bottleneck} (h : NetI π kw J b) (hJ : J ≤ J') :
    NetI π kw J' b :=
  ⟨h.delay, h.ppsA, h.winC, h.winS, Nat.le_trans h.aggC hJ, Nat.le_trans h.aggS hJ, h.dl⟩

theorem durChk_of_le {n : Nat} (h : n ≤ durMax) : durChk n = .ok n := by
  unfold durChk
  simp [Nat.not_lt.2 h]

/-- `pop_aggregate_delay` does not overflow and keeps the invariant -/
theorem popAggregateDelay_ti {π : TPar} {kw J : Nat} {b : Bottleneck} (h : NetI π kw J b) (hJ : J ≤ durMax) :
    ∃ b', b.popAggregateDelay = .ok b' ∧ NetI π kw J b' := by
  unfold Bottleneck.popAggregateDelay
  cases hp : Heap.pop PendingAgg.le b.aggQueue with
  | none => exact ⟨b, rfl, h⟩
  | some pr =>
    obtain ⟨a, q⟩ := pr
    simp only []
    have hc1 := heap_pop_countP (fun p : PendingAgg => p.client) PendingAgg.le hp
    have hc2 := heap_pop_countP (fun p : PendingAgg => !p.client) PendingAgg.le hp
    have ha : a ∈ b.aggQueue.data := Heap.peek_mem hc1.2
    have had := h.dl a ha
    have hsub := heap_pop_mem hp
    have hC := h.aggC
    have hS := h.aggS
    rw [hc1.1] at hC
    rw [hc2.1] at hS
    cases hac : a.client with
    | true =>
      simp only [hac, b2n, if_true, Bool.not_true, Bool.false_eq_true, if_false, Nat.mul_add, Nat.mul_one,
        Nat.add_zero] at hC hS ⊢
      have hle : b.clientAgg + a.delay ≤ durMax := by omega
      rw [durChk_of_le hle]
      refine ⟨_, rfl, ⟨h.delay, h.ppsA, h.winC, h.winS, ?_, ?_, fun p hp' => h.dl p (hsub p hp')⟩⟩
      · show b.clientAgg + a.delay + π.D * q.data.countP (fun p => p.client) ≤ J
        omega
      · exact hS
    | false =>
      simp only [hac, b2n, if_true, Bool.not_false, Bool.false_eq_true, if_false, Nat.mul_add, Nat.mul_one,
        Nat.add_zero] at hC hS ⊢
      have hle : b.serverAgg + a.delay ≤ durMax := by omega
      rw [durChk_of_le hle]
      refine ⟨_, rfl, ⟨h.delay, h.ppsA, h.winC, h.winS, ?_, ?_, fun p hp' => h.dl p (hsub p hp')⟩⟩
      · exact hC
      · show b.serverAgg + a.delay + π.D * q.data.countP (fun p => !p.client) ≤ J
        omega

theorem aggK_client_le (c : Bool) :
    (if c then Gen.SIM_AGG_CLIENTEXP_CLIENT else Gen.SIM_AGG_SERVEREXP_CLIENT) ≤ TB.aggK := by
  cases c <;> decide

theorem aggK_server_le (c : Bool) :
    (if c then Gen.SIM_AGG_CLIENTEXP_SERVER else Gen.SIM_AGG_SERVEREXP_SERVER) ≤ TB.aggK := by
  cases c <;> decide

/-- `push_aggregate_delay` of a bounded delay does not overflow and uses one unit of the budget -/
theorem pushAggregateDelay_ti {π : TPar} {kw J : Nat} {b : Bottleneck} (h : NetI π kw J b) (hok : π.OK)
    {bd : Nat} (hbd : bd ≤ π.D) (now : Int) (c : Bool) :
    ∃ b', b.pushAggregateDelay bd now c = .ok b' ∧ NetI π kw (J + π.D) b' := by
  unfold Bottleneck.pushAggregateDelay
  have h1 : (if c then Gen.SIM_AGG_CLIENTEXP_CLIENT else Gen.SIM_AGG_SERVEREXP_CLIENT) * b.network.delay ≤ durMax := by
    rw [h.delay]
    exact Nat.le_trans (Nat.mul_le_mul_right _ (aggK_client_le c)) hok.kd
  have h2 : (if c then Gen.SIM_AGG_CLIENTEXP_SERVER else Gen.SIM_AGG_SERVEREXP_SERVER) * b.network.delay ≤ durMax := by
    rw [h.delay]
    exact Nat.le_trans (Nat.mul_le_mul_right _ (aggK_server_le c)) hok.kd
  simp only [durChk_of_le h1, durChk_of_le h2, bind, Except.bind, pure, Except.pure]
  refine ⟨_, rfl, ⟨h.delay, h.ppsA, h.winC, h.winS, ?_, ?_, ?_⟩⟩
  · simp only [heap_push_countP, b2n, if_true, Bool.false_eq_true, if_false, Nat.add_zero, Nat.mul_add, Nat.mul_one]
    have := h.aggC
    omega
  · simp only [heap_push_countP, b2n, Bool.not_true, Bool.not_false, if_true, Bool.false_eq_true, if_false,
      Nat.add_zero, Nat.mul_add, Nat.mul_one]
    have := h.aggS
    omega
  · intro p hp
    rcases heap_push_mem hp with hp | hp
    · rcases heap_push_mem hp with hp | hp
      · exact h.dl p hp
      · subst hp; exact hbd
    · subst hp; exact hbd


/-! ### `peek_queue` and the decision never fault -/

section
variable {σ : Type}

theorem peekQueue_ok (st : St σ) (e : Nat) : ∃ r, peekQueue st e = .ok r := by
  unfold peekQueue
  by_cases h0 : st.sq.isEmpty = true
  · simp [h0]
  · have hl : st.sq.len ≠ 0 := by
      unfold SimQueue.isEmpty at h0
      simpa using h0
    obtain ⟨ev, qi, d, hp⟩ := SimQueue.peek_some st.sq st.net.clientAgg st.net.serverAgg st.now hl
    simp only [h0, Bool.false_eq_true, if_false, hp, bind, Except.bind, pure, Except.pure]
    repeat (first | exact ⟨_, rfl⟩ | split)

theorem pickDecide_ok (st : St σ) : ∃ p, pickDecide st = .ok p := by
  unfold pickDecide
  simp only []
  obtain ⟨⟨q, qid, qc⟩, hq⟩ := peekQueue_ok st
    (min (min (min (peekScheduledAction st.client.schedAction st.server.schedAction st.now)
      (peekScheduledInternalTimer st.client.schedTimer st.server.schedTimer st.now))
      (peekBlockedExp st.client.blockingUntil st.server.blockingUntil st.now).1)
      (st.net.peekAggregateDelay st.now))
  rw [hq]
  simp only [bind, Except.bind, pure, Except.pure]
  repeat (first | exact ⟨_, rfl⟩ | split)

/-- every served offset is at most the blocking-expiry offset -/
theorem pickDecide_offset_le_block {st : St σ} {p : Pick} {o : Nat} (h : pickDecide st = .ok p)
    (ho : p.offset = some o) :
    o ≤ (peekBlockedExp st.client.blockingUntil st.server.blockingUntil st.now).1 := by
  unfold pickDecide at h
  simp only [] at h
  rw [bind_ok_iff] at h
  obtain ⟨⟨q, qid, qc⟩, _, h2⟩ := h
  simp only [pure, Except.pure] at h2
  split at h2
  · cases h2; simp [Pick.offset] at ho
  · split at h2
    · cases h2; simp [Pick.offset] at ho
    · split at h2
      · cases h2
        simp only [Pick.offset, Option.some.injEq] at ho
        subst ho
        exact Nat.le_refl _
      · rename_i hnb
        simp only [Bool.and_eq_true, decide_eq_true_eq, not_and] at hnb
        split at h2
        · rename_i hq
          cases h2
          simp only [Pick.offset, Option.some.injEq] at ho
          simp only [Bool.and_eq_true, decide_eq_true_eq] at hq
          by_cases hle : (peekBlockedExp st.client.blockingUntil st.server.blockingUntil st.now).1 ≤ o
          · exact absurd (hnb ⟨by omega, by omega⟩ (by omega)) id
          · omega
        · rename_i hnq
          simp only [Bool.and_eq_true, decide_eq_true_eq, not_and] at hnq
          split at h2
          · rename_i hi
            cases h2
            simp only [Pick.offset, Option.some.injEq] at ho
            by_cases hle : (peekBlockedExp st.client.blockingUntil st.server.blockingUntil st.now).1 ≤ o
            · exfalso
              by_cases hbq : (peekBlockedExp st.client.blockingUntil st.server.blockingUntil st.now).1 ≤ q
              · exact hnb ⟨by omega, by omega⟩ hbq
              · exact hnq (by omega) (by omega)
            · omega
          · rename_i hi
            cases h2
            simp only [Pick.offset, Option.some.injEq] at ho
            by_cases hle : (peekBlockedExp st.client.blockingUntil st.server.blockingUntil st.now).1 ≤ o
            · exfalso
              by_cases hbq : (peekBlockedExp st.client.blockingUntil st.server.blockingUntil st.now).1 ≤ q
              · exact hnb ⟨by omega, by omega⟩ hbq
              · exact hnq (by omega) (by omega)
            · omega

theorem dsince_le_of_le {u now : Int} {w : Nat} (h : u ≤ now + w) : dsince u now ≤ w := by
  unfold dsince durSince
  have : (u - now).toNat ≤ w := by omega
  omega

theorem dsince_add_le {x now M : Int} (hx : x ≤ M) (hn : now ≤ M) : now + (dsince x now : Int) ≤ M := by
  unfold dsince durSince
  have h1 : (min (x - now).toNat durMax : Nat) ≤ (x - now).toNat := Nat.min_le_left _ _
  omega

end


/-! ### facts about the decision -/

section
variable {σ : Type}

/-- the frameworks and the slot counts are the same in both states -/
def SameFw (st st' : St σ) : Prop :=
  ∀ c, (st'.side c).fw = (st.side c).fw ∧
    (st'.side c).schedAction.length = (st.side c).schedAction.length ∧
    (st'.side c).schedTimer.length = (st.side c).schedTimer.length

theorem SameFw.refl (st : St σ) : SameFw st st := fun _ => ⟨rfl, rfl, rfl⟩

theorem SameFw.trans {a b c : St σ} (h1 : SameFw a b) (h2 : SameFw b c) : SameFw a c := fun x =>
  ⟨(h2 x).1.trans (h1 x).1, (h2 x).2.1.trans (h1 x).2.1, (h2 x).2.2.trans (h1 x).2.2⟩

theorem peekAggregateDelay_le (b : Bottleneck) (now : Int) : b.peekAggregateDelay now ≤ durMax := by
  unfold Bottleneck.peekAggregateDelay
  split
  · exact dsince_le' _ _
  · exact Nat.le_refl _

/-- the blocking-expiry branch is only taken for a real expiry -/
theorem pickDecide_blockExp_lt {st : St σ} {b : Nat} {c : Bool} (h : pickDecide st = .ok (.blockExp b c)) :
    b < durMax := by
  have hpk := pickDecide_blockExp h
  unfold pickDecide at h
  simp only [] at h
  rw [bind_ok_iff] at h
  obtain ⟨⟨q, qid, qc⟩, hq, h2⟩ := h
  have hq' := peekQueue_le hq
  have hs : peekScheduledAction st.client.schedAction st.server.schedAction st.now ≤ durMax := by
    rw [peekScheduledAction_eq]
    exact Nat.le_trans (foldl_peekStep_le_init _ _ _) (foldl_peekStep_le_init _ _ _)
  have hi : peekScheduledInternalTimer st.client.schedTimer st.server.schedTimer st.now ≤ durMax := by
    have : peekScheduledInternalTimer st.client.schedTimer st.server.schedTimer st.now =
      st.server.schedTimer.foldl (peekStepT st.now) (st.client.schedTimer.foldl (peekStepT st.now) durMax) := rfl
    rw [this]
    exact Nat.le_trans (foldl_peekStepT_le_init _ _ _) (foldl_peekStepT_le_init _ _ _)
  have hn := peekAggregateDelay_le st.net st.now
  have hbe : (peekBlockedExp st.client.blockingUntil st.server.blockingUntil st.now).1 = b := by rw [hpk]
  have hb := peekBlockedExp_le st.client.blockingUntil st.server.blockingUntil st.now
  simp only [pure, Except.pure] at h2
  split at h2
  · cases h2
  · split at h2
    · cases h2
    · rename_i hnagg
      split at h2
      · rename_i hbb
        simp only [Bool.and_eq_true, decide_eq_true_eq] at hnagg hbb
        by_cases hlt : b < durMax
        · exact hlt
        · exfalso
          apply hnagg
          refine ⟨⟨⟨?_, ?_⟩, ?_⟩, ?_⟩ <;> omega
      · split at h2
        · cases h2
        · split at h2 <;> cases h2

/-- the queue branch is only taken for a real offset -/
theorem pickDecide_queue_lt {st : St σ} {q : Nat} {qid : Queue} {c : Bool} (h : pickDecide st = .ok (.queue q qid c)) :
    q < durMax := by
  have h1 := (pickDecide_queue h).2
  have h2 := peekBlockedExp_le st.client.blockingUntil st.server.blockingUntil st.now
  omega

/-- without any blocking `peek_queue` reports what `SimQueue::peek` selects (or "later than the
    other candidates") -/
theorem peekQueue_noblock {st : St σ} {e q : Nat} {qid : Queue} {c : Bool}
    (hc : st.client.blockingUntil = none) (hs : st.server.blockingUntil = none)
    (h : peekQueue st e = .ok (q, qid, c)) :
    q = durMax ∨ ∃ pk, st.sq.peek st.net.clientAgg st.net.serverAgg st.now = .ok (some pk, qid, q) := by
  unfold peekQueue at h
  by_cases h0 : st.sq.isEmpty = true
  · simp only [h0, if_true, Except.ok.injEq, Prod.mk.injEq] at h
    exact Or.inl h.1.symm
  · simp only [h0, Bool.false_eq_true, if_false] at h
    rw [bind_ok_iff] at h
    obtain ⟨⟨pk, qu, dur⟩, h1, h2⟩ := h
    cases pk with
    | none => simp at h2
    | some peek =>
      simp only [pure, Except.pure] at h2
      split at h2
      · simp only [Except.ok.injEq, Prod.mk.injEq] at h2
        exact Or.inl h2.1.symm
      · split at h2
        · cases h2; exact Or.inr ⟨peek, h1⟩
        · simp only [hc, hs, Option.isSome_none, Bool.not_false, Bool.and_self, if_true] at h2
          cases h2; exact Or.inr ⟨peek, h1⟩

/-- a real offset reported by `peek_queue` names a non-empty heap -/
theorem peekQueue_heap {st : St σ} {e q : Nat} {qid : Queue} {c : Bool} (hw : st.sq.WF)
    (h : peekQueue st e = .ok (q, qid, c)) (hq : q < durMax) :
    ∃ hd, ((st.sq.side c).heap qid).peek = some hd := by
  unfold peekQueue at h
  by_cases h0 : st.sq.isEmpty = true
  · simp only [h0, if_true, Except.ok.injEq, Prod.mk.injEq] at h
    omega
  · simp only [h0, Bool.false_eq_true, if_false] at h
    rw [bind_ok_iff] at h
    obtain ⟨⟨pk, qu, dur⟩, h1, h2⟩ := h
    cases pk with
    | none => simp at h2
    | some peek =>
      have hph := SimQueue.peek_heap hw h1
      simp only [pure, Except.pure] at h2
      split at h2
      · simp only [Except.ok.injEq, Prod.mk.injEq] at h2; omega
      · split at h2
        · cases h2; exact ⟨_, hph⟩
        · split at h2
          · cases h2; exact ⟨_, hph⟩
          · split at h2
            · cases h2; exact ⟨_, hph⟩
            · split at h2
              · cases h2; exact ⟨_, hph⟩
              · split at h2
                · simp only [Except.ok.injEq] at h2
                  have hdur := peekQueueEarliestSide_dur st.sq st.client.blockingUntil st.client.blockingBypassable
                    st.now st.net.clientAgg true
                  have hsp := (peekQueueEarliestSide_spec st.sq st.client.blockingUntil st.client.blockingBypassable
                    st.now st.net.clientAgg true).1
                  rw [h2] at hdur hsp
                  simp only [] at hdur hsp
                  rcases hdur with hdur | ⟨hd, hhd, _⟩
                  · omega
                  · rw [hsp]; exact ⟨hd, hhd⟩
                · simp only [Except.ok.injEq] at h2
                  have hdur := peekQueueEarliestSide_dur st.sq st.server.blockingUntil st.server.blockingBypassable
                    st.now st.net.serverAgg false
                  have hsp := (peekQueueEarliestSide_spec st.sq st.server.blockingUntil st.server.blockingBypassable
                    st.now st.net.serverAgg false).1
                  rw [h2] at hdur hsp
                  simp only [] at hdur hsp
                  rcases hdur with hdur | ⟨hd, hhd, _⟩
                  · omega
                  · rw [hsp]; exact ⟨hd, hhd⟩

/-- the aggregate-delay branch: no overflow, the invariant is kept, nothing else changes -/
theorem pickAgg_ti {π : TPar} {A : Nat} {Hn : Int} {kw J : Nat} {st : St σ} (h : PI π A Hn kw J st)
    (hJ : J ≤ durMax) :
    (∀ f, pickAgg st = .error f → f.isBug = true) ∧
    (∀ st', pickAgg st = .ok st' → PI π A Hn kw J st' ∧ SameFw st st' ∧ st'.now = st.now ∧ st'.sq = st.sq) := by
  unfold pickAgg
  by_cases hz : st.net.aggQueue.len = 0
  · simp only [hz, if_true]
    exact ⟨fun f hf => (by cases hf; rfl), fun st' hs => (by cases hs)⟩
  · simp only [hz, if_false]
    obtain ⟨b', hb', hn⟩ := popAggregateDelay_ti h.net hJ
    simp only [hb', bind, Except.bind, pure, Except.pure]
    refine ⟨fun f hf => (by cases hf), fun st' hs => ?_⟩
    cases hs
    exact ⟨⟨h.t0le, h.nowle, h.wf, h.ord, h.q, h.sides, hn⟩, SameFw.refl _, rfl, rfl⟩

end

end Mb.Sim
