/-
  Totality of the simulator with machines, part 2: the time-bound invariant of the main loop and
  its preservation by `pick_next`.

  The invariant bounds every pending time relative to the clock (`SlotI`, `qpred`), the age of
  every blocked TunnelSent (`now ≤ e.time + A`), every pending aggregate delay (`≤ D`) and the
  total aggregate delay of a side (`≤ J`).  All bounds are abstract numbers here; the main
  theorem instantiates them with multiples of the 24 h cap on sampled timeouts / durations.
-/
import MbVerif.Proofs.SimNoFaultQ

namespace Mb.Sim
open Mb

/-! ### the constants -/

namespace TB
/-- the cap on a sampled timeout, in ns -/
def TO : Nat := Gen.MAX_SAMPLED_TIMEOUT * 1000
/-- the cap on a sampled internal-timer duration, in ns -/
def TD : Nat := Gen.MAX_SAMPLED_TIMER_DURATION * 1000
/-- the cap on a sampled blocking duration, in ns -/
def BD : Nat := Gen.MAX_SAMPLED_BLOCK_DURATION * 1000
/-- a blocking expires at most this long after it was scheduled -/
def W : Nat := TO + BD
/-- the largest multiple of the network delay `push_aggregate_delay` computes -/
def aggK : Nat := max (max Gen.SIM_AGG_CLIENTEXP_CLIENT Gen.SIM_AGG_CLIENTEXP_SERVER)
  (max Gen.SIM_AGG_SERVEREXP_CLIENT Gen.SIM_AGG_SERVEREXP_SERVER)
end TB

/-- the numbers the invariant is stated with -/
structure TPar where
  /-- network delay -/
  d : Nat
  /-- every base (trace) time is at most this -/
  Tm : Int
  /-- the start of the simulation -/
  t0 : Int
  /-- bound on the extra delay per packet over the limit -/
  pw : Nat
  /-- bound on the delay the packets-per-second bottleneck adds to one packet -/
  P : Nat
  /-- bound on one pending aggregate delay -/
  D : Nat
  /-- bound on the total aggregate delay of a side -/
  JM : Nat

/-- queued internal events are at most this far after the clock -/
def TPar.S (π : TPar) : Nat := TB.TO + TB.TD + π.d + π.P

/-- what the checked duration arithmetic of the network needs -/
structure TPar.OK (π : TPar) : Prop where
  jm : π.JM ≤ durMax
  kd : TB.aggK * π.d ≤ durMax
  pd : π.P + π.d ≤ durMax

/-- the time bound of a queued event, by heap: base events are trace times, internal events are
    at most `S` after the clock, a queued TunnelSent is due and at most `A` old -/
def qpred (π : TPar) (A : Nat) (now : Int) (_c : Bool) (qi : Queue) (e : SimEvent) : Prop :=
  match qi with
  | .base => e.time ≤ π.Tm
  | .internal => e.time ≤ now + π.S
  | .blocking => e.time ≤ now ∧ now ≤ e.time + A
  | .bypassable => e.time ≤ now ∧ now ≤ e.time + A

/-- a scheduled action is a padding or a blocking with a capped duration -/
def actBound : TAction → Prop
  | .sendPadding _ _ _ _ => True
  | .blockOutgoing _ du _ _ _ => du ≤ Gen.MAX_SAMPLED_BLOCK_DURATION
  | _ => False

section
variable {σ : Type}

/-- time bounds of one side's slots -/
structure SlotI (now : Int) (sd : Side σ) : Prop where
  acts : ∀ a, some a ∈ sd.schedAction → a.time ≤ now + TB.TO ∧ actBound a.action
  tims : ∀ t, some t ∈ sd.schedTimer → t ≤ now + TB.TD
  untl : ∀ u, sd.blockingUntil = some u → u ≤ now + TB.W

/-- the bottleneck: window sizes, aggregate delays -/
structure NetI (π : TPar) (kw J : Nat) (net : Bottleneck) : Prop where
  delay : net.network.delay = π.d
  ppsA : net.ppsAddedDelay ≤ π.pw
  winC : net.clientWindow.stamps.length ≤ kw
  winS : net.serverWindow.stamps.length ≤ kw
  aggC : net.clientAgg + π.D * net.aggQueue.data.countP (fun p => p.client) ≤ J
  aggS : net.serverAgg + π.D * net.aggQueue.data.countP (fun p => !p.client) ≤ J
  dl : ∀ p ∈ net.aggQueue.data, p.delay ≤ π.D

/-- the invariant of the pick phase -/
structure PI (π : TPar) (A : Nat) (Hn : Int) (kw J : Nat) (st : St σ) : Prop where
  t0le : π.t0 ≤ st.now
  nowle : st.now ≤ Hn
  wf : st.sq.WF
  ord : st.sq.Ord
  q : st.sq.AllQ (qpred π A st.now)
  sides : ∀ c, SlotI st.now (st.side c)
  net : NetI π kw J st.net

end

/-! ### the bottleneck's aggregate delays -/

theorem NetI.ghost {π : TPar} {kw J : Nat} {b : Bottleneck} (h : NetI π kw J b) (g : Ghost) :
    NetI π kw J { b with ghost := g } :=
  ⟨h.delay, h.ppsA, h.winC, h.winS, h.aggC, h.aggS, h.dl⟩

theorem NetI.mono {π : TPar} {kw J J' : Nat} {b : Bottleneck} (h : NetI π kw J b) (hJ : J ≤ J') :
    NetI π kw J' b :=
  ⟨h.delay, h.ppsA, h.winC, h.winS, Nat.le_trans h.aggC hJ, Nat.le_trans h.aggS hJ, h.dl⟩

theorem durChk_of_le {n : Nat} (h : n ≤ durMax) : durChk n = .ok n := by
  unfold durChk
  simp [Nat.not_lt.2 h]

/-- `pop_aggregate_delay` does not overflow and keeps the invariant -/
theorem popAggregateDelay_ti {π : TPar} {kw J : Nat} {b : Bottleneck} (h : NetI π kw J b) (hJ : J ≤ durMax) :
    ∃ b', b.popAggregateDelay = .ok b' ∧ NetI π kw J b' := by
  unfold Bottleneck.popAggregateDelay
  cases hp : Heap.pop PendingAgg.le b.aggQueue with
  | none => exact ⟨b, rfl, h⟩
  | some pr =>
    obtain ⟨a, q⟩ := pr
    simp only []
    have hc1 := heap_pop_countP (fun p : PendingAgg => p.client) PendingAgg.le hp
    have hc2 := heap_pop_countP (fun p : PendingAgg => !p.client) PendingAgg.le hp
    have ha : a ∈ b.aggQueue.data := Heap.peek_mem hc1.2
    have had := h.dl a ha
    have hsub := heap_pop_mem hp
    have hC := h.aggC
    have hS := h.aggS
    rw [hc1.1] at hC
    rw [hc2.1] at hS
    cases hac : a.client with
    | true =>
      simp only [hac, b2n, if_true, Bool.not_true, Bool.false_eq_true, if_false, Nat.mul_add, Nat.mul_one,
        Nat.add_zero] at hC hS ⊢
      have hle : b.clientAgg + a.delay ≤ durMax := by omega
      rw [durChk_of_le hle]
      refine ⟨_, rfl, ⟨h.delay, h.ppsA, h.winC, h.winS, ?_, ?_, fun p hp' => h.dl p (hsub p hp')⟩⟩
      · show b.clientAgg + a.delay + π.D * q.data.countP (fun p => p.client) ≤ J
        omega
      · exact hS
    | false =>
      simp only [hac, b2n, if_true, Bool.not_false, Bool.false_eq_true, if_false, Nat.mul_add, Nat.mul_one,
        Nat.add_zero] at hC hS ⊢
      have hle : b.serverAgg + a.delay ≤ durMax := by omega
      rw [durChk_of_le hle]
      refine ⟨_, rfl, ⟨h.delay, h.ppsA, h.winC, h.winS, ?_, ?_, fun p hp' => h.dl p (hsub p hp')⟩⟩
      · exact hC
      · show b.serverAgg + a.delay + π.D * q.data.countP (fun p => !p.client) ≤ J
        omega

theorem aggK_client_le (c : Bool) :
    (if c then Gen.SIM_AGG_CLIENTEXP_CLIENT else Gen.SIM_AGG_SERVEREXP_CLIENT) ≤ TB.aggK := by
  cases c <;> decide

theorem aggK_server_le (c : Bool) :
    (if c then Gen.SIM_AGG_CLIENTEXP_SERVER else Gen.SIM_AGG_SERVEREXP_SERVER) ≤ TB.aggK := by
  cases c <;> decide

/-- `push_aggregate_delay` of a bounded delay does not overflow and uses one unit of the budget -/
theorem pushAggregateDelay_ti {π : TPar} {kw J : Nat} {b : Bottleneck} (h : NetI π kw J b) (hok : π.OK)
    {bd : Nat} (hbd : bd ≤ π.D) (now : Int) (c : Bool) :
    ∃ b', b.pushAggregateDelay bd now c = .ok b' ∧ NetI π kw (J + π.D) b' := by
  unfold Bottleneck.pushAggregateDelay
  have h1 : (if c then Gen.SIM_AGG_CLIENTEXP_CLIENT else Gen.SIM_AGG_SERVEREXP_CLIENT) * b.network.delay ≤ durMax := by
    rw [h.delay]
    exact Nat.le_trans (Nat.mul_le_mul_right _ (aggK_client_le c)) hok.kd
  have h2 : (if c then Gen.SIM_AGG_CLIENTEXP_SERVER else Gen.SIM_AGG_SERVEREXP_SERVER) * b.network.delay ≤ durMax := by
    rw [h.delay]
    exact Nat.le_trans (Nat.mul_le_mul_right _ (aggK_server_le c)) hok.kd
  simp only [durChk_of_le h1, durChk_of_le h2, bind, Except.bind, pure, Except.pure]
  refine ⟨_, rfl, ⟨h.delay, h.ppsA, h.winC, h.winS, ?_, ?_, ?_⟩⟩
  · simp only [heap_push_countP, b2n, if_true, Bool.false_eq_true, if_false, Nat.add_zero, Nat.mul_add, Nat.mul_one]
    have := h.aggC
    omega
  · simp only [heap_push_countP, b2n, Bool.not_true, Bool.not_false, if_true, Bool.false_eq_true, if_false,
      Nat.add_zero, Nat.mul_add, Nat.mul_one]
    have := h.aggS
    omega
  · intro p hp
    rcases heap_push_mem hp with hp | hp
    · rcases heap_push_mem hp with hp | hp
      · exact h.dl p hp
      · subst hp; exact hbd
    · subst hp; exact hbd


/-! ### `peek_queue` and the decision never fault -/

section
variable {σ : Type}

theorem peekQueue_ok (st : St σ) (e : Nat) : ∃ r, peekQueue st e = .ok r := by
  unfold peekQueue
  by_cases h0 : st.sq.isEmpty = true
  · simp [h0]
  · have hl : st.sq.len ≠ 0 := by
      unfold SimQueue.isEmpty at h0
      simpa using h0
    obtain ⟨ev, qi, d, hp⟩ := SimQueue.peek_some st.sq st.net.clientAgg st.net.serverAgg st.now hl
    simp only [h0, Bool.false_eq_true, if_false, hp, bind, Except.bind, pure, Except.pure]
    repeat (first | exact ⟨_, rfl⟩ | split)

theorem pickDecide_ok (st : St σ) : ∃ p, pickDecide st = .ok p := by
  unfold pickDecide
  simp only []
  obtain ⟨⟨q, qid, qc⟩, hq⟩ := peekQueue_ok st
    (min (min (min (peekScheduledAction st.client.schedAction st.server.schedAction st.now)
      (peekScheduledInternalTimer st.client.schedTimer st.server.schedTimer st.now))
      (peekBlockedExp st.client.blockingUntil st.server.blockingUntil st.now).1)
      (st.net.peekAggregateDelay st.now))
  rw [hq]
  simp only [bind, Except.bind, pure, Except.pure]
  repeat (first | exact ⟨_, rfl⟩ | split)

/-- every served offset is at most the blocking-expiry offset -/
theorem pickDecide_offset_le_block {st : St σ} {p : Pick} {o : Nat} (h : pickDecide st = .ok p)
    (ho : p.offset = some o) :
    o ≤ (peekBlockedExp st.client.blockingUntil st.server.blockingUntil st.now).1 := by
  unfold pickDecide at h
  simp only [] at h
  rw [bind_ok_iff] at h
  obtain ⟨⟨q, qid, qc⟩, _, h2⟩ := h
  simp only [pure, Except.pure] at h2
  split at h2
  · cases h2; simp [Pick.offset] at ho
  · split at h2
    · cases h2; simp [Pick.offset] at ho
    · split at h2
      · cases h2
        simp only [Pick.offset, Option.some.injEq] at ho
        subst ho
        exact Nat.le_refl _
      · rename_i hnb
        simp only [Bool.and_eq_true, decide_eq_true_eq, not_and] at hnb
        split at h2
        · rename_i hq
          cases h2
          simp only [Pick.offset, Option.some.injEq] at ho
          simp only [Bool.and_eq_true, decide_eq_true_eq] at hq
          by_cases hle : (peekBlockedExp st.client.blockingUntil st.server.blockingUntil st.now).1 ≤ o
          · exact absurd (hnb ⟨by omega, by omega⟩ (by omega)) id
          · omega
        · rename_i hnq
          simp only [Bool.and_eq_true, decide_eq_true_eq, not_and] at hnq
          split at h2
          · rename_i hi
            cases h2
            simp only [Pick.offset, Option.some.injEq] at ho
            by_cases hle : (peekBlockedExp st.client.blockingUntil st.server.blockingUntil st.now).1 ≤ o
            · exfalso
              by_cases hbq : (peekBlockedExp st.client.blockingUntil st.server.blockingUntil st.now).1 ≤ q
              · exact hnb ⟨by omega, by omega⟩ hbq
              · exact hnq (by omega) (by omega)
            · omega
          · rename_i hi
            cases h2
            simp only [Pick.offset, Option.some.injEq] at ho
            by_cases hle : (peekBlockedExp st.client.blockingUntil st.server.blockingUntil st.now).1 ≤ o
            · exfalso
              by_cases hbq : (peekBlockedExp st.client.blockingUntil st.server.blockingUntil st.now).1 ≤ q
              · exact hnb ⟨by omega, by omega⟩ hbq
              · exact hnq (by omega) (by omega)
            · omega

theorem dsince_le_of_le {u now : Int} {w : Nat} (h : u ≤ now + w) : dsince u now ≤ w := by
  unfold dsince durSince
  have : (u - now).toNat ≤ w := by omega
  omega

theorem dsince_add_le {x now M : Int} (hx : x ≤ M) (hn : now ≤ M) : now + (dsince x now : Int) ≤ M := by
  unfold dsince durSince
  have h1 : (min (x - now).toNat durMax : Nat) ≤ (x - now).toNat := Nat.min_le_left _ _
  omega

end


/-! ### facts about the decision -/

section
variable {σ : Type}

/-- the frameworks and the slot counts are the same in both states -/
def SameFw (st st' : St σ) : Prop :=
  ∀ c, (st'.side c).fw = (st.side c).fw ∧
    (st'.side c).schedAction.length = (st.side c).schedAction.length ∧
    (st'.side c).schedTimer.length = (st.side c).schedTimer.length

theorem SameFw.refl (st : St σ) : SameFw st st := fun _ => ⟨rfl, rfl, rfl⟩

theorem SameFw.trans {a b c : St σ} (h1 : SameFw a b) (h2 : SameFw b c) : SameFw a c := fun x =>
  ⟨(h2 x).1.trans (h1 x).1, (h2 x).2.1.trans (h1 x).2.1, (h2 x).2.2.trans (h1 x).2.2⟩

theorem peekAggregateDelay_le (b : Bottleneck) (now : Int) : b.peekAggregateDelay now ≤ durMax := by
  unfold Bottleneck.peekAggregateDelay
  split
  · exact dsince_le' _ _
  · exact Nat.le_refl _

/-- the blocking-expiry branch is only taken for a real expiry -/
theorem pickDecide_blockExp_lt {st : St σ} {b : Nat} {c : Bool} (h : pickDecide st = .ok (.blockExp b c)) :
    b < durMax := by
  have hpk := pickDecide_blockExp h
  unfold pickDecide at h
  simp only [] at h
  rw [bind_ok_iff] at h
  obtain ⟨⟨q, qid, qc⟩, hq, h2⟩ := h
  have hq' := peekQueue_le hq
  have hs : peekScheduledAction st.client.schedAction st.server.schedAction st.now ≤ durMax := by
    rw [peekScheduledAction_eq]
    exact Nat.le_trans (foldl_peekStep_le_init _ _ _) (foldl_peekStep_le_init _ _ _)
  have hi : peekScheduledInternalTimer st.client.schedTimer st.server.schedTimer st.now ≤ durMax := by
    have : peekScheduledInternalTimer st.client.schedTimer st.server.schedTimer st.now =
      st.server.schedTimer.foldl (peekStepT st.now) (st.client.schedTimer.foldl (peekStepT st.now) durMax) := rfl
    rw [this]
    exact Nat.le_trans (foldl_peekStepT_le_init _ _ _) (foldl_peekStepT_le_init _ _ _)
  have hn := peekAggregateDelay_le st.net st.now
  have hbe : (peekBlockedExp st.client.blockingUntil st.server.blockingUntil st.now).1 = b := by rw [hpk]
  have hb := peekBlockedExp_le st.client.blockingUntil st.server.blockingUntil st.now
  simp only [pure, Except.pure] at h2
  split at h2
  · cases h2
  · split at h2
    · cases h2
    · rename_i hnagg
      split at h2
      · rename_i hbb
        simp only [Bool.and_eq_true, decide_eq_true_eq] at hnagg hbb
        by_cases hlt : b < durMax
        · exact hlt
        · exfalso
          apply hnagg
          refine ⟨⟨⟨?_, ?_⟩, ?_⟩, ?_⟩ <;> omega
      · split at h2
        · cases h2
        · split at h2 <;> cases h2

/-- the queue branch is only taken for a real offset -/
theorem pickDecide_queue_lt {st : St σ} {q : Nat} {qid : Queue} {c : Bool} (h : pickDecide st = .ok (.queue q qid c)) :
    q < durMax := by
  have h1 := (pickDecide_queue h).2
  have h2 := peekBlockedExp_le st.client.blockingUntil st.server.blockingUntil st.now
  omega

/-- without any blocking `peek_queue` reports what `SimQueue::peek` selects (or "later than the
    other candidates") -/
theorem peekQueue_noblock {st : St σ} {e q : Nat} {qid : Queue} {c : Bool}
    (hc : st.client.blockingUntil = none) (hs : st.server.blockingUntil = none)
    (h : peekQueue st e = .ok (q, qid, c)) :
    q = durMax ∨ ∃ pk, st.sq.peek st.net.clientAgg st.net.serverAgg st.now = .ok (some pk, qid, q) := by
  unfold peekQueue at h
  by_cases h0 : st.sq.isEmpty = true
  · simp only [h0, if_true, Except.ok.injEq, Prod.mk.injEq] at h
    exact Or.inl h.1.symm
  · simp only [h0, Bool.false_eq_true, if_false] at h
    rw [bind_ok_iff] at h
    obtain ⟨⟨pk, qu, dur⟩, h1, h2⟩ := h
    cases pk with
    | none => simp at h2
    | some peek =>
      simp only [pure, Except.pure] at h2
      split at h2
      · simp only [Except.ok.injEq, Prod.mk.injEq] at h2
        exact Or.inl h2.1.symm
      · split at h2
        · cases h2; exact Or.inr ⟨peek, h1⟩
        · simp only [hc, hs, Option.isSome_none, Bool.not_false, Bool.and_self, if_true] at h2
          cases h2; exact Or.inr ⟨peek, h1⟩

/-- a real offset reported by `peek_queue` names a non-empty heap -/
theorem peekQueue_heap {st : St σ} {e q : Nat} {qid : Queue} {c : Bool} (hw : st.sq.WF)
    (h : peekQueue st e = .ok (q, qid, c)) (hq : q < durMax) :
    ∃ hd, ((st.sq.side c).heap qid).peek = some hd := by
  unfold peekQueue at h
  by_cases h0 : st.sq.isEmpty = true
  · simp only [h0, if_true, Except.ok.injEq, Prod.mk.injEq] at h
    omega
  · simp only [h0, Bool.false_eq_true, if_false] at h
    rw [bind_ok_iff] at h
    obtain ⟨⟨pk, qu, dur⟩, h1, h2⟩ := h
    cases pk with
    | none => simp at h2
    | some peek =>
      have hph := SimQueue.peek_heap hw h1
      simp only [pure, Except.pure] at h2
      split at h2
      · simp only [Except.ok.injEq, Prod.mk.injEq] at h2; omega
      · split at h2
        · cases h2; exact ⟨_, hph⟩
        · split at h2
          · cases h2; exact ⟨_, hph⟩
          · split at h2
            · cases h2; exact ⟨_, hph⟩
            · split at h2
              · cases h2; exact ⟨_, hph⟩
              · split at h2
                · simp only [Except.ok.injEq] at h2
                  have hdur := peekQueueEarliestSide_dur st.sq st.client.blockingUntil st.client.blockingBypassable
                    st.now st.net.clientAgg true
                  have hsp := (peekQueueEarliestSide_spec st.sq st.client.blockingUntil st.client.blockingBypassable
                    st.now st.net.clientAgg true).1
                  rw [h2] at hdur hsp
                  simp only [] at hdur hsp
                  rcases hdur with hdur | ⟨hd, hhd, _⟩
                  · omega
                  · rw [hsp]; exact ⟨hd, hhd⟩
                · simp only [Except.ok.injEq] at h2
                  have hdur := peekQueueEarliestSide_dur st.sq st.server.blockingUntil st.server.blockingBypassable
                    st.now st.net.serverAgg false
                  have hsp := (peekQueueEarliestSide_spec st.sq st.server.blockingUntil st.server.blockingBypassable
                    st.now st.net.serverAgg false).1
                  rw [h2] at hdur hsp
                  simp only [] at hdur hsp
                  rcases hdur with hdur | ⟨hd, hhd, _⟩
                  · omega
                  · rw [hsp]; exact ⟨hd, hhd⟩

/-- the aggregate-delay branch: no overflow, the invariant is kept, nothing else changes -/
theorem pickAgg_ti {π : TPar} {A : Nat} {Hn : Int} {kw J : Nat} {st : St σ} (h : PI π A Hn kw J st)
    (hJ : J ≤ durMax) :
    (∀ f, pickAgg st = .error f → f.isBug = true) ∧
    (∀ st', pickAgg st = .ok st' → PI π A Hn kw J st' ∧ SameFw st st' ∧ st'.now = st.now ∧ st'.sq = st.sq) := by
  unfold pickAgg
  by_cases hz : st.net.aggQueue.len = 0
  · simp only [hz, if_true]
    exact ⟨fun f hf => (by cases hf; rfl), fun st' hs => (by cases hs)⟩
  · simp only [hz, if_false]
    obtain ⟨b', hb', hn⟩ := popAggregateDelay_ti h.net hJ
    simp only [hb', bind, Except.bind, pure, Except.pure]
    refine ⟨fun f hf => (by cases hf), fun st' hs => ?_⟩
    cases hs
    exact ⟨⟨h.t0le, h.nowle, h.wf, h.ord, h.q, h.sides, hn⟩, SameFw.refl _, rfl, rfl⟩

end


/-! ### the queue branch -/

section
variable {σ : Type}

theorem NetI.agg_le {π : TPar} {kw J : Nat} {net : Bottleneck} (h : NetI π kw J net) (c : Bool) : net.agg c ≤ J := by
  unfold Bottleneck.agg
  cases c
  · have := h.aggS; simp only [Bool.false_eq_true, if_false]; omega
  · have := h.aggC; simp only [if_true]; omega

theorem PI.withNet {π : TPar} {A : Nat} {Hn : Int} {kw J kw' J' : Nat} {st : St σ} (h : PI π A Hn kw J st)
    {net' : Bottleneck} (hn : NetI π kw' J' net') : PI π A Hn kw' J' { st with net := net' } :=
  ⟨h.t0le, h.nowle, h.wf, h.ord, h.q, h.sides, hn⟩

theorem PI.setSide {π : TPar} {A : Nat} {Hn : Int} {kw J : Nat} {st : St σ} (h : PI π A Hn kw J st)
    (c : Bool) (x : Side σ) (hx : SlotI st.now x) : PI π A Hn kw J (st.setSide c x) := by
  cases c with
  | true =>
    exact ⟨h.t0le, h.nowle, h.wf, h.ord, h.q, fun c' => by
      cases c'
      · exact h.sides false
      · exact hx, h.net⟩
  | false =>
    exact ⟨h.t0le, h.nowle, h.wf, h.ord, h.q, fun c' => by
      cases c'
      · exact hx
      · exact h.sides true, h.net⟩

/-- the queue branch: the pop succeeds, the invariant is kept, the served event is within the
    horizon, and while a TunnelSent stays queued it is at most `W` after the clock -/
theorem pickQueue_ti {π : TPar} {A : Nat} {Hn : Int} {kw J : Nat} {st : St σ} (h : PI π A Hn kw J st)
    {q : Nat} {qid : Queue} {c : Bool} (hd : pickDecide st = .ok (.queue q qid c))
    (hJM : J ≤ π.JM) (hHb : π.Tm + π.JM ≤ Hn) :
    (∀ f, pickQueue st q qid c = .error f → f.isBug = true) ∧
    (∀ e st', pickQueue st q qid c = .ok (e, st') →
      PI π A Hn kw J st' ∧ SameFw st st' ∧ st'.now = st.now ∧
      e.time ≤ Hn + ((π.S + TB.W : Nat) : Int) ∧ (st'.sq.hasBlocked → e.time ≤ st.now + (TB.W : Int))) := by
  obtain ⟨⟨earliest, hpq⟩, hlt⟩ := pickDecide_queue hd
  have hqlt := pickDecide_queue_lt hd
  obtain ⟨hd0, hhd0⟩ := peekQueue_heap h.wf hpq hqlt
  obtain ⟨e0, sq0, hpop⟩ := SimQueue.pop_someG (st.net.agg c) hhd0
  constructor
  · intro f hf
    unfold pickQueue at hf
    rw [hpop] at hf
    simp [bind, Except.bind, pure, Except.pure] at hf
  · intro e st' hp
    obtain ⟨tmp, htmp, het⟩ := pickQueue_offset_ge h.wf hd hp
    have hwf' := (pickQueue_conserve h.wf hp).1
    have hetq : e.time ≤ st.now + (q : Int) := by
      unfold dsince durSince at htmp
      split at het <;> omega
    unfold pickQueue at hp
    rw [hpop] at hp
    simp only [bind, Except.bind, pure, Except.pure, Except.ok.injEq, Prod.mk.injEq] at hp
    obtain ⟨_, hst'⟩ := hp
    subst hst'
    have hpi : PI π A Hn kw J ({ st with sq := sq0, net := if st.now + (q : Int) > e0.time then
        { st.net with ghost := { st.net.ghost with movedByBlocking := st.net.ghost.movedByBlocking + 1 } } else st.net } : St σ) := by
      refine ⟨h.t0le, h.nowle, hwf', (SimQueue.pop_specG hpop).2.1 h.ord, h.q.pop hpop, h.sides, ?_⟩
      show NetI π kw J (if st.now + (q : Int) > e0.time then _ else st.net)
      split
      · exact h.net.ghost _
      · exact h.net
    refine ⟨hpi, fun c' => ⟨rfl, rfl, rfl⟩, rfl, ?_⟩
    have hnn : st.now ≤ Hn + ((π.S + TB.W : Nat) : Int) := by have := h.nowle; omega
    cases hcu : st.client.blockingUntil with
    | some u =>
      have hu := (h.sides true).untl u hcu
      have h1 := peekBlockedExp_le_side st.client.blockingUntil st.server.blockingUntil st.now true u (by simp [hcu])
      have h2 := dsince_le_of_le hu
      have := h.nowle
      constructor
      · push_cast; omega
      · intro _; omega
    | none =>
      cases hsu : st.server.blockingUntil with
      | some u =>
        have hu := (h.sides false).untl u hsu
        have h1 := peekBlockedExp_le_side st.client.blockingUntil st.server.blockingUntil st.now false u (by simp [hsu])
        have h2 := dsince_le_of_le hu
        have := h.nowle
        constructor
        · push_cast; omega
        · intro _; omega
      | none =>
        rcases peekQueue_noblock hcu hsu hpq with hmax | ⟨pk, hpk⟩
        · omega
        · have hdur := SimQueue.peek_dur h.wf hpk
          have hmem : pk ∈ ((st.sq.side pk.client).heap qid).data := Heap.peek_mem (SimQueue.peek_heap h.wf hpk)
          have hqp := h.q pk.client qid pk hmem
          have hagg : (if pk.client then st.net.clientAgg else st.net.serverAgg) ≤ J := by
            have := h.net.agg_le pk.client
            unfold Bottleneck.agg at this
            exact this
          have hx : pk.time + qShift qid (if pk.client then st.net.clientAgg else st.net.serverAgg) ≤
              Hn + ((π.S + TB.W : Nat) : Int) := by
            have := h.nowle
            cases qid <;> simp only [qpred, qShift, if_true, reduceCtorEq, if_false] at hqp ⊢ <;> push_cast <;> omega
          have hb := dsince_add_le hx hnn
          rw [← hdur] at hb
          constructor
          · omega
          · intro hbk
            obtain ⟨c1, q1, e1, hq1, he1⟩ := SimQueue.hasBlocked_of_pop hpop hbk
            have hqp1 := h.q c1 q1 e1 he1
            have ht1 : e1.time ≤ st.now := by
              rcases hq1 with hq1 | hq1 <;> subst hq1 <;> exact hqp1.1
            have hne : q1 ≠ .base := by rcases hq1 with hq1 | hq1 <;> subst hq1 <;> simp
            have := SimQueue.peek_zero h.ord hne he1 ht1 hpk
            omega

end


/-! ### the blocking-expiry branch -/

section
variable {σ : Type}

theorem peekBlockedExp_some {cu su : Option Int} {now : Int} {b : Nat} {c : Bool}
    (h : peekBlockedExp cu su now = (b, c)) (hb : b < durMax) : (if c then cu else su).isSome := by
  unfold peekBlockedExp at h
  cases cu with
  | none =>
    cases su with
    | none => simp only [Prod.mk.injEq] at h; omega
    | some s => simp only [Prod.mk.injEq] at h; obtain ⟨_, hc⟩ := h; subst hc; simp
  | some cc =>
    cases su with
    | none => simp only [Prod.mk.injEq] at h; obtain ⟨_, hc⟩ := h; subst hc; simp
    | some s =>
      simp only [] at h
      split at h <;> (simp only [Prod.mk.injEq] at h; obtain ⟨_, hc⟩ := h; subst hc; simp)

theorem foldl_tail_ge (p : SimEvent → Int → Bool) : ∀ (l : List SimEvent) (t : Int),
    t ≤ l.foldl (fun tail e => if p e tail && e.time > tail then e.time else tail) t := by
  intro l
  induction l with
  | nil => intro t; exact Int.le_refl _
  | cons x xs ih =>
    intro t
    simp only [List.foldl_cons]
    refine Int.le_trans ?_ (ih _)
    split
    · rename_i hc
      simp only [Bool.and_eq_true, decide_eq_true_eq] at hc
      omega
    · exact Int.le_refl _

theorem dsince_anti {a b c : Int} (h : b ≤ c) : dsince a c ≤ dsince a b := by
  unfold dsince durSince
  have : (a - c).toNat ≤ (a - b).toNat := Int.toNat_le_toNat (by omega)
  omega

/-- the aggregate delay queued at a blocking expiry is at most the time the head waited -/
theorem aggDelayOnBlockingExpire_le {sq : SimQueue} {c : Bool} {expire : Int} {head : SimEvent} {ab bd : Nat}
    (h : aggDelayOnBlockingExpire sq c expire head ab = some bd) : bd ≤ dsince expire head.time := by
  unfold aggDelayOnBlockingExpire at h
  simp only [] at h
  generalize htl : (if (sq.side c).blocking.len + (sq.side c).bypassable.len > Gen.SIM_EXPIRE_BUFFER_MIN then
      ((sq.side c).blocking.toList ++ (sq.side c).bypassable.toList).foldl
        (fun tail e => if dsince e.time head.time ≤ Gen.SIM_EXPIRE_BUFFER_WINDOW_NS && e.time > tail then e.time else tail)
        head.time
    else head.time) = tail at h
  have hge : head.time ≤ tail := by
    rw [← htl]
    split
    · exact foldl_tail_ge (fun e _ => decide (dsince e.time head.time ≤ Gen.SIM_EXPIRE_BUFFER_WINDOW_NS)) _ _
    · exact Int.le_refl _
  have hres : bd = dsince expire tail := by
    split at h
    · cases h
    · split at h
      · split at h
        · cases h
        · cases h; rfl
      · cases h; rfl
  rw [hres]
  exact dsince_anti hge

theorem peekBlocking_blocked (sq : SimQueue) (byp c : Bool) :
    (sq.peekBlocking byp c).2 = .blocking ∨ (sq.peekBlocking byp c).2 = .bypassable := by
  unfold SimQueue.peekBlocking EventQueue.peekBlockingSide
  cases byp
  · simp only [Bool.false_eq_true, if_false]
    split
    · exact Or.inl rfl
    · exact Or.inr rfl
  · exact Or.inl rfl

/-- the head `peek_blocking` reports is queued in one of the blocked heaps -/
theorem peekBlocking_mem {sq : SimQueue} {byp c : Bool} {ev : SimEvent} (h : (sq.peekBlocking byp c).1 = some ev) :
    ∃ qi, (qi = Queue.blocking ∨ qi = Queue.bypassable) ∧ ev ∈ ((sq.side c).heap qi).data ∧
      ((sq.side c).heap qi).peek = some ev ∧ qi = (sq.peekBlocking byp c).2 := by
  have hh := peekBlocking_head sq byp c
  rw [h] at hh
  exact ⟨_, peekBlocking_blocked sq byp c, Heap.peek_mem hh.symm, hh.symm, rfl⟩

/-- the aggregate delay, if any, queued at a blocking expiry is bounded and does not overflow -/
theorem blockExpNet_ti {π : TPar} {A kw J : Nat} {sq : SimQueue} {net : Bottleneck} {now : Int}
    (hq : sq.AllQ (qpred π A now)) (hn : NetI π kw J net) (hok : π.OK) (c : Bool) {b : Nat} (hb : b ≤ TB.W)
    (hAD : A + TB.W ≤ π.D) :
    ∃ net', blockExpNet sq net c (now + (b : Int)) = .ok net' ∧ NetI π kw (J + π.D) net' := by
  unfold blockExpNet
  cases hpb : (sq.peekBlocking false c).1 with
  | none => exact ⟨net, rfl, hn.mono (Nat.le_add_right _ _)⟩
  | some ev =>
    simp only []
    split
    · cases had : aggDelayOnBlockingExpire sq c (now + (b : Int)) ev (net.agg c) with
      | none => exact ⟨net, rfl, hn.mono (Nat.le_add_right _ _)⟩
      | some bd =>
        simp only []
        obtain ⟨qi, hqi, hmem, _, _⟩ := peekBlocking_mem hpb
        have hqp := hq c qi ev hmem
        have hage : now ≤ ev.time + (A : Int) := by
          rcases hqi with hqi | hqi <;> subst hqi <;> exact hqp.2
        have hbd := aggDelayOnBlockingExpire_le had
        have : dsince (now + (b : Int)) ev.time ≤ A + b := by
          unfold dsince durSince
          have : (now + (b : Int) - ev.time).toNat ≤ A + b := by omega
          omega
        exact pushAggregateDelay_ti hn hok (by omega) _ _
    · exact ⟨net, rfl, hn.mono (Nat.le_add_right _ _)⟩

/-- the blocking-expiry branch: no overflow, the invariant is kept with one more unit of the
    aggregate-delay budget, the BlockingEnd event is at most `W` after the clock -/
theorem pickBlockExp_ti {π : TPar} {A : Nat} {Hn : Int} {kw J : Nat} {st : St σ} (h : PI π A Hn kw J st)
    (hok : π.OK) {b : Nat} {c : Bool} (hd : pickDecide st = .ok (.blockExp b c)) (hAD : A + TB.W ≤ π.D) :
    (∀ f, pickBlockExp st b c = .error f → f.isBug = true) ∧
    (∀ e st', pickBlockExp st b c = .ok (e, st') →
      PI π A Hn kw (J + π.D) st' ∧ SameFw st st' ∧ st'.now = st.now ∧ st'.sq = st.sq ∧
      e.time ≤ st.now + (TB.W : Int)) := by
  have hpk := pickDecide_blockExp hd
  have hblt := pickDecide_blockExp_lt hd
  have hside : (if c then st.client.blockingUntil else st.server.blockingUntil) = (st.side c).blockingUntil := by
    cases c <;> simp [St.side]
  obtain ⟨u, hu, hbu⟩ := peekBlockedExp_spec _ _ _ _ _ hpk (peekBlockedExp_some hpk hblt)
  rw [hside] at hu
  have huw := (h.sides c).untl u hu
  have hbW : b ≤ TB.W := by rw [hbu]; exact dsince_le_of_le huw
  obtain ⟨net', hnet', hn'⟩ := blockExpNet_ti h.q h.net hok c hbW hAD
  unfold pickBlockExp
  rw [hnet']
  simp only [bind, Except.bind, pure, Except.pure]
  refine ⟨fun f hf => (by cases hf), fun e st' hs => ?_⟩
  simp only [Except.ok.injEq, Prod.mk.injEq] at hs
  obtain ⟨he, hst⟩ := hs
  subst he; subst hst
  have hx : SlotI st.now ({ (st.side c) with blockingUntil := none } : Side σ) :=
    ⟨(h.sides c).acts, (h.sides c).tims, fun u hu => by cases hu⟩
  have hp2 := (h.setSide c _ hx).withNet hn'
  refine ⟨hp2, ?_, by simp, by simp, ?_⟩
  · intro c'
    cases c <;> cases c' <;> exact ⟨rfl, rfl, rfl⟩
  · show st.now + (b : Int) ≤ st.now + (TB.W : Int)
    omega

end


/-! ### the internal-timer and scheduled-action branches -/

section
variable {σ : Type}

theorem PI.pushSim {π : TPar} {A : Nat} {Hn : Int} {kw J : Nat} {st : St σ} (h : PI π A Hn kw J st)
    (ev : SimEvent) (hq : qpred π A st.now ev.client (route ev) ev) :
    PI π A Hn kw J { st with sq := st.sq.pushSim ev } :=
  ⟨h.t0le, h.nowle, (pushSim_spec st.sq ev h.wf).1, SimQueue.pushSim_ord ev h.ord, h.q.pushSim hq, h.sides, h.net⟩

theorem SameFw.setSide (st : St σ) (c : Bool) (x : Side σ) (hfw : x.fw = (st.side c).fw)
    (ha : x.schedAction.length = (st.side c).schedAction.length)
    (ht : x.schedTimer.length = (st.side c).schedTimer.length) : SameFw st (st.setSide c x) := by
  intro c'
  cases c <;> cases c' <;> first | exact ⟨rfl, rfl, rfl⟩ | exact ⟨hfw, ha, ht⟩

theorem S_ge_TD (π : TPar) : TB.TD ≤ π.S := by unfold TPar.S; omega
theorem S_ge_TO (π : TPar) : TB.TO ≤ π.S := by unfold TPar.S; omega

/-- the internal-timer branch only moves a due timer into the queue -/
theorem pickTimer_ti {π : TPar} {A : Nat} {Hn : Int} {kw J : Nat} {st : St σ} (h : PI π A Hn kw J st) {i : Nat} :
    (∀ f, pickTimer st i = .error f → f.isBug = true) ∧
    (∀ st', pickTimer st i = .ok st' → PI π A Hn kw J st' ∧ SameFw st st' ∧ st'.now = st.now) := by
  have hS := S_ge_TD π
  unfold pickTimer doInternalTimer
  cases hfc : findSlot (fun t => t == st.now + (i : Int)) st.client.schedTimer 0 with
  | some pr =>
    obtain ⟨id, t⟩ := pr
    simp only [bind, Except.bind, pure, Except.pure]
    refine ⟨fun f hf => (by cases hf), fun st' hs => ?_⟩
    cases hs
    obtain ⟨k, hk, hl⟩ := findSlot_spec _ _ _ _ _ hfc
    have hp := findSlot_sat _ _ _ _ _ hfc
    have hteq : t = st.now + (i : Int) := by simpa using hp
    have htb := (h.sides true).tims t (List.mem_of_getElem? hl)
    have hx : SlotI st.now ({ st.client with schedTimer := st.client.schedTimer.set id none } : Side σ) :=
      ⟨(h.sides true).acts, fun t' ht' => (h.sides true).tims t' (mem_set_none ht'), (h.sides true).untl⟩
    have hp2 := (h.setSide true _ hx).pushSim ⟨.timerEnd id, st.now + (i : Int), true, false, false, false⟩
      (by show (st.now + (i : Int)) ≤ st.now + (π.S : Int); omega)
    refine ⟨hp2, ?_, rfl⟩
    exact SameFw.setSide st true _ rfl rfl (by simp [St.side])
  | none =>
    simp only []
    cases hfs : findSlot (fun t => t == st.now + (i : Int)) st.server.schedTimer 0 with
    | some pr =>
      obtain ⟨id, t⟩ := pr
      simp only [bind, Except.bind, pure, Except.pure]
      refine ⟨fun f hf => (by cases hf), fun st' hs => ?_⟩
      cases hs
      obtain ⟨k, hk, hl⟩ := findSlot_spec _ _ _ _ _ hfs
      have hp := findSlot_sat _ _ _ _ _ hfs
      have hteq : t = st.now + (i : Int) := by simpa using hp
      have htb := (h.sides false).tims t (List.mem_of_getElem? hl)
      have hx : SlotI st.now ({ st.server with schedTimer := st.server.schedTimer.set id none } : Side σ) :=
        ⟨(h.sides false).acts, fun t' ht' => (h.sides false).tims t' (mem_set_none ht'), (h.sides false).untl⟩
      have hp2 := (h.setSide false _ hx).pushSim ⟨.timerEnd id, st.now + (i : Int), false, false, false, false⟩
        (by show (st.now + (i : Int)) ≤ st.now + (π.S : Int); omega)
      refine ⟨hp2, ?_, rfl⟩
      exact SameFw.setSide st false _ rfl rfl (by simp [St.side])
    | none =>
      simp only [bind, Except.bind]
      exact ⟨fun f hf => (by cases hf; rfl), fun st' hs => (by cases hs)⟩

theorem findAction_mem {st : St σ} {target : Int} {c : Bool} {i : Nat} {a : SchedAction}
    (h : findAction st target = some (c, i, a)) : some a ∈ (st.side c).schedAction := by
  unfold findAction at h
  split at h
  · rename_i j b hfs
    cases h
    obtain ⟨k, hk, hl⟩ := findSlot_spec _ _ _ _ _ hfs
    exact List.mem_of_getElem? (by simpa [St.side] using hl)
  · split at h
    · rename_i j b hfs
      cases h
      obtain ⟨k, hk, hl⟩ := findSlot_spec _ _ _ _ _ hfs
      exact List.mem_of_getElem? (by simpa [St.side] using hl)
    · cases h

theorem blockUpdate_le {until_ : Option Int} {byp : Bool} {t : Int} {durNs : Nat} {bypass replace : Bool} {now : Int}
    (hu : ∀ u, until_ = some u → u ≤ now + (TB.W : Int)) (ht : t ≤ now + (TB.TO : Int)) (hd : durNs ≤ TB.BD) :
    ∀ u, (blockUpdate until_ byp t durNs bypass replace).1 = some u → u ≤ now + (TB.W : Int) := by
  intro u hu'
  unfold blockUpdate at hu'
  simp only [] at hu'
  split at hu'
  · simp only [Option.some.injEq] at hu'
    unfold TB.W
    push_cast
    omega
  · exact hu u hu'

/-- the scheduled-action branch: the due action becomes a queued event; a blocking expires at
    most `W` after the clock -/
theorem pickAction_ti {π : TPar} {A : Nat} {Hn : Int} {kw J : Nat} {st : St σ} (h : PI π A Hn kw J st) {s : Nat} :
    (∀ f, pickAction st s = .error f → f.isBug = true) ∧
    (∀ st', pickAction st s = .ok st' → PI π A Hn kw J st' ∧ SameFw st st' ∧ st'.now = st.now) := by
  have hS := S_ge_TO π
  unfold pickAction doScheduledAction
  cases hfa : findAction st (st.now + (s : Int)) with
  | none =>
    simp only [bind, Except.bind]
    exact ⟨fun f hf => (by cases hf; rfl), fun st' hs => (by cases hs)⟩
  | some pr =>
    obtain ⟨c, idx, a⟩ := pr
    have hmem := findAction_mem hfa
    obtain ⟨hat, hab⟩ := (h.sides c).acts a hmem
    have hx0 : SlotI st.now ({ (st.side c) with schedAction := (st.side c).schedAction.set idx none } : Side σ) :=
      ⟨fun a' ha' => (h.sides c).acts a' (mem_set_none ha'), (h.sides c).tims, (h.sides c).untl⟩
    simp only []
    cases haa : a.action with
    | cancel m t =>
      simp only [bind, Except.bind]
      exact ⟨fun f hf => (by cases hf; rfl), fun st' hs => (by cases hs)⟩
    | updateTimer du rp m =>
      simp only [bind, Except.bind]
      exact ⟨fun f hf => (by cases hf; rfl), fun st' hs => (by cases hs)⟩
    | sendPadding to bypass replace machine =>
      simp only [bind, Except.bind, pure, Except.pure]
      refine ⟨fun f hf => (by cases hf), fun st' hs => ?_⟩
      cases hs
      have hp2 := (h.setSide c _ hx0).pushSim ⟨.paddingSent machine, a.time, c, true, bypass, replace⟩
        (by show a.time ≤ (st.setSide c _).now + (π.S : Int); simp only [setSide_now]; omega)
      refine ⟨hp2, ?_, by simp⟩
      exact (SameFw.setSide st c _ rfl (by simp) rfl)
    | blockOutgoing to du bypass replace machine =>
      simp only [bind, Except.bind, pure, Except.pure]
      refine ⟨fun f hf => (by cases hf), fun st' hs => ?_⟩
      cases hs
      rw [haa] at hab
      have hdu : du * 1000 ≤ TB.BD := by
        unfold TB.BD
        exact Nat.mul_le_mul_right _ hab
      have hx1 : SlotI st.now ({ ({ (st.side c) with schedAction := (st.side c).schedAction.set idx none } : Side σ) with
          blockingUntil := (blockUpdate (st.side c).blockingUntil (st.side c).blockingBypassable a.time (du * 1000) bypass replace).1,
          blockingBypassable := (blockUpdate (st.side c).blockingUntil (st.side c).blockingBypassable a.time (du * 1000) bypass replace).2 } : Side σ) :=
        ⟨hx0.acts, hx0.tims, blockUpdate_le (h.sides c).untl hat hdu⟩
      have hp2 := (h.setSide c _ hx1).pushSim
        ⟨.blockingBegin machine, a.time, c, false,
          (blockUpdate (st.side c).blockingUntil (st.side c).blockingBypassable a.time (du * 1000) bypass replace).2, false⟩
        (by show a.time ≤ (st.setSide c _).now + (π.S : Int); simp only [setSide_now]; omega)
      refine ⟨hp2, ?_, by simp⟩
      exact (SameFw.setSide st c _ rfl (by simp) rfl)

end


/-! ### `pick_next` -/

section
variable {σ : Type}

theorem PI.monoJ {π : TPar} {A : Nat} {Hn : Int} {kw J J' : Nat} {st : St σ} (h : PI π A Hn kw J st) (hJ : J ≤ J') :
    PI π A Hn kw J' st :=
  ⟨h.t0le, h.nowle, h.wf, h.ord, h.q, h.sides, h.net.mono hJ⟩

/-- **`pick_next` under the time-bound invariant**: it raises no environmental fault, keeps the
    invariant (using at most one unit `D` of the aggregate-delay budget), leaves the frameworks
    and the clock alone, and the event it returns is within `S + W` of the horizon `Hn` — and
    within `W` of the clock whenever a TunnelSent is still queued afterwards. -/
theorem pickNext_ti {π : TPar} {A : Nat} {Hn : Int} {kw J : Nat} (hok : π.OK) (hJM : J + π.D ≤ π.JM)
    (hHb : π.Tm + π.JM ≤ Hn) (hAD : A + TB.W ≤ π.D) :
    ∀ (fuel : Nat) (st : St σ), PI π A Hn kw J st →
    (∀ f, pickNext fuel st = some (.error f) → f.isBug = true) ∧
    (∀ e st', pickNext fuel st = some (.ok (e, st')) →
      PI π A Hn kw (J + π.D) st' ∧ SameFw st st' ∧ st'.now = st.now ∧
      ∀ ev, e = some ev → ev.time ≤ Hn + ((π.S + TB.W : Nat) : Int) ∧
        (st'.sq.hasBlocked → ev.time ≤ st.now + (TB.W : Int))) := by
  have hJd : J ≤ durMax := by have := hok.jm; omega
  intro fuel
  induction fuel with
  | zero => intro st _; exact ⟨fun f h => (by simp [pickNext] at h), fun e st' h => (by simp [pickNext] at h)⟩
  | succ n ih =>
    intro st h
    unfold pickNext
    obtain ⟨p, hd⟩ := pickDecide_ok st
    rw [hd]
    cases p with
    | nothing =>
      simp only []
      refine ⟨fun f hf => (by cases hf), fun e st' hs => ?_⟩
      cases hs
      exact ⟨h.monoJ (Nat.le_add_right _ _), SameFw.refl _, rfl, fun ev hev => by cases hev⟩
    | agg =>
      simp only []
      have ha := pickAgg_ti h hJd
      cases hag : pickAgg st with
      | error f0 => exact ⟨fun f hf => (by cases hf; exact ha.1 f0 hag), fun e st' hs => (by cases hs)⟩
      | ok st1 =>
        obtain ⟨hp1, hs1, hn1, _⟩ := ha.2 st1 hag
        have := ih st1 hp1
        refine ⟨this.1, fun e st' hs => ?_⟩
        obtain ⟨hp2, hs2, hn2, hev⟩ := this.2 e st' hs
        refine ⟨hp2, hs1.trans hs2, hn2.trans hn1, ?_⟩
        rw [← hn1]; exact hev
    | blockExp b c =>
      simp only []
      have hb := pickBlockExp_ti h hok hd hAD
      cases hbe : pickBlockExp st b c with
      | error f0 => exact ⟨fun f hf => (by cases hf; exact hb.1 f0 hbe), fun e st' hs => (by cases hs)⟩
      | ok pr =>
        obtain ⟨e1, st1⟩ := pr
        obtain ⟨hp1, hs1, hn1, _, het⟩ := hb.2 e1 st1 hbe
        refine ⟨fun f hf => (by cases hf), fun e st' hs => ?_⟩
        cases hs
        refine ⟨hp1, hs1, hn1, fun ev hev => ?_⟩
        cases hev
        have := h.nowle
        exact ⟨by push_cast; omega, fun _ => het⟩
    | queue q qid c =>
      simp only []
      have hq := pickQueue_ti h hd (by omega) hHb
      cases hqe : pickQueue st q qid c with
      | error f0 => exact ⟨fun f hf => (by cases hf; exact hq.1 f0 hqe), fun e st' hs => (by cases hs)⟩
      | ok pr =>
        obtain ⟨e1, st1⟩ := pr
        obtain ⟨hp1, hs1, hn1, het, hblk⟩ := hq.2 e1 st1 hqe
        refine ⟨fun f hf => (by cases hf), fun e st' hs => ?_⟩
        cases hs
        refine ⟨hp1.monoJ (Nat.le_add_right _ _), hs1, hn1, fun ev hev => ?_⟩
        cases hev
        exact ⟨het, hblk⟩
    | timer i =>
      simp only []
      have ht := pickTimer_ti (i := i) h
      cases hte : pickTimer st i with
      | error f0 => exact ⟨fun f hf => (by cases hf; exact ht.1 f0 hte), fun e st' hs => (by cases hs)⟩
      | ok st1 =>
        obtain ⟨hp1, hs1, hn1⟩ := ht.2 st1 hte
        have := ih st1 hp1
        refine ⟨this.1, fun e st' hs => ?_⟩
        obtain ⟨hp2, hs2, hn2, hev⟩ := this.2 e st' hs
        refine ⟨hp2, hs1.trans hs2, hn2.trans hn1, ?_⟩
        rw [← hn1]; exact hev
    | action s =>
      simp only []
      have ht := pickAction_ti (s := s) h
      cases hte : pickAction st s with
      | error f0 => exact ⟨fun f hf => (by cases hf; exact ht.1 f0 hte), fun e st' hs => (by cases hs)⟩
      | ok st1 =>
        obtain ⟨hp1, hs1, hn1⟩ := ht.2 st1 hte
        have := ih st1 hp1
        refine ⟨this.1, fun e st' hs => ?_⟩
        obtain ⟨hp2, hs2, hn2, hev⟩ := this.2 e st' hs
        refine ⟨hp2, hs1.trans hs2, hn2.trans hn1, ?_⟩
        rw [← hn1]; exact hev

end

end Mb.Sim
