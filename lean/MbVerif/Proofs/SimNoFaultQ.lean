/-
  Queue-level lemmas for the totality theorem of the simulator with machines (C19_total):
  predicates over all queued events by side and heap, popping with an aggregate delay, and the
  fact that a queued TunnelSent that is already due makes `SimQueue::peek` report offset 0.
-/
import MbVerif.Proofs.SimProgress
import MbVerif.Proofs.SimFuture

namespace Mb.Sim
open Mb

/-! ### predicates over all queued events, by side and heap -/

/-- every queued event satisfies `p side heap event` -/
def SimQueue.AllQ (s : SimQueue) (p : Bool → Queue → SimEvent → Prop) : Prop :=
  ∀ c qi, ∀ e ∈ ((s.side c).heap qi).data, p c qi e

theorem SimQueue.AllQ.mono {s : SimQueue} {p p' : Bool → Queue → SimEvent → Prop} (h : s.AllQ p)
    (hpp : ∀ c qi e, p c qi e → p' c qi e) : s.AllQ p' :=
  fun c qi e he => hpp c qi e (h c qi e he)

theorem SimQueue.AllQ.pushSim {s : SimQueue} {p : Bool → Queue → SimEvent → Prop} {e : SimEvent}
    (h : s.AllQ p) (he : p e.client (route e) e) : (s.pushSim e).AllQ p := by
  intro c qi y hy
  rw [SimQueue.pushSim_heap] at hy
  split at hy
  · rename_i hc
    rcases heap_push_mem hy with hy | hy
    · exact h c qi y hy
    · subst hy; rw [hc.1, hc.2]; exact he
  · exact h c qi y hy

/-- a TunnelSent is queued in one of the two blocked heaps -/
def SimQueue.hasBlocked (s : SimQueue) : Prop :=
  ∃ c qi e, (qi = Queue.blocking ∨ qi = Queue.bypassable) ∧ e ∈ ((s.side c).heap qi).data

theorem SimQueue.pushSim_mem {s : SimQueue} {e y : SimEvent} {c : Bool} {qi : Queue}
    (hy : y ∈ (((s.pushSim e).side c).heap qi).data) :
    y ∈ ((s.side c).heap qi).data ∨ (y = e ∧ c = e.client ∧ qi = route e) := by
  rw [SimQueue.pushSim_heap] at hy
  split at hy
  · rename_i hc
    rcases heap_push_mem hy with hy | hy
    · exact Or.inl hy
    · exact Or.inr ⟨hy, hc.1, hc.2⟩
  · exact Or.inl hy

/-! ### popping with an aggregate delay -/

/-- `SimQueue::pop` (any aggregate delay): the head of the named heap, time-shifted for the
    base heap, and only that heap changes -/
theorem SimQueue.pop_heapG {s s' : SimQueue} {qi : Queue} {cl : Bool} {ds : Nat} {e : SimEvent}
    (h : s.pop qi cl ds = .ok (some (e, s'))) :
    ∃ hd h', Heap.pop SimEvent.le ((s.side cl).heap qi) = some (hd, h') ∧
      e = { hd with time := hd.time + qShift qi ds } ∧
      ∀ c qj, (s'.side c).heap qj = if c = cl ∧ qj = qi then h' else (s.side c).heap qj := by
  by_cases hq : qi = .base
  · subst hq
    unfold SimQueue.pop at h
    rw [bind_ok_iff] at h
    obtain ⟨r, hr, h2⟩ := h
    simp only [pure, Except.pure, Except.ok.injEq] at h2
    cases r with
    | none => simp at h2
    | some pr =>
      obtain ⟨e1, q1⟩ := pr
      simp only [Option.map_some, Option.some.injEq, Prod.mk.injEq] at h2
      obtain ⟨he, hs⟩ := h2
      subst he; subst hs
      unfold EventQueue.pop at hr
      simp only [] at hr
      cases hp : (s.side cl).base.pop with
      | none =>
        simp only [hp] at hr
        split at hr <;> cases hr
      | some pr =>
        obtain ⟨x, hh⟩ := pr
        simp only [hp, Except.ok.injEq, Option.some.injEq, Prod.mk.injEq] at hr
        obtain ⟨hx, hq⟩ := hr
        subst hq
        refine ⟨x, hh, hp, ?_, ?_⟩
        · rw [← hx]; simp [qShift]
        · intro c qj
          unfold SimQueue.setSide SimQueue.side
          cases c <;> cases cl <;> cases qj <;> simp [EventQueue.heap]
  · have h0 : s.pop qi cl 0 = .ok (some (e, s')) := by
      rw [← h]
      unfold SimQueue.pop EventQueue.pop
      cases qi <;> first | rfl | exact absurd rfl hq
    obtain ⟨h', hp, hall⟩ := SimQueue.pop_heap0 h0
    refine ⟨e, h', hp, ?_, hall⟩
    simp [qShift, hq]

/-- popping the heap whose head was peeked succeeds, whatever the aggregate delay -/
theorem SimQueue.pop_someG {s : SimQueue} {qi : Queue} {cl : Bool} {hd : SimEvent} (ds : Nat)
    (h : ((s.side cl).heap qi).peek = some hd) : ∃ e' s', s.pop qi cl ds = .ok (some (e', s')) := by
  obtain ⟨y, h', hp⟩ := Heap.peek_some_pop SimEvent.le h
  unfold SimQueue.pop EventQueue.pop
  cases qi <;> simp only [EventQueue.heap] at hp
  · have : (s.side cl).blocking.pop = some (y, h') := hp
    simp only [this]; exact ⟨_, _, rfl⟩
  · have : (s.side cl).bypassable.pop = some (y, h') := hp
    simp only [this]; exact ⟨_, _, rfl⟩
  · have : (s.side cl).internal.pop = some (y, h') := hp
    simp only [this]; exact ⟨_, _, rfl⟩
  · have : (s.side cl).base.pop = some (y, h') := hp
    simp only [this]; exact ⟨_, _, rfl⟩

/-- what a pop leaves behind was queued before; heap order and "for all" are kept; the popped
    event is the (shifted) head, which satisfied the predicate -/
theorem SimQueue.pop_specG {s s' : SimQueue} {qi : Queue} {cl : Bool} {ds : Nat} {e : SimEvent}
    (h : s.pop qi cl ds = .ok (some (e, s'))) :
    (∀ c qj, ∀ y ∈ ((s'.side c).heap qj).data, y ∈ ((s.side c).heap qj).data) ∧
    (s.Ord → s'.Ord) ∧
    ∃ hd, hd ∈ ((s.side cl).heap qi).data ∧ ((s.side cl).heap qi).peek = some hd ∧
      e = { hd with time := hd.time + qShift qi ds } := by
  obtain ⟨hd, h', hp, he, hall⟩ := SimQueue.pop_heapG h
  have hpk := (heap_pop_countP (fun _ => true) SimEvent.le hp).2
  refine ⟨?_, ?_, hd, Heap.peek_mem hpk, hpk, he⟩
  · intro c qj y hy
    rw [hall] at hy
    split at hy
    · rename_i hc
      rw [hc.1, hc.2]
      exact heap_pop_mem hp y hy
    · exact hy
  · intro ho c qj
    rw [hall]
    split
    · rename_i hc
      have := ho cl qi
      exact heapInv_pop simEvent_totalPre this hp
    · exact ho c qj

theorem SimQueue.AllQ.pop {s s' : SimQueue} {p : Bool → Queue → SimEvent → Prop} {qi : Queue} {cl : Bool}
    {ds : Nat} {e : SimEvent} (hall : s.AllQ p) (h : s.pop qi cl ds = .ok (some (e, s'))) : s'.AllQ p :=
  fun c qj y hy => hall c qj y ((SimQueue.pop_specG h).1 c qj y hy)

theorem SimQueue.hasBlocked_of_pop {s s' : SimQueue} {qi : Queue} {cl : Bool} {ds : Nat} {e : SimEvent}
    (h : s.pop qi cl ds = .ok (some (e, s'))) (hb : s'.hasBlocked) : s.hasBlocked := by
  obtain ⟨c, qj, y, hq, hy⟩ := hb
  exact ⟨c, qj, y, hq, (SimQueue.pop_specG h).1 c qj y hy⟩


/-! ### a due TunnelSent makes `peek` report offset 0 -/

theorem dsince_zero {a now : Int} (h : a ≤ now) : dsince a now = 0 := by
  unfold dsince durSince
  have : (a - now).toNat = 0 := by omega
  rw [this]; simp

theorem evHeap_head_time {h : EvHeap} (ho : HeapInv SimEvent.le h.data) {e r : SimEvent} (he : e ∈ h.data)
    (hr : h.peek = some r) : r.time ≤ e.time :=
  SimEvent.le_time (heap_root_max simEvent_totalPre ho e he r hr)

theorem evHeap_peek_of_mem {h : EvHeap} {e : SimEvent} (he : e ∈ h.data) : ∃ r, h.peek = some r := by
  unfold Heap.peek
  cases hd : h.data with
  | nil => rw [hd] at he; cases he
  | cons a r => exact ⟨a, rfl⟩

theorem optGt_pick_time {a b : Option SimEvent} (qa qb : Queue) {r : SimEvent} (h : a = some r ∨ b = some r) :
    ∃ f, (if optGt a b = true then (a, qa) else (b, qb)).1 = some f ∧ f.time ≤ r.time := by
  cases a with
  | none =>
    cases b with
    | none => rcases h with h | h <;> cases h
    | some y =>
      rcases h with h | h
      · cases h
      · cases h; exact ⟨r, by simp [optGt], Int.le_refl _⟩
  | some x =>
    cases b with
    | none =>
      rcases h with h | h
      · cases h; exact ⟨r, by simp [optGt], Int.le_refl _⟩
      · cases h
    | some y =>
      by_cases hg : optGt (some x) (some y) = true
      · refine ⟨x, by simp [hg], ?_⟩
        simp only [optGt, SimEvent.gt, keyLt, Bool.or_eq_true, Bool.and_eq_true, decide_eq_true_eq, beq_iff_eq] at hg
        rcases h with h | h <;> cases h <;> omega
      · refine ⟨y, by simp [hg], ?_⟩
        simp only [optGt, SimEvent.gt, keyLt, Bool.or_eq_true, Bool.and_eq_true, decide_eq_true_eq, beq_iff_eq] at hg
        rcases h with h | h <;> cases h <;> omega

/-- `EventQueue::peek`: if a non-base heap (ordered) holds an event that is already due, the
    reported offset is 0 -/
theorem EventQueue.peek_zero {q : EventQueue} {ds : Nat} {now : Int} {x : Option SimEvent} {qo : Queue} {d : Nat}
    (ho : ∀ qi, HeapInv SimEvent.le (q.heap qi).data) {qi : Queue} (hq : qi ≠ .base) {e0 : SimEvent}
    (he : e0 ∈ (q.heap qi).data) (ht : e0.time ≤ now) (h : q.peek ds now = .ok (x, qo, d)) : d = 0 := by
  obtain ⟨r, hr⟩ := evHeap_peek_of_mem he
  have hrt : r.time ≤ now := Int.le_trans (evHeap_head_time (ho qi) he hr) ht
  unfold EventQueue.peek at h
  by_cases hl : q.len = 0
  · simp only [hl, if_true, Except.ok.injEq, Prod.mk.injEq] at h
    exact h.2.2.symm
  · simp only [hl, if_false] at h
    generalize hF1 : (if optGt q.blocking.peek q.bypassable.peek = true then (q.blocking.peek, Queue.blocking)
      else (q.bypassable.peek, Queue.bypassable)) = F1 at h
    generalize hF2 : (if optGt q.internal.peek F1.fst = true then (q.internal.peek, Queue.internal)
      else (F1.fst, F1.snd)) = F2 at h
    have h2 : ∃ f2, F2.fst = some f2 ∧ f2.time ≤ now := by
      cases qi with
      | base => exact absurd rfl hq
      | internal =>
        obtain ⟨f, hf, hft⟩ := optGt_pick_time (a := q.internal.peek) (b := F1.fst) Queue.internal F1.snd (Or.inl hr)
        rw [hF2] at hf
        exact ⟨f, hf, by omega⟩
      | blocking =>
        obtain ⟨f1, hf1, hft1⟩ := optGt_pick_time (a := q.blocking.peek) (b := q.bypassable.peek)
          Queue.blocking Queue.bypassable (Or.inl hr)
        rw [hF1] at hf1
        obtain ⟨f, hf, hft⟩ := optGt_pick_time (a := q.internal.peek) (b := F1.fst) Queue.internal F1.snd (Or.inr hf1)
        rw [hF2] at hf
        exact ⟨f, hf, by omega⟩
      | bypassable =>
        obtain ⟨f1, hf1, hft1⟩ := optGt_pick_time (a := q.blocking.peek) (b := q.bypassable.peek)
          Queue.blocking Queue.bypassable (Or.inr hr)
        rw [hF1] at hf1
        obtain ⟨f, hf, hft⟩ := optGt_pick_time (a := q.internal.peek) (b := F1.fst) Queue.internal F1.snd (Or.inr hf1)
        rw [hF2] at hf
        exact ⟨f, hf, by omega⟩
    obtain ⟨f2, hf2, hft2⟩ := h2
    by_cases hb : before q.base.peek F2.fst ds = true
    · simp only [hb, if_true] at h
      cases hbp : q.base.peek with
      | none => rw [hbp] at hb; simp [before] at hb
      | some e =>
        simp only [hbp, Except.ok.injEq, Prod.mk.injEq] at h
        rw [hbp, hf2] at hb
        simp only [before, keyLe, Bool.or_eq_true, Bool.and_eq_true, decide_eq_true_eq, beq_iff_eq] at hb
        rw [← h.2.2]
        exact dsince_zero (by omega)
    · simp only [hb, Bool.false_eq_true, if_false] at h
      simp only [hf2, Except.ok.injEq, Prod.mk.injEq] at h
      rw [← h.2.2]
      exact dsince_zero hft2

/-- `SimQueue::peek`: the same for the two sides together -/
theorem SimQueue.peek_zero {s : SimQueue} {cs ss : Nat} {now : Int} {x : Option SimEvent} {qo : Queue} {d : Nat}
    (ho : s.Ord) {c : Bool} {qi : Queue} (hq : qi ≠ .base) {e0 : SimEvent}
    (he : e0 ∈ ((s.side c).heap qi).data) (ht : e0.time ≤ now) (h : s.peek cs ss now = .ok (x, qo, d)) : d = 0 := by
  unfold SimQueue.peek at h
  by_cases hl : s.len = 0
  · simp only [hl, if_true, Except.ok.injEq, Prod.mk.injEq] at h
    exact h.2.2.symm
  · simp only [hl, if_false] at h
    rw [bind_ok_iff] at h
    obtain ⟨⟨ce, cq, cd⟩, h1, h⟩ := h
    rw [bind_ok_iff] at h
    obtain ⟨⟨se, sq', sd⟩, h3, h⟩ := h
    simp only [pure, Except.pure] at h
    -- the side holding the due event reports 0 and a head
    have hside : (c = true → cd = 0 ∧ ce ≠ none) ∧ (c = false → sd = 0 ∧ se ≠ none) := by
      constructor
      · intro hc; subst hc
        refine ⟨EventQueue.peek_zero (fun qj => ho true qj) hq he ht h1, ?_⟩
        rcases EventQueue.peek_total s.client cs now with ⟨h0, _⟩ | ⟨ev, qq, dd, hp⟩
        · exfalso
          have hm : 0 < ((s.side true).heap qi).data.length := List.length_pos_of_mem he
          unfold EventQueue.len Heap.len at h0
          cases qi <;> simp only [EventQueue.heap, SimQueue.side, if_true] at hm <;> omega
        · rw [hp] at h1; cases h1; simp
      · intro hc; subst hc
        refine ⟨EventQueue.peek_zero (fun qj => ho false qj) hq he ht h3, ?_⟩
        rcases EventQueue.peek_total s.server ss now with ⟨h0, _⟩ | ⟨ev, qq, dd, hp⟩
        · exfalso
          have hm : 0 < ((s.side false).heap qi).data.length := List.length_pos_of_mem he
          unfold EventQueue.len Heap.len at h0
          cases qi <;> simp only [EventQueue.heap, SimQueue.side, Bool.false_eq_true, if_false] at hm <;> omega
        · rw [hp] at h3; cases h3; simp
    cases c with
    | true =>
      obtain ⟨hcd, hce⟩ := hside.1 rfl
      cases ce with
      | none => exact absurd rfl hce
      | some cev =>
        cases se with
        | none => simp only [Except.ok.injEq, Prod.mk.injEq] at h; omega
        | some sev =>
          simp only [] at h
          split at h
          · simp only [Except.ok.injEq, Prod.mk.injEq] at h; omega
          · rename_i hn
            simp only [Except.ok.injEq, Prod.mk.injEq] at h
            simp only [Bool.or_eq_true, Bool.and_eq_true, decide_eq_true_eq, beq_iff_eq, not_or, not_and] at hn
            omega
    | false =>
      obtain ⟨hsd, hse⟩ := hside.2 rfl
      cases se with
      | none => exact absurd rfl hse
      | some sev =>
        cases ce with
        | none => simp only [Except.ok.injEq, Prod.mk.injEq] at h; omega
        | some cev =>
          simp only [] at h
          split at h
          · rename_i hn
            simp only [Except.ok.injEq, Prod.mk.injEq] at h
            simp only [Bool.or_eq_true, Bool.and_eq_true, decide_eq_true_eq, beq_iff_eq] at hn
            omega
          · simp only [Except.ok.injEq, Prod.mk.injEq] at h; omega

end Mb.Sim
