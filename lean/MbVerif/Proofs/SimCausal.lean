/-
  Causality of C15 at trace level, in Hall-condition form: for every instant `T`, the number of
  TunnelRecv events of one kind on one side with time ≤ T is at most the number of TunnelSent
  events of the same kind on the other side with time + delay ≤ T.  (For time-sorted lists this
  is equivalent to an injection from receipts to earlier sends at least one delay before.)
-/
import MbVerif.Proofs.SimFuture

namespace Mb.Sim
open Mb

/-- count of a predicate over all heaps of one side's queue -/
def qcount (p : SimEvent → Bool) (q : EventQueue) : Nat :=
  q.base.data.countP p + q.blocking.data.countP p + q.bypassable.data.countP p + q.internal.data.countP p

/-- count over both sides -/
def tcount (p : SimEvent → Bool) (sq : SimQueue) : Nat := qcount p sq.client + qcount p sq.server

theorem push_qcount (p : SimEvent → Bool) (q : EventQueue) (e : SimEvent) :
    qcount p (q.push e) = qcount p q + b2n (p e) := by
  unfold EventQueue.push
  cases hev : e.event <;> simp only [] <;>
    first
    | (split <;> simp only [qcount, EvHeap.push, heap_push_countP] <;> omega)
    | (simp only [qcount, EvHeap.push, heap_push_countP]; omega)

theorem pushSim_tcount (p : SimEvent → Bool) (sq : SimQueue) (e : SimEvent) :
    tcount p (sq.pushSim e) = tcount p sq + b2n (p e) := by
  unfold SimQueue.pushSim SimQueue.setSide SimQueue.side tcount
  cases e.client <;> simp only [if_true, Bool.false_eq_true, if_false] <;> rw [push_qcount] <;> omega

/-- popping removes the head of the named heap; the returned event is that head, possibly with a
    later time -/
theorem pop_qcount (p : SimEvent → Bool) {q q' : EventQueue} {qi : Queue} {ds : Nat} {e : SimEvent}
    (h : q.pop qi ds = .ok (some (e, q'))) :
    ∃ hd, qcount p q = qcount p q' + b2n (p hd) ∧ sameButTime e hd ∧ hd.time ≤ e.time := by
  unfold EventQueue.pop at h
  cases qi with
  | blocking =>
    simp only [] at h
    cases hp : q.blocking.pop with
    | none => simp [hp] at h
    | some pr =>
      obtain ⟨x, hh⟩ := pr
      simp [hp] at h
      obtain ⟨hx, hq⟩ := h
      subst hx; subst hq
      have := (heap_pop_countP p SimEvent.le hp).1
      exact ⟨x, by simp only [qcount]; omega, ⟨rfl, rfl, rfl, rfl, rfl⟩, Int.le_refl _⟩
  | bypassable =>
    simp only [] at h
    cases hp : q.bypassable.pop with
    | none => simp [hp] at h
    | some pr =>
      obtain ⟨x, hh⟩ := pr
      simp [hp] at h
      obtain ⟨hx, hq⟩ := h
      subst hx; subst hq
      have := (heap_pop_countP p SimEvent.le hp).1
      exact ⟨x, by simp only [qcount]; omega, ⟨rfl, rfl, rfl, rfl, rfl⟩, Int.le_refl _⟩
  | internal =>
    simp only [] at h
    cases hp : q.internal.pop with
    | none => simp [hp] at h
    | some pr =>
      obtain ⟨x, hh⟩ := pr
      simp [hp] at h
      obtain ⟨hx, hq⟩ := h
      subst hx; subst hq
      have := (heap_pop_countP p SimEvent.le hp).1
      exact ⟨x, by simp only [qcount]; omega, ⟨rfl, rfl, rfl, rfl, rfl⟩, Int.le_refl _⟩
  | base =>
    simp only [] at h
    cases hp : q.base.pop with
    | none => simp only [hp] at h; split at h <;> cases h
    | some pr =>
      obtain ⟨x, hh⟩ := pr
      simp [hp] at h
      obtain ⟨hx, hq⟩ := h
      subst hx; subst hq
      have := (heap_pop_countP p SimEvent.le hp).1
      exact ⟨x, by simp only [qcount]; omega, ⟨rfl, rfl, rfl, rfl, rfl⟩, by simp; omega⟩

theorem simQueue_pop_tcount (p : SimEvent → Bool) {s s' : SimQueue} {qi : Queue} {cl : Bool} {ds : Nat} {e : SimEvent}
    (h : s.pop qi cl ds = .ok (some (e, s'))) :
    ∃ hd, tcount p s = tcount p s' + b2n (p hd) ∧ sameButTime e hd ∧ hd.time ≤ e.time := by
  unfold SimQueue.pop at h
  rw [bind_ok_iff] at h
  obtain ⟨r, hr, h2⟩ := h
  simp only [pure, Except.pure] at h2
  cases r with
  | none => simp at h2
  | some pr =>
    obtain ⟨x, q'⟩ := pr
    simp at h2
    obtain ⟨hx, hs⟩ := h2
    subst hx; subst hs
    obtain ⟨hd, hc, hsame, hle⟩ := pop_qcount p hr
    refine ⟨hd, ?_, hsame, hle⟩
    cases cl <;> simp only [tcount, SimQueue.side, SimQueue.setSide, if_true, Bool.false_eq_true, if_false] at hc ⊢ <;> omega

/-- a predicate on events that only depends on the time through an upper bound, and only holds
    for TunnelRecv events -/
structure RecvPred (p : SimEvent → Bool) : Prop where
  recv : ∀ e, p e = true → e.event = .tunnelRecv
  mono : ∀ e hd, e.event = hd.event → e.client = hd.client → e.containsPadding = hd.containsPadding →
    hd.time ≤ e.time → p e = true → p hd = true

theorem RecvPred.false_of {p : SimEvent → Bool} (hp : RecvPred p) (e : SimEvent) (h : e.event ≠ .tunnelRecv) :
    p e = false := by
  cases hpe : p e with
  | false => rfl
  | true => exact absurd (hp.recv e hpe) h

section
variable {σ : Type} {p : SimEvent → Bool}

theorem pickQueue_tcount (hp : RecvPred p) {st st' : St σ} {q : Nat} {qid : Queue} {cl : Bool} {e : SimEvent}
    (h : pickQueue st q qid cl = .ok (e, st')) : tcount p st'.sq + b2n (p e) ≤ tcount p st.sq := by
  unfold pickQueue at h
  rw [bind_ok_iff] at h
  obtain ⟨r, hr, h2⟩ := h
  cases r with
  | none => simp at h2
  | some pr =>
    obtain ⟨tmp, sq⟩ := pr
    simp only [pure, Except.pure, Except.ok.injEq, Prod.mk.injEq] at h2
    obtain ⟨he, hst⟩ := h2
    subst hst
    obtain ⟨hd, hc, hsame, hle⟩ := simQueue_pop_tcount p hr
    have hmono : p e = true → p hd = true := by
      intro hpe
      apply hp.mono e hd _ _ _ _ hpe
      · rw [← he]; split <;> exact hsame.1
      · rw [← he]; split <;> exact hsame.2.1
      · rw [← he]; split <;> exact hsame.2.2.1
      · rw [← he]; split
        · simp only []; omega
        · exact hle
    simp only []
    cases hpe : p e with
    | false => simp [b2n]; omega
    | true => rw [hmono hpe] at hc; simp [b2n] at hc ⊢; omega

theorem pickTimer_tcount (hp : RecvPred p) {st st' : St σ} {i : Nat} (h : pickTimer st i = .ok st') :
    tcount p st'.sq = tcount p st.sq := by
  unfold pickTimer at h
  rw [bind_ok_iff] at h
  obtain ⟨⟨ev, st1⟩, h1, h2⟩ := h
  simp only [pure, Except.pure] at h2
  cases h2
  obtain ⟨hsq, hn, ht⟩ := doInternalTimer_ev h1
  have hev : ev.event ≠ .tunnelRecv := by
    unfold doInternalTimer at h1
    split at h1
    · cases h1; simp
    · split at h1
      · cases h1; simp
      · cases h1
  simp only []
  rw [pushSim_tcount, hp.false_of ev hev, hsq]; simp [b2n]

theorem pickAction_tcount (hp : RecvPred p) {st st' : St σ} {s : Nat} (h : pickAction st s = .ok st') :
    tcount p st'.sq = tcount p st.sq := by
  unfold pickAction at h
  rw [bind_ok_iff] at h
  obtain ⟨⟨ev, st1⟩, h1, h2⟩ := h
  simp only [pure, Except.pure] at h2
  cases h2
  obtain ⟨hsq, _, _⟩ := doScheduledAction_ev h1
  have hev : ev.event ≠ .tunnelRecv := by
    obtain ⟨_, _, _, _, _, _, hcase⟩ := doScheduledAction_event h1
    rcases hcase with ⟨_, _, _, m, _, he, _, _⟩ | ⟨_, _, _, _, m, _, he⟩ <;> rw [he] <;> simp
  simp only []
  rw [pushSim_tcount, hp.false_of ev hev, hsq]; simp [b2n]

/-- `pick_next`: the returned event left the queues (or is a BlockingEnd); nothing was added -/
theorem pickNext_tcount (hp : RecvPred p) : ∀ (fuel : Nat) (st st' : St σ) (e : SimEvent),
    pickNext fuel st = some (.ok (some e, st')) → tcount p st'.sq + b2n (p e) ≤ tcount p st.sq := by
  intro fuel
  induction fuel with
  | zero => intro st st' e h; simp [pickNext] at h
  | succ n ih =>
    intro st st' e h
    unfold pickNext at h
    split at h
    · cases h
    · cases h
    · split at h
      · cases h
      · rename_i st1 h1
        have := ih st1 st' e h
        rw [pickAgg_sq h1] at this; exact this
    · split at h
      · cases h
      · rename_i e1 st1 h1
        cases h
        rw [pickBlockExp_sq h1, hp.false_of _ (by rw [pickBlockExp_ev h1]; simp)]
        simp [b2n]
    · split at h
      · cases h
      · rename_i e1 st1 h1
        cases h
        exact pickQueue_tcount hp h1
    · split at h
      · cases h
      · rename_i st1 h1
        have := ih st1 st' e h
        rw [pickTimer_tcount hp h1] at this; exact this
    · split at h
      · cases h
      · rename_i st1 h1
        have := ih st1 st' e h
        rw [pickAction_tcount hp h1] at this; exact this

theorem applyActions_tcount (hp : RecvPred p) : ∀ (acts : List TAction) (sd sd' : Side σ) (sq sq' : SimQueue)
    (now : Int) (cl : Bool), applyActions sd sq now cl acts = .ok (sd', sq') → tcount p sq' = tcount p sq := by
  intro acts
  induction acts with
  | nil => intro sd sd' sq sq' now cl h; simp only [applyActions] at h; cases h; rfl
  | cons a r ih =>
    intro sd sd' sq sq' now cl h
    simp only [applyActions] at h
    rw [bind_ok_iff] at h
    obtain ⟨⟨sd1, sq1⟩, h1, h2⟩ := h
    rw [ih sd1 sd' sq1 sq' now cl h2]
    rcases C18_aux h1 with hq | ⟨m, hq⟩
    · rw [hq]
    · rw [hq, pushSim_tcount, hp.false_of _ (by simp)]; simp [b2n]

end
end Mb.Sim

namespace Mb.Sim
open Mb

/-- a TunnelRecv of kind `pd` on side `c` with time at most `T` -/
def recvP (c pd : Bool) (T : Int) (e : SimEvent) : Bool :=
  e.event == .tunnelRecv && e.client == c && e.containsPadding == pd && decide (e.time ≤ T)

/-- a TunnelSent of kind `pd` on the other side, at least `d` before `T` -/
def sendP (c pd : Bool) (T : Int) (d : Nat) (e : SimEvent) : Bool :=
  e.event == .tunnelSent && e.client == !c && e.containsPadding == pd && decide (e.time + d ≤ T)

theorem recvP_pred (c pd : Bool) (T : Int) : RecvPred (recvP c pd T) := by
  constructor
  · intro e h
    simp only [recvP, Bool.and_eq_true, beq_iff_eq] at h
    exact h.1.1.1
  · intro e hd h1 h2 h3 h4 h
    simp only [recvP, Bool.and_eq_true, beq_iff_eq, decide_eq_true_eq] at h ⊢
    refine ⟨⟨⟨by rw [← h1]; exact h.1.1.1, by rw [← h2]; exact h.1.1.2⟩, by rw [← h3]; exact h.1.2⟩, by omega⟩

theorem replaceAgg_network {sq : SimQueue} {next entry : SimEvent} {net net' : Bottleneck} {now : Int}
    (h : replaceAgg sq next entry net now = .ok net') : net'.network = net.network := by
  unfold replaceAgg at h
  split at h
  · exact pushAggregateDelay_network h
  · cases h; rfl

/-- the network stack adds at most one TunnelRecv, only for a TunnelSent, at least one delay later -/
theorem simNetworkStack_causal (c pd : Bool) (T : Int) {next : SimEvent} {sq sq' : SimQueue} {byp : Bool}
    {net net' : Bottleneck} {now : Int} {na : Bool}
    (h : simNetworkStack next sq byp net now = .ok (na, sq', net')) :
    tcount (recvP c pd T) sq' ≤ tcount (recvP c pd T) sq + b2n (sendP c pd T net.network.delay next) ∧
    net'.network = net.network := by
  have hp := recvP_pred c pd T
  unfold simNetworkStack at h
  split at h
  · rename_i hev
    cases h
    rw [pushSim_tcount, hp.false_of _ (by simp)]
    exact ⟨by simp [b2n], rfl⟩
  · rename_i m hev
    rw [map_ok_iff] at h
    obtain ⟨⟨sq1, net1⟩, h1, h2⟩ := h
    cases h2
    have hnet : net1.network = net.network := by
      unfold netPaddingSent at h1
      simp only [] at h1
      split at h1
      · split at h1
        · split at h1
          · split at h1
            · cases h1; rfl
            · unfold replaceBypass at h1
              rw [bind_ok_iff] at h1
              obtain ⟨r, _, h1⟩ := h1
              cases r with
              | none => simp at h1
              | some pr =>
                obtain ⟨entry, sq2⟩ := pr
                simp only [] at h1
                rw [bind_ok_iff] at h1
                obtain ⟨n2, hn2, h1⟩ := h1
                simp only [pure, Except.pure] at h1
                cases h1
                have := replaceAgg_network hn2
                simpa using this
          · cases h1; rfl
        · cases h1; rfl
      · cases h1; rfl
    refine ⟨?_, hnet⟩
    rcases netPaddingSent_spec h1 with hq | hq | ⟨qid, entry, sq2, hpop, hq⟩
    · rw [hq, pushSim_tcount, hp.false_of _ (by simp)]; simp [b2n]
    · rw [hq]; simp only []; omega
    · rw [hq, pushSim_tcount]
      have hpop' : ∃ qi ds, sq.pop qi next.client ds = .ok (some (entry, sq2)) := by
        unfold SimQueue.popBlocking at hpop
        split at hpop
        · exact ⟨_, _, hpop⟩
        · exact ⟨_, _, hpop⟩
      obtain ⟨qi, ds, hpp⟩ := hpop'
      obtain ⟨hd, hc, hsame, hle⟩ := simQueue_pop_tcount (recvP c pd T) hpp
      have hmono : recvP c pd T { entry with bypass := true, replace := false } = true → recvP c pd T hd = true :=
        hp.mono _ hd hsame.1 hsame.2.1 hsame.2.2.1 hle
      cases hpe : recvP c pd T { entry with bypass := true, replace := false } with
      | false => simp [b2n]; omega
      | true => rw [hmono hpe] at hc; simp [b2n] at hc ⊢; omega
  · rename_i hev
    rw [map_ok_iff] at h
    obtain ⟨⟨sq1, net1⟩, h1, h2⟩ := h
    cases h2
    obtain ⟨t, hq, hle⟩ := netTunnelSent_spec h1
    have hnet : net1.network = net.network := by
      unfold netTunnelSent at h1
      rw [bind_ok_iff] at h1
      obtain ⟨⟨r, n1⟩, hs, h1⟩ := h1
      rw [bind_ok_iff] at h1
      obtain ⟨n2, hn2, h1⟩ := h1
      simp only [pure, Except.pure] at h1
      cases h1
      rw [ppsAgg_network hn2, (sample_spec hs).2]
    refine ⟨?_, hnet⟩
    rw [hq, pushSim_tcount]
    apply Nat.add_le_add_left
    unfold b2n
    by_cases hr : recvP c pd T ⟨.tunnelRecv, t, !next.client, next.containsPadding, false, false⟩ = true
    · have hs : sendP c pd T net.network.delay next = true := by
        simp only [recvP, sendP, Bool.and_eq_true, beq_iff_eq, decide_eq_true_eq] at hr ⊢
        refine ⟨⟨⟨hev, ?_⟩, hr.1.2⟩, by omega⟩
        have := hr.1.1.2
        cases hc : next.client <;> cases c <;> simp_all
      simp [hr, hs]
    · simp [hr]
  · rename_i hev
    split at h
    · cases h
      rw [pushSim_tcount, hp.false_of _ (by simp)]
      exact ⟨by simp [b2n], rfl⟩
    · cases h
      rw [pushSim_tcount, hp.false_of _ (by simp)]
      exact ⟨by simp [b2n], rfl⟩
  · cases h
    exact ⟨by omega, rfl⟩

section
variable {σ : Type} (ρ : Oracle σ)

theorem pickNext_network : ∀ (fuel : Nat) (st st' : St σ) (e : Option SimEvent),
    pickNext fuel st = some (.ok (e, st')) → st'.net.network = st.net.network := by
  intro fuel
  induction fuel with
  | zero => intro st st' e h; simp [pickNext] at h
  | succ n ih =>
    intro st st' e h
    unfold pickNext at h
    split at h
    · cases h
    · cases h; rfl
    · split at h
      · cases h
      · rename_i st1 h1
        rw [ih _ _ _ h]
        unfold pickAgg at h1
        split at h1
        · cases h1
        rw [bind_ok_iff] at h1
        obtain ⟨net, hn, h2⟩ := h1
        simp only [pure, Except.pure] at h2
        cases h2
        unfold Bottleneck.popAggregateDelay at hn
        split at hn
        · cases hn; rfl
        · split at hn
          · rw [bind_ok_iff] at hn
            obtain ⟨v, _, hn⟩ := hn
            simp only [pure, Except.pure] at hn
            cases hn; rfl
          · rw [bind_ok_iff] at hn
            obtain ⟨v, _, hn⟩ := hn
            simp only [pure, Except.pure] at hn
            cases hn; rfl
    · split at h
      · cases h
      · rename_i e1 st1 h1
        cases h
        unfold pickBlockExp at h1
        rw [bind_ok_iff] at h1
        obtain ⟨net, hn, h2⟩ := h1
        simp only [pure, Except.pure] at h2
        cases h2
        simp only []
        unfold blockExpNet at hn
        split at hn
        · split at hn
          · split at hn
            · exact pushAggregateDelay_network hn
            · cases hn; rfl
          · cases hn; rfl
        · cases hn; rfl
    · split at h
      · cases h
      · rename_i e1 st1 h1
        cases h
        unfold pickQueue at h1
        rw [bind_ok_iff] at h1
        obtain ⟨r, _, h2⟩ := h1
        cases r with
        | none => simp at h2
        | some pr =>
          obtain ⟨tmp, sq⟩ := pr
          simp only [pure, Except.pure] at h2
          cases h2
          simp only []
          split <;> rfl
    · split at h
      · cases h
      · rename_i st1 h1
        rw [ih _ _ _ h]
        unfold pickTimer at h1
        rw [bind_ok_iff] at h1
        obtain ⟨⟨ev, st2⟩, h3, h2⟩ := h1
        simp only [pure, Except.pure] at h2
        cases h2
        unfold doInternalTimer at h3
        split at h3
        · cases h3; rfl
        · split at h3
          · cases h3; rfl
          · cases h3
    · split at h
      · cases h
      · rename_i st1 h1
        rw [ih _ _ _ h]
        unfold pickAction at h1
        rw [bind_ok_iff] at h1
        obtain ⟨⟨ev, st2⟩, h3, h2⟩ := h1
        simp only [pure, Except.pure] at h2
        cases h2
        unfold doScheduledAction at h3
        split at h3
        · cases h3
        · split at h3
          · cases h3
          · cases h3
          · cases h3; simp
          · cases h3; simp

/-- one iteration of the main loop respects causality -/
theorem step_causal (c pd : Bool) (T : Int) {st st' : St σ} {r : StepRec} (h : step ρ st = .ok (some (r, st'))) :
    tcount (recvP c pd T) st'.sq + b2n (recvP c pd T r.ev) ≤
      tcount (recvP c pd T) st.sq + b2n (sendP c pd T st.net.network.delay r.ev) ∧
    st'.net.network = st.net.network := by
  have hp := recvP_pred c pd T
  unfold step at h
  rw [bind_ok_iff] at h
  obtain ⟨⟨next, st1⟩, hpn, h2⟩ := h
  have hp' : pickNext (pickMeasure st + 1) st = some (.ok (next, st1)) := by
    cases hpn' : pickNext (pickMeasure st + 1) st with
    | none => simp [hpn'] at hpn
    | some x => simp [hpn'] at hpn; rw [hpn]
  cases next with
  | none => simp [pure, Except.pure] at h2
  | some next =>
    have hc1 := pickNext_tcount hp _ _ _ _ hp'
    have hn1 := pickNext_network _ _ _ _ hp'
    simp only [] at h2
    split at h2
    · cases h2
    · rw [bind_ok_iff] at h2
      obtain ⟨⟨na, sq, net⟩, hs, h3⟩ := h2
      rw [bind_ok_iff] at h3
      obtain ⟨⟨acts, st2⟩, ht, h4⟩ := h3
      simp only [pure, Except.pure, Except.ok.injEq, Option.some.injEq, Prod.mk.injEq] at h4
      obtain ⟨hr, hst⟩ := h4
      subst hr; subst hst
      have hc2 := simNetworkStack_causal c pd T hs
      -- trigger_update
      unfold triggerUpdate at ht
      simp only [] at ht
      split at ht
      · cases ht
      · rw [bind_ok_iff] at ht
        obtain ⟨⟨sd, sq2⟩, h5, h6⟩ := ht
        simp only [pure, Except.pure] at h6
        cases h6
        have hc3 := applyActions_tcount hp _ _ _ _ _ _ _ h5
        simp only [] at hc2 hc3 ⊢
        refine ⟨?_, ?_⟩
        · rw [hc3]
          have := hc2.1
          rw [hn1] at this
          omega
        · simp only [setSide_net]
          rw [hc2.2, hn1]

/-- **Causality along the loop** (Hall form): receipts processed from here on are covered by
    receipts already queued plus sends processed from here on -/
theorem loop_causal (args : Args) (c pd : Bool) (T : Int) : ∀ (fuel : Nat) (st : St σ) (iters cnt : Nat),
    (loop ρ args fuel st iters cnt).stream.countP (fun r => recvP c pd T r.ev) ≤
      tcount (recvP c pd T) st.sq +
        (loop ρ args fuel st iters cnt).stream.countP (fun r => sendP c pd T st.net.network.delay r.ev) := by
  intro fuel
  induction fuel with
  | zero => intro st iters cnt; simp [loop]
  | succ n ih =>
    intro st iters cnt
    cases hs : step ρ st with
    | error f => simp [loop, hs]
    | ok o =>
      cases o with
      | none => simp [loop, hs]
      | some pr =>
        obtain ⟨r, st'⟩ := pr
        have hsc := step_causal ρ c pd T hs
        rw [loop_succ_some ρ args n st st' iters cnt r hs]
        cases hstop : stopCheck args st' iters (bump args r cnt) with
        | some s =>
          simp only [List.countP_cons, List.countP_nil]
          have := hsc.1
          unfold b2n at this
          split at this <;> split at this <;> simp_all <;> omega
        | none =>
          simp only [List.countP_cons]
          have ih' := ih st' (iters + 1) (bump args r cnt)
          rw [hsc.2] at ih'
          have := hsc.1
          unfold b2n at this
          split at this <;> split at this <;> simp_all <;> omega

/-- a parsed trace holds no TunnelRecv -/
theorem parseTrace_no_recv (p : SimEvent → Bool) (hp : RecvPred p) (trace : List TraceLine) (delay : Nat) :
    tcount p (parseTrace trace delay) = 0 := by
  unfold parseTrace
  simp only []
  have key : ∀ (tr : List TraceLine) (acc : ParseAcc), tcount p acc.sq = 0 →
      tcount p (tr.foldl (fun (acc : ParseAcc) (l : TraceLine) =>
        let ts : Int := l.1
        if l.2 then
          let sq := acc.sq.pushSim ⟨.normalSent, ts, true, false, false, false⟩
          let (m, w) := acc.sentW.add ts
          { acc with sq := sq, sentW := w, sentMax := if m > acc.sentMax then m else acc.sentMax }
        else
          let sq := acc.sq.pushSim ⟨.normalSent, ts - delay, false, false, false, false⟩
          let (m, w) := acc.recvW.add ts
          { acc with sq := sq, recvW := w, recvMax := if m > acc.recvMax then m else acc.recvMax }) acc).sq = 0 := by
    intro tr
    induction tr with
    | nil => intro acc h; exact h
    | cons l ls ih =>
      intro acc h
      simp only [List.foldl_cons]
      apply ih
      by_cases hl : l.2 = true
      · simp only [hl, if_true]
        rw [pushSim_tcount, hp.false_of _ (by simp), h]; rfl
      · have hl' : l.2 = false := by simpa using hl
        simp only [hl', Bool.false_eq_true, if_false]
        rw [pushSim_tcount, hp.false_of _ (by simp), h]; rfl
  have := key trace ⟨SimQueue.empty, ⟨Gen.SIM_PARSE_WINDOW_NS, []⟩, ⟨Gen.SIM_PARSE_WINDOW_NS, []⟩, 0, 0⟩ rfl
  simpa [tcount] using this

end
end Mb.Sim

namespace Mb.Sim
open Mb

section
variable {σ : Type} (ρ : Oracle σ)

theorem initState_network {mc ms : List Machine} {sq : SimQueue} {a : Args} {orc : σ} {st : St σ}
    (h : initState ρ mc ms sq a orc = .ok st) : st.net.network = a.network := by
  unfold initState at h
  rw [bind_ok_iff] at h
  obtain ⟨t0, _, h⟩ := h
  rw [bind_ok_iff] at h
  obtain ⟨⟨c, o1⟩, _, h⟩ := h
  rw [bind_ok_iff] at h
  obtain ⟨⟨s, o2⟩, _, h⟩ := h
  rw [bind_ok_iff] at h
  obtain ⟨net, hn, h⟩ := h
  simp only [pure, Except.pure] at h
  cases h
  unfold Bottleneck.new at hn
  simp only [] at hn
  split at hn
  · cases hn
  · cases hn; rfl

end
end Mb.Sim
