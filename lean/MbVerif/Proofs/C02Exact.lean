/-
  C02: the fraction comparison the code performs in doubles agrees with the exact rational
  comparison of the specification, for packet counts below 2^53.
-/
import MbVerif.Proofs.C02
import MbVerif.Proofs.Fp

namespace Mb
open Fp

theorem rep_nat (n : Nat) (h : n < 2 ^ 53) : Rep 53 (-1074) (n : ℚ) := by
  refine ⟨(n : Int), 0, by decide, ?_, by simp [pow2_zero]⟩
  have : |(n : Int)| = (n : Int) := abs_of_nonneg (Int.natCast_nonneg n)
  rw [this]
  exact_mod_cast h

theorem ofNat_exact (n : Nat) (h : n < 2 ^ 53) : ofNat f64 n = .fin (n : ℚ) := by
  unfold ofNat
  have hpow : ((2 : ℚ) ^ (53 : ℕ)) ≤ pow2 1024 := by
    rw [pow2_eq_zpow]
    have : (2 : ℚ) ^ (53 : ℕ) = (2 : ℚ) ^ ((53 : ℕ) : ℤ) := by norm_cast
    rw [this]
    exact zpow_le_zpow_right₀ (by norm_num) (by decide)
  have hn : (n : ℚ) < pow2 1024 := by
    have : (n : ℚ) < (2 : ℚ) ^ (53 : ℕ) := by exact_mod_cast h
    linarith
  have hn0 : (0 : ℚ) ≤ n := by exact_mod_cast Nat.zero_le n
  have hem : f64.emax = 1024 := rfl
  exact Fmt.round_eq_self_of_rep f64 (rep_nat n h) (by rw [hem]; exact hn)
    (by rw [hem]; have := pow2_pos 1024; linarith)

theorem countP_disjoint_le {α : Type} (p q : α → Bool) (h : ∀ x, ¬(p x = true ∧ q x = true)) (l : List α) :
    l.countP p + l.countP q ≤ l.length := by
  induction l with
  | nil => simp
  | cons a l ih =>
    simp only [List.countP_cons, List.length_cons]
    have := h a
    cases hp : p a <;> cases hq : q a <;> simp_all <;> omega

theorem counts_le (mi : Nat) (evs : List TEvent) :
    C02.countPad mi evs + C02.countNormal evs ≤ evs.length ∧
    C02.countPadAll evs + C02.countNormal evs ≤ evs.length := by
  unfold C02.countPad C02.countNormal C02.countPadAll
  constructor
  · exact countP_disjoint_le _ _ (fun x => by cases x <;> simp) evs
  · exact countP_disjoint_le _ _ (fun x => by cases x <;> simp) evs

/-- the double comparison is at least as strict as the exact one -/
theorem below_exact (p tot : Nat) (f : F64) (ht : tot < 2 ^ 53) (hp : p ≤ tot)
    (h : belowF p tot f = true) : C02.below p tot f = true := by
  unfold C02.below
  cases hv : val64 f with
  | nan => rfl
  | inf b => cases b <;> rfl
  | fin q =>
    simp only []
    by_cases hq : q > 0
    · rw [if_pos hq]
      by_cases ht0 : tot = 0
      · simp [ht0]
      · have htpos : 0 < tot := Nat.pos_of_ne_zero ht0
        have hbeq : (tot == 0) = false := by simpa using ht0
        simp only [hbeq, Bool.false_or, decide_eq_true_eq]
        by_contra hcon
        have hle : q ≤ (p : ℚ) / (tot : ℚ) := not_lt.mp hcon
        -- then the code's comparison would have denied
        unfold belowF at h
        rw [hv] at h
        have hgt : gt (.fin q) (.fin 0) = true := by simp [gt, lt, hq]
        have hdiv : div f64 (ofNat f64 p) (ofNat f64 tot) = f64.round ((p : ℚ) / (tot : ℚ)) := by
          rw [ofNat_exact p (lt_of_le_of_lt hp ht), ofNat_exact tot ht]
          have : (tot : ℚ) ≠ 0 := by exact_mod_cast ht0
          simp [div, this]
        have hge : ge (div f64 (ofNat f64 p) (ofNat f64 tot)) (.fin q) = true := by
          rw [hdiv]
          unfold ge
          have := Fmt.round_mono f64 (by decide) hle
          rw [val64_round_self f hv] at this
          exact this
        simp [hgt, htpos, hge] at h
    · rw [if_neg hq]

end Mb
