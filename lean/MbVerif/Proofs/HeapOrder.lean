/-
  The order invariant of the heap model (`Sim/Heap.lean`) for an arbitrary comparison that is a
  total preorder: in the array layout every element is `≤` its parent.  `push` and `pop` keep it,
  the root is a maximum, hence `pop` returns a maximum of the old heap and everything that stays
  is `≤` the popped element.

  The proofs follow the `Hole` of the Rust code: `HoleInv d pos` says that `d` is heap ordered on
  every edge that does not touch `pos` (the entry at `pos` is garbage) and that the children of
  `pos` are `≤` the parent of `pos` (so the hole can be filled by anything between them).
-/
import MbVerif.Proofs.HeapCount

namespace Mb.Sim
open Mb

section
variable {α : Type}

/-- the comparison is a total preorder (what Rust's `Ord` promises for `<=`) -/
structure TotalPre (le : α → α → Bool) : Prop where
  total : ∀ a b, le a b = true ∨ le b a = true
  trans : ∀ a b c, le a b = true → le b c = true → le a c = true

theorem TotalPre.refl {le : α → α → Bool} (tp : TotalPre le) (a : α) : le a a = true := by
  cases tp.total a a <;> assumption

/-- heap order in array layout: every element is ≤ its parent -/
def HeapInv (le : α → α → Bool) (d : List α) : Prop :=
  ∀ i (hi : i < d.length), 0 < i → le d[i] (d[(i - 1) / 2]'(by omega)) = true

/-- the same with `getElem?` (the form the proofs work with) -/
def HeapInvQ (le : α → α → Bool) (d : List α) : Prop :=
  ∀ i a p, 0 < i → d[i]? = some a → d[(i - 1) / 2]? = some p → le a p = true

theorem heapInv_iff (le : α → α → Bool) (d : List α) : HeapInv le d ↔ HeapInvQ le d := by
  constructor
  · intro h i a p hi0 ha hp
    obtain ⟨hi, rfl⟩ := List.getElem?_eq_some_iff.1 ha
    obtain ⟨_, rfl⟩ := List.getElem?_eq_some_iff.1 hp
    exact h i hi hi0
  · intro h i hi hi0
    exact h i _ _ hi0 (List.getElem?_eq_getElem hi) (List.getElem?_eq_getElem (by omega))

theorem heapInv_empty (le : α → α → Bool) : HeapInv le [] := by
  intro i hi; simp at hi

/-- heap order everywhere except at `pos`, whose entry is arbitrary; the children of `pos` are
    `≤` the parent of `pos` -/
structure HoleInv (le : α → α → Bool) (d : List α) (pos : Nat) : Prop where
  edge : ∀ i a p, 0 < i → i ≠ pos → (i - 1) / 2 ≠ pos → d[i]? = some a → d[(i - 1) / 2]? = some p →
    le a p = true
  skip : ∀ c a p, 0 < pos → 0 < c → (c - 1) / 2 = pos → d[c]? = some a → d[(pos - 1) / 2]? = some p →
    le a p = true

variable {le : α → α → Bool}

theorem holeInv_of_heapInvQ {d : List α} (h : HeapInvQ le d) : HoleInv le d 0 :=
  ⟨fun i a p hi0 _ _ ha hp => h i a p hi0 ha hp, fun _ _ _ h0 => absurd h0 (by omega)⟩

/-- filling the hole with something between the children and the parent gives a heap -/
theorem heapInvQ_fill {d : List α} {pos : Nat} {x : α} (hinv : HoleInv le d pos) (hpos : pos < d.length)
    (hch : ∀ c a, 0 < c → (c - 1) / 2 = pos → d[c]? = some a → le a x = true)
    (hpar : 0 < pos → ∀ p, d[(pos - 1) / 2]? = some p → le x p = true) :
    HeapInvQ le (d.set pos x) := by
  intro i a p hi0 ha hp
  by_cases hip : i = pos
  · subst hip
    rw [List.getElem?_set_self hpos] at ha
    rw [List.getElem?_set_ne (by omega)] at hp
    cases ha
    exact hpar hi0 p hp
  · rw [List.getElem?_set_ne (by omega)] at ha
    by_cases hpp : (i - 1) / 2 = pos
    · rw [hpp, List.getElem?_set_self hpos] at hp
      cases hp
      exact hch i a hi0 hpp ha
    · rw [List.getElem?_set_ne (by omega)] at hp
      exact hinv.edge i a p hi0 hip hpp ha hp

/-- one step of `sift_up`: the parent's value goes into the hole, the hole moves to the parent -/
theorem holeInv_up (tp : TotalPre le) {d : List α} {pos : Nat} {pp : α} (hinv : HoleInv le d pos)
    (hpos0 : 0 < pos) (hposl : pos < d.length) (hq : d[(pos - 1) / 2]? = some pp) :
    HoleInv le (d.set pos pp) ((pos - 1) / 2) := by
  constructor
  · intro i a p hi0 hiq hpq ha hp
    have hip : i ≠ pos := by intro h; subst h; exact hpq rfl
    rw [List.getElem?_set_ne (by omega)] at ha
    by_cases hpp : (i - 1) / 2 = pos
    · rw [hpp, List.getElem?_set_self hposl] at hp
      cases hp
      exact hinv.skip i a _ hpos0 hi0 hpp ha hq
    · rw [List.getElem?_set_ne (by omega)] at hp
      exact hinv.edge i a p hi0 hip hpp ha hp
  · intro c a p hq0 hc0 hcq ha hp
    rw [List.getElem?_set_ne (by omega)] at hp
    have h1 : le pp p = true :=
      hinv.edge ((pos - 1) / 2) pp p hq0 (by omega) (by omega) hq hp
    by_cases hcp : c = pos
    · subst hcp
      rw [List.getElem?_set_self hposl] at ha
      cases ha
      exact h1
    · rw [List.getElem?_set_ne (by omega)] at ha
      have h2 : le a pp = true :=
        hinv.edge c a pp hc0 hcp (by omega) ha (by rw [hcq]; exact hq)
      exact tp.trans _ _ _ h2 h1

/-- `sift_up(0, pos)` closes the hole -/
theorem siftUp_heapInvQ (tp : TotalPre le) (x : α) : ∀ (fuel : Nat) (d : List α) (pos : Nat),
    pos < d.length → pos < fuel → HoleInv le d pos →
    (∀ c a, 0 < c → (c - 1) / 2 = pos → d[c]? = some a → le a x = true) →
    HeapInvQ le (Heap.siftUp le x fuel d 0 pos) := by
  intro fuel
  induction fuel with
  | zero => intro d pos _ h; omega
  | succ n ih =>
    intro d pos hpos hfuel hinv hch
    unfold Heap.siftUp
    split
    · rename_i hgt
      simp only []
      have hpar : (pos - 1) / 2 < pos := by omega
      cases hd : d[(pos - 1) / 2]? with
      | none =>
        have := List.getElem?_eq_none_iff.1 hd
        omega
      | some pp =>
        simp only []
        split
        · rename_i hle
          refine heapInvQ_fill hinv hpos hch ?_
          intro _ p hp
          rw [hd] at hp; cases hp; exact hle
        · rename_i hle
          have hpx : le pp x = true := by
            cases tp.total pp x with
            | inl h => exact h
            | inr h => exact absurd h hle
          refine ih (d.set pos pp) ((pos - 1) / 2) (by simp; omega) (by omega)
            (holeInv_up tp hinv hgt hpos hd) ?_
          intro c a hc0 hcq ha
          by_cases hcp : c = pos
          · subst hcp
            rw [List.getElem?_set_self hpos] at ha
            cases ha
            exact hpx
          · rw [List.getElem?_set_ne (by omega)] at ha
            have h2 : le a pp = true :=
              hinv.edge c a pp hc0 hcp (by omega) ha (by rw [hcq]; exact hd)
            exact tp.trans _ _ _ h2 hpx
    · rename_i hgt
      refine heapInvQ_fill hinv hpos hch ?_
      intro h0; omega

/-- one step of the descent: the child `c` (which is `≥` its sibling) goes into the hole, the hole
    moves to `c` -/
theorem holeInv_down {d : List α} {hole c : Nat} {v : α} (hinv : HoleInv le d hole)
    (hh : hole < d.length) (hc0 : 0 < c) (hch : (c - 1) / 2 = hole) (hv : d[c]? = some v)
    (hsib : ∀ s w, 0 < s → (s - 1) / 2 = hole → s ≠ c → d[s]? = some w → le w v = true) :
    HoleInv le (d.set hole v) c := by
  constructor
  · intro i a p hi0 hic hpc ha hp
    by_cases hih : i = hole
    · subst hih
      rw [List.getElem?_set_self hh] at ha
      cases ha
      rw [List.getElem?_set_ne (by omega)] at hp
      exact hinv.skip c _ p hi0 hc0 hch hv hp
    · rw [List.getElem?_set_ne (by omega)] at ha
      by_cases hph : (i - 1) / 2 = hole
      · rw [hph, List.getElem?_set_self hh] at hp
        cases hp
        exact hsib i a hi0 hph hic ha
      · rw [List.getElem?_set_ne (by omega)] at hp
        exact hinv.edge i a p hi0 hih hph ha hp
  · intro k a p _ hk0 hkc ha hp
    rw [List.getElem?_set_ne (by omega)] at ha
    rw [hch, List.getElem?_set_self hh] at hp
    cases hp
    exact hinv.edge k a _ hk0 (by omega) (by omega) ha (by rw [hkc]; exact hv)

/-- the descent keeps the hole invariant and ends at a leaf -/
theorem siftDownLoop_holeInv (tp : TotalPre le) : ∀ (fuel : Nat) (d : List α) (endd hole : Nat),
    endd = d.length → hole < d.length → d.length ≤ fuel + 2 * hole + 1 → HoleInv le d hole →
    (Heap.siftDownLoop le fuel d endd hole).1.length = d.length ∧
    (Heap.siftDownLoop le fuel d endd hole).2 < d.length ∧
    d.length ≤ 2 * (Heap.siftDownLoop le fuel d endd hole).2 + 1 ∧
    HoleInv le (Heap.siftDownLoop le fuel d endd hole).1 (Heap.siftDownLoop le fuel d endd hole).2 := by
  intro fuel
  induction fuel with
  | zero =>
    intro d endd hole he hh hf hinv
    simp only [Heap.siftDownLoop]
    exact ⟨trivial, hh, by omega, hinv⟩
  | succ n ih =>
    intro d endd hole he hh hf hinv
    unfold Heap.siftDownLoop
    simp only []
    split
    · rename_i hc
      cases ha : d[2 * hole + 1]? with
      | none => have := List.getElem?_eq_none_iff.1 ha; omega
      | some a =>
        cases hb : d[2 * hole + 1 + 1]? with
        | none => have := List.getElem?_eq_none_iff.1 hb; omega
        | some b =>
          simp only []
          have hca : 2 * hole + 1 < d.length := (List.getElem?_eq_some_iff.1 ha).1
          have hcb : 2 * hole + 1 + 1 < d.length := (List.getElem?_eq_some_iff.1 hb).1
          by_cases hle : le a b = true
          · simp only [hle, if_true]
            have hd : HoleInv le (d.set hole b) (2 * hole + 1 + 1) := by
              refine holeInv_down hinv hh (by omega) (by omega) hb ?_
              intro s w hs0 hsh hsc hw
              have : s = 2 * hole + 1 := by omega
              subst this
              rw [ha] at hw; cases hw; exact hle
            have := ih (d.set hole b) endd (2 * hole + 1 + 1) (by simp [he]) (by simpa using hcb)
              (by simp; omega) hd
            simp only [List.length_set] at this
            exact this
          · simp only [hle, Bool.false_eq_true, if_false]
            have hba : le b a = true := by
              cases tp.total a b with
              | inl h => exact absurd h hle
              | inr h => exact h
            have hd : HoleInv le (d.set hole a) (2 * hole + 1) := by
              refine holeInv_down hinv hh (by omega) (by omega) ha ?_
              intro s w hs0 hsh hsc hw
              have : s = 2 * hole + 1 + 1 := by omega
              subst this
              rw [hb] at hw; cases hw; exact hba
            have := ih (d.set hole a) endd (2 * hole + 1) (by simp [he]) (by simpa using hca)
              (by simp; omega) hd
            simp only [List.length_set] at this
            exact this
    · rename_i hc
      split
      · rename_i hc1
        cases ha : d[2 * hole + 1]? with
        | none => have := List.getElem?_eq_none_iff.1 ha; omega
        | some a =>
          simp only []
          have hca : 2 * hole + 1 < d.length := (List.getElem?_eq_some_iff.1 ha).1
          refine ⟨by simp, hca, by omega, ?_⟩
          refine holeInv_down hinv hh (by omega) (by omega) ha ?_
          intro s w hs0 hsh hsc hw
          have := (List.getElem?_eq_some_iff.1 hw).1
          omega
      · exact ⟨rfl, hh, by omega, hinv⟩

theorem siftDownToBottom_heapInvQ (tp : TotalPre le) (x : α) (d : List α) (h : 0 < d.length)
    (hinv : HeapInvQ le d) : HeapInvQ le (Heap.siftDownToBottom le x d) := by
  unfold Heap.siftDownToBottom
  simp only []
  obtain ⟨h1, h2, h3, h4⟩ :=
    siftDownLoop_holeInv tp d.length d d.length 0 rfl h (by omega) (holeInv_of_heapInvQ hinv)
  refine siftUp_heapInvQ tp x _ _ _ (by omega) (by omega) h4 ?_
  intro c a hc0 hcq ha
  have := (List.getElem?_eq_some_iff.1 ha).1
  omega

theorem heapInvQ_prefix {d : List α} {y : α} (h : HeapInvQ le (d ++ [y])) : HeapInvQ le d := by
  intro i a p hi0 ha hp
  have hi := (List.getElem?_eq_some_iff.1 ha).1
  have hpl := (List.getElem?_eq_some_iff.1 hp).1
  refine h i a p hi0 ?_ ?_
  · rw [List.getElem?_append_left hi]; exact ha
  · rw [List.getElem?_append_left hpl]; exact hp

/-- 1. `push` keeps the heap order -/
theorem heapInv_push (tp : TotalPre le) {h : Heap α} (x : α) (hinv : HeapInv le h.data) :
    HeapInv le (Heap.push le h x).data := by
  rw [heapInv_iff] at hinv ⊢
  unfold Heap.push
  simp only []
  refine siftUp_heapInvQ tp x _ _ _ (by simp) (by omega) ?_ ?_
  · constructor
    · intro i a p hi0 hil hpl ha hp
      have hi := (List.getElem?_eq_some_iff.1 ha).1
      simp only [List.length_append, List.length_singleton] at hi
      have hi' : i < h.data.length := by omega
      rw [List.getElem?_append_left hi'] at ha
      rw [List.getElem?_append_left (by omega)] at hp
      exact hinv i a p hi0 ha hp
    · intro c a p _ hc0 hcq ha _
      have hi := (List.getElem?_eq_some_iff.1 ha).1
      simp only [List.length_append, List.length_singleton] at hi
      omega
  · intro c a hc0 hcq ha
    have hi := (List.getElem?_eq_some_iff.1 ha).1
    simp only [List.length_append, List.length_singleton] at hi
    omega

/-- 2. `pop` keeps the heap order -/
theorem heapInv_pop (tp : TotalPre le) {h h' : Heap α} {x : α} (hinv : HeapInv le h.data)
    (hp : Heap.pop le h = some (x, h')) : HeapInv le h'.data := by
  rw [heapInv_iff] at hinv ⊢
  unfold Heap.pop at hp
  cases hl : h.data.getLast? with
  | none => simp [hl] at hp
  | some last =>
    simp only [hl] at hp
    obtain ⟨ys, hys⟩ := List.getLast?_eq_some_iff.1 hl
    have hdl : h.data.dropLast = ys := by rw [hys]; simp
    rw [hdl] at hp
    rw [hys] at hinv
    cases ys with
    | nil =>
      simp only [] at hp
      cases hp
      intro i a p _ ha; simp at ha
    | cons root rest =>
      simp only [Option.some.injEq, Prod.mk.injEq] at hp
      obtain ⟨hx, hh⟩ := hp
      subst hx; subst hh
      exact siftDownToBottom_heapInvQ tp last (root :: rest) (by simp) (heapInvQ_prefix hinv)

/-- every element is ≤ its ancestors, in particular the root -/
theorem heapInvQ_le_root (tp : TotalPre le) {d : List α} (hinv : HeapInvQ le d) {r : α}
    (hr : d[0]? = some r) : ∀ (n i : Nat) (a : α), i ≤ n → d[i]? = some a → le a r = true := by
  intro n
  induction n with
  | zero =>
    intro i a hi ha
    have : i = 0 := by omega
    subst this
    rw [hr] at ha; cases ha
    exact tp.refl _
  | succ n ih =>
    intro i a hi ha
    by_cases hi0 : i = 0
    · subst hi0
      rw [hr] at ha; cases ha
      exact tp.refl _
    · have hil := (List.getElem?_eq_some_iff.1 ha).1
      have hpl : (i - 1) / 2 < d.length := by omega
      have h1 := hinv i a _ (by omega) ha (List.getElem?_eq_getElem hpl)
      have h2 := ih ((i - 1) / 2) _ (by omega) (List.getElem?_eq_getElem hpl)
      exact tp.trans _ _ _ h1 h2

/-- 3. the root is a maximum -/
theorem heap_root_max (tp : TotalPre le) {d : List α} (hinv : HeapInv le d) :
    ∀ y ∈ d, ∀ r, d.head? = some r → le y r = true := by
  intro y hy r hr
  rw [heapInv_iff] at hinv
  obtain ⟨i, hi, rfl⟩ := List.getElem_of_mem hy
  have hr' : d[0]? = some r := by rw [← hr]; cases d <;> simp
  exact heapInvQ_le_root tp hinv hr' i i _ (Nat.le_refl _) (List.getElem?_eq_getElem hi)

/-- `pop` does not invent elements -/
theorem heap_pop_mem {h h' : Heap α} {x : α} (hp : Heap.pop le h = some (x, h')) :
    ∀ y ∈ h'.data, y ∈ h.data := by
  classical
  intro y hy
  have h1 := (heap_pop_countP (fun z => decide (z = y)) le hp).1
  have h2 : 0 < h'.data.countP (fun z => decide (z = y)) :=
    List.countP_pos_iff.2 ⟨y, hy, by simp⟩
  have h3 : 0 < h.data.countP (fun z => decide (z = y)) := by omega
  obtain ⟨z, hz, hzy⟩ := List.countP_pos_iff.1 h3
  have : z = y := by simpa using hzy
  exact this ▸ hz

/-- 4. the popped element is a maximum of the old heap and bounds everything that stays -/
theorem heap_pop_max (tp : TotalPre le) {h h' : Heap α} {x : α} (hinv : HeapInv le h.data)
    (hp : Heap.pop le h = some (x, h')) :
    (∀ y ∈ h.data, le y x = true) ∧ (∀ y ∈ h'.data, le y x = true) := by
  have hpeek := (heap_pop_countP (fun _ => true) le hp).2
  have hold : ∀ y ∈ h.data, le y x = true := fun y hy => heap_root_max tp hinv y hy x hpeek
  exact ⟨hold, fun y hy => hold y (heap_pop_mem hp y hy)⟩

end
end Mb.Sim
