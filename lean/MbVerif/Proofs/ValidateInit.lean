/-
  Helper lemmas for C12: the initialisation loop of `Framework::new` (`Fw.init`).
-/
import MbVerif.Proofs.Validate
import MbVerif.Framework

namespace Mb
namespace C12
open Validate Fp

theorem machineWith_has_state {c : Checks} {m : Machine} (h : machineWith c m = true) :
    0 < m.states.length := by
  unfold machineWith at h
  simp only [] at h
  split at h
  · exact absurd h (by simp)
  · split at h
    · exact absurd h (by simp)
    · split at h
      · exact absurd h (by simp)
      · rename_i h0
        have : m.states.length ≠ 0 := by simpa using h0
        omega

section init
variable {σ : Type} (ρ : Oracle σ)

/-- invariant of the initialisation loop of `Framework::new` -/
structure InitInv (ms : List Machine) (s : Fw σ) : Prop where
  machines : s.machines = ms
  rtLen : s.rt.length = ms.length
  noFault : s.fault = none

theorem distSample_inv {ms : List Machine} (d : Dist) {s : Fw σ} (h : InitInv ms s) :
    InitInv ms (distSample ρ d s).2 := by
  unfold distSample
  simp only [Fw.push]
  exact ⟨h.machines, h.rtLen, h.noFault⟩

theorem sampleLimit_inv {ms : List Machine} (a : Action) {s : Fw σ} (h : InitInv ms s) :
    InitInv ms (sampleLimit ρ a s).2 := by
  unfold sampleLimit
  split
  · exact h
  · exact distSample_inv ρ _ h

theorem modRt_inv {ms : List Machine} {s : Fw σ} (h : InitInv ms s) {mi : Nat} (hmi : mi < ms.length)
    (f : Runtime → Runtime) : InitInv ms (s.modRt mi f) := by
  unfold Fw.modRt
  have hlt : mi < s.rt.length := by rw [h.rtLen]; exact hmi
  rw [List.getElem?_eq_getElem hlt]
  exact ⟨h.machines, by simp [h.rtLen], h.noFault⟩

end init

end C12
end Mb
