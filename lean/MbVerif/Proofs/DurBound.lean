/-
  Totality under a clock-span guard (C01): if every clock value supplied lies in a window of
  width `B` and `(calls + 1) * B` fits a `Duration`, the checked duration additions never
  overflow, so no fault at all is raised.

  Invariant (`DurInv`): now and (while blocking) the start of blocking lie in the window; the
  potential `blockingDur + ongoing` is at most `c * B` after `c` calls; every machine's blocked
  time is at most the framework's.
-/
import MbVerif.Proofs.SafeCall
import MbVerif.Proofs.SlotGate

namespace Mb
variable {σ : Type} (ρ : Oracle σ)

/-- the fault is not a duration overflow -/
def NoDur (s : Fw σ) : Prop := s.fault ≠ some .durOverflow

/-- the fault field is unchanged or becomes an index fault / fuel fault -/
def FO (s t : Fw σ) : Prop := t.fault = s.fault ∨ t.fault = some .oob ∨ t.fault = some .fuel

theorem FO.refl (s : Fw σ) : FO s s := Or.inl rfl
theorem FO.trans {s t u : Fw σ} (h₁ : FO s t) (h₂ : FO t u) : FO s u := by
  rcases h₂ with h | h | h
  · rcases h₁ with h' | h' | h'
    · exact Or.inl (h.trans h')
    · exact Or.inr (Or.inl (h.trans h'))
    · exact Or.inr (Or.inr (h.trans h'))
  · exact Or.inr (Or.inl h)
  · exact Or.inr (Or.inr h)
theorem FO.noDur {s t : Fw σ} (h : FO s t) (hs : NoDur s) : NoDur t := by
  unfold NoDur at *
  rcases h with h | h | h <;> rw [h]
  · exact hs
  · simp
  · simp
theorem FO.of_eq {s t : Fw σ} (h : t.fault = s.fault) : FO s t := Or.inl h

theorem fo_withFault_oob (s : Fw σ) : FO s (s.withFault .oob) := by
  unfold Fw.withFault FO
  cases h : s.fault with
  | none => right; left; simp
  | some f => left; simp [h]
theorem fo_withFault_fuel (s : Fw σ) : FO s (s.withFault .fuel) := by
  unfold Fw.withFault FO
  cases h : s.fault with
  | none => right; right; simp
  | some f => left; simp [h]
theorem fo_modRt (s : Fw σ) (mi : Nat) (f : Runtime → Runtime) : FO s (s.modRt mi f) := by
  unfold Fw.modRt
  split
  · exact Or.inl rfl
  · exact fo_withFault_oob s
theorem fo_rngLog {s t : Fw σ} (h : RngLogOnly s t) : FO s t := Or.inl h.fault

theorem fo_enterState (mi : Nat) (m : Machine) (cur next : Nat) (s : Fw σ) :
    FO s (enterState ρ mi m cur next s) := by
  unfold enterState
  split
  · simp only
    have h1 := fo_modRt s mi (fun r => { r with currentState := next })
    split
    · exact h1.trans (fo_withFault_oob _)
    · split
      · next a _ =>
        have h2 := fo_rngLog (sampleLimit_spec ρ mi a (s.modRt mi (fun r => { r with currentState := next }))).1
        exact ((h1.trans h2).trans (fo_modRt _ mi _)).trans (Or.inl rfl)
      · exact (h1.trans (fo_modRt _ mi _)).trans (Or.inl rfl)
  · exact FO.refl s

theorem fo_scheduleAction (mi next : Nat) (s : Fw σ) : FO s (scheduleAction ρ mi next s) := by
  unfold scheduleAction
  split
  · exact fo_withFault_oob s
  · split
    · exact fo_withFault_oob s
    · split
      · exact fo_withFault_oob s
      · split
        · exact Or.inl rfl
        · exact Or.inl rfl
        · next b rp tmo lim _ =>
          exact Or.inl (sampleTimeout_spec ρ mi (.sendPadding b rp tmo lim) s).1.fault
        · next b rp tmo du lim _ =>
          have h1 := (sampleTimeout_spec ρ mi (.blockOutgoing b rp tmo du lim) s).1
          have h2 := (sampleDuration_spec ρ mi (.blockOutgoing b rp tmo du lim)
            (sampleTimeout ρ (.blockOutgoing b rp tmo du lim) s).2).1
          exact Or.inl (h2.fault.trans h1.fault)
        · next rp du lim _ =>
          exact Or.inl (sampleDuration_spec ρ mi (.updateTimer rp du lim) s).1.fault

theorem fo_storeCounterA (mi oldA newA : Nat) (s : Fw σ) : FO s (storeCounterA mi oldA newA s).1 := by
  unfold storeCounterA
  simp only
  split
  · exact (fo_modRt s mi _).trans (fo_modRt _ mi _)
  · exact fo_modRt s mi _

theorem fo_storeCounterB (mi oldB newB : Nat) (s : Fw σ) : FO s (storeCounterB mi oldB newB s).1 := by
  unfold storeCounterB
  simp only
  split
  · exact (fo_modRt s mi _).trans (fo_modRt _ mi _)
  · exact fo_modRt s mi _

theorem fo_applyCounterA (mi : Nat) (c : Option Counter) (oldA oldB : Nat) (s : Fw σ) :
    FO s (applyCounterA ρ mi c oldA oldB s).1 := by
  unfold applyCounterA
  cases c with
  | none => exact FO.refl s
  | some c => exact (fo_rngLog (counterOperand_spec ρ mi c oldB s).1).trans (fo_storeCounterA mi _ _ _)

theorem fo_applyCounterB (mi : Nat) (c : Option Counter) (oldA oldB : Nat) (s : Fw σ) :
    FO s (applyCounterB ρ mi c oldA oldB s).1 := by
  unfold applyCounterB
  cases c with
  | none => exact FO.refl s
  | some c => exact (fo_rngLog (counterOperand_spec ρ mi c oldA s).1).trans (fo_storeCounterB mi _ _ _)

/-! ### the gate cannot overflow when the sums fit -/

/-- time blocked in the ongoing blocking period -/
def ongoing (g : Globals) : Nat := if g.blockingActive then durSince g.now g.blockingStarted else 0

/-- the two sums `below_limit_blocking` forms fit a `Duration` -/
def DurOKr (g : Globals) (a : RtAcct) : Prop :=
  a.blockingDur + ongoing g ≤ durMax ∧ g.blockingDur + ongoing g ≤ durMax

theorem belowLimitBlocking_some (g : Globals) (r : Runtime) (m : Machine) (rp : Bool) (h : DurOKr g r.acct) :
    belowLimitBlocking g r m rp ≠ none := by
  unfold belowLimitBlocking
  unfold DurOKr ongoing at h
  have hc : (g.blockingActive && (decide (r.acct.blockingDur + (if g.blockingActive = true then durSince g.now g.blockingStarted else 0) > durMax) ||
      decide (g.blockingDur + (if g.blockingActive = true then durSince g.now g.blockingStarted else 0) > durMax))) = false := by
    cases hb : g.blockingActive
    · simp
    · simp only [hb, if_true, Bool.true_and, Bool.or_eq_false_iff, decide_eq_false_iff_not, Nat.not_lt] at h ⊢
      exact ⟨by omega, by omega⟩
  intro hcon
  simp only [hc] at hcon
  repeat' split at hcon
  all_goals first | (cases hcon; done) | (cases hcon; contradiction)

theorem belowActionLimits_some (g : Globals) (r : Runtime) (m : Machine) (h : DurOKr g r.acct)
    (hst : (m.states[r.currentState]?).isNone = false) : belowActionLimits g r m ≠ none := by
  unfold belowActionLimits
  cases hs : m.states[r.currentState]? with
  | none => rw [hs] at hst; cases hst
  | some st =>
    simp only
    cases ha : st.action with
    | none => simp
    | some a =>
      cases a with
      | cancel t => simp
      | sendPadding => simp
      | updateTimer => simp
      | blockOutgoing b rp tmo du lim => simpa using belowLimitBlocking_some g r m rp h

/-- every machine's accounting passes `DurOKr` -/
def DurOK (s : Fw σ) : Prop := ∀ (mi : Nat) (r : Runtime), s.rt[mi]? = some r → DurOKr s.g r.acct

theorem DurOK.ofFrame {mi : Nat} {s t : Fw σ} (hf : Frame mi s t) (h : DurOK s) : DurOK t := by
  intro j r hr
  rw [hf.g]
  by_cases hj : j = mi
  · subst hj
    have ha := hf.acct
    rw [hr] at ha
    cases hs : s.rt[j]? with
    | none => rw [hs] at ha; cases ha
    | some r0 =>
      rw [hs] at ha
      simp only [Option.map_some, Option.some.injEq] at ha
      rw [ha]; exact h j r0 hs
  · rw [hf.rtOther j hj] at hr; exact h j r hr

theorem frame_of_rngLog (mi : Nat) {s t : Fw σ} (h : RngLogOnly s t) : Frame mi s t :=
  ⟨h.machines, h.g, by rw [h.rt], by rw [h.actions], fun _ _ => by rw [h.rt], fun _ _ => by rw [h.actions], by rw [h.rt]⟩

theorem frame_enterState (mi : Nat) (m : Machine) (cur next : Nat) (s : Fw σ) :
    Frame mi s (enterState ρ mi m cur next s) := by
  unfold enterState
  split
  · simp only
    have h1 : Frame mi s (s.modRt mi (fun r => { r with currentState := next })) := frame_modRt mi s _ (fun _ => rfl)
    split
    · exact h1.trans (Step.fault _ _).frame
    · split
      · next a _ =>
        refine Frame.trans ?_ (Step.push _ _).frame
        refine Frame.trans ?_ (frame_modRt mi _ _ (fun _ => rfl))
        exact h1.trans (frame_of_rngLog mi (sampleLimit_spec ρ mi a (s.modRt mi (fun r => { r with currentState := next }))).1)
      · refine Frame.trans ?_ (Step.push _ _).frame
        exact h1.trans (frame_modRt mi _ _ (fun _ => rfl))
  · exact Frame.refl mi s

/-! ### transition / update_counter raise no duration overflow when the sums fit -/

theorem noDur_main (fuel : Nat) :
    (∀ mi ev (s : Fw σ), DurOK s → NoDur s → NoDur (transition ρ fuel mi ev s).1) ∧
    (∀ mi (s : Fw σ), DurOK s → NoDur s → NoDur (updateCounter ρ fuel mi s).1) := by
  induction fuel with
  | zero =>
    refine ⟨fun mi ev s _ h => ?_, fun mi s _ h => ?_⟩
    · rw [transition]; exact (fo_withFault_fuel s).noDur h
    · rw [updateCounter]; exact (fo_withFault_fuel s).noDur h
  | succ n ih =>
    obtain ⟨ihT, ihU⟩ := ih
    refine ⟨fun mi ev s hD h => ?_, fun mi s hD h => ?_⟩
    · rw [transition]
      cases hr : s.rt[mi]? with
      | none => exact (fo_withFault_oob s).noDur h
      | some r =>
      cases hm : s.machines[mi]? with
      | none => exact (fo_withFault_oob s).noDur h
      | some m =>
      simp only []
      have h0 : NoDur (s.push (.trans mi ev.toNat r.currentState)) := h
      split
      · exact h0
      · cases hst : m.states[r.currentState]? with
        | none => exact (fo_withFault_oob _).noDur h0
        | some st =>
        simp only []
        cases htr : st.transitions[ev.toNat]? with
        | none => exact (fo_withFault_oob _).noDur h0
        | some ov =>
        cases ov with
        | none => exact h0
        | some vec =>
        simp only []
        split
        · exact h0
        · next nxt _ =>
          split
          · exact (fo_modRt _ mi _).noDur h0
          · split
            · exact h0
            · -- the real transition
              have hre := frame_enterState ρ mi m r.currentState nxt
                ((({ s.push (.trans mi ev.toNat r.currentState) with
                    rng := (ρ.u (s.push (.trans mi ev.toNat r.currentState)).rng).2 }).push
                  (.draw (ρ.u (s.push (.trans mi ev.toNat r.currentState)).rng).1)).push (.sampled mi ev.toNat nxt))
              have hfo := fo_enterState ρ mi m r.currentState nxt
                ((({ s.push (.trans mi ev.toNat r.currentState) with
                    rng := (ρ.u (s.push (.trans mi ev.toNat r.currentState)).rng).2 }).push
                  (.draw (ρ.u (s.push (.trans mi ev.toNat r.currentState)).rng).1)).push (.sampled mi ev.toNat nxt))
              have hD3 : DurOK (enterState ρ mi m r.currentState nxt
                ((({ s.push (.trans mi ev.toNat r.currentState) with
                    rng := (ρ.u (s.push (.trans mi ev.toNat r.currentState)).rng).2 }).push
                  (.draw (ρ.u (s.push (.trans mi ev.toNat r.currentState)).rng).1)).push (.sampled mi ev.toNat nxt))) :=
                DurOK.ofFrame hre (fun j r' hr' => hD j r' hr')
              have hN3 := hfo.noDur h0
              generalize enterState ρ mi m r.currentState nxt _ = s3 at hD3 hN3 ⊢
              cases hr1 : s3.rt[mi]? with
              | none => exact (fo_withFault_oob _).noDur hN3
              | some r1 =>
              simp only []
              cases hb : belowActionLimits s3.g r1 m with
              | none =>
                simp only []
                cases hsn : (m.states[r1.currentState]?).isNone with
                | true => simp only [if_true]; exact (fo_withFault_oob _).noDur hN3
                | false => exact absurd hb (belowActionLimits_some s3.g r1 m (hD3 mi r1 hr1) hsn)
              | some below =>
              simp only []
              have hU := ihU mi s3 hD3 hN3
              have hDU : DurOK (updateCounter ρ n mi s3).1 := DurOK.ofFrame (updateCounter_reach ρ n mi s3).frame hD3
              have h5 : NoDur (if ((updateCounter ρ n mi s3).2.1 && below) = true
                  then scheduleAction ρ mi nxt (updateCounter ρ n mi s3).1 else (updateCounter ρ n mi s3).1) := by
                split
                · exact (fo_scheduleAction ρ mi nxt _).noDur hU
                · exact hU
              generalize (if ((updateCounter ρ n mi s3).2.1 && below) = true
                  then scheduleAction ρ mi nxt (updateCounter ρ n mi s3).1 else (updateCounter ρ n mi s3).1) = s5 at h5 ⊢
              cases hr2 : s5.rt[mi]? with
              | none => exact (fo_withFault_oob _).noDur h5
              | some r2 => exact h5
    · rw [updateCounter]
      cases hr : s.rt[mi]? with
      | none => exact (fo_withFault_oob s).noDur h
      | some r =>
      cases hm : s.machines[mi]? with
      | none => exact (fo_withFault_oob s).noDur h
      | some m =>
      simp only []
      cases hst : m.states[r.currentState]? with
      | none => exact (fo_withFault_oob s).noDur h
      | some st =>
      simp only []
      have fA := fo_applyCounterA ρ mi st.counterA r.counterA r.counterB s
      have reA := applyCounterA_reach ρ mi st.counterA r.counterA r.counterB s
      generalize applyCounterA ρ mi st.counterA r.counterA r.counterB s = ra at fA reA ⊢
      have fB := fo_applyCounterB ρ mi st.counterB r.counterA r.counterB ra.1
      have reB := applyCounterB_reach ρ mi st.counterB r.counterA r.counterB ra.1
      generalize applyCounterB ρ mi st.counterB r.counterA r.counterB ra.1 = rb at fB reB ⊢
      have hN2 : NoDur (rb.1.push (.counter mi r.counterA (counterAOf rb.1 mi) r.counterB (counterBOf rb.1 mi))) :=
        (fA.trans fB).noDur h
      have hD2 : DurOK (rb.1.push (.counter mi r.counterA (counterAOf rb.1 mi) r.counterB (counterBOf rb.1 mi))) :=
        DurOK.ofFrame ((reA.trans reB).tail (Step.push _ _)).frame hD
      split
      · have hT := ihT mi .counterZero _ hD2 hN2
        split
        · exact (fo_withFault_oob _).noDur hT
        · exact hT
      · exact hN2

/-! ### the invariant over events, calls and histories -/

section
variable (lo : Int) (B : Nat)

structure DurInv (c : Nat) (s : Fw σ) : Prop where
  nowLo : lo ≤ s.g.now
  nowHi : s.g.now ≤ lo + B
  stLo : s.g.blockingActive = true → lo ≤ s.g.blockingStarted
  phi : s.g.blockingDur + ongoing s.g ≤ c * B
  le : ∀ (j : Nat) (r : Runtime), s.rt[j]? = some r → r.acct.blockingDur ≤ s.g.blockingDur

variable {lo B}

theorem DurInv.ongoing_le {c : Nat} {s : Fw σ} (h : DurInv lo B c s) : ongoing s.g ≤ B := by
  unfold ongoing
  split
  · next ha =>
    have := h.stLo ha
    have := h.nowHi
    unfold durSince
    omega
  · omega

theorem DurInv.durOK {c : Nat} {s : Fw σ} (h : DurInv lo B c s) (hg : c * B ≤ durMax) : DurOK s := by
  intro j r hr
  have h1 := h.le j r hr
  have h2 := h.phi
  exact ⟨by omega, by omega⟩

theorem DurInv.ofFrame {c mi : Nat} {s t : Fw σ} (hf : Frame mi s t) (h : DurInv lo B c s) : DurInv lo B c t := by
  refine ⟨by rw [hf.g]; exact h.nowLo, by rw [hf.g]; exact h.nowHi, by rw [hf.g]; exact h.stLo,
    by rw [hf.g]; exact h.phi, fun j r hr => ?_⟩
  rw [hf.g]
  by_cases hj : j = mi
  · subst hj
    have ha := hf.acct
    rw [hr] at ha
    cases hs : s.rt[j]? with
    | none => rw [hs] at ha; cases ha
    | some r0 =>
      rw [hs] at ha
      simp only [Option.map_some, Option.some.injEq] at ha
      rw [ha]; exact h.le j r0 hs
  · rw [hf.rtOther j hj] at hr; exact h.le j r hr

/-- replacing the globals by ones that agree on the four blocking fields -/
theorem DurInv.setG {c : Nat} {s : Fw σ} (h : DurInv lo B c s) (g' : Globals)
    (h1 : g'.now = s.g.now) (h2 : g'.blockingStarted = s.g.blockingStarted)
    (h3 : g'.blockingActive = s.g.blockingActive) (h4 : g'.blockingDur = s.g.blockingDur) :
    DurInv lo B c { s with g := g' } := by
  have ho : ongoing g' = ongoing s.g := by unfold ongoing; rw [h1, h2, h3]
  exact ⟨by simp [h1, h.nowLo], by simp [h1, h.nowHi], by simp only [h3, h2]; exact h.stLo,
    by simp only [ho, h4]; exact h.phi, fun j r hr => by simp only [h4]; exact h.le j r hr⟩

/-- a runtime update that leaves the blocked time alone -/
theorem DurInv.modRt {c : Nat} {s : Fw σ} (h : DurInv lo B c s) (mi : Nat) (f : Runtime → Runtime)
    (hf : ∀ r, (f r).acct.blockingDur = r.acct.blockingDur) : DurInv lo B c (s.modRt mi f) := by
  refine ⟨by simp [h.nowLo], by simp [h.nowHi], by simpa using h.stLo, by simpa using h.phi, fun j r hr => ?_⟩
  simp only [Fw.modRt_g]
  by_cases hj : j = mi
  · subst hj
    rw [Fw.modRt_rt_self] at hr
    cases hs : s.rt[j]? with
    | none => rw [hs] at hr; cases hr
    | some r0 =>
      rw [hs] at hr
      simp only [Option.map_some, Option.some.injEq] at hr
      rw [← hr, hf]; exact h.le j r0 hs
  · rw [Fw.modRt_rt_other s mi j f hj] at hr; exact h.le j r hr

/-- invariant plus "no duration overflow so far" -/
def Good (lo : Int) (B c : Nat) (s : Fw σ) : Prop := DurInv lo B c s ∧ NoDur s

variable {c : Nat} (hg : c * B + B ≤ durMax)
include hg

theorem good_transition (fuel mi : Nat) (ev : Event) (s : Fw σ) (h : Good lo B c s) :
    Good lo B c (transition ρ fuel mi ev s).1 :=
  ⟨h.1.ofFrame (transition_reach ρ fuel mi ev s).frame,
   (noDur_main ρ fuel).1 mi ev s (h.1.durOK (by omega)) h.2⟩

theorem noDur_decrement (mi : Nat) (s : Fw σ) (h : Good lo B c s) : NoDur (decrementLimit ρ mi s) := by
  unfold decrementLimit
  cases hr : s.rt[mi]? with
  | none => exact (fo_withFault_oob s).noDur h.2
  | some r =>
  cases hm : s.machines[mi]? with
  | none => exact (fo_withFault_oob s).noDur h.2
  | some m =>
  simp only []
  generalize (if r.stateLimit > 0 then r.stateLimit - 1 else r.stateLimit) = lim
  have h1 : Good lo B c ((s.modRt mi (fun r' => { r' with stateLimit := lim })).push (.limit mi lim true)) :=
    ⟨(h.1.modRt mi _ (by intro _; rfl)).ofFrame (Step.push (mi := mi) _ _).frame, (fo_modRt s mi _).noDur h.2⟩
  cases hst : m.states[r.currentState]? with
  | none => exact (fo_withFault_oob _).noDur h1.2
  | some st =>
  simp only []
  cases hact : st.action with
  | none => exact h1.2
  | some a =>
  simp only []
  split
  · split
    · exact (fo_withFault_oob _).noDur h1.2
    · next hlen =>
      exact (good_transition ρ hg FUEL mi .limitReached _
        ⟨h1.1.ofFrame (Step.clear (mi := mi) _ (by omega)).frame, h1.2⟩).2
  · exact h1.2

theorem good_decrement (mi : Nat) (s : Fw σ) (h : Good lo B c s) : Good lo B c (decrementLimit ρ mi s) :=
  ⟨h.1.ofFrame (decrementLimit_reach ρ mi s).frame, noDur_decrement ρ hg mi s h⟩

theorem good_transDec (mi : Nat) (ev : Event) (s : Fw σ) (cnd : Fw σ × Bool → Bool) (h : Good lo B c s) :
    Good lo B c (if cnd (transition ρ FUEL mi ev s) = true then decrementLimit ρ mi (transition ρ FUEL mi ev s).1
           else (transition ρ FUEL mi ev s).1) := by
  have h1 := good_transition ρ hg FUEL mi ev s h
  split
  · exact good_decrement ρ hg mi _ h1
  · exact h1

omit hg in
theorem good_fold (F : Fw σ → Nat → Fw σ) (hF : ∀ s j, Good lo B c s → Good lo B c (F s j))
    (l : List Nat) (s : Fw σ) (h : Good lo B c s) : Good lo B c (l.foldl F s) := by
  induction l generalizing s with
  | nil => exact h
  | cons j t ih => exact ih _ (hF s j h)

theorem good_transitionAll (ev : Event) (s : Fw σ) (h : Good lo B c s) : Good lo B c (transitionAll ρ ev s) := by
  unfold transitionAll
  exact good_fold _ (fun a j ha => good_transition ρ hg FUEL j ev a ha) _ s h

omit hg in
theorem good_modRt (mi : Nat) (f : Runtime → Runtime) (hf : ∀ r, (f r).acct.blockingDur = r.acct.blockingDur)
    (s : Fw σ) (h : Good lo B c s) : Good lo B c (s.modRt mi f) :=
  ⟨h.1.modRt mi f hf, (fo_modRt s mi f).noDur h.2⟩

/-- the per-machine loop of BlockingEnd: machines below `k` already carry the added time -/
def EndInv (g' : Globals) (blocked : Nat) (k : Nat) (s : Fw σ) : Prop :=
  s.g = g' ∧ NoDur s ∧
  ∀ (j : Nat) (r : Runtime), s.rt[j]? = some r →
    (j < k → r.acct.blockingDur ≤ g'.blockingDur) ∧ (k ≤ j → r.acct.blockingDur + blocked ≤ g'.blockingDur)

omit hg in
theorem endInv_bump (g' : Globals) (blocked k : Nat) (a : Fw σ) (h : EndInv g' blocked k a)
    (hfit : g'.blockingDur ≤ durMax) :
    EndInv g' blocked (k + 1)
      (if blocked ≠ 0 then
        match a.rt[k]? with
        | none => a.withFault .oob
        | some r =>
          (if r.acct.blockingDur + blocked > durMax then a.withFault .durOverflow else a).modRt k
            (fun r => { r with acct := { r.acct with blockingDur := r.acct.blockingDur + blocked } })
      else a) := by
  obtain ⟨hga, hna, hla⟩ := h
  by_cases hb0 : blocked ≠ 0
  · rw [if_pos hb0]
    cases hrk : a.rt[k]? with
    | none =>
      refine ⟨by simpa using hga, (fo_withFault_oob a).noDur hna, fun j r hr => ?_⟩
      rw [Fw.withFault_rt] at hr
      refine ⟨fun hj => ?_, fun hj => (hla j r hr).2 (by omega)⟩
      rcases Nat.lt_or_ge j k with hjk | hjk
      · exact (hla j r hr).1 hjk
      · have : j = k := by omega
        subst this; rw [hrk] at hr; cases hr
    | some rk =>
      simp only []
      have hk2 := (hla k rk hrk).2 (Nat.le_refl k)
      have hnot2 : ¬ (rk.acct.blockingDur + blocked > durMax) := by omega
      rw [if_neg hnot2]
      refine ⟨by simpa using hga, (fo_modRt a k _).noDur hna, fun j r hr => ?_⟩
      by_cases hjk : j = k
      · subst hjk
        rw [Fw.modRt_rt_self, hrk] at hr
        simp only [Option.map_some, Option.some.injEq] at hr
        subst hr
        exact ⟨fun _ => hk2, fun hj => absurd hj (by omega)⟩
      · rw [Fw.modRt_rt_other a k j _ hjk] at hr
        exact ⟨fun hj => (hla j r hr).1 (by omega), fun hj => (hla j r hr).2 (by omega)⟩
  · rw [if_neg hb0]
    have hb0' : blocked = 0 := by omega
    refine ⟨hga, hna, fun j r hr => ⟨fun hj => ?_, fun hj => (hla j r hr).2 (by omega)⟩⟩
    rcases Nat.lt_or_ge j k with hjk | hjk
    · exact (hla j r hr).1 hjk
    · have := (hla j r hr).2 hjk; omega

omit hg in
theorem endInv_transition (g' : Globals) (blocked k n : Nat) (a2 : Fw σ) (h : EndInv g' blocked n a2)
    (hact : g'.blockingActive = false) (hfit : g'.blockingDur ≤ durMax) :
    EndInv g' blocked n (transition ρ FUEL k .blockingEnd a2).1 := by
  obtain ⟨hg2, hn2, hl2⟩ := h
  have hfr := (transition_reach ρ FUEL k .blockingEnd a2).frame
  have hD2 : DurOK a2 := by
    intro j r hr
    rw [hg2]
    have h1 := hl2 j r hr
    have hle : r.acct.blockingDur ≤ g'.blockingDur := by
      rcases Nat.lt_or_ge j n with hj | hj
      · exact h1.1 hj
      · have := h1.2 hj; omega
    unfold DurOKr ongoing
    rw [hact]
    simp only [Bool.false_eq_true, if_false]
    exact ⟨by omega, by omega⟩
  refine ⟨by rw [hfr.g]; exact hg2, (noDur_main ρ FUEL).1 k .blockingEnd a2 hD2 hn2, fun j r hr => ?_⟩
  by_cases hjk : j = k
  · subst hjk
    have ha := hfr.acct
    rw [hr] at ha
    cases hs : a2.rt[j]? with
    | none => rw [hs] at ha; cases ha
    | some r0 =>
      rw [hs] at ha
      simp only [Option.map_some, Option.some.injEq] at ha
      rw [ha]; exact hl2 j r0 hs
  · rw [hfr.rtOther j hjk] at hr; exact hl2 j r hr

omit hg in
/-- the end of the BlockingEnd loop -/
theorem good_of_endInv (F : Fw σ → Nat → Fw σ) (blocked : Nat) (s1 : Fw σ)
    (hstep : ∀ k a, EndInv s1.g blocked k a → EndInv s1.g blocked (k + 1) (F a k))
    (hI0 : EndInv s1.g blocked 0 s1)
    (hlo : lo ≤ s1.g.now) (hhi : s1.g.now ≤ lo + B) (hact : s1.g.blockingActive = false)
    (hphi : s1.g.blockingDur ≤ c * B) :
    Good lo B c ((List.range s1.rt.length).foldl F s1) := by
  obtain ⟨hgE, hnE, hleE⟩ := foldl_range_inv (EndInv s1.g blocked) F hstep s1.rt.length s1 hI0
  refine ⟨⟨by rw [hgE]; exact hlo, by rw [hgE]; exact hhi,
    (fun ha => by rw [hgE, hact] at ha; cases ha), ?_, fun j r hr => ?_⟩, hnE⟩
  · rw [hgE]; unfold ongoing; rw [hact]; simp only [Bool.false_eq_true, if_false]; omega
  · rw [hgE]
    rcases Nat.lt_or_ge j s1.rt.length with hj | hj
    · exact (hleE j r hr).1 hj
    · have := (hleE j r hr).2 hj; omega

theorem good_processEvent (e : TEvent) (s : Fw σ) (h : Good lo B c s) : Good lo B c (processEvent ρ e s) := by
  cases e with
  | normalRecv => exact good_transitionAll ρ hg _ s h
  | paddingRecv => exact good_transitionAll ρ hg _ s h
  | tunnelRecv => exact good_transitionAll ρ hg _ s h
  | tunnelSent => exact good_transitionAll ρ hg _ s h
  | normalSent =>
    simp only [processEvent]
    have h1 : Good lo B c { s with g := { s.g with normalSent := s.g.normalSent + 1 } } :=
      ⟨h.1.setG _ rfl rfl rfl rfl, h.2⟩
    refine good_fold _ (fun a j ha => ?_) _ _ h1
    exact good_transition ρ hg FUEL j _ _ (good_modRt j _ (by intro _; rfl) a ha)
  | paddingSent x =>
    simp only [processEvent]
    have h1 : Good lo B c { s with g := { s.g with paddingSent := s.g.paddingSent + 1 } } :=
      ⟨h.1.setG _ rfl rfl rfl rfl, h.2⟩
    split
    · exact h1
    · exact good_transDec ρ hg x .paddingSent _ (fun p => !p.2 && notEnded p.1 x) (good_modRt x _ (by intro _; rfl) _ h1)
  | blockingBegin x =>
    simp only [processEvent]
    have h1 : Good lo B c (if !s.g.blockingActive then
        { s with g := { s.g with blockingActive := true, blockingStarted := s.g.now } } else s) := by
      split
      · next hna =>
        have hna' : s.g.blockingActive = false := by simpa using hna
        refine ⟨⟨h.1.nowLo, h.1.nowHi, fun _ => h.1.nowLo, ?_, fun j r hr => h.1.le j r hr⟩, h.2⟩
        have := h.1.phi
        unfold ongoing at this ⊢
        simp only [hna', Bool.false_eq_true, if_false, if_true] at this ⊢
        unfold durSince
        omega
      · exact h
    refine good_fold _ (fun a j ha => ?_) _ _ h1
    exact good_transDec ρ hg j .blockingBegin a (fun p => !p.2 && notEnded p.1 j && j == x) ha
  | blockingEnd =>
    simp only [processEvent]
    have hphi := h.1.phi
    have hong := h.1.ongoing_le
    generalize hbl : (if s.g.blockingActive then durSince s.g.now s.g.blockingStarted else 0) = blocked
    have hbo : blocked = ongoing s.g := by rw [← hbl]; rfl
    -- the accounting step on the globals
    generalize hs1 : (if s.g.blockingActive then
        { (if s.g.blockingDur + blocked > durMax then s.withFault .durOverflow else s) with
          g := { (if s.g.blockingDur + blocked > durMax then s.withFault .durOverflow else s).g with
            blockingDur := (if s.g.blockingDur + blocked > durMax then s.withFault .durOverflow else s).g.blockingDur + blocked,
            blockingActive := false } }
        else s) = s1
    have hnot : ¬ (s.g.blockingDur + blocked > durMax) := by omega
    -- facts about s1
    have hs1g : s1.g.now = s.g.now ∧ s1.g.blockingActive = false ∧ s1.g.blockingDur = s.g.blockingDur + blocked ∧
        s1.rt = s.rt ∧ s1.fault = s.fault := by
      subst hs1
      cases ha : s.g.blockingActive
      · have : blocked = 0 := by rw [← hbl, ha]; rfl
        simp [this, ha]
      · simp [if_neg hnot]
    obtain ⟨e1, e2, e3, e4, e5⟩ := hs1g
    have hI0 : EndInv s1.g blocked 0 s1 := by
      refine ⟨rfl, by unfold NoDur; rw [e5]; exact h.2, fun j r hr => ⟨fun hj => absurd hj (Nat.not_lt_zero j), fun _ => ?_⟩⟩
      rw [e4] at hr
      have := h.1.le j r hr
      omega
    have hfit : s1.g.blockingDur ≤ durMax := by rw [e3]; omega
    refine good_of_endInv _ blocked s1 (fun k a hk => ?_) hI0 (by rw [e1]; exact h.1.nowLo)
      (by rw [e1]; exact h.1.nowHi) e2 (by rw [e3]; omega)
    exact endInv_transition ρ s1.g blocked k (k + 1) _ (endInv_bump s1.g blocked k a hk hfit) e2 hfit
  | timerBegin x =>
    simp only [processEvent]
    split
    · exact h
    · exact good_transDec ρ hg x .timerBegin _ (fun p => !p.2 && notEnded p.1 x) h
  | timerEnd x =>
    simp only [processEvent]
    split
    · exact h
    · exact good_transition ρ hg FUEL x _ _ h

theorem good_signalFold (excluded : Option Nat) (n : Nat) (s : Fw σ) (h : Good lo B c s) :
    Good lo B c ((List.range n).foldl (fun s mi =>
      if (excluded == some mi) = true then s else (transition ρ FUEL mi .signal s).1) s) := by
  refine good_fold _ (fun a j ha => ?_) _ s h
  split
  · exact ha
  · exact good_transition ρ hg FUEL j .signal a ha

omit hg in
theorem good_setSignal (p : Option SignalTarget) (s : Fw σ) (h : Good lo B c s) :
    Good lo B c { s with signalPending := p } :=
  ⟨⟨h.1.nowLo, h.1.nowHi, h.1.stLo, h.1.phi, h.1.le⟩, h.2⟩

theorem good_signalRound (s : Fw σ) (h : Good lo B c s) : Good lo B c (signalRound ρ s) := by
  unfold signalRound
  cases hsig : s.signalPending with
  | none => exact h
  | some sig =>
    have h1 := good_setSignal none s h
    cases sig with
    | all =>
      simp only []
      have h3 := good_signalFold ρ hg none s.rt.length _ h1
      generalize ((List.range s.rt.length).foldl (fun s mi =>
          if ((none : Option Nat) == some mi) = true then s else (transition ρ FUEL mi .signal s).1)
          ({ s with signalPending := none } : Fw σ)) = s2 at h3 ⊢
      cases hs2 : s2.signalPending with
      | none => exact h3
      | some _ => exact good_setSignal none s2 h3
    | allExcept x =>
      simp only []
      have h3 := good_signalFold ρ hg (some x) s.rt.length _ h1
      generalize ((List.range s.rt.length).foldl (fun s mi =>
          if (some x == some mi) = true then s else (transition ρ FUEL mi .signal s).1)
          ({ s with signalPending := none } : Fw σ)) = s2 at h3 ⊢
      cases hs2 : s2.signalPending with
      | none => exact h3
      | some _ =>
        simp only []
        exact good_transition ρ hg FUEL x .signal _ (good_setSignal none s2 h3)

omit hg in
/-- the start of a call: the clock moves inside the window, the potential grows by at most `B` -/
theorem good_callStart (s : Fw σ) (t : Int) (ht : lo ≤ t ∧ t ≤ lo + B) (h : Good lo B c s) :
    Good lo B (c + 1) (s.callStart t) := by
  refine ⟨⟨ht.1, ht.2, h.1.stLo, ?_, fun j r hr => ?_⟩, h.2⟩
  · have hphi := h.1.phi
    have hong : ongoing (s.callStart t).g ≤ B := by
      have e : ongoing (s.callStart t).g = (if s.g.blockingActive then durSince t s.g.blockingStarted else 0) := rfl
      rw [e]
      by_cases ha : s.g.blockingActive = true
      · rw [if_pos ha]
        have := h.1.stLo ha
        unfold durSince
        omega
      · rw [if_neg ha]; omega
    have hbd : (s.callStart t).g.blockingDur = s.g.blockingDur := rfl
    rw [hbd, Nat.add_mul, Nat.one_mul]
    omega
  · simp only [Fw.callStart, List.getElem?_map] at hr
    cases hs : s.rt[j]? with
    | none => rw [hs] at hr; cases hr
    | some r0 =>
      rw [hs] at hr
      simp only [Option.map_some, Option.some.injEq] at hr
      subst hr
      exact h.1.le j r0 hs

end

section
variable {lo : Int} {B : Nat}

theorem good_triggerEvents {c : Nat} (hg : (c + 1) * B + B ≤ durMax) (es : List TEvent) (t : Int)
    (ht : lo ≤ t ∧ t ≤ lo + B) (s : Fw σ) (h : Good lo B c s) :
    Good lo B (c + 1) (triggerEvents ρ es t s) := by
  unfold triggerEvents
  refine good_signalRound ρ hg _ ?_
  have h0 := good_callStart s t ht h
  generalize s.callStart t = a at h0
  induction es generalizing a with
  | nil => exact h0
  | cons e es ih => exact ih _ (good_processEvent ρ hg e a h0)

theorem good_runCalls (hist : List Call) (c : Nat) (hg : (c + hist.length) * B + B ≤ durMax)
    (ht : ∀ cl ∈ hist, lo ≤ cl.2 ∧ cl.2 ≤ lo + B) (s : Fw σ) (h : Good lo B c s) :
    Good lo B (c + hist.length) (runCalls ρ s hist) := by
  unfold runCalls
  induction hist generalizing c s with
  | nil => exact h
  | cons cl cs ih =>
    simp only [List.foldl_cons, List.length_cons]
    have hmono : (c + 1) * B + B ≤ durMax := by
      have : (c + 1) * B ≤ (c + (cs.length + 1)) * B := Nat.mul_le_mul_right B (by omega)
      simp only [List.length_cons] at hg
      omega
    have h1 := good_triggerEvents ρ hmono cl.1 cl.2 (ht cl (by simp)) s h
    have := ih (c + 1) (by simp only [List.length_cons] at hg; rw [show c + 1 + cs.length = c + (cs.length + 1) by omega]; exact hg)
      (fun x hx => ht x (by simp [hx])) _ h1
    rw [show c + (cs.length + 1) = c + 1 + cs.length by omega]
    exact this

theorem fo_initLimit (s : Fw σ) (mi : Nat) : FO s (initLimit ρ s mi) := by
  unfold initLimit
  split
  · exact fo_withFault_oob s
  · split
    · exact fo_withFault_oob s
    · split
      · exact FO.refl s
      · next a _ => exact (fo_rngLog (sampleLimit_spec ρ mi a s).1).trans (fo_modRt _ mi _)

theorem durInv_initLimit {c : Nat} (s : Fw σ) (mi : Nat) (h : DurInv lo B c s) : DurInv lo B c (initLimit ρ s mi) := by
  unfold initLimit
  split
  · exact h.ofFrame (Step.fault (mi := mi) _ _).frame
  · split
    · exact h.ofFrame (Step.fault (mi := mi) _ _).frame
    · split
      · exact h
      · next a _ =>
        exact (h.ofFrame (frame_of_rngLog mi (sampleLimit_spec ρ mi a s).1)).modRt mi _ (by intro _; rfl)

theorem good_init (ms : List Machine) (fp fb : F64) (t0 : Int) (rng : σ) (ht : lo ≤ t0 ∧ t0 ≤ lo + B) :
    Good lo B 0 (Fw.init ρ ms fp fb t0 rng) := by
  unfold Fw.init
  have h0 : Good lo B 0 (Fw.init0 ms fp fb t0 rng) := by
    refine ⟨⟨ht.1, ht.2, fun ha => by simp [Fw.init0] at ha, by simp [Fw.init0, ongoing], fun j r hr => ?_⟩,
      by simp [NoDur, Fw.init0]⟩
    simp only [Fw.init0, List.getElem?_map] at hr
    cases hm : ms[j]? with
    | none => rw [hm] at hr; cases hr
    | some m =>
      rw [hm] at hr
      simp only [Option.map_some, Option.some.injEq] at hr
      subst hr
      simp [Fw.init0]
  exact good_fold (initLimit ρ) (fun a j ha => ⟨durInv_initLimit ρ a j ha.1, (fo_initLimit ρ a j).noDur ha.2⟩) _ _ h0

/-- **No duration overflow under a clock-span guard**: if the start time and every call time lie
    in a window `[lo, lo + B]` and `(calls + 1) * B` fits a `Duration`, the run never raises the
    duration-overflow fault. -/
theorem noDur_run (ms : List Machine) (fp fb : F64) (t0 : Int) (rng : σ) (hist : List Call)
    (ht0 : lo ≤ t0 ∧ t0 ≤ lo + B) (ht : ∀ cl ∈ hist, lo ≤ cl.2 ∧ cl.2 ≤ lo + B)
    (hg : (hist.length + 1) * B ≤ durMax) :
    (runCalls ρ (Fw.init ρ ms fp fb t0 rng) hist).fault ≠ some .durOverflow := by
  have h := good_runCalls ρ hist 0 (by rw [Nat.zero_add]; rw [Nat.add_mul, Nat.one_mul] at hg; exact hg) ht _
    (good_init ρ ms fp fb t0 rng ht0)
  exact h.2

end

end Mb
