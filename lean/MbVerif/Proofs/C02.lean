/-
  C02: padding budgets — gate consequence, counting lemmas.
-/
import MbVerif.Proofs.Accounting
import MbVerif.Proofs.C04
import MbVerif.Spec.C02

namespace Mb
variable {σ : Type} (ρ : Oracle σ)

/-- "fraction below the limit" as the code computes it: double division and comparison;
    limit not set (not > 0) or zero packets count as below -/
def belowF (p tot : Nat) (f : F64) : Bool :=
  !(Fp.gt (Fp.val64 f) (.fin 0) && decide (tot > 0) &&
    Fp.ge (Fp.div Fp.f64 (Fp.ofNat Fp.f64 p) (Fp.ofNat Fp.f64 tot)) (Fp.val64 f))

/-- the budget / fraction part of the padding limit predicate -/
def padOKF (allowed : Nat) (mfrac gfrac : F64) (padM normalM padAll normalG : Nat) : Prop :=
  padM < allowed ∨ (belowF padM (normalM + padM) mfrac = true ∧ belowF padAll (padAll + normalG) gfrac = true)

def QPad (g : Globals) (a : RtAcct) (m : Machine) (act : TAction) : Prop :=
  match act with
  | .sendPadding _ _ _ _ =>
    padOKF m.allowedPaddingPackets m.maxPaddingFrac g.maxPaddingFrac a.paddingSent a.normalSent g.paddingSent g.normalSent
  | _ => True

theorem belowLimitPadding_true (g : Globals) (r : Runtime) (m : Machine) (h : belowLimitPadding g r m = true) :
    padOKF m.allowedPaddingPackets m.maxPaddingFrac g.maxPaddingFrac r.acct.paddingSent r.acct.normalSent
      g.paddingSent g.normalSent := by
  unfold belowLimitPadding at h
  unfold padOKF
  by_cases h1 : r.acct.paddingSent < m.allowedPaddingPackets
  · exact Or.inl h1
  · right
    rw [if_neg h1] at h
    simp only [] at h
    split at h
    · simp at h
    · next hc1 =>
      split at h
      · simp at h
      · next hc2 =>
        constructor
        · unfold belowF
          cases hx : (Fp.gt (Fp.val64 m.maxPaddingFrac) (FV.fin 0) && decide (r.acct.normalSent + r.acct.paddingSent > 0) &&
              Fp.ge (Fp.div Fp.f64 (Fp.ofNat Fp.f64 r.acct.paddingSent) (Fp.ofNat Fp.f64 (r.acct.normalSent + r.acct.paddingSent)))
                (Fp.val64 m.maxPaddingFrac)) with
          | false => rfl
          | true => exact absurd hx hc1
        · unfold belowF
          cases hx : (Fp.gt (Fp.val64 g.maxPaddingFrac) (FV.fin 0) && decide (g.paddingSent + g.normalSent > 0) &&
              Fp.ge (Fp.div Fp.f64 (Fp.ofNat Fp.f64 g.paddingSent) (Fp.ofNat Fp.f64 (g.paddingSent + g.normalSent)))
                (Fp.val64 g.maxPaddingFrac)) with
          | false => rfl
          | true => exact absurd hx hc2

theorem gateConseq_QPad : GateConseq QPad := by
  intro g m r₁ st act mi tmo dur hst hact hb
  cases act with
  | cancel t => simp [mkAction, QPad]
  | blockOutgoing => simp [mkAction, QPad]
  | updateTimer => simp [mkAction, QPad]
  | sendPadding b rp tmo' lim =>
    simp only [mkAction, QPad]
    unfold belowActionLimits at hb
    rw [hst] at hb
    simp only [hact] at hb
    exact belowLimitPadding_true g r₁ m (by simpa using hb)


/-! ### the accounting function counts packets -/

/-- all events of a history, in order -/
def events (h : List Call) : List TEvent := h.flatMap (·.1)

/-- `p` is `p0` after accounting for exactly the events `evs` (packet counters only) -/
structure CntRel (evs : List TEvent) (p0 p : Globals × List RtAcct) : Prop where
  padAll : p.1.paddingSent = p0.1.paddingSent + C02.countPadAll evs
  normal : p.1.normalSent = p0.1.normalSent + C02.countNormal evs
  frac : p.1.maxPaddingFrac = p0.1.maxPaddingFrac
  len : p.2.length = p0.2.length
  at_ : ∀ i a, p0.2[i]? = some a → ∃ a', p.2[i]? = some a' ∧
    a'.paddingSent = a.paddingSent + C02.countPad i evs ∧ a'.normalSent = a.normalSent + C02.countNormal evs

theorem CntRel.refl (p : Globals × List RtAcct) : CntRel [] p p :=
  ⟨by simp [C02.countPadAll], by simp [C02.countNormal], rfl, rfl,
   fun i a h => ⟨a, h, by simp [C02.countPad], by simp [C02.countNormal]⟩⟩

theorem CntRel.trans {e1 e2 : List TEvent} {p0 p1 p2 : Globals × List RtAcct}
    (h1 : CntRel e1 p0 p1) (h2 : CntRel e2 p1 p2) : CntRel (e1 ++ e2) p0 p2 := by
  refine ⟨?_, ?_, h2.frac.trans h1.frac, h2.len.trans h1.len, ?_⟩
  · rw [h2.padAll, h1.padAll]; simp [C02.countPadAll, List.countP_append]; omega
  · rw [h2.normal, h1.normal]; simp [C02.countNormal, List.countP_append]; omega
  · intro i a ha
    obtain ⟨a1, ha1, hp1, hn1⟩ := h1.at_ i a ha
    obtain ⟨a2, ha2, hp2, hn2⟩ := h2.at_ i a1 ha1
    refine ⟨a2, ha2, ?_, ?_⟩
    · rw [hp2, hp1]; simp [C02.countPad, List.countP_append]; omega
    · rw [hn2, hn1]; simp [C02.countNormal, List.countP_append]; omega

theorem CntRel.event (e : TEvent) (p : Globals × List RtAcct) : CntRel [e] p (Acct.event e p) := by
  refine ⟨?_, ?_, ?_, by simp [Acct.event], ?_⟩
  · cases e <;> simp [Acct.event, Acct.gEvent, C02.countPadAll] <;> split <;> rfl
  · cases e <;> simp [Acct.event, Acct.gEvent, C02.countNormal] <;> split <;> rfl
  · cases e <;> simp [Acct.event, Acct.gEvent] <;> split <;> rfl
  · intro i a ha
    refine ⟨Acct.rEvent e p.1 i a, by simp [Acct.event, List.getElem?_mapIdx, ha], ?_, ?_⟩
    · cases e <;> simp [Acct.rEvent, C02.countPad]
      · next m => by_cases hm : m = i <;> simp [hm]
      · split <;> rfl
    · cases e <;> simp [Acct.rEvent, C02.countNormal]
      · next m => split <;> rfl
      · split <;> rfl

theorem CntRel.setNow (t : Int) (p : Globals × List RtAcct) : CntRel [] p ({ p.1 with now := t }, p.2) :=
  ⟨by simp [C02.countPadAll], by simp [C02.countNormal], rfl, rfl,
   fun i a h => ⟨a, h, by simp [C02.countPad], by simp [C02.countNormal]⟩⟩

theorem CntRel.foldEvents (es : List TEvent) (p : Globals × List RtAcct) :
    CntRel es p (es.foldl (fun p e => Acct.event e p) p) := by
  induction es generalizing p with
  | nil => exact CntRel.refl p
  | cons e es ih =>
    have := (CntRel.event e p).trans (ih (Acct.event e p))
    simpa using this

theorem CntRel.call (es : List TEvent) (t : Int) (p : Globals × List RtAcct) : CntRel es p (Acct.call es t p) := by
  have := (CntRel.setNow t p).trans (CntRel.foldEvents es _)
  simpa [Acct.call] using this

theorem CntRel.history (h : List Call) (p : Globals × List RtAcct) : CntRel (events h) p (Acct.history h p) := by
  induction h generalizing p with
  | nil => exact CntRel.refl p
  | cons c h ih =>
    have := (CntRel.call c.1 c.2 p).trans (ih (Acct.call c.1 c.2 p))
    simpa [events, Acct.history] using this

end Mb
