/-
  END is absorbing: a machine in END stays there and its slot stays empty.
-/
import MbVerif.Proofs.Walk

namespace Mb
variable {σ : Type} (ρ : Oracle σ)

/-- machine `mi` is in END -/
def Ended (mi : Nat) (s : Fw σ) : Prop := (s.rt[mi]?).map (·.currentState) = some STATE_END

/-- machine `mi` is in END and its slot holds no action -/
def Quiet (mi : Nat) (s : Fw σ) : Prop := Ended mi s ∧ ∀ a, s.actions[mi]? ≠ some (some a)

theorem Quiet.ofFrame {mi j : Nat} {s t : Fw σ} (hj : j ≠ mi) (hf : Frame j s t) (hq : Quiet mi s) : Quiet mi t := by
  refine ⟨?_, ?_⟩
  · unfold Ended; rw [hf.rtOther mi (Ne.symm hj)]; exact hq.1
  · intro a; rw [hf.actOther mi (Ne.symm hj)]; exact hq.2 a

theorem transition_ended (fuel mi : Nat) (ev : Event) (s : Fw σ) (h : Ended mi s) :
    (transition ρ fuel mi ev s).1.rt = s.rt ∧ (transition ρ fuel mi ev s).1.actions = s.actions := by
  cases fuel with
  | zero => simp [transition]
  | succ n =>
    rw [transition]
    unfold Ended at h
    cases hr : s.rt[mi]? with
    | none => rw [hr] at h; simp at h
    | some r =>
      rw [hr] at h
      have hend : r.currentState = STATE_END := by simpa using h
      cases hm : s.machines[mi]? with
      | none => simp
      | some m => simp [hend]

theorem notEnded_false_of_ended {mi : Nat} {s : Fw σ} (h : Ended mi s) : notEnded s mi = false := by
  unfold Ended at h
  unfold notEnded
  cases hr : s.rt[mi]? with
  | none => rfl
  | some r =>
    rw [hr] at h
    have hend : r.currentState = STATE_END := by simpa using h
    simp [hend]

theorem ended_callStart {mi : Nat} {s : Fw σ} {t : Int} (h : Ended mi s) : Ended mi (s.callStart t) := by
  unfold Ended at h ⊢
  simp only [Fw.callStart, List.getElem?_map]
  cases hr : s.rt[mi]? with
  | none => rw [hr] at h; simp at h
  | some r => rw [hr] at h; simpa using h

theorem walkQuiet (mi : Nat) : Walk ρ (fun (s t : Fw σ) => Quiet mi s → Quiet mi t) where
  refl _ h := h
  trans h₁ h₂ h := h₂ (h₁ h)
  transition j ev s _ hq := by
    by_cases hj : j = mi
    · subst hj
      obtain ⟨h1, h2⟩ := transition_ended ρ FUEL j ev s hq.1
      exact ⟨by unfold Ended; rw [h1]; exact hq.1, fun a => by rw [h2]; exact hq.2 a⟩
    · exact Quiet.ofFrame hj (transition_reach ρ FUEL j ev s).frame hq
  decrement j s hne hq := by
    by_cases hj : j = mi
    · subst hj
      rw [notEnded_false_of_ended hq.1] at hne
      exact absurd hne (by simp)
    · exact Quiet.ofFrame hj (decrementLimit_reach ρ j s).frame hq
  setG _ _ hq := hq
  acct s j f hf hq := by
    refine ⟨?_, fun a => by simpa using hq.2 a⟩
    unfold Ended
    by_cases hj : j = mi
    · subst hj
      rw [Fw.modRt_rt_self]
      have := hq.1
      unfold Ended at this
      cases hr : s.rt[j]? with
      | none => rw [hr] at this; simp at this
      | some r =>
        rw [hr] at this
        simp only [Option.map_some] at this ⊢
        rw [hf r]; exact this
    · rw [Fw.modRt_rt_other s j mi f (Ne.symm hj)]; exact hq.1
  fault s f hq := ⟨by have := hq.1; unfold Ended at this ⊢; simpa using this, fun a => by simpa using hq.2 a⟩
  signal _ _ hq := hq
  callStart s t hq := by
    refine ⟨ended_callStart hq.1, fun a h => ?_⟩
    change (List.map (fun _ => (none : Option TAction)) s.actions)[mi]? = some (some a) at h
    rw [List.getElem?_map] at h
    cases h' : s.actions[mi]? <;> simp [h'] at h

/-- one call: a machine in END before the call is in END after it, and its slot is empty -/
theorem triggerEvents_quiet (mi : Nat) (es : List TEvent) (t : Int) (s : Fw σ) (h : Ended mi s) :
    Quiet mi (triggerEvents ρ es t s) := by
  have W := walkQuiet ρ (σ := σ) mi
  unfold triggerEvents
  have h0 : Quiet mi (s.callStart t) := by
    refine ⟨ended_callStart h, fun a h => ?_⟩
    change (List.map (fun _ => (none : Option TAction)) s.actions)[mi]? = some (some a) at h
    rw [List.getElem?_map] at h
    cases h' : s.actions[mi]? <;> simp [h'] at h
  exact W.signalRound _ (W.foldl _ (fun s e => W.processEvent e s) _ _ h0)

end Mb
