/-
  C08, call level, order on the log: the ghost log segment of any single call satisfies the two
  rules of the monitor `C08.checkLog` / `C08.strayCZ` (Spec/C08.lean): read chronologically, every
  `counter mi ao an bo bn` entry is immediately followed by `trans mi CounterZero _` exactly when
  the update was a zeroing one (non-zero -> zero for a counter whose per-call flag of that machine
  was still unset), every `trans mi CounterZero _` entry is immediately preceded by a
  `counter mi ..` entry, and all logged counter values are u64.

  Method: `Good f c f'` says that the monitor, started with flags `f` in front of the chronological
  segment `c` followed by any continuation that does not start with a CounterZero delivery, ends up
  with flags `f'` in front of the continuation (for both rules). Such segments compose. `Inv f s`
  ties the monitor's flag lists to the model's per-machine `zeroedA/zeroedB` flags and carries the
  u64 bound on the counters. The relation `R s t` ("`t` extends the log of `s` by a good segment,
  and the invariant is carried along") is reflexive, transitive and holds for `transition` /
  `updateCounter` (mutual induction on the fuel, with the fuel potential `2 * unset + 2` of C01 to
  know that the CounterZero delivery really happens), hence - by the generic walker - for whole
  calls.
-/
import MbVerif.Proofs.SafeCall
import MbVerif.Proofs.Walk
import MbVerif.Proofs.CzCount
import MbVerif.Spec.C08

namespace Mb
namespace CL
open C08 (Flags checkLog strayCZ)

/-! ### the monitor on segments -/

/-- the list starts with a CounterZero delivery (to whatever machine) -/
def headCZ : List LogEntry → Bool
  | .trans _ ev _ :: _ => ev == Gen.EV_CounterZero
  | _ => false

/-- entries the monitor skips: everything but counter updates and CounterZero deliveries -/
def plain : LogEntry → Bool
  | .counter .. => false
  | .trans _ ev _ => ev != Gen.EV_CounterZero
  | _ => true

theorem headCZ_append {c₁ c₂ : List LogEntry} (h₁ : headCZ c₁ = false) (h₂ : headCZ c₂ = false) :
    headCZ (c₁ ++ c₂) = false := by
  cases c₁ with
  | nil => exact h₂
  | cons e c => cases e <;> exact h₁

/-- `strayCZ` only inspects adjacent pairs: an entry in front of a list that does not start with a
    CounterZero delivery changes nothing -/
theorem strayCZ_cons (e : LogEntry) (l : List LogEntry) (h : headCZ l = false) :
    strayCZ (e :: l) = strayCZ l := by
  cases l with
  | nil => rfl
  | cons b r =>
    cases b with
    | trans mi ev st =>
      have hev : (ev == Gen.EV_CounterZero) = false := h
      simp [strayCZ, hev]
    | _ => simp only [strayCZ]

/-- a CounterZero delivery directly after the counter update of the same machine is accepted -/
theorem strayCZ_pair (mi ao an bo bn st : Nat) (l : List LogEntry) :
    strayCZ (.counter mi ao an bo bn :: .trans mi Gen.EV_CounterZero st :: l) =
      strayCZ (.trans mi Gen.EV_CounterZero st :: l) := by
  simp [strayCZ]

/-- the monitor, started with flags `f` in front of `c ++ rest`, reaches `rest` with flags `f'`
    (for every continuation `rest` that does not start with a CounterZero delivery) -/
structure Good (f : Flags) (c : List LogEntry) (f' : Flags) : Prop where
  head : headCZ c = false
  chk : ∀ rest, headCZ rest = false → checkLog f (c ++ rest) = checkLog f' rest
  stray : ∀ rest, headCZ rest = false → strayCZ (c ++ rest) = strayCZ rest

theorem Good.nil (f : Flags) : Good f [] f := ⟨rfl, fun _ _ => rfl, fun _ _ => rfl⟩

theorem Good.append {f f₁ f₂ : Flags} {c₁ c₂ : List LogEntry} (h₁ : Good f c₁ f₁) (h₂ : Good f₁ c₂ f₂) :
    Good f (c₁ ++ c₂) f₂ := by
  refine ⟨headCZ_append h₁.head h₂.head, fun rest hr => ?_, fun rest hr => ?_⟩
  · rw [List.append_assoc, h₁.chk _ (headCZ_append h₂.head hr), h₂.chk _ hr]
  · rw [List.append_assoc, h₁.stray _ (headCZ_append h₂.head hr), h₂.stray _ hr]

theorem checkLog_plain (f : Flags) (e : LogEntry) (he : plain e = true) (l : List LogEntry) :
    checkLog f (e :: l) = checkLog f l := by
  cases e with
  | counter => cases he
  | _ => simp only [checkLog]

theorem Good.single (f : Flags) (e : LogEntry) (he : plain e = true) : Good f [e] f := by
  refine ⟨?_, fun rest _ => checkLog_plain f e he rest, fun rest hr => strayCZ_cons e rest hr⟩
  cases e with
  | trans mi ev st => simpa [headCZ, plain] using he
  | _ => rfl

/-- the flags after a counter update in which A / B were (`za` / `zb`) zeroed -/
def upd (f : Flags) (mi : Nat) (za zb : Bool) : Flags :=
  { a := if za then mi :: f.a else f.a, b := if zb then mi :: f.b else f.b }

/-- a counter update that zeroes nothing, not followed by a CounterZero delivery -/
theorem Good.counterNZ (f : Flags) (mi ao an bo bn : Nat) (han : an ≤ Fp.u64Max) (hbn : bn ≤ Fp.u64Max)
    (hza : (ao != 0 && an == 0 && !f.a.contains mi) = false)
    (hzb : (bo != 0 && bn == 0 && !f.b.contains mi) = false) :
    Good f [.counter mi ao an bo bn] (upd f mi false false) := by
  refine ⟨rfl, fun rest hr => ?_, fun rest hr => strayCZ_cons _ rest hr⟩
  have h1 : ¬ (an > Fp.u64Max) := by omega
  have h2 : ¬ (bn > Fp.u64Max) := by omega
  show checkLog f (.counter mi ao an bo bn :: rest) = _
  cases rest with
  | nil =>
    simp only [checkLog, hza, hzb, h1, h2]
    simp
  | cons b r =>
    cases b with
    | trans m ev st =>
      have hev : (ev == Gen.EV_CounterZero) = false := hr
      simp only [checkLog, hza, hzb, h1, h2, upd, hev]
      simp
    | _ =>
      simp only [checkLog, hza, hzb, h1, h2, upd]
      simp

/-- a zeroing counter update, directly followed by the CounterZero delivery to the same machine
    and then by a good segment -/
theorem Good.counterZ (f f'' : Flags) (mi ao an bo bn st : Nat) (za zb : Bool) (c : List LogEntry)
    (han : an ≤ Fp.u64Max) (hbn : bn ≤ Fp.u64Max)
    (hza : (ao != 0 && an == 0 && !f.a.contains mi) = za)
    (hzb : (bo != 0 && bn == 0 && !f.b.contains mi) = zb)
    (hz : (za || zb) = true) (hc : Good (upd f mi za zb) c f'') :
    Good f (.counter mi ao an bo bn :: .trans mi Gen.EV_CounterZero st :: c) f'' := by
  refine ⟨rfl, fun rest hr => ?_, fun rest hr => ?_⟩
  · have h1 : ¬ (an > Fp.u64Max) := by omega
    have h2 : ¬ (bn > Fp.u64Max) := by omega
    show checkLog f (.counter mi ao an bo bn :: .trans mi Gen.EV_CounterZero st :: (c ++ rest)) = _
    simp only [checkLog, hza, hzb, hz, h1, h2]
    simp only [beq_self_eq_true, Bool.and_self, Bool.not_true, Bool.and_false, Bool.or_self,
      Bool.false_eq_true, if_false]
    exact hc.chk rest hr
  · show strayCZ (.counter mi ao an bo bn :: .trans mi Gen.EV_CounterZero st :: (c ++ rest)) = _
    rw [strayCZ_pair, strayCZ_cons _ _ (headCZ_append hc.head hr)]
    exact hc.stray rest hr


/-! ### the invariant tying the monitor's flags to the model -/

variable {σ : Type} (ρ : Oracle σ)

/-- the monitor's flag lists agree with the model's per-machine flags, and all counters are u64 -/
structure Inv (f : Flags) (s : Fw σ) : Prop where
  a : ∀ mi, mi ∈ f.a ↔ zeroedAOf s mi = true
  b : ∀ mi, mi ∈ f.b ↔ zeroedBOf s mi = true
  bnd : ∀ (mi : Nat) (r : Runtime), s.rt[mi]? = some r → r.counterA ≤ Fp.u64Max ∧ r.counterB ≤ Fp.u64Max

/-- the part of a runtime the invariant depends on -/
def key (r : Runtime) : Bool × Bool × Nat × Nat := (r.zeroedA, r.zeroedB, r.counterA, r.counterB)

theorem Inv.congr {f : Flags} {s t : Fw σ} (h : ∀ mi : Nat, (t.rt[mi]?).map key = (s.rt[mi]?).map key)
    (hi : Inv f s) : Inv f t := by
  have hA : ∀ mi, zeroedAOf t mi = zeroedAOf s mi := by
    intro mi
    have := h mi
    rw [zeroedAOf_eq, zeroedAOf_eq]
    cases ht : t.rt[mi]? <;> cases hs : s.rt[mi]? <;> rw [ht, hs] at this <;> simp [key] at this ⊢
    exact this.1
  have hB : ∀ mi, zeroedBOf t mi = zeroedBOf s mi := by
    intro mi
    have := h mi
    rw [zeroedBOf_eq, zeroedBOf_eq]
    cases ht : t.rt[mi]? <;> cases hs : s.rt[mi]? <;> rw [ht, hs] at this <;> simp [key] at this ⊢
    exact this.2.1
  refine ⟨fun mi => by rw [hA]; exact hi.a mi, fun mi => by rw [hB]; exact hi.b mi, fun mi r hr => ?_⟩
  have := h mi
  rw [hr] at this
  cases hs : s.rt[mi]? with
  | none => rw [hs] at this; simp at this
  | some r0 =>
    rw [hs] at this
    simp only [Option.map_some, Option.some.injEq, key, Prod.mk.injEq] at this
    have hb := hi.bnd mi r0 hs
    rw [this.2.2.1, this.2.2.2]
    exact hb

/-- the invariant after a counter update of machine `mi` in which A / B were zeroed (`za`/`zb`) -/
theorem Inv.update {f : Flags} {s t : Fw σ} {mi : Nat} {r r' : Runtime} (za zb : Bool) (hi : Inv f s)
    (hr : s.rt[mi]? = some r) (hr' : t.rt[mi]? = some r')
    (ho : ∀ j, j ≠ mi → t.rt[j]? = s.rt[j]?)
    (hza : r'.zeroedA = (r.zeroedA || za)) (hzb : r'.zeroedB = (r.zeroedB || zb))
    (hca : r'.counterA ≤ Fp.u64Max) (hcb : r'.counterB ≤ Fp.u64Max) : Inv (upd f mi za zb) t := by
  refine ⟨fun j => ?_, fun j => ?_, fun j rj hj => ?_⟩
  · by_cases hj : j = mi
    · subst hj
      have h0 := hi.a j
      unfold zeroedAOf at h0 ⊢
      rw [hr] at h0
      rw [hr']
      simp only [hza, upd]
      cases za <;> simp [h0]
    · have h0 := hi.a j
      unfold zeroedAOf at h0 ⊢
      rw [ho j hj]
      simp only [upd]
      cases za <;> simp [h0, hj]
  · by_cases hj : j = mi
    · subst hj
      have h0 := hi.b j
      unfold zeroedBOf at h0 ⊢
      rw [hr] at h0
      rw [hr']
      simp only [hzb, upd]
      cases zb <;> simp [h0]
    · have h0 := hi.b j
      unfold zeroedBOf at h0 ⊢
      rw [ho j hj]
      simp only [upd]
      cases zb <;> simp [h0, hj]
  · by_cases hjm : j = mi
    · subst hjm
      rw [hr'] at hj
      cases hj
      exact ⟨hca, hcb⟩
    · rw [ho j hjm] at hj
      exact hi.bnd j rj hj

/-! ### the relation carried through a call -/

/-- `t` extends the log of `s` by the chronological segment `c`, which the monitor accepts starting
    from any flags that agree with `s`, ending with flags that agree with `t` -/
def R (s t : Fw σ) : Prop :=
  ∃ c, t.log = c.reverse ++ s.log ∧ ∀ f, Inv f s → ∃ f', Good f c f' ∧ Inv f' t

theorem R.refl (s : Fw σ) : R s s := ⟨[], rfl, fun f hf => ⟨f, Good.nil f, hf⟩⟩

theorem R.trans {s t u : Fw σ} (h₁ : R s t) (h₂ : R t u) : R s u := by
  obtain ⟨c1, e1, p1⟩ := h₁
  obtain ⟨c2, e2, p2⟩ := h₂
  refine ⟨c1 ++ c2, by rw [e2, e1, List.reverse_append, List.append_assoc], fun f hf => ?_⟩
  obtain ⟨f1, g1, i1⟩ := p1 f hf
  obtain ⟨f2, g2, i2⟩ := p2 f1 i1
  exact ⟨f2, g1.append g2, i2⟩

theorem R.keep {s t : Fw σ} (hl : t.log = s.log) (hk : ∀ mi : Nat, (t.rt[mi]?).map key = (s.rt[mi]?).map key) :
    R s t :=
  ⟨[], by simp [hl], fun f hf => ⟨f, Good.nil f, hf.congr hk⟩⟩

theorem R.same {s t : Fw σ} (hl : t.log = s.log) (hrt : t.rt = s.rt) : R s t :=
  R.keep hl (fun mi => by rw [hrt])

theorem R.withFault (s : Fw σ) (f : Fault) : R s (s.withFault f) := R.same (by simp) (by simp)

theorem R.modRt (s : Fw σ) (j : Nat) (g : Runtime → Runtime) (hg : ∀ r, key (g r) = key r) :
    R s (s.modRt j g) := by
  refine R.keep (by simp) (fun mi => ?_)
  by_cases hj : mi = j
  · subst hj
    rw [Fw.modRt_rt_self]
    cases s.rt[mi]? <;> simp [hg]
  · rw [Fw.modRt_rt_other s j mi g hj]

/-- one more entry that the monitor skips -/
theorem R.log1 {s t : Fw σ} (e : LogEntry) (he : plain e = true) (hl : t.log = e :: s.log) (hrt : t.rt = s.rt) :
    R s t :=
  ⟨[e], by simp [hl], fun f hf => ⟨f, Good.single f e he, hf.congr (fun mi => by rw [hrt])⟩⟩

theorem R.push (s : Fw σ) (e : LogEntry) (he : plain e = true) : R s (s.push e) := R.log1 e he rfl rfl

/-- sampling: the log grows by skipped entries only, runtimes and machines are untouched -/
def Q (s t : Fw σ) : Prop :=
  ∃ c, t.log = c.reverse ++ s.log ∧ (∀ g, Good g c g) ∧ t.rt = s.rt ∧ t.machines = s.machines

theorem Q.refl (s : Fw σ) : Q s s := ⟨[], rfl, fun g => Good.nil g, rfl, rfl⟩

theorem Q.trans {s t u : Fw σ} (h₁ : Q s t) (h₂ : Q t u) : Q s u := by
  obtain ⟨c1, e1, g1, r1, m1⟩ := h₁
  obtain ⟨c2, e2, g2, r2, m2⟩ := h₂
  exact ⟨c1 ++ c2, by rw [e2, e1, List.reverse_append, List.append_assoc], fun g => (g1 g).append (g2 g),
    r2.trans r1, m2.trans m1⟩

theorem Q.toR {s t : Fw σ} (h : Q s t) : R s t := by
  obtain ⟨c, e, g, r, _⟩ := h
  exact ⟨c, e, fun f hf => ⟨f, g f, hf.congr (fun mi => by rw [r])⟩⟩

theorem q_distSample (d : Dist) (s : Fw σ) : Q s (distSample ρ d s).2 := by
  unfold distSample
  exact ⟨[.distRaw _], rfl, fun g => Good.single g _ rfl, rfl, rfl⟩

theorem q_sampleLimit (a : Action) (s : Fw σ) : Q s (sampleLimit ρ a s).2 := by
  unfold sampleLimit; split
  · exact Q.refl s
  · exact q_distSample ρ _ s

theorem q_sampleValue (c : Counter) (s : Fw σ) : Q s (sampleValue ρ c s).2 := by
  unfold sampleValue; split
  · exact Q.refl s
  · exact q_distSample ρ _ s

theorem q_sampleTimeout (a : Action) (s : Fw σ) : Q s (sampleTimeout ρ a s).2 := by
  unfold sampleTimeout; split
  · exact q_distSample ρ _ s
  · exact q_distSample ρ _ s
  · exact Q.refl s

theorem q_sampleDuration (a : Action) (s : Fw σ) : Q s (sampleDuration ρ a s).2 := by
  unfold sampleDuration; split
  · exact q_distSample ρ _ s
  · exact q_distSample ρ _ s
  · exact Q.refl s

theorem q_counterOperand (c : Counter) (other : Nat) (s : Fw σ) : Q s (counterOperand ρ c other s).2 := by
  unfold counterOperand; split
  · exact Q.refl s
  · exact q_sampleValue ρ c s

theorem r_enterState (mi : Nat) (m : Machine) (cur next : Nat) (s : Fw σ) : R s (enterState ρ mi m cur next s) := by
  unfold enterState
  split
  · simp only
    have h1 : R s (s.modRt mi (fun r => { r with currentState := next })) := R.modRt s mi _ (by intro _; rfl)
    split
    · exact h1.trans (R.withFault _ _)
    · split
      · next a _ =>
        exact ((h1.trans (q_sampleLimit ρ a _).toR).trans (R.modRt _ mi _ (by intro _; rfl))).trans (R.push _ _ rfl)
      · exact (h1.trans (R.modRt _ mi _ (by intro _; rfl))).trans (R.push _ _ rfl)
  · exact R.refl s

theorem r_scheduleAction (mi next : Nat) (s : Fw σ) : R s (scheduleAction ρ mi next s) := by
  unfold scheduleAction
  cases hm : s.machines[mi]? with
  | none => exact R.withFault s _
  | some m =>
    simp only []
    cases hst : m.states[next]? with
    | none => exact R.withFault s _
    | some st =>
      simp only []
      split
      · exact R.withFault s _
      · cases hact : st.action with
        | none => exact R.same rfl rfl
        | some act =>
          cases act with
          | cancel t => exact R.same rfl rfl
          | sendPadding b rp tmo lim =>
            simp only
            exact (q_sampleTimeout ρ _ s).toR.trans (R.same rfl rfl)
          | blockOutgoing b rp tmo du lim =>
            simp only
            exact ((q_sampleTimeout ρ _ s).trans (q_sampleDuration ρ _ _)).toR.trans (R.same rfl rfl)
          | updateTimer rp du lim =>
            simp only
            exact (q_sampleDuration ρ _ s).toR.trans (R.same rfl rfl)


/-! ### the two counter updates, explicitly -/

theorem applyOp_le (op : Operation) (cur change : Nat) (hc : cur ≤ Fp.u64Max) (hv : change ≤ Fp.u64Max) :
    applyOp op cur change ≤ Fp.u64Max := by
  cases op <;> simp [applyOp] <;> (try split) <;> omega

theorem sampleValue_le (c : Counter) (s : Fw σ) : (sampleValue ρ c s).1 ≤ Fp.u64Max := by
  unfold sampleValue
  cases c.dist with
  | none => simp [Fp.u64Max]
  | some d => simp only []; exact toU64_lt _

theorem counterOperand_le (c : Counter) (other : Nat) (s : Fw σ) (ho : other ≤ Fp.u64Max) :
    (counterOperand ρ c other s).1 ≤ Fp.u64Max := by
  unfold counterOperand; split
  · exact ho
  · exact sampleValue_le ρ c s

theorem storeA_spec (mi oldA newA : Nat) (s : Fw σ) (r : Runtime) (hr : s.rt[mi]? = some r) :
    (storeCounterA mi oldA newA s).2 = (decide (oldA ≠ 0) && decide (newA = 0) && !r.zeroedA) ∧
    (storeCounterA mi oldA newA s).1.rt[mi]? =
      some { r with counterA := newA, zeroedA := r.zeroedA || (storeCounterA mi oldA newA s).2 } ∧
    (∀ j, j ≠ mi → (storeCounterA mi oldA newA s).1.rt[j]? = s.rt[j]?) ∧
    (storeCounterA mi oldA newA s).1.log = s.log ∧
    (storeCounterA mi oldA newA s).1.machines = s.machines := by
  have hz : zeroedAOf (s.modRt mi (fun r => { r with counterA := newA })) mi = r.zeroedA := by
    rw [zeroedAOf_modRt, hr]; rfl
  unfold storeCounterA
  simp only [hz]
  split
  · next h =>
    refine ⟨h.symm, ?_, fun j hj => ?_, by simp, by simp⟩
    · rw [Fw.modRt_rt_self, Fw.modRt_rt_self, hr]; simp
    · rw [Fw.modRt_rt_other _ mi j _ hj, Fw.modRt_rt_other _ mi j _ hj]
  · next h =>
    refine ⟨?_, ?_, fun j hj => ?_, by simp, by simp⟩
    · simp only [Bool.not_eq_true] at h; exact h.symm
    · rw [Fw.modRt_rt_self, hr]; simp
    · rw [Fw.modRt_rt_other _ mi j _ hj]

theorem storeB_spec (mi oldB newB : Nat) (s : Fw σ) (r : Runtime) (hr : s.rt[mi]? = some r) :
    (storeCounterB mi oldB newB s).2 = (decide (oldB ≠ 0) && decide (newB = 0) && !r.zeroedB) ∧
    (storeCounterB mi oldB newB s).1.rt[mi]? =
      some { r with counterB := newB, zeroedB := r.zeroedB || (storeCounterB mi oldB newB s).2 } ∧
    (∀ j, j ≠ mi → (storeCounterB mi oldB newB s).1.rt[j]? = s.rt[j]?) ∧
    (storeCounterB mi oldB newB s).1.log = s.log ∧
    (storeCounterB mi oldB newB s).1.machines = s.machines := by
  have hz : zeroedBOf (s.modRt mi (fun r => { r with counterB := newB })) mi = r.zeroedB := by
    rw [zeroedBOf_modRt, hr]; rfl
  unfold storeCounterB
  simp only [hz]
  split
  · next h =>
    refine ⟨h.symm, ?_, fun j hj => ?_, by simp, by simp⟩
    · rw [Fw.modRt_rt_self, Fw.modRt_rt_self, hr]; simp
    · rw [Fw.modRt_rt_other _ mi j _ hj, Fw.modRt_rt_other _ mi j _ hj]
  · next h =>
    refine ⟨?_, ?_, fun j hj => ?_, by simp, by simp⟩
    · simp only [Bool.not_eq_true] at h; exact h.symm
    · rw [Fw.modRt_rt_self, hr]; simp
    · rw [Fw.modRt_rt_other _ mi j _ hj]

/-- counter A part of `update_counter` on a machine with runtime `r`: the new value is a u64, the
    report is "non-zero -> zero with the flag unset", the flag is set on a report, nothing else of
    any runtime changes, and the log grows by skipped entries only -/
theorem applyA_spec (mi : Nat) (c : Option Counter) (oldA oldB : Nat) (s : Fw σ) (r : Runtime)
    (hr : s.rt[mi]? = some r) (hoA : oldA = r.counterA) (hA : oldA ≤ Fp.u64Max) (hB : oldB ≤ Fp.u64Max) :
    ∃ newA, newA ≤ Fp.u64Max ∧
      (applyCounterA ρ mi c oldA oldB s).2 = (decide (oldA ≠ 0) && decide (newA = 0) && !r.zeroedA) ∧
      (applyCounterA ρ mi c oldA oldB s).1.rt[mi]? =
        some { r with counterA := newA, zeroedA := r.zeroedA || (applyCounterA ρ mi c oldA oldB s).2 } ∧
      (∀ j, j ≠ mi → (applyCounterA ρ mi c oldA oldB s).1.rt[j]? = s.rt[j]?) ∧
      (applyCounterA ρ mi c oldA oldB s).1.machines = s.machines ∧
      ∃ cs, (applyCounterA ρ mi c oldA oldB s).1.log = cs.reverse ++ s.log ∧ ∀ g, Good g cs g := by
  unfold applyCounterA
  cases c with
  | none =>
    refine ⟨oldA, hA, ?_, ?_, fun _ _ => rfl, rfl, [], rfl, fun g => Good.nil g⟩
    · by_cases h0 : oldA = 0 <;> simp [h0]
    · subst hoA; simp [hr]
  | some c =>
    simp only []
    obtain ⟨cs, hl, hg, hrt, hm⟩ := q_counterOperand ρ c oldB s
    have hle := counterOperand_le ρ c oldB s hB
    generalize counterOperand ρ c oldB s = p at hl hrt hm hle ⊢
    obtain ⟨h1, h2, h3, h4, h5⟩ := storeA_spec mi oldA (applyOp c.operation oldA p.1) p.2 r (by rw [hrt]; exact hr)
    refine ⟨applyOp c.operation oldA p.1, applyOp_le _ _ _ hA hle, h1, h2, fun j hj => ?_, h5.trans hm,
      cs, by rw [h4, hl], hg⟩
    rw [h3 j hj, hrt]

theorem applyB_spec (mi : Nat) (c : Option Counter) (oldA oldB : Nat) (s : Fw σ) (r : Runtime)
    (hr : s.rt[mi]? = some r) (hoB : oldB = r.counterB) (hA : oldA ≤ Fp.u64Max) (hB : oldB ≤ Fp.u64Max) :
    ∃ newB, newB ≤ Fp.u64Max ∧
      (applyCounterB ρ mi c oldA oldB s).2 = (decide (oldB ≠ 0) && decide (newB = 0) && !r.zeroedB) ∧
      (applyCounterB ρ mi c oldA oldB s).1.rt[mi]? =
        some { r with counterB := newB, zeroedB := r.zeroedB || (applyCounterB ρ mi c oldA oldB s).2 } ∧
      (∀ j, j ≠ mi → (applyCounterB ρ mi c oldA oldB s).1.rt[j]? = s.rt[j]?) ∧
      (applyCounterB ρ mi c oldA oldB s).1.machines = s.machines ∧
      ∃ cs, (applyCounterB ρ mi c oldA oldB s).1.log = cs.reverse ++ s.log ∧ ∀ g, Good g cs g := by
  unfold applyCounterB
  cases c with
  | none =>
    refine ⟨oldB, hB, ?_, ?_, fun _ _ => rfl, rfl, [], rfl, fun g => Good.nil g⟩
    · by_cases h0 : oldB = 0 <;> simp [h0]
    · subst hoB; simp [hr]
  | some c =>
    simp only []
    obtain ⟨cs, hl, hg, hrt, hm⟩ := q_counterOperand ρ c oldA s
    have hle := counterOperand_le ρ c oldA s hA
    generalize counterOperand ρ c oldA s = p at hl hrt hm hle ⊢
    obtain ⟨h1, h2, h3, h4, h5⟩ := storeB_spec mi oldB (applyOp c.operation oldB p.1) p.2 r (by rw [hrt]; exact hr)
    refine ⟨applyOp c.operation oldB p.1, applyOp_le _ _ _ hB hle, h1, h2, fun j hj => ?_, h5.trans hm,
      cs, by rw [h4, hl], hg⟩
    rw [h3 j hj, hrt]

end CL
end Mb
