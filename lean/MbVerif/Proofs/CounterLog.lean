/-
  C08, call level, order on the log: the ghost log segment of any single call satisfies the two
  rules of the monitor `C08.checkLog` / `C08.strayCZ` (Spec/C08.lean): read chronologically, every
  `counter mi ao an bo bn` entry is immediately followed by `trans mi CounterZero _` exactly when
  the update was a zeroing one (non-zero -> zero for a counter whose per-call flag of that machine
  was still unset), every `trans mi CounterZero _` entry is immediately preceded by a
  `counter mi ..` entry, and all logged counter values are u64.

  Method: `Good f c f'` says that the monitor, started with flags `f` in front of the chronological
  segment `c` followed by any continuation that does not start with a CounterZero delivery, ends up
  with flags `f'` in front of the continuation (for both rules). Such segments compose. `Inv f s`
  ties the monitor's flag lists to the model's per-machine `zeroedA/zeroedB` flags and carries the
  u64 bound on the counters. The relation `R s t` ("`t` extends the log of `s` by a good segment,
  and the invariant is carried along") is reflexive, transitive and holds for `transition` /
  `updateCounter` (mutual induction on the fuel, with the fuel potential `2 * unset + 2` of C01 to
  know that the CounterZero delivery really happens), hence - by the generic walker - for whole
  calls.
-/
import MbVerif.Proofs.SafeCall
import MbVerif.Proofs.Walk
import MbVerif.Proofs.CzCount
import MbVerif.Spec.C08

namespace Mb
namespace CL
open C08 (Flags checkLog strayCZ)

/-! ### the monitor on segments -/

/-- the list starts with a CounterZero delivery (to whatever machine) -/
def headCZ : List LogEntry → Bool
  | .trans _ ev _ :: _ => ev == Gen.EV_CounterZero
  | _ => false

/-- entries the monitor skips: everything but counter updates and CounterZero deliveries -/
def plain : LogEntry → Bool
  | .counter .. => false
  | .trans _ ev _ => ev != Gen.EV_CounterZero
  | _ => true

theorem headCZ_append {c₁ c₂ : List LogEntry} (h₁ : headCZ c₁ = false) (h₂ : headCZ c₂ = false) :
    headCZ (c₁ ++ c₂) = false := by
  cases c₁ with
  | nil => exact h₂
  | cons e c => cases e <;> exact h₁

/-- `strayCZ` only inspects adjacent pairs: an entry in front of a list that does not start with a
    CounterZero delivery changes nothing -/
theorem strayCZ_cons (e : LogEntry) (l : List LogEntry) (h : headCZ l = false) :
    strayCZ (e :: l) = strayCZ l := by
  cases l with
  | nil => rfl
  | cons b r =>
    cases b with
    | trans mi ev st =>
      have hev : (ev == Gen.EV_CounterZero) = false := h
      simp [strayCZ, hev]
    | _ => simp only [strayCZ]

/-- a CounterZero delivery directly after the counter update of the same machine is accepted -/
theorem strayCZ_pair (mi ao an bo bn st : Nat) (l : List LogEntry) :
    strayCZ (.counter mi ao an bo bn :: .trans mi Gen.EV_CounterZero st :: l) =
      strayCZ (.trans mi Gen.EV_CounterZero st :: l) := by
  simp [strayCZ]

/-- the monitor, started with flags `f` in front of `c ++ rest`, reaches `rest` with flags `f'`
    (for every continuation `rest` that does not start with a CounterZero delivery) -/
structure Good (f : Flags) (c : List LogEntry) (f' : Flags) : Prop where
  head : headCZ c = false
  chk : ∀ rest, headCZ rest = false → checkLog f (c ++ rest) = checkLog f' rest
  stray : ∀ rest, headCZ rest = false → strayCZ (c ++ rest) = strayCZ rest

theorem Good.nil (f : Flags) : Good f [] f := ⟨rfl, fun _ _ => rfl, fun _ _ => rfl⟩

theorem Good.append {f f₁ f₂ : Flags} {c₁ c₂ : List LogEntry} (h₁ : Good f c₁ f₁) (h₂ : Good f₁ c₂ f₂) :
    Good f (c₁ ++ c₂) f₂ := by
  refine ⟨headCZ_append h₁.head h₂.head, fun rest hr => ?_, fun rest hr => ?_⟩
  · rw [List.append_assoc, h₁.chk _ (headCZ_append h₂.head hr), h₂.chk _ hr]
  · rw [List.append_assoc, h₁.stray _ (headCZ_append h₂.head hr), h₂.stray _ hr]

theorem checkLog_plain (f : Flags) (e : LogEntry) (he : plain e = true) (l : List LogEntry) :
    checkLog f (e :: l) = checkLog f l := by
  cases e with
  | counter => cases he
  | _ => simp only [checkLog]

theorem Good.single (f : Flags) (e : LogEntry) (he : plain e = true) : Good f [e] f := by
  refine ⟨?_, fun rest _ => checkLog_plain f e he rest, fun rest hr => strayCZ_cons e rest hr⟩
  cases e with
  | trans mi ev st => simpa [headCZ, plain] using he
  | _ => rfl

/-- the flags after a counter update in which A / B were (`za` / `zb`) zeroed -/
def upd (f : Flags) (mi : Nat) (za zb : Bool) : Flags :=
  { a := if za then mi :: f.a else f.a, b := if zb then mi :: f.b else f.b }

/-- a counter update that zeroes nothing, not followed by a CounterZero delivery -/
theorem Good.counterNZ (f : Flags) (mi ao an bo bn : Nat) (han : an ≤ Fp.u64Max) (hbn : bn ≤ Fp.u64Max)
    (hza : (ao != 0 && an == 0 && !f.a.contains mi) = false)
    (hzb : (bo != 0 && bn == 0 && !f.b.contains mi) = false) :
    Good f [.counter mi ao an bo bn] (upd f mi false false) := by
  refine ⟨rfl, fun rest hr => ?_, fun rest hr => strayCZ_cons _ rest hr⟩
  have h1 : ¬ (an > Fp.u64Max) := by omega
  have h2 : ¬ (bn > Fp.u64Max) := by omega
  show checkLog f (.counter mi ao an bo bn :: rest) = _
  cases rest with
  | nil =>
    simp only [checkLog, hza, hzb, h1, h2]
    simp
  | cons b r =>
    cases b with
    | trans m ev st =>
      have hev : (ev == Gen.EV_CounterZero) = false := hr
      simp only [checkLog, hza, hzb, h1, h2, upd, hev]
      simp
    | _ =>
      simp only [checkLog, hza, hzb, h1, h2, upd]
      simp

/-- a zeroing counter update, directly followed by the CounterZero delivery to the same machine
    and then by a good segment -/
theorem Good.counterZ (f f'' : Flags) (mi ao an bo bn st : Nat) (za zb : Bool) (c : List LogEntry)
    (han : an ≤ Fp.u64Max) (hbn : bn ≤ Fp.u64Max)
    (hza : (ao != 0 && an == 0 && !f.a.contains mi) = za)
    (hzb : (bo != 0 && bn == 0 && !f.b.contains mi) = zb)
    (hz : (za || zb) = true) (hc : Good (upd f mi za zb) c f'') :
    Good f (.counter mi ao an bo bn :: .trans mi Gen.EV_CounterZero st :: c) f'' := by
  refine ⟨rfl, fun rest hr => ?_, fun rest hr => ?_⟩
  · have h1 : ¬ (an > Fp.u64Max) := by omega
    have h2 : ¬ (bn > Fp.u64Max) := by omega
    show checkLog f (.counter mi ao an bo bn :: .trans mi Gen.EV_CounterZero st :: (c ++ rest)) = _
    simp only [checkLog, hza, hzb, hz, h1, h2]
    simp only [beq_self_eq_true, Bool.and_self, Bool.not_true, Bool.and_false, Bool.or_self,
      Bool.false_eq_true, if_false]
    exact hc.chk rest hr
  · show strayCZ (.counter mi ao an bo bn :: .trans mi Gen.EV_CounterZero st :: (c ++ rest)) = _
    rw [strayCZ_pair, strayCZ_cons _ _ (headCZ_append hc.head hr)]
    exact hc.stray rest hr


/-! ### what the two rules say about a log, in plain terms -/

/-- the list starts with the CounterZero delivery to machine `mi` -/
def nextCZ (mi : Nat) : List LogEntry → Bool
  | .trans m ev _ :: _ => m == mi && ev == Gen.EV_CounterZero
  | _ => false

/-- the monitor's step on a counter entry, with the look-ahead named -/
theorem checkLog_counter (f : Flags) (mi ao an bo bn : Nat) (rest : List LogEntry) :
    checkLog f (.counter mi ao an bo bn :: rest) =
      if an > Fp.u64Max || bn > Fp.u64Max then some s!"counter of machine {mi} left the u64 range" else
      if ((ao != 0 && an == 0 && !f.a.contains mi) || (bo != 0 && bn == 0 && !f.b.contains mi)) && !nextCZ mi rest then
        some s!"machine {mi}: counter went to zero ({ao}->{an}, {bo}->{bn}) but no CounterZero followed"
      else if !((ao != 0 && an == 0 && !f.a.contains mi) || (bo != 0 && bn == 0 && !f.b.contains mi)) && nextCZ mi rest then
        some s!"machine {mi}: CounterZero without a counter reaching zero from non-zero ({ao}->{an}, {bo}->{bn})"
      else checkLog (upd f mi (ao != 0 && an == 0 && !f.a.contains mi) (bo != 0 && bn == 0 && !f.b.contains mi)) rest := by
  cases rest with
  | nil => simp only [checkLog, nextCZ]; rfl
  | cons b r => cases b <;> simp only [checkLog, nextCZ, upd] <;> rfl

/-- an accepted counter entry: u64 values, CounterZero next iff zeroing, and the rest is accepted
    with the updated flags -/
theorem checkLog_counter_none (f : Flags) (mi ao an bo bn : Nat) (rest : List LogEntry)
    (h : checkLog f (.counter mi ao an bo bn :: rest) = none) :
    an ≤ Fp.u64Max ∧ bn ≤ Fp.u64Max ∧
    nextCZ mi rest = ((ao != 0 && an == 0 && !f.a.contains mi) || (bo != 0 && bn == 0 && !f.b.contains mi)) ∧
    checkLog (upd f mi (ao != 0 && an == 0 && !f.a.contains mi) (bo != 0 && bn == 0 && !f.b.contains mi)) rest = none := by
  rw [checkLog_counter] at h
  generalize (ao != 0 && an == 0 && !f.a.contains mi) = za at h ⊢
  generalize (bo != 0 && bn == 0 && !f.b.contains mi) = zb at h ⊢
  generalize nextCZ mi rest = nx at h ⊢
  split at h
  · cases h
  · next hbound =>
    simp only [Bool.or_eq_true, decide_eq_true_eq, not_or, Nat.not_lt] at hbound
    split at h
    · cases h
    · split at h
      · cases h
      · refine ⟨hbound.1, hbound.2, ?_, h⟩
        cases za <;> cases zb <;> cases nx <;> simp_all

theorem strayCZ_tail (a b : LogEntry) (l : List LogEntry) (h : strayCZ (a :: b :: l) = none) :
    strayCZ (b :: l) = none := by
  cases b with
  | trans mi ev st =>
    simp only [strayCZ] at h
    split at h
    · cases a with
      | counter m ao an bo bn =>
        simp only [] at h
        split at h
        · exact h
        · cases h
      | _ => cases h
    · exact h
  | _ => simpa only [strayCZ] using h

/-- rule 2, read off an accepted log: a CounterZero delivery that is not the first entry comes
    directly after a counter update of the same machine -/
theorem strayCZ_preceded (a : LogEntry) (p rest : List LogEntry) (mi st : Nat)
    (h : strayCZ (a :: p ++ .trans mi Gen.EV_CounterZero st :: rest) = none) :
    ∃ pre' ao an bo bn, a :: p = pre' ++ [.counter mi ao an bo bn] := by
  induction p generalizing a with
  | nil =>
    simp only [List.cons_append, List.nil_append, strayCZ, beq_self_eq_true, if_true] at h
    cases a with
    | counter m ao an bo bn =>
      simp only [] at h
      split at h
      · next hm =>
        have : m = mi := by simpa using hm
        subst this
        exact ⟨[], ao, an, bo, bn, rfl⟩
      · cases h
    | _ => cases h
  | cons b p ih =>
    obtain ⟨pre', ao, an, bo, bn, e⟩ := ih b (strayCZ_tail a b _ h)
    exact ⟨a :: pre', ao, an, bo, bn, by rw [e]; rfl⟩

/-- the flags the monitor holds after an accepted prefix -/
def flagsAfter : Flags → List LogEntry → Flags
  | f, [] => f
  | f, .counter mi ao an bo bn :: rest =>
    flagsAfter (upd f mi (ao != 0 && an == 0 && !f.a.contains mi) (bo != 0 && bn == 0 && !f.b.contains mi)) rest
  | f, _ :: rest => flagsAfter f rest

theorem checkLog_split (f : Flags) (pre rest : List LogEntry) (h : checkLog f (pre ++ rest) = none) :
    checkLog (flagsAfter f pre) rest = none := by
  induction pre generalizing f with
  | nil => exact h
  | cons e pre ih =>
    cases e with
    | counter mi ao an bo bn =>
      simp only [flagsAfter]
      exact ih _ (checkLog_counter_none f mi ao an bo bn _ h).2.2.2
    | _ =>
      simp only [List.cons_append, checkLog] at h
      simp only [flagsAfter]
      exact ih f h

/-- counter A of machine `mi` went from non-zero to zero somewhere in the segment -/
def ZeroedA (mi : Nat) (pre : List LogEntry) : Prop :=
  ∃ ao an bo bn, LogEntry.counter mi ao an bo bn ∈ pre ∧ ao ≠ 0 ∧ an = 0

/-- counter B of machine `mi` went from non-zero to zero somewhere in the segment -/
def ZeroedB (mi : Nat) (pre : List LogEntry) : Prop :=
  ∃ ao an bo bn, LogEntry.counter mi ao an bo bn ∈ pre ∧ bo ≠ 0 ∧ bn = 0

theorem flagsAfter_a (mi : Nat) (f : Flags) (pre : List LogEntry) :
    mi ∈ (flagsAfter f pre).a ↔ mi ∈ f.a ∨ ZeroedA mi pre := by
  induction pre generalizing f with
  | nil => simp [flagsAfter, ZeroedA]
  | cons e pre ih =>
    cases e with
    | counter m ao an bo bn =>
      simp only [flagsAfter]
      rw [ih]
      have hz : ZeroedA mi (.counter m ao an bo bn :: pre) ↔ (m = mi ∧ ao ≠ 0 ∧ an = 0) ∨ ZeroedA mi pre := by
        constructor
        · rintro ⟨ao', an', bo', bn', hmem, h1, h2⟩
          rcases List.mem_cons.1 hmem with he | hmem
          · cases he; exact Or.inl ⟨rfl, h1, h2⟩
          · exact Or.inr ⟨ao', an', bo', bn', hmem, h1, h2⟩
        · rintro (⟨rfl, h1, h2⟩ | ⟨ao', an', bo', bn', hmem, h1, h2⟩)
          · exact ⟨ao, an, bo, bn, List.mem_cons_self, h1, h2⟩
          · exact ⟨ao', an', bo', bn', List.mem_cons_of_mem _ hmem, h1, h2⟩
      rw [hz]
      simp only [upd]
      by_cases hm : m = mi
      · subst hm
        by_cases h1 : ao = 0 <;> by_cases h2 : an = 0 <;> by_cases h3 : m ∈ f.a <;> simp [h1, h2, h3]
      · have hm' : mi ≠ m := fun h => hm h.symm
        split <;> simp [hm, hm']
    | _ =>
      simp only [flagsAfter]
      rw [ih]
      have hz : ∀ e : LogEntry, (∀ m ao an bo bn, e ≠ .counter m ao an bo bn) →
          (ZeroedA mi (e :: pre) ↔ ZeroedA mi pre) := by
        intro e he
        constructor
        · rintro ⟨ao', an', bo', bn', hmem, h1, h2⟩
          rcases List.mem_cons.1 hmem with h | hmem
          · exact absurd h.symm (he _ _ _ _ _)
          · exact ⟨ao', an', bo', bn', hmem, h1, h2⟩
        · rintro ⟨ao', an', bo', bn', hmem, h1, h2⟩
          exact ⟨ao', an', bo', bn', List.mem_cons_of_mem _ hmem, h1, h2⟩
      rw [hz _ (by intro _ _ _ _ _ h; cases h)]

theorem flagsAfter_b (mi : Nat) (f : Flags) (pre : List LogEntry) :
    mi ∈ (flagsAfter f pre).b ↔ mi ∈ f.b ∨ ZeroedB mi pre := by
  induction pre generalizing f with
  | nil => simp [flagsAfter, ZeroedB]
  | cons e pre ih =>
    cases e with
    | counter m ao an bo bn =>
      simp only [flagsAfter]
      rw [ih]
      have hz : ZeroedB mi (.counter m ao an bo bn :: pre) ↔ (m = mi ∧ bo ≠ 0 ∧ bn = 0) ∨ ZeroedB mi pre := by
        constructor
        · rintro ⟨ao', an', bo', bn', hmem, h1, h2⟩
          rcases List.mem_cons.1 hmem with he | hmem
          · cases he; exact Or.inl ⟨rfl, h1, h2⟩
          · exact Or.inr ⟨ao', an', bo', bn', hmem, h1, h2⟩
        · rintro (⟨rfl, h1, h2⟩ | ⟨ao', an', bo', bn', hmem, h1, h2⟩)
          · exact ⟨ao, an, bo, bn, List.mem_cons_self, h1, h2⟩
          · exact ⟨ao', an', bo', bn', List.mem_cons_of_mem _ hmem, h1, h2⟩
      rw [hz]
      simp only [upd]
      by_cases hm : m = mi
      · subst hm
        by_cases h1 : bo = 0 <;> by_cases h2 : bn = 0 <;> by_cases h3 : m ∈ f.b <;> simp [h1, h2, h3]
      · have hm' : mi ≠ m := fun h => hm h.symm
        split <;> simp [hm, hm']
    | _ =>
      simp only [flagsAfter]
      rw [ih]
      have hz : ∀ e : LogEntry, (∀ m ao an bo bn, e ≠ .counter m ao an bo bn) →
          (ZeroedB mi (e :: pre) ↔ ZeroedB mi pre) := by
        intro e he
        constructor
        · rintro ⟨ao', an', bo', bn', hmem, h1, h2⟩
          rcases List.mem_cons.1 hmem with h | hmem
          · exact absurd h.symm (he _ _ _ _ _)
          · exact ⟨ao', an', bo', bn', hmem, h1, h2⟩
        · rintro ⟨ao', an', bo', bn', hmem, h1, h2⟩
          exact ⟨ao', an', bo', bn', List.mem_cons_of_mem _ hmem, h1, h2⟩
      rw [hz _ (by intro _ _ _ _ _ h; cases h)]

/-- rule 1, read off an accepted log of a call (the flags start empty): a counter update logs u64
    values and is directly followed by the CounterZero delivery to the same machine exactly when
    counter A or counter B goes from non-zero to zero here for the first time in the segment -/
theorem checkLog_exact (pre rest : List LogEntry) (mi ao an bo bn : Nat)
    (h : checkLog { a := [], b := [] } (pre ++ .counter mi ao an bo bn :: rest) = none) :
    an ≤ Fp.u64Max ∧ bn ≤ Fp.u64Max ∧
    ((∃ st rest', rest = .trans mi Gen.EV_CounterZero st :: rest') ↔
      (ao ≠ 0 ∧ an = 0 ∧ ¬ ZeroedA mi pre) ∨ (bo ≠ 0 ∧ bn = 0 ∧ ¬ ZeroedB mi pre)) := by
  have h1 := checkLog_split _ pre _ h
  have hA := flagsAfter_a mi { a := [], b := [] } pre
  have hB := flagsAfter_b mi { a := [], b := [] } pre
  generalize flagsAfter { a := [], b := [] } pre = f at h1 hA hB
  simp only [List.not_mem_nil, false_or] at hA hB
  have hnext : (∃ st rest', rest = .trans mi Gen.EV_CounterZero st :: rest') ↔ nextCZ mi rest = true := by
    cases rest with
    | nil => simp [nextCZ]
    | cons b r =>
      cases b with
      | trans m ev st =>
        simp only [nextCZ, List.cons.injEq, LogEntry.trans.injEq, Bool.and_eq_true, beq_iff_eq]
        constructor
        · rintro ⟨st', rest', ⟨h1, h2, _⟩, _⟩; exact ⟨h1, h2⟩
        · rintro ⟨h1, h2⟩; exact ⟨st, r, ⟨h1, h2, rfl⟩, rfl⟩
      | _ => simp [nextCZ]
  obtain ⟨k1, k2, k3, _⟩ := checkLog_counter_none f mi ao an bo bn rest h1
  refine ⟨k1, k2, ?_⟩
  have hza : (ao != 0 && an == 0 && !f.a.contains mi) = true ↔ (ao ≠ 0 ∧ an = 0 ∧ ¬ ZeroedA mi pre) := by
    rw [← hA]; simp [and_assoc]
  have hzb : (bo != 0 && bn == 0 && !f.b.contains mi) = true ↔ (bo ≠ 0 ∧ bn = 0 ∧ ¬ ZeroedB mi pre) := by
    rw [← hB]; simp [and_assoc]
  rw [hnext, k3, ← hza, ← hzb, Bool.or_eq_true]

/-! ### the invariant tying the monitor's flags to the model -/

variable {σ : Type} (ρ : Oracle σ)

/-- the monitor's flag lists agree with the model's per-machine flags, and all counters are u64 -/
structure Inv (f : Flags) (s : Fw σ) : Prop where
  a : ∀ mi, mi ∈ f.a ↔ zeroedAOf s mi = true
  b : ∀ mi, mi ∈ f.b ↔ zeroedBOf s mi = true
  bnd : ∀ (mi : Nat) (r : Runtime), s.rt[mi]? = some r → r.counterA ≤ Fp.u64Max ∧ r.counterB ≤ Fp.u64Max

/-- the part of a runtime the invariant depends on -/
def key (r : Runtime) : Bool × Bool × Nat × Nat := (r.zeroedA, r.zeroedB, r.counterA, r.counterB)

theorem Inv.congr {f : Flags} {s t : Fw σ} (h : ∀ mi : Nat, (t.rt[mi]?).map key = (s.rt[mi]?).map key)
    (hi : Inv f s) : Inv f t := by
  have hA : ∀ mi, zeroedAOf t mi = zeroedAOf s mi := by
    intro mi
    have := h mi
    rw [zeroedAOf_eq, zeroedAOf_eq]
    cases ht : t.rt[mi]? <;> cases hs : s.rt[mi]? <;> rw [ht, hs] at this <;> simp [key] at this ⊢
    exact this.1
  have hB : ∀ mi, zeroedBOf t mi = zeroedBOf s mi := by
    intro mi
    have := h mi
    rw [zeroedBOf_eq, zeroedBOf_eq]
    cases ht : t.rt[mi]? <;> cases hs : s.rt[mi]? <;> rw [ht, hs] at this <;> simp [key] at this ⊢
    exact this.2.1
  refine ⟨fun mi => by rw [hA]; exact hi.a mi, fun mi => by rw [hB]; exact hi.b mi, fun mi r hr => ?_⟩
  have := h mi
  rw [hr] at this
  cases hs : s.rt[mi]? with
  | none => rw [hs] at this; simp at this
  | some r0 =>
    rw [hs] at this
    simp only [Option.map_some, Option.some.injEq, key, Prod.mk.injEq] at this
    have hb := hi.bnd mi r0 hs
    rw [this.2.2.1, this.2.2.2]
    exact hb

/-- the invariant after a counter update of machine `mi` in which A / B were zeroed (`za`/`zb`) -/
theorem Inv.update {f : Flags} {s t : Fw σ} {mi : Nat} {r r' : Runtime} (za zb : Bool) (hi : Inv f s)
    (hr : s.rt[mi]? = some r) (hr' : t.rt[mi]? = some r')
    (ho : ∀ j, j ≠ mi → t.rt[j]? = s.rt[j]?)
    (hza : r'.zeroedA = (r.zeroedA || za)) (hzb : r'.zeroedB = (r.zeroedB || zb))
    (hca : r'.counterA ≤ Fp.u64Max) (hcb : r'.counterB ≤ Fp.u64Max) : Inv (upd f mi za zb) t := by
  refine ⟨fun j => ?_, fun j => ?_, fun j rj hj => ?_⟩
  · by_cases hj : j = mi
    · subst hj
      have h0 := hi.a j
      unfold zeroedAOf at h0 ⊢
      rw [hr] at h0
      rw [hr']
      simp only [hza, upd]
      cases za <;> simp [h0]
    · have h0 := hi.a j
      unfold zeroedAOf at h0 ⊢
      rw [ho j hj]
      simp only [upd]
      cases za <;> simp [h0, hj]
  · by_cases hj : j = mi
    · subst hj
      have h0 := hi.b j
      unfold zeroedBOf at h0 ⊢
      rw [hr] at h0
      rw [hr']
      simp only [hzb, upd]
      cases zb <;> simp [h0]
    · have h0 := hi.b j
      unfold zeroedBOf at h0 ⊢
      rw [ho j hj]
      simp only [upd]
      cases zb <;> simp [h0, hj]
  · by_cases hjm : j = mi
    · subst hjm
      rw [hr'] at hj
      cases hj
      exact ⟨hca, hcb⟩
    · rw [ho j hjm] at hj
      exact hi.bnd j rj hj

/-! ### the relation carried through a call -/

/-- `t` extends the log of `s` by the chronological segment `c`, which the monitor accepts starting
    from any flags that agree with `s`, ending with flags that agree with `t` -/
def R (s t : Fw σ) : Prop :=
  ∃ c, t.log = c.reverse ++ s.log ∧ ∀ f, Inv f s → ∃ f', Good f c f' ∧ Inv f' t

theorem R.refl (s : Fw σ) : R s s := ⟨[], rfl, fun f hf => ⟨f, Good.nil f, hf⟩⟩

theorem R.trans {s t u : Fw σ} (h₁ : R s t) (h₂ : R t u) : R s u := by
  obtain ⟨c1, e1, p1⟩ := h₁
  obtain ⟨c2, e2, p2⟩ := h₂
  refine ⟨c1 ++ c2, by rw [e2, e1, List.reverse_append, List.append_assoc], fun f hf => ?_⟩
  obtain ⟨f1, g1, i1⟩ := p1 f hf
  obtain ⟨f2, g2, i2⟩ := p2 f1 i1
  exact ⟨f2, g1.append g2, i2⟩

theorem R.keep {s t : Fw σ} (hl : t.log = s.log) (hk : ∀ mi : Nat, (t.rt[mi]?).map key = (s.rt[mi]?).map key) :
    R s t :=
  ⟨[], by simp [hl], fun f hf => ⟨f, Good.nil f, hf.congr hk⟩⟩

theorem R.same {s t : Fw σ} (hl : t.log = s.log) (hrt : t.rt = s.rt) : R s t :=
  R.keep hl (fun mi => by rw [hrt])

theorem R.withFault (s : Fw σ) (f : Fault) : R s (s.withFault f) := R.same (by simp) (by simp)

theorem R.modRt (s : Fw σ) (j : Nat) (g : Runtime → Runtime) (hg : ∀ r, key (g r) = key r) :
    R s (s.modRt j g) := by
  refine R.keep (by simp) (fun mi => ?_)
  by_cases hj : mi = j
  · subst hj
    rw [Fw.modRt_rt_self]
    cases s.rt[mi]? <;> simp [hg]
  · rw [Fw.modRt_rt_other s j mi g hj]

/-- one more entry that the monitor skips -/
theorem R.log1 {s t : Fw σ} (e : LogEntry) (he : plain e = true) (hl : t.log = e :: s.log) (hrt : t.rt = s.rt) :
    R s t :=
  ⟨[e], by simp [hl], fun f hf => ⟨f, Good.single f e he, hf.congr (fun mi => by rw [hrt])⟩⟩

theorem R.push (s : Fw σ) (e : LogEntry) (he : plain e = true) : R s (s.push e) := R.log1 e he rfl rfl

/-- sampling: the log grows by skipped entries only, runtimes and machines are untouched -/
def Q (s t : Fw σ) : Prop :=
  ∃ c, t.log = c.reverse ++ s.log ∧ (∀ g, Good g c g) ∧ t.rt = s.rt ∧ t.machines = s.machines

theorem Q.refl (s : Fw σ) : Q s s := ⟨[], rfl, fun g => Good.nil g, rfl, rfl⟩

theorem Q.trans {s t u : Fw σ} (h₁ : Q s t) (h₂ : Q t u) : Q s u := by
  obtain ⟨c1, e1, g1, r1, m1⟩ := h₁
  obtain ⟨c2, e2, g2, r2, m2⟩ := h₂
  exact ⟨c1 ++ c2, by rw [e2, e1, List.reverse_append, List.append_assoc], fun g => (g1 g).append (g2 g),
    r2.trans r1, m2.trans m1⟩

theorem Q.toR {s t : Fw σ} (h : Q s t) : R s t := by
  obtain ⟨c, e, g, r, _⟩ := h
  exact ⟨c, e, fun f hf => ⟨f, g f, hf.congr (fun mi => by rw [r])⟩⟩

theorem q_distSample (d : Dist) (s : Fw σ) : Q s (distSample ρ d s).2 := by
  unfold distSample
  exact ⟨[.distRaw _], rfl, fun g => Good.single g _ rfl, rfl, rfl⟩

theorem q_sampleLimit (a : Action) (s : Fw σ) : Q s (sampleLimit ρ a s).2 := by
  unfold sampleLimit; split
  · exact Q.refl s
  · exact q_distSample ρ _ s

theorem q_sampleValue (c : Counter) (s : Fw σ) : Q s (sampleValue ρ c s).2 := by
  unfold sampleValue; split
  · exact Q.refl s
  · exact q_distSample ρ _ s

theorem q_sampleTimeout (a : Action) (s : Fw σ) : Q s (sampleTimeout ρ a s).2 := by
  unfold sampleTimeout; split
  · exact q_distSample ρ _ s
  · exact q_distSample ρ _ s
  · exact Q.refl s

theorem q_sampleDuration (a : Action) (s : Fw σ) : Q s (sampleDuration ρ a s).2 := by
  unfold sampleDuration; split
  · exact q_distSample ρ _ s
  · exact q_distSample ρ _ s
  · exact Q.refl s

theorem q_counterOperand (c : Counter) (other : Nat) (s : Fw σ) : Q s (counterOperand ρ c other s).2 := by
  unfold counterOperand; split
  · exact Q.refl s
  · exact q_sampleValue ρ c s

theorem r_enterState (mi : Nat) (m : Machine) (cur next : Nat) (s : Fw σ) : R s (enterState ρ mi m cur next s) := by
  unfold enterState
  split
  · simp only
    have h1 : R s (s.modRt mi (fun r => { r with currentState := next })) := R.modRt s mi _ (by intro _; rfl)
    split
    · exact h1.trans (R.withFault _ _)
    · split
      · next a _ =>
        exact ((h1.trans (q_sampleLimit ρ a _).toR).trans (R.modRt _ mi _ (by intro _; rfl))).trans (R.push _ _ rfl)
      · exact (h1.trans (R.modRt _ mi _ (by intro _; rfl))).trans (R.push _ _ rfl)
  · exact R.refl s

theorem r_scheduleAction (mi next : Nat) (s : Fw σ) : R s (scheduleAction ρ mi next s) := by
  unfold scheduleAction
  cases hm : s.machines[mi]? with
  | none => exact R.withFault s _
  | some m =>
    simp only []
    cases hst : m.states[next]? with
    | none => exact R.withFault s _
    | some st =>
      simp only []
      split
      · exact R.withFault s _
      · cases hact : st.action with
        | none => exact R.same rfl rfl
        | some act =>
          cases act with
          | cancel t => exact R.same rfl rfl
          | sendPadding b rp tmo lim =>
            simp only
            exact (q_sampleTimeout ρ _ s).toR.trans (R.same rfl rfl)
          | blockOutgoing b rp tmo du lim =>
            simp only
            exact ((q_sampleTimeout ρ _ s).trans (q_sampleDuration ρ _ _)).toR.trans (R.same rfl rfl)
          | updateTimer rp du lim =>
            simp only
            exact (q_sampleDuration ρ _ s).toR.trans (R.same rfl rfl)


/-! ### the two counter updates, explicitly -/

theorem applyOp_le (op : Operation) (cur change : Nat) (hc : cur ≤ Fp.u64Max) (hv : change ≤ Fp.u64Max) :
    applyOp op cur change ≤ Fp.u64Max := by
  cases op <;> simp [applyOp] <;> (try split) <;> omega

theorem sampleValue_le (c : Counter) (s : Fw σ) : (sampleValue ρ c s).1 ≤ Fp.u64Max := by
  unfold sampleValue
  cases c.dist with
  | none => simp [Fp.u64Max]
  | some d => simp only []; exact toU64_lt _

theorem counterOperand_le (c : Counter) (other : Nat) (s : Fw σ) (ho : other ≤ Fp.u64Max) :
    (counterOperand ρ c other s).1 ≤ Fp.u64Max := by
  unfold counterOperand; split
  · exact ho
  · exact sampleValue_le ρ c s

theorem storeA_spec (mi oldA newA : Nat) (s : Fw σ) (r : Runtime) (hr : s.rt[mi]? = some r) :
    (storeCounterA mi oldA newA s).2 = (decide (oldA ≠ 0) && decide (newA = 0) && !r.zeroedA) ∧
    (storeCounterA mi oldA newA s).1.rt[mi]? =
      some { r with counterA := newA, zeroedA := r.zeroedA || (storeCounterA mi oldA newA s).2 } ∧
    (∀ j, j ≠ mi → (storeCounterA mi oldA newA s).1.rt[j]? = s.rt[j]?) ∧
    (storeCounterA mi oldA newA s).1.log = s.log ∧
    (storeCounterA mi oldA newA s).1.machines = s.machines := by
  have hz : zeroedAOf (s.modRt mi (fun r => { r with counterA := newA })) mi = r.zeroedA := by
    rw [zeroedAOf_modRt, hr]; rfl
  unfold storeCounterA
  simp only [hz]
  split
  · next h =>
    refine ⟨h.symm, ?_, fun j hj => ?_, by simp, by simp⟩
    · rw [Fw.modRt_rt_self, Fw.modRt_rt_self, hr]; simp
    · rw [Fw.modRt_rt_other _ mi j _ hj, Fw.modRt_rt_other _ mi j _ hj]
  · next h =>
    refine ⟨?_, ?_, fun j hj => ?_, by simp, by simp⟩
    · simp only [Bool.not_eq_true] at h; exact h.symm
    · rw [Fw.modRt_rt_self, hr]; simp
    · rw [Fw.modRt_rt_other _ mi j _ hj]

theorem storeB_spec (mi oldB newB : Nat) (s : Fw σ) (r : Runtime) (hr : s.rt[mi]? = some r) :
    (storeCounterB mi oldB newB s).2 = (decide (oldB ≠ 0) && decide (newB = 0) && !r.zeroedB) ∧
    (storeCounterB mi oldB newB s).1.rt[mi]? =
      some { r with counterB := newB, zeroedB := r.zeroedB || (storeCounterB mi oldB newB s).2 } ∧
    (∀ j, j ≠ mi → (storeCounterB mi oldB newB s).1.rt[j]? = s.rt[j]?) ∧
    (storeCounterB mi oldB newB s).1.log = s.log ∧
    (storeCounterB mi oldB newB s).1.machines = s.machines := by
  have hz : zeroedBOf (s.modRt mi (fun r => { r with counterB := newB })) mi = r.zeroedB := by
    rw [zeroedBOf_modRt, hr]; rfl
  unfold storeCounterB
  simp only [hz]
  split
  · next h =>
    refine ⟨h.symm, ?_, fun j hj => ?_, by simp, by simp⟩
    · rw [Fw.modRt_rt_self, Fw.modRt_rt_self, hr]; simp
    · rw [Fw.modRt_rt_other _ mi j _ hj, Fw.modRt_rt_other _ mi j _ hj]
  · next h =>
    refine ⟨?_, ?_, fun j hj => ?_, by simp, by simp⟩
    · simp only [Bool.not_eq_true] at h; exact h.symm
    · rw [Fw.modRt_rt_self, hr]; simp
    · rw [Fw.modRt_rt_other _ mi j _ hj]

/-- counter A part of `update_counter` on a machine with runtime `r`: the new value is a u64, the
    report is "non-zero -> zero with the flag unset", the flag is set on a report, nothing else of
    any runtime changes, and the log grows by skipped entries only -/
theorem applyA_spec (mi : Nat) (c : Option Counter) (oldA oldB : Nat) (s : Fw σ) (r : Runtime)
    (hr : s.rt[mi]? = some r) (hoA : oldA = r.counterA) :
    ∃ newA, (oldA ≤ Fp.u64Max → oldB ≤ Fp.u64Max → newA ≤ Fp.u64Max) ∧
      (applyCounterA ρ mi c oldA oldB s).2 = (decide (oldA ≠ 0) && decide (newA = 0) && !r.zeroedA) ∧
      (applyCounterA ρ mi c oldA oldB s).1.rt[mi]? =
        some { r with counterA := newA, zeroedA := r.zeroedA || (applyCounterA ρ mi c oldA oldB s).2 } ∧
      (∀ j, j ≠ mi → (applyCounterA ρ mi c oldA oldB s).1.rt[j]? = s.rt[j]?) ∧
      (applyCounterA ρ mi c oldA oldB s).1.machines = s.machines ∧
      ∃ cs, (applyCounterA ρ mi c oldA oldB s).1.log = cs.reverse ++ s.log ∧ ∀ g, Good g cs g := by
  unfold applyCounterA
  cases c with
  | none =>
    refine ⟨oldA, fun hA _ => hA, ?_, ?_, fun _ _ => rfl, rfl, [], rfl, fun g => Good.nil g⟩
    · by_cases h0 : oldA = 0 <;> simp [h0]
    · subst hoA; simp [hr]
  | some c =>
    simp only []
    obtain ⟨cs, hl, hg, hrt, hm⟩ := q_counterOperand ρ c oldB s
    have hle := counterOperand_le ρ c oldB s
    generalize counterOperand ρ c oldB s = p at hl hrt hm hle ⊢
    obtain ⟨h1, h2, h3, h4, h5⟩ := storeA_spec mi oldA (applyOp c.operation oldA p.1) p.2 r (by rw [hrt]; exact hr)
    refine ⟨applyOp c.operation oldA p.1, fun hA hB => applyOp_le _ _ _ hA (hle hB), h1, h2, fun j hj => ?_, h5.trans hm,
      cs, by rw [h4, hl], hg⟩
    rw [h3 j hj, hrt]

theorem applyB_spec (mi : Nat) (c : Option Counter) (oldA oldB : Nat) (s : Fw σ) (r : Runtime)
    (hr : s.rt[mi]? = some r) (hoB : oldB = r.counterB) :
    ∃ newB, (oldA ≤ Fp.u64Max → oldB ≤ Fp.u64Max → newB ≤ Fp.u64Max) ∧
      (applyCounterB ρ mi c oldA oldB s).2 = (decide (oldB ≠ 0) && decide (newB = 0) && !r.zeroedB) ∧
      (applyCounterB ρ mi c oldA oldB s).1.rt[mi]? =
        some { r with counterB := newB, zeroedB := r.zeroedB || (applyCounterB ρ mi c oldA oldB s).2 } ∧
      (∀ j, j ≠ mi → (applyCounterB ρ mi c oldA oldB s).1.rt[j]? = s.rt[j]?) ∧
      (applyCounterB ρ mi c oldA oldB s).1.machines = s.machines ∧
      ∃ cs, (applyCounterB ρ mi c oldA oldB s).1.log = cs.reverse ++ s.log ∧ ∀ g, Good g cs g := by
  unfold applyCounterB
  cases c with
  | none =>
    refine ⟨oldB, fun _ hB => hB, ?_, ?_, fun _ _ => rfl, rfl, [], rfl, fun g => Good.nil g⟩
    · by_cases h0 : oldB = 0 <;> simp [h0]
    · subst hoB; simp [hr]
  | some c =>
    simp only []
    obtain ⟨cs, hl, hg, hrt, hm⟩ := q_counterOperand ρ c oldA s
    have hle := counterOperand_le ρ c oldA s
    generalize counterOperand ρ c oldA s = p at hl hrt hm hle ⊢
    obtain ⟨h1, h2, h3, h4, h5⟩ := storeB_spec mi oldB (applyOp c.operation oldB p.1) p.2 r (by rw [hrt]; exact hr)
    refine ⟨applyOp c.operation oldB p.1, fun hA hB => applyOp_le _ _ _ hB (hle hA), h1, h2, fun j hj => ?_, h5.trans hm,
      cs, by rw [h4, hl], hg⟩
    rw [h3 j hj, hrt]


/-! ### `transition` / `update_counter` -/

theorem za_eq (ao an mi : Nat) (l : List Nat) (z : Bool) (h : mi ∈ l ↔ z = true) :
    (ao != 0 && an == 0 && !l.contains mi) = (decide (ao ≠ 0) && decide (an = 0) && !z) := by
  have hc : l.contains mi = z := by
    cases z
    · simpa using h
    · simpa using h
  rw [hc]
  by_cases h1 : ao = 0 <;> by_cases h2 : an = 0 <;> simp [h1, h2]

theorem main (mi : Nat) (fuel : Nat) :
    (∀ (ev : Event) (s : Fw σ) (r : Runtime) (m : Machine), s.rt[mi]? = some r → s.machines[mi]? = some m →
      2 * unset s mi + 2 ≤ fuel →
      R (s.push (.trans mi ev.toNat r.currentState)) (transition ρ fuel mi ev s).1) ∧
    (∀ (s : Fw σ), 2 * unset s mi + 1 ≤ fuel → R s (updateCounter ρ fuel mi s).1) := by
  induction fuel with
  | zero => exact ⟨fun _ _ _ _ _ _ h => by omega, fun _ h => by omega⟩
  | succ n ih =>
    obtain ⟨ihT, ihU⟩ := ih
    refine ⟨fun ev s r m hr hm hfuel => ?_, fun s hfuel => ?_⟩
    · rw [transition, hr, hm]
      simp only []
      have h0 : R (s.push (.trans mi ev.toNat r.currentState)) (s.push (.trans mi ev.toNat r.currentState)) :=
        R.refl _
      split
      · exact h0
      · cases hst : m.states[r.currentState]? with
        | none => exact h0.trans (R.withFault _ _)
        | some st =>
        simp only []
        cases htr : st.transitions[ev.toNat]? with
        | none => exact h0.trans (R.withFault _ _)
        | some ov =>
        cases ov with
        | none => exact h0
        | some vec =>
        simp only []
        generalize hs1 : (({ (s.push (.trans mi ev.toNat r.currentState)) with
            rng := (ρ.u (s.push (.trans mi ev.toNat r.currentState)).rng).2 }).push
              (.draw (ρ.u (s.push (.trans mi ev.toNat r.currentState)).rng).1)) = s1
        have q1 : R (s.push (.trans mi ev.toNat r.currentState)) s1 := by
          subst hs1; exact R.log1 (.draw _) rfl rfl rfl
        have e1 : s1.rt = s.rt := by subst hs1; rfl
        cases hss : sampleState vec (ρ.u (s.push (.trans mi ev.toNat r.currentState)).rng).1 with
        | none => simp only []; exact q1
        | some next =>
        simp only []
        have q2 : R (s.push (.trans mi ev.toNat r.currentState)) (s1.push (.sampled mi ev.toNat next)) :=
          q1.trans (R.push _ _ rfl)
        generalize hs2 : s1.push (.sampled mi ev.toNat next) = s2 at q2 ⊢
        have e2 : s2.rt = s.rt := by subst hs2; exact e1
        have hu2 : unset s2 mi = unset s mi := unset_congr (by rw [e2])
        split
        · exact q2.trans (R.modRt _ _ _ (by intro _; rfl))
        · split
          · exact q2.trans (R.same rfl rfl)
          · have q3 := q2.trans (r_enterState ρ mi m r.currentState next s2)
            have hu3 : unset (enterState ρ mi m r.currentState next s2) mi = unset s mi := by
              rw [unset_enterState]; exact hu2
            generalize enterState ρ mi m r.currentState next s2 = s3 at q3 hu3 ⊢
            cases hr3 : s3.rt[mi]? with
            | none => simp only []; exact q3.trans (R.withFault _ _)
            | some r1 =>
            simp only []
            cases hb : belowActionLimits s3.g r1 m with
            | none => simp only []; exact q3.trans (R.withFault _ _)
            | some below =>
            simp only []
            have q4 := q3.trans (ihU s3 (by omega))
            have q5 : R (s.push (.trans mi ev.toNat r.currentState))
                (if ((updateCounter ρ n mi s3).2.1 && below) = true
                  then scheduleAction ρ mi next (updateCounter ρ n mi s3).1 else (updateCounter ρ n mi s3).1) := by
              split
              · exact q4.trans (r_scheduleAction ρ mi next _)
              · exact q4
            generalize (if ((updateCounter ρ n mi s3).2.1 && below) = true
                then scheduleAction ρ mi next (updateCounter ρ n mi s3).1 else (updateCounter ρ n mi s3).1) = s5 at q5 ⊢
            cases hr5 : s5.rt[mi]? with
            | none => simp only []; exact q5.trans (R.withFault _ _)
            | some r2 => simp only []; exact q5
    · rw [updateCounter]
      cases hr : s.rt[mi]? with
      | none => exact R.withFault _ _
      | some r =>
      cases hm : s.machines[mi]? with
      | none => exact R.withFault _ _
      | some m =>
      simp only []
      cases hst : m.states[r.currentState]? with
      | none => exact R.withFault _ _
      | some st =>
      simp only []
      have hmi : mi < s.rt.length := by
        rcases Nat.lt_or_ge mi s.rt.length with h | h
        · exact h
        · simp [List.getElem?_eq_none h] at hr
      have uA := unset_applyCounterA ρ mi st.counterA r.counterA r.counterB s hmi
      obtain ⟨newA, hnA, hzA, hrtA, hoA, hmA, cA, hlA, hgA⟩ :=
        applyA_spec ρ mi st.counterA r.counterA r.counterB s r hr rfl
      generalize applyCounterA ρ mi st.counterA r.counterA r.counterB s = ra at uA hzA hrtA hoA hmA hlA ⊢
      have hmiA : mi < ra.1.rt.length := by
        rcases Nat.lt_or_ge mi ra.1.rt.length with h | h
        · exact h
        · simp [List.getElem?_eq_none h] at hrtA
      have uB := unset_applyCounterB ρ mi st.counterB r.counterA r.counterB ra.1 hmiA
      obtain ⟨newB, hnB, hzB, hrtB, hoB, hmB, cB, hlB, hgB⟩ :=
        applyB_spec ρ mi st.counterB r.counterA r.counterB ra.1 _ hrtA rfl
      generalize applyCounterB ρ mi st.counterB r.counterA r.counterB ra.1 = rb at uB hzB hrtB hoB hmB hlB ⊢
      have hcA : counterAOf rb.1 mi = newA := by unfold counterAOf; rw [hrtB]
      have hcB : counterBOf rb.1 mi = newB := by unfold counterBOf; rw [hrtB]
      rw [hcA, hcB]
      -- what the monitor computes for this entry, and the invariant afterwards
      have hkey : ∀ f, Inv f s →
          (r.counterA != 0 && newA == 0 && !f.a.contains mi) = ra.2 ∧
          (r.counterB != 0 && newB == 0 && !f.b.contains mi) = rb.2 ∧
          Inv (upd f mi ra.2 rb.2) rb.1 ∧ newA ≤ Fp.u64Max ∧ newB ≤ Fp.u64Max := by
        intro f hf
        have hb := hf.bnd mi r hr
        have ha' : mi ∈ f.a ↔ r.zeroedA = true := by
          have := hf.a mi; unfold zeroedAOf at this; rw [hr] at this; exact this
        have hb' : mi ∈ f.b ↔ r.zeroedB = true := by
          have := hf.b mi; unfold zeroedBOf at this; rw [hr] at this; exact this
        have kA := hnA hb.1 hb.2
        have kB := hnB hb.1 hb.2
        refine ⟨(za_eq _ _ _ _ _ ha').trans hzA.symm, (za_eq _ _ _ _ _ hb').trans hzB.symm, ?_, kA, kB⟩
        exact Inv.update ra.2 rb.2 hf hr hrtB (fun j hj => (hoB j hj).trans (hoA j hj)) rfl rfl kA kB
      generalize hs2 : rb.1.push (.counter mi r.counterA newA r.counterB newB) = s2
      have l2 : s2.log = .counter mi r.counterA newA r.counterB newB :: rb.1.log := by subst hs2; rfl
      have rt2 : s2.rt = rb.1.rt := by subst hs2; rfl
      have mc2 : s2.machines = rb.1.machines := by subst hs2; rfl
      split
      · next hz =>
        have hflag : unset s2 mi + 1 ≤ unset s mi := by
          have : (if ra.2 = true then 1 else 0) + (if rb.2 = true then 1 else 0) ≥ 1 := by
            cases ha : ra.2 <;> cases hb : rb.2 <;> simp_all
          have : unset s2 mi = unset rb.1 mi := unset_congr (by rw [rt2])
          omega
        obtain ⟨r2, hr2⟩ : ∃ r2, s2.rt[mi]? = some r2 := ⟨_, by rw [rt2]; exact hrtB⟩
        have hm2 : s2.machines[mi]? = some m := by rw [mc2, hmB, hmA]; exact hm
        obtain ⟨cT, hlT, hpT⟩ := ihT .counterZero s2 r2 m hr2 hm2 (by omega)
        have hR : R s (transition ρ n mi .counterZero s2).1 := by
          refine ⟨cA ++ cB ++ (.counter mi r.counterA newA r.counterB newB ::
            .trans mi Gen.EV_CounterZero r2.currentState :: cT), ?_, fun f hf => ?_⟩
          · rw [hlT]; simp [Fw.push, l2, hlB, hlA, Event.toNat]
          · obtain ⟨ka, kb, ki, kA, kB⟩ := hkey f hf
            obtain ⟨f'', gT, iT⟩ := hpT (upd f mi ra.2 rb.2) (ki.congr (fun _ => by rw [Fw.push_rt, rt2]))
            exact ⟨f'', ((hgA f).append (hgB f)).append
              (Good.counterZ f f'' mi _ _ _ _ _ ra.2 rb.2 cT kA kB ka kb hz gT), iT⟩
        split
        · exact hR.trans (R.withFault _ _)
        · exact hR
      · next hz =>
        have ha0 : ra.2 = false := by cases ha : ra.2 <;> simp_all
        have hb0 : rb.2 = false := by cases hb : rb.2 <;> simp_all
        refine ⟨cA ++ cB ++ [.counter mi r.counterA newA r.counterB newB], ?_, fun f hf => ?_⟩
        · simp [l2, hlB, hlA]
        · obtain ⟨ka, kb, ki, kA, kB⟩ := hkey f hf
          rw [ha0] at ka; rw [hb0] at kb; rw [ha0, hb0] at ki
          exact ⟨upd f mi false false, ((hgA f).append (hgB f)).append
            (Good.counterNZ f mi _ _ _ _ kA kB ka kb), ki.congr (fun _ => by rw [rt2])⟩


/-! ### whole calls -/

/-- a transition delivered from outside (any event but CounterZero), with enough fuel -/
theorem r_transition (fuel j : Nat) (ev : Event) (s : Fw σ) (hev : ev ≠ .counterZero)
    (hf : 2 * unset s j + 2 ≤ fuel) : R s (transition ρ fuel j ev s).1 := by
  cases fuel with
  | zero => omega
  | succ n =>
    cases hr : s.rt[j]? with
    | none => rw [transition, hr]; exact R.withFault _ _
    | some r =>
    cases hm : s.machines[j]? with
    | none => rw [transition, hr, hm]; exact R.withFault _ _
    | some m =>
      refine (R.push s (.trans j ev.toNat r.currentState) ?_).trans ((main ρ j (n + 1)).1 ev s r m hr hm hf)
      have : ev.toNat ≠ Gen.EV_CounterZero := fun h => hev ((toNat_counterZero ev).1 h)
      simpa [plain] using this

theorem r_transitionTop (j : Nat) (ev : Event) (s : Fw σ) (hev : ev ≠ .counterZero) :
    R s (transition ρ FUEL j ev s).1 := by
  refine r_transition ρ FUEL j ev s hev ?_
  have := unset_le_two s j
  unfold FUEL
  omega

theorem r_decrement (j : Nat) (s : Fw σ) : R s (decrementLimit ρ j s) := by
  unfold decrementLimit
  cases hr : s.rt[j]? with
  | none => exact R.withFault _ _
  | some r =>
  cases hm : s.machines[j]? with
  | none => exact R.withFault _ _
  | some m =>
  simp only []
  generalize (if r.stateLimit > 0 then r.stateLimit - 1 else r.stateLimit) = lim
  have h1 : R s ((s.modRt j (fun r' => { r' with stateLimit := lim })).push (.limit j lim true)) :=
    (R.modRt s j _ (by intro _; rfl)).trans (R.push _ _ rfl)
  generalize (s.modRt j (fun r' => { r' with stateLimit := lim })).push (.limit j lim true) = s1 at h1 ⊢
  cases hst : m.states[r.currentState]? with
  | none => exact h1.trans (R.withFault _ _)
  | some st =>
  simp only []
  cases hact : st.action with
  | none => exact h1
  | some a =>
    simp only []
    split
    · split
      · exact h1.trans (R.withFault _ _)
      · exact (h1.trans (R.same (t := { s1 with actions := s1.actions.set j none }) rfl rfl)).trans
          (r_transitionTop ρ j .limitReached _ (by decide))
    · exact h1

/-- after the start of a call, every building block of `trigger_events` extends the log by a
    segment the monitor accepts -/
theorem walkR : WalkEv ρ (R (σ := σ)) where
  refl := R.refl
  trans := R.trans
  transition j ev s hev := r_transitionTop ρ j ev s hev
  decrement j s _ := r_decrement ρ j s
  fault s f := R.withFault s f
  signal s p := R.same rfl rfl
  setG s g' := R.same rfl rfl
  acct s j f hf := R.modRt s j f (fun r => by rw [hf r]; rfl)

/-- the flags start empty: `callStart` clears every machine's flags -/
theorem inv_callStart (s : Fw σ) (t : Int)
    (hb : ∀ r ∈ s.rt, r.counterA ≤ Fp.u64Max ∧ r.counterB ≤ Fp.u64Max) :
    Inv { a := [], b := [] } (s.callStart t) := by
  refine ⟨fun mi => ?_, fun mi => ?_, fun mi r hr => ?_⟩
  · unfold zeroedAOf
    simp only [Fw.callStart, List.getElem?_map]
    cases s.rt[mi]? <;> simp
  · unfold zeroedBOf
    simp only [Fw.callStart, List.getElem?_map]
    cases s.rt[mi]? <;> simp
  · simp only [Fw.callStart, List.getElem?_map] at hr
    cases hs : s.rt[mi]? with
    | none => rw [hs] at hr; cases hr
    | some r0 =>
      rw [hs] at hr
      simp only [Option.map_some, Option.some.injEq] at hr
      rw [← hr]
      exact hb r0 (List.mem_of_getElem? hs)

/-- **The log segment of a call satisfies the monitor.** -/
theorem call_good (es : List TEvent) (t : Int) (s : Fw σ)
    (hb : ∀ r ∈ s.rt, r.counterA ≤ Fp.u64Max ∧ r.counterB ≤ Fp.u64Max) :
    ∃ c f', (triggerEvents ρ es t s).log = c.reverse ++ s.log ∧ Good { a := [], b := [] } c f' ∧
      Inv f' (triggerEvents ρ es t s) := by
  unfold triggerEvents
  have W := walkR ρ (σ := σ)
  have h1 : R (s.callStart t) (es.foldl (fun s e => processEvent ρ e s) (s.callStart t)) :=
    W.toWalkCore.foldl _ (fun a e => W.processEvent e a) es _
  have h2 := W.toWalkCore.signalRound (es.foldl (fun s e => processEvent ρ e s) (s.callStart t))
  obtain ⟨c, hl, hp⟩ := h1.trans h2
  obtain ⟨f', hg, hi⟩ := hp _ (inv_callStart s t hb)
  exact ⟨c, f', hl, hg, hi⟩

end CL
end Mb
