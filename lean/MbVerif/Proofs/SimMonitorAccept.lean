/-
  The simulator monitors accept the model's own observations (C14, C15, C19): helper lemmas.

  `modelObs` is the observation the driver compares the implementation with (`modelRun` /
  `SimOut.res` of `Sim/Obs.lean`): the returned trace on the observation time axis, or a panic
  class when the model run ends in a fault (or in the model's own loop budget).  The lemmas here
  are what the three `…_monitor_accepts_model` theorems in `Props/C14.lean`, `Props/C15.lean`
  and `Props/C19.lean` are assembled from:

  * shifting a trace to the observation axis does not change what the monitors read
    (order, Hall-form causality, counts, the filter predicate);
  * the stop reason bounds the stream from below (`maxIter`, `maxTrace`), a cap that did not
    stop the run did not change it, and a run that stops because `pick_next` returned `None`
    ends in its last state;
  * under the time-bound invariant of `C19_total`, `pick_next` returns `None` only when the
    queues are empty.
-/
import MbVerif.Proofs.SimNoFault
import MbVerif.Proofs.SimCap
import MbVerif.Proofs.SimMatch
import MbVerif.Proofs.SimRaw
import MbVerif.Spec.C14
import MbVerif.Spec.C15
import MbVerif.Spec.C19

namespace Mb.Sim
open Mb Mb.SimSpec

/-! ### the model's observation of a run -/

section
variable {σ : Type} (ρ : Oracle σ)

/-- the simulator model's own observation of one run of a case: exactly what the driver builds
    to compare the implementation's result with -/
def modelObs (budget : Nat) (c : CaseIn) (r : RunIn) (orc : σ) : ObsRun :=
  ⟨r, (modelRun ρ budget c r orc).1.res (modelRun ρ budget c r orc).2⟩

/-- the underlying model run -/
def modelOut (budget : Nat) (c : CaseIn) (r : RunIn) (orc : σ) : SimOut σ :=
  simAdvanced ρ budget c.mc c.ms (parseTraceRaw c.trace c.delay) (r.effArgs c.delay) orc

/-- the origin of the observation time axis: the first base event -/
def obsT0 (c : CaseIn) : Int := (parseTraceRaw c.trace c.delay).firstTime.getD 0

/-- does the observation of this run report a panic? (a fault of the model, or its own loop
    budget running out, which is only possible without an iteration cap) -/
def Stop.isPanic : Stop → Bool
  | .fault _ => true
  | .loopFuel => true
  | _ => false

theorem modelObs_run (budget : Nat) (c : CaseIn) (r : RunIn) (orc : σ) : (modelObs ρ budget c r orc).run = r := rfl

theorem modelObs_res (budget : Nat) (c : CaseIn) (r : RunIn) (orc : σ) :
    (modelObs ρ budget c r orc).res = (modelOut ρ budget c r orc).res (obsT0 c) := rfl

theorem res_ok {o : SimOut σ} {t0 : Int} (h : o.stop.isPanic = false) :
    o.res t0 = .ok (o.trace.map (SimEvent.shift t0)) := by
  unfold SimOut.res
  cases hs : o.stop <;> simp_all [Stop.isPanic]

theorem res_panic {o : SimOut σ} {t0 : Int} (h : o.stop.isPanic = true) : ∃ cls, o.res t0 = .panic cls := by
  unfold SimOut.res
  cases hs : o.stop <;> simp_all [Stop.isPanic]

theorem res_ok_inv {o : SimOut σ} {t0 : Int} {tr : List SimEvent} (h : o.res t0 = .ok tr) :
    o.stop.isPanic = false ∧ tr = o.trace.map (SimEvent.shift t0) := by
  cases hp : o.stop.isPanic with
  | true => obtain ⟨cls, hc⟩ := res_panic (t0 := t0) hp; rw [hc] at h; cases h
  | false => rw [res_ok hp] at h; cases h; exact ⟨rfl, rfl⟩

theorem isPanic_false_no_fault {s : Stop} (h : s.isPanic = false) : ∀ f, s ≠ .fault f := by
  intro f hf; subst hf; simp [Stop.isPanic] at h

end

/-! ### shifting to the observation axis -/

@[simp] theorem shift_event (t0 : Int) (e : SimEvent) : (e.shift t0).event = e.event := rfl
@[simp] theorem shift_client (t0 : Int) (e : SimEvent) : (e.shift t0).client = e.client := rfl
@[simp] theorem shift_pad (t0 : Int) (e : SimEvent) : (e.shift t0).containsPadding = e.containsPadding := rfl
@[simp] theorem shift_time (t0 : Int) (e : SimEvent) : (e.shift t0).time = e.time - t0 := rfl

theorem pairwise_shift (t0 : Int) (l : List SimEvent) (h : l.Pairwise (fun x y => x.time ≤ y.time)) :
    (l.map (SimEvent.shift t0)).Pairwise (fun x y => x.time ≤ y.time) := by
  rw [List.pairwise_map]
  exact h.imp (fun {a b} hab => by simp only [shift_time]; omega)

theorem sortedByTime_shift (t0 : Int) (l : List SimEvent) (h : l.Pairwise (fun x y => x.time ≤ y.time)) :
    sortedByTime (l.map (SimEvent.shift t0)) = true :=
  sortedByTime_of_pairwise _ (pairwise_shift t0 l h)

theorem recvP_shift (c pd : Bool) (T t0 : Int) (e : SimEvent) :
    recvP c pd T (e.shift t0) = recvP c pd (T + t0) e := by
  simp only [recvP, shift_event, shift_client, shift_pad, shift_time]
  congr 1
  apply decide_eq_decide.2
  omega

theorem sendP_shift (c pd : Bool) (T t0 : Int) (d : Nat) (e : SimEvent) :
    sendP c pd T d (e.shift t0) = sendP c pd (T + t0) d e := by
  simp only [sendP, shift_event, shift_client, shift_pad, shift_time]
  congr 1
  apply decide_eq_decide.2
  omega

/-- Hall-form causality is invariant under the shift, so the monitor's matching predicate holds
    of the shifted trace as well -/
theorem causality_shift (d : Nat) (t0 : Int) (tr : List SimEvent)
    (h : ∀ (c pd : Bool) (T : Int), tr.countP (recvP c pd T) ≤ tr.countP (sendP c pd T d)) :
    C15.causality d (tr.map (SimEvent.shift t0)) = true := by
  apply causality_of_hall
  intro c pd T
  rw [List.countP_map, List.countP_map]
  have h1 : (recvP c pd T ∘ SimEvent.shift t0) = recvP c pd (T + t0) := funext fun e => recvP_shift c pd T t0 e
  have h2 : (sendP c pd T d ∘ SimEvent.shift t0) = sendP c pd (T + t0) d := funext fun e => sendP_shift c pd T t0 d e
  rw [h1, h2]
  exact h c pd (T + t0)

theorem normalSentCount_shift (t0 : Int) (tr : List SimEvent) (cl : Bool) :
    C15.normalSentCount (tr.map (SimEvent.shift t0)) cl = C15.normalSentCount tr cl := by
  unfold C15.normalSentCount
  rw [List.filter_map, List.length_map]
  rfl

theorem keepObs_shift (on oc : Bool) (t0 : Int) (e : SimEvent) : keepObs on oc (e.shift t0) = keepObs on oc e := rfl

theorem filter_keepObs_shift (on oc : Bool) (t0 : Int) (l : List SimEvent) :
    (l.map (SimEvent.shift t0)).filter (keepObs on oc) = (l.filter (keepObs on oc)).map (SimEvent.shift t0) := by
  rw [List.filter_map]
  rfl

/-! ### what the stop reason says about the stream -/

section
variable {σ : Type} (ρ : Oracle σ)

/-- a run that stops on the iteration cap performed at least that many iterations -/
theorem loop_maxIter_len (a : Args) : ∀ (fuel : Nat) (st : St σ) (iters cnt : Nat),
    (loop ρ a fuel st iters cnt).stop = .maxIter →
    a.maxSimIterations ≤ iters + (loop ρ a fuel st iters cnt).stream.length := by
  intro fuel
  induction fuel with
  | zero => intro st iters cnt h; simp [loop] at h
  | succ n ih =>
    intro st iters cnt h
    cases hs : step ρ st with
    | error f => simp [loop, hs] at h
    | ok o =>
      cases o with
      | none => simp [loop, hs] at h
      | some p =>
        obtain ⟨r, st'⟩ := p
        rw [loop_succ_some ρ a n st st' iters cnt r hs] at h ⊢
        cases hsc : stopCheck a st' iters (bump a r cnt) with
        | some s =>
          simp only [hsc] at h
          subst h
          simp only [List.length_cons, List.length_nil]
          unfold stopCheck at hsc
          split at hsc
          · cases hsc
          · split at hsc
            · rename_i h2
              simp only [Bool.and_eq_true, decide_eq_true_eq] at h2
              omega
            · split at hsc <;> cases hsc
        | none =>
          simp only [hsc] at h
          have := ih st' (iters + 1) (bump a r cnt) h
          simp only [List.length_cons]
          omega

/-- a run that stops on the length cap recorded at least that many events -/
theorem loop_maxTrace_len (a : Args) : ∀ (fuel : Nat) (st : St σ) (iters cnt : Nat),
    (loop ρ a fuel st iters cnt).stop = .maxTrace →
    a.maxTraceLength ≤ cnt + ((loop ρ a fuel st iters cnt).stream.filter a.keep).length := by
  intro fuel
  induction fuel with
  | zero => intro st iters cnt h; simp [loop] at h
  | succ n ih =>
    intro st iters cnt h
    cases hs : step ρ st with
    | error f => simp [loop, hs] at h
    | ok o =>
      cases o with
      | none => simp [loop, hs] at h
      | some p =>
        obtain ⟨r, st'⟩ := p
        rw [loop_succ_some ρ a n st st' iters cnt r hs] at h ⊢
        cases hsc : stopCheck a st' iters (bump a r cnt) with
        | some s =>
          simp only [hsc] at h
          subst h
          unfold stopCheck at hsc
          split at hsc
          · rename_i h2
            simp only [Bool.and_eq_true, decide_eq_true_eq] at h2
            unfold bump at h2
            by_cases hk : a.keep r = true
            · simp [hk] at h2 ⊢; omega
            · simp [hk] at h2 ⊢; omega
          · split at hsc
            · cases hsc
            · split at hsc <;> cases hsc
        | none =>
          simp only [hsc] at h
          have := ih st' (iters + 1) (bump a r cnt) h
          by_cases hk : a.keep r = true
          · have hb : bump a r cnt = cnt + 1 := by simp [bump, hk]
            rw [hb] at this ⊢
            simp [hk] at this ⊢; omega
          · have hb : bump a r cnt = cnt := by simp [bump, hk]
            rw [hb] at this ⊢
            simp [hk] at this ⊢; omega

/-- **A cap that did not stop the run did not change it**: if the loop does not end on the
    length cap, it is the loop of the same arguments without the cap. -/
theorem loop_cap_nonbinding (a : Args) : ∀ (fuel : Nat) (st : St σ) (iters cnt cnt0 : Nat),
    (loop ρ a fuel st iters cnt).stop ≠ .maxTrace →
    loop ρ a fuel st iters cnt = loop ρ a.uncapped fuel st iters cnt0 := by
  intro fuel
  induction fuel with
  | zero => intro st iters cnt cnt0 _; simp [loop]
  | succ n ih =>
    intro st iters cnt cnt0 h
    cases hs : step ρ st with
    | error f => simp [loop, hs]
    | ok o =>
      cases o with
      | none => simp [loop, hs]
      | some p =>
        obtain ⟨r, st'⟩ := p
        rw [loop_succ_some ρ a n st st' iters cnt r hs] at h ⊢
        rw [loop_succ_some ρ a.uncapped n st st' iters cnt0 r hs]
        by_cases hx : a.maxTraceLength > 0 ∧ bump a r cnt ≥ a.maxTraceLength
        · rw [stopCheck_at_cap a st' iters _ hx.1 hx.2] at h
          exact absurd rfl h
        · have heq : stopCheck a st' iters (bump a r cnt) = stopCheck a.uncapped st' iters (bump a.uncapped r cnt0) := by
            unfold stopCheck
            have h1 : (decide (a.maxTraceLength > 0) && decide (bump a r cnt ≥ a.maxTraceLength)) = false := by
              simp only [Bool.and_eq_false_imp, decide_eq_true_eq, decide_eq_false_iff_not]
              intro h0 h1; exact hx ⟨h0, h1⟩
            simp [Args.uncapped, h1]
          rw [heq] at h ⊢
          cases hsc : stopCheck a.uncapped st' iters (bump a.uncapped r cnt0) with
          | some s => rfl
          | none =>
            simp only [hsc] at h
            simp only []
            rw [ih st' (iters + 1) (bump a r cnt) (bump a.uncapped r cnt0) h]

/-- a run that ends because `pick_next` returned `None` ends in the state it called it in -/
theorem loop_queueEmpty_final (a : Args) : ∀ (fuel : Nat) (st : St σ) (iters cnt : Nat),
    (loop ρ a fuel st iters cnt).stop = .queueEmpty →
    ∃ stf, (loop ρ a fuel st iters cnt).final = some stf ∧ step ρ stf = .ok none := by
  intro fuel
  induction fuel with
  | zero => intro st iters cnt h; simp [loop] at h
  | succ n ih =>
    intro st iters cnt h
    cases hs : step ρ st with
    | error f => simp [loop, hs] at h
    | ok o =>
      cases o with
      | none => exact ⟨st, by simp [loop, hs], hs⟩
      | some p =>
        obtain ⟨r, st'⟩ := p
        rw [loop_succ_some ρ a n st st' iters cnt r hs] at h ⊢
        cases hsc : stopCheck a st' iters (bump a r cnt) with
        | some s =>
          simp only [hsc] at h
          subst h
          unfold stopCheck at hsc
          repeat (first | cases hsc | split at hsc)
        | none =>
          simp only [hsc] at h
          exact ih st' (iters + 1) (bump a r cnt) h

end

end Mb.Sim
