/-
  The simulator monitors accept the model's own observations (C14, C15, C19): helper lemmas.

  `modelObs` is the observation the driver compares the implementation with (`modelRun` /
  `SimOut.res` of `Sim/Obs.lean`): the returned trace on the observation time axis, or a panic
  class when the model run ends in a fault (or in the model's own loop budget).  The lemmas here
  are what the three `…_monitor_accepts_model` theorems in `Props/C14.lean`, `Props/C15.lean`
  and `Props/C19.lean` are assembled from:

  * shifting a trace to the observation axis does not change what the monitors read
    (order, Hall-form causality, counts, the filter predicate);
  * the stop reason bounds the stream from below (`maxIter`, `maxTrace`), a cap that did not
    stop the run did not change it, and a run that stops because `pick_next` returned `None`
    ends in its last state;
  * under the time-bound invariant of `C19_total`, `pick_next` returns `None` only when the
    queues are empty.
-/
import MbVerif.Proofs.SimNoFault
import MbVerif.Proofs.SimCap
import MbVerif.Proofs.SimMatch
import MbVerif.Proofs.SimRaw
import MbVerif.Spec.C14
import MbVerif.Spec.C15
import MbVerif.Spec.C19

namespace Mb.Sim
open Mb Mb.SimSpec

/-! ### the model's observation of a run -/

section
variable {σ : Type} (ρ : Oracle σ)

/-- the simulator model's own observation of one run of a case: exactly what the driver builds
    to compare the implementation's result with -/
def modelObs (budget : Nat) (c : CaseIn) (r : RunIn) (orc : σ) : ObsRun :=
  ⟨r, (modelRun ρ budget c r orc).1.res (modelRun ρ budget c r orc).2⟩

/-- the underlying model run -/
def modelOut (budget : Nat) (c : CaseIn) (r : RunIn) (orc : σ) : SimOut σ :=
  simAdvanced ρ budget c.mc c.ms (parseTraceRaw c.trace c.delay) (r.effArgs c.delay) orc

/-- the origin of the observation time axis: the first base event -/
def obsT0 (c : CaseIn) : Int := (parseTraceRaw c.trace c.delay).firstTime.getD 0

/-- does the observation of this run report a panic? (a fault of the model, or its own loop
    budget running out, which is only possible without an iteration cap) -/
def Stop.isPanic : Stop → Bool
  | .fault _ => true
  | .loopFuel => true
  | _ => false

theorem modelObs_run (budget : Nat) (c : CaseIn) (r : RunIn) (orc : σ) : (modelObs ρ budget c r orc).run = r := rfl

theorem modelObs_res (budget : Nat) (c : CaseIn) (r : RunIn) (orc : σ) :
    (modelObs ρ budget c r orc).res = (modelOut ρ budget c r orc).res (obsT0 c) := rfl

theorem res_ok {o : SimOut σ} {t0 : Int} (h : o.stop.isPanic = false) :
    o.res t0 = .ok (o.trace.map (SimEvent.shift t0)) := by
  unfold SimOut.res
  cases hs : o.stop <;> simp_all [Stop.isPanic]

theorem res_panic {o : SimOut σ} {t0 : Int} (h : o.stop.isPanic = true) : ∃ cls, o.res t0 = .panic cls := by
  unfold SimOut.res
  cases hs : o.stop <;> simp_all [Stop.isPanic]

theorem res_ok_inv {o : SimOut σ} {t0 : Int} {tr : List SimEvent} (h : o.res t0 = .ok tr) :
    o.stop.isPanic = false ∧ tr = o.trace.map (SimEvent.shift t0) := by
  cases hp : o.stop.isPanic with
  | true => obtain ⟨cls, hc⟩ := res_panic (t0 := t0) hp; rw [hc] at h; cases h
  | false => rw [res_ok hp] at h; cases h; exact ⟨rfl, rfl⟩

theorem isPanic_false_no_fault {s : Stop} (h : s.isPanic = false) : ∀ f, s ≠ .fault f := by
  intro f hf; subst hf; simp [Stop.isPanic] at h

end

/-! ### shifting to the observation axis -/

@[simp] theorem shift_event (t0 : Int) (e : SimEvent) : (e.shift t0).event = e.event := rfl
@[simp] theorem shift_client (t0 : Int) (e : SimEvent) : (e.shift t0).client = e.client := rfl
@[simp] theorem shift_pad (t0 : Int) (e : SimEvent) : (e.shift t0).containsPadding = e.containsPadding := rfl
@[simp] theorem shift_time (t0 : Int) (e : SimEvent) : (e.shift t0).time = e.time - t0 := rfl

theorem pairwise_shift (t0 : Int) (l : List SimEvent) (h : l.Pairwise (fun x y => x.time ≤ y.time)) :
    (l.map (SimEvent.shift t0)).Pairwise (fun x y => x.time ≤ y.time) := by
  rw [List.pairwise_map]
  exact h.imp (fun {a b} hab => by simp only [shift_time]; omega)

theorem sortedByTime_shift (t0 : Int) (l : List SimEvent) (h : l.Pairwise (fun x y => x.time ≤ y.time)) :
    sortedByTime (l.map (SimEvent.shift t0)) = true :=
  sortedByTime_of_pairwise _ (pairwise_shift t0 l h)

theorem recvP_shift (c pd : Bool) (T t0 : Int) (e : SimEvent) :
    recvP c pd T (e.shift t0) = recvP c pd (T + t0) e := by
  simp only [recvP, shift_event, shift_client, shift_pad, shift_time]
  congr 1
  apply decide_eq_decide.2
  omega

theorem sendP_shift (c pd : Bool) (T t0 : Int) (d : Nat) (e : SimEvent) :
    sendP c pd T d (e.shift t0) = sendP c pd (T + t0) d e := by
  simp only [sendP, shift_event, shift_client, shift_pad, shift_time]
  congr 1
  apply decide_eq_decide.2
  omega

/-- Hall-form causality is invariant under the shift, so the monitor's matching predicate holds
    of the shifted trace as well -/
theorem causality_shift (d : Nat) (t0 : Int) (tr : List SimEvent)
    (h : ∀ (c pd : Bool) (T : Int), tr.countP (recvP c pd T) ≤ tr.countP (sendP c pd T d)) :
    C15.causality d (tr.map (SimEvent.shift t0)) = true := by
  apply causality_of_hall
  intro c pd T
  rw [List.countP_map, List.countP_map]
  have h1 : (recvP c pd T ∘ SimEvent.shift t0) = recvP c pd (T + t0) := funext fun e => recvP_shift c pd T t0 e
  have h2 : (sendP c pd T d ∘ SimEvent.shift t0) = sendP c pd (T + t0) d := funext fun e => sendP_shift c pd T t0 d e
  rw [h1, h2]
  exact h c pd (T + t0)

theorem normalSentCount_shift (t0 : Int) (tr : List SimEvent) (cl : Bool) :
    C15.normalSentCount (tr.map (SimEvent.shift t0)) cl = C15.normalSentCount tr cl := by
  unfold C15.normalSentCount
  rw [List.filter_map, List.length_map]
  rfl

theorem keepObs_shift (on oc : Bool) (t0 : Int) (e : SimEvent) : keepObs on oc (e.shift t0) = keepObs on oc e := rfl

theorem filter_keepObs_shift (on oc : Bool) (t0 : Int) (l : List SimEvent) :
    (l.map (SimEvent.shift t0)).filter (keepObs on oc) = (l.filter (keepObs on oc)).map (SimEvent.shift t0) := by
  rw [List.filter_map]
  rfl

/-! ### what the stop reason says about the stream -/

section
variable {σ : Type} (ρ : Oracle σ)

/-- a run that stops on the iteration cap performed at least that many iterations -/
theorem loop_maxIter_len (a : Args) : ∀ (fuel : Nat) (st : St σ) (iters cnt : Nat),
    (loop ρ a fuel st iters cnt).stop = .maxIter →
    0 < a.maxSimIterations ∧ a.maxSimIterations ≤ iters + (loop ρ a fuel st iters cnt).stream.length := by
  intro fuel
  induction fuel with
  | zero => intro st iters cnt h; simp [loop] at h
  | succ n ih =>
    intro st iters cnt h
    cases hs : step ρ st with
    | error f => simp [loop, hs] at h
    | ok o =>
      cases o with
      | none => simp [loop, hs] at h
      | some p =>
        obtain ⟨r, st'⟩ := p
        rw [loop_succ_some ρ a n st st' iters cnt r hs] at h ⊢
        cases hsc : stopCheck a st' iters (bump a r cnt) with
        | some s =>
          simp only [hsc] at h
          subst h
          simp only [List.length_cons, List.length_nil]
          unfold stopCheck at hsc
          split at hsc
          · cases hsc
          · split at hsc
            · rename_i h2
              simp only [Bool.and_eq_true, decide_eq_true_eq] at h2
              omega
            · split at hsc <;> cases hsc
        | none =>
          simp only [hsc] at h
          have := ih st' (iters + 1) (bump a r cnt) h
          simp only [List.length_cons]
          omega

/-- a run that stops on the length cap recorded at least that many events -/
theorem loop_maxTrace_len (a : Args) : ∀ (fuel : Nat) (st : St σ) (iters cnt : Nat),
    (loop ρ a fuel st iters cnt).stop = .maxTrace →
    0 < a.maxTraceLength ∧ a.maxTraceLength ≤ cnt + ((loop ρ a fuel st iters cnt).stream.filter a.keep).length := by
  intro fuel
  induction fuel with
  | zero => intro st iters cnt h; simp [loop] at h
  | succ n ih =>
    intro st iters cnt h
    cases hs : step ρ st with
    | error f => simp [loop, hs] at h
    | ok o =>
      cases o with
      | none => simp [loop, hs] at h
      | some p =>
        obtain ⟨r, st'⟩ := p
        rw [loop_succ_some ρ a n st st' iters cnt r hs] at h ⊢
        cases hsc : stopCheck a st' iters (bump a r cnt) with
        | some s =>
          simp only [hsc] at h
          subst h
          unfold stopCheck at hsc
          split at hsc
          · rename_i h2
            simp only [Bool.and_eq_true, decide_eq_true_eq] at h2
            unfold bump at h2
            by_cases hk : a.keep r = true
            · simp [hk] at h2 ⊢; omega
            · simp [hk] at h2 ⊢; omega
          · split at hsc
            · cases hsc
            · split at hsc <;> cases hsc
        | none =>
          simp only [hsc] at h
          have := ih st' (iters + 1) (bump a r cnt) h
          by_cases hk : a.keep r = true
          · have hb : bump a r cnt = cnt + 1 := by simp [bump, hk]
            rw [hb] at this ⊢
            simp [hk] at this ⊢; omega
          · have hb : bump a r cnt = cnt := by simp [bump, hk]
            rw [hb] at this ⊢
            simp [hk] at this ⊢; omega

/-- **A cap that did not stop the run did not change it**: if the loop does not end on the
    length cap, it is the loop of the same arguments without the cap. -/
theorem loop_cap_nonbinding (a : Args) : ∀ (fuel : Nat) (st : St σ) (iters cnt cnt0 : Nat),
    (loop ρ a fuel st iters cnt).stop ≠ .maxTrace →
    loop ρ a fuel st iters cnt = loop ρ a.uncapped fuel st iters cnt0 := by
  intro fuel
  induction fuel with
  | zero => intro st iters cnt cnt0 _; simp [loop]
  | succ n ih =>
    intro st iters cnt cnt0 h
    cases hs : step ρ st with
    | error f => simp [loop, hs]
    | ok o =>
      cases o with
      | none => simp [loop, hs]
      | some p =>
        obtain ⟨r, st'⟩ := p
        rw [loop_succ_some ρ a n st st' iters cnt r hs] at h ⊢
        rw [loop_succ_some ρ a.uncapped n st st' iters cnt0 r hs]
        by_cases hx : a.maxTraceLength > 0 ∧ bump a r cnt ≥ a.maxTraceLength
        · rw [stopCheck_at_cap a st' iters _ hx.1 hx.2] at h
          exact absurd rfl h
        · have heq : stopCheck a st' iters (bump a r cnt) = stopCheck a.uncapped st' iters (bump a.uncapped r cnt0) := by
            unfold stopCheck
            have h1 : (decide (a.maxTraceLength > 0) && decide (bump a r cnt ≥ a.maxTraceLength)) = false := by
              simp only [Bool.and_eq_false_imp, decide_eq_true_eq, decide_eq_false_iff_not]
              intro h0 h1; exact hx ⟨h0, h1⟩
            simp [Args.uncapped, h1]
          rw [heq] at h ⊢
          cases hsc : stopCheck a.uncapped st' iters (bump a.uncapped r cnt0) with
          | some s => rfl
          | none =>
            simp only [hsc] at h
            simp only []
            rw [ih st' (iters + 1) (bump a r cnt) (bump a.uncapped r cnt0) h]

/-- a run that ends because `pick_next` returned `None` ends in the state it called it in -/
theorem loop_queueEmpty_final (a : Args) : ∀ (fuel : Nat) (st : St σ) (iters cnt : Nat),
    (loop ρ a fuel st iters cnt).stop = .queueEmpty →
    ∃ stf, (loop ρ a fuel st iters cnt).final = some stf ∧ step ρ stf = .ok none := by
  intro fuel
  induction fuel with
  | zero => intro st iters cnt h; simp [loop] at h
  | succ n ih =>
    intro st iters cnt h
    cases hs : step ρ st with
    | error f => simp [loop, hs] at h
    | ok o =>
      cases o with
      | none => exact ⟨st, by simp [loop, hs], hs⟩
      | some p =>
        obtain ⟨r, st'⟩ := p
        rw [loop_succ_some ρ a n st st' iters cnt r hs] at h ⊢
        cases hsc : stopCheck a st' iters (bump a r cnt) with
        | some s =>
          simp only [hsc] at h
          subst h
          unfold stopCheck at hsc
          repeat (first | cases hsc | split at hsc)
        | none =>
          simp only [hsc] at h
          exact ih st' (iters + 1) (bump a r cnt) h

end

/-! ### the same at the level of `sim_advanced` -/

section
variable {σ : Type} (ρ : Oracle σ)

theorem finish_final {args : Args} {o : LoopOut σ} {stf : St σ} (h : (finish args o).final = some stf) :
    o.final = some stf := by
  unfold finish at h
  cases hs : o.stop <;> simp only [hs] at h <;> first | exact h | cases h

/-- the returned trace of a run that did not fault is the kept part of the iteration stream -/
theorem simAdvanced_trace_stream (budget : Nat) (mc ms : List Machine) (sq : SimQueue) (a : Args) (orc : σ)
    (hok : ∀ f, (simAdvanced ρ budget mc ms sq a orc).stop ≠ .fault f) :
    (simAdvanced ρ budget mc ms sq a orc).trace =
      ((simAdvanced ρ budget mc ms sq a orc).stream.filter a.keep).map (·.ev) := by
  unfold simAdvanced at hok ⊢
  cases hi : initState ρ mc ms sq a orc with
  | error f => simp [hi] at hok
  | ok st =>
    simp only [hi] at hok
    simp only []
    have hgood := loop_stream_sorted ρ a (loopFuel a budget) st 0 0
    have hnf : (loop ρ a (loopFuel a budget) st 0 0).stop.isFault = false := by
      cases hs : (loop ρ a (loopFuel a budget) st 0 0).stop with
      | fault f => exact absurd (by rw [finish_stop, hs]) (hok f)
      | queueEmpty | maxTrace | maxIter | noNormal | loopFuel => rfl
    rw [finish_trace a _ hgood.2, finish_stream, hnf]
    simp

theorem simAdvanced_trace_le_stream (budget : Nat) (mc ms : List Machine) (sq : SimQueue) (a : Args) (orc : σ) :
    (simAdvanced ρ budget mc ms sq a orc).trace.length ≤ (simAdvanced ρ budget mc ms sq a orc).stream.length := by
  unfold simAdvanced
  cases hi : initState ρ mc ms sq a orc with
  | error f => simp
  | ok st =>
    simp only []
    have hgood := loop_stream_sorted ρ a (loopFuel a budget) st 0 0
    rw [finish_trace a _ hgood.2, finish_stream]
    split
    · simp
    · simp only [List.length_map]; exact List.length_filter_le _ _

theorem simAdvanced_maxIter (budget : Nat) (mc ms : List Machine) (sq : SimQueue) (a : Args) (orc : σ)
    (h : (simAdvanced ρ budget mc ms sq a orc).stop = .maxIter) :
    0 < a.maxSimIterations ∧ a.maxSimIterations ≤ (simAdvanced ρ budget mc ms sq a orc).stream.length := by
  unfold simAdvanced at h ⊢
  cases hi : initState ρ mc ms sq a orc with
  | error f => simp [hi] at h
  | ok st =>
    simp only [hi, finish_stop] at h
    simp only [finish_stream]
    have := loop_maxIter_len ρ a (loopFuel a budget) st 0 0 h
    omega

theorem simAdvanced_maxTrace (budget : Nat) (mc ms : List Machine) (sq : SimQueue) (a : Args) (orc : σ)
    (h : (simAdvanced ρ budget mc ms sq a orc).stop = .maxTrace) :
    0 < a.maxTraceLength ∧ a.maxTraceLength ≤ (simAdvanced ρ budget mc ms sq a orc).trace.length := by
  have hok : ∀ f, (simAdvanced ρ budget mc ms sq a orc).stop ≠ .fault f := by intro f hf; rw [h] at hf; cases hf
  rw [simAdvanced_trace_stream ρ budget mc ms sq a orc hok, List.length_map]
  unfold simAdvanced at h ⊢
  cases hi : initState ρ mc ms sq a orc with
  | error f => simp [hi] at h
  | ok st =>
    simp only [hi, finish_stop] at h
    simp only [finish_stream]
    have := loop_maxTrace_len ρ a (loopFuel a budget) st 0 0 h
    omega

/-- a length cap that did not stop the run did not change it -/
theorem simAdvanced_nonbinding (budget : Nat) (mc ms : List Machine) (sq : SimQueue) (a : Args) (orc : σ)
    (h : (simAdvanced ρ budget mc ms sq a orc).stop ≠ .maxTrace) :
    simAdvanced ρ budget mc ms sq a orc = simAdvanced ρ budget mc ms sq a.uncapped orc := by
  unfold simAdvanced at h ⊢
  have hinit : initState ρ mc ms sq a.uncapped orc = initState ρ mc ms sq a orc := rfl
  rw [hinit]
  cases hi : initState ρ mc ms sq a orc with
  | error f => rfl
  | ok st =>
    simp only [hi, finish_stop] at h
    simp only []
    have hfu : loopFuel a.uncapped budget = loopFuel a budget := rfl
    rw [hfu, ← loop_cap_nonbinding ρ a (loopFuel a budget) st 0 0 0 h]
    rfl

theorem simAdvanced_queueEmpty_final (budget : Nat) (mc ms : List Machine) (sq : SimQueue) (a : Args) (orc : σ)
    (h : (simAdvanced ρ budget mc ms sq a orc).stop = .queueEmpty) :
    ∃ stf, (simAdvanced ρ budget mc ms sq a orc).final = some stf ∧ step ρ stf = .ok none := by
  unfold simAdvanced at h ⊢
  cases hi : initState ρ mc ms sq a orc with
  | error f => simp [hi] at h
  | ok st =>
    simp only [hi, finish_stop] at h
    simp only []
    obtain ⟨stf, hf, hs⟩ := loop_queueEmpty_final ρ a (loopFuel a budget) st 0 0 h
    refine ⟨stf, ?_, hs⟩
    rw [finish_ok a _ (by intro f hf'; rw [h] at hf'; cases hf')]
    exact hf

/-- **Conservation in terms of the final state**: processed normal TunnelSent events per side
    never exceed the side's share, and when the run ends in a state in which no normal packet
    waits any more they equal it. -/
theorem simAdvanced_conserve_final (budget : Nat) (mc ms : List Machine) (trace : List TraceLine) (delay : Nat)
    (a : Args) (orc : σ) :
    (∀ c, (simAdvanced ρ budget mc ms (parseTrace trace delay) a orc).stream.countP (sentNormal c) ≤ shareOf trace c) ∧
    (∀ stf, (simAdvanced ρ budget mc ms (parseTrace trace delay) a orc).final = some stf →
      (∀ c, stf.sq.pending c = 0) →
      ∀ c, (simAdvanced ρ budget mc ms (parseTrace trace delay) a orc).stream.countP (sentNormal c) = shareOf trace c) := by
  unfold simAdvanced
  have hpt := parseTrace_spec trace delay
  cases hi : initState ρ mc ms (parseTrace trace delay) a orc with
  | error f => exact ⟨by simp, fun stf h => by cases h⟩
  | ok st =>
    simp only []
    have hsq := initState_sq ρ hi
    have hw : st.sq.WF := by rw [hsq]; exact hpt.1
    have hc := loop_conserve ρ a (loopFuel a budget) st 0 0 hw
    rw [finish_stream]
    constructor
    · intro c
      have := hc.1 c
      rw [hsq, hpt.2 c] at this
      exact this
    · intro stf hfin hz c
      have h2 := hc.2 stf (finish_final hfin)
      have h3 := h2.2 c
      rw [hz c, hsq, hpt.2 c] at h3
      omega

end

/-! ### a smaller iteration cap only cuts the run short -/

/-- the same arguments with another iteration cap -/
def Args.withIters (a : Args) (m : Nat) : Args := { a with maxSimIterations := m }

section
variable {σ : Type} (ρ : Oracle σ)

/-- a fault under an iteration cap is a fault under every larger cap (with at least as much fuel):
    until the smaller cap stops the run, both loops do the same -/
theorem loop_iters_fault (a : Args) (M : Nat) (hpos : 0 < a.maxSimIterations) (hM : a.maxSimIterations ≤ M)
    (f : SimFault) : ∀ (fuel fuel' : Nat) (st : St σ) (iters cnt : Nat), fuel ≤ fuel' →
    (loop ρ a fuel st iters cnt).stop = .fault f → (loop ρ (a.withIters M) fuel' st iters cnt).stop = .fault f := by
  intro fuel
  induction fuel with
  | zero => intro fuel' st iters cnt _ h; simp [loop] at h
  | succ n ih =>
    intro fuel' st iters cnt hle h
    obtain ⟨n', rfl⟩ : ∃ n', fuel' = n' + 1 := ⟨fuel' - 1, by omega⟩
    cases hs : step ρ st with
    | error f0 =>
      simp only [loop, hs] at h ⊢
      exact h
    | ok o =>
      cases o with
      | none => simp [loop, hs] at h
      | some p =>
        obtain ⟨r, st'⟩ := p
        rw [loop_succ_some ρ a n st st' iters cnt r hs] at h
        rw [loop_succ_some ρ (a.withIters M) n' st st' iters cnt r hs]
        cases hsc : stopCheck a st' iters (bump a r cnt) with
        | some s =>
          simp only [hsc] at h
          subst h
          unfold stopCheck at hsc
          repeat (first | cases hsc | split at hsc)
        | none =>
          simp only [hsc] at h
          have hsc' : stopCheck (a.withIters M) st' iters (bump (a.withIters M) r cnt) = none := by
            have hb : bump (a.withIters M) r cnt = bump a r cnt := rfl
            rw [hb]
            unfold stopCheck at hsc ⊢
            split at hsc
            · cases hsc
            · rename_i h1
              split at hsc
              · cases hsc
              · rename_i h2
                split at hsc
                · cases hsc
                · rename_i h3
                  have e1 : (a.withIters M).maxTraceLength = a.maxTraceLength := rfl
                  have e2 : (a.withIters M).continueAfterAllNormal = a.continueAfterAllNormal := rfl
                  have e3 : (a.withIters M).maxSimIterations = M := rfl
                  rw [e1, e2, e3]
                  simp only [Bool.and_eq_true, decide_eq_true_eq, not_and, Nat.not_le] at h2
                  have h2' := h2 hpos
                  have h4 : (decide (M > 0) && decide (iters + 1 ≥ M)) = false := by
                    simp only [Bool.and_eq_false_imp, decide_eq_true_eq, decide_eq_false_iff_not]
                    intro _; omega
                  simp only [h1, h3, h4, Bool.false_eq_true, if_false]
          simp only [hsc']
          exact ih n' st' (iters + 1) (bump a r cnt) (by omega) h

theorem simAdvanced_iters_fault (budget : Nat) (mc ms : List Machine) (sq : SimQueue) (a : Args) (orc : σ) (M : Nat)
    (hpos : 0 < a.maxSimIterations) (hM : a.maxSimIterations ≤ M) (f : SimFault)
    (h : (simAdvanced ρ budget mc ms sq a orc).stop = .fault f) :
    (simAdvanced ρ budget mc ms sq (a.withIters M) orc).stop = .fault f := by
  unfold simAdvanced at h ⊢
  have hinit : initState ρ mc ms sq (a.withIters M) orc = initState ρ mc ms sq a orc := rfl
  rw [hinit]
  cases hi : initState ρ mc ms sq a orc with
  | error f0 => simp only [hi] at h ⊢; exact h
  | ok st =>
    simp only [hi, finish_stop] at h ⊢
    have hf1 : loopFuel a budget = a.maxSimIterations := by simp [loopFuel, hpos]
    have hf2 : loopFuel (a.withIters M) budget = M := by
      have : (a.withIters M).maxSimIterations = M := rfl
      simp only [loopFuel, this]
      have : M > 0 := by omega
      simp [this]
    rw [hf1] at h
    rw [hf2]
    exact loop_iters_fault ρ a M hpos hM f _ _ st 0 0 hM h

/-- a fault of a length-capped run is a fault of the uncapped run -/
theorem simAdvanced_cap_fault (budget : Nat) (mc ms : List Machine) (sq : SimQueue) (a : Args) (orc : σ) (f : SimFault)
    (h : (simAdvanced ρ budget mc ms sq a orc).stop = .fault f) :
    (simAdvanced ρ budget mc ms sq a.uncapped orc).stop = .fault f := by
  rw [← simAdvanced_nonbinding ρ budget mc ms sq a orc (by rw [h]; intro hc; cases hc)]
  exact h

/-- with an iteration cap the model's own loop budget is never the reason to stop -/
theorem simAdvanced_no_loopFuel (budget : Nat) (mc ms : List Machine) (sq : SimQueue) (a : Args) (orc : σ)
    (hm : a.maxSimIterations > 0) : (simAdvanced ρ budget mc ms sq a orc).stop ≠ .loopFuel := by
  unfold simAdvanced
  cases hi : initState ρ mc ms sq a orc with
  | error f => simp
  | ok st =>
    simp only []
    have hf : loopFuel a budget = a.maxSimIterations := by simp [loopFuel, hm]
    rw [finish_stop]
    exact (loop_iters ρ a hm (loopFuel a budget) st 0 0 hm (by rw [hf]; omega)).2

end

/-! ### under the time-bound invariant of `C19_total`, "queue empty" means drained -/

section
variable {σ : Type}

/-- "nothing to do": every candidate offset is `MAX`, in particular the queue's -/
theorem pickDecide_nothing {st : St σ} (h : pickDecide st = .ok .nothing) :
    ∃ qid c, peekQueue st durMax = .ok (durMax, qid, c) := by
  unfold pickDecide at h
  simp only [] at h
  rw [bind_ok_iff] at h
  obtain ⟨⟨q, qid, qc⟩, hq, h2⟩ := h
  simp only [pure, Except.pure] at h2
  split at h2
  · rename_i hc
    simp only [Bool.and_eq_true, decide_eq_true_eq] at hc
    obtain ⟨⟨⟨⟨h1, h3⟩, h4⟩, h5⟩, h6⟩ := hc
    rw [h1, h3, h4, h5] at hq
    simp only [Nat.min_self] at hq
    rw [h6] at hq
    exact ⟨qid, qc, hq⟩
  · repeat (first | cases h2 | split at h2)


/-- when a blocked head exists, the side's earliest offset is at most the offset at which that
    head can be served -/
theorem peekQueueEarliestSide_le_blocked (sq : SimQueue) (bu : Option Int) (byp : Bool) (now : Int) (ds : Nat) (c : Bool)
    {b : SimEvent} (hb : (sq.peekBlocking byp c).1 = some b) :
    (peekQueueEarliestSide sq bu byp now ds c).1 ≤ dsince (max b.time (bu.getD now)) now := by
  unfold peekQueueEarliestSide
  rcases hpb : sq.peekBlocking byp c with ⟨pb, bq⟩
  rcases hpn : sq.peekNonBlocking byp c ds with ⟨pn, nq⟩
  rw [hpb] at hb
  simp only [] at hb
  subst hb
  simp only []
  cases pn with
  | none => exact Nat.le_refl _
  | some n =>
    simp only []
    generalize hnt : (if nq = Queue.base then n.time + (ds : Int) else n.time) = nt
    by_cases hbf : (if max b.time (bu.getD now) < nt then true
        else if nt < max b.time (bu.getD now) then false else nq != Queue.base) = true
    · simp only [hbf, if_true]; exact Nat.le_refl _
    · simp only [hbf, Bool.false_eq_true, if_false]
      apply dsince_mono
      by_cases h1 : max b.time (bu.getD now) < nt
      · simp [h1] at hbf
      · omega

theorem side_wf {sq : SimQueue} (hw : sq.WF) (c : Bool) : (sq.side c).WF c := by
  cases c
  · exact hw.server
  · exact hw.client

/-- a queued TunnelSent that the side's blocking applies to makes `peek_blocking` report a head -/
theorem peekBlocking_some {sq : SimQueue} (hw : sq.WF) {byp c : Bool} {qi : Queue} {e : SimEvent}
    (he : e ∈ ((sq.side c).heap qi).data) (hts : isTS e = true) (hby : byp = true → e.bypass = false) :
    ∃ b, (sq.peekBlocking byp c).1 = some b := by
  have hwc := side_wf hw c
  cases qi with
  | base =>
    have := List.countP_eq_zero.1 hwc.base e he
    simp only [isNS, isTS, beq_iff_eq] at this hts
    simp [hts] at this
  | internal =>
    have := List.countP_eq_zero.1 hwc.internal e he
    simp [hts] at this
  | blocking =>
    obtain ⟨r, hr⟩ := evHeap_peek_of_mem he
    simp only [EventQueue.heap] at hr
    unfold SimQueue.peekBlocking EventQueue.peekBlockingSide
    cases byp with
    | true => exact ⟨r, by simp [hr]⟩
    | false =>
      simp only [Bool.false_eq_true, if_false, hr]
      cases hbb : (sq.side c).bypassable.peek with
      | none => exact ⟨r, by simp [optGt]⟩
      | some x => split <;> exact ⟨_, rfl⟩
  | bypassable =>
    have := List.countP_eq_zero.1 hwc.bypassable e he
    simp only [hts, Bool.not_true, Bool.false_or, Bool.or_eq_true, Bool.not_eq_true', bne_iff_ne, ne_eq, not_or,
      Bool.not_eq_false, Decidable.not_not] at this
    have hbf : byp = false := by
      cases byp with
      | false => rfl
      | true => have := hby rfl; simp_all
    subst hbf
    obtain ⟨r, hr⟩ := evHeap_peek_of_mem he
    simp only [EventQueue.heap] at hr
    unfold SimQueue.peekBlocking EventQueue.peekBlockingSide
    simp only [Bool.false_eq_true, if_false, hr]
    cases hbb : (sq.side c).blocking.peek with
    | none => exact ⟨r, by simp [optGt]⟩
    | some x => split <;> exact ⟨_, rfl⟩


/-- **Under the time-bound invariant `pick_next` reports "nothing to do" only for empty queues**:
    every queued event is less than `Duration::MAX` ahead of the clock (base events by the bound
    on trace times and aggregate delays, internal events by `S`, queued TunnelSent events are due),
    and a pending blocking expires within `W`. -/
theorem peekQueue_durMax_empty {π : TPar} {A : Nat} {Hn : Int} {kw J : Nat} {st : St σ} (h : PI π A Hn kw J st)
    (hb1 : π.Tm + (J : Int) - π.t0 < (durMax : Int)) (hb2 : π.S < durMax) (hW : TB.W < durMax)
    {qid : Queue} {c : Bool} (hq : peekQueue st durMax = .ok (durMax, qid, c)) : st.sq.isEmpty = true := by
  by_cases h0 : st.sq.isEmpty = true
  · exact h0
  · exfalso
    unfold peekQueue at hq
    simp only [h0, Bool.false_eq_true, if_false] at hq
    rw [bind_ok_iff] at hq
    obtain ⟨⟨pk, qu, dur⟩, h1, h2⟩ := hq
    cases pk with
    | none => simp at h2
    | some peek =>
      have hdur := SimQueue.peek_dur h.wf h1
      have hph := SimQueue.peek_heap h.wf h1
      have hmem := Heap.peek_mem hph
      have hqp := h.q peek.client qu peek hmem
      have ht0 := h.t0le
      have hagg : (if peek.client then st.net.clientAgg else st.net.serverAgg) ≤ J := h.net.agg_le peek.client
      have hlt : dur < durMax := by
        rw [hdur]
        cases qu with
        | base =>
          simp only [qpred] at hqp
          have : dsince (peek.time + qShift Queue.base (if peek.client then st.net.clientAgg else st.net.serverAgg)) st.now
              ≤ (π.Tm + (J : Int) - π.t0).toNat := by
            apply dsince_le_of_le
            simp only [qShift, if_true]
            omega
          omega
        | internal =>
          simp only [qpred] at hqp
          have : dsince (peek.time + qShift Queue.internal (if peek.client then st.net.clientAgg else st.net.serverAgg)) st.now
              ≤ π.S := by
            apply dsince_le_of_le
            simp [qShift]
            omega
          omega
        | blocking =>
          simp only [qpred] at hqp
          have : dsince (peek.time + qShift Queue.blocking (if peek.client then st.net.clientAgg else st.net.serverAgg)) st.now
              ≤ 0 := by
            apply dsince_le_of_le
            simp [qShift]
            omega
          omega
        | bypassable =>
          simp only [qpred] at hqp
          have : dsince (peek.time + qShift Queue.bypassable (if peek.client then st.net.clientAgg else st.net.serverAgg)) st.now
              ≤ 0 := by
            apply dsince_le_of_le
            simp [qShift]
            omega
          omega
      simp only [pure, Except.pure] at h2
      split at h2
      · omega
      · split at h2
        · simp only [Except.ok.injEq, Prod.mk.injEq] at h2; omega
        · rename_i hts
          split at h2
          · simp only [Except.ok.injEq, Prod.mk.injEq] at h2; omega
          · rename_i hcs
            split at h2
            · simp only [Except.ok.injEq, Prod.mk.injEq] at h2; omega
            · rename_i hx
              split at h2
              · simp only [Except.ok.injEq, Prod.mk.injEq] at h2; omega
              · rename_i hy
                -- the blocked side: its earliest offset is below MAX
                have hts' : isTS peek = true := by
                  simp only [bne_iff_ne, ne_eq, Decidable.not_not] at hts
                  simp [isTS, hts]
                have hside : ∃ u, (st.side peek.client).blockingUntil = some u ∧
                    ((st.side peek.client).blockingBypassable = true → peek.bypass = false) := by
                  cases hpc : peek.client with
                  | true =>
                    simp only [hpc, St.side, if_true] at hx hy ⊢
                    cases hbu : st.client.blockingUntil with
                    | none => simp [hbu] at hx
                    | some u =>
                      refine ⟨u, rfl, fun hb => ?_⟩
                      simp [hbu, hb] at hy
                      exact hy
                  | false =>
                    simp only [hpc, St.side, Bool.false_eq_true, if_false] at hx hy ⊢
                    cases hbu : st.server.blockingUntil with
                    | none => simp [hbu] at hx
                    | some u =>
                      refine ⟨u, rfl, fun hb => ?_⟩
                      simp [hbu, hb] at hy
                      exact hy
                obtain ⟨u, hu, hbyp⟩ := hside
                obtain ⟨b, hb⟩ := peekBlocking_some h.wf (byp := (st.side peek.client).blockingBypassable) hmem hts' hbyp
                obtain ⟨qb, hqb, hbm, _, _⟩ := peekBlocking_mem hb
                have hbq := h.q peek.client qb b hbm
                have hbt : b.time ≤ st.now := by
                  rcases hqb with rfl | rfl <;> simp only [qpred] at hbq <;> exact hbq.1
                have hul := (h.sides peek.client).untl u hu
                have hle : ∀ ds, (peekQueueEarliestSide st.sq (st.side peek.client).blockingUntil
                    (st.side peek.client).blockingBypassable st.now ds peek.client).1 ≤ TB.W := by
                  intro ds
                  refine Nat.le_trans (peekQueueEarliestSide_le_blocked st.sq _ _ st.now ds peek.client hb) ?_
                  apply dsince_le_of_le
                  rw [hu]
                  simp only [Option.getD_some]
                  omega
                cases hpc : peek.client with
                | true =>
                  have hle' := hle st.net.clientAgg
                  simp only [hpc, St.side, if_true] at hle'
                  split at h2 <;> simp only [Except.ok.injEq] at h2
                  · rw [h2] at hle'; simp only [] at hle'; omega
                  · rename_i hcs'
                    rw [h2] at hcs'; simp only [] at hcs'; omega
                | false =>
                  have hle' := hle st.net.serverAgg
                  simp only [hpc, St.side, Bool.false_eq_true, if_false] at hle'
                  split at h2 <;> simp only [Except.ok.injEq] at h2
                  · rename_i hcs'
                    rw [h2] at hcs'; simp only [] at hcs'
                    have := peekQueueEarliestSide_le st.sq st.server.blockingUntil st.server.blockingBypassable st.now st.net.serverAgg false
                    omega
                  · rw [h2] at hle'; simp only [] at hle'; omega


theorem isEmpty_pending {sq : SimQueue} (h : sq.isEmpty = true) (c : Bool) : sq.pending c = 0 := by
  unfold SimQueue.isEmpty SimQueue.len EventQueue.len Heap.len at h
  simp only [beq_iff_eq] at h
  have key : ∀ (l : List SimEvent), l.length = 0 → l.countP wN = 0 := by
    intro l hl; rw [List.length_eq_zero_iff.1 hl]; rfl
  unfold SimQueue.pending EventQueue.pending SimQueue.side
  cases c
  · simp only [Bool.false_eq_true, if_false]
    rw [key _ (by omega), key _ (by omega), key _ (by omega)]
  · simp only [if_true]
    rw [key _ (by omega), key _ (by omega), key _ (by omega)]

/-- under the invariant, when `pick_next` returns `None` no normal packet waits in the queues -/
theorem pickNext_none_pending {π : TPar} {A : Nat} {Hn : Int} {kw J : Nat} (hJ : J ≤ durMax)
    (hb1 : π.Tm + (J : Int) - π.t0 < (durMax : Int)) (hb2 : π.S < durMax) (hW : TB.W < durMax) :
    ∀ (fuel : Nat) (st : St σ), PI π A Hn kw J st → ∀ st', pickNext fuel st = some (.ok (none, st')) →
      ∀ c, st.sq.pending c = 0 := by
  intro fuel
  induction fuel with
  | zero => intro st _ st' h; simp [pickNext] at h
  | succ n ih =>
    intro st h st' hpn c
    unfold pickNext at hpn
    obtain ⟨p, hd⟩ := pickDecide_ok st
    rw [hd] at hpn
    cases p with
    | nothing =>
      obtain ⟨qid, qc, hq⟩ := pickDecide_nothing hd
      exact isEmpty_pending (peekQueue_durMax_empty h hb1 hb2 hW hq) c
    | agg =>
      simp only [] at hpn
      cases hag : pickAgg st with
      | error f0 => simp [hag] at hpn
      | ok st1 =>
        simp only [hag] at hpn
        obtain ⟨hp1, _, _, hsq⟩ := (pickAgg_ti h hJ).2 st1 hag
        rw [← hsq]
        exact ih st1 hp1 st' hpn c
    | blockExp b cl =>
      simp only [] at hpn
      cases hbe : pickBlockExp st b cl with
      | error f0 => simp [hbe] at hpn
      | ok pr => simp [hbe] at hpn
    | queue q qid cl =>
      simp only [] at hpn
      cases hqe : pickQueue st q qid cl with
      | error f0 => simp [hqe] at hpn
      | ok pr => simp [hqe] at hpn
    | timer i =>
      simp only [] at hpn
      cases hte : pickTimer st i with
      | error f0 => simp [hte] at hpn
      | ok st1 =>
        simp only [hte] at hpn
        obtain ⟨hp1, _, _⟩ := (pickTimer_ti (i := i) h).2 st1 hte
        rw [← (pickTimer_conserve h.wf hte).2 c]
        exact ih st1 hp1 st' hpn c
    | action s =>
      simp only [] at hpn
      cases hte : pickAction st s with
      | error f0 => simp [hte] at hpn
      | ok st1 =>
        simp only [hte] at hpn
        obtain ⟨hp1, _, _⟩ := (pickAction_ti (s := s) h).2 st1 hte
        rw [← (pickAction_conserve h.wf hte).2 c]
        exact ih st1 hp1 st' hpn c

end

section
variable {σ : Type} (ρ : Oracle σ)

/-- an iteration that ends the run with "queue empty" is a `pick_next` that returned `None` -/
theorem step_none_pick {st : St σ} (h : step ρ st = .ok none) :
    ∃ st', pickNext (pickMeasure st + 1) st = some (.ok (none, st')) := by
  unfold step at h
  rw [bind_ok_iff] at h
  obtain ⟨⟨next, st1⟩, hp, h2⟩ := h
  have hp' : pickNext (pickMeasure st + 1) st = some (.ok (next, st1)) := by
    cases hpn : pickNext (pickMeasure st + 1) st with
    | none => simp [hpn] at hp
    | some x => simp [hpn] at hp; rw [hp]
  cases next with
  | none => exact ⟨st1, hp'⟩
  | some next =>
    exfalso
    simp only [] at h2
    split at h2
    · cases h2
    · rw [bind_ok_iff] at h2
      obtain ⟨⟨na, sq, net⟩, _, h3⟩ := h2
      rw [bind_ok_iff] at h3
      obtain ⟨⟨acts, st2⟩, _, h4⟩ := h3
      simp only [pure, Except.pure, Except.ok.injEq] at h4
      cases h4

/-- **Under the guard of `C19_total`, a run that ends because `pick_next` returned `None` has
    drained its queues**: no normal packet waits in the final state. -/
theorem loop_LI_drained {N d T : Nat} {t0 : Int} (args : Args) (hcap : CappedAt args N)
    (ht0 : -(d : Int) ≤ t0) (hg : (N + 2) * TB.span N T d ≤ durMax) :
    ∀ (fuel : Nat) (st : St σ) (iters cnt : Nat), LI N d T t0 iters st → iters < N →
    (args.maxSimIterations = N ∨ cnt = iters) →
    (loop ρ args fuel st iters cnt).stop = .queueEmpty →
    ∀ stf, (loop ρ args fuel st iters cnt).final = some stf → ∀ c, stf.sq.pending c = 0 := by
  intro fuel
  induction fuel with
  | zero => intro st iters cnt _ _ _ h; simp [loop] at h
  | succ n ih =>
    intro st iters cnt hli hlt hrel h stf hfin c
    have hst := step_LI ρ hli hlt ht0 hg
    cases hs : step ρ st with
    | error f0 => simp [loop, hs] at h
    | ok o =>
      cases o with
      | none =>
        simp only [loop, hs, Option.some.injEq] at hfin
        subst hfin
        obtain ⟨st', hpn⟩ := step_none_pick ρ hs
        have hN : 0 < N := by omega
        have hsp : TB.span N T d = T + d + TB.aggK * d + N * (TB.aggD N + TB.aggD N) + N * TB.stepZ N d := rfl
        have l2 : iters * (TB.aggD N + TB.aggD N) ≤ N * (TB.aggD N + TB.aggD N) :=
          Nat.mul_le_mul_right _ (by omega)
        have l3 : TB.stepZ N d ≤ N * TB.stepZ N d := Nat.le_mul_of_pos_left _ hN
        have l4 : 2 * TB.span N T d ≤ (N + 2) * TB.span N T d := Nat.mul_le_mul_right _ (by omega)
        have hdm : 0 < durMax := by decide
        have hSW : (mkPar N d T t0).S + TB.W = TB.stepZ N d := mkPar_S N d T t0
        refine pickNext_none_pending (π := mkPar N d T t0) (J := iters * (TB.aggD N + TB.aggD N)) ?_ ?_ ?_ ?_
          (pickMeasure st + 1) st hli.1 st' hpn c
        · omega
        · show ((T : Nat) : Int) + ((iters * (TB.aggD N + TB.aggD N) : Nat) : Int) - t0 < (durMax : Int)
          omega
        · omega
        · omega
      | some p =>
        obtain ⟨r, st'⟩ := p
        rw [loop_succ_some ρ args n st st' iters cnt r hs] at h hfin
        cases hstop : stopCheck args st' iters (bump args r cnt) with
        | some s =>
          simp only [hstop] at h
          subst h
          unfold stopCheck at hstop
          repeat (first | cases hstop | split at hstop)
        | none =>
          simp only [hstop] at h hfin
          have hnext : iters + 1 < N ∧ (args.maxSimIterations = N ∨ bump args r cnt = iters + 1) := by
            unfold stopCheck at hstop
            split at hstop
            · cases hstop
            · rename_i hnt
              split at hstop
              · cases hstop
              · rename_i hni
                rcases hrel with hrel | hrel
                · rw [hrel] at hni
                  simp only [Bool.and_eq_true, decide_eq_true_eq, not_and, Nat.not_le] at hni
                  exact ⟨hni (by omega), Or.inl hrel⟩
                · rcases hcap with hcap | ⟨hc1, hc2, hc3⟩
                  · rw [hcap] at hni
                    simp only [Bool.and_eq_true, decide_eq_true_eq, not_and, Nat.not_le] at hni
                    exact ⟨hni (by omega), Or.inl hcap⟩
                  · have hb : bump args r cnt = cnt + 1 := by
                      unfold bump Args.keep Sim.keep
                      simp [hc2, hc3]
                    rw [hc1, hb] at hnt
                    simp only [Bool.and_eq_true, decide_eq_true_eq, not_and, Nat.not_le] at hnt
                    have := hnt (by omega)
                    exact ⟨by omega, Or.inr (by omega)⟩
          exact ih st' (iters + 1) (bump args r cnt) (hst.2 r st' hs) hnext.1 hnext.2 h stf hfin c

/-- the same for `sim_advanced`, from the hypotheses of `C19_total` on the inputs -/
theorem simAdvanced_drained (budget : Nat) {mc ms : List Machine} (hmc : MachinesOK mc) (hms : MachinesOK ms)
    {sq : SimQueue} {a : Args} {N d T : Nat} (hq : QueueOK sq (-(d : Int)) (T : Int))
    (hfrac : Validate.fracOK a.fpClient = true ∧ Validate.fracOK a.fbClient = true ∧
      Validate.fracOK a.fpServer = true ∧ Validate.fracOK a.fbServer = true)
    (hd : a.network.delay = d) (hpps : 1 ≤ effPps a.network sq.maxPps)
    (hcap : CappedAt a N) (hN : 0 < N) (hg : (N + 2) * TB.span N T d ≤ durMax) (orc : σ)
    (hstop : (simAdvanced ρ budget mc ms sq a orc).stop = .queueEmpty) :
    ∀ stf, (simAdvanced ρ budget mc ms sq a orc).final = some stf → ∀ c, stf.sq.pending c = 0 := by
  obtain ⟨t0, st, hi, ht0, hli⟩ := initState_LI ρ hmc hms (N := N) hq hfrac hd hpps orc
  unfold simAdvanced at hstop ⊢
  simp only [hi, finish_stop] at hstop ⊢
  intro stf hfin
  exact loop_LI_drained ρ a hcap ht0 hg (loopFuel a budget) st 0 0 hli hN (Or.inr rfl) hstop stf (finish_final hfin)

end

section
variable {σ : Type} (ρ : Oracle σ)

/-- a trace without a normal line makes `sq.get_first_time().unwrap()` panic -/
theorem no_normal_line_panics (budget : Nat) (c : CaseIn) (r : RunIn) (orc : σ) (h : normalLines c.trace = []) :
    (modelOut ρ budget c r orc).stop.isPanic = true := by
  unfold modelOut
  rw [parseTraceRaw_eq, h]
  rfl

end

/-! ### vocabulary of the C15 monitor -/

theorem normalSentCount_map_ev (l : List StepRec) (c : Bool) :
    C15.normalSentCount (l.map (·.ev)) c = l.countP (sentNormal c) := by
  induction l with
  | nil => rfl
  | cons r rs ih =>
    simp only [C15.normalSentCount, List.map_cons, List.filter_cons, List.countP_cons] at ih ⊢
    by_cases h : sentNormal c r = true
    · have h' : (r.ev.client == c && r.ev.event == TEvent.tunnelSent && !r.ev.containsPadding) = true := by
        simpa [sentNormal, isTS] using h
      simp [h, h', ih]
    · have h1 : sentNormal c r = false := by simpa using h
      have h' : (r.ev.client == c && r.ev.event == TEvent.tunnelSent && !r.ev.containsPadding) = false := by
        simpa [sentNormal, isTS] using h1
      simp [h1, h', ih]

theorem share_eq_shareOf (trace : List TraceLine) (c : Bool) : C15.share trace c = shareOf trace c := by
  simp [C15.share, shareOf, List.countP_eq_length_filter]

theorem filter_keep_unfiltered (a : Args) (hoc : a.onlyClientEvents = false) (hon : a.onlyNetworkActivity = false)
    (l : List StepRec) : l.filter a.keep = l := by
  apply List.filter_eq_self.2
  intro r _
  simp [Args.keep, keep, hoc, hon]

/-! ### the effective arguments of a run -/

theorem effArgs_delay (r : RunIn) (d : Nat) : (r.effArgs d).network.delay = d := by
  unfold RunIn.effArgs; split <;> rfl

/-! ### vocabulary of the C19 monitor -/

/-- a `sim` call has no `only_client_events` parameter: a run through `sim` is recorded with
    that flag off -/
def RunIn.WF (r : RunIn) : Prop := r.adv = false → r.args.onlyClientEvents = false

instance (r : RunIn) : Decidable r.WF := by unfold RunIn.WF; infer_instance

theorem sameBase_of_sameArgs {a b : RunIn} (h : C19.sameArgs a b = true) : C19.sameBase a b = true := by
  unfold C19.sameArgs at h
  simp only [Bool.and_eq_true] at h
  exact h.1.1.1

/-- runs with the same arguments (in the monitor's sense) have the same effective arguments -/
theorem effArgs_eq_of_sameArgs {a b : RunIn} (d : Nat) (h : C19.sameArgs a b = true) : a.effArgs d = b.effArgs d := by
  unfold C19.sameArgs C19.sameBase at h
  simp only [Bool.and_eq_true, beq_iff_eq] at h
  obtain ⟨⟨⟨hsb, hmtl⟩, hoc⟩, hon⟩ := h
  obtain ⟨⟨⟨⟨⟨⟨⟨⟨⟨hadv, hpps⟩, _⟩, _⟩, hmsi⟩, hcont⟩, h1⟩, h2⟩, h3⟩, h4⟩ := hsb
  unfold RunIn.effArgs
  rw [hadv, hpps]
  cases hx : a.args
  cases hy : b.args
  rw [hx] at hmsi hcont h1 h2 h3 h4 hmtl hoc hon
  rw [hy] at hmsi hcont h1 h2 h3 h4 hmtl hoc hon
  simp only [] at hmsi hcont h1 h2 h3 h4 hmtl hoc hon
  subst hmsi hcont h1 h2 h3 h4 hmtl hoc hon
  rfl

theorem uncapped_eq_self (a : Args) (h : a.maxTraceLength = 0) : a.uncapped = a := by
  cases a
  simp only [Args.uncapped] at h ⊢
  subst h
  rfl

/-- for a reference run `u` (no cap, no filters) and a run `f` with the same base, the effective
    arguments of `u` are those of `f` without cap and filters, and the monitor reads `f`'s own
    cap and filters -/
theorem effArgs_reference {u f : RunIn} (d : Nat) (href : C19.isReference u = true) (hsb : C19.sameBase u f = true)
    (hwf : f.WF) :
    u.effArgs d = (f.effArgs d).uncapped.unfiltered ∧
    (f.effArgs d).maxTraceLength = f.args.maxTraceLength ∧
    (f.effArgs d).onlyClientEvents = f.args.onlyClientEvents ∧
    (f.effArgs d).onlyNetworkActivity = f.args.onlyNetworkActivity := by
  unfold C19.sameBase at hsb
  unfold C19.isReference at href
  simp only [Bool.and_eq_true, beq_iff_eq, Bool.not_eq_true'] at hsb href
  obtain ⟨⟨⟨⟨⟨⟨⟨⟨⟨hadv, hpps⟩, _⟩, _⟩, hmsi⟩, hcont⟩, h1⟩, h2⟩, h3⟩, h4⟩ := hsb
  obtain ⟨⟨hmtl, hoc⟩, hon⟩ := href
  unfold RunIn.WF at hwf
  unfold RunIn.effArgs
  rw [hadv, hpps]
  cases hx : u.args
  cases hy : f.args
  rw [hx] at hmsi hcont h1 h2 h3 h4 hmtl hoc hon
  rw [hy] at hmsi hcont h1 h2 h3 h4 hwf
  simp only [] at hmsi hcont h1 h2 h3 h4 hmtl hoc hon hwf
  subst hmsi hcont h1 h2 h3 h4 hmtl hoc hon
  cases hfa : f.adv with
  | true => exact ⟨rfl, rfl, rfl, rfl⟩
  | false =>
    have := hwf hfa
    subst this
    exact ⟨rfl, rfl, rfl, rfl⟩

theorem project_shift (on oc : Bool) (cap : Nat) (t0 : Int) (l : List SimEvent) :
    C19.project on oc cap (l.map (SimEvent.shift t0)) = (C19.project on oc cap l).map (SimEvent.shift t0) := by
  unfold C19.project takeCap
  rw [filter_keepObs_shift]
  split
  · rw [List.map_take]
  · rfl

section
variable {σ : Type} (ρ : Oracle σ)

/-- without a length cap the stop reason does not depend on the filters -/
theorem simAdvanced_stop_unfiltered (budget : Nat) (mc ms : List Machine) (sq : SimQueue) (a : Args) (orc : σ)
    (hcap : a.maxTraceLength = 0) :
    (simAdvanced ρ budget mc ms sq a orc).stop = (simAdvanced ρ budget mc ms sq a.unfiltered orc).stop := by
  unfold simAdvanced
  rw [initState_unfiltered]
  cases hi : initState ρ mc ms sq a orc with
  | error f => rfl
  | ok st =>
    simp only []
    have hfu : loopFuel a.unfiltered budget = loopFuel a budget := rfl
    rw [hfu, finish_stop, finish_stop,
      loop_filter_indep ρ a a.unfiltered (sameButFilters_unfiltered a) hcap (loopFuel a budget) st 0 0 0]

end

/-! ### concrete cases for the non-vacuity examples and witnesses

The returned trace of the model goes through `List.mergeSort` (well-founded recursion, which the
kernel does not unfold); `modelObs_of_stream` restates the observation through the iteration
stream, which the kernel evaluates. -/

theorem modelObs_of_stream {σ : Type} (ρ : Oracle σ) (budget : Nat) (c : CaseIn) (r : RunIn) (orc : σ)
    (hp : (modelOut ρ budget c r orc).stop.isPanic = false) :
    modelObs ρ budget c r orc =
      ⟨r, .ok ((((modelOut ρ budget c r orc).stream.filter (r.effArgs c.delay).keep).map (·.ev)).map
        (SimEvent.shift (obsT0 c)))⟩ := by
  have h1 : modelObs ρ budget c r orc = ⟨r, (modelOut ρ budget c r orc).res (obsT0 c)⟩ := rfl
  rw [h1, res_ok hp]
  have := simAdvanced_trace_stream ρ budget c.mc c.ms (parseTraceRaw c.trace c.delay) (r.effArgs c.delay) orc
    (isPanic_false_no_fault hp)
  unfold modelOut
  rw [this]

/-- the observation, computed through the stream (kernel-evaluable form of `modelObs`) -/
def modelObsS {σ : Type} (ρ : Oracle σ) (budget : Nat) (c : CaseIn) (r : RunIn) (orc : σ) : ObsRun :=
  ⟨r, if (modelOut ρ budget c r orc).stop.isPanic then (modelOut ρ budget c r orc).res (obsT0 c)
      else .ok ((((modelOut ρ budget c r orc).stream.filter (r.effArgs c.delay).keep).map (·.ev)).map
        (SimEvent.shift (obsT0 c)))⟩

theorem modelObs_eq_S {σ : Type} (ρ : Oracle σ) (budget : Nat) (c : CaseIn) (r : RunIn) (orc : σ) :
    modelObs ρ budget c r orc = modelObsS ρ budget c r orc := by
  unfold modelObsS
  cases hp : (modelOut ρ budget c r orc).stop.isPanic with
  | true => rfl
  | false => exact modelObs_of_stream ρ budget c r orc hp

/-- 1000.0 as f64 -/
def demoDist : Dist := { dist := .uniform 0x408F400000000000 0x408F400000000000, start := 0, max := 0 }

/-- a one-state padding machine: every NormalSent (re-)enters state 0, which schedules a padding -/
def demoPad : Machine :=
  { allowedPaddingPackets := 1000, maxPaddingFrac := 0, allowedBlockedMicrosec := 0, maxBlockingFrac := 0,
    states := [
      { action := some (.sendPadding false false demoDist none), counterA := none, counterB := none,
        transitions := [none, none, none, some [{ target := 0, prob := 0x3f800000 }], none,
                        none, none, none, none, none, none, none, none] }] }

/-- the padding machine on the client, a four-line raw trace (one padding line), 10 ms delay -/
def demoCase : CaseIn :=
  { mc := [demoPad], ms := [], trace := [⟨0, .s⟩, ⟨1000000, .r⟩, ⟨2000000, .sp⟩, ⟨3000000, .sn⟩], delay := 10000000 }

/-- the same trace without machines -/
def demoCase0 : CaseIn := { demoCase with mc := [] }

def demoArgs (mtl msi : Nat) (cont oc on : Bool) : Args :=
  { network := ⟨0, none⟩, maxTraceLength := mtl, maxSimIterations := msi, continueAfterAllNormal := cont,
    onlyClientEvents := oc, onlyNetworkActivity := on, fpClient := 0, fbClient := 0, fpServer := 0, fbServer := 0 }

/-- a `sim_advanced` run with seed 1 -/
def demoRun (name : String) (mtl msi : Nat) (cont oc on : Bool) : RunIn :=
  { name := name, adv := true, pps := none, args := demoArgs mtl msi cont oc on, seed := some 1 }

/-- a `sim` run (thread RNG: no seed) -/
def demoSim (mtl : Nat) (on : Bool) : RunIn :=
  { name := "sim", adv := false, pps := none, args := demoArgs mtl 0 false false on, seed := none }

/-- the runs of a generated case, in small: main run, its repetition, the uncapped unfiltered
    reference, the three filter settings, a capped filtered run, and a run through `sim` -/
def demoRuns : List (RunIn × Unit) :=
  [(demoRun "main" 5 40 true true false, ()), (demoRun "det" 5 40 true true false, ()),
   (demoRun "u" 0 40 true false false, ()), (demoRun "f10" 0 40 true true false, ()),
   (demoRun "f01" 0 40 true false true, ()), (demoRun "f11" 0 40 true true true, ()),
   (demoRun "cap" 3 40 true false true, ()), (demoSim 7 false, ())]

/-- an oracle whose sampler answers with its state, read as the bits of an f64 -/
def natOracle : Oracle Nat := ⟨fun s => (0, s), fun _ s => (UInt64.ofNat s, s)⟩

/-- the padding machine with a timeout that is really sampled: Uniform(1000.0, 3000.0) µs -/
def widePad : Machine :=
  { demoPad with states := [
      { action := some (.sendPadding false false
          { dist := .uniform 0x408F400000000000 0x40A7700000000000, start := 0, max := 0 } none),
        counterA := none, counterB := none,
        transitions := [none, none, none, some [{ target := 0, prob := 0x3f800000 }], none,
                        none, none, none, none, none, none, none, none] }] }

def wideCase : CaseIn := { demoCase with mc := [widePad] }

/-- a trace that is NOT in time order: packets at 0, 1, 2, … ns, each followed by one 10 s, 20 s, …
    later; `parse_trace`'s 100 ms window is flushed by every late packet, so it counts at most two
    packets and derives a limit of 20 per second, although `k` packets fall into the first second -/
def zigzag (k : Nat) : List RawLine := (List.range k).flatMap fun i => [⟨i, .s⟩, ⟨(i + 1) * 10000000000, .s⟩]

def zigzagCase : CaseIn := { mc := [], ms := [], trace := zigzag 22, delay := 1000 }

/-- two client packets, the second one exactly `Duration::MAX` after the first; no machines, delay 0 -/
def farCase : CaseIn := { mc := [], ms := [], trace := [⟨0, .s⟩, ⟨durMax, .s⟩], delay := 0 }

end Mb.Sim

/-! ### what the C15 and C19 monitors compare -/

namespace Mb.C15
open Mb Mb.Sim Mb.SimSpec

/-- the monitor returns no failure on an observed trace that is ordered and — when unfiltered —
    satisfies the causality and the conservation predicate with the monitor's own "complete" flag -/
theorem monitor_none_of {c : CaseIn} {r : ObsRun} {tr : List SimEvent} (hres : r.res = .ok tr)
    (h1 : sortedByTime tr = true)
    (h2 : (r.run.effArgs c.delay).onlyClientEvents = false → (r.run.effArgs c.delay).onlyNetworkActivity = false →
      causality c.delay tr = true ∧
      conservation (normalLines c.trace)
        (((r.run.effArgs c.delay).maxTraceLength == 0 || decide (tr.length < (r.run.effArgs c.delay).maxTraceLength))
          && ((r.run.effArgs c.delay).maxSimIterations == 0 || decide (tr.length < (r.run.effArgs c.delay).maxSimIterations)))
        tr = true) :
    C15.monitor c r = none := by
  unfold C15.monitor
  rw [hres]
  simp only [h1, Bool.not_true, Bool.false_eq_true, if_false]
  cases hoc : (r.run.effArgs c.delay).onlyClientEvents with
  | true => simp
  | false =>
    cases hon : (r.run.effArgs c.delay).onlyNetworkActivity with
    | true => simp
    | false =>
      obtain ⟨hc, hk⟩ := h2 hoc hon
      simp only [Bool.or_self, Bool.false_eq_true, if_false, hc, Bool.not_true, hk]

end Mb.C15

namespace Mb.C19
open Mb Mb.Sim Mb.SimSpec

/-- the "panic" entries of the monitor's output: one per run whose result is a panic -/
def panicMsgs (c : CaseIn) (runs : List ObsRun) : List String :=
  runs.filterMap fun r => match r.res with
    | .panic cls => some s!"run {r.run.name}: panic {cls} (pps={r.run.pps} delay={c.delay})"
    | .ok _ => none

theorem append3_nil (A B C D : List String) (hB : B = []) (hC : C = []) (hD : D = []) : A ++ B ++ C ++ D = A := by
  subst hB hC hD; simp

/-- what the monitor compares: if every returned trace respects its bounds, runs with the same
    arguments have the same result, and every capped / filtered run with the base of an
    uncapped unfiltered reference run returns the projection of the reference trace, the monitor
    reports the panics and nothing else -/
theorem monitor_eq_panics_of (c : CaseIn) (runs : List ObsRun)
    (hb : ∀ r ∈ runs, ∀ tr, r.res = .ok tr → boundsOK (r.run.effArgs c.delay) tr = true)
    (hd : ∀ r ∈ runs, ∀ r' ∈ runs, sameArgs r.run r'.run = true → r.res = r'.res)
    (hp : ∀ u ∈ runs, ∀ f ∈ runs, isReference u.run = true → isReference f.run = false →
      sameBase u.run f.run = true → ∀ ut ft, u.res = .ok ut → f.res = .ok ft →
      ft = project f.run.args.onlyNetworkActivity f.run.args.onlyClientEvents f.run.args.maxTraceLength ut) :
    C19.monitor c runs = panicMsgs c runs := by
  unfold C19.monitor panicMsgs
  simp only []
  apply append3_nil
  · rw [List.filterMap_eq_nil_iff]
    intro r hr
    cases hres : r.res with
    | panic cls => rfl
    | ok tr => simp only [hb r hr tr hres, if_true]
  · rw [List.flatMap_eq_nil_iff]
    rintro ⟨r, i⟩ hri
    simp only []
    rw [List.filterMap_eq_nil_iff]
    intro r' hr'
    have hr : r ∈ runs := List.fst_mem_of_mem_zipIdx hri
    have hr'' : r' ∈ runs := List.mem_of_mem_drop hr'
    cases hsa : sameArgs r.run r'.run with
    | false => simp
    | true => simp [hd r hr r' hr'' hsa]
  · rw [List.flatMap_eq_nil_iff]
    intro u hu
    cases href : isReference u.run with
    | false => simp
    | true =>
      simp only [Bool.not_true, Bool.false_eq_true, if_false]
      cases hures : u.res with
      | panic cls => rfl
      | ok ut =>
        simp only []
        rw [List.filterMap_eq_nil_iff]
        intro f hf
        cases hfr : isReference f.run with
        | true => simp
        | false =>
          cases hsb : sameBase u.run f.run with
          | false => simp
          | true =>
            simp only [Bool.false_or, Bool.not_true, Bool.false_eq_true, if_false]
            cases hfres : f.res with
            | panic cls => rfl
            | ok ft =>
              simp only []
              rw [hp u hu f hf href hfr hsb ut ft hures hfres]
              simp

end Mb.C19
