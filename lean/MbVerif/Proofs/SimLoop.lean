/-
  Lemmas about one iteration (`step`) and the main loop of the simulator model: the clock is
  monotone, every recorded event is stamped with the clock, the network-activity flag is a
  function of the event, and the stream does not depend on the output filters.
-/
import MbVerif.Proofs.SimBasic
import MbVerif.Spec.SimCommon

namespace Mb.Sim
open Mb Mb.SimSpec

section
variable {σ : Type} (ρ : Oracle σ)

theorem map_ok_iff {ε α β : Type} (x : Except ε α) (f : α → β) (b : β) :
    x.map f = .ok b ↔ ∃ a, x = .ok a ∧ f a = b := by
  cases x with
  | error e => simp [Except.map]
  | ok a => simp [Except.map]

/-- the network-activity flag returned by `sim_network_stack` is a function of the event -/
theorem simNetworkStack_flag {next : SimEvent} {sq sq' : SimQueue} {byp : Bool} {net net' : Bottleneck}
    {now : Int} {na : Bool} (h : simNetworkStack next sq byp net now = .ok (na, sq', net')) :
    na = isNetwork next := by
  unfold simNetworkStack at h
  unfold isNetwork
  split at h
  · rename_i he; cases h; simp [he]
  · rename_i m he
    rw [map_ok_iff] at h
    obtain ⟨a, _, h2⟩ := h
    cases h2; simp [he]
  · rename_i he
    rw [map_ok_iff] at h
    obtain ⟨a, _, h2⟩ := h
    cases h2; simp [he]
  · rename_i he
    split at h <;> (cases h; simp [he])
  · rename_i h1 h2 h3 h4
    cases h
    cases hev : next.event <;> simp_all

theorem triggerUpdate_now {st st' : St σ} {next : SimEvent} {acts : List TAction}
    (h : triggerUpdate ρ st next = .ok (acts, st')) : st'.now = st.now := by
  unfold triggerUpdate at h
  simp only [] at h
  split at h
  · cases h
  · rw [bind_ok_iff] at h
    obtain ⟨⟨sd, sq⟩, _, h2⟩ := h
    cases h2; simp

/-- one iteration: the recorded event carries the new clock value, the clock does not go back,
    and the network flag is determined by the event -/
theorem step_spec {st st' : St σ} {r : StepRec} (h : step ρ st = .ok (some (r, st'))) :
    st'.now = r.ev.time ∧ st.now ≤ st'.now ∧ r.net = isNetwork r.ev := by
  unfold step at h
  rw [bind_ok_iff] at h
  obtain ⟨⟨next, st1⟩, hp, h2⟩ := h
  have hp' : pickNext (pickMeasure st + 1) st = some (.ok (next, st1)) := by
    cases hpn : pickNext (pickMeasure st + 1) st with
    | none => simp [hpn] at hp
    | some x => simp [hpn] at hp; rw [hp]
  have hn := pickNext_now _ _ _ _ hp'
  cases next with
  | none => simp [pure, Except.pure] at h2
  | some next =>
    simp only [] at h2
    split at h2
    · cases h2
    · rename_i hlt
      rw [bind_ok_iff] at h2
      obtain ⟨⟨na, sq, net⟩, hs, h3⟩ := h2
      rw [bind_ok_iff] at h3
      obtain ⟨⟨acts, st2⟩, ht, h4⟩ := h3
      simp only [pure, Except.pure, Except.ok.injEq, Option.some.injEq, Prod.mk.injEq] at h4
      obtain ⟨hr, hst⟩ := h4
      subst hr; subst hst
      have h5 := triggerUpdate_now ρ ht
      have hfl := simNetworkStack_flag hs
      simp at h5
      have hlt' : ¬ next.time < st1.now := hlt
      refine ⟨?_, ?_, hfl⟩
      · rw [h5]; show (if st1.now < next.time then next.time else st1.now) = next.time
        split <;> omega
      · rw [h5, ← hn]; split <;> omega

end
end Mb.Sim

namespace Mb.Sim
open Mb Mb.SimSpec

section
variable {σ : Type} (ρ : Oracle σ)

/-- unfolding of one round of the main loop when the iteration produced an event -/
theorem loop_succ_some (args : Args) (fuel : Nat) (st st' : St σ) (iters cnt : Nat) (r : StepRec)
    (h : step ρ st = .ok (some (r, st'))) :
    loop ρ args (fuel + 1) st iters cnt =
      (match stopCheck args st' iters (bump args r cnt) with
       | some s => ⟨[r], s, some st'⟩
       | none =>
         let o := loop ρ args fuel st' (iters + 1) (bump args r cnt)
         { o with stream := r :: o.stream }) := by
  simp only [loop, h]
  rfl

/-- every recorded event is at or after the clock at loop entry, carries the network flag of its
    event, and the stream is ordered by time -/
theorem loop_stream_sorted (args : Args) : ∀ (fuel : Nat) (st : St σ) (iters cnt : Nat),
    (∀ r ∈ (loop ρ args fuel st iters cnt).stream, st.now ≤ r.ev.time ∧ r.net = isNetwork r.ev) ∧
    (loop ρ args fuel st iters cnt).stream.Pairwise (fun a b => a.ev.time ≤ b.ev.time) := by
  intro fuel
  induction fuel with
  | zero => intro st iters cnt; simp [loop]
  | succ n ih =>
    intro st iters cnt
    cases hs : step ρ st with
    | error f => simp [loop, hs]
    | ok o =>
      cases o with
      | none => simp [loop, hs]
      | some p =>
        obtain ⟨r, st'⟩ := p
        have hsp := step_spec ρ hs
        rw [loop_succ_some ρ args n st st' iters cnt r hs]
        cases hsc : stopCheck args st' iters (bump args r cnt) with
        | some s =>
          simp only []
          constructor
          · intro r' hr'
            simp at hr'
            subst hr'
            exact ⟨by omega, hsp.2.2⟩
          · simp
        | none =>
          simp only []
          have ih' := ih st' (iters + 1) (bump args r cnt)
          constructor
          · intro r' hr'
            simp only [List.mem_cons] at hr'
            rcases hr' with hr' | hr'
            · subst hr'; exact ⟨by omega, hsp.2.2⟩
            · have := ih'.1 r' hr'
              exact ⟨by omega, this.2⟩
          · simp only [List.pairwise_cons]
            refine ⟨?_, ih'.2⟩
            intro r' hr'
            have := ih'.1 r' hr'
            omega

/-- two argument records that differ at most in the output filters -/
def sameButFilters (a b : Args) : Prop :=
  a.network = b.network ∧ a.maxTraceLength = b.maxTraceLength ∧ a.maxSimIterations = b.maxSimIterations ∧
  a.continueAfterAllNormal = b.continueAfterAllNormal ∧ a.fpClient = b.fpClient ∧ a.fbClient = b.fbClient ∧
  a.fpServer = b.fpServer ∧ a.fbServer = b.fbServer

theorem stopCheck_nocap (a b : Args) (hab : sameButFilters a b) (hcap : a.maxTraceLength = 0) (st : St σ)
    (iters c c' : Nat) : stopCheck a st iters c = stopCheck b st iters c' := by
  obtain ⟨_, h2, h3, h4, _⟩ := hab
  have hcapb : b.maxTraceLength = 0 := by rw [← h2]; exact hcap
  simp [stopCheck, hcap, hcapb, ← h3, ← h4]

/-- without a length cap, the loop does not depend on the filter settings at all -/
theorem loop_filter_indep (a b : Args) (hab : sameButFilters a b) (hcap : a.maxTraceLength = 0) :
    ∀ (fuel : Nat) (st : St σ) (iters cnt cnt' : Nat),
      loop ρ a fuel st iters cnt = loop ρ b fuel st iters cnt' := by
  intro fuel
  induction fuel with
  | zero => intro st iters cnt cnt'; simp [loop]
  | succ n ih =>
    intro st iters cnt cnt'
    cases hs : step ρ st with
    | error f => simp [loop, hs]
    | ok o =>
      cases o with
      | none => simp [loop, hs]
      | some p =>
        obtain ⟨r, st'⟩ := p
        rw [loop_succ_some ρ a n st st' iters cnt r hs, loop_succ_some ρ b n st st' iters cnt' r hs]
        rw [stopCheck_nocap a b hab hcap st' iters (bump a r cnt) (bump b r cnt')]
        rw [ih st' (iters + 1) (bump a r cnt) (bump b r cnt')]

/-- with a length cap, at most `cap` kept events are recorded -/
theorem loop_cap (a : Args) (hcap : a.maxTraceLength > 0) : ∀ (fuel : Nat) (st : St σ) (iters cnt : Nat),
    cnt < a.maxTraceLength →
    ((loop ρ a fuel st iters cnt).stream.filter a.keep).length + cnt ≤ a.maxTraceLength := by
  intro fuel
  induction fuel with
  | zero => intro st iters cnt h; simp [loop]; omega
  | succ n ih =>
    intro st iters cnt hc
    cases hs : step ρ st with
    | error f => simp [loop, hs]; omega
    | ok o =>
      cases o with
      | none => simp [loop, hs]; omega
      | some p =>
        obtain ⟨r, st'⟩ := p
        rw [loop_succ_some ρ a n st st' iters cnt r hs]
        by_cases hk : a.keep r = true
        · have hb : bump a r cnt = cnt + 1 := by simp [bump, hk]
          rw [hb]
          cases hsc : stopCheck a st' iters (cnt + 1) with
          | some s => simp [hk]; omega
          | none =>
            simp only []
            have hlt : cnt + 1 < a.maxTraceLength := by
              unfold stopCheck at hsc
              split at hsc
              · cases hsc
              · rename_i h1
                simp at h1
                have := h1 hcap
                omega
            have := ih st' (iters + 1) (cnt + 1) hlt
            simp [hk]
            omega
        · have hk' : a.keep r = false := by simpa using hk
          have hb : bump a r cnt = cnt := by simp [bump, hk']
          rw [hb]
          cases hsc : stopCheck a st' iters cnt with
          | some s => simp [hk']; omega
          | none =>
            simp only []
            have := ih st' (iters + 1) cnt hc
            simp [hk']
            omega

/-- with an iteration cap, enough fuel is `max_sim_iterations - iters`: the loop never runs out
    of fuel and performs at most `max_sim_iterations` iterations -/
theorem loop_iters (a : Args) (hm : a.maxSimIterations > 0) : ∀ (fuel : Nat) (st : St σ) (iters cnt : Nat),
    iters < a.maxSimIterations → a.maxSimIterations ≤ fuel + iters →
    (loop ρ a fuel st iters cnt).stream.length + iters ≤ a.maxSimIterations ∧
    (loop ρ a fuel st iters cnt).stop ≠ .loopFuel := by
  intro fuel
  induction fuel with
  | zero => intro st iters cnt h1 h2; omega
  | succ n ih =>
    intro st iters cnt h1 h2
    cases hs : step ρ st with
    | error f => simp [loop, hs]; omega
    | ok o =>
      cases o with
      | none => simp [loop, hs]; omega
      | some p =>
        obtain ⟨r, st'⟩ := p
        rw [loop_succ_some ρ a n st st' iters cnt r hs]
        cases hsc : stopCheck a st' iters (bump a r cnt) with
        | some s =>
          simp only [List.length_cons, List.length_nil]
          refine ⟨by omega, ?_⟩
          unfold stopCheck at hsc
          split at hsc
          · cases hsc; simp
          · split at hsc
            · cases hsc; simp
            · split at hsc
              · cases hsc; simp
              · cases hsc
        | none =>
          simp only []
          have hlt : iters + 1 < a.maxSimIterations := by
            unfold stopCheck at hsc
            split at hsc
            · cases hsc
            · split at hsc
              · cases hsc
              · rename_i h3
                simp at h3
                have := h3 hm
                omega
          have := ih st' (iters + 1) (bump a r cnt) hlt (by omega)
          simp only [List.length_cons]
          exact ⟨by omega, this.2⟩

end
end Mb.Sim
