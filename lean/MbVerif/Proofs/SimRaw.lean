/-
  The raw-line parser (all six direction tokens of `parse_trace`) is the parser of the normal
  lines: padding lines `sp` / `rp` change nothing — they queue no event and enter no window.
-/
import MbVerif.Sim.Main

namespace Mb.Sim
open Mb

theorem parseLine_fold (delay : Nat) : ∀ (raw : List RawLine) (acc : ParseAcc),
    raw.foldl (parseLine delay) acc =
      (normalLines raw).foldl (fun (acc : ParseAcc) (l : TraceLine) =>
        let ts : Int := l.1
        if l.2 then
          let sq := acc.sq.pushSim ⟨.normalSent, ts, true, false, false, false⟩
          let (m, w) := acc.sentW.add ts
          { acc with sq := sq, sentW := w, sentMax := if m > acc.sentMax then m else acc.sentMax }
        else
          let sq := acc.sq.pushSim ⟨.normalSent, ts - delay, false, false, false, false⟩
          let (m, w) := acc.recvW.add ts
          { acc with sq := sq, recvW := w, recvMax := if m > acc.recvMax then m else acc.recvMax }) acc := by
  intro raw
  induction raw with
  | nil => intro acc; rfl
  | cons l r ih =>
    intro acc
    simp only [List.foldl_cons, normalLines]
    cases hd : l.dir <;> simp only [parseLine, hd, List.foldl_cons] <;> rw [ih] <;> rfl

/-- **Padding lines of the input are ignored**: parsing a raw trace is parsing its normal lines. -/
theorem parseTraceRaw_eq (raw : List RawLine) (delay : Nat) :
    parseTraceRaw raw delay = parseTrace (normalLines raw) delay := by
  unfold parseTraceRaw parseTrace
  simp only []
  rw [parseLine_fold]

end Mb.Sim
