/-
  Conservation of normal packets: per side, (normal packets still waiting in the queues) +
  (normal TunnelSent events processed so far) is constant along a run.
-/
import MbVerif.Proofs.SimQueueCount
import MbVerif.Proofs.SimNet
import MbVerif.Proofs.SimSlots

namespace Mb.Sim
open Mb

structure SimQueue.WF (s : SimQueue) : Prop where
  client : s.client.WF true
  server : s.server.WF false

def SimQueue.pending (s : SimQueue) (c : Bool) : Nat := (s.side c).pending

/-- the contribution of event `e` to side `c`'s waiting normal packets -/
def wSide (c : Bool) (e : SimEvent) : Nat := b2n (e.client == c && wN e)

theorem SimQueue.empty_wf : SimQueue.empty.WF := ⟨EventQueue.empty_wf _, EventQueue.empty_wf _⟩

theorem pushSim_spec (s : SimQueue) (e : SimEvent) (hw : s.WF) :
    (s.pushSim e).WF ∧ ∀ c, (s.pushSim e).pending c = s.pending c + wSide c e := by
  unfold SimQueue.pushSim SimQueue.setSide SimQueue.side
  cases hc : e.client with
  | true =>
    have := EventQueue.push_spec s.client true e hw.client hc
    simp only [if_true]
    refine ⟨⟨this.1, hw.server⟩, ?_⟩
    intro c
    cases c <;> simp [SimQueue.pending, SimQueue.side, wSide, hc, b2n, this.2]
  | false =>
    have := EventQueue.push_spec s.server false e hw.server hc
    simp only [Bool.false_eq_true, if_false]
    refine ⟨⟨hw.client, this.1⟩, ?_⟩
    intro c
    cases c <;> simp [SimQueue.pending, SimQueue.side, wSide, hc, b2n, this.2]

theorem simQueue_pop_spec (s s' : SimQueue) (qi : Queue) (cl : Bool) (ds : Nat) (e : SimEvent) (hw : s.WF)
    (h : s.pop qi cl ds = .ok (some (e, s'))) :
    s'.WF ∧ (∀ c, s.pending c = s'.pending c + wSide c e) ∧ e.client = cl ∧
    (qi = .internal → isTS e = false ∧ isNS e = false) ∧ (qi = .base → isNS e = true) ∧
    (qi = .blocking → isTS e = true ∧ e.bypass = false) ∧ (qi = .bypassable → isTS e = true ∧ e.bypass = true) := by
  unfold SimQueue.pop at h
  rw [bind_ok_iff] at h
  obtain ⟨r, hr, h2⟩ := h
  simp only [pure, Except.pure] at h2
  cases r with
  | none => simp at h2
  | some pr =>
    obtain ⟨x, q'⟩ := pr
    simp at h2
    obtain ⟨hx, hs⟩ := h2
    subst hx; subst hs
    cases cl with
    | true =>
      have := EventQueue.pop_spec s.client q' true qi ds x hw.client (by simpa [SimQueue.side] using hr)
      obtain ⟨h1, h2, h3, h4⟩ := this
      refine ⟨⟨by simpa [SimQueue.setSide] using h1, by simpa [SimQueue.setSide] using hw.server⟩, ?_, h3, h4⟩
      intro c
      cases c <;> simp [SimQueue.pending, SimQueue.side, SimQueue.setSide, wSide, h3, b2n, h2]
    | false =>
      have := EventQueue.pop_spec s.server q' false qi ds x hw.server (by simpa [SimQueue.side] using hr)
      obtain ⟨h1, h2, h3, h4⟩ := this
      refine ⟨⟨by simpa [SimQueue.setSide] using hw.client, by simpa [SimQueue.setSide] using h1⟩, ?_, h3, h4⟩
      intro c
      cases c <;> simp [SimQueue.pending, SimQueue.side, SimQueue.setSide, wSide, h3, b2n, h2]

section
variable {σ : Type}

/-- events that are not packets on their way out contribute nothing -/
theorem wSide_nonpacket (c : Bool) (e : SimEvent) (h1 : isNS e = false) (h2 : isTS e = false) : wSide c e = 0 := by
  simp [wSide, wN, h1, h2, b2n]

theorem pickQueue_conserve {st st' : St σ} {q : Nat} {qid : Queue} {cl : Bool} {e : SimEvent} (hw : st.sq.WF)
    (h : pickQueue st q qid cl = .ok (e, st')) :
    st'.sq.WF ∧ ∀ c, st.sq.pending c = st'.sq.pending c + wSide c e := by
  unfold pickQueue at h
  rw [bind_ok_iff] at h
  obtain ⟨r, hr, h2⟩ := h
  cases r with
  | none => simp at h2
  | some pr =>
    obtain ⟨tmp, sq⟩ := pr
    simp only [pure, Except.pure] at h2
    cases h2
    have := simQueue_pop_spec st.sq sq qid cl _ tmp hw hr
    refine ⟨this.1, ?_⟩
    intro c
    rw [this.2.1 c]
    congr 1
    simp only [wSide, wN, isNS, isTS]
    split <;> rfl

theorem doInternalTimer_ev {st st' : St σ} {t : Int} {e : SimEvent} (h : doInternalTimer st t = .ok (e, st')) :
    st'.sq = st.sq ∧ isNS e = false ∧ isTS e = false := by
  unfold doInternalTimer at h
  split at h
  · cases h; exact ⟨rfl, rfl, rfl⟩
  · split at h
    · cases h; exact ⟨rfl, rfl, rfl⟩
    · cases h

theorem doScheduledAction_ev {st st' : St σ} {t : Int} {e : SimEvent} (h : doScheduledAction st t = .ok (e, st')) :
    st'.sq = st.sq ∧ isNS e = false ∧ isTS e = false := by
  unfold doScheduledAction at h
  simp only [] at h
  split at h
  · cases h
  · split at h
    · cases h
    · cases h
    · cases h; exact ⟨by simp, rfl, rfl⟩
    · cases h; exact ⟨by simp, rfl, rfl⟩

theorem pickTimer_conserve {st st' : St σ} {i : Nat} (hw : st.sq.WF) (h : pickTimer st i = .ok st') :
    st'.sq.WF ∧ ∀ c, st'.sq.pending c = st.sq.pending c := by
  unfold pickTimer at h
  rw [bind_ok_iff] at h
  obtain ⟨⟨ev, st1⟩, h1, h2⟩ := h
  simp only [pure, Except.pure] at h2
  cases h2
  obtain ⟨hsq, hn, ht⟩ := doInternalTimer_ev h1
  have := pushSim_spec st1.sq ev (by rw [hsq]; exact hw)
  refine ⟨this.1, ?_⟩
  intro c
  rw [this.2 c, wSide_nonpacket c ev hn ht, hsq]; rfl

theorem pickAction_conserve {st st' : St σ} {s : Nat} (hw : st.sq.WF) (h : pickAction st s = .ok st') :
    st'.sq.WF ∧ ∀ c, st'.sq.pending c = st.sq.pending c := by
  unfold pickAction at h
  rw [bind_ok_iff] at h
  obtain ⟨⟨ev, st1⟩, h1, h2⟩ := h
  simp only [pure, Except.pure] at h2
  cases h2
  obtain ⟨hsq, hn, ht⟩ := doScheduledAction_ev h1
  have := pushSim_spec st1.sq ev (by rw [hsq]; exact hw)
  refine ⟨this.1, ?_⟩
  intro c
  rw [this.2 c, wSide_nonpacket c ev hn ht, hsq]; rfl

theorem pickAgg_sq {st st' : St σ} (h : pickAgg st = .ok st') : st'.sq = st.sq := by
  unfold pickAgg at h
  split at h
  · cases h
  rw [bind_ok_iff] at h
  obtain ⟨net, _, h2⟩ := h
  simp only [pure, Except.pure] at h2
  cases h2; rfl

theorem pickBlockExp_sq {st st' : St σ} {b : Nat} {c : Bool} {e : SimEvent} (h : pickBlockExp st b c = .ok (e, st')) :
    st'.sq = st.sq := by
  unfold pickBlockExp at h
  rw [bind_ok_iff] at h
  obtain ⟨net, _, h2⟩ := h
  simp only [pure, Except.pure] at h2
  cases h2; simp

/-- `pick_next`: the returned event left the queues; nothing else of weight moved -/
theorem pickNext_conserve : ∀ (fuel : Nat) (st st' : St σ) (e : SimEvent), st.sq.WF →
    pickNext fuel st = some (.ok (some e, st')) →
    st'.sq.WF ∧ ∀ c, st.sq.pending c = st'.sq.pending c + wSide c e := by
  intro fuel
  induction fuel with
  | zero => intro st st' e _ h; simp [pickNext] at h
  | succ n ih =>
    intro st st' e hw h
    unfold pickNext at h
    split at h
    · cases h
    · cases h
    · split at h
      · cases h
      · rename_i st1 h1
        have hsq := pickAgg_sq h1
        have := ih st1 st' e (by rw [hsq]; exact hw) h
        rw [hsq] at this; exact this
    · split at h
      · cases h
      · rename_i e1 st1 h1
        cases h
        have hsq := pickBlockExp_sq h1
        have hev := pickBlockExp_ev h1
        rw [hsq]
        refine ⟨hw, ?_⟩
        intro c
        rw [hev]
        simp [wSide, wN, isNS, isTS, b2n]
    · split at h
      · cases h
      · rename_i e1 st1 h1
        cases h
        exact pickQueue_conserve hw h1
    · split at h
      · cases h
      · rename_i st1 h1
        have hc := pickTimer_conserve hw h1
        have := ih st1 st' e hc.1 h
        refine ⟨this.1, ?_⟩
        intro c
        rw [← hc.2 c]; exact this.2 c
    · split at h
      · cases h
      · rename_i st1 h1
        have hc := pickAction_conserve hw h1
        have := ih st1 st' e hc.1 h
        refine ⟨this.1, ?_⟩
        intro c
        rw [← hc.2 c]; exact this.2 c

/-- the network stack: a NormalSent turns into a waiting normal TunnelSent; nothing else of
    weight is created; a bypass-replace pops and re-queues the same packet -/
theorem simNetworkStack_conserve {next : SimEvent} {sq sq' : SimQueue} {byp : Bool} {net net' : Bottleneck}
    {now : Int} {na : Bool} (hw : sq.WF) (h : simNetworkStack next sq byp net now = .ok (na, sq', net')) :
    sq'.WF ∧ ∀ c, sq'.pending c = sq.pending c + b2n (next.client == c && isNS next) := by
  unfold simNetworkStack at h
  split at h
  · -- NormalSent
    rename_i hev
    cases h
    have := pushSim_spec sq ⟨.tunnelSent, next.time, next.client, false, false, false⟩ hw
    refine ⟨this.1, ?_⟩
    intro c
    rw [this.2 c]
    simp [wSide, wN, isNS, isTS, hev]
  · -- PaddingSent
    rename_i m hev
    rw [map_ok_iff] at h
    obtain ⟨⟨sq1, net1⟩, h1, h2⟩ := h
    cases h2
    have hns : isNS next = false := by simp [isNS, hev]
    rcases netPaddingSent_spec h1 with hq | hq | ⟨qid, entry, sq2, hpop, hq⟩
    · rw [hq]
      have := pushSim_spec sq ⟨.tunnelSent, next.time, next.client, true, next.bypass, next.replace⟩ hw
      refine ⟨this.1, ?_⟩
      intro c
      rw [this.2 c]
      simp [wSide, wN, isNS, isTS, hev, b2n]
    · rw [hq]
      exact ⟨hw, by intro c; simp [hns, b2n]⟩
    · rw [hq]
      have hpop' : ∃ qi ds, sq.pop qi next.client ds = .ok (some (entry, sq2)) := by
        unfold SimQueue.popBlocking at hpop
        split at hpop
        · exact ⟨_, _, hpop⟩
        · exact ⟨_, _, hpop⟩
      obtain ⟨qi, ds, hp⟩ := hpop'
      have hps := simQueue_pop_spec sq sq2 qi next.client ds entry hw hp
      have := pushSim_spec sq2 { entry with bypass := true, replace := false } hps.1
      refine ⟨this.1, ?_⟩
      intro c
      rw [this.2 c, hps.2.1 c]
      have : wSide c { entry with bypass := true, replace := false } = wSide c entry := rfl
      rw [this]
      simp [hns, b2n]
  · -- TunnelSent
    rename_i hev
    rw [map_ok_iff] at h
    obtain ⟨⟨sq1, net1⟩, h1, h2⟩ := h
    cases h2
    obtain ⟨t, hq, _⟩ := netTunnelSent_spec h1
    rw [hq]
    have := pushSim_spec sq ⟨.tunnelRecv, t, !next.client, next.containsPadding, false, false⟩ hw
    refine ⟨this.1, ?_⟩
    intro c
    rw [this.2 c]
    simp [wSide, wN, isNS, isTS, hev, b2n]
  · -- TunnelRecv
    rename_i hev
    split at h
    · cases h
      have := pushSim_spec sq ⟨.paddingRecv, next.time, next.client, true, false, false⟩ hw
      refine ⟨this.1, ?_⟩
      intro c
      rw [this.2 c]
      simp [wSide, wN, isNS, isTS, hev, b2n]
    · cases h
      have := pushSim_spec sq ⟨.normalRecv, next.time, next.client, false, false, false⟩ hw
      refine ⟨this.1, ?_⟩
      intro c
      rw [this.2 c]
      simp [wSide, wN, isNS, isTS, hev, b2n]
  · rename_i h1 h2 h3 h4
    cases h
    refine ⟨hw, ?_⟩
    intro c
    have : isNS next = false := by
      simp only [isNS]
      cases hev : next.event <;> simp_all
    simp [this, b2n]

theorem applyAction_conserve {sd sd' : Side σ} {sq sq' : SimQueue} {now : Int} {cl : Bool} {a : TAction}
    (hw : sq.WF) (h : applyAction sd sq now cl a = .ok (sd', sq')) :
    sq'.WF ∧ ∀ c, sq'.pending c = sq.pending c := by
  rcases C18_aux h with hq | hq
  · rw [hq]; exact ⟨hw, fun _ => rfl⟩
  · obtain ⟨m, hq⟩ := hq
    rw [hq]
    have := pushSim_spec sq ⟨.timerBegin m, now, cl, false, false, false⟩ hw
    refine ⟨this.1, ?_⟩
    intro c
    rw [this.2 c]
    simp [wSide, wN, isNS, isTS, b2n]

theorem applyActions_conserve : ∀ (acts : List TAction) (sd sd' : Side σ) (sq sq' : SimQueue) (now : Int) (cl : Bool),
    sq.WF → applyActions sd sq now cl acts = .ok (sd', sq') → sq'.WF ∧ ∀ c, sq'.pending c = sq.pending c := by
  intro acts
  induction acts with
  | nil =>
    intro sd sd' sq sq' now cl hw h
    simp only [applyActions] at h
    cases h
    exact ⟨hw, fun _ => rfl⟩
  | cons a r ih =>
    intro sd sd' sq sq' now cl hw h
    simp only [applyActions] at h
    rw [bind_ok_iff] at h
    obtain ⟨⟨sd1, sq1⟩, h1, h2⟩ := h
    have hc := applyAction_conserve hw h1
    have := ih sd1 sd' sq1 sq' now cl hc.1 h2
    exact ⟨this.1, fun c => by rw [this.2 c, hc.2 c]⟩

end
end Mb.Sim

namespace Mb.Sim
open Mb

/-- is this stream entry a normal packet leaving side `c`? -/
def sentNormal (c : Bool) (r : StepRec) : Bool := r.ev.client == c && isTS r.ev && !r.ev.containsPadding

theorem wSide_split (c : Bool) (e : SimEvent) :
    wSide c e = b2n (e.client == c && isNS e) + b2n (e.client == c && isTS e && !e.containsPadding) := by
  unfold wSide wN isNS isTS b2n
  cases hc : (e.client == c) <;> cases hev : e.event <;> cases hp : e.containsPadding <;> simp

section
variable {σ : Type} (ρ : Oracle σ)

theorem triggerUpdate_conserve {st st' : St σ} {next : SimEvent} {acts : List TAction} (hw : st.sq.WF)
    (h : triggerUpdate ρ st next = .ok (acts, st')) : st'.sq.WF ∧ ∀ c, st'.sq.pending c = st.sq.pending c := by
  unfold triggerUpdate at h
  simp only [] at h
  split at h
  · cases h
  · rw [bind_ok_iff] at h
    obtain ⟨⟨sd, sq⟩, h1, h2⟩ := h
    simp only [pure, Except.pure] at h2
    cases h2
    exact applyActions_conserve _ _ _ _ _ _ _ hw h1

/-- one iteration of the main loop conserves normal packets -/
theorem step_conserve {st st' : St σ} {r : StepRec} (hw : st.sq.WF) (h : step ρ st = .ok (some (r, st'))) :
    st'.sq.WF ∧ ∀ c, st.sq.pending c = st'.sq.pending c + b2n (sentNormal c r) := by
  unfold step at h
  rw [bind_ok_iff] at h
  obtain ⟨⟨next, st1⟩, hp, h2⟩ := h
  have hp' : pickNext (pickMeasure st + 1) st = some (.ok (next, st1)) := by
    cases hpn : pickNext (pickMeasure st + 1) st with
    | none => simp [hpn] at hp
    | some x => simp [hpn] at hp; rw [hp]
  cases next with
  | none => simp [pure, Except.pure] at h2
  | some next =>
    have hc1 := pickNext_conserve _ _ _ _ hw hp'
    simp only [] at h2
    split at h2
    · cases h2
    · rw [bind_ok_iff] at h2
      obtain ⟨⟨na, sq, net⟩, hs, h3⟩ := h2
      rw [bind_ok_iff] at h3
      obtain ⟨⟨acts, st2⟩, ht, h4⟩ := h3
      simp only [pure, Except.pure, Except.ok.injEq, Option.some.injEq, Prod.mk.injEq] at h4
      obtain ⟨hr, hst⟩ := h4
      subst hr; subst hst
      have hc2 := simNetworkStack_conserve (by simpa using hc1.1) hs
      have hc3 := triggerUpdate_conserve ρ (st := { st1 with now := _, sq := sq, net := net }) (by simpa using hc2.1) ht
      refine ⟨hc3.1, ?_⟩
      intro c
      have e1 := hc1.2 c
      have e2 := hc2.2 c
      have e3 := hc3.2 c
      simp only [] at e2 e3
      rw [wSide_split] at e1
      simp only [sentNormal]
      omega

/-- **Conservation along the loop**: what is processed never exceeds what was waiting, and when
    the loop ends with a final state the difference is what still waits -/
theorem loop_conserve (args : Args) : ∀ (fuel : Nat) (st : St σ) (iters cnt : Nat), st.sq.WF →
    (∀ c, (loop ρ args fuel st iters cnt).stream.countP (sentNormal c) ≤ st.sq.pending c) ∧
    (∀ stf, (loop ρ args fuel st iters cnt).final = some stf →
      stf.sq.WF ∧ ∀ c, st.sq.pending c = stf.sq.pending c + (loop ρ args fuel st iters cnt).stream.countP (sentNormal c)) := by
  intro fuel
  induction fuel with
  | zero =>
    intro st iters cnt hw
    simp only [loop]
    exact ⟨fun c => by simp, fun stf h => by cases h; exact ⟨hw, fun c => by simp⟩⟩
  | succ n ih =>
    intro st iters cnt hw
    cases hs : step ρ st with
    | error f =>
      simp only [loop, hs]
      exact ⟨fun c => by simp, fun stf h => by cases h⟩
    | ok o =>
      cases o with
      | none =>
        simp only [loop, hs]
        exact ⟨fun c => by simp, fun stf h => by cases h; exact ⟨hw, fun c => by simp⟩⟩
      | some p =>
        obtain ⟨r, st'⟩ := p
        have hsc := step_conserve ρ hw hs
        rw [loop_succ_some ρ args n st st' iters cnt r hs]
        cases hstop : stopCheck args st' iters (bump args r cnt) with
        | some s =>
          simp only []
          constructor
          · intro c
            have := hsc.2 c
            simp only [List.countP_cons, List.countP_nil]
            unfold b2n at this
            split at this <;> simp_all <;> omega
          · intro stf h
            cases h
            refine ⟨hsc.1, ?_⟩
            intro c
            have := hsc.2 c
            simp only [List.countP_cons, List.countP_nil]
            unfold b2n at this
            split at this <;> simp_all
        | none =>
          simp only []
          have ih' := ih st' (iters + 1) (bump args r cnt) hsc.1
          constructor
          · intro c
            have h1 := hsc.2 c
            have h2 := ih'.1 c
            simp only [List.countP_cons]
            unfold b2n at h1
            split at h1 <;> simp_all <;> omega
          · intro stf h
            have h3 := ih'.2 stf h
            refine ⟨h3.1, ?_⟩
            intro c
            have h1 := hsc.2 c
            have h2 := h3.2 c
            simp only [List.countP_cons]
            unfold b2n at h1
            split at h1 <;> simp_all <;> omega

end

/-! ### the parsed trace -/

/-- number of lines of the trace in direction `c` (`true` = sent by the client) -/
def shareOf (trace : List TraceLine) (c : Bool) : Nat := trace.countP (fun l => l.2 == c)

theorem parseTrace_fold_spec (delay : Nat) : ∀ (trace : List TraceLine) (acc : ParseAcc), acc.sq.WF →
    let acc' := trace.foldl (fun (acc : ParseAcc) (l : TraceLine) =>
      let ts : Int := l.1
      if l.2 then
        let sq := acc.sq.pushSim ⟨.normalSent, ts, true, false, false, false⟩
        let (m, w) := acc.sentW.add ts
        { acc with sq := sq, sentW := w, sentMax := if m > acc.sentMax then m else acc.sentMax }
      else
        let sq := acc.sq.pushSim ⟨.normalSent, ts - delay, false, false, false, false⟩
        let (m, w) := acc.recvW.add ts
        { acc with sq := sq, recvW := w, recvMax := if m > acc.recvMax then m else acc.recvMax }) acc
    acc'.sq.WF ∧ ∀ c, acc'.sq.pending c = acc.sq.pending c + shareOf trace c := by
  intro trace
  induction trace with
  | nil => intro acc hw; exact ⟨hw, fun c => by simp [shareOf]⟩
  | cons l ls ih =>
    intro acc hw
    simp only [List.foldl_cons]
    by_cases hl : l.2 = true
    · simp only [hl, if_true]
      have hp := pushSim_spec acc.sq ⟨.normalSent, (l.1 : Int), true, false, false, false⟩ hw
      have := ih { acc with sq := acc.sq.pushSim ⟨.normalSent, (l.1 : Int), true, false, false, false⟩,
                            sentW := (acc.sentW.add l.1).2,
                            sentMax := if (acc.sentW.add l.1).1 > acc.sentMax then (acc.sentW.add l.1).1 else acc.sentMax } hp.1
      refine ⟨this.1, ?_⟩
      intro c
      rw [this.2 c]
      simp only []
      rw [hp.2 c]
      cases c <;> simp [shareOf, List.countP_cons, hl, wSide, wN, isNS, b2n] <;> omega
    · have hl' : l.2 = false := by simpa using hl
      simp only [hl', Bool.false_eq_true, if_false]
      have hp := pushSim_spec acc.sq ⟨.normalSent, (l.1 : Int) - delay, false, false, false, false⟩ hw
      have := ih { acc with sq := acc.sq.pushSim ⟨.normalSent, (l.1 : Int) - delay, false, false, false, false⟩,
                            recvW := (acc.recvW.add l.1).2,
                            recvMax := if (acc.recvW.add l.1).1 > acc.recvMax then (acc.recvW.add l.1).1 else acc.recvMax } hp.1
      refine ⟨this.1, ?_⟩
      intro c
      rw [this.2 c]
      simp only []
      rw [hp.2 c]
      cases c <;> simp [shareOf, List.countP_cons, hl', wSide, wN, isNS, b2n] <;> omega

/-- the queue `parse_trace` builds is well-formed and holds exactly each side's share -/
theorem parseTrace_spec (trace : List TraceLine) (delay : Nat) :
    (parseTrace trace delay).WF ∧ ∀ c, (parseTrace trace delay).pending c = shareOf trace c := by
  unfold parseTrace
  simp only []
  have := parseTrace_fold_spec delay trace ⟨SimQueue.empty, ⟨Gen.SIM_PARSE_WINDOW_NS, []⟩, ⟨Gen.SIM_PARSE_WINDOW_NS, []⟩, 0, 0⟩ SimQueue.empty_wf
  simp only [] at this
  constructor
  · exact ⟨this.1.client, this.1.server⟩
  · intro c
    have h := this.2 c
    have h0 : SimQueue.empty.pending c = 0 := by cases c <;> rfl
    rw [h0, Nat.zero_add] at h
    rw [← h]
    cases c <;> rfl

/-- when all normal packets are processed nothing waits any more -/
theorem noNormal_pending_zero (sq : SimQueue) (hw : sq.WF) (h : sq.noNormalPackets = true) (c : Bool) :
    sq.pending c = 0 := by
  have key : ∀ (q : EventQueue) (c' : Bool), q.WF c' → q.noNormalPackets = true → q.pending = 0 := by
    intro q c' hq hn
    unfold EventQueue.noNormalPackets at hn
    simp only [Bool.and_eq_true] at hn
    obtain ⟨⟨⟨hb, hbl⟩, hby⟩, _⟩ := hn
    have h1 : q.base.data = [] := by
      simpa [Heap.isEmpty] using hb
    have h2 : q.blocking.data.countP wN = 0 := by
      rw [List.countP_eq_zero]
      intro x hx
      have hall := List.all_eq_true.1 hbl x hx
      have hts : isTS x = true := by
        have := List.countP_eq_zero.1 hq.blocking x hx
        simp at this; exact this.1.1
      simp [isTS] at hts
      simp [hts] at hall
    have h3 : q.bypassable.data.countP wN = 0 := by
      rw [List.countP_eq_zero]
      intro x hx
      have hall := List.all_eq_true.1 hby x hx
      have hts : isTS x = true := by
        have := List.countP_eq_zero.1 hq.bypassable x hx
        simp at this; exact this.1.1
      simp [isTS] at hts
      simp [hts] at hall
    simp [EventQueue.pending, h1, h2, h3]
  unfold SimQueue.noNormalPackets at h
  simp only [Bool.and_eq_true] at h
  cases c
  · exact key sq.server false hw.server h.2
  · exact key sq.client true hw.client h.1

end Mb.Sim

namespace Mb.Sim
open Mb

section
variable {σ : Type} (ρ : Oracle σ)

theorem initState_sq {mc ms : List Machine} {sq : SimQueue} {a : Args} {orc : σ} {st : St σ}
    (h : initState ρ mc ms sq a orc = .ok st) : st.sq = sq := by
  unfold initState at h
  rw [bind_ok_iff] at h
  obtain ⟨t0, _, h⟩ := h
  rw [bind_ok_iff] at h
  obtain ⟨⟨c, o1⟩, _, h⟩ := h
  rw [bind_ok_iff] at h
  obtain ⟨⟨s, o2⟩, _, h⟩ := h
  rw [bind_ok_iff] at h
  obtain ⟨net, _, h⟩ := h
  simp only [pure, Except.pure] at h
  cases h; rfl

/-- a loop that stops because all normal packets were processed ends in a state whose queues
    hold no normal packet -/
theorem loop_noNormal (args : Args) : ∀ (fuel : Nat) (st : St σ) (iters cnt : Nat),
    (loop ρ args fuel st iters cnt).stop = .noNormal →
    ∃ stf, (loop ρ args fuel st iters cnt).final = some stf ∧ stf.sq.noNormalPackets = true := by
  intro fuel
  induction fuel with
  | zero => intro st iters cnt h; simp [loop] at h
  | succ n ih =>
    intro st iters cnt h
    cases hs : step ρ st with
    | error f => simp [loop, hs] at h
    | ok o =>
      cases o with
      | none => simp [loop, hs] at h
      | some p =>
        obtain ⟨r, st'⟩ := p
        rw [loop_succ_some ρ args n st st' iters cnt r hs] at h ⊢
        cases hstop : stopCheck args st' iters (bump args r cnt) with
        | some s =>
          simp only [hstop] at h
          simp only []
          subst h
          refine ⟨st', rfl, ?_⟩
          unfold stopCheck at hstop
          split at hstop
          · cases hstop
          · split at hstop
            · cases hstop
            · split at hstop
              · rename_i hc
                simp only [Bool.and_eq_true] at hc
                exact hc.2
              · cases hstop
        | none =>
          simp only [hstop] at h
          simp only []
          exact ih st' (iters + 1) (bump args r cnt) h

end
end Mb.Sim
