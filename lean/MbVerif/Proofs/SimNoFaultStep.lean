/-
  Totality of the simulator with machines, part 3: the clock update, `sim_network_stack` and
  `trigger_update` under the time-bound invariant.
-/
import MbVerif.Proofs.SimNoFaultPick
import MbVerif.Proofs.C04
import MbVerif.Proofs.DurBound

namespace Mb.Sim
open Mb

section
variable {σ : Type}

/-! ### moving the clock -/

/-- the clock moves forward to `now'`: every bound relative to the clock stays true; the age
    bound of the queued TunnelSents grows by `W`, because while one is queued the clock moves by
    at most `W` -/
theorem PI.advance {π : TPar} {A A' : Nat} {Hn Hn' : Int} {kw J : Nat} {st : St σ} (h : PI π A Hn kw J st)
    {now' : Int} (hge : st.now ≤ now') (hle : now' ≤ Hn')
    (hblk : st.sq.hasBlocked → now' ≤ st.now + (TB.W : Int)) (hA : A + TB.W ≤ A') :
    PI π A' Hn' kw J { st with now := now' } := by
  refine ⟨?_, hle, h.wf, h.ord, ?_, ?_, h.net⟩
  · have := h.t0le
    show π.t0 ≤ now'
    omega
  · intro c qi e he
    have hq := h.q c qi e he
    cases qi with
    | base => exact hq
    | internal =>
      have h1 : e.time ≤ st.now + (π.S : Int) := hq
      show e.time ≤ now' + (π.S : Int)
      omega
    | blocking =>
      have hb := hblk ⟨c, .blocking, e, Or.inl rfl, he⟩
      have h1 : e.time ≤ st.now ∧ st.now ≤ e.time + (A : Int) := hq
      show e.time ≤ now' ∧ now' ≤ e.time + (A' : Int)
      constructor <;> omega
    | bypassable =>
      have hb := hblk ⟨c, .bypassable, e, Or.inr rfl, he⟩
      have h1 : e.time ≤ st.now ∧ st.now ≤ e.time + (A : Int) := hq
      show e.time ≤ now' ∧ now' ≤ e.time + (A' : Int)
      constructor <;> omega
  · intro c
    have hs := h.sides c
    refine ⟨fun a ha => ⟨?_, (hs.acts a ha).2⟩, fun t ht => ?_, fun u hu => ?_⟩
    · have := (hs.acts a ha).1
      show a.time ≤ now' + (TB.TO : Int)
      omega
    · have := hs.tims t ht
      show t ≤ now' + (TB.TD : Int)
      omega
    · have := hs.untl u hu
      show u ≤ now' + (TB.W : Int)
      omega

end

/-! ### the bottleneck -/

theorem prune_length_le (w : Nat) (now : Int) : ∀ l : List Int, (WindowCount.prune w now l).length ≤ l.length := by
  intro l
  induction l with
  | nil => simp [WindowCount.prune]
  | cons o r ih =>
    simp only [WindowCount.prune]
    split
    · simp only [List.length_cons]; omega
    · exact Nat.le_refl _

theorem windowAdd_le (w : WindowCount) (now : Int) :
    (w.add now).1 ≤ w.stamps.length + 1 ∧ (w.add now).2.stamps.length ≤ w.stamps.length + 1 := by
  unfold WindowCount.add
  simp only []
  have := prune_length_le w.window now (w.stamps ++ [now])
  simp only [List.length_append, List.length_singleton] at this
  exact ⟨this, this⟩

theorem ppsDelay_ti {π : TPar} {kw J : Nat} {b : Bottleneck} (h : NetI π kw J b) (hok : π.OK)
    {count n : Nat} (hc : count ≤ n) (hP : π.pw * n ≤ π.P) :
    ∃ dl, b.ppsDelay count = .ok dl ∧ dl ≤ π.P := by
  unfold Bottleneck.ppsDelay
  split
  · have h1 : (count - b.ppsLimit) % 2 ^ 32 ≤ n := Nat.le_trans (Nat.mod_le _ _) (by omega)
    have h2 : b.ppsAddedDelay * ((count - b.ppsLimit) % 2 ^ 32) ≤ π.P :=
      Nat.le_trans (Nat.mul_le_mul h.ppsA h1) hP
    have := hok.pd
    rw [durChk_of_le (by omega)]
    exact ⟨_, rfl, h2⟩
  · exact ⟨0, rfl, Nat.zero_le _⟩

theorem sampleResult_ti {π : TPar} {kw J : Nat} {b : Bottleneck} (h : NetI π kw J b) (hok : π.OK)
    {dl : Nat} (hdl : dl ≤ π.P) :
    ∃ r b', b.sampleResult dl = .ok (r, b') ∧ NetI π kw J b' ∧ r.1 ≤ π.P + π.d ∧ (∀ x, r.2 = some x → x ≤ π.P) := by
  unfold Bottleneck.sampleResult
  have := hok.pd
  split
  · rw [h.delay, durChk_of_le (by omega)]
    simp only [bind, Except.bind, pure, Except.pure]
    exact ⟨_, _, rfl, h.ghost _, by show dl + π.d ≤ π.P + π.d; omega, fun x hx => by cases hx; exact hdl⟩
  · simp only [pure, Except.pure]
    exact ⟨_, _, rfl, h, by show b.network.delay ≤ π.P + π.d; rw [h.delay]; omega, fun x hx => by cases hx⟩

/-- `NetworkBottleneck::sample`: no overflow; the window grows by at most one stamp; the sampled
    delay is at most the bottleneck bound plus the network delay -/
theorem sample_ti {π : TPar} {kw J : Nat} {b : Bottleneck} (h : NetI π kw J b) (hok : π.OK)
    (hP : π.pw * (kw + 1) ≤ π.P) (now : Int) (c : Bool) :
    ∃ r b', b.sample now c = .ok (r, b') ∧ NetI π (kw + 1) J b' ∧ r.1 ≤ π.P + π.d ∧ (∀ x, r.2 = some x → x ≤ π.P) := by
  unfold Bottleneck.sample
  simp only []
  cases c with
  | true =>
    simp only [if_true]
    have hw := windowAdd_le b.clientWindow now
    have hb1 : NetI π (kw + 1) J { b with clientWindow := (b.clientWindow.add now).2 } :=
      ⟨h.delay, h.ppsA, by have := h.winC; show (b.clientWindow.add now).2.stamps.length ≤ kw + 1; omega,
       by have := h.winS; show b.serverWindow.stamps.length ≤ kw + 1; omega, h.aggC, h.aggS, h.dl⟩
    obtain ⟨dl, hdl, hdlP⟩ := ppsDelay_ti hb1 hok (count := (b.clientWindow.add now).1) (n := kw + 1)
      (by have := h.winC; omega) hP
    rw [hdl]
    simp only [bind, Except.bind]
    exact sampleResult_ti hb1 hok hdlP
  | false =>
    simp only [Bool.false_eq_true, if_false]
    have hw := windowAdd_le b.serverWindow now
    have hb1 : NetI π (kw + 1) J { b with serverWindow := (b.serverWindow.add now).2 } :=
      ⟨h.delay, h.ppsA, by have := h.winC; show b.clientWindow.stamps.length ≤ kw + 1; omega,
       by have := h.winS; show (b.serverWindow.add now).2.stamps.length ≤ kw + 1; omega, h.aggC, h.aggS, h.dl⟩
    obtain ⟨dl, hdl, hdlP⟩ := ppsDelay_ti hb1 hok (count := (b.serverWindow.add now).1) (n := kw + 1)
      (by have := h.winS; omega) hP
    rw [hdl]
    simp only [bind, Except.bind]
    exact sampleResult_ti hb1 hok hdlP


/-! ### `sim_network_stack` -/

/-- a TunnelSent stamped with the clock satisfies the bound of the heap it is routed to -/
theorem qpred_ts (π : TPar) (A : Nat) (now : Int) (c pad byp rep : Bool) :
    qpred π A now c (route ⟨.tunnelSent, now, c, pad, byp, rep⟩) ⟨.tunnelSent, now, c, pad, byp, rep⟩ := by
  unfold route
  cases byp <;> simp [qpred]

theorem aggDelayOnPaddingBypassReplace_eq {sq : SimQueue} {c : Bool} {now : Int} {head : SimEvent} {ab bd : Nat}
    (h : aggDelayOnPaddingBypassReplace sq c now head ab = some bd) : bd = dsince now head.time := by
  unfold aggDelayOnPaddingBypassReplace at h
  simp only [] at h
  split at h
  · cases h
  · split at h
    · split at h
      · cases h
      · cases h; rfl
    · cases h; rfl

/-- the bypass-replace of a blocked packet: the pop succeeds, the packet is queued again with its
    old time, and the aggregate delay it causes is at most the packet's age -/
theorem replaceBypass_ti {π : TPar} {A kw J : Nat} {sq : SimQueue} {net : Bottleneck} {now : Int}
    {next queued : SimEvent} {flag : Bool} {qid : Queue}
    (hord : sq.Ord) (hq : sq.AllQ (qpred π A now)) (hn : NetI π kw J net) (hok : π.OK) (hAD : A ≤ π.D)
    (hpk : sq.peekBlocking flag next.client = (some queued, qid)) (hts : queued.event = .tunnelSent) :
    (∀ f, replaceBypass next sq qid flag net now = .error f → f.isBug = true) ∧
    (∀ sq' net', replaceBypass next sq qid flag net now = .ok (sq', net') →
      sq'.Ord ∧ sq'.AllQ (qpred π A now) ∧ NetI π kw (J + π.D) net') := by
  obtain ⟨qi, hqi, hmem, hpeek, hqid⟩ := peekBlocking_mem (sq := sq) (byp := flag) (c := next.client) (ev := queued)
    (by rw [hpk])
  rw [hpk] at hqid
  simp only [] at hqid
  subst hqid
  -- the pop is a pop of the peeked heap
  have hpopeq : ∃ ds, sq.popBlocking qi flag next.client (net.agg next.client) = sq.pop qi next.client ds := by
    unfold SimQueue.popBlocking
    cases flag with
    | false => exact ⟨_, rfl⟩
    | true =>
      have : qi = .blocking := by
        have := congrArg Prod.snd hpk
        unfold SimQueue.peekBlocking EventQueue.peekBlockingSide at this
        simpa using this.symm
      subst this
      exact ⟨0, rfl⟩
  obtain ⟨ds, hpopeq⟩ := hpopeq
  obtain ⟨e1, sq1, hpop⟩ := SimQueue.pop_someG ds hpeek
  obtain ⟨hsub, hord1, hd, hhd, hhdpk, he1⟩ := SimQueue.pop_specG hpop
  have hhdq : hd = queued := by rw [hpeek] at hhdpk; cases hhdpk; rfl
  subst hhdq
  have hne : qi ≠ .base := by rcases hqi with h | h <;> subst h <;> simp
  have hsh : qShift qi ds = 0 := by simp [qShift, hne]
  have he1t : e1.time = hd.time := by rw [he1]; simp [hsh]
  have he1e : e1.event = .tunnelSent := by rw [he1]; exact hts
  have he1c : e1.client = hd.client := by rw [he1]
  have hqp := hq next.client qi hd hhd
  have hage : hd.time ≤ now ∧ now ≤ hd.time + (A : Int) := by
    rcases hqi with h | h <;> subst h <;> exact hqp
  unfold replaceBypass
  rw [hpopeq, hpop]
  simp only [bind, Except.bind, pure, Except.pure]
  -- the aggregate delay
  have hagg : ∃ net', replaceAgg sq1 next { e1 with bypass := true, replace := false }
      { net with ghost := { net.ghost with replacedBypass := net.ghost.replacedBypass + 1 } } now = .ok net' ∧
      NetI π kw (J + π.D) net' := by
    unfold replaceAgg
    cases had : aggDelayOnPaddingBypassReplace sq1 next.client now { e1 with bypass := true, replace := false }
        (Bottleneck.agg { net with ghost := { net.ghost with replacedBypass := net.ghost.replacedBypass + 1 } } next.client) with
    | none => exact ⟨_, rfl, (hn.ghost _).mono (Nat.le_add_right _ _)⟩
    | some bd =>
      simp only []
      have hbd := aggDelayOnPaddingBypassReplace_eq had
      have : bd ≤ π.D := by
        rw [hbd]
        show dsince now e1.time ≤ π.D
        rw [he1t]
        have := dsince_le_of_le (u := now) (now := hd.time) (w := A) (by omega)
        omega
      exact pushAggregateDelay_ti (hn.ghost _) hok this _ _
  obtain ⟨net', hnet', hn'⟩ := hagg
  rw [hnet']
  simp only []
  refine ⟨fun f hf => (by cases hf), fun sq' net'' hs => ?_⟩
  simp only [Except.ok.injEq, Prod.mk.injEq] at hs
  obtain ⟨hs1, hs2⟩ := hs
  subst hs1; subst hs2
  refine ⟨SimQueue.pushSim_ord _ (hord1 hord), (hq.pop hpop).pushSim ?_, hn'⟩
  have hroute : route ({ e1 with bypass := true, replace := false } : SimEvent) = .bypassable := by
    unfold route
    simp [he1e]
  rw [hroute]
  show e1.time ≤ now ∧ now ≤ e1.time + (A : Int)
  rw [he1t]
  exact hage

/-- the PaddingSent arm -/
theorem netPaddingSent_ti {π : TPar} {A kw J : Nat} {sq : SimQueue} {net : Bottleneck} {now : Int}
    {next : SimEvent} {flag : Bool}
    (hord : sq.Ord) (hq : sq.AllQ (qpred π A now)) (hn : NetI π kw J net) (hok : π.OK) (hAD : A ≤ π.D)
    (ht : next.time = now) :
    (∀ f, netPaddingSent next sq flag net now = .error f → f.isBug = true) ∧
    (∀ sq' net', netPaddingSent next sq flag net now = .ok (sq', net') →
      sq'.Ord ∧ sq'.AllQ (qpred π A now) ∧ NetI π kw (J + π.D) net') := by
  have hqu : ∀ sq' net', (Except.ok (sq.pushSim ⟨.tunnelSent, next.time, next.client, true, next.bypass, next.replace⟩, net) :
      Except SimFault (SimQueue × Bottleneck)) = .ok (sq', net') →
      sq'.Ord ∧ sq'.AllQ (qpred π A now) ∧ NetI π kw (J + π.D) net' := by
    intro sq' net' hs
    simp only [Except.ok.injEq, Prod.mk.injEq] at hs
    obtain ⟨hs1, hs2⟩ := hs
    subst hs1; subst hs2
    refine ⟨SimQueue.pushSim_ord _ hord, hq.pushSim ?_, hn.mono (Nat.le_add_right _ _)⟩
    rw [ht]
    exact qpred_ts π A now next.client true next.bypass next.replace
  unfold netPaddingSent
  simp only []
  split
  · split
    · rename_i queued qid hpk
      split
      · rename_i hcond
        split
        · refine ⟨fun f hf => (by cases hf), fun sq' net' hs => ?_⟩
          simp only [Except.ok.injEq, Prod.mk.injEq] at hs
          obtain ⟨hs1, hs2⟩ := hs
          subst hs1; subst hs2
          exact ⟨hord, hq, (hn.ghost _).mono (Nat.le_add_right _ _)⟩
        · have hts : queued.event = .tunnelSent := by
            simp only [Bool.and_eq_true, beq_iff_eq] at hcond
            exact hcond.1.2
          exact replaceBypass_ti hord hq hn hok hAD hpk hts
      · exact ⟨fun f hf => (by cases hf), hqu⟩
    · exact ⟨fun f hf => (by cases hf), hqu⟩
  · exact ⟨fun f hf => (by cases hf), hqu⟩

theorem S_ge_Pd (π : TPar) : π.P + π.d ≤ π.S := by unfold TPar.S; omega

/-- the TunnelSent arm -/
theorem netTunnelSent_ti {π : TPar} {A kw J : Nat} {sq : SimQueue} {net : Bottleneck} {now : Int}
    {next : SimEvent}
    (hord : sq.Ord) (hq : sq.AllQ (qpred π A now)) (hn : NetI π kw J net) (hok : π.OK) (hPD : π.P ≤ π.D)
    (hP : π.pw * (kw + 1) ≤ π.P) (ht : next.time = now) :
    (∀ f, netTunnelSent next sq net now = .error f → f.isBug = true) ∧
    (∀ sq' net', netTunnelSent next sq net now = .ok (sq', net') →
      sq'.Ord ∧ sq'.AllQ (qpred π A now) ∧ NetI π (kw + 1) (J + π.D) net') := by
  obtain ⟨r, b1, hs, hn1, hr1, hr2⟩ := sample_ti hn hok hP now next.client
  unfold netTunnelSent
  rw [hs]
  simp only [bind, Except.bind, pure, Except.pure]
  have hagg : ∃ net', ppsAgg sq next b1 r.2 now = .ok net' ∧ NetI π (kw + 1) (J + π.D) net' := by
    unfold ppsAgg
    cases hr : r.2 with
    | none => exact ⟨_, rfl, hn1.mono (Nat.le_add_right _ _)⟩
    | some dl =>
      simp only []
      split
      · exact pushAggregateDelay_ti hn1 hok (Nat.le_trans (hr2 dl hr) hPD) _ _
      · exact ⟨_, rfl, hn1.mono (Nat.le_add_right _ _)⟩
  obtain ⟨net', hnet', hn'⟩ := hagg
  rw [hnet']
  simp only []
  refine ⟨fun f hf => (by cases hf), fun sq' net'' hs' => ?_⟩
  simp only [Except.ok.injEq, Prod.mk.injEq] at hs'
  obtain ⟨hs1, hs2⟩ := hs'
  subst hs1; subst hs2
  refine ⟨SimQueue.pushSim_ord _ hord, hq.pushSim ?_, hn'⟩
  have hS := S_ge_Pd π
  unfold recvFor
  split
  · show max (next.time + (r.1 : Int)) now ≤ now + (π.S : Int)
    rw [ht]
    omega
  · show next.time + (r.1 : Int) ≤ now + (π.S : Int)
    rw [ht]
    omega

/-- **`sim_network_stack` under the invariant**: no environmental fault; the queue stays ordered
    and within its bounds; at most one more unit of the aggregate-delay budget and one more
    window stamp are used -/
theorem simNetworkStack_ti {π : TPar} {A kw J : Nat} {sq : SimQueue} {net : Bottleneck} {now : Int}
    {next : SimEvent} {flag : Bool}
    (hord : sq.Ord) (hq : sq.AllQ (qpred π A now)) (hn : NetI π kw J net) (hok : π.OK) (hAD : A ≤ π.D)
    (hPD : π.P ≤ π.D) (hP : π.pw * (kw + 1) ≤ π.P) (ht : next.time = now) :
    (∀ f, simNetworkStack next sq flag net now = .error f → f.isBug = true) ∧
    (∀ na sq' net', simNetworkStack next sq flag net now = .ok (na, sq', net') →
      sq'.Ord ∧ sq'.AllQ (qpred π A now) ∧ NetI π (kw + 1) (J + π.D) net') := by
  have hn2 : NetI π (kw + 1) (J + π.D) net :=
    ⟨hn.delay, hn.ppsA, by have := hn.winC; omega, by have := hn.winS; omega,
     by have := hn.aggC; omega, by have := hn.aggS; omega, hn.dl⟩
  unfold simNetworkStack
  split
  · refine ⟨fun f hf => (by cases hf), fun na sq' net' hs => ?_⟩
    simp only [Except.ok.injEq, Prod.mk.injEq] at hs
    obtain ⟨_, hs1, hs2⟩ := hs
    subst hs1; subst hs2
    refine ⟨SimQueue.pushSim_ord _ hord, hq.pushSim ?_, hn2⟩
    rw [ht]
    exact qpred_ts π A now next.client false false false
  · have := netPaddingSent_ti (flag := flag) hord hq hn hok hAD ht
    constructor
    · intro f hf
      cases hnp : netPaddingSent next sq flag net now with
      | error f0 => rw [hnp] at hf; simp only [Except.map] at hf; cases hf; exact this.1 _ hnp
      | ok v => rw [hnp] at hf; simp [Except.map] at hf
    · intro na sq' net' hs
      cases hnp : netPaddingSent next sq flag net now with
      | error f0 => rw [hnp] at hs; simp [Except.map] at hs
      | ok v =>
        rw [hnp] at hs
        simp only [Except.map, Except.ok.injEq, Prod.mk.injEq] at hs
        obtain ⟨_, hs1, hs2⟩ := hs
        subst hs1; subst hs2
        obtain ⟨h1, h2, h3⟩ := this.2 v.1 v.2 hnp
        exact ⟨h1, h2, ⟨h3.delay, h3.ppsA, by have := h3.winC; omega, by have := h3.winS; omega, h3.aggC, h3.aggS, h3.dl⟩⟩
  · have := netTunnelSent_ti hord hq hn hok hPD hP ht
    constructor
    · intro f hf
      cases hnp : netTunnelSent next sq net now with
      | error f0 => rw [hnp] at hf; simp only [Except.map] at hf; cases hf; exact this.1 _ hnp
      | ok v => rw [hnp] at hf; simp [Except.map] at hf
    · intro na sq' net' hs
      cases hnp : netTunnelSent next sq net now with
      | error f0 => rw [hnp] at hs; simp [Except.map] at hs
      | ok v =>
        rw [hnp] at hs
        simp only [Except.map, Except.ok.injEq, Prod.mk.injEq] at hs
        obtain ⟨_, hs1, hs2⟩ := hs
        subst hs1; subst hs2
        exact this.2 v.1 v.2 hnp
  · split
    · refine ⟨fun f hf => (by cases hf), fun na sq' net' hs => ?_⟩
      simp only [Except.ok.injEq, Prod.mk.injEq] at hs
      obtain ⟨_, hs1, hs2⟩ := hs
      subst hs1; subst hs2
      refine ⟨SimQueue.pushSim_ord _ hord, hq.pushSim ?_, hn2⟩
      show next.time ≤ now + (π.S : Int)
      omega
    · refine ⟨fun f hf => (by cases hf), fun na sq' net' hs => ?_⟩
      simp only [Except.ok.injEq, Prod.mk.injEq] at hs
      obtain ⟨_, hs1, hs2⟩ := hs
      subst hs1; subst hs2
      refine ⟨SimQueue.pushSim_ord _ hord, hq.pushSim ?_, hn2⟩
      show next.time ≤ now + (π.S : Int)
      omega
  · refine ⟨fun f hf => (by cases hf), fun na sq' net' hs => ?_⟩
    simp only [Except.ok.injEq, Prod.mk.injEq] at hs
    obtain ⟨_, hs1, hs2⟩ := hs
    subst hs1; subst hs2
    exact ⟨hord, hq, hn2⟩

end Mb.Sim
