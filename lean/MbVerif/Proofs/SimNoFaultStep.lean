/-
  Totality of the simulator with machines, part 3: the clock update, `sim_network_stack` and
  `trigger_update` under the time-bound invariant.
-/
import MbVerif.Proofs.SimNoFaultPick
import MbVerif.Proofs.C04
import MbVerif.Proofs.DurBound

namespace Mb.Sim
open Mb

section
variable {σ : Type}

/-! ### moving the clock -/

/-- the clock moves forward to `now'`: every bound relative to the clock stays true; the age
    bound of the queued TunnelSents grows by `W`, because while one is queued the clock moves by
    at most `W` -/
theorem PI.advance {π : TPar} {A A' : Nat} {Hn Hn' : Int} {kw J : Nat} {st : St σ} (h : PI π A Hn kw J st)
    {now' : Int} (hge : st.now ≤ now') (hle : now' ≤ Hn')
    (hblk : st.sq.hasBlocked → now' ≤ st.now + (TB.W : Int)) (hA : A + TB.W ≤ A') :
    PI π A' Hn' kw J { st with now := now' } := by
  refine ⟨?_, hle, h.wf, h.ord, ?_, ?_, h.net⟩
  · have := h.t0le
    show π.t0 ≤ now'
    omega
  · intro c qi e he
    have hq := h.q c qi e he
    cases qi with
    | base => exact hq
    | internal =>
      have h1 : e.time ≤ st.now + (π.S : Int) := hq
      show e.time ≤ now' + (π.S : Int)
      omega
    | blocking =>
      have hb := hblk ⟨c, .blocking, e, Or.inl rfl, he⟩
      have h1 : e.time ≤ st.now ∧ st.now ≤ e.time + (A : Int) := hq
      show e.time ≤ now' ∧ now' ≤ e.time + (A' : Int)
      constructor <;> omega
    | bypassable =>
      have hb := hblk ⟨c, .bypassable, e, Or.inr rfl, he⟩
      have h1 : e.time ≤ st.now ∧ st.now ≤ e.time + (A : Int) := hq
      show e.time ≤ now' ∧ now' ≤ e.time + (A' : Int)
      constructor <;> omega
  · intro c
    have hs := h.sides c
    refine ⟨fun a ha => ⟨?_, (hs.acts a ha).2⟩, fun t ht => ?_, fun u hu => ?_⟩
    · have := (hs.acts a ha).1
      show a.time ≤ now' + (TB.TO : Int)
      omega
    · have := hs.tims t ht
      show t ≤ now' + (TB.TD : Int)
      omega
    · have := hs.untl u hu
      show u ≤ now' + (TB.W : Int)
      omega

end

/-! ### the bottleneck -/

theorem prune_length_le (w : Nat) (now : Int) : ∀ l : List Int, (WindowCount.prune w now l).length ≤ l.length := by
  intro l
  induction l with
  | nil => simp [WindowCount.prune]
  | cons o r ih =>
    simp only [WindowCount.prune]
    split
    · simp only [List.length_cons]; omega
    · exact Nat.le_refl _

theorem windowAdd_le (w : WindowCount) (now : Int) :
    (w.add now).1 ≤ w.stamps.length + 1 ∧ (w.add now).2.stamps.length ≤ w.stamps.length + 1 := by
  unfold WindowCount.add
  simp only []
  have := prune_length_le w.window now (w.stamps ++ [now])
  simp only [List.length_append, List.length_singleton] at this
  exact ⟨this, this⟩

theorem ppsDelay_ti {π : TPar} {kw J : Nat} {b : Bottleneck} (h : NetI π kw J b) (hok : π.OK)
    {count n : Nat} (hc : count ≤ n) (hP : π.pw * n ≤ π.P) :
    ∃ dl, b.ppsDelay count = .ok dl ∧ dl ≤ π.P := by
  unfold Bottleneck.ppsDelay
  split
  · have h1 : (count - b.ppsLimit) % 2 ^ 32 ≤ n := Nat.le_trans (Nat.mod_le _ _) (by omega)
    have h2 : b.ppsAddedDelay * ((count - b.ppsLimit) % 2 ^ 32) ≤ π.P :=
      Nat.le_trans (Nat.mul_le_mul h.ppsA h1) hP
    have := hok.pd
    rw [durChk_of_le (by omega)]
    exact ⟨_, rfl, h2⟩
  · exact ⟨0, rfl, Nat.zero_le _⟩

theorem sampleResult_ti {π : TPar} {kw J : Nat} {b : Bottleneck} (h : NetI π kw J b) (hok : π.OK)
    {dl : Nat} (hdl : dl ≤ π.P) :
    ∃ r b', b.sampleResult dl = .ok (r, b') ∧ NetI π kw J b' ∧ r.1 ≤ π.P + π.d ∧ (∀ x, r.2 = some x → x ≤ π.P) := by
  unfold Bottleneck.sampleResult
  have := hok.pd
  split
  · rw [h.delay, durChk_of_le (by omega)]
    simp only [bind, Except.bind, pure, Except.pure]
    exact ⟨_, _, rfl, h.ghost _, by show dl + π.d ≤ π.P + π.d; omega, fun x hx => by cases hx; exact hdl⟩
  · simp only [pure, Except.pure]
    exact ⟨_, _, rfl, h, by show b.network.delay ≤ π.P + π.d; rw [h.delay]; omega, fun x hx => by cases hx⟩

/-- `NetworkBottleneck::sample`: no overflow; the window grows by at most one stamp; the sampled
    delay is at most the bottleneck bound plus the network delay -/
theorem sample_ti {π : TPar} {kw J : Nat} {b : Bottleneck} (h : NetI π kw J b) (hok : π.OK)
    (hP : π.pw * (kw + 1) ≤ π.P) (now : Int) (c : Bool) :
    ∃ r b', b.sample now c = .ok (r, b') ∧ NetI π (kw + 1) J b' ∧ r.1 ≤ π.P + π.d ∧ (∀ x, r.2 = some x → x ≤ π.P) := by
  unfold Bottleneck.sample
  simp only []
  cases c with
  | true =>
    simp only [if_true]
    have hw := windowAdd_le b.clientWindow now
    have hb1 : NetI π (kw + 1) J { b with clientWindow := (b.clientWindow.add now).2 } :=
      ⟨h.delay, h.ppsA, by have := h.winC; show (b.clientWindow.add now).2.stamps.length ≤ kw + 1; omega,
       by have := h.winS; show b.serverWindow.stamps.length ≤ kw + 1; omega, h.aggC, h.aggS, h.dl⟩
    obtain ⟨dl, hdl, hdlP⟩ := ppsDelay_ti hb1 hok (count := (b.clientWindow.add now).1) (n := kw + 1)
      (by have := h.winC; omega) hP
    rw [hdl]
    simp only [bind, Except.bind]
    exact sampleResult_ti hb1 hok hdlP
  | false =>
    simp only [Bool.false_eq_true, if_false]
    have hw := windowAdd_le b.serverWindow now
    have hb1 : NetI π (kw + 1) J { b with serverWindow := (b.serverWindow.add now).2 } :=
      ⟨h.delay, h.ppsA, by have := h.winC; show b.clientWindow.stamps.length ≤ kw + 1; omega,
       by have := h.winS; show (b.serverWindow.add now).2.stamps.length ≤ kw + 1; omega, h.aggC, h.aggS, h.dl⟩
    obtain ⟨dl, hdl, hdlP⟩ := ppsDelay_ti hb1 hok (count := (b.serverWindow.add now).1) (n := kw + 1)
      (by have := h.winS; omega) hP
    rw [hdl]
    simp only [bind, Except.bind]
    exact sampleResult_ti hb1 hok hdlP


/-! ### `sim_network_stack` -/

/-- a TunnelSent stamped with the clock satisfies the bound of the heap it is routed to -/
theorem qpred_ts (π : TPar) (A : Nat) (now : Int) (c pad byp rep : Bool) :
    qpred π A now c (route ⟨.tunnelSent, now, c, pad, byp, rep⟩) ⟨.tunnelSent, now, c, pad, byp, rep⟩ := by
  unfold route
  cases byp <;> simp [qpred]

theorem aggDelayOnPaddingBypassReplace_eq {sq : SimQueue} {c : Bool} {now : Int} {head : SimEvent} {ab bd : Nat}
    (h : aggDelayOnPaddingBypassReplace sq c now head ab = some bd) : bd = dsince now head.time := by
  unfold aggDelayOnPaddingBypassReplace at h
  simp only [] at h
  split at h
  · cases h
  · split at h
    · split at h
      · cases h
      · cases h; rfl
    · cases h; rfl

/-- the bypass-replace of a blocked packet: the pop succeeds, the packet is queued again with its
    old time, and the aggregate delay it causes is at most the packet's age -/
theorem replaceBypass_ti {π : TPar} {A kw J : Nat} {sq : SimQueue} {net : Bottleneck} {now : Int}
    {next queued : SimEvent} {flag : Bool} {qid : Queue}
    (hord : sq.Ord) (hq : sq.AllQ (qpred π A now)) (hn : NetI π kw J net) (hok : π.OK) (hAD : A ≤ π.D)
    (hpk : sq.peekBlocking flag next.client = (some queued, qid)) (hts : queued.event = .tunnelSent) :
    (∀ f, replaceBypass next sq qid flag net now = .error f → f.isBug = true) ∧
    (∀ sq' net', replaceBypass next sq qid flag net now = .ok (sq', net') →
      sq'.Ord ∧ sq'.AllQ (qpred π A now) ∧ NetI π kw (J + π.D) net') := by
  obtain ⟨qi, hqi, hmem, hpeek, hqid⟩ := peekBlocking_mem (sq := sq) (byp := flag) (c := next.client) (ev := queued)
    (by rw [hpk])
  rw [hpk] at hqid
  simp only [] at hqid
  subst hqid
  -- the pop is a pop of the peeked heap
  have hpopeq : ∃ ds, sq.popBlocking qi flag next.client (net.agg next.client) = sq.pop qi next.client ds := by
    unfold SimQueue.popBlocking
    cases flag with
    | false => exact ⟨_, rfl⟩
    | true =>
      have : qi = .blocking := by
        have := congrArg Prod.snd hpk
        unfold SimQueue.peekBlocking EventQueue.peekBlockingSide at this
        simpa using this.symm
      subst this
      exact ⟨0, rfl⟩
  obtain ⟨ds, hpopeq⟩ := hpopeq
  obtain ⟨e1, sq1, hpop⟩ := SimQueue.pop_someG ds hpeek
  obtain ⟨hsub, hord1, hd, hhd, hhdpk, he1⟩ := SimQueue.pop_specG hpop
  have hhdq : hd = queued := by rw [hpeek] at hhdpk; cases hhdpk; rfl
  subst hhdq
  have hne : qi ≠ .base := by rcases hqi with h | h <;> subst h <;> simp
  have hsh : qShift qi ds = 0 := by simp [qShift, hne]
  have he1t : e1.time = hd.time := by rw [he1]; simp [hsh]
  have he1e : e1.event = .tunnelSent := by rw [he1]; exact hts
  have he1c : e1.client = hd.client := by rw [he1]
  have hqp := hq next.client qi hd hhd
  have hage : hd.time ≤ now ∧ now ≤ hd.time + (A : Int) := by
    rcases hqi with h | h <;> subst h <;> exact hqp
  unfold replaceBypass
  rw [hpopeq, hpop]
  simp only [bind, Except.bind, pure, Except.pure]
  -- the aggregate delay
  have hagg : ∃ net', replaceAgg sq1 next { e1 with bypass := true, replace := false }
      { net with ghost := { net.ghost with replacedBypass := net.ghost.replacedBypass + 1 } } now = .ok net' ∧
      NetI π kw (J + π.D) net' := by
    unfold replaceAgg
    cases had : aggDelayOnPaddingBypassReplace sq1 next.client now { e1 with bypass := true, replace := false }
        (Bottleneck.agg { net with ghost := { net.ghost with replacedBypass := net.ghost.replacedBypass + 1 } } next.client) with
    | none => exact ⟨_, rfl, (hn.ghost _).mono (Nat.le_add_right _ _)⟩
    | some bd =>
      simp only []
      have hbd := aggDelayOnPaddingBypassReplace_eq had
      have : bd ≤ π.D := by
        rw [hbd]
        show dsince now e1.time ≤ π.D
        rw [he1t]
        have := dsince_le_of_le (u := now) (now := hd.time) (w := A) (by omega)
        omega
      exact pushAggregateDelay_ti (hn.ghost _) hok this _ _
  obtain ⟨net', hnet', hn'⟩ := hagg
  rw [hnet']
  simp only []
  refine ⟨fun f hf => (by cases hf), fun sq' net'' hs => ?_⟩
  simp only [Except.ok.injEq, Prod.mk.injEq] at hs
  obtain ⟨hs1, hs2⟩ := hs
  subst hs1; subst hs2
  refine ⟨SimQueue.pushSim_ord _ (hord1 hord), (hq.pop hpop).pushSim ?_, hn'⟩
  have hroute : route ({ e1 with bypass := true, replace := false } : SimEvent) = .bypassable := by
    unfold route
    simp [he1e]
  rw [hroute]
  show e1.time ≤ now ∧ now ≤ e1.time + (A : Int)
  rw [he1t]
  exact hage

/-- the PaddingSent arm -/
theorem netPaddingSent_ti {π : TPar} {A kw J : Nat} {sq : SimQueue} {net : Bottleneck} {now : Int}
    {next : SimEvent} {flag : Bool}
    (hord : sq.Ord) (hq : sq.AllQ (qpred π A now)) (hn : NetI π kw J net) (hok : π.OK) (hAD : A ≤ π.D)
    (ht : next.time = now) :
    (∀ f, netPaddingSent next sq flag net now = .error f → f.isBug = true) ∧
    (∀ sq' net', netPaddingSent next sq flag net now = .ok (sq', net') →
      sq'.Ord ∧ sq'.AllQ (qpred π A now) ∧ NetI π kw (J + π.D) net') := by
  have hqu : ∀ sq' net', (Except.ok (sq.pushSim ⟨.tunnelSent, next.time, next.client, true, next.bypass, next.replace⟩, net) :
      Except SimFault (SimQueue × Bottleneck)) = .ok (sq', net') →
      sq'.Ord ∧ sq'.AllQ (qpred π A now) ∧ NetI π kw (J + π.D) net' := by
    intro sq' net' hs
    simp only [Except.ok.injEq, Prod.mk.injEq] at hs
    obtain ⟨hs1, hs2⟩ := hs
    subst hs1; subst hs2
    refine ⟨SimQueue.pushSim_ord _ hord, hq.pushSim ?_, hn.mono (Nat.le_add_right _ _)⟩
    rw [ht]
    exact qpred_ts π A now next.client true next.bypass next.replace
  unfold netPaddingSent
  simp only []
  split
  · split
    · rename_i queued qid hpk
      split
      · rename_i hcond
        split
        · refine ⟨fun f hf => (by cases hf), fun sq' net' hs => ?_⟩
          simp only [Except.ok.injEq, Prod.mk.injEq] at hs
          obtain ⟨hs1, hs2⟩ := hs
          subst hs1; subst hs2
          exact ⟨hord, hq, (hn.ghost _).mono (Nat.le_add_right _ _)⟩
        · have hts : queued.event = .tunnelSent := by
            simp only [Bool.and_eq_true, beq_iff_eq] at hcond
            exact hcond.1.2
          exact replaceBypass_ti hord hq hn hok hAD hpk hts
      · exact ⟨fun f hf => (by cases hf), hqu⟩
    · exact ⟨fun f hf => (by cases hf), hqu⟩
  · exact ⟨fun f hf => (by cases hf), hqu⟩

theorem S_ge_Pd (π : TPar) : π.P + π.d ≤ π.S := by unfold TPar.S; omega

/-- the TunnelSent arm -/
theorem netTunnelSent_ti {π : TPar} {A kw J : Nat} {sq : SimQueue} {net : Bottleneck} {now : Int}
    {next : SimEvent}
    (hord : sq.Ord) (hq : sq.AllQ (qpred π A now)) (hn : NetI π kw J net) (hok : π.OK) (hPD : π.P ≤ π.D)
    (hP : π.pw * (kw + 1) ≤ π.P) (ht : next.time = now) :
    (∀ f, netTunnelSent next sq net now = .error f → f.isBug = true) ∧
    (∀ sq' net', netTunnelSent next sq net now = .ok (sq', net') →
      sq'.Ord ∧ sq'.AllQ (qpred π A now) ∧ NetI π (kw + 1) (J + π.D) net') := by
  obtain ⟨r, b1, hs, hn1, hr1, hr2⟩ := sample_ti hn hok hP now next.client
  unfold netTunnelSent
  rw [hs]
  simp only [bind, Except.bind, pure, Except.pure]
  have hagg : ∃ net', ppsAgg sq next b1 r.2 now = .ok net' ∧ NetI π (kw + 1) (J + π.D) net' := by
    unfold ppsAgg
    cases hr : r.2 with
    | none => exact ⟨_, rfl, hn1.mono (Nat.le_add_right _ _)⟩
    | some dl =>
      simp only []
      split
      · exact pushAggregateDelay_ti hn1 hok (Nat.le_trans (hr2 dl hr) hPD) _ _
      · exact ⟨_, rfl, hn1.mono (Nat.le_add_right _ _)⟩
  obtain ⟨net', hnet', hn'⟩ := hagg
  rw [hnet']
  simp only []
  refine ⟨fun f hf => (by cases hf), fun sq' net'' hs' => ?_⟩
  simp only [Except.ok.injEq, Prod.mk.injEq] at hs'
  obtain ⟨hs1, hs2⟩ := hs'
  subst hs1; subst hs2
  refine ⟨SimQueue.pushSim_ord _ hord, hq.pushSim ?_, hn'⟩
  have hS := S_ge_Pd π
  unfold recvFor
  split
  · show max (next.time + (r.1 : Int)) now ≤ now + (π.S : Int)
    rw [ht]
    omega
  · show next.time + (r.1 : Int) ≤ now + (π.S : Int)
    rw [ht]
    omega

/-- **`sim_network_stack` under the invariant**: no environmental fault; the queue stays ordered
    and within its bounds; at most one more unit of the aggregate-delay budget and one more
    window stamp are used -/
theorem simNetworkStack_ti {π : TPar} {A kw J : Nat} {sq : SimQueue} {net : Bottleneck} {now : Int}
    {next : SimEvent} {flag : Bool}
    (hord : sq.Ord) (hq : sq.AllQ (qpred π A now)) (hn : NetI π kw J net) (hok : π.OK) (hAD : A ≤ π.D)
    (hPD : π.P ≤ π.D) (hP : π.pw * (kw + 1) ≤ π.P) (ht : next.time = now) :
    (∀ f, simNetworkStack next sq flag net now = .error f → f.isBug = true) ∧
    (∀ na sq' net', simNetworkStack next sq flag net now = .ok (na, sq', net') →
      sq'.Ord ∧ sq'.AllQ (qpred π A now) ∧ NetI π (kw + 1) (J + π.D) net') := by
  have hn2 : NetI π (kw + 1) (J + π.D) net :=
    ⟨hn.delay, hn.ppsA, by have := hn.winC; omega, by have := hn.winS; omega,
     by have := hn.aggC; omega, by have := hn.aggS; omega, hn.dl⟩
  unfold simNetworkStack
  split
  · refine ⟨fun f hf => (by cases hf), fun na sq' net' hs => ?_⟩
    simp only [Except.ok.injEq, Prod.mk.injEq] at hs
    obtain ⟨_, hs1, hs2⟩ := hs
    subst hs1; subst hs2
    refine ⟨SimQueue.pushSim_ord _ hord, hq.pushSim ?_, hn2⟩
    rw [ht]
    exact qpred_ts π A now next.client false false false
  · have := netPaddingSent_ti (flag := flag) hord hq hn hok hAD ht
    constructor
    · intro f hf
      cases hnp : netPaddingSent next sq flag net now with
      | error f0 => rw [hnp] at hf; simp only [Except.map] at hf; cases hf; exact this.1 _ hnp
      | ok v => rw [hnp] at hf; simp [Except.map] at hf
    · intro na sq' net' hs
      cases hnp : netPaddingSent next sq flag net now with
      | error f0 => rw [hnp] at hs; simp [Except.map] at hs
      | ok v =>
        rw [hnp] at hs
        simp only [Except.map, Except.ok.injEq, Prod.mk.injEq] at hs
        obtain ⟨_, hs1, hs2⟩ := hs
        subst hs1; subst hs2
        obtain ⟨h1, h2, h3⟩ := this.2 v.1 v.2 hnp
        exact ⟨h1, h2, ⟨h3.delay, h3.ppsA, by have := h3.winC; omega, by have := h3.winS; omega, h3.aggC, h3.aggS, h3.dl⟩⟩
  · have := netTunnelSent_ti hord hq hn hok hPD hP ht
    constructor
    · intro f hf
      cases hnp : netTunnelSent next sq net now with
      | error f0 => rw [hnp] at hf; simp only [Except.map] at hf; cases hf; exact this.1 _ hnp
      | ok v => rw [hnp] at hf; simp [Except.map] at hf
    · intro na sq' net' hs
      cases hnp : netTunnelSent next sq net now with
      | error f0 => rw [hnp] at hs; simp [Except.map] at hs
      | ok v =>
        rw [hnp] at hs
        simp only [Except.map, Except.ok.injEq, Prod.mk.injEq] at hs
        obtain ⟨_, hs1, hs2⟩ := hs
        subst hs1; subst hs2
        exact this.2 v.1 v.2 hnp
  · split
    · refine ⟨fun f hf => (by cases hf), fun na sq' net' hs => ?_⟩
      simp only [Except.ok.injEq, Prod.mk.injEq] at hs
      obtain ⟨_, hs1, hs2⟩ := hs
      subst hs1; subst hs2
      refine ⟨SimQueue.pushSim_ord _ hord, hq.pushSim ?_, hn2⟩
      show next.time ≤ now + (π.S : Int)
      omega
    · refine ⟨fun f hf => (by cases hf), fun na sq' net' hs => ?_⟩
      simp only [Except.ok.injEq, Prod.mk.injEq] at hs
      obtain ⟨_, hs1, hs2⟩ := hs
      subst hs1; subst hs2
      refine ⟨SimQueue.pushSim_ord _ hord, hq.pushSim ?_, hn2⟩
      show next.time ≤ now + (π.S : Int)
      omega
  · refine ⟨fun f hf => (by cases hf), fun na sq' net' hs => ?_⟩
    simp only [Except.ok.injEq, Prod.mk.injEq] at hs
    obtain ⟨_, hs1, hs2⟩ := hs
    subst hs1; subst hs2
    exact ⟨hord, hq, hn2⟩


/-! ### the embedded frameworks -/

section
variable {σ : Type} (ρ : Oracle σ)

theorem run_machines {s t : Fw σ} (h : Run s t) : t.machines = s.machines :=
  Run.inv (fun u : Fw σ => u.machines = s.machines)
    (fun a b ha hp => by
      cases hp with
      | step mi st => rw [st.frame.machines]; exact ha
      | setG => exact ha
      | setAcct => simpa using ha
      | callStart => exact ha) h rfl

/-- one call of a framework whose clock values stay in a window of width `B`: valid state, no
    fault of any kind, the output contract, the same machines -/
theorem fw_call {t0 : Int} {B c : Nat} {fw : Fw σ} (hV : Valid fw) (hS : SigOK fw) (hG : Good t0 B c fw)
    (hI : Inv04 fw) (hF : fw.fault = none) (hg : (c + 1) * B + B ≤ durMax) (es : List TEvent) (t : Int)
    (ht : t0 ≤ t ∧ t ≤ t0 + (B : Int)) (rng : σ) :
    Valid (triggerEvents ρ es t { fw with rng := rng, log := [] }) ∧
    SigOK (triggerEvents ρ es t { fw with rng := rng, log := [] }) ∧
    Good t0 B (c + 1) (triggerEvents ρ es t { fw with rng := rng, log := [] }) ∧
    Inv04 (triggerEvents ρ es t { fw with rng := rng, log := [] }) ∧
    (triggerEvents ρ es t { fw with rng := rng, log := [] }).fault = none ∧
    (triggerEvents ρ es t { fw with rng := rng, log := [] }).machines = fw.machines := by
  have hV0 : Valid ({ fw with rng := rng, log := [] } : Fw σ) := ⟨hV.lenRt, hV.lenAct, hV.ok, hV.cur⟩
  have hS0 : SigOK ({ fw with rng := rng, log := [] } : Fw σ) := hS
  have hG0 : Good t0 B c ({ fw with rng := rng, log := [] } : Fw σ) :=
    ⟨⟨hG.1.nowLo, hG.1.nowHi, hG.1.stLo, hG.1.phi, hG.1.le⟩, hG.2⟩
  have hI0 : Inv04 ({ fw with rng := rng, log := [] } : Fw σ) := ⟨hI.actLen, hI.rtLen, hI.slots⟩
  obtain ⟨hV1, hS1, hN, _⟩ := okS_triggerEvents ρ es t _ hV0 hS0
  have hG1 := good_triggerEvents ρ hg es t ht _ hG0
  have hrun := triggerEvents_run ρ es t ({ fw with rng := rng, log := [] } : Fw σ)
  refine ⟨hV1, hS1, hG1, hI0.run hrun, ?_, (run_machines hrun).trans rfl⟩
  rcases hN with hN | ⟨_, hN⟩
  · rw [hN]; exact hF
  · exact absurd hN hG1.2

/-- the framework invariant of one side of the simulation, after at most `c` calls -/
structure FI (t0 : Int) (B c : Nat) (sd : Side σ) : Prop where
  valid : Valid sd.fw
  sig : SigOK sd.fw
  good : Good t0 B c sd.fw
  inv : Inv04 sd.fw
  nofault : sd.fw.fault = none
  lenA : sd.schedAction.length = sd.fw.machines.length
  lenT : sd.schedTimer.length = sd.fw.machines.length

/-- both sides, after at most `k` calls each -/
def FwI (t0 : Int) (B k : Nat) (st : St σ) : Prop := ∀ c, ∃ cc, cc ≤ k ∧ FI t0 B cc (st.side c)

theorem FwI.of_same {t0 : Int} {B k : Nat} {st st' : St σ} (h : FwI t0 B k st) (hs : SameFw st st') :
    FwI t0 B k st' := by
  intro c
  obtain ⟨cc, hcc, hf⟩ := h c
  obtain ⟨h1, h2, h3⟩ := hs c
  refine ⟨cc, hcc, ?_⟩
  exact ⟨by rw [h1]; exact hf.valid, by rw [h1]; exact hf.sig, by rw [h1]; exact hf.good, by rw [h1]; exact hf.inv,
    by rw [h1]; exact hf.nofault, by rw [h1, h2]; exact hf.lenA, by rw [h1, h3]; exact hf.lenT⟩

/-! ### `trigger_update` -/

theorem timeout_ns_le {t m : Nat} (h : t ≤ m) : ((t * 1000 : Nat) : Int) ≤ ((m * 1000 : Nat) : Int) := by
  have := Nat.mul_le_mul_right 1000 h
  omega

/-- storing one returned action: in range, and the new slot value respects the time bounds -/
theorem applyAction_ti {π : TPar} {A : Nat} {now : Int} {sd : Side σ} {sq : SimQueue} {cl : Bool} {a : TAction} {n : Nat}
    (hs : SlotI now sd) (hwf : sq.WF) (hord : sq.Ord) (hq : sq.AllQ (qpred π A now))
    (hlenA : sd.schedAction.length = n) (hlenT : sd.schedTimer.length = n)
    (hm : a.machine < n) (hto : C04.timesOK a = true) :
    ∃ sd' sq', applyAction sd sq now cl a = .ok (sd', sq') ∧ SlotI now sd' ∧ sq'.WF ∧ sq'.Ord ∧
      sq'.AllQ (qpred π A now) ∧ sd'.fw = sd.fw ∧ sd'.schedAction.length = n ∧ sd'.schedTimer.length = n := by
  cases a with
  | cancel m timer =>
    simp only [TAction.machine] at hm
    have h1 : ¬ (m ≥ sd.schedAction.length) := by omega
    have h2 : ¬ (m ≥ sd.schedTimer.length) := by omega
    simp only [applyAction, h1, h2, decide_false, Bool.false_and, Bool.false_eq_true, if_false]
    cases timer with
    | action =>
      exact ⟨_, _, rfl, ⟨fun a' ha' => hs.acts a' (mem_set_none ha'), hs.tims, hs.untl⟩, hwf, hord, hq, rfl,
        by simp [hlenA], hlenT⟩
    | internal =>
      exact ⟨_, _, rfl, ⟨hs.acts, fun t' ht' => hs.tims t' (mem_set_none ht'), hs.untl⟩, hwf, hord, hq, rfl,
        hlenA, by simp [hlenT]⟩
    | all =>
      exact ⟨_, _, rfl, ⟨fun a' ha' => hs.acts a' (mem_set_none ha'), fun t' ht' => hs.tims t' (mem_set_none ht'), hs.untl⟩,
        hwf, hord, hq, rfl, by simp [hlenA], by simp [hlenT]⟩
  | sendPadding timeout b r m =>
    simp only [TAction.machine] at hm
    have h1 : ¬ (m ≥ sd.schedAction.length) := by omega
    simp only [applyAction, h1, if_false]
    simp only [C04.timesOK, decide_eq_true_eq] at hto
    refine ⟨_, _, rfl, ⟨fun a' ha' => ?_, hs.tims, hs.untl⟩, hwf, hord, hq, rfl, by simp [hlenA], hlenT⟩
    rcases mem_set_some ha' with ha' | ha'
    · exact hs.acts a' ha'
    · subst ha'
      refine ⟨?_, trivial⟩
      have := timeout_ns_le hto
      show now + ((timeout * 1000 : Nat) : Int) ≤ now + (TB.TO : Int)
      unfold TB.TO
      omega
  | blockOutgoing timeout du b r m =>
    simp only [TAction.machine] at hm
    have h1 : ¬ (m ≥ sd.schedAction.length) := by omega
    simp only [applyAction, h1, if_false]
    simp only [C04.timesOK, Bool.and_eq_true, decide_eq_true_eq] at hto
    refine ⟨_, _, rfl, ⟨fun a' ha' => ?_, hs.tims, hs.untl⟩, hwf, hord, hq, rfl, by simp [hlenA], hlenT⟩
    rcases mem_set_some ha' with ha' | ha'
    · exact hs.acts a' ha'
    · subst ha'
      refine ⟨?_, hto.2⟩
      have := timeout_ns_le hto.1
      show now + ((timeout * 1000 : Nat) : Int) ≤ now + (TB.TO : Int)
      unfold TB.TO
      omega
  | updateTimer du replace m =>
    simp only [TAction.machine] at hm
    simp only [C04.timesOK, decide_eq_true_eq] at hto
    have hcur : ∃ cur, sd.schedTimer[m]? = some cur := ⟨_, List.getElem?_eq_getElem (by omega)⟩
    obtain ⟨cur, hcur⟩ := hcur
    simp only [applyAction, hcur]
    by_cases hb : (timerUpdate cur now (du * 1000) replace).2 = true
    · have hv := timerUpdate_set hb
      simp only [hb, if_true]
      refine ⟨_, _, rfl, ⟨hs.acts, fun t' ht' => ?_, hs.untl⟩, (pushSim_spec sq _ hwf).1, SimQueue.pushSim_ord _ hord,
        hq.pushSim ?_, rfl, hlenA, by simp [hlenT]⟩
      · rcases List.mem_or_eq_of_mem_set ht' with ht' | ht'
        · exact hs.tims t' ht'
        · rw [hv] at ht'
          simp only [Option.some.injEq] at ht'
          subst ht'
          have := timeout_ns_le hto
          show now + ((du * 1000 : Nat) : Int) ≤ now + (TB.TD : Int)
          unfold TB.TD
          omega
      · show now ≤ now + (π.S : Int)
        omega
    · simp only [hb, Bool.false_eq_true, if_false]
      exact ⟨_, _, rfl, hs, hwf, hord, hq, rfl, hlenA, hlenT⟩

theorem applyActions_ti {π : TPar} {A : Nat} {now : Int} {cl : Bool} {n : Nat} :
    ∀ (acts : List TAction) (sd : Side σ) (sq : SimQueue),
    SlotI now sd → sq.WF → sq.Ord → sq.AllQ (qpred π A now) →
    sd.schedAction.length = n → sd.schedTimer.length = n →
    (∀ a ∈ acts, a.machine < n ∧ C04.timesOK a = true) →
    ∃ sd' sq', applyActions sd sq now cl acts = .ok (sd', sq') ∧ SlotI now sd' ∧ sq'.WF ∧ sq'.Ord ∧
      sq'.AllQ (qpred π A now) ∧ sd'.fw = sd.fw ∧ sd'.schedAction.length = n ∧ sd'.schedTimer.length = n := by
  intro acts
  induction acts with
  | nil =>
    intro sd sq hs hwf hord hq hlA hlT _
    exact ⟨sd, sq, rfl, hs, hwf, hord, hq, rfl, hlA, hlT⟩
  | cons a r ih =>
    intro sd sq hs hwf hord hq hlA hlT hall
    obtain ⟨sd1, sq1, h1, hs1, hwf1, hord1, hq1, hfw1, hlA1, hlT1⟩ :=
      applyAction_ti (cl := cl) hs hwf hord hq hlA hlT (hall a (by simp)).1 (hall a (by simp)).2
    obtain ⟨sd2, sq2, h2, hs2, hwf2, hord2, hq2, hfw2, hlA2, hlT2⟩ :=
      ih sd1 sq1 hs1 hwf1 hord1 hq1 hlA1 hlT1 (fun x hx => hall x (by simp [hx]))
    refine ⟨sd2, sq2, ?_, hs2, hwf2, hord2, hq2, hfw2.trans hfw1, hlA2, hlT2⟩
    simp only [applyActions, h1, bind, Except.bind]
    exact h2

end


section
variable {σ : Type} (ρ : Oracle σ)

theorem side_setSide_other (st : St σ) (c c' : Bool) (x : Side σ) (h : c' ≠ c) : (st.setSide c x).side c' = st.side c' := by
  cases c <;> cases c' <;> first | exact absurd rfl h | rfl

theorem PI.withSq {π : TPar} {A : Nat} {Hn : Int} {kw J : Nat} {st : St σ} (h : PI π A Hn kw J st)
    {sq' : SimQueue} (o : σ) (hwf : sq'.WF) (hord : sq'.Ord) (hq : sq'.AllQ (qpred π A st.now)) :
    PI π A Hn kw J { st with sq := sq', orc := o } :=
  ⟨h.t0le, h.nowle, hwf, hord, hq, h.sides, h.net⟩

/-- **`trigger_update` under the invariant**: the framework call does not fault (its clock stays
    in the window), every returned action names an existing slot, and the new slot values respect
    the time bounds -/
theorem triggerUpdate_ti {π : TPar} {A : Nat} {Hn : Int} {kw J B k : Nat} {st : St σ} {next : SimEvent}
    (h : PI π A Hn kw J st) (hf : FwI π.t0 B k st) (hg : (k + 1) * B + B ≤ durMax)
    (hB : st.now ≤ π.t0 + (B : Int)) :
    (∀ f, triggerUpdate ρ st next = .error f → f.isBug = true) ∧
    (∀ acts st', triggerUpdate ρ st next = .ok (acts, st') →
      PI π A Hn kw J st' ∧ FwI π.t0 B (k + 1) st' ∧ st'.now = st.now) := by
  obtain ⟨cc, hcc, hfi⟩ := hf next.client
  have hg' : (cc + 1) * B + B ≤ durMax := by
    have : (cc + 1) * B ≤ (k + 1) * B := Nat.mul_le_mul_right _ (by omega)
    omega
  obtain ⟨hV1, hS1, hG1, hI1, hF1, hM1⟩ := fw_call ρ hfi.valid hfi.sig hfi.good hfi.inv hfi.nofault hg'
    [next.event] st.now ⟨h.t0le, hB⟩ st.orc
  have hout := hI1.outOK
  have hacts : ∀ a ∈ (triggerEvents ρ [next.event] st.now { (st.side next.client).fw with rng := st.orc, log := [] }).actionsOut,
      a.machine < (st.side next.client).fw.machines.length ∧ C04.timesOK a = true := by
    intro a ha
    unfold C04.outOK at hout
    simp only [Bool.and_eq_true, List.all_eq_true] at hout
    have hao := hout.2 a ha
    unfold C04.actionOK at hao
    rw [hM1] at hao
    cases hm : (st.side next.client).fw.machines[a.machine]? with
    | none => rw [hm] at hao; cases hao
    | some m =>
      rw [hm] at hao
      simp only [Bool.and_eq_true] at hao
      exact ⟨(List.getElem?_eq_some_iff.1 hm).1, hao.2⟩
  have hsl : SlotI st.now ({ (st.side next.client) with
      fw := triggerEvents ρ [next.event] st.now { (st.side next.client).fw with rng := st.orc, log := [] } } : Side σ) :=
    ⟨(h.sides next.client).acts, (h.sides next.client).tims, (h.sides next.client).untl⟩
  obtain ⟨sd1, sq1, happ, hs1, hwf1, hord1, hq1, hfw1, hlA1, hlT1⟩ :=
    applyActions_ti (π := π) (A := A) (now := st.now) (cl := next.client)
      (n := (st.side next.client).fw.machines.length) _ _ st.sq hsl h.wf h.ord h.q hfi.lenA hfi.lenT hacts
  unfold triggerUpdate
  simp only [hF1, happ, bind, Except.bind, pure, Except.pure]
  refine ⟨fun f hf' => (by cases hf'), fun acts st' hs => ?_⟩
  simp only [Except.ok.injEq, Prod.mk.injEq] at hs
  obtain ⟨_, hst⟩ := hs
  subst hst
  refine ⟨(h.setSide next.client sd1 hs1).withSq _ hwf1 hord1 (by rw [setSide_now]; exact hq1), ?_, by simp⟩
  intro c'
  by_cases hc : c' = next.client
  · subst hc
    refine ⟨cc + 1, by omega, ?_⟩
    show FI π.t0 B (cc + 1) ((st.setSide next.client sd1).side next.client)
    rw [side_setSide_same]
    simp only [] at hfw1
    exact ⟨by rw [hfw1]; exact hV1, by rw [hfw1]; exact hS1, by rw [hfw1]; exact hG1, by rw [hfw1]; exact hI1,
      by rw [hfw1]; exact hF1, by rw [hfw1, hM1]; exact hlA1, by rw [hfw1, hM1]; exact hlT1⟩
  · obtain ⟨c2, hc2, hf2⟩ := hf c'
    refine ⟨c2, by omega, ?_⟩
    show FI π.t0 B c2 ((st.setSide next.client sd1).side c')
    rw [side_setSide_other _ _ _ _ hc]
    exact hf2

/-- **One iteration of the main loop under the invariant**: no environmental fault, and the
    invariant holds again with the age bound grown by `W`, the horizon by `S + W`, the window
    bound by one stamp, the aggregate-delay budget by `2 D`, the call count by one. -/
theorem step_ti {π : TPar} {A A' : Nat} {Hn : Int} {kw J B k : Nat} {st : St σ}
    (h : PI π A Hn kw J st) (hf : FwI π.t0 B k st) (hok : π.OK)
    (hJM : J + π.D + π.D ≤ π.JM) (hHb : π.Tm + π.JM ≤ Hn) (hAD : A + TB.W ≤ π.D) (hA' : A + TB.W ≤ A')
    (hA'D : A' ≤ π.D) (hPD : π.P ≤ π.D) (hP : π.pw * (kw + 1) ≤ π.P)
    (hg : (k + 1) * B + B ≤ durMax) (hB : Hn + ((π.S + TB.W : Nat) : Int) ≤ π.t0 + (B : Int)) :
    (∀ f, step ρ st = .error f → f.isBug = true) ∧
    (∀ r st', step ρ st = .ok (some (r, st')) →
      PI π A' (Hn + ((π.S + TB.W : Nat) : Int)) (kw + 1) (J + π.D + π.D) st' ∧ FwI π.t0 B (k + 1) st') := by
  have hpn := pickNext_ti hok (J := J) (by omega) hHb hAD (pickMeasure st + 1) st h
  unfold step
  cases hp : pickNext (pickMeasure st + 1) st with
  | none =>
    simp only [Option.getD_none, bind, Except.bind]
    exact ⟨fun f hf' => (by cases hf'; rfl), fun r st' hs => (by cases hs)⟩
  | some res =>
    simp only [Option.getD_some]
    cases res with
    | error f0 =>
      have := hpn.1 f0 hp
      exact ⟨fun f hf' => (by simp only [bind, Except.bind] at hf'; cases hf'; exact this),
             fun r st' hs => (by simp [bind, Except.bind] at hs)⟩
    | ok pr =>
      obtain ⟨next, st1⟩ := pr
      obtain ⟨hp1, hs1, hn1, hev⟩ := hpn.2 next st1 hp
      simp only [bind, Except.bind]
      cases next with
      | none => exact ⟨fun f hf' => (by simp [pure, Except.pure] at hf'), fun r st' hs => (by simp [pure, Except.pure] at hs)⟩
      | some next =>
        simp only []
        obtain ⟨hle, hblk⟩ := hev next rfl
        have hge := pickNext_time_ge _ _ _ _ hp
        have hnb : ¬ next.time < st1.now := by omega
        have hnow' : (if next.time > st1.now then next.time else st1.now) = next.time := by
          split <;> omega
        simp only [hnb, if_false, hnow']
        have hp2 : PI π A' (Hn + ((π.S + TB.W : Nat) : Int)) kw (J + π.D) ({ st1 with now := next.time } : St σ) :=
          hp1.advance (by omega) hle (by rw [hn1]; exact hblk) hA'
        have hns := simNetworkStack_ti (next := next)
          (flag := (({ st1 with now := next.time } : St σ).side next.client).blockingBypassable)
          hp2.ord hp2.q hp2.net hok hA'D hPD hP rfl
        cases hs : simNetworkStack next st1.sq (({ st1 with now := next.time } : St σ).side next.client).blockingBypassable
            st1.net next.time with
        | error f0 =>
          exact ⟨fun f hf' => (by cases hf'; exact hns.1 _ hs), fun r st' hs' => (by cases hs')⟩
        | ok v =>
          obtain ⟨na, sq, net⟩ := v
          simp only []
          obtain ⟨hord3, hq3, hn3⟩ := hns.2 na sq net hs
          have hwf3 := (simNetworkStack_conserve hp2.wf hs).1
          have hp3 : PI π A' (Hn + ((π.S + TB.W : Nat) : Int)) (kw + 1) (J + π.D + π.D)
              ({ ({ st1 with now := next.time } : St σ) with sq := sq, net := net } : St σ) :=
            ⟨hp2.t0le, hp2.nowle, hwf3, hord3, hq3, hp2.sides, hn3⟩
          have hf3 : FwI π.t0 B k ({ ({ st1 with now := next.time } : St σ) with sq := sq, net := net } : St σ) :=
            fun c => (hf.of_same hs1) c
          have htu := triggerUpdate_ti ρ (next := next) hp3 hf3 hg (by
            show next.time ≤ π.t0 + (B : Int)
            omega)
          cases ht : triggerUpdate ρ ({ ({ st1 with now := next.time } : St σ) with sq := sq, net := net } : St σ) next with
          | error f0 =>
            exact ⟨fun f hf' => (by cases hf'; exact htu.1 _ ht), fun r st' hs' => (by cases hs')⟩
          | ok v2 =>
            obtain ⟨acts, st2⟩ := v2
            obtain ⟨hp4, hf4, _⟩ := htu.2 acts st2 ht
            exact ⟨fun f hf' => (by simp [pure, Except.pure] at hf'),
                   fun r st' hs' => (by
                    simp only [pure, Except.pure, Except.ok.injEq, Option.some.injEq, Prod.mk.injEq] at hs'
                    obtain ⟨_, hst⟩ := hs'
                    subst hst
                    exact ⟨hp4, hf4⟩)⟩

end

end Mb.Sim
