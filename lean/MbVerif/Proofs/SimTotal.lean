/-
  No internal consistency assertion of the simulator can fire: every fault of a model run is
  one of the "environmental" ones (checked duration arithmetic, unwraps, a framework panic, an
  out-of-range machine id, an empty queue, invalid machines, `pps as u32 == 0`), never a `BUG:`
  assertion, never "time moves backwards", never fuel exhaustion or divergence.
-/
import MbVerif.Proofs.SimBugFree
import MbVerif.Proofs.SimCap

namespace Mb.Sim
open Mb

/-- the faults that correspond to the simulator's own consistency assertions (and the model's
    termination markers), plus the division by zero of `NetworkBottleneck::new` (only possible
    for a packets-per-second limit of 0, which is outside the property: limits are >= 1) -/
def SimFault.isBug : SimFault → Bool
  | .timeBackwards | .noInternal | .noAction | .cancelScheduled | .timerScheduled | .fuel | .diverge | .divZero => true
  | _ => false

/-- the packets-per-second limit `NetworkBottleneck::new` uses -/
def effPps (net : Network) (queuePps : Option Nat) : Nat := net.pps.getD (queuePps.getD usizeMax)

/-- slots of the action timers only ever hold SendPadding / BlockOutgoing -/
def actionOK : TAction → Bool
  | .sendPadding _ _ _ _ => true
  | .blockOutgoing _ _ _ _ _ => true
  | _ => false

def slotsOK (l : List (Option SchedAction)) : Prop := ∀ a, some a ∈ l → actionOK a.action = true

theorem slotsOK_set_none {l : List (Option SchedAction)} (h : slotsOK l) (i : Nat) : slotsOK (l.set i none) := by
  intro a ha
  rcases List.mem_or_eq_of_mem_set ha with h1 | h1
  · exact h a h1
  · cases h1

theorem slotsOK_set_some {l : List (Option SchedAction)} (h : slotsOK l) (i : Nat) (x : SchedAction)
    (hx : actionOK x.action = true) : slotsOK (l.set i (some x)) := by
  intro a ha
  rcases List.mem_or_eq_of_mem_set ha with h1 | h1
  · exact h a h1
  · simp only [Option.some.injEq] at h1; subst h1; exact hx

theorem slotsOK_replicate (n : Nat) : slotsOK (List.replicate n none) := by
  intro a ha
  have := List.eq_of_mem_replicate ha
  cases this

section
variable {σ : Type}

def St.slotsOK (st : St σ) : Prop := Mb.Sim.slotsOK st.client.schedAction ∧ Mb.Sim.slotsOK st.server.schedAction

theorem setSide_slotsOK {st : St σ} (c : Bool) (x : Side σ) (h : st.slotsOK)
    (hx : Mb.Sim.slotsOK x.schedAction) : (st.setSide c x).slotsOK := by
  cases c
  · exact ⟨h.1, hx⟩
  · exact ⟨hx, h.2⟩

theorem side_slotsOK {st : St σ} (h : st.slotsOK) (c : Bool) : Mb.Sim.slotsOK (st.side c).schedAction := by
  cases c
  · exact h.2
  · exact h.1

/-! ### errors of the pieces -/

theorem durChk_err {n : Nat} {f : SimFault} (h : durChk n = .error f) : f = .durOverflow := by
  unfold durChk at h
  split at h
  · cases h; rfl
  · cases h

theorem eventQueue_peek_err {q : EventQueue} {ds : Nat} {now : Int} {f : SimFault}
    (h : q.peek ds now = .error f) : f.isBug = false := by
  unfold EventQueue.peek at h
  by_cases h0 : q.len = 0
  · simp [h0] at h
  · simp only [h0, if_false] at h
    generalize (if optGt q.internal.peek (if optGt q.blocking.peek q.bypassable.peek then (q.blocking.peek, Queue.blocking)
            else (q.bypassable.peek, Queue.bypassable)).1
          then (q.internal.peek, Queue.internal)
          else (if optGt q.blocking.peek q.bypassable.peek then (q.blocking.peek, Queue.blocking)
            else (q.bypassable.peek, Queue.bypassable))) = fq at h
    by_cases hb : before q.base.peek fq.1 ds = true
    · simp only [hb, if_true] at h
      cases hp : q.base.peek with
      | none => simp only [hp] at h; cases h; rfl
      | some x => simp [hp] at h
    · simp only [hb, Bool.false_eq_true, if_false] at h
      cases hp : fq.1 with
      | none => simp only [hp] at h; cases h; rfl
      | some x => simp [hp] at h

theorem simQueue_peek_err {s : SimQueue} {c sv : Nat} {now : Int} {f : SimFault}
    (h : s.peek c sv now = .error f) : f.isBug = false := by
  unfold SimQueue.peek at h
  by_cases h0 : s.len = 0
  · simp [h0] at h
  · simp only [h0, if_false] at h
    rw [bind_error_iff] at h
    rcases h with h | ⟨⟨ce, cq, cd⟩, _, h⟩
    · exact eventQueue_peek_err h
    · rw [bind_error_iff] at h
      rcases h with h | ⟨⟨se, sq', sd⟩, _, h⟩
      · exact eventQueue_peek_err h
      · simp only [pure, Except.pure] at h
        cases ce <;> cases se <;> simp only [] at h <;> first | cases h | (split at h <;> cases h)

theorem peekQueue_err {st : St σ} {e : Nat} {f : SimFault} (h : peekQueue st e = .error f) : f.isBug = false := by
  unfold peekQueue at h
  by_cases h0 : st.sq.isEmpty = true
  · simp [h0] at h
  · simp only [h0, Bool.false_eq_true, if_false] at h
    rw [bind_error_iff] at h
    rcases h with h | ⟨⟨pk, qu, dur⟩, _, h⟩
    · exact simQueue_peek_err h
    · cases pk with
      | none => simp only [] at h; cases h; rfl
      | some peek =>
        simp only [pure, Except.pure] at h
        repeat (first | cases h | split at h)

theorem pickDecide_err {st : St σ} {f : SimFault} (h : pickDecide st = .error f) : f.isBug = false := by
  unfold pickDecide at h
  simp only [] at h
  rw [bind_error_iff] at h
  rcases h with h | ⟨⟨q, qid, qc⟩, _, h⟩
  · exact peekQueue_err h
  · simp only [pure, Except.pure] at h
    repeat (first | cases h | split at h)

theorem pushAggregateDelay_err {b : Bottleneck} {bd : Nat} {now : Int} {c : Bool} {f : SimFault}
    (h : b.pushAggregateDelay bd now c = .error f) : f.isBug = false := by
  unfold Bottleneck.pushAggregateDelay at h
  rw [bind_error_iff] at h
  rcases h with h | ⟨v, _, h⟩
  · rw [durChk_err h]; rfl
  · rw [bind_error_iff] at h
    rcases h with h | ⟨v2, _, h⟩
    · rw [durChk_err h]; rfl
    · cases h

theorem popAggregateDelay_err {b : Bottleneck} {f : SimFault} (h : b.popAggregateDelay = .error f) :
    f.isBug = false := by
  unfold Bottleneck.popAggregateDelay at h
  split at h
  · cases h
  · split at h
    · rw [bind_error_iff] at h
      rcases h with h | ⟨v, _, h⟩
      · rw [durChk_err h]; rfl
      · cases h
    · rw [bind_error_iff] at h
      rcases h with h | ⟨v, _, h⟩
      · rw [durChk_err h]; rfl
      · cases h

theorem pickAgg_err {st : St σ} {f : SimFault} (hd : pickDecide st = .ok .agg) (h : pickAgg st = .error f) :
    f.isBug = false := by
  have hnd := pickAgg_no_diverge hd
  unfold pickAgg at h hnd
  by_cases hz : st.net.aggQueue.len = 0
  · simp [hz] at hnd
  · simp only [hz, if_false] at h
    rw [bind_error_iff] at h
    rcases h with h | ⟨net, _, h⟩
    · exact popAggregateDelay_err h
    · cases h

theorem pickBlockExp_err {st : St σ} {b : Nat} {c : Bool} {f : SimFault} (h : pickBlockExp st b c = .error f) :
    f.isBug = false := by
  unfold pickBlockExp at h
  rw [bind_error_iff] at h
  rcases h with h | ⟨net, _, h⟩
  · unfold blockExpNet at h
    split at h
    · split at h
      · split at h
        · exact pushAggregateDelay_err h
        · cases h
      · cases h
    · cases h
  · cases h

theorem eventQueue_pop_err {q : EventQueue} {qi : Queue} {ds : Nat} {f : SimFault} (h : q.pop qi ds = .error f) :
    f.isBug = false := by
  unfold EventQueue.pop at h
  cases qi with
  | blocking => cases h
  | bypassable => cases h
  | internal => cases h
  | base =>
    simp only [] at h
    split at h
    · split at h
      · cases h
      · cases h; rfl
    · cases h

theorem simQueue_pop_err {s : SimQueue} {qi : Queue} {cl : Bool} {ds : Nat} {f : SimFault}
    (h : s.pop qi cl ds = .error f) : f.isBug = false := by
  unfold SimQueue.pop at h
  rw [bind_error_iff] at h
  rcases h with h | ⟨v, _, h⟩
  · exact eventQueue_pop_err h
  · cases h

theorem pickQueue_err {st : St σ} {q : Nat} {qid : Queue} {c : Bool} {f : SimFault}
    (h : pickQueue st q qid c = .error f) : f.isBug = false := by
  unfold pickQueue at h
  rw [bind_error_iff] at h
  rcases h with h | ⟨r, _, h⟩
  · exact simQueue_pop_err h
  · cases r with
    | none => simp only [] at h; cases h; rfl
    | some p => obtain ⟨a, b⟩ := p; simp only [pure, Except.pure] at h; cases h

theorem pickTimer_err {st : St σ} {i : Nat} {f : SimFault} (hd : pickDecide st = .ok (.timer i))
    (h : pickTimer st i = .error f) : f.isBug = false := by
  have hf := doInternalTimer_found hd
  unfold pickTimer at h
  rw [bind_error_iff] at h
  rcases h with h | ⟨⟨ev, st1⟩, _, h⟩
  · have : f = .noInternal := by
      unfold doInternalTimer at h
      split at h
      · cases h
      · split at h
        · cases h
        · cases h; rfl
    subst this
    exact absurd h hf
  · simp only [pure, Except.pure] at h; cases h

theorem pickAction_err {st : St σ} {s : Nat} {f : SimFault} (hok : st.slotsOK) (hd : pickDecide st = .ok (.action s))
    (h : pickAction st s = .error f) : f.isBug = false := by
  have hf := doScheduledAction_found hd
  unfold pickAction at h
  rw [bind_error_iff] at h
  rcases h with h | ⟨⟨ev, st1⟩, _, h⟩
  · unfold doScheduledAction at h hf
    cases hfa : findAction st (st.now + (s : Int)) with
    | none => simp only [hfa] at hf; exact absurd rfl hf
    | some p =>
      obtain ⟨isClient, idx, a⟩ := p
      simp only [hfa] at h
      -- the slot holds an action that can be executed
      have hmem : some a ∈ (st.side isClient).schedAction := by
        unfold findAction at hfa
        split at hfa
        · rename_i j b hfs
          cases hfa
          obtain ⟨k, hk, hl⟩ := findSlot_spec _ _ _ _ _ hfs
          exact List.mem_of_getElem? (by simpa [St.side] using hl)
        · split at hfa
          · rename_i j b hfs
            cases hfa
            obtain ⟨k, hk, hl⟩ := findSlot_spec _ _ _ _ _ hfs
            exact List.mem_of_getElem? (by simpa [St.side] using hl)
          · cases hfa
      have hact := side_slotsOK hok isClient a hmem
      cases haa : a.action with
      | cancel m t => rw [haa] at hact; cases hact
      | updateTimer d r m => rw [haa] at hact; cases hact
      | sendPadding to b r m => simp only [haa] at h; cases h
      | blockOutgoing to d b r m => simp only [haa] at h; cases h
  · simp only [pure, Except.pure] at h; cases h

/-! ### the slot invariant is kept -/

theorem pickAgg_slotsOK {st st' : St σ} (hok : st.slotsOK) (h : pickAgg st = .ok st') : st'.slotsOK := by
  unfold pickAgg at h
  split at h
  · cases h
  rw [bind_ok_iff] at h
  obtain ⟨net, _, h2⟩ := h
  simp only [pure, Except.pure] at h2
  cases h2; exact hok

theorem pickBlockExp_slotsOK {st st' : St σ} {b : Nat} {c : Bool} {e : SimEvent} (hok : st.slotsOK)
    (h : pickBlockExp st b c = .ok (e, st')) : st'.slotsOK := by
  unfold pickBlockExp at h
  rw [bind_ok_iff] at h
  obtain ⟨net, _, h2⟩ := h
  simp only [pure, Except.pure] at h2
  cases h2
  have := setSide_slotsOK c { (st.side c) with blockingUntil := none } hok (side_slotsOK hok c)
  exact this

theorem pickQueue_slotsOK {st st' : St σ} {q : Nat} {qid : Queue} {c : Bool} {e : SimEvent} (hok : st.slotsOK)
    (h : pickQueue st q qid c = .ok (e, st')) : st'.slotsOK := by
  unfold pickQueue at h
  rw [bind_ok_iff] at h
  obtain ⟨r, _, h2⟩ := h
  cases r with
  | none => simp at h2
  | some p =>
    obtain ⟨tmp, sq⟩ := p
    simp only [pure, Except.pure] at h2
    cases h2; exact hok

theorem pickTimer_slotsOK {st st' : St σ} {i : Nat} (hok : st.slotsOK) (h : pickTimer st i = .ok st') :
    st'.slotsOK := by
  unfold pickTimer at h
  rw [bind_ok_iff] at h
  obtain ⟨⟨ev, st1⟩, h1, h2⟩ := h
  simp only [pure, Except.pure] at h2
  cases h2
  unfold doInternalTimer at h1
  split at h1
  · cases h1; exact hok
  · split at h1
    · cases h1; exact hok
    · cases h1

theorem pickAction_slotsOK {st st' : St σ} {s : Nat} (hok : st.slotsOK) (h : pickAction st s = .ok st') :
    st'.slotsOK := by
  unfold pickAction at h
  rw [bind_ok_iff] at h
  obtain ⟨⟨ev, st1⟩, h1, h2⟩ := h
  simp only [pure, Except.pure] at h2
  cases h2
  obtain ⟨_, i, a, _, _, hset⟩ := doScheduledAction_spec h1
  -- only the slot list of the event's side changed, by clearing one slot
  unfold doScheduledAction at h1
  split at h1
  · cases h1
  · rename_i isClient idx a' _
    split at h1
    · cases h1
    · cases h1
    · cases h1
      exact setSide_slotsOK isClient _ hok (slotsOK_set_none (side_slotsOK hok isClient) idx)
    · cases h1
      exact setSide_slotsOK isClient _ hok (slotsOK_set_none (side_slotsOK hok isClient) idx)

/-- `pick_next`: with enough fuel and well-kept slots no assertion fires, and the slots stay
    well-kept -/
theorem pickNext_total : ∀ (fuel : Nat) (st : St σ), st.slotsOK →
    (∀ f, pickNext fuel st = some (.error f) → f.isBug = false) ∧
    (∀ e st', pickNext fuel st = some (.ok (e, st')) → st'.slotsOK) := by
  intro fuel
  induction fuel with
  | zero => intro st _; exact ⟨fun f h => (by simp [pickNext] at h), fun e st' h => (by simp [pickNext] at h)⟩
  | succ n ih =>
    intro st hok
    unfold pickNext
    cases hd : pickDecide st with
    | error f0 =>
      simp only []
      exact ⟨fun f h => (by cases h; exact pickDecide_err hd), fun e st' h => (by cases h)⟩
    | ok p =>
      cases p with
      | nothing =>
        simp only []
        exact ⟨fun f h => (by cases h), fun e st' h => (by cases h; exact hok)⟩
      | agg =>
        simp only []
        cases ha : pickAgg st with
        | error f0 => exact ⟨fun f h => (by cases h; exact pickAgg_err hd ha), fun e st' h => (by cases h)⟩
        | ok st1 => exact ih st1 (pickAgg_slotsOK hok ha)
      | blockExp b c =>
        simp only []
        cases hb : pickBlockExp st b c with
        | error f0 => exact ⟨fun f h => (by cases h; exact pickBlockExp_err hb), fun e st' h => (by cases h)⟩
        | ok p2 =>
          obtain ⟨e1, st1⟩ := p2
          exact ⟨fun f h => (by cases h), fun e st' h => (by cases h; exact pickBlockExp_slotsOK hok hb)⟩
      | queue q qid c =>
        simp only []
        cases hq : pickQueue st q qid c with
        | error f0 => exact ⟨fun f h => (by cases h; exact pickQueue_err hq), fun e st' h => (by cases h)⟩
        | ok p2 =>
          obtain ⟨e1, st1⟩ := p2
          exact ⟨fun f h => (by cases h), fun e st' h => (by cases h; exact pickQueue_slotsOK hok hq)⟩
      | timer i =>
        simp only []
        cases ht : pickTimer st i with
        | error f0 => exact ⟨fun f h => (by cases h; exact pickTimer_err hd ht), fun e st' h => (by cases h)⟩
        | ok st1 => exact ih st1 (pickTimer_slotsOK hok ht)
      | action s =>
        simp only []
        cases ha : pickAction st s with
        | error f0 => exact ⟨fun f h => (by cases h; exact pickAction_err hok hd ha), fun e st' h => (by cases h)⟩
        | ok st1 => exact ih st1 (pickAction_slotsOK hok ha)

end
end Mb.Sim

namespace Mb.Sim
open Mb

theorem ppsDelay_err {b : Bottleneck} {count : Nat} {f : SimFault} (h : b.ppsDelay count = .error f) :
    f.isBug = false := by
  unfold Bottleneck.ppsDelay at h
  by_cases hc : count > b.ppsLimit
  · simp only [hc, if_true] at h
    rw [durChk_err h]; rfl
  · simp only [hc, if_false] at h
    cases h

theorem sampleResult_err {b : Bottleneck} {d : Nat} {f : SimFault} (h : b.sampleResult d = .error f) :
    f.isBug = false := by
  unfold Bottleneck.sampleResult at h
  by_cases hc : d > 0
  · simp only [hc, if_true] at h
    rw [bind_error_iff] at h
    rcases h with h | ⟨t, _, h⟩
    · rw [durChk_err h]; rfl
    · cases h
  · simp only [hc, if_false] at h
    cases h

theorem sample_err {b : Bottleneck} {now : Int} {c : Bool} {f : SimFault} (h : b.sample now c = .error f) :
    f.isBug = false := by
  unfold Bottleneck.sample at h
  simp only [] at h
  rw [bind_error_iff] at h
  rcases h with h | ⟨d, _, h⟩
  · exact ppsDelay_err h
  · exact sampleResult_err h

theorem simNetworkStack_err {next : SimEvent} {sq : SimQueue} {byp : Bool} {net : Bottleneck} {now : Int}
    {f : SimFault} (h : simNetworkStack next sq byp net now = .error f) : f.isBug = false := by
  unfold simNetworkStack at h
  split at h
  · cases h
  · -- PaddingSent
    cases hn : netPaddingSent next sq byp net now with
    | ok v => simp [hn, Except.map] at h
    | error f0 =>
      simp only [hn, Except.map] at h
      cases h
      unfold netPaddingSent at hn
      simp only [] at hn
      split at hn
      · split at hn
        · split at hn
          · split at hn
            · cases hn
            · unfold replaceBypass at hn
              rw [bind_error_iff] at hn
              rcases hn with hn | ⟨r, _, hn⟩
              · unfold SimQueue.popBlocking at hn
                split at hn <;> exact simQueue_pop_err hn
              · cases r with
                | none => simp only [] at hn; cases hn; rfl
                | some p =>
                  obtain ⟨entry, sq1⟩ := p
                  simp only [] at hn
                  rw [bind_error_iff] at hn
                  rcases hn with hn | ⟨n2, _, hn⟩
                  · unfold replaceAgg at hn
                    split at hn
                    · exact pushAggregateDelay_err hn
                    · cases hn
                  · cases hn
          · cases hn
        · cases hn
      · cases hn
  · -- TunnelSent
    cases hn : netTunnelSent next sq net now with
    | ok v => simp [hn, Except.map] at h
    | error f0 =>
      simp only [hn, Except.map] at h
      cases h
      unfold netTunnelSent at hn
      rw [bind_error_iff] at hn
      rcases hn with hn | ⟨r, _, hn⟩
      · exact sample_err hn
      · rw [bind_error_iff] at hn
        rcases hn with hn | ⟨n2, _, hn⟩
        · unfold ppsAgg at hn
          split at hn
          · split at hn
            · exact pushAggregateDelay_err hn
            · cases hn
          · cases hn
        · cases hn
  · split at h <;> cases h
  · cases h

section
variable {σ : Type} (ρ : Oracle σ)

theorem applyAction_total {sd : Side σ} {sq : SimQueue} {now : Int} {cl : Bool} {a : TAction}
    (hok : slotsOK sd.schedAction) :
    (∀ f, applyAction sd sq now cl a = .error f → f.isBug = false) ∧
    (∀ sd' sq', applyAction sd sq now cl a = .ok (sd', sq') → slotsOK sd'.schedAction) := by
  cases a with
  | cancel m t =>
    simp only [applyAction]
    split
    · exact ⟨fun f h => (by cases h; rfl), fun sd' sq' h => (by cases h)⟩
    · split
      · exact ⟨fun f h => (by cases h; rfl), fun sd' sq' h => (by cases h)⟩
      · cases t
        · exact ⟨fun f h => (by cases h), fun sd' sq' h => (by cases h; exact slotsOK_set_none hok m)⟩
        · exact ⟨fun f h => (by cases h), fun sd' sq' h => (by cases h; exact hok)⟩
        · exact ⟨fun f h => (by cases h), fun sd' sq' h => (by cases h; exact slotsOK_set_none hok m)⟩
  | sendPadding to b r m =>
    simp only [applyAction]
    split
    · exact ⟨fun f h => (by cases h; rfl), fun sd' sq' h => (by cases h)⟩
    · exact ⟨fun f h => (by cases h), fun sd' sq' h => (by cases h; exact slotsOK_set_some hok m _ rfl)⟩
  | blockOutgoing to d b r m =>
    simp only [applyAction]
    split
    · exact ⟨fun f h => (by cases h; rfl), fun sd' sq' h => (by cases h)⟩
    · exact ⟨fun f h => (by cases h), fun sd' sq' h => (by cases h; exact slotsOK_set_some hok m _ rfl)⟩
  | updateTimer d r m =>
    simp only [applyAction]
    cases hc : sd.schedTimer[m]? with
    | none => exact ⟨fun f h => (by cases h; rfl), fun sd' sq' h => (by cases h)⟩
    | some cur =>
      simp only []
      split
      · exact ⟨fun f h => (by cases h), fun sd' sq' h => (by cases h; exact hok)⟩
      · exact ⟨fun f h => (by cases h), fun sd' sq' h => (by cases h; exact hok)⟩

theorem applyActions_total : ∀ (acts : List TAction) (sd : Side σ) (sq : SimQueue) (now : Int) (cl : Bool),
    slotsOK sd.schedAction →
    (∀ f, applyActions sd sq now cl acts = .error f → f.isBug = false) ∧
    (∀ sd' sq', applyActions sd sq now cl acts = .ok (sd', sq') → slotsOK sd'.schedAction) := by
  intro acts
  induction acts with
  | nil =>
    intro sd sq now cl hok
    simp only [applyActions]
    exact ⟨fun f h => (by cases h), fun sd' sq' h => (by cases h; exact hok)⟩
  | cons a r ih =>
    intro sd sq now cl hok
    simp only [applyActions]
    have h1 := applyAction_total (sq := sq) (now := now) (cl := cl) (a := a) hok
    constructor
    · intro f h
      rw [bind_error_iff] at h
      rcases h with h | ⟨⟨sd1, sq1⟩, h2, h⟩
      · exact h1.1 f h
      · exact (ih sd1 sq1 now cl (h1.2 sd1 sq1 h2)).1 f h
    · intro sd' sq' h
      rw [bind_ok_iff] at h
      obtain ⟨⟨sd1, sq1⟩, h2, h⟩ := h
      exact (ih sd1 sq1 now cl (h1.2 sd1 sq1 h2)).2 sd' sq' h

theorem triggerUpdate_total {st : St σ} {next : SimEvent} (hok : st.slotsOK) :
    (∀ f, triggerUpdate ρ st next = .error f → f.isBug = false) ∧
    (∀ acts st', triggerUpdate ρ st next = .ok (acts, st') → st'.slotsOK) := by
  unfold triggerUpdate
  simp only []
  split
  · exact ⟨fun f h => (by cases h; rfl), fun acts st' h => (by cases h)⟩
  · rename_i hnf
    have hside : slotsOK ({ (st.side next.client) with
        fw := triggerEvents ρ [next.event] st.now { (st.side next.client).fw with rng := st.orc, log := [] } } : Side σ).schedAction :=
      side_slotsOK hok next.client
    have := applyActions_total
      (triggerEvents ρ [next.event] st.now { (st.side next.client).fw with rng := st.orc, log := [] }).actionsOut
      _ st.sq st.now next.client hside
    constructor
    · intro f h
      rw [bind_error_iff] at h
      rcases h with h | ⟨⟨sd1, sq1⟩, _, h⟩
      · exact this.1 f h
      · cases h
    · intro acts st' h
      rw [bind_ok_iff] at h
      obtain ⟨⟨sd1, sq1⟩, h2, h⟩ := h
      simp only [pure, Except.pure] at h
      cases h
      have hs := this.2 sd1 sq1 h2
      have := setSide_slotsOK next.client sd1 hok hs
      exact this

/-- one iteration: no assertion fires, the slot invariant is kept -/
theorem step_total {st : St σ} (hok : st.slotsOK) :
    (∀ f, step ρ st = .error f → f.isBug = false) ∧
    (∀ r st', step ρ st = .ok (some (r, st')) → st'.slotsOK) := by
  have hfuel := pickNext_fuel_ok (pickMeasure st + 1) st (Nat.lt_succ_self _)
  have hpt := pickNext_total (pickMeasure st + 1) st hok
  unfold step
  cases hp : pickNext (pickMeasure st + 1) st with
  | none => rw [hp] at hfuel; cases hfuel
  | some res =>
    simp only [Option.getD_some]
    cases res with
    | error f0 =>
      have := hpt.1 f0 hp
      exact ⟨fun f h => (by simp only [bind, Except.bind] at h; cases h; exact this),
             fun r st' h => (by simp [bind, Except.bind] at h)⟩
    | ok pr =>
      obtain ⟨next, st1⟩ := pr
      have hok1 := hpt.2 next st1 hp
      simp only [bind, Except.bind]
      cases next with
      | none => exact ⟨fun f h => (by simp [pure, Except.pure] at h), fun r st' h => (by simp [pure, Except.pure] at h)⟩
      | some next =>
        simp only []
        have hge := pickNext_time_ge _ _ _ _ hp
        have hnow := pickNext_now _ _ _ _ hp
        have hnb : ¬ next.time < st1.now := by omega
        simp only [hnb, if_false]
        cases hs : simNetworkStack next st1.sq (({ st1 with now := if next.time > st1.now then next.time else st1.now } : St σ).side next.client).blockingBypassable st1.net (if next.time > st1.now then next.time else st1.now) with
        | error f0 =>
          exact ⟨fun f h => (by simp only [hs] at h; cases h; exact simNetworkStack_err hs),
                 fun r st' h => (by simp only [hs] at h; cases h)⟩
        | ok v =>
          obtain ⟨na, sq, net⟩ := v
          simp only [hs]
          have hok2 : ({ ({ st1 with now := if next.time > st1.now then next.time else st1.now } : St σ) with sq := sq, net := net } : St σ).slotsOK := hok1
          have htu := triggerUpdate_total ρ (next := next) hok2
          cases ht : triggerUpdate ρ ({ ({ st1 with now := if next.time > st1.now then next.time else st1.now } : St σ) with sq := sq, net := net } : St σ) next with
          | error f0 =>
            exact ⟨fun f h => (by simp only [ht] at h; cases h; exact htu.1 f0 ht),
                   fun r st' h => (by simp only [ht] at h; cases h)⟩
          | ok v2 =>
            obtain ⟨acts, st2⟩ := v2
            exact ⟨fun f h => (by simp only [ht, pure, Except.pure] at h; cases h),
                   fun r st' h => (by simp only [ht, pure, Except.pure] at h; cases h; exact htu.2 acts st2 ht)⟩

/-- the main loop never stops on an assertion -/
theorem loop_total (args : Args) : ∀ (fuel : Nat) (st : St σ) (iters cnt : Nat), st.slotsOK →
    ∀ f, (loop ρ args fuel st iters cnt).stop = .fault f → f.isBug = false := by
  intro fuel
  induction fuel with
  | zero => intro st iters cnt _ f h; simp [loop] at h
  | succ n ih =>
    intro st iters cnt hok f h
    have hst := step_total ρ hok
    cases hs : step ρ st with
    | error f0 =>
      simp only [loop, hs] at h
      cases h
      exact hst.1 _ hs
    | ok o =>
      cases o with
      | none => simp [loop, hs] at h
      | some p =>
        obtain ⟨r, st'⟩ := p
        rw [loop_succ_some ρ args n st st' iters cnt r hs] at h
        cases hstop : stopCheck args st' iters (bump args r cnt) with
        | some s =>
          simp only [hstop] at h
          subst h
          unfold stopCheck at hstop
          repeat (first | cases hstop | split at hstop)
        | none =>
          simp only [hstop] at h
          exact ih st' (iters + 1) (bump args r cnt) (hst.2 r st' hs) f h

theorem initState_total {mc ms : List Machine} {sq : SimQueue} {a : Args} {orc : σ} :
    (∀ f, initState ρ mc ms sq a orc = .error f →
      f.isBug = false ∨ (f = .divZero ∧ effPps a.network sq.maxPps = 0)) ∧
    (∀ st, initState ρ mc ms sq a orc = .ok st → st.slotsOK) := by
  have sideNew : ∀ (m : List Machine) (t0 : Int) (fp fb : F64) (o : σ),
      (∀ f, Side.new ρ m t0 fp fb o = .error f → f.isBug = false) ∧
      (∀ sd o', Side.new ρ m t0 fp fb o = .ok (sd, o') → slotsOK sd.schedAction) := by
    intro m t0 fp fb o
    unfold Side.new
    split
    · exact ⟨fun f h => (by cases h; rfl), fun sd o' h => (by cases h)⟩
    · simp only []
      split
      · exact ⟨fun f h => (by cases h; rfl), fun sd o' h => (by cases h)⟩
      · refine ⟨fun f h => (by cases h), fun sd o' h => ?_⟩
        cases h
        intro x hx
        simp only [List.mem_map] at hx
        obtain ⟨_, _, hx⟩ := hx
        cases hx
  unfold initState
  constructor
  · intro f h
    rw [bind_error_iff] at h
    rcases h with h | ⟨t0, _, h⟩
    · unfold firstTimeE at h
      split at h
      · cases h
      · cases h; exact Or.inl rfl
    · rw [bind_error_iff] at h
      rcases h with h | ⟨⟨c, o1⟩, _, h⟩
      · exact Or.inl ((sideNew _ _ _ _ _).1 f h)
      · rw [bind_error_iff] at h
        rcases h with h | ⟨⟨s, o2⟩, _, h⟩
        · exact Or.inl ((sideNew _ _ _ _ _).1 f h)
        · rw [bind_error_iff] at h
          rcases h with h | ⟨net, _, h⟩
          · unfold Bottleneck.new at h
            simp only [] at h
            split at h
            · rename_i hz
              cases h
              refine Or.inr ⟨rfl, ?_⟩
              unfold effPps
              have : (2 : Nat) ^ 32 - 1 ≠ 0 := by decide
              omega
            · cases h
          · cases h
  · intro st h
    rw [bind_ok_iff] at h
    obtain ⟨t0, _, h⟩ := h
    rw [bind_ok_iff] at h
    obtain ⟨⟨c, o1⟩, hc, h⟩ := h
    rw [bind_ok_iff] at h
    obtain ⟨⟨s, o2⟩, hs, h⟩ := h
    rw [bind_ok_iff] at h
    obtain ⟨net, _, h⟩ := h
    simp only [pure, Except.pure] at h
    cases h
    exact ⟨(sideNew _ _ _ _ _).2 c o1 hc, (sideNew _ _ _ _ _).2 s o2 hs⟩

end
end Mb.Sim
