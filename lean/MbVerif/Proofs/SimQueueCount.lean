/-
  Counting over the event queues: a well-formedness invariant of the routing (`WF`) and the
  number of normal packets still waiting to be sent on a side (`pending`), with their behaviour
  under push and pop.
-/
import MbVerif.Proofs.HeapCount
import MbVerif.Proofs.SimBasic

namespace Mb.Sim
open Mb

def isTS (e : SimEvent) : Bool := e.event == .tunnelSent
def isNS (e : SimEvent) : Bool := e.event == .normalSent
/-- a normal packet that has not left its side yet: a base NormalSent or a normal TunnelSent -/
def wN (e : SimEvent) : Bool := isNS e || (isTS e && !e.containsPadding)

/-- routing invariant of one side's queues (for side `c`): base holds only NormalSent, blocking
    only non-bypass TunnelSent, bypassable only bypass TunnelSent, internal neither kind, and
    every event belongs to the side -/
structure EventQueue.WF (q : EventQueue) (c : Bool) : Prop where
  base : q.base.data.countP (fun e => !isNS e || e.client != c) = 0
  blocking : q.blocking.data.countP (fun e => !isTS e || e.bypass || e.client != c) = 0
  bypassable : q.bypassable.data.countP (fun e => !isTS e || !e.bypass || e.client != c) = 0
  internal : q.internal.data.countP (fun e => isTS e || isNS e || e.client != c) = 0

def EventQueue.pending (q : EventQueue) : Nat :=
  q.base.data.countP wN + q.blocking.data.countP wN + q.bypassable.data.countP wN

theorem b2n_le_one (b : Bool) : b2n b ≤ 1 := by cases b <;> simp [b2n]

theorem countP_zero_of_le {α : Type} {p : α → Bool} {l l' : List α} {k : Nat}
    (h : l.countP p = l'.countP p + k) (hz : l.countP p = 0) : l'.countP p = 0 := by omega

theorem EventQueue.empty_wf (c : Bool) : EventQueue.empty.WF c := ⟨rfl, rfl, rfl, rfl⟩
theorem EventQueue.empty_pending : EventQueue.empty.pending = 0 := rfl

/-- pushing an event of side `c` keeps the routing invariant and adds it to `pending` iff it is
    a waiting normal packet -/
theorem EventQueue.push_spec (q : EventQueue) (c : Bool) (e : SimEvent) (hw : q.WF c) (hc : e.client = c) :
    (q.push e).WF c ∧ (q.push e).pending = q.pending + b2n (wN e) := by
  unfold EventQueue.push
  cases hev : e.event with
  | tunnelSent =>
    simp only []
    by_cases hb : e.bypass = true
    · simp only [hb, if_true]
      constructor
      · refine ⟨hw.base, hw.blocking, ?_, hw.internal⟩
        simp only [EvHeap.push]
        rw [heap_push_countP, hw.bypassable]
        simp [b2n, isTS, hev, hb, hc]
      · simp only [EventQueue.pending, EvHeap.push]
        rw [heap_push_countP]; omega
    · have hb' : e.bypass = false := by simpa using hb
      simp only [hb', Bool.false_eq_true, if_false]
      constructor
      · refine ⟨hw.base, ?_, hw.bypassable, hw.internal⟩
        simp only [EvHeap.push]
        rw [heap_push_countP, hw.blocking]
        simp [b2n, isTS, hev, hb', hc]
      · simp only [EventQueue.pending, EvHeap.push]
        rw [heap_push_countP]; omega
  | normalSent =>
    simp only []
    constructor
    · refine ⟨?_, hw.blocking, hw.bypassable, hw.internal⟩
      simp only [EvHeap.push]
      rw [heap_push_countP, hw.base]
      simp [b2n, isNS, hev, hc]
    · simp only [EventQueue.pending, EvHeap.push]
      rw [heap_push_countP]; omega
  | normalRecv | paddingRecv | tunnelRecv | blockingEnd | paddingSent _ | blockingBegin _ | timerBegin _ | timerEnd _ =>
    simp only []
    constructor
    · refine ⟨hw.base, hw.blocking, hw.bypassable, ?_⟩
      simp only [EvHeap.push]
      rw [heap_push_countP, hw.internal]
      simp [b2n, isTS, isNS, hev, hc]
    · simp only [EventQueue.pending]
      simp [b2n, wN, isTS, isNS, hev]

/-- popping from one of the four heaps: invariant kept, `pending` loses the popped event iff it
    was a waiting normal packet; the popped event belongs to the side and to the heap's kind -/
theorem EventQueue.pop_spec (q q' : EventQueue) (c : Bool) (qi : Queue) (ds : Nat) (e : SimEvent) (hw : q.WF c)
    (h : q.pop qi ds = .ok (some (e, q'))) :
    q'.WF c ∧ q.pending = q'.pending + b2n (wN e) ∧ e.client = c ∧
    (qi = .internal → isTS e = false ∧ isNS e = false) ∧
    (qi = .base → isNS e = true) ∧
    (qi = .blocking → isTS e = true ∧ e.bypass = false) ∧
    (qi = .bypassable → isTS e = true ∧ e.bypass = true) := by
  unfold EventQueue.pop at h
  cases qi with
  | blocking =>
    simp only [] at h
    cases hp : q.blocking.pop with
    | none => simp [hp] at h
    | some pr =>
      obtain ⟨x, hh⟩ := pr
      simp [hp] at h
      obtain ⟨hx, hq⟩ := h
      subst hx; subst hq
      have hc1 := heap_pop_countP (fun e => !isTS e || e.bypass || e.client != c) SimEvent.le hp
      have hc2 := heap_pop_countP wN SimEvent.le hp
      have hz := hw.blocking
      have hx0 : b2n (!isTS x || x.bypass || x.client != c) = 0 := by omega
      have hx1 : isTS x = true ∧ x.bypass = false ∧ x.client = c := by
        unfold b2n at hx0
        split at hx0
        · omega
        · rename_i hf; simpa [and_assoc] using hf
      refine ⟨⟨hw.base, (by show hh.data.countP _ = 0; omega), hw.bypassable, hw.internal⟩, ?_, hx1.2.2, by simp, by simp, fun _ => ⟨hx1.1, hx1.2.1⟩, by simp⟩
      simp only [EventQueue.pending]; omega
  | bypassable =>
    simp only [] at h
    cases hp : q.bypassable.pop with
    | none => simp [hp] at h
    | some pr =>
      obtain ⟨x, hh⟩ := pr
      simp [hp] at h
      obtain ⟨hx, hq⟩ := h
      subst hx; subst hq
      have hc1 := heap_pop_countP (fun e => !isTS e || !e.bypass || e.client != c) SimEvent.le hp
      have hc2 := heap_pop_countP wN SimEvent.le hp
      have hz := hw.bypassable
      have hx0 : b2n (!isTS x || !x.bypass || x.client != c) = 0 := by omega
      have hx1 : isTS x = true ∧ x.bypass = true ∧ x.client = c := by
        unfold b2n at hx0
        split at hx0
        · omega
        · rename_i hf; simpa [and_assoc] using hf
      refine ⟨⟨hw.base, hw.blocking, (by show hh.data.countP _ = 0; omega), hw.internal⟩, ?_, hx1.2.2, by simp, by simp, by simp, fun _ => ⟨hx1.1, hx1.2.1⟩⟩
      simp only [EventQueue.pending]; omega
  | internal =>
    simp only [] at h
    cases hp : q.internal.pop with
    | none => simp [hp] at h
    | some pr =>
      obtain ⟨x, hh⟩ := pr
      simp [hp] at h
      obtain ⟨hx, hq⟩ := h
      subst hx; subst hq
      have hc1 := heap_pop_countP (fun e => isTS e || isNS e || e.client != c) SimEvent.le hp
      have hz := hw.internal
      have hx0 : b2n (isTS x || isNS x || x.client != c) = 0 := by omega
      have hx1 : isTS x = false ∧ isNS x = false ∧ x.client = c := by
        unfold b2n at hx0
        split at hx0
        · omega
        · rename_i hf; simpa [and_assoc] using hf
      refine ⟨⟨hw.base, hw.blocking, hw.bypassable, (by show hh.data.countP _ = 0; omega)⟩, ?_, hx1.2.2, fun _ => ⟨hx1.1, hx1.2.1⟩, by simp, by simp, by simp⟩
      simp [EventQueue.pending, wN, hx1.1, hx1.2.1, b2n]
  | base =>
    simp only [] at h
    cases hp : q.base.pop with
    | none =>
      simp only [hp] at h
      split at h <;> cases h
    | some pr =>
      obtain ⟨x, hh⟩ := pr
      simp [hp] at h
      obtain ⟨hx, hq⟩ := h
      subst hx; subst hq
      have hc1 := heap_pop_countP (fun e => !isNS e || e.client != c) SimEvent.le hp
      have hc2 := heap_pop_countP wN SimEvent.le hp
      have hz := hw.base
      have hx0 : b2n (!isNS x || x.client != c) = 0 := by omega
      have hx1 : isNS x = true ∧ x.client = c := by
        unfold b2n at hx0
        split at hx0
        · omega
        · rename_i hf; simpa [and_assoc] using hf
      have hwn : wN { x with time := x.time + ↑ds } = wN x := rfl
      refine ⟨⟨(by show hh.data.countP _ = 0; omega), hw.blocking, hw.bypassable, hw.internal⟩, ?_, hx1.2, by simp, fun _ => hx1.1, by simp, by simp⟩
      rw [hwn]
      simp only [EventQueue.pending]; omega

end Mb.Sim
