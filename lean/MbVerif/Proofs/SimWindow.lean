/-
  The window-covering lemma of C14 (S1): for a time-ordered list of packet times, the number of
  packets in any closed window of length `k·w` ending at a packet is at most `k` times the
  largest number of packets in a closed window of length `w` ending at a packet.  With `w` =
  100 ms and `k` = 10 this says that the trace-derived limit `10 · max₁₀₀ms` of `parse_trace` is
  never exceeded by the 1 s window of the bottleneck when it is fed the same times.
-/
import MbVerif.Sim.Main

namespace Mb.Sim
open Mb

/-- `o` is inside the closed window of length `w` that ends at `y` (as `WindowCount` tests it) -/
def inWin (w : Nat) (y o : Int) : Bool := decide (dsince y o ≤ w)

/-- the count `WindowCount::add` returns at `y` after the earlier times `pre` (time-ordered input) -/
def cnt (w : Nat) (pre : List Int) (y : Int) : Nat := ((pre ++ [y]).filter (inWin w y)).length

/-- feed a list of times to a window, collecting the returned counts -/
def feedCounts (w : WindowCount) : List Int → List Nat
  | [] => []
  | x :: r => (w.add x).1 :: feedCounts (w.add x).2 r

/-- the same counts, specified by filtering the prefix -/
def specCounts (w : Nat) (pre : List Int) : List Int → List Nat
  | [] => []
  | y :: r => cnt w pre y :: specCounts w (pre ++ [y]) r

def Asc (l : List Int) : Prop := l.Pairwise (· ≤ ·)

theorem inWin_mono {w : Nat} {y z o : Int} (hyz : y ≤ z) (h : inWin w z o = true) : inWin w y o = true := by
  unfold inWin dsince durSince at *
  simp only [decide_eq_true_eq] at *
  omega

/-- on an ascending list whose elements are at most `now`, pruning from the front is filtering -/
theorem prune_eq_filter (w : Nat) (now : Int) : ∀ (l : List Int), Asc l → (∀ o ∈ l, o ≤ now) →
    WindowCount.prune w now l = l.filter (inWin w now) := by
  intro l
  induction l with
  | nil => intro _ _; rfl
  | cons o r ih =>
    intro hasc hle
    have hr : Asc r := (List.pairwise_cons.1 hasc).2
    have ho := (List.pairwise_cons.1 hasc).1
    unfold WindowCount.prune
    by_cases hgt : dsince now o > w
    · simp only [hgt, if_true]
      rw [ih hr (fun x hx => hle x (List.mem_cons_of_mem _ hx))]
      have : inWin w now o = false := by simp [inWin]; omega
      simp [List.filter_cons, this]
    · simp only [hgt, if_false]
      have hall : ∀ x ∈ o :: r, inWin w now x = true := by
        intro x hx
        simp only [List.mem_cons] at hx
        have hox : o ≤ x := by
          rcases hx with hx | hx
          · omega
          · exact ho x hx
        have hxn := hle x (by simp only [List.mem_cons]; exact hx)
        unfold inWin dsince durSince at *
        simp only [decide_eq_true_eq]
        omega
      exact (List.filter_eq_self.2 hall).symm

/-- what the window remembers is equivalent, for all later windows, to the whole prefix -/
structure WInv (w : Nat) (stamps pre : List Int) : Prop where
  asc : Asc stamps
  sub : ∀ o ∈ stamps, o ∈ pre
  eqv : ∀ y, (∀ o ∈ pre, o ≤ y) → stamps.filter (inWin w y) = pre.filter (inWin w y)

theorem feedCounts_eq_spec (w : Nat) : ∀ (L : List Int) (stamps pre : List Int), WInv w stamps pre →
    Asc (pre ++ L) → feedCounts ⟨w, stamps⟩ L = specCounts w pre L := by
  intro L
  induction L with
  | nil => intro _ _ _ _; rfl
  | cons y r ih =>
    intro stamps pre hinv hasc
    have hpre_le : ∀ o ∈ pre, o ≤ y := by
      intro o ho
      have := List.pairwise_append.1 hasc
      exact this.2.2 o ho y (by simp)
    have hst_le : ∀ o ∈ stamps ++ [y], o ≤ y := by
      intro o ho
      simp only [List.mem_append, List.mem_singleton] at ho
      rcases ho with ho | ho
      · exact hpre_le o (hinv.sub o ho)
      · omega
    have hst_asc : Asc (stamps ++ [y]) := by
      unfold Asc
      rw [List.pairwise_append]
      refine ⟨hinv.asc, by simp, ?_⟩
      intro a ha b hb
      simp only [List.mem_singleton] at hb
      subst hb
      exact hpre_le a (hinv.sub a ha)
    have hadd : (WindowCount.add ⟨w, stamps⟩ y) =
        (((stamps ++ [y]).filter (inWin w y)).length, ⟨w, (stamps ++ [y]).filter (inWin w y)⟩) := by
      unfold WindowCount.add
      simp only []
      rw [prune_eq_filter w y _ hst_asc hst_le]
    have hself : inWin w y y = true := by simp [inWin, dsince, durSince]
    simp only [feedCounts, specCounts, hadd]
    congr 1
    · -- the count
      unfold cnt
      simp only [List.filter_append, List.length_append]
      rw [hinv.eqv y hpre_le]
    · -- the rest, with the invariant re-established
      apply ih
      · refine ⟨List.Pairwise.filter _ hst_asc, ?_, ?_⟩
        · intro o ho
          have := (List.mem_filter.1 ho).1
          simp only [List.mem_append, List.mem_singleton] at this ⊢
          rcases this with h | h
          · exact Or.inl (hinv.sub o h)
          · exact Or.inr h
        · intro z hz
          have hyz : y ≤ z := hz y (by simp)
          have hpz : ∀ o ∈ pre, o ≤ z := fun o ho => hz o (by simp [ho])
          rw [List.filter_filter]
          have hcongr : (stamps ++ [y]).filter (fun o => inWin w z o && inWin w y o) =
              (stamps ++ [y]).filter (inWin w z) := by
            apply List.filter_congr
            intro o _
            by_cases h : inWin w z o = true
            · simp [h, inWin_mono hyz h]
            · simp [h]
          rw [hcongr, List.filter_append, List.filter_append, hinv.eqv z hpz]
      · simpa [List.append_assoc] using hasc

theorem feedCounts_empty (w : Nat) (L : List Int) (h : Asc L) : feedCounts ⟨w, []⟩ L = specCounts w [] L :=
  feedCounts_eq_spec w L [] [] ⟨List.Pairwise.nil, by simp, by simp⟩ (by simpa using h)

/-- every specified count is the count at some split point -/
theorem mem_specCounts {w : Nat} : ∀ (L pre : List Int) (c : Nat), c ∈ specCounts w pre L ↔
    ∃ P y R, L = P ++ y :: R ∧ c = cnt w (pre ++ P) y := by
  intro L
  induction L with
  | nil => intro pre c; simp [specCounts]
  | cons x r ih =>
    intro pre c
    simp only [specCounts, List.mem_cons]
    constructor
    · rintro (h | h)
      · exact ⟨[], x, r, rfl, by simpa using h⟩
      · obtain ⟨P, y, R, hL, hc⟩ := (ih _ c).1 h
        exact ⟨x :: P, y, R, by simp [hL], by simpa [List.append_assoc] using hc⟩
    · rintro ⟨P, y, R, hL, hc⟩
      cases P with
      | nil =>
        simp only [List.nil_append, List.cons.injEq] at hL
        left; rw [hc, hL.1]; simp
      | cons p P' =>
        simp only [List.cons_append, List.cons.injEq] at hL
        right
        apply (ih _ c).2
        exact ⟨P', y, R, hL.2, by rw [hc, hL.1]; simp [List.append_assoc]⟩

/-! ### the covering argument -/

/-- the last element of a list satisfying a predicate -/
theorem filter_last_decomp {α : Type} (r : α → Bool) : ∀ (l : List α),
    l.filter r = [] ∨ ∃ P1 z P2, l = P1 ++ z :: P2 ∧ r z = true ∧ P2.filter r = [] := by
  intro l
  induction l with
  | nil => left; rfl
  | cons a t ih =>
    rcases ih with h | ⟨P1, z, P2, hl, hz, hP2⟩
    · by_cases ha : r a = true
      · right; exact ⟨[], a, t, rfl, ha, h⟩
      · left; simp [ha, h]
    · right; exact ⟨a :: P1, z, P2, by simp [hl], hz, hP2⟩

/-- splitting a threshold filter at a lower threshold -/
theorem filter_split {α : Type} (d : α → Nat) (b1 b2 : Nat) (h : b1 ≤ b2) : ∀ (l : List α),
    (l.filter fun x => decide (d x ≤ b2)).length =
      (l.filter fun x => decide (d x ≤ b1)).length + (l.filter fun x => decide (b1 < d x) && decide (d x ≤ b2)).length := by
  intro l
  induction l with
  | nil => rfl
  | cons a t ih =>
    simp only [List.filter_cons]
    by_cases h1 : d a ≤ b1
    · have h2 : d a ≤ b2 := by omega
      have h3 : ¬ b1 < d a := by omega
      simp [h1, h2, h3, ih]; omega
    · by_cases h2 : d a ≤ b2
      · have h3 : b1 < d a := by omega
        simp [h1, h2, h3, ih]; omega
      · simp [h1, h2, ih]

/-- **One bucket**: the elements of an ascending list `Q` (all at most `y`) whose distance to `y`
    lies in `(lo, lo + w]` number at most `M`, if `M` bounds the `w`-window count at every
    element of `Q`. -/
theorem bucket_le (w M lo : Nat) (y : Int) (Q : List Int) (hasc : Asc Q) (hle : ∀ o ∈ Q, o ≤ y)
    (hbound : lo + w < durMax)
    (hM : ∀ P1 z P2, Q = P1 ++ z :: P2 → cnt w P1 z ≤ M) :
    (Q.filter fun o => decide (lo < dsince y o) && decide (dsince y o ≤ lo + w)).length ≤ M := by
  rcases filter_last_decomp (fun o => decide (lo < dsince y o) && decide (dsince y o ≤ lo + w)) Q with h | ⟨P1, z, P2, hQ, hz, hP2⟩
  · rw [h]; exact Nat.zero_le _
  · have hcnt := hM P1 z P2 hQ
    rw [hQ, List.filter_append, List.filter_cons, hz]
    simp only [if_true, List.length_append, List.length_cons, hP2, List.length_nil]
    unfold cnt at hcnt
    rw [List.filter_append] at hcnt
    have hself : inWin w z z = true := by simp [inWin, dsince, durSince]
    simp only [List.filter_cons, hself, if_true, List.filter_nil, List.length_append, List.length_cons, List.length_nil] at hcnt
    -- every bucket element before `z` is inside the `w`-window of `z`
    have himp : (P1.filter fun o => decide (lo < dsince y o) && decide (dsince y o ≤ lo + w)).length ≤
        (P1.filter (inWin w z)).length := by
      rw [← List.countP_eq_length_filter, ← List.countP_eq_length_filter]
      apply List.countP_mono_left
      intro o ho hr
      have hoz : o ≤ z := by
        rw [hQ] at hasc
        have := (List.pairwise_append.1 hasc).2.2 o ho z (by simp)
        exact this
      have hzy : z ≤ y := hle z (by rw [hQ]; simp)
      simp only [Bool.and_eq_true, decide_eq_true_eq] at hr hz
      unfold inWin dsince durSince at *
      simp only [decide_eq_true_eq]
      omega
    omega

/-- **Window covering**: for an ascending list `Q` ending at `y`, the closed window of length
    `(k+1)·w` ending at `y` holds at most `(k+1)·M` elements, if every closed window of length `w`
    ending at an element of `Q` holds at most `M`. -/
theorem covering (w M : Nat) (y : Int) (Q : List Int) (hasc : Asc Q) (hle : ∀ o ∈ Q, o ≤ y)
    (hM : ∀ P1 z P2, Q = P1 ++ z :: P2 → cnt w P1 z ≤ M) (hlast : ∃ P, Q = P ++ [y]) :
    ∀ k, (k + 1) * w < durMax → (Q.filter fun o => decide (dsince y o ≤ (k + 1) * w)).length ≤ (k + 1) * M := by
  intro k
  induction k with
  | zero =>
    intro _
    obtain ⟨P, hP⟩ := hlast
    have := hM P y [] (by simpa using hP)
    unfold cnt at this
    rw [← hP] at this
    have h1 : (0 + 1) * w = w := by omega
    have h2 : (0 + 1) * M = M := by omega
    rw [h1, h2]
    exact this
  | succ k ih =>
    intro hbd
    have heq : (k + 1 + 1) * w = (k + 1) * w + w := Nat.succ_mul _ _
    have heqM : (k + 1 + 1) * M = (k + 1) * M + M := Nat.succ_mul _ _
    have ih' := ih (by omega)
    have hb := bucket_le w M ((k + 1) * w) y Q hasc hle (by omega) hM
    rw [filter_split (fun o => dsince y o) ((k + 1) * w) ((k + 1 + 1) * w) (by omega)]
    rw [heqM]
    rw [heq]
    omega

/-- **S1 (window covering) on the model's `WindowCount`**: feed a time-ordered list to a window
    of length `w` and let `M` bound every returned count; feed the same list to a window of
    length `(k+1)·w`: every count is at most `(k+1)·M`. -/
theorem feedCounts_covering (w M k : Nat) (L : List Int) (hasc : Asc L) (hbd : (k + 1) * w < durMax)
    (hM : ∀ c ∈ feedCounts ⟨w, []⟩ L, c ≤ M) :
    ∀ c ∈ feedCounts ⟨(k + 1) * w, []⟩ L, c ≤ (k + 1) * M := by
  rw [feedCounts_empty _ L hasc] at hM ⊢
  intro c hc
  obtain ⟨P, y, R, hL, hcc⟩ := (mem_specCounts L [] c).1 hc
  simp only [List.nil_append] at hcc
  subst hcc
  have hascQ : Asc (P ++ [y]) := by
    rw [hL] at hasc
    have : P ++ y :: R = (P ++ [y]) ++ R := by simp
    rw [this] at hasc
    exact (List.pairwise_append.1 hasc).1
  have hleQ : ∀ o ∈ P ++ [y], o ≤ y := by
    intro o ho
    simp only [List.mem_append, List.mem_singleton] at ho
    rcases ho with ho | ho
    · exact (List.pairwise_append.1 hascQ).2.2 o ho y (by simp)
    · omega
  have hMQ : ∀ P1 z P2, P ++ [y] = P1 ++ z :: P2 → cnt w P1 z ≤ M := by
    intro P1 z P2 hq
    apply hM
    apply (mem_specCounts L [] _).2
    refine ⟨P1, z, P2 ++ R, ?_, by simp⟩
    rw [hL]
    have : P ++ y :: R = (P ++ [y]) ++ R := by simp
    rw [this, hq]; simp
  have := covering w M y (P ++ [y]) hascQ hleQ hMQ ⟨P, rfl⟩ k hbd
  unfold cnt
  exact this

/-- shifting all times by a constant does not change any count (the server sees the client's
    receive times one network delay earlier) -/
theorem feedCounts_shift (w : Nat) (d : Int) : ∀ (L stamps : List Int),
    feedCounts ⟨w, stamps.map (· + d)⟩ (L.map (· + d)) = feedCounts ⟨w, stamps⟩ L := by
  have hprune : ∀ (now : Int) (l : List Int),
      WindowCount.prune w (now + d) (l.map (· + d)) = (WindowCount.prune w now l).map (· + d) := by
    intro now l
    induction l with
    | nil => rfl
    | cons o r ih =>
      simp only [List.map_cons, WindowCount.prune]
      have : dsince (now + d) (o + d) = dsince now o := by unfold dsince durSince; congr 2; omega
      rw [this]
      split
      · exact ih
      · rfl
  intro L
  induction L with
  | nil => intro _; rfl
  | cons x r ih =>
    intro stamps
    simp only [List.map_cons, feedCounts, WindowCount.add]
    have h1 : stamps.map (· + d) ++ [x + d] = (stamps ++ [x]).map (· + d) := by simp
    rw [h1, hprune]
    simp only [List.length_map]
    congr 1
    exact ih _

end Mb.Sim

namespace Mb.Sim
open Mb

/-- feeding a window while tracking the running maximum, as `parse_trace` does -/
def runMax (wm : WindowCount × Nat) (L : List Int) : WindowCount × Nat :=
  L.foldl (fun (wm : WindowCount × Nat) x =>
    ((wm.1.add x).2, if (wm.1.add x).1 > wm.2 then (wm.1.add x).1 else wm.2)) wm

theorem runMax_ge : ∀ (L : List Int) (wm : WindowCount × Nat),
    wm.2 ≤ (runMax wm L).2 ∧ ∀ c ∈ feedCounts wm.1 L, c ≤ (runMax wm L).2 := by
  intro L
  induction L with
  | nil => intro wm; exact ⟨Nat.le_refl _, by simp [feedCounts]⟩
  | cons x r ih =>
    intro wm
    simp only [runMax, List.foldl_cons, feedCounts]
    have := ih ((wm.1.add x).2, if (wm.1.add x).1 > wm.2 then (wm.1.add x).1 else wm.2)
    simp only [runMax] at this
    constructor
    · refine Nat.le_trans ?_ this.1
      show wm.2 ≤ if (wm.1.add x).1 > wm.2 then (wm.1.add x).1 else wm.2
      split <;> omega
    · intro c hc
      simp only [List.mem_cons] at hc
      rcases hc with hc | hc
      · subst hc
        refine Nat.le_trans ?_ this.1
        show (wm.1.add x).1 ≤ if (wm.1.add x).1 > wm.2 then (wm.1.add x).1 else wm.2
        split <;> omega
      · exact this.2 c hc

/-- the client-sent and client-received times of a trace -/
def sTimes (trace : List TraceLine) : List Int := (trace.filter (·.2)).map fun l => (l.1 : Int)
def rTimes (trace : List TraceLine) : List Int := (trace.filter (!·.2)).map fun l => (l.1 : Int)

/-- the two windows and maxima of `parse_trace` after a trace are the result of feeding the sent
    times and the received times separately -/
theorem parse_fold_windows (delay : Nat) : ∀ (trace : List TraceLine) (acc : ParseAcc),
    let acc' := trace.foldl (fun (acc : ParseAcc) (l : TraceLine) =>
      let ts : Int := l.1
      if l.2 then
        let sq := acc.sq.pushSim ⟨.normalSent, ts, true, false, false, false⟩
        let (m, w) := acc.sentW.add ts
        { acc with sq := sq, sentW := w, sentMax := if m > acc.sentMax then m else acc.sentMax }
      else
        let sq := acc.sq.pushSim ⟨.normalSent, ts - delay, false, false, false, false⟩
        let (m, w) := acc.recvW.add ts
        { acc with sq := sq, recvW := w, recvMax := if m > acc.recvMax then m else acc.recvMax }) acc
    (acc'.sentW, acc'.sentMax) = runMax (acc.sentW, acc.sentMax) (sTimes trace) ∧
    (acc'.recvW, acc'.recvMax) = runMax (acc.recvW, acc.recvMax) (rTimes trace) := by
  intro trace
  induction trace with
  | nil => intro acc; exact ⟨rfl, rfl⟩
  | cons l ls ih =>
    intro acc
    simp only [List.foldl_cons]
    by_cases hl : l.2 = true
    · simp only [hl, if_true]
      have := ih { acc with sq := acc.sq.pushSim ⟨.normalSent, (l.1 : Int), true, false, false, false⟩,
                            sentW := (acc.sentW.add l.1).2,
                            sentMax := if (acc.sentW.add l.1).1 > acc.sentMax then (acc.sentW.add l.1).1 else acc.sentMax }
      simp only [] at this
      refine ⟨?_, ?_⟩
      · rw [this.1]; simp [sTimes, List.filter_cons, hl, runMax]
      · rw [this.2]; simp [rTimes, List.filter_cons, hl]
    · have hl' : l.2 = false := by simpa using hl
      simp only [hl', Bool.false_eq_true, if_false]
      have := ih { acc with sq := acc.sq.pushSim ⟨.normalSent, (l.1 : Int) - delay, false, false, false, false⟩,
                            recvW := (acc.recvW.add l.1).2,
                            recvMax := if (acc.recvW.add l.1).1 > acc.recvMax then (acc.recvW.add l.1).1 else acc.recvMax }
      simp only [] at this
      refine ⟨?_, ?_⟩
      · rw [this.1]; simp [sTimes, List.filter_cons, hl']
      · rw [this.2]; simp [rTimes, List.filter_cons, hl', runMax]

/-- the limit `parse_trace` derives dominates `PPS_FACTOR` times every parse-window count of the
    sent times and of the received times -/
theorem parseTrace_limit (trace : List TraceLine) (delay : Nat) :
    ∃ lim, (parseTrace trace delay).maxPps = some lim ∧
      (∀ c ∈ feedCounts ⟨Gen.SIM_PARSE_WINDOW_NS, []⟩ (sTimes trace), c * Gen.SIM_PARSE_PPS_FACTOR ≤ lim) ∧
      (∀ c ∈ feedCounts ⟨Gen.SIM_PARSE_WINDOW_NS, []⟩ (rTimes trace), c * Gen.SIM_PARSE_PPS_FACTOR ≤ lim) := by
  unfold parseTrace
  simp only []
  have h := parse_fold_windows delay trace
    ⟨SimQueue.empty, ⟨Gen.SIM_PARSE_WINDOW_NS, []⟩, ⟨Gen.SIM_PARSE_WINDOW_NS, []⟩, 0, 0⟩
  simp only [] at h
  refine ⟨_, rfl, ?_, ?_⟩
  · intro c hc
    have h1 := (runMax_ge (sTimes trace) (⟨Gen.SIM_PARSE_WINDOW_NS, []⟩, 0)).2 c hc
    have h2 := congrArg Prod.snd h.1
    simp only [] at h2
    rw [← h2] at h1
    apply Nat.mul_le_mul_right
    exact Nat.le_trans h1 (Nat.le_max_left _ _)
  · intro c hc
    have h1 := (runMax_ge (rTimes trace) (⟨Gen.SIM_PARSE_WINDOW_NS, []⟩, 0)).2 c hc
    have h2 := congrArg Prod.snd h.2
    simp only [] at h2
    rw [← h2] at h1
    apply Nat.mul_le_mul_right
    exact Nat.le_trans h1 (Nat.le_max_right _ _)

end Mb.Sim
