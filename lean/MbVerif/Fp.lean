/-
  IEEE-754 binary32/binary64 model on core `Rat`.

  Floats are carried as bit patterns (`F32 = UInt32`, `F64 = UInt64`) and
  interpreted as `FV` (NaN, ±inf, or a finite rational).  Every arithmetic
  operation the Rust code performs is one correctly-rounded step
  (`rne p emin`, round-to-nearest-even to `p` significant bits with minimum
  ulp exponent `emin`, overflow to infinity at `2^emax`).

  The sign of zero is not tracked (`-0.0` and `0.0` are both `fin 0`): none of
  the modelled code can observe it (comparisons treat them as equal, `round`
  and `as u64` map both to 0).
-/
namespace Mb

abbrev F32 := UInt32
abbrev F64 := UInt64

/-- value of a float -/
inductive FV where
  | nan
  | inf (neg : Bool)
  | fin (q : Rat)
  deriving Repr, DecidableEq, Inhabited

namespace Fp

/-- 2^e as a rational, for any integer e -/
def pow2 (e : Int) : Rat :=
  if e ≥ 0 then ((2 ^ e.toNat : Nat) : Rat) else 1 / ((2 ^ (-e).toNat : Nat) : Rat)

/-- floor(log2 q) for q > 0 -/
def ilog2 (q : Rat) : Int :=
  let n := q.num.toNat
  let d := q.den
  let e0 : Int := (Nat.log2 n : Int) - (Nat.log2 d : Int)
  -- floor(log2 (n/d)) ∈ {e0 - 1, e0}
  if pow2 e0 ≤ q then e0 else e0 - 1

/-- round a non-negative rational to the nearest integer, ties to even -/
def roundHalfEven (s : Rat) : Int :=
  let f := s.floor
  let r := s - (f : Rat)
  if r < 1/2 then f
  else if 1/2 < r then f + 1
  else if f % 2 = 0 then f else f + 1

/-- round-to-nearest-even to `p` significant bits, ulp exponent at least `emin` -/
def rne (p : Nat) (emin : Int) (q : Rat) : Rat :=
  if q = 0 then 0 else
  let a := if q < 0 then -q else q
  let e := max (ilog2 a - ((p : Int) - 1)) emin
  let m := roundHalfEven (a / pow2 e)
  let r := (m : Rat) * pow2 e
  if q < 0 then -r else r

/-- format parameters -/
structure Fmt where
  p : Nat      -- significand bits incl. hidden
  emin : Int   -- exponent of the smallest subnormal ulp
  emax : Int   -- overflow threshold 2^emax
  deriving Repr

def f64 : Fmt := { p := 53, emin := -1074, emax := 1024 }
def f32 : Fmt := { p := 24, emin := -149, emax := 128 }

/-- round an exact rational into the format (overflow gives infinity) -/
def Fmt.round (f : Fmt) (q : Rat) : FV :=
  let r := rne f.p f.emin q
  if pow2 f.emax ≤ r then .inf false
  else if r ≤ -(pow2 f.emax) then .inf true
  else .fin r

/-- decode an IEEE bit pattern with `ebits` exponent bits and `mbits` mantissa bits -/
def decodeBits (ebits mbits : Nat) (b : Nat) : FV :=
  let mant := b % 2 ^ mbits
  let ex := (b / 2 ^ mbits) % 2 ^ ebits
  let neg := (b / 2 ^ (mbits + ebits)) % 2 = 1
  let bias : Int := (2 ^ (ebits - 1) - 1 : Nat)
  if ex = 2 ^ ebits - 1 then
    if mant = 0 then .inf neg else .nan
  else
    let mag : Rat :=
      if ex = 0 then (mant : Rat) * pow2 (1 - bias - (mbits : Int))
      else ((2 ^ mbits + mant : Nat) : Rat) * pow2 ((ex : Int) - bias - (mbits : Int))
    .fin (if neg then -mag else mag)

def val64 (b : F64) : FV := decodeBits 11 52 b.toNat
def val32 (b : F32) : FV := decodeBits 8 23 b.toNat

/-- f32 → f64 conversion is exact -/

def isNan : FV → Bool
  | .nan => true
  | _ => false

def isInf : FV → Bool
  | .inf _ => true
  | _ => false

/-- IEEE `<` (false if either is NaN) -/
def lt : FV → FV → Bool
  | .nan, _ => false
  | _, .nan => false
  | .inf a, .inf b => a && !b
  | .inf a, .fin _ => a
  | .fin _, .inf b => !b
  | .fin a, .fin b => decide (a < b)

/-- IEEE `<=` -/
def le : FV → FV → Bool
  | .nan, _ => false
  | _, .nan => false
  | .inf a, .inf b => a || !b
  | .inf a, .fin _ => a
  | .fin _, .inf b => !b
  | .fin a, .fin b => decide (a ≤ b)

def gt (a b : FV) : Bool := lt b a
def ge (a b : FV) : Bool := le b a

/-- IEEE `==` -/
def feq : FV → FV → Bool
  | .nan, _ => false
  | _, .nan => false
  | .inf a, .inf b => a == b
  | .fin a, .fin b => decide (a = b)
  | _, _ => false

/-- Rust `f64::max`: NaN-ignoring -/
def fmax (a b : FV) : FV :=
  match a, b with
  | .nan, b => b
  | a, .nan => a
  | a, b => if lt a b then b else a

/-- Rust `f64::min`: NaN-ignoring -/
def fmin (a b : FV) : FV :=
  match a, b with
  | .nan, b => b
  | a, .nan => a
  | a, b => if lt b a then b else a

def add (f : Fmt) : FV → FV → FV
  | .nan, _ => .nan
  | _, .nan => .nan
  | .inf a, .inf b => if a == b then .inf a else .nan
  | .inf a, .fin _ => .inf a
  | .fin _, .inf b => .inf b
  | .fin a, .fin b => f.round (a + b)

def neg : FV → FV
  | .nan => .nan
  | .inf a => .inf (!a)
  | .fin q => .fin (-q)

def sub (f : Fmt) (a b : FV) : FV := add f a (neg b)

/-- is the finite value negative (sign of zero not tracked: zero counts as positive) -/
def isNeg : FV → Bool
  | .inf a => a
  | .fin q => decide (q < 0)
  | .nan => false

def div (f : Fmt) : FV → FV → FV
  | .nan, _ => .nan
  | _, .nan => .nan
  | .inf _, .inf _ => .nan
  | .inf a, .fin q => .inf (a != decide (q < 0))
  | .fin _, .inf _ => .fin 0
  | .fin a, .fin b =>
    if b = 0 then (if a = 0 then .nan else .inf (decide (a < 0)))
    else f.round (a / b)

def mul (f : Fmt) : FV → FV → FV
  | .nan, _ => .nan
  | _, .nan => .nan
  | .inf a, .inf b => .inf (a != b)
  | .inf a, .fin q => if q = 0 then .nan else .inf (a != decide (q < 0))
  | .fin q, .inf b => if q = 0 then .nan else .inf (b != decide (q < 0))
  | .fin a, .fin b => f.round (a * b)

/-- u64 → f64 (`as f64`): round to nearest even -/
def ofNat (f : Fmt) (n : Nat) : FV := f.round (n : Rat)

/-- Rust `f64::round`: half away from zero -/
def fround : FV → FV
  | .fin q =>
    if q < 0 then .fin (-(((-q) + 1/2).floor : Rat)) else .fin ((q + 1/2).floor : Rat)
  | v => v

def u64Max : Nat := 2 ^ 64 - 1

/-- Rust `as u64` from f64: NaN → 0, saturating, truncating -/
def toU64 : FV → Nat
  | .nan => 0
  | .inf true => 0
  | .inf false => u64Max
  | .fin q =>
    if q < 0 then 0
    else
      let t := q.floor.toNat
      if t > u64Max then u64Max else t

end Fp
end Mb
