/-
  C09 — signals. Monitor from the property text, over the observed internal log of one call.
-/
import MbVerif.Trace

namespace Mb.C09
open Mb

def dedup (l : List Nat) : List Nat := l.foldl (fun acc x => if acc.contains x then acc else acc ++ [x]) []

/-- machines that transitioned to the signal pseudo-state on an event other than Signal -/
def signallers (log : List LogEntry) : List Nat :=
  dedup (log.filterMap fun e => match e with
    | .sampled mi ev next => if next == STATE_SIGNAL && ev != Gen.EV_Signal then some mi else none
    | _ => none)

/-- machines that answered a delivered Signal by signalling -/
def responders (log : List LogEntry) : List Nat :=
  dedup (log.filterMap fun e => match e with
    | .sampled mi ev next => if next == STATE_SIGNAL && ev == Gen.EV_Signal then some mi else none
    | _ => none)

/-- Signal events delivered to `mi` while it had not ended -/
def deliveries (log : List LogEntry) (mi : Nat) : Nat :=
  log.countP fun e => match e with
    | .trans m ev st => m == mi && ev == Gen.EV_Signal && st != STATE_END
    | _ => false

/-- check one call. `pending` is the signal left over by the previous call; `liveAtEnd i` says
    machine `i` is not in END after the call. Returns a description of the first failure. -/
def checkCall (n : Nat) (pending : Option SignalTarget) (log : List LogEntry) (liveAtEnd : Nat → Bool) :
    Option String :=
  let sigs := signallers log
  let resp := responders log
  let k : List Nat := match pending with
    | some (.allExcept x) => dedup (sigs ++ [x])
    | _ => sigs
  let many := pending == some .all || k.length ≥ 2
  let ms := List.range n
  match ms.find? (fun i => deliveries log i > 1) with
  | some i => some s!"machine {i} received more than one Signal"
  | none =>
  if many then
    match ms.find? (fun i => liveAtEnd i && deliveries log i != 1) with
    | some i => some s!"several signallers but live machine {i} received {deliveries log i} Signals"
    | none => none
  else match k with
  | [] =>
    match ms.find? (fun i => deliveries log i != 0) with
    | some i => some s!"no signaller but machine {i} received a Signal"
    | none => none
  | x :: _ =>
    match ms.find? (fun i => i != x && liveAtEnd i && deliveries log i != 1) with
    | some i => some s!"lone signaller {x} but live machine {i} received {deliveries log i} Signals"
    | none =>
      let answered := resp.any (fun y => y != x)
      if answered then
        if liveAtEnd x && deliveries log x != 1 then some s!"lone signaller {x} was answered but received {deliveries log x} Signals" else none
      else if deliveries log x != 0 then some s!"lone signaller {x} received its own Signal (signalled {sigs.length} distinct, not answered)"
      else none

def monitor (t : FwTrace) : Option String :=
  let n := t.machines.length
  let rec go (i : Nat) (pending : Option SignalTarget) : List CallRec → Option String
    | [] => none
    | c :: cs =>
      if c.res != .ok then none else
      let live := fun j => match c.snap.rts[j]? with
        | some r => r.state != STATE_END
        | none => false
      match checkCall n pending c.log live with
      | some msg => some s!"call {i}: {msg}"
      | none => go (i + 1) c.snap.signalPending cs
  go 1 t.snap0.signalPending t.calls

end Mb.C09
