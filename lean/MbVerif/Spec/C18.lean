/-
  C18 — internal timers.  From the property text: each TimerBegin follows an UpdateTimer action
  returned for that machine at that same instant; whenever such an action sets or changes the
  machine's internal timer (replace, no timer running, or a later expiry than the one running)
  a TimerBegin is reported at that instant; TimerEnd is reported exactly once, exactly at the
  expiry computed by that rule, and never for a timer that was cancelled or superseded.
-/
import MbVerif.Spec.SimCommon

namespace Mb.C18
open Mb Mb.Sim Mb.SimSpec

/-- the UpdateTimer rule of the contract: new expiry, and whether the timer was set or changed -/
def timerSpec (cur : Option Int) (t : Int) (durNs : Nat) (replace : Bool) : Option Int × Bool :=
  match cur with
  | none => (some (t + durNs), true)
  | some exp => if replace || t + durNs > exp then (some (t + durNs), true) else (some exp, false)

structure SideSt where
  /-- running timer expiry per machine -/
  timers : List (Option Int)
  /-- TimerBegin reports that must still appear: (machine, instant), with the duration (µs) and
      replace flag of the action for diagnostics -/
  required : List ((Nat × Int) × (Nat × Bool))
  /-- TimerBegin reports that may appear: one per UpdateTimer action (machine, instant) -/
  allowed : List (Nat × Int)
  /-- diagnosis only: expiries of timers that were superseded or cancelled before they ended -/
  stale : List (Nat × Int) := []
  /-- diagnosis only: expiries that UpdateTimer actions proposed and the contract ignored because
      a later-expiring timer was running (no replace) -/
  ignored : List (Nat × Int) := []
  deriving Repr, Inhabited

structure MonSt where
  c : SideSt
  s : SideSt
  deriving Repr, Inhabited

def MonSt.side (m : MonSt) (client : Bool) : SideSt := if client then m.c else m.s
def MonSt.setSide (m : MonSt) (client : Bool) (x : SideSt) : MonSt := if client then { m with c := x } else { m with s := x }

def sideName (client : Bool) : String := if client then "client" else "server"

def applyActs (t : Int) (sd : SideSt) : List TAction → SideSt
  | [] => sd
  | a :: r =>
    let sd := match a with
      | .cancel m .internal | .cancel m .all =>
        { sd with timers := sd.timers.set m none,
                  stale := match sd.timers[m]?.join with | some old => (m, old) :: sd.stale | none => sd.stale }
      | .updateTimer dur replace m =>
        let (v, changed) := timerSpec (sd.timers[m]?.join) t (dur * 1000) replace
        { sd with timers := sd.timers.set m v,
                  stale := match sd.timers[m]?.join with
                    | some old => if changed && some old != v then (m, old) :: sd.stale else sd.stale
                    | none => sd.stale,
                  ignored := if changed then sd.ignored else (m, t + dur * 1000) :: sd.ignored,
                  allowed := (m, t) :: sd.allowed,
                  required := if changed then ((m, t), (dur, replace)) :: sd.required else sd.required }
      | _ => sd
    applyActs t sd r

def overdueTimer (sd : SideSt) (t : Int) : Option (Nat × Int) :=
  (sd.timers.zipIdx.filterMap fun (p, i) => match p with
    | some exp => if exp < t then some (i, exp) else none
    | none => none).head?

def overdueBegin (sd : SideSt) (t : Int) : Option ((Nat × Int) × (Nat × Bool)) := sd.required.find? fun ((_, t'), _) => t' < t

/-- remove the first requirement for (machine, instant) -/
def dropReq (k : Nat × Int) : List ((Nat × Int) × (Nat × Bool)) → List ((Nat × Int) × (Nat × Bool))
  | [] => []
  | x :: r => if x.1 == k then r else x :: dropReq k r

def stepEv (st : MonSt) (x : EvActs) : Except String MonSt := do
  let e := x.ev
  let t := e.time
  for cl in [true, false] do
    if let some ((m, t'), (dur, rp)) := overdueBegin (st.side cl) t then
      throw s!"TimerBegin missing after an UpdateTimer with {durClass dur} duration set the timer of a {sideName cl} machine | machine {m} at {t'}, duration {dur}us replace={rp}, time moved to {t}"
    if let some (m, exp) := overdueTimer (st.side cl) t then
      throw s!"TimerEnd missing: the timer of a {sideName cl} machine expired but time moved on | machine {m} expired at {exp}, time moved to {t}"
  let sd := st.side e.client
  let sd ← match e.event with
    | .timerBegin m =>
      if sd.allowed.contains (m, t) then
        pure { sd with allowed := sd.allowed.erase (m, t), required := dropReq (m, t) sd.required }
      else throw s!"TimerBegin for a {sideName e.client} machine without an UpdateTimer action at that instant | machine {m} at {t}"
    | .timerEnd m =>
      -- diagnosis: a superseded / cancelled timer of this machine expired exactly now: it had
      -- already been turned into a queued TimerEnd when it was superseded
      -- or: the running timer had already been turned into a queued TimerEnd, so the code saw
      -- no timer running and started the shorter timer that the contract ignores
      let tag := if sd.stale.contains (m, t) || sd.ignored.contains (m, t) then "[S1-early-exec] " else ""
      match sd.timers[m]?.join with
      | some exp =>
        if exp == t then pure { sd with timers := sd.timers.set m none }
        else throw s!"{tag}TimerEnd for a {sideName e.client} machine at another time than its timer expires | machine {m} at {t}, expiry {exp}"
      | none => throw s!"{tag}TimerEnd for a {sideName e.client} machine whose timer is not running | machine {m} at {t} (cancelled, superseded or already ended)"
    | _ => pure sd
  let sd := { sd with stale := sd.stale.filter (fun (_, exp) => exp ≥ t), ignored := sd.ignored.filter (fun (_, exp) => exp ≥ t) }
  pure (st.setSide e.client (applyActs t sd x.acts))

def runMon (st : MonSt) : List EvActs → Option String
  | [] => none
  | x :: r =>
    match stepEv st x with
    | .error msg => some msg
    | .ok st => runMon st r

def monitor (nc ns : Nat) (tr : List EvActs) : Option String :=
  runMon ⟨{ timers := List.replicate nc none, required := [], allowed := [] },
          { timers := List.replicate ns none, required := [], allowed := [] }⟩ tr

end Mb.C18
