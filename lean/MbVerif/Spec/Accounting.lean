/-
  The accounting performed by `trigger_events` as a pure function of the reported events and
  time values: independent of the machines' definitions, states and of all randomness.
  (Refinement theorem: MbVerif/Proofs/Accounting.lean.)
-/
import MbVerif.Framework

namespace Mb.Acct
open Mb

/-- framework-wide accounting of one event -/
def gEvent (e : TEvent) (g : Globals) : Globals :=
  match e with
  | .normalSent => { g with normalSent := g.normalSent + 1 }
  | .paddingSent _ => { g with paddingSent := g.paddingSent + 1 }
  | .blockingBegin _ =>
    if !g.blockingActive then { g with blockingActive := true, blockingStarted := g.now } else g
  | .blockingEnd =>
    if g.blockingActive then
      { g with blockingDur := g.blockingDur + durSince g.now g.blockingStarted, blockingActive := false }
    else g
  | _ => g

/-- accounting of one event for machine `i`, given the globals before the event -/
def rEvent (e : TEvent) (g : Globals) (i : Nat) (a : RtAcct) : RtAcct :=
  match e with
  | .normalSent => { a with normalSent := a.normalSent + 1 }
  | .paddingSent m => if m = i then { a with paddingSent := a.paddingSent + 1 } else a
  | .blockingEnd =>
    let blocked := if g.blockingActive then durSince g.now g.blockingStarted else 0
    if blocked ≠ 0 then { a with blockingDur := a.blockingDur + blocked } else a
  | _ => a

/-- one event on the pair (globals, per-machine accounting) -/
def event (e : TEvent) (p : Globals × List RtAcct) : Globals × List RtAcct :=
  (gEvent e p.1, p.2.mapIdx (fun i a => rEvent e p.1 i a))

/-- one call: take the new time, then account for the events in order -/
def call (es : List TEvent) (t : Int) (p : Globals × List RtAcct) : Globals × List RtAcct :=
  es.foldl (fun p e => event e p) ({ p.1 with now := t }, p.2)

/-- a whole history -/
def history (h : List Call) (p : Globals × List RtAcct) : Globals × List RtAcct :=
  h.foldl (fun p c => call c.1 c.2 p) p

/-- the accounting state of a framework -/
def ofFw {σ} (s : Fw σ) : Globals × List RtAcct := (s.g, s.rt.map (·.acct))

end Mb.Acct
