/-
  C04 — output contract. Specification as decidable predicates on observed outputs;
  the same definitions are used by the theorems (about the model) and by the monitor
  (run on the implementation's traces).
-/
import MbVerif.Trace

namespace Mb.C04
open Mb

/-- `a` has exactly the kind and flags of the machine action `act` -/
def projects (a : TAction) (act : Action) : Bool :=
  match a, act with
  | .cancel _ t, .cancel t' => t == t'
  | .sendPadding _ b r _, .sendPadding b' r' _ _ => b == b' && r == r'
  | .blockOutgoing _ _ b r _, .blockOutgoing b' r' _ _ _ => b == b' && r == r'
  | .updateTimer _ r _, .updateTimer r' _ _ => r == r'
  | _, _ => false

/-- every timeout / duration is at most the configured maximum (24 h in microseconds) -/
def timesOK : TAction → Bool
  | .cancel _ _ => true
  | .sendPadding t _ _ _ => t ≤ Gen.MAX_SAMPLED_TIMEOUT
  | .blockOutgoing t d _ _ _ => t ≤ Gen.MAX_SAMPLED_TIMEOUT && d ≤ Gen.MAX_SAMPLED_BLOCK_DURATION
  | .updateTimer d _ _ => d ≤ Gen.MAX_SAMPLED_TIMER_DURATION

/-- the action names an existing machine and is the projection of an action of one of its states -/
def actionOK (ms : List Machine) (a : TAction) : Bool :=
  match ms[a.machine]? with
  | none => false
  | some m =>
    m.states.any (fun st => match st.action with
      | some act => projects a act
      | none => false) && timesOK a

/-- machine ids strictly increasing (hence distinct: at most one action per machine) -/
def idsIncreasing : List TAction → Bool
  | [] => true
  | [_] => true
  | a :: b :: rest => decide (a.machine < b.machine) && idsIncreasing (b :: rest)

/-- the per-call output contract -/
def outOK (ms : List Machine) (acts : List TAction) : Bool :=
  idsIncreasing acts && acts.all (actionOK ms)

/-- no action for a machine that was in END after an earlier call -/
def noActionForEnded (ended : List Nat) (acts : List TAction) : Bool :=
  acts.all (fun a => !ended.contains a.machine)

/-- machines in END according to a snapshot -/
def endedOf (s : Snap) : List Nat :=
  (List.range s.rts.length).filter (fun i => match s.rts[i]? with
    | some r => r.state == STATE_END
    | none => false)

/-- monitor over an observed run: returns a description of the first failure -/
def monitor (t : FwTrace) : Option String :=
  let rec go (i : Nat) (ended : List Nat) : List CallRec → Option String
    | [] => none
    | c :: cs =>
      if c.res != .ok then none else
      if !outOK t.machines c.actions then some s!"call {i}: output contract (ids/kinds/flags/times) violated"
      else if !noActionForEnded ended c.actions then some s!"call {i}: action for a machine that had ended"
      else go (i + 1) (endedOf c.snap) cs
  go 1 (endedOf t.snap0) t.calls

end Mb.C04
