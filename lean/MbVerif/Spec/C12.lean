/-
  C12 — "validation is sound": the well-formedness predicate `WF`, written from the
  property text and the rand_distr 0.4.3 documentation of each constructor's parameter
  domain.  It does NOT mention `MbVerif/Validate.lean` (the model of the code's checks);
  the only shared vocabulary is the float interpretation (`Fp.val32/val64`, one
  correctly rounded f32/f64 addition).

  Every predicate is a structural `Prop` over `FV` (`nan | inf sign | fin q`) with exact
  rational comparisons, so "is a real number" is literally "is `fin q`".
  `wfB` is the executable monitor; `wfB_iff : wfB m = true ↔ WF m`.
-/
import MbVerif.Types

namespace Mb
namespace C12
open Fp

/-! ### numbers -/

/-- a real number in [0,1] -/
def Real01 : FV → Prop
  | .fin q => 0 ≤ q ∧ q ≤ 1
  | _ => False

/-- a real number in (0,1] -/
def Prob : FV → Prop
  | .fin q => 0 < q ∧ q ≤ 1
  | _ => False

/-- a real number (not NaN, not ±inf) -/
def Finite : FV → Prop
  | .fin _ => True
  | _ => False

/-- finite and strictly positive -/
def FinPos : FV → Prop
  | .fin q => 0 < q
  | _ => False

/-- strictly positive, `+inf` allowed (the domain `x > 0` of rand_distr's scale/shape parameters) -/
def Pos : FV → Prop
  | .fin q => 0 < q
  | .inf neg => neg = false
  | .nan => False

instance : DecidablePred Real01 := fun v => by cases v <;> simp only [Real01] <;> infer_instance
instance : DecidablePred Prob := fun v => by cases v <;> simp only [Prob] <;> infer_instance
instance : DecidablePred Finite := fun v => by cases v <;> simp only [Finite] <;> infer_instance
instance : DecidablePred FinPos := fun v => by cases v <;> simp only [FinPos] <;> infer_instance
instance : DecidablePred Pos := fun v => by cases v <;> simp only [Pos] <;> infer_instance

/-! ### transition vectors -/

/-- an existing state or one of the two pseudo-states -/
def TargetOK (numStates t : Nat) : Prop := t < numStates ∨ t = STATE_END ∨ t = STATE_SIGNAL

instance (n t : Nat) : Decidable (TargetOK n t) := by unfold TargetOK; infer_instance

/-- the f32 running sum of the probabilities, in vector order, starting from 0.0 -/
def f32sum (ts : List Trans) : FV :=
  ts.foldl (fun s t => Fp.add Fp.f32 s (Fp.val32 t.prob)) (.fin 0)

/-- the per-event sum is a real number that is at most 1 -/
def SumOK : FV → Prop
  | .fin q => q ≤ 1
  | _ => False

instance : DecidablePred SumOK := fun v => by cases v <;> simp only [SumOK] <;> infer_instance

structure VecWF (numStates : Nat) (ts : List Trans) : Prop where
  nonempty : ts ≠ []
  targets : ∀ t ∈ ts, TargetOK numStates t.target
  distinct : (ts.map (·.target)).Nodup
  probs : ∀ t ∈ ts, Prob (Fp.val32 t.prob)
  sum : SumOK (f32sum ts)

/-! ### distribution parameters (domains as documented by rand_distr 0.4.3 and dist.rs) -/

/-- the f64 nearest to the decimal 1e-9 (`DIST_MIN_PROBABILITY`) -/
def minProbability : Rat := Fp.rne 53 (-1074) (1 / 1000000000)

/-- the f64 nearest to 1e42 -/
def maxLambda : Rat := Fp.rne 53 (-1074) ((10 : Rat) ^ 42)

/-- a probability parameter that does not make sampling too slow: real, in [0,1], and 0 or ≥ 1e-9 -/
def SlowSafeProb : FV → Prop
  | .fin q => 0 ≤ q ∧ q ≤ 1 ∧ (q = 0 ∨ minProbability ≤ q)
  | _ => False

instance : DecidablePred SlowSafeProb := fun v => by cases v <;> simp only [SlowSafeProb] <;> infer_instance

/-- Uniform: both ends real, `low ≤ high`, and the f64 difference `high - low` does not overflow -/
def UniformOK : FV → FV → Prop
  | .fin l, .fin h => l ≤ h ∧ Finite (Fp.f64.round (h - l))
  | _, _ => False

instance (a b : FV) : Decidable (UniformOK a b) := by
  cases a <;> cases b <;> simp only [UniformOK] <;> infer_instance

/-- Poisson: `0 < λ ≤ 1e42` -/
def LambdaOK : FV → Prop
  | .fin q => 0 < q ∧ q ≤ maxLambda
  | _ => False

instance : DecidablePred LambdaOK := fun v => by cases v <;> simp only [LambdaOK] <;> infer_instance

def DistParamOK : DistType → Prop
  | .uniform lo hi => UniformOK (val64 lo) (val64 hi)
  | .normal _ stdev => Finite (val64 stdev)
  | .skewNormal _ scale shape => FinPos (val64 scale) ∧ Finite (val64 shape)
  | .logNormal _ sigma => Finite (val64 sigma)
  | .binomial trials p => SlowSafeProb (val64 p) ∧ trials ≤ 1000000000
  | .geometric p => SlowSafeProb (val64 p)
  | .pareto scale shape => Pos (val64 scale) ∧ Pos (val64 shape)
  | .poisson lambda => LambdaOK (val64 lambda)
  | .weibull scale shape => Pos (val64 scale) ∧ Pos (val64 shape)
  | .gamma scale shape => Pos (val64 scale) ∧ Pos (val64 shape)
  | .beta alpha beta => Pos (val64 alpha) ∧ Pos (val64 beta)

instance : DecidablePred DistParamOK := fun d => by cases d <;> simp only [DistParamOK] <;> infer_instance

def DistOK (d : Dist) : Prop := DistParamOK d.dist

def OptDistOK : Option Dist → Prop
  | none => True
  | some d => DistOK d

def ActionOK : Action → Prop
  | .cancel _ => True
  | .sendPadding _ _ to lim => DistOK to ∧ OptDistOK lim
  | .blockOutgoing _ _ to du lim => DistOK to ∧ DistOK du ∧ OptDistOK lim
  | .updateTimer _ du lim => DistOK du ∧ OptDistOK lim

def CounterOK (c : Counter) : Prop := OptDistOK c.dist

instance : DecidablePred DistOK := fun d => by unfold DistOK; infer_instance
instance : DecidablePred OptDistOK := fun d => by cases d <;> simp only [OptDistOK] <;> infer_instance
instance : DecidablePred ActionOK := fun a => by cases a <;> simp only [ActionOK] <;> infer_instance
instance : DecidablePred CounterOK := fun c => by unfold CounterOK; infer_instance

/-! ### states and machines -/

structure StateWF (numStates : Nat) (s : State) : Prop where
  vectors : ∀ v ∈ s.transitions, ∀ ts, v = some ts → VecWF numStates ts
  action : ∀ a, s.action = some a → ActionOK a
  counterA : ∀ c, s.counterA = some c → CounterOK c
  counterB : ∀ c, s.counterB = some c → CounterOK c

structure WF (m : Machine) : Prop where
  paddingFrac : Real01 (val64 m.maxPaddingFrac)
  blockingFrac : Real01 (val64 m.maxBlockingFrac)
  someState : 0 < m.states.length
  notTooMany : m.states.length ≤ STATE_MAX
  states : ∀ s ∈ m.states, StateWF m.states.length s

/-! ### the executable monitor -/

def vecWfB (numStates : Nat) (ts : List Trans) : Bool :=
  !ts.isEmpty
  && ts.all (fun t => decide (TargetOK numStates t.target))
  && decide ((ts.map (·.target)).Nodup)
  && ts.all (fun t => decide (Prob (Fp.val32 t.prob)))
  && decide (SumOK (f32sum ts))

def optB {α} (p : α → Bool) : Option α → Bool
  | none => true
  | some a => p a

def stateWfB (numStates : Nat) (s : State) : Bool :=
  s.transitions.all (optB (vecWfB numStates))
  && optB (fun a => decide (ActionOK a)) s.action
  && optB (fun c => decide (CounterOK c)) s.counterA
  && optB (fun c => decide (CounterOK c)) s.counterB

def wfB (m : Machine) : Bool :=
  decide (Real01 (val64 m.maxPaddingFrac))
  && decide (Real01 (val64 m.maxBlockingFrac))
  && decide (0 < m.states.length)
  && decide (m.states.length ≤ STATE_MAX)
  && m.states.all (stateWfB m.states.length)

theorem vecWfB_iff (n : Nat) (ts : List Trans) : vecWfB n ts = true ↔ VecWF n ts := by
  constructor
  · intro h
    simp only [vecWfB, Bool.and_eq_true, Bool.not_eq_true', List.all_eq_true, decide_eq_true_eq] at h
    obtain ⟨⟨⟨⟨h1, h2⟩, h3⟩, h4⟩, h5⟩ := h
    refine ⟨?_, h2, h3, h4, h5⟩
    intro e; subst e; simp at h1
  · intro ⟨h1, h2, h3, h4, h5⟩
    simp only [vecWfB, Bool.and_eq_true, Bool.not_eq_true', List.all_eq_true, decide_eq_true_eq]
    refine ⟨⟨⟨⟨?_, h2⟩, h3⟩, h4⟩, h5⟩
    cases ts with
    | nil => exact absurd rfl h1
    | cons => rfl

theorem optB_iff {α} (p : α → Bool) (o : Option α) : optB p o = true ↔ ∀ a, o = some a → p a = true := by
  cases o <;> simp [optB]

theorem stateWfB_iff (n : Nat) (s : State) : stateWfB n s = true ↔ StateWF n s := by
  simp only [stateWfB, Bool.and_eq_true, List.all_eq_true, optB_iff, decide_eq_true_eq, vecWfB_iff]
  constructor
  · intro ⟨⟨⟨h1, h2⟩, h3⟩, h4⟩; exact ⟨h1, h2, h3, h4⟩
  · intro ⟨h1, h2, h3, h4⟩; exact ⟨⟨⟨h1, h2⟩, h3⟩, h4⟩

/-- the monitor decides the specification -/
theorem wfB_iff (m : Machine) : wfB m = true ↔ WF m := by
  simp only [wfB, Bool.and_eq_true, List.all_eq_true, decide_eq_true_eq, stateWfB_iff]
  constructor
  · intro ⟨⟨⟨⟨h1, h2⟩, h3⟩, h4⟩, h5⟩; exact ⟨h1, h2, h3, h4, h5⟩
  · intro ⟨h1, h2, h3, h4, h5⟩; exact ⟨⟨⟨⟨h1, h2⟩, h3⟩, h4⟩, h5⟩

/-! ### why the monitor failed (diagnostics only; `wfB` is the judgement) -/

def fracReason (what : String) (v : FV) : List String :=
  match v with
  | .nan => [s!"nan-machine-fraction:{what}"]
  | .inf _ => [s!"infinite-machine-fraction:{what}"]
  | .fin q => if 0 ≤ q ∧ q ≤ 1 then [] else [s!"machine-fraction-out-of-range:{what}"]

def vecReasons (n : Nat) (ts : List Trans) : List String :=
  (if ts.isEmpty then ["empty-transition-vector"] else []) ++
  (if ts.all (fun t => decide (TargetOK n t.target)) then [] else ["target-out-of-range"]) ++
  (if decide ((ts.map (·.target)).Nodup) then [] else ["duplicate-target"]) ++
  (if ts.any (fun t => Fp.isNan (Fp.val32 t.prob)) then ["nan-transition-probability"]
   else if ts.all (fun t => decide (Prob (Fp.val32 t.prob))) then [] else ["transition-probability-out-of-range"]) ++
  (match f32sum ts with
   | .nan => ["nan-probability-sum"]
   | .inf _ => ["infinite-probability-sum"]
   | .fin q => if q ≤ 1 then [] else ["probability-sum-above-one"])

def distReason (d : Dist) : List String :=
  if decide (DistOK d) then [] else
  match d.dist with
  | .uniform .. => ["bad-uniform"] | .normal .. => ["bad-normal"] | .skewNormal .. => ["bad-skewnormal"]
  | .logNormal .. => ["bad-lognormal"] | .binomial .. => ["bad-binomial"] | .geometric .. => ["bad-geometric"]
  | .pareto .. => ["bad-pareto"] | .poisson .. => ["bad-poisson"] | .weibull .. => ["bad-weibull"]
  | .gamma .. => ["bad-gamma"] | .beta .. => ["bad-beta"]

def optDistReason : Option Dist → List String
  | none => []
  | some d => distReason d

def actionReasons : Action → List String
  | .cancel _ => []
  | .sendPadding _ _ to lim => distReason to ++ optDistReason lim
  | .blockOutgoing _ _ to du lim => distReason to ++ distReason du ++ optDistReason lim
  | .updateTimer _ du lim => distReason du ++ optDistReason lim

def stateReasons (n : Nat) (s : State) : List String :=
  (s.transitions.foldl (fun acc v => match v with
    | none => acc
    | some ts => acc ++ vecReasons n ts) []) ++
  (match s.action with | none => [] | some a => actionReasons a) ++
  (match s.counterA with | none => [] | some c => optDistReason c.dist) ++
  (match s.counterB with | none => [] | some c => optDistReason c.dist)

/-- reasons in a fixed order, without repetition -/
def reasons (m : Machine) : List String :=
  let rs := fracReason "max_padding_frac" (val64 m.maxPaddingFrac) ++
    fracReason "max_blocking_frac" (val64 m.maxBlockingFrac) ++
    (if m.states.length = 0 then ["no-states"] else []) ++
    (if m.states.length > STATE_MAX then ["too-many-states"] else []) ++
    m.states.foldl (fun acc s => acc ++ stateReasons m.states.length s) []
  rs.foldl (fun acc r => if acc.contains r then acc else acc ++ [r]) []

/-! ### concrete machines used as counterexamples (replayed on the implementation by the check) -/

def emptyState : State :=
  { action := none, counterA := none, counterB := none, transitions := List.replicate EVENT_NUM none }

/-- one state without transitions; `max_padding_frac` is the quiet NaN `0x7ff8000000000000` -/
def witnessNanFraction : Machine :=
  { allowedPaddingPackets := 0, maxPaddingFrac := 0x7ff8000000000000, allowedBlockedMicrosec := 0,
    maxBlockingFrac := 0, states := [emptyState] }

/-- one state whose NormalRecv vector is `[Trans(0, NaN)]` (f32 quiet NaN `0x7fc00000`) -/
def witnessNanProbability : Machine :=
  { allowedPaddingPackets := 0, maxPaddingFrac := 0, allowedBlockedMicrosec := 0, maxBlockingFrac := 0,
    states := [{ emptyState with
      transitions := some [⟨0, 0x7fc00000⟩] :: List.replicate (EVENT_NUM - 1) none }] }

/-- a small well-formed machine (used as a non-vacuity example) -/
def exampleMachine : Machine :=
  { allowedPaddingPackets := 3, maxPaddingFrac := 0x3fe0000000000000, allowedBlockedMicrosec := 0,
    maxBlockingFrac := 0x3ff0000000000000,
    states := [
      { emptyState with
        action := some (.sendPadding false false ⟨.uniform 0 0x4024000000000000, 0, 0⟩
          (some ⟨.poisson 0x4010000000000000, 0, 0⟩)),
        transitions := some [⟨1, 0x3f000000⟩, ⟨STATE_END, 0x3e800000⟩] :: List.replicate (EVENT_NUM - 1) none },
      { emptyState with
        counterA := some ⟨.increment, some ⟨.geometric 0x3fd3333333333333, 0, 0⟩, false⟩,
        transitions := List.replicate 3 none ++ [some [⟨0, 0x3f800000⟩]] ++ List.replicate (EVENT_NUM - 4) none }] }

end C12
end Mb
