/-
  C15 — conservation and causality, over an unfiltered observed trace:
  * every tunnel-received packet on one side corresponds to exactly one earlier tunnel-sent
    packet of the same kind on the other side, sent at least one network delay before;
  * each side sends at most as many normal packets as its share of the input trace, exactly
    that many when the run ended because all normal packets were processed;
  * the returned trace is ordered by time.
-/
import MbVerif.Spec.SimCommon

namespace Mb.C15
open Mb Mb.Sim Mb.SimSpec

/-- sorted times of TunnelSent / TunnelRecv of one kind on one side -/
def times (tr : List SimEvent) (client : Bool) (ev : TEvent) (padding : Bool) : List Int :=
  sortInts ((tr.filter fun e => e.client == client && e.event == ev && e.containsPadding == padding).map (·.time))

/-- an injective assignment of receipts to sends with `send + delay ≤ recv` exists iff the
    order-preserving one works (both lists sorted) -/
def matched (delay : Nat) : List Int → List Int → Bool
  | _, [] => true
  | [], _ :: _ => false
  | s :: ss, r :: rs => decide (s + delay ≤ r) && matched delay ss rs

def causality (delay : Nat) (tr : List SimEvent) : Bool :=
  [true, false].all fun recvClient => [true, false].all fun pad =>
    matched delay (times tr (!recvClient) .tunnelSent pad) (times tr recvClient .tunnelRecv pad)

def normalSentCount (tr : List SimEvent) (client : Bool) : Nat :=
  (tr.filter fun e => e.client == client && e.event == .tunnelSent && !e.containsPadding).length

def share (trace : List TraceLine) (client : Bool) : Nat := (trace.filter fun l => l.2 == client).length

/-- `complete` = the run ended because all normal packets were processed (no cap cut it) -/
def conservation (trace : List TraceLine) (complete : Bool) (tr : List SimEvent) : Bool :=
  [true, false].all fun cl =>
    if complete then normalSentCount tr cl == share trace cl else decide (normalSentCount tr cl ≤ share trace cl)

/-- monitor over one unfiltered observed run -/
def monitor (c : CaseIn) (r : ObsRun) : Option String :=
  match r.res with
  | .panic _ => none
  | .ok tr =>
    let a := r.run.effArgs c.delay
    if !sortedByTime tr then some s!"run {r.run.name}: trace not ordered by time" else
    if a.onlyClientEvents || a.onlyNetworkActivity then none else
    if !causality c.delay tr then some s!"run {r.run.name}: a TunnelRecv without its own earlier TunnelSent (delay={c.delay})" else
    let complete := (a.maxTraceLength == 0 || tr.length < a.maxTraceLength)
      && (a.maxSimIterations == 0 || tr.length < a.maxSimIterations)
    -- a side's share of the input are its normal lines (`s`/`sn`, `r`/`rn`); padding lines do not count
    let trace := normalLines c.trace
    if !conservation trace complete tr then
      some s!"run {r.run.name}: normal packets not conserved (complete={complete} c={normalSentCount tr true}/{share trace true} s={normalSentCount tr false}/{share trace false})"
    else none

end Mb.C15
