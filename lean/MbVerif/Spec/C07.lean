/-
  C07 — per-state limits. Monitor from the property text over the observed internal log
  (limit assignments are logged by the `verif` hook), snapshots and returned actions.
-/
import MbVerif.Trace

namespace Mb.C07
open Mb

def isRegular (x : Nat) : Bool := x != STATE_END && x != STATE_SIGNAL

/-- completions reported for machine `mi` in an event list -/
def completions (mi : Nat) (es : List TEvent) : Nat :=
  es.countP fun e => match e with
    | .paddingSent m => m == mi
    | .blockingBegin m => m == mi
    | .timerBegin m => m == mi
    | _ => false

def hasLimitAt (ms : List Machine) (mi st : Nat) : Bool :=
  match ms[mi]? with
  | some m => match m.states[st]? with
    | some s => match s.action with
      | some a => a.hasLimit
      | none => false
    | none => false
  | none => false

/-- walk the log of one call; `lim` and `st` map machine → tracked limit / state -/
def checkLog (ms : List Machine) (lim st : Nat → Nat) (lastTrans : Nat → Option (Nat × Nat)) :
    List LogEntry → Option String
  | [] => none
  | .trans mi ev s :: rest =>
    checkLog ms lim st (fun j => if j == mi then some (ev, s) else lastTrans j) rest
  | .sampled mi _ next :: rest =>
    let cur := st mi
    if isRegular next then
      -- the limit assignment follows directly, after the draw of the limit distribution if any
      let follows := match rest with
        | .limit m _ false :: _ => m == mi
        | .distRaw _ :: .limit m _ false :: _ => m == mi
        | _ => false
      if next != cur && !follows then
        some s!"machine {mi} moved from state {cur} to {next} but its limit was not resampled"
      else if next == cur && follows then
        some s!"machine {mi}: self-transition in state {cur} refreshed the limit"
      else checkLog ms lim (fun j => if j == mi then next else st j) lastTrans rest
    else if next == STATE_END then checkLog ms lim (fun j => if j == mi then STATE_END else st j) lastTrans rest
    else checkLog ms lim st lastTrans rest
  | .limit mi v false :: rest => checkLog ms (fun j => if j == mi then v else lim j) st lastTrans rest
  | .limit mi v true :: rest =>
    let prev := lim mi
    let expect := if prev > 0 then prev - 1 else 0
    if v != expect then some s!"machine {mi}: limit decremented from {prev} to {v}" else
    let reached := v == 0 && hasLimitAt ms mi (st mi)
    let nextIsLR := match rest with
      | .trans m ev _ :: _ => m == mi && ev == Gen.EV_LimitReached
      | _ => false
    if reached && !nextIsLR then some s!"machine {mi}: limit reached 0 in state {st mi} but LimitReached was not raised"
    else if !reached && nextIsLR then some s!"machine {mi}: LimitReached raised with limit {v}"
    else checkLog ms (fun j => if j == mi then v else lim j) st lastTrans rest
  | _ :: rest => checkLog ms lim st lastTrans rest

/-- the part of a call's log before the signal round -/
def beforeSignals (log : List LogEntry) : List LogEntry :=
  log.takeWhile fun e => match e with
    | .trans _ ev _ => ev != Gen.EV_Signal
    | _ => true

/-- did machine `mi` change its state index (or end) according to the log, starting in `st0` -/
def changedState (mi st0 : Nat) (log : List LogEntry) : Bool :=
  (log.foldl (fun (acc : Nat × Bool) e => match e with
    | .sampled m _ next =>
      if m == mi && (next == STATE_END || (isRegular next && next != acc.1)) then (next, true) else acc
    | _ => acc) (st0, false)).2

def decrements (mi : Nat) (log : List LogEntry) : Nat :=
  log.countP fun e => match e with
    | .limit m _ true => m == mi
    | _ => false

def monitor (t : FwTrace) : Option String :=
  let n := t.machines.length
  let rec go (i : Nat) (prev : Snap) : List CallRec → Option String
    | [] => none
    | c :: cs =>
      if c.res != .ok then none else
      let lim := fun j => match prev.rts[j]? with | some r => r.limit | none => 0
      let st := fun j => match prev.rts[j]? with | some r => r.state | none => 0
      match checkLog t.machines lim st (fun _ => none) c.log with
      | some msg => some s!"call {i}: {msg}"
      | none =>
        -- completions for other machines never consume the limit
        match (List.range n).find? (fun j => decrements j c.log > completions j c.events) with
        | some j => some s!"call {i}: machine {j}: {decrements j c.log} decrements for {completions j c.events} own completions"
        | none =>
        -- a completion for a live machine that leaves its state unchanged consumes exactly one unit
        -- of the limit, whatever the kind of the completion; one that changes the state consumes none
        -- (single-event calls, where the whole pre-signal log belongs to that event)
        let own : Option Nat := match c.events with
          | [.paddingSent m] => some m
          | [.blockingBegin m] => some m
          | [.timerBegin m] => some m
          | _ => none
        let missing := match own with
          | some m =>
            if m < n && st m != STATE_END then
              let pre := beforeSignals c.log
              -- the transition for the completion itself: everything before the (first) decrement
              let preDec := pre.takeWhile fun (e : LogEntry) => match e with
                | LogEntry.limit mm _ true => mm != m
                | _ => true
              let d := decrements m pre
              if d == 0 then
                if !changedState m (st m) pre then some s!"machine {m}: completion without state change consumed no unit of the limit"
                else none
              else if d != 1 then some s!"machine {m}: one completion consumed {d} units of the limit"
              else if changedState m (st m) preDec then some s!"machine {m}: limit decremented although the completion changed its state"
              else none
            else none
          | none => none
        match missing with
        | some msg => some s!"call {i}: {msg}"
        | none =>
          -- an action of a limitable kind is never scheduled while the limit is exhausted: if the limit
          -- was 0 before the call and was neither resampled nor decremented during it, every action
          -- returned for that machine was scheduled at limit 0
          let touched := fun j => c.log.any fun e => match e with
            | .limit m _ _ => m == j
            | _ => false
          let bad := c.actions.find? (fun a => match a with
              | .cancel .. => false
              | _ => lim a.machine == 0 && !touched a.machine)
          match bad with
          | some a => some s!"call {i}: action scheduled for machine {a.machine} although its state limit was 0 throughout the call"
          | none => go (i + 1) c.snap cs
  go 1 t.snap0 t.calls

end Mb.C07
