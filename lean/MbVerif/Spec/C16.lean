/-
  C16 — blocking is honoured.  From the property text:
  * blocking begins when a BlockOutgoing action's timeout expires and is reported with
    BlockingBegin; it lasts the action's duration — replacing the current expiry if the action
    says replace, otherwise the longer of the two;
  * its end is reported by exactly one BlockingEnd at that expiry, after the begin;
  * while blocking is active (strictly before its expiry) no TunnelSent leaves that side, except that when *every* action
    that started or updated the current blocking allowed bypass, a packet that claims bypass
    (bypass padding, or the queued normal packet it replaced) may leave.
  The monitor runs over an unfiltered observed trace annotated with the recovered actions.
-/
import MbVerif.Spec.SimCommon

namespace Mb.C16
open Mb Mb.Sim Mb.SimSpec

/-- the blocking of one side as the property describes it -/
structure Blk where
  expiry : Int
  /-- every action that started or updated this blocking allowed bypass -/
  allBypass : Bool
  /-- diagnostic only: duration (ns) of the last action that started or updated the blocking -/
  lastDur : Nat := 0
  deriving Repr, DecidableEq, Inhabited

/-- effect of a due BlockOutgoing(duration, bypass, replace) at time `t` (the contract) -/
def blockSpec (cur : Option Blk) (t : Int) (durNs : Nat) (bypass replace : Bool) : Option Blk :=
  match cur with
  | none => some ⟨t + durNs, bypass, durNs⟩
  | some b =>
    if replace || t + durNs > b.expiry then some ⟨t + durNs, b.allBypass && bypass, durNs⟩ else some b

structure SideSt where
  /-- the pending action-timer action of each machine with its due time -/
  slots : List (Option (TAction × Int))
  blk : Option Blk
  deriving Repr, Inhabited

structure MonSt where
  c : SideSt
  s : SideSt
  deriving Repr, Inhabited

def MonSt.side (m : MonSt) (client : Bool) : SideSt := if client then m.c else m.s
def MonSt.setSide (m : MonSt) (client : Bool) (x : SideSt) : MonSt := if client then { m with c := x } else { m with s := x }

def sideName (client : Bool) : String := if client then "client" else "server"

/-- bookkeeping of the action timers: which action is pending for which machine -/
def applyActs (t : Int) (sd : SideSt) : List TAction → SideSt
  | [] => sd
  | a :: r =>
    let sd := match a with
      | .cancel m .action | .cancel m .all => { sd with slots := sd.slots.set m none }
      | .sendPadding to _ _ m | .blockOutgoing to _ _ _ m => { sd with slots := sd.slots.set m (some (a, t + to * 1000)) }
      | _ => sd
    applyActs t sd r

/-- diagnostic only: a BlockOutgoing due at `t` whose BlockingBegin has not been seen yet -/
def dueBlockNote (sd : SideSt) (t : Int) : String :=
  match sd.slots.filterMap (fun x => match x with
      | some (.blockOutgoing _ dur _ replace _, due) => if due == t then some (dur, replace) else none
      | _ => none) with
  | (dur, replace) :: _ => s!" (a BlockOutgoing with {durClass dur} duration {dur}us replace={replace} is due at this instant and its BlockingBegin has not been reported yet)"
  | [] => ""

/-- diagnostic only: a BlockOutgoing that is still pending (due after `t`) -/
def pendingBlockNote (sd : SideSt) (t : Int) : String :=
  match sd.slots.filterMap (fun x => match x with
      | some (.blockOutgoing _ _ bypass replace _, due) => if due > t then some (due, bypass, replace) else none
      | _ => none) with
  | (due, bypass, replace) :: _ => s!"; a BlockOutgoing (bypass={bypass} replace={replace}) is pending but only due at {due}"
  | [] => ""

/-- blocking that should have ended before time `t` -/
def overdue (sd : SideSt) (t : Int) : Option Blk :=
  match sd.blk with
  | some b => if t > b.expiry then some b else none
  | none => none

/-- one observed event; `Except` carries the description of the violation -/
def stepEv (st : MonSt) (x : EvActs) : Except String MonSt := do
  let e := x.ev
  let t := e.time
  for cl in [true, false] do
    if let some b := overdue (st.side cl) t then
      throw s!"BlockingEnd missing: {sideName cl} blocking (last started or updated with {durClass b.lastDur} duration {b.lastDur}ns) expired at {b.expiry} but time moved to {t}"
  let sd := st.side e.client
  let sd ← match e.event with
    | .blockingBegin m =>
      match sd.slots[m]?.join with
      | some (.blockOutgoing _ dur bypass replace _, _) =>
        pure { sd with blk := blockSpec sd.blk t (dur * 1000) bypass replace, slots := sd.slots.set m none }
      | _ => throw s!"BlockingBegin for {sideName e.client} machine {m} at {t} without a pending BlockOutgoing"
    | .blockingEnd =>
      match sd.blk with
      | some b =>
        if b.expiry == t then pure { sd with blk := none }
        else throw s!"BlockingEnd on {sideName e.client} at {t} but the blocking expires at {b.expiry}{dueBlockNote sd t}"
      | none => throw s!"BlockingEnd on {sideName e.client} at {t} without active blocking{dueBlockNote sd t}"
    | .tunnelSent =>
      match sd.blk with
      | some b =>
        if (e.bypass && b.allBypass) || t ≥ b.expiry then pure sd
        else throw s!"TunnelSent left the blocked {sideName e.client} at {t} (packet bypass={e.bypass} padding={e.containsPadding}, every blocking action allowed bypass={b.allBypass}, expiry {b.expiry}{pendingBlockNote sd t})"
      | none => pure sd
    | .paddingSent m => pure { sd with slots := sd.slots.set m none }
    | _ => pure sd
  pure (st.setSide e.client (applyActs t sd x.acts))

def runMon (st : MonSt) : List EvActs → Option String
  | [] => none
  | x :: r =>
    match stepEv st x with
    | .error msg => some msg
    | .ok st => runMon st r

def init (nc ns : Nat) : MonSt :=
  ⟨⟨List.replicate nc none, none⟩, ⟨List.replicate ns none, none⟩⟩

/-- monitor over an annotated unfiltered trace -/
def monitor (nc ns : Nat) (tr : List EvActs) : Option String := runMon (init nc ns) tr

end Mb.C16
