/-
  C16 — blocking is honoured.  From the property text:
  * blocking begins when a BlockOutgoing action's timeout expires and is reported with
    BlockingBegin; it lasts the action's duration — replacing the current expiry if the action
    says replace, otherwise the longer of the two;
  * its end is reported by exactly one BlockingEnd at that expiry, after the begin;
  * while blocking is active (strictly before its expiry) no TunnelSent leaves that side, except that when *every* action
    that started or updated the current blocking allowed bypass, a packet that claims bypass
    (bypass padding, or the queued normal packet it replaced) may leave.
  The monitor runs over an unfiltered observed trace annotated with the recovered actions.
-/
import MbVerif.Spec.SimCommon

namespace Mb.C16
open Mb Mb.Sim Mb.SimSpec

/-- the blocking of one side as the property describes it -/
structure Blk where
  expiry : Int
  /-- every action that started or updated this blocking allowed bypass -/
  allBypass : Bool
  /-- diagnostic only: duration (ns) of the last action that started or updated the blocking -/
  lastDur : Nat := 0
  deriving Repr, DecidableEq, Inhabited

/-- effect of a due BlockOutgoing(duration, bypass, replace) at time `t` (the contract) -/
def blockSpec (cur : Option Blk) (t : Int) (durNs : Nat) (bypass replace : Bool) : Option Blk :=
  match cur with
  | none => some ⟨t + durNs, bypass, durNs⟩
  | some b =>
    if replace || t + durNs > b.expiry then some ⟨t + durNs, b.allBypass && bypass, durNs⟩ else some b

structure SideSt where
  /-- the pending action-timer action of each machine with its due time -/
  slots : List (Option (TAction × Int))
  blk : Option Blk
  /-- diagnosis only: actions that were superseded or cancelled before they fired (machine, action, due) -/
  stale : List (Nat × TAction × Int) := []
  /-- diagnosis only: the blocking as the *code's* rule computes it from the same BlockingBegin
      events (expiry, bypass flag of the latest updating action) -/
  codeBlk : Option (Int × Bool) := none
  /-- diagnosis only: the current blocking was started or updated by a BlockingBegin that belongs
      to a superseded action (which the code had executed earlier, at selection time) -/
  blkFromStale : Bool := false
  /-- diagnosis only: time of the last BlockingBegin / BlockingEnd seen on this side -/
  lastBlkEv : Option Int := none
  deriving Repr, Inhabited

structure MonSt where
  c : SideSt
  s : SideSt
  deriving Repr, Inhabited

def MonSt.side (m : MonSt) (client : Bool) : SideSt := if client then m.c else m.s
def MonSt.setSide (m : MonSt) (client : Bool) (x : SideSt) : MonSt := if client then { m with c := x } else { m with s := x }

def sideName (client : Bool) : String := if client then "client" else "server"

/-- remember a pending action that is being overwritten or cancelled -/
def retire (sd : SideSt) (m : Nat) : SideSt :=
  match sd.slots[m]?.join with
  | some (a, due) => { sd with stale := (m, a, due) :: sd.stale }
  | none => sd

/-- bookkeeping of the action timers: which action is pending for which machine -/
def applyActs (t : Int) (sd : SideSt) : List TAction → SideSt
  | [] => sd
  | a :: r =>
    let sd := match a with
      | .cancel m .action | .cancel m .all => { (retire sd m) with slots := sd.slots.set m none }
      | .sendPadding to _ _ m | .blockOutgoing to _ _ _ m =>
        { (retire sd m) with slots := sd.slots.set m (some (a, t + to * 1000)) }
      | _ => sd
    applyActs t sd r

/-- diagnosis: BlockOutgoing actions that have not fired according to the contract (still
    pending, or superseded / cancelled) together with their due times -/
def unfiredBlocks (sd : SideSt) : List (Nat × Nat × Bool × Bool × Int) :=
  (sd.slots.zipIdx.filterMap fun (x, m) => match x with
    | some (.blockOutgoing _ dur bypass replace _, due) => some (m, dur, bypass, replace, due)
    | _ => none) ++
  (sd.stale.filterMap fun (m, a, due) => match a with
    | .blockOutgoing _ dur bypass replace _ => some (m, dur, bypass, replace, due)
    | _ => none)

/-- diagnosis: a zero-duration BlockOutgoing that is due exactly now and whose BlockingBegin has
    not been seen yet -/
def zeroBlockDueNow (sd : SideSt) (t : Int) : Bool :=
  (unfiredBlocks sd).any fun (_, dur, _, _, due) => dur == 0 && due == t

/-- diagnosis: a BlockOutgoing that is not yet due (or was superseded) and that, executed early
    by the code's rule, would explain a bypassable or differently expiring blocking now -/
def earlyBlock (sd : SideSt) (t : Int) (needBypass : Bool) : Bool :=
  (unfiredBlocks sd).any fun (_, dur, bypass, replace, due) =>
    due > t && (!needBypass || bypass) &&
      (replace || match sd.codeBlk with
        | some (exp, _) => due + dur * 1000 > exp
        | none => true)

/-- diagnosis: an unfired block whose early-applied expiry is exactly `t` -/
def earlyExpiryAt (sd : SideSt) (t : Int) : Bool :=
  (unfiredBlocks sd).any fun (_, dur, _, _, due) => due + dur * 1000 == t && dur != 0

/-- blocking that should have ended before time `t` -/
def overdue (sd : SideSt) (t : Int) : Option Blk :=
  match sd.blk with
  | some b => if t > b.expiry then some b else none
  | none => none

/-- the code's blocking rule, for diagnosis -/
def codeUpdate (cur : Option (Int × Bool)) (t : Int) (durNs : Nat) (bypass replace : Bool) : Option (Int × Bool) :=
  match cur with
  | none => if replace || durNs > 0 then some (t + durNs, bypass) else none
  | some (exp, fl) => if replace || t + durNs > exp then some (t + durNs, bypass) else some (exp, fl)

/-- one observed event; `Except` carries the description of the violation, prefixed by a
    diagnosis tag computed from the trace and the recovered actions when one of the known
    explanations applies:
    `[F11-zero-duration]` a duration-0 BlockOutgoing (begin without end / end before begin),
    `[F7-bypass-overwrite]` the code's flag (bypass of the latest updating action) allows what the
    property's "all actions allowed bypass" forbids,
    `[S1-early-exec]` an action that is not yet due (or was superseded) explains the behaviour if
    it was executed early.  Details after ` | ` are not part of the key. -/
def stepEv (st : MonSt) (x : EvActs) : Except String MonSt := do
  let e := x.ev
  let t := e.time
  for cl in [true, false] do
    if let some b := overdue (st.side cl) t then
      let sd := st.side cl
      let tag := if b.lastDur == 0 then "[F11-zero-duration] "
        else if sd.blkFromStale || earlyBlock sd b.expiry false then "[S1-early-exec] " else ""
      throw s!"{tag}BlockingEnd missing: {sideName cl} blocking expired but time moved on | last started or updated with {durClass b.lastDur} duration {b.lastDur}ns, expired at {b.expiry}, time moved to {t}"
  let sd := st.side e.client
  let sd ← match e.event with
    | .blockingBegin m =>
      -- the action this BlockingBegin belongs to: the pending one if it is due now; otherwise a
      -- superseded / cancelled BlockOutgoing of this machine that was due exactly now (it had been
      -- executed before it was superseded: C17 reports that, tagged S1; here its parameters are
      -- the ones that take effect); otherwise whatever is pending
      let staleNow := sd.stale.find? fun (m', a, due) =>
        m' == m && due == t && (match a with | .blockOutgoing .. => true | _ => false)
      -- diagnosis: if the blocking state changed (a BlockingBegin / BlockingEnd was seen) while this
      -- action was pending, an early execution of it (S1) gives a different result than applying it
      -- now: remember that for the tags of later anomalies of this blocking
      let pendingOverlap (to : Nat) : Bool := match sd.lastBlkEv with
        | some tl => decide (tl > t - to * 1000)
        | none => false
      let apply (sd : SideSt) (dur : Nat) (bypass replace : Bool) : SideSt :=
        { sd with blk := blockSpec sd.blk t (dur * 1000) bypass replace,
                  codeBlk := codeUpdate sd.codeBlk t (dur * 1000) bypass replace,
                  lastBlkEv := some t }
      match sd.slots[m]?.join, staleNow with
      | some (.blockOutgoing to dur bypass replace _, due), stale? =>
        if due == t || stale?.isNone then
          pure { (apply sd dur bypass replace) with
                   slots := sd.slots.set m none,
                   blkFromStale := sd.blkFromStale || pendingOverlap to }
        else
          match stale? with
          | some (_, .blockOutgoing _ dur' bypass' replace' _, _) =>
            pure { (apply sd dur' bypass' replace') with
                     blkFromStale := true,
                     stale := sd.stale.filter fun (m', _, due') => !(m' == m && due' == t) }
          | _ => pure { (apply sd dur bypass replace) with slots := sd.slots.set m none }
      | _, some (_, .blockOutgoing _ dur' bypass' replace' _, _) =>
        pure { (apply sd dur' bypass' replace') with
                 blkFromStale := true,
                 stale := sd.stale.filter fun (m', _, due') => !(m' == m && due' == t) }
      | _, _ =>
        throw s!"BlockingBegin for {sideName e.client} machine without a pending BlockOutgoing | machine {m} at {t}"
    | .blockingEnd =>
      let tag := if zeroBlockDueNow sd t then "[F11-zero-duration] "
        else if sd.blkFromStale || earlyExpiryAt sd t then "[S1-early-exec] " else ""
      match sd.blk with
      | some b =>
        if b.expiry == t then pure { sd with blk := none, codeBlk := none, blkFromStale := false, lastBlkEv := some t }
        else throw s!"{tag}BlockingEnd on {sideName e.client} at another time than the blocking expires | at {t}, expiry {b.expiry}"
      | none => throw s!"{tag}BlockingEnd on {sideName e.client} without active blocking | at {t}"
    | .tunnelSent =>
      match sd.blk with
      | some b =>
        if (e.bypass && b.allBypass) || t ≥ b.expiry then pure sd
        else
          -- the code's view now: blocks applied at their BlockingBegin so far, plus blocks that are
          -- due at this very instant (executed, BlockingBegin reported later in the same instant)
          let codeNow := ({ sd with stale := [] } |> unfiredBlocks).foldl (fun cb (_, dur, bypass, replace, due) =>
            if due == t then codeUpdate cb t (dur * 1000) bypass replace else cb) sd.codeBlk
          -- the code executes the blocks that are due at this instant one at a time, with other
          -- events of the same instant in between: the flag may be that of any of them that updates
          let dueNowAllows := ({ sd with stale := [] } |> unfiredBlocks).any fun (_, dur, bypass, replace, due) =>
            due == t && bypass && (replace || match sd.codeBlk with
              | some (exp, _) => t + dur * 1000 > exp
              | none => true)
          let flagOf : Option (Int × Bool) → Bool := fun cb => match cb with
            | some (_, fl) => fl
            | none => false
          -- before any of the blocks due at this instant, after some of them, or after all of them
          let codeAllows := flagOf sd.codeBlk || dueNowAllows || flagOf codeNow
          let tag := if e.bypass && codeAllows then "[F7-bypass-overwrite] "
            else if sd.blkFromStale || earlyBlock sd t e.bypass then "[S1-early-exec] " else ""
          throw s!"{tag}TunnelSent left the blocked {sideName e.client} (packet bypass={e.bypass}) | at {t}, padding={e.containsPadding}, every blocking action allowed bypass={b.allBypass}, expiry {b.expiry}"
      | none => pure sd
    | .paddingSent m =>
      -- only a pending SendPadding is consumed by a PaddingSent (a PaddingSent of an action that
      -- was executed early and then superseded by a BlockOutgoing must not clear the block: C17's
      -- monitor reports that event)
      match sd.slots[m]?.join with
      | some (.sendPadding .., _) => pure { sd with slots := sd.slots.set m none }
      | _ => pure sd
    | _ => pure sd
  -- forget superseded actions whose due time has passed
  let sd := { sd with stale := sd.stale.filter fun (_, _, due) => due ≥ t }
  pure (st.setSide e.client (applyActs t sd x.acts))

def runMon (st : MonSt) : List EvActs → Option String
  | [] => none
  | x :: r =>
    match stepEv st x with
    | .error msg => some msg
    | .ok st => runMon st r

def init (nc ns : Nat) : MonSt :=
  ⟨{ slots := List.replicate nc none, blk := none }, { slots := List.replicate ns none, blk := none }⟩

/-- monitor over an annotated unfiltered trace -/
def monitor (nc ns : Nat) (tr : List EvActs) : Option String := runMon (init nc ns) tr

end Mb.C16
