/-
  C11 — machine strings round-trip exactly and hostile strings are rejected safely.

  The property as `Prop`s over the model (`RoundTrip`, `SameString`, `RejectsSafely`, `V1Safe`)
  and the executable monitors that the driver runs on what the *implementation* did
  (`monRoundTrip`, `monParse`).
-/
import MbVerif.MachineStr
import MbVerif.ParseV1

namespace Mb
namespace C11
open Codec (Bytes)
open MStr

/-! ### the property over the model -/

/-- a machine the Rust types can hold, accepted by validation, whose encoding fits the limit -/
def Admissible (m : Machine) : Prop :=
  Validate.machine m = true ∧ Codec.WFm m = true ∧ (Codec.encMachine m).length ≤ MAX

/-- parsing the serialized string of an admissible machine yields that machine -/
def RoundTrip (Z : Zlib) : Prop :=
  ∀ m, Admissible m → fromStr Z (serialize Z m) = .ok m

/-- ... and the result serializes to the identical string (so `name`, a hash of it, agrees) -/
def SameString (Z : Zlib) : Prop :=
  ∀ m m', Admissible m → fromStr Z (serialize Z m) = .ok m' → serialize Z m' = serialize Z m

/-- any string: no panic, and whatever is accepted passed validation -/
def RejectsSafely (Z : Zlib) : Prop :=
  ∀ s, fromStr Z s ≠ .error .panic ∧ ∀ m, fromStr Z s = .ok m → Validate.machine m = true

/-- the v1 parser on any decompressed buffer: no panic, and whatever is accepted passed validation -/
def V1Safe : Prop :=
  ∀ buf : Bytes, buf.length < V1.USIZE →
    (∀ f, V1.parseV1Machine buf ≠ .error (.fault f)) ∧
    ∀ m, V1.parseV1Machine buf = .ok m → Validate.machine m = true

/-! ### monitors on implementation observations -/

/-- what the harness saw for `from_str(serialize(m))` on a valid machine -/
structure RtObs where
  /-- `from_str` returned `Ok` -/
  parsed : Bool
  /-- the result serializes to the identical string -/
  sameString : Bool
  /-- the result has the same `name()` -/
  sameName : Bool
  /-- the result has the same bincode encoding (field-for-field identical machine) -/
  sameMachine : Bool
  deriving Repr, Inhabited

def monRoundTrip (o : RtObs) : Bool := o.parsed && o.sameString && o.sameName && o.sameMachine

/-- what the harness saw for one parse of an arbitrary string (either parser); for an accepted
    machine, its bincode bytes decoded by the model (`none` if the model cannot decode them) -/
inductive ParseObs where
  | rejected
  | accepted (m : Option Machine)
  | panicked
  deriving Repr, Inhabited

def monParse : ParseObs → Bool
  | .rejected => true
  | .accepted (some m) => Validate.machine m
  | .accepted none => false
  | .panicked => false

theorem monRoundTrip_iff (o : RtObs) :
    monRoundTrip o = true ↔ o.parsed = true ∧ o.sameString = true ∧ o.sameName = true ∧ o.sameMachine = true := by
  simp [monRoundTrip, and_assoc]

theorem monParse_iff (o : ParseObs) :
    monParse o = true ↔ o = .rejected ∨ ∃ m, o = .accepted (some m) ∧ Validate.machine m = true := by
  cases o with
  | rejected => simp [monParse]
  | accepted m => cases m <;> simp [monParse]
  | panicked => simp [monParse]

end C11

/-! ### size of a machine, in cells

What a decoded `Machine` occupies, counted in cells, up to a constant factor per cell kind:
one cell per `State` (the inline struct with its three optional fields and its 13 vector slots),
one cell per present transition vector (a present but empty vector still counts 1), one cell per
`Trans` entry, one cell per `Dist`.  Used by the "no amplification" theorems of `Props/C11.lean`;
not part of the model. -/

def optDistCount : Option Dist → Nat
  | none => 0
  | some _ => 1

/-- number of `Dist` values inside an action -/
def Action.distCount : Action → Nat
  | .cancel _ => 0
  | .sendPadding _ _ _ lim => 1 + optDistCount lim
  | .blockOutgoing _ _ _ _ lim => 2 + optDistCount lim
  | .updateTimer _ _ lim => 1 + optDistCount lim

def optActionDistCount : Option Action → Nat
  | none => 0
  | some a => a.distCount

def optCounterDistCount : Option Counter → Nat
  | none => 0
  | some c => optDistCount c.dist

/-- transition entries of one event slot -/
def slotEntries : Option (List Trans) → Nat
  | none => 0
  | some ts => ts.length

/-- 1 for a present vector (empty or not), 0 for an absent one -/
def slotVecs : Option (List Trans) → Nat
  | none => 0
  | some _ => 1

def State.distCount (s : State) : Nat :=
  optActionDistCount s.action + optCounterDistCount s.counterA + optCounterDistCount s.counterB

def State.transCount (s : State) : Nat := (s.transitions.map slotEntries).sum

def State.vecCount (s : State) : Nat := (s.transitions.map slotVecs).sum

/-- total number of `Trans` entries, over all states and all event slots -/
def Machine.transCount (m : Machine) : Nat := (m.states.map State.transCount).sum

/-- number of present transition vectors, over all states and all event slots -/
def Machine.vecCount (m : Machine) : Nat := (m.states.map State.vecCount).sum

/-- number of `Dist` values (actions, action limits, counters) -/
def Machine.distCount (m : Machine) : Nat := (m.states.map State.distCount).sum

/-- states + present transition vectors + transition entries + distributions.  A present vector
    with `k` entries contributes `k + 1`, so a present-but-empty vector counts 1. -/
def Machine.cells (m : Machine) : Nat :=
  m.states.length + m.vecCount + m.transCount + m.distCount

end Mb
