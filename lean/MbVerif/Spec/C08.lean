/-
  C08 — counters. Monitor from the property text over the observed internal log: every counter
  update stays a u64, and the machine receives CounterZero exactly when an update takes one of
  its counters from non-zero to zero (at most once per counter of that machine per call), as the
  very next internal event.
-/
import MbVerif.Trace

namespace Mb.C08
open Mb

/-- per-machine "already zeroed in this call" flags -/
structure Flags where
  a : List Nat
  b : List Nat

def checkLog : Flags → List LogEntry → Option String
  | _, [] => none
  | f, .counter mi ao an bo bn :: rest =>
    if an > Fp.u64Max || bn > Fp.u64Max then some s!"counter of machine {mi} left the u64 range" else
    let za := ao != 0 && an == 0 && !f.a.contains mi
    let zb := bo != 0 && bn == 0 && !f.b.contains mi
    let f' : Flags := { a := if za then mi :: f.a else f.a, b := if zb then mi :: f.b else f.b }
    let nextIsCZ := match rest with
      | .trans m ev _ :: _ => m == mi && ev == Gen.EV_CounterZero
      | _ => false
    if (za || zb) && !nextIsCZ then
      some s!"machine {mi}: counter went to zero ({ao}->{an}, {bo}->{bn}) but no CounterZero followed"
    else if !(za || zb) && nextIsCZ then
      some s!"machine {mi}: CounterZero without a counter reaching zero from non-zero ({ao}->{an}, {bo}->{bn})"
    else checkLog f' rest
  | f, .trans mi ev _ :: rest =>
    -- a CounterZero delivery that does not directly follow a counter update
    checkLog f rest
  | f, _ :: rest => checkLog f rest

/-- CounterZero deliveries must directly follow a counter update of the same machine -/
def strayCZ : List LogEntry → Option String
  | [] => none
  | [_] => none
  | a :: b :: rest =>
    match b with
    | .trans mi ev _ =>
      if ev == Gen.EV_CounterZero then
        match a with
        | .counter m .. => if m == mi then strayCZ (b :: rest) else some s!"machine {mi}: CounterZero not preceded by its counter update"
        | _ => some s!"machine {mi}: CounterZero not preceded by a counter update"
      else strayCZ (b :: rest)
    | _ => strayCZ (b :: rest)

/-- counter specification of a state -/
def ctrSpec (ms : List Machine) (mi st : Nat) : Option (Option Counter × Option Counter) :=
  match ms[mi]? with
  | some m => match m.states[st]? with
    | some s => some (s.counterA, s.counterB)
    | none => none
  | none => none

/-- operand of one counter update: 1, the saturating cast of the clamped sample, or the other
    counter's old value; `raws` are the raw samples logged right before the update (A first) -/
def operandOf (c : Counter) (other : Nat) (raws : List F64) : Nat × List F64 :=
  if c.copy then (other, raws) else
  match c.dist with
  | none => (1, raws)
  | some d => match raws with
    | r :: rest => (Fp.toU64 (d.clamp (match d.constUniform with | some lo => lo | none => r)), rest)
    | [] => (0, [])

/-- every update equals the specified saturating operation on the specified operand; the state is
    tracked from the snapshot before the call and the `sampled` entries of the log -/
def checkValues (ms : List Machine) (st : Nat → Nat) (recent : List F64) : List LogEntry → Option String
  | [] => none
  | .sampled mi _ next :: rest =>
    let st' := if next != STATE_SIGNAL then (fun j => if j == mi then next else st j) else st
    checkValues ms st' [] rest
  | .distRaw b :: rest => checkValues ms st (recent ++ [b]) rest
  | .counter mi ao an bo bn :: rest =>
    match ctrSpec ms mi (st mi) with
    | none => some s!"machine {mi}: counter update in unknown state {st mi}"
    | some (ca, cb) =>
      -- the raw samples belonging to this update are the last ones logged (A then B)
      let need := (match ca with | some c => if !c.copy && c.dist.isSome then 1 else 0 | none => 0) +
                  (match cb with | some c => if !c.copy && c.dist.isSome then 1 else 0 | none => 0)
      let raws := recent.drop (recent.length - need)
      let (expA, raws') := match ca with
        | none => (ao, raws)
        | some c => let (v, r) := operandOf c bo raws; (applyOp c.operation ao v, r)
      let expB := match cb with
        | none => bo
        | some c => let (v, _) := operandOf c ao raws'; applyOp c.operation bo v
      if an != expA then some s!"machine {mi}: counter A {ao} -> {an}, specified {expA}"
      else if bn != expB then some s!"machine {mi}: counter B {bo} -> {bn}, specified {expB}"
      else checkValues ms st [] rest
  | .limit .. :: rest => checkValues ms st [] rest
  | _ :: rest => checkValues ms st recent rest

def monitor (t : FwTrace) : Option String :=
  let rec go (i : Nat) (prev : Snap) : List CallRec → Option String
    | [] => none
    | c :: cs =>
      if c.res != .ok then none else
      match checkValues t.machines (fun j => match prev.rts[j]? with | some r => r.state | none => 0) [] c.log with
      | some msg => some s!"call {i}: {msg}"
      | none =>
      match checkLog { a := [], b := [] } c.log with
      | some msg => some s!"call {i}: {msg}"
      | none =>
        match (match c.log with
          | .trans mi ev _ :: _ => if ev == Gen.EV_CounterZero then some s!"machine {mi}: CounterZero at the start of a call" else none
          | _ => none) with
        | some msg => some s!"call {i}: {msg}"
        | none =>
          match strayCZ c.log with
          | some msg => some s!"call {i}: {msg}"
          | none => go (i + 1) c.snap cs
  go 1 t.snap0 t.calls

end Mb.C08
