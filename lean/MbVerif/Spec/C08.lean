/-
  C08 — counters. Monitor from the property text over the observed internal log: every counter
  update stays a u64, and the machine receives CounterZero exactly when an update takes one of
  its counters from non-zero to zero (at most once per counter of that machine per call), as the
  very next internal event.
-/
import MbVerif.Trace

namespace Mb.C08
open Mb

/-- per-machine "already zeroed in this call" flags -/
structure Flags where
  a : List Nat
  b : List Nat

def checkLog : Flags → List LogEntry → Option String
  | _, [] => none
  | f, .counter mi ao an bo bn :: rest =>
    if an > Fp.u64Max || bn > Fp.u64Max then some s!"counter of machine {mi} left the u64 range" else
    let za := ao != 0 && an == 0 && !f.a.contains mi
    let zb := bo != 0 && bn == 0 && !f.b.contains mi
    let f' : Flags := { a := if za then mi :: f.a else f.a, b := if zb then mi :: f.b else f.b }
    let nextIsCZ := match rest with
      | .trans m ev _ :: _ => m == mi && ev == Gen.EV_CounterZero
      | _ => false
    if (za || zb) && !nextIsCZ then
      some s!"machine {mi}: counter went to zero ({ao}->{an}, {bo}->{bn}) but no CounterZero followed"
    else if !(za || zb) && nextIsCZ then
      some s!"machine {mi}: CounterZero without a counter reaching zero from non-zero ({ao}->{an}, {bo}->{bn})"
    else checkLog f' rest
  | f, .trans mi ev _ :: rest =>
    -- a CounterZero delivery that does not directly follow a counter update
    checkLog f rest
  | f, _ :: rest => checkLog f rest

/-- CounterZero deliveries must directly follow a counter update of the same machine -/
def strayCZ : List LogEntry → Option String
  | [] => none
  | [_] => none
  | a :: b :: rest =>
    match b with
    | .trans mi ev _ =>
      if ev == Gen.EV_CounterZero then
        match a with
        | .counter m .. => if m == mi then strayCZ (b :: rest) else some s!"machine {mi}: CounterZero not preceded by its counter update"
        | _ => some s!"machine {mi}: CounterZero not preceded by a counter update"
      else strayCZ (b :: rest)
    | _ => strayCZ (b :: rest)

def monitor (t : FwTrace) : Option String :=
  let rec go (i : Nat) : List CallRec → Option String
    | [] => none
    | c :: cs =>
      if c.res != .ok then none else
      match checkLog { a := [], b := [] } c.log with
      | some msg => some s!"call {i}: {msg}"
      | none =>
        match (match c.log with
          | .trans mi ev _ :: _ => if ev == Gen.EV_CounterZero then some s!"machine {mi}: CounterZero at the start of a call" else none
          | _ => none) with
        | some msg => some s!"call {i}: {msg}"
        | none =>
          match strayCZ c.log with
          | some msg => some s!"call {i}: {msg}"
          | none => go (i + 1) cs
  go 1 t.calls

end Mb.C08
