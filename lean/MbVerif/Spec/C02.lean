/-
  C02 — padding budgets. Specification from the property text, on the event history only
  (an independent recount of packets), in exact rational arithmetic.
-/
import MbVerif.Trace

namespace Mb.C02
open Mb

def countNormal (evs : List TEvent) : Nat := evs.countP (fun e => e == .normalSent)

def countPadAll (evs : List TEvent) : Nat :=
  evs.countP (fun e => match e with | .paddingSent _ => true | _ => false)

def countPad (mi : Nat) (evs : List TEvent) : Nat :=
  evs.countP (fun e => e == .paddingSent mi)

/-- "the fraction p/tot is below the limit f (if set)", a fraction over zero packets counts as below.
    Exact rational comparison; `f` not a positive real number means "not set". -/
def below (p tot : Nat) (f : F64) : Bool :=
  match Fp.val64 f with
  | .fin q => if q > 0 then (tot == 0 || decide ((p : Rat) / (tot : Rat) < q)) else true
  | .inf false => true    -- limit +inf: never reached (not admitted by validation)
  | _ => true             -- NaN / -inf: not "> 0", i.e. not set

/-- the property's disjunction for machine `m` given the packet counts -/
def padOK (m : Machine) (fp : F64) (padM normal padAll : Nat) : Bool :=
  decide (padM < m.allowedPaddingPackets) ||
    (below padM (padM + normal) m.maxPaddingFrac && below padAll (padAll + normal) fp)

/-- monitor over an observed run of the implementation: every single-event call that returns a
    SendPadding for machine `mi` must satisfy `padOK` with the counts over the history so far
    (including that event) -/
def monitor (t : FwTrace) : Option String :=
  let rec go (i : Nat) (hist : List TEvent) : List CallRec → Option String
    | [] => none
    | c :: cs =>
      if c.res != .ok then none else
      let hist := hist ++ c.events
      if c.events.length == 1 then
        let bad := c.actions.find? (fun a => match a with
          | .sendPadding _ _ _ mi =>
            match t.machines[mi]? with
            | some m => !padOK m t.fp (countPad mi hist) (countNormal hist) (countPadAll hist)
            | none => true
          | _ => false)
        match bad with
        | some a =>
          let mi := a.machine
          let padM := countPad mi hist
          let nrm := countNormal hist
          let pa := countPadAll hist
          some s!"call {i}: SendPadding for machine {mi} with padM={padM} normal={nrm} padAll={pa} site={if padM + nrm == 0 then "machine-total-zero" else if pa + nrm == 0 then "global-total-zero" else "fraction"}"
        | none => go (i + 1) hist cs
      else go (i + 1) hist cs
  go 1 [] t.calls

end Mb.C02
