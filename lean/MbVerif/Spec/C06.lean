/-
  C06 — transitions follow the declared probabilities over the whole RNG output space.

  The uniform draw of `State::sample_state` is `r = k · 2^-23` for `k = w >> 9` of one
  `next_u32` word `w` (`C13.draw01`), so there are exactly `N = 2^23` equally likely
  outcomes.  `bands c₀ ts` lists for each transition its target and the half-open interval
  `[cᵢ₋₁, cᵢ)` between consecutive f32 running sums `cᵢ = fl32(cᵢ₋₁ + pᵢ)`; `count P` counts
  the outcomes `k < N` satisfying `P`; `closedForm` is what the counts must be.
-/
import MbVerif.Framework
import MbVerif.Spec.C13
import MbVerif.Trace

namespace Mb
namespace C06
open Fp

/-- number of distinct values of the uniform f32 draw -/
def N : Nat := 2 ^ 23

/-- the `k`-th value of the draw -/
def draw (k : Nat) : FV := .fin ((k : Rat) / (N : Rat))

structure Band where
  target : Nat
  /-- the declared probability of the transition -/
  p : FV
  lo : FV
  hi : FV
  deriving Repr, DecidableEq, Inhabited

/-- per transition: target, previous running sum, new running sum (f32 arithmetic, vector order) -/
def bands : FV → List Trans → List Band
  | _, [] => []
  | c, t :: ts =>
    let c' := Fp.add Fp.f32 c (Fp.val32 t.prob)
    ⟨t.target, Fp.val32 t.prob, c, c'⟩ :: bands c' ts

/-- the last running sum -/
def total : FV → List Trans → FV
  | c, [] => c
  | c, t :: ts => total (Fp.add Fp.f32 c (Fp.val32 t.prob)) ts

/-- the running sums never decrease -/
def Mono : FV → List Trans → Prop
  | _, [] => True
  | c, t :: ts =>
    Fp.le c (Fp.add Fp.f32 c (Fp.val32 t.prob)) = true ∧ Mono (Fp.add Fp.f32 c (Fp.val32 t.prob)) ts

/-- number of outcomes `k < N` with `P k` -/
def count (P : Nat → Bool) : Nat := ((List.range N).filter P).length

/-- `⌈c · N⌉` clipped to `[0, N]` -/
def ceilN : FV → Nat
  | .fin q => min N (q * (N : Rat)).ceil.toNat
  | .inf false => N
  | _ => 0

/-- the share of a band in outcomes -/
def Band.size (b : Band) : Nat := ceilN b.hi - ceilN b.lo

/-- closed form: (target, number of outcomes) per transition, and the number of outcomes
    without a transition -/
def closedForm (ts : List Trans) : List (Nat × Nat) × Nat :=
  ((bands (.fin 0) ts).map (fun b => (b.target, b.size)), N - ceilN (total (.fin 0) ts))

/-- the outcome of the draw selects the transition -/
def pick (ts : List Trans) (k : Nat) : Option Nat := sampleLoop (draw k) (.fin 0) ts

end C06
end Mb

/-! ### Framework level: one fresh draw per transition lookup

The statement above is about `State::sample_state` in isolation.  Inside the framework the same
property needs every transition lookup to consume a draw *of its own*: a lookup that re-uses the
draw of another lookup (say the outer transition's draw for the CounterZero transition it triggers)
still "follows the probabilities" call by call, but the joint outcome does not — two 1/2 choices
would be taken together on half of all outputs instead of a quarter.  The monitor below reads the
hooked log of a call: directly after every `trans mi ev st` entry whose state declares a
transition list for the event there must be one `draw` entry, and a `sampled mi ev tgt` entry
follows exactly when the declared probabilities assign `tgt` to that draw; a lookup in END or
without a list draws nothing; draws and samplings do not occur anywhere else. -/
namespace Mb
namespace C06

/-- the transition list of machine `mi`, state `st`, event `ev` (none = no lookup possible) -/
def lookup (ms : List Machine) (mi ev st : Nat) : Option (List Trans) :=
  if st = STATE_END then none else
  match ms[mi]? with
  | none => none
  | some m => match m.states[st]? with
    | none => none
    | some s => match s.transitions[ev]? with
      | some (some v) => some v
      | _ => none

/-- what the monitor waits for while it reads the log -/
inductive Pending where
  | idle
  /-- a lookup with a declared list was logged: a draw must follow -/
  | needDraw (mi ev st : Nat) (v : List Trans)
  /-- lookup without a list (or in END): neither a draw nor a sampling of that lookup may follow -/
  | noLookup (mi ev st : Nat)
  /-- the draw was read: `exp` is the target the declared probabilities assign to it -/
  | afterDraw (mi ev st : Nat) (bits : F32) (exp : Option Nat)
  deriving Repr, Inhabited

/-- close a pending lookup at an entry that is not the one it waits for -/
def closePending : Pending → Option String
  | .needDraw mi ev st _ => some s!"machine {mi}: the lookup for event {ev} in state {st} did not make a draw of its own"
  | .afterDraw mi ev st bits (some tgt) =>
    some s!"machine {mi} event {ev} state {st}: draw {bits.toNat} selects target {tgt} by the declared probabilities, but no transition was taken"
  | _ => none

def stepDraws (ms : List Machine) (p : Pending) (e : LogEntry) : Except String Pending :=
  match e with
  | .trans mi ev st =>
    match closePending p with
    | some err => .error err
    | none => match lookup ms mi ev st with
      | some v => .ok (.needDraw mi ev st v)
      | none => .ok (.noLookup mi ev st)
  | .draw bits =>
    match p with
    | .needDraw mi ev st v => .ok (.afterDraw mi ev st bits (sampleState v bits))
    | .noLookup mi ev st => .error s!"machine {mi}: a draw was made for event {ev} in state {st} which declares no transitions (or is END)"
    | _ => .error "a uniform draw that belongs to no transition lookup"
  | .sampled mi' ev' tgt' =>
    match p with
    | .afterDraw mi ev st bits (some tgt) =>
      if mi' = mi ∧ ev' = ev ∧ tgt' = tgt then .ok .idle
      else .error s!"machine {mi} event {ev} state {st}: draw {bits.toNat} selects target {tgt} by the declared probabilities, the log has target {tgt'} (machine {mi'}, event {ev'})"
    | .afterDraw mi ev st bits none =>
      .error s!"machine {mi} event {ev} state {st}: draw {bits.toNat} selects no target by the declared probabilities, but target {tgt'} was taken (machine {mi'}, event {ev'})"
    | .noLookup mi ev st => .error s!"machine {mi}: a transition was taken on event {ev} in state {st} which declares none (target {tgt'})"
    | _ => .error s!"machine {mi'}: a transition on event {ev'} without a lookup and a draw of its own"
  | _ =>
    match closePending p with
    | some err => .error err
    | none => .ok .idle

def checkDrawsFrom (ms : List Machine) : Pending → List LogEntry → Option String
  | p, [] => closePending p
  | p, e :: rest =>
    match stepDraws ms p e with
    | .error err => some err
    | .ok p' => checkDrawsFrom ms p' rest

def checkDraws (ms : List Machine) (log : List LogEntry) : Option String := checkDrawsFrom ms .idle log

/-- the draw is one of the `2^23` values `k · 2^-23`, `k < 2^23` -/
def drawInRange (bits : F32) : Bool :=
  match Fp.val32 bits with
  | .fin q => decide (0 ≤ q) && decide (q < 1) && decide ((q * (N : Rat)).den = 1)
  | _ => false

def fwMonitor (t : FwTrace) : Option String :=
  let rec go (i : Nat) : List CallRec → Option String
    | [] => none
    | c :: cs =>
      if c.res != .ok then none else
      match checkDraws t.machines c.log with
      | some e => some s!"call {i}: {e}"
      | none =>
        match c.log.find? (fun e => match e with | .draw b => !drawInRange b | _ => false) with
        | some (.draw b) => some s!"call {i}: draw {b.toNat} is not one of the 2^23 values k/2^23 in [0,1)"
        | _ => go (i + 1) cs
  match checkDraws t.machines t.log0 with
  | some e => some s!"new: {e}"
  | none => go 0 t.calls

end C06
end Mb
