/-
  C06 — transitions follow the declared probabilities over the whole RNG output space.

  The uniform draw of `State::sample_state` is `r = k · 2^-23` for `k = w >> 9` of one
  `next_u32` word `w` (`C13.draw01`), so there are exactly `N = 2^23` equally likely
  outcomes.  `bands c₀ ts` lists for each transition its target and the half-open interval
  `[cᵢ₋₁, cᵢ)` between consecutive f32 running sums `cᵢ = fl32(cᵢ₋₁ + pᵢ)`; `count P` counts
  the outcomes `k < N` satisfying `P`; `closedForm` is what the counts must be.
-/
import MbVerif.Framework
import MbVerif.Spec.C13

namespace Mb
namespace C06
open Fp

/-- number of distinct values of the uniform f32 draw -/
def N : Nat := 2 ^ 23

/-- the `k`-th value of the draw -/
def draw (k : Nat) : FV := .fin ((k : Rat) / (N : Rat))

structure Band where
  target : Nat
  /-- the declared probability of the transition -/
  p : FV
  lo : FV
  hi : FV
  deriving Repr, DecidableEq, Inhabited

/-- per transition: target, previous running sum, new running sum (f32 arithmetic, vector order) -/
def bands : FV → List Trans → List Band
  | _, [] => []
  | c, t :: ts =>
    let c' := Fp.add Fp.f32 c (Fp.val32 t.prob)
    ⟨t.target, Fp.val32 t.prob, c, c'⟩ :: bands c' ts

/-- the last running sum -/
def total : FV → List Trans → FV
  | c, [] => c
  | c, t :: ts => total (Fp.add Fp.f32 c (Fp.val32 t.prob)) ts

/-- the running sums never decrease -/
def Mono : FV → List Trans → Prop
  | _, [] => True
  | c, t :: ts =>
    Fp.le c (Fp.add Fp.f32 c (Fp.val32 t.prob)) = true ∧ Mono (Fp.add Fp.f32 c (Fp.val32 t.prob)) ts

/-- number of outcomes `k < N` with `P k` -/
def count (P : Nat → Bool) : Nat := ((List.range N).filter P).length

/-- `⌈c · N⌉` clipped to `[0, N]` -/
def ceilN : FV → Nat
  | .fin q => min N (q * (N : Rat)).ceil.toNat
  | .inf false => N
  | _ => 0

/-- the share of a band in outcomes -/
def Band.size (b : Band) : Nat := ceilN b.hi - ceilN b.lo

/-- closed form: (target, number of outcomes) per transition, and the number of outcomes
    without a transition -/
def closedForm (ts : List Trans) : List (Nat × Nat) × Nat :=
  ((bands (.fin 0) ts).map (fun b => (b.target, b.size)), N - ceilN (total (.fin 0) ts))

/-- the outcome of the draw selects the transition -/
def pick (ts : List Trans) (k : Nat) : Option Nat := sampleLoop (draw k) (.fin 0) ts

end C06
end Mb
