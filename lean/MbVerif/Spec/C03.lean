/-
  C03 — blocking budgets. Specification from the property text: blocked time is recomputed from
  the BlockingBegin/BlockingEnd reports and the call timestamps alone (an ongoing block counts up
  to now; time running backwards counts as zero elapsed time).
-/
import MbVerif.Trace

namespace Mb.C03
open Mb

/-- blocking state recomputed from the reports -/
structure BlockAcc where
  active : Bool
  started : Int
  total : Nat       -- ns of closed blocking periods
  deriving Repr, DecidableEq, Inhabited

def blockEvent (now : Int) (e : TEvent) (b : BlockAcc) : BlockAcc :=
  match e with
  | .blockingBegin _ => if !b.active then { b with active := true, started := now } else b
  | .blockingEnd =>
    if b.active then { active := false, started := b.started, total := b.total + durSince now b.started } else b
  | _ => b

def blockCall (c : Call) (b : BlockAcc) : BlockAcc := c.1.foldl (fun b e => blockEvent c.2 e b) b

def blockHistory (t0 : Int) (h : List Call) : BlockAcc :=
  h.foldl (fun b c => blockCall c b) { active := false, started := t0, total := 0 }

/-- blocked time so far, an ongoing block counted up to `now` -/
def blockedNow (now : Int) (b : BlockAcc) : Nat :=
  b.total + (if b.active then durSince now b.started else 0)

/-- "the blocked share of the time since start is below the limit f (if set)"; the share is the
    double the code computes (seconds as f64, one division) -/
def belowShare (blockedNs elapsedNs : Nat) (f : F64) : Bool :=
  !(Fp.gt (Fp.val64 f) (.fin 0) && Fp.ge (divDur blockedNs elapsedNs) (Fp.val64 f))

/-- the property's disjunction -/
def blockOK (allowedUs : Nat) (mfrac gfrac : F64) (replace : Bool) (t0 now : Int) (b : BlockAcc) : Bool :=
  (replace && b.active) ||
  decide (blockedNow now b < allowedUs * 1000) ||
  (belowShare (blockedNow now b) (durSince now t0) mfrac && belowShare (blockedNow now b) (durSince now t0) gfrac)

/-- monitor over an observed run of the implementation -/
def monitor (t : FwTrace) : Option String :=
  let rec go (i : Nat) (b : BlockAcc) : List CallRec → Option String
    | [] => none
    | c :: cs =>
      if c.res != .ok then none else
      let b := blockCall (c.events, c.t) b
      if c.events.length == 1 then
        let bad := c.actions.find? (fun a => match a with
          | .blockOutgoing _ _ _ rp mi =>
            match t.machines[mi]? with
            | some m => !blockOK m.allowedBlockedMicrosec m.maxBlockingFrac t.fb rp t.t0 c.t b
            | none => true
          | _ => false)
        match bad with
        | some a => some s!"call {i}: BlockOutgoing for machine {a.machine} with blockedNs={blockedNow c.t b} elapsedNs={durSince c.t t.t0} active={b.active}"
        | none => go (i + 1) b cs
      else go (i + 1) b cs
  go 1 { active := false, started := t.t0, total := 0 } t.calls

end Mb.C03
