/-
  C17 — action timers.  From the property text: every PaddingSent / BlockingBegin reported for
  a machine is caused by the most recent SendPadding / BlockOutgoing action the framework
  returned for that machine, happens exactly at that action's issue time plus its timeout, and
  happens once; a newer action for the machine or a Cancel of the action timer supersedes the
  pending one; an action that is not superseded fires when due, before time moves past it.
-/
import MbVerif.Spec.SimCommon

namespace Mb.C17
open Mb Mb.Sim Mb.SimSpec

/-- a pending action timer -/
structure Pending where
  action : TAction
  due : Int
  deriving Repr, DecidableEq, Inhabited

/-- the action-timer slot of a machine after the framework returned `a` at time `t` (the contract) -/
def slotSpec (cur : Option Pending) (t : Int) (a : TAction) : Option Pending :=
  match a with
  | .cancel _ .action | .cancel _ .all => none
  | .cancel _ .internal => cur
  | .sendPadding timeout _ _ _ => some ⟨a, t + timeout * 1000⟩
  | .blockOutgoing timeout _ _ _ _ => some ⟨a, t + timeout * 1000⟩
  | .updateTimer _ _ _ => cur

structure MonSt where
  c : List (Option Pending)
  s : List (Option Pending)
  /-- diagnosis only: actions superseded or cancelled before they fired (client?, machine, pending) -/
  stale : List (Bool × Nat × Pending) := []
  deriving Repr, Inhabited

def MonSt.side (m : MonSt) (client : Bool) : List (Option Pending) := if client then m.c else m.s
def MonSt.setSide (m : MonSt) (client : Bool) (x : List (Option Pending)) : MonSt :=
  if client then { m with c := x } else { m with s := x }

def sideName (client : Bool) : String := if client then "client" else "server"

/-- apply the returned actions to the slots; also returns the pending actions they superseded -/
def applyActs (t : Int) (sl : List (Option Pending)) (retired : List (Nat × Pending)) :
    List TAction → List (Option Pending) × List (Nat × Pending)
  | [] => (sl, retired)
  | a :: r =>
    let cur := sl[a.machine]?.join
    let new := slotSpec cur t a
    -- an action that overwrites or clears the slot supersedes the pending one even when it is an
    -- identical re-issue (same action, same due time); UpdateTimer / Cancel Internal leave it alone
    let touches : Bool := match a with
      | .sendPadding .. | .blockOutgoing .. => true
      | .cancel _ tm => tm == .action || tm == .all
      | .updateTimer .. => false
    let retired := match cur with
      | some p => if touches then (a.machine, p) :: retired else retired
      | none => retired
    applyActs t (sl.set a.machine new) retired r

/-- first pending action whose due time is before `t` -/
def overdue (sl : List (Option Pending)) (t : Int) : Option (Nat × Int) :=
  (sl.zipIdx.filterMap fun (p, i) => match p with
    | some p => if p.due < t then some (i, p.due) else none
    | none => none).head?

/-- diagnosis: the event is explained by a superseded / cancelled action of the same machine that
    was due exactly now (it had already been executed when it was superseded) -/
def staleMatch (st : MonSt) (client : Bool) (m : Nat) (t : Int) (padding : Bool) : Bool :=
  st.stale.any fun (c, m', p) => c == client && m' == m && p.due == t &&
    (match p.action with
      | .sendPadding .. => padding
      | .blockOutgoing .. => !padding
      | _ => false)

/-- one observed event; a violation is prefixed by `[S1-early-exec]` when a superseded or
    cancelled action of that machine, due exactly at this time, explains it.  Details after
    ` | ` are not part of the key. -/
def stepEv (st : MonSt) (x : EvActs) : Except String MonSt := do
  let e := x.ev
  let t := e.time
  for cl in [true, false] do
    if let some (m, due) := overdue (st.side cl) t then
      throw s!"action timer of a {sideName cl} machine did not fire before time moved past it | machine {m} due at {due}, time moved to {t}"
  let sl := st.side e.client
  let sl ← match e.event with
    | .paddingSent m =>
      let tag := if staleMatch st e.client m t true then "[S1-early-exec] " else ""
      match sl[m]?.join with
      | some ⟨.sendPadding _ bypass replace _, due⟩ =>
        if due != t then throw s!"{tag}PaddingSent for a {sideName e.client} machine at another time than the pending action is due | machine {m} at {t}, due {due}"
        else if e.bypass != bypass || e.replace != replace then
          throw s!"PaddingSent for a {sideName e.client} machine carries other flags than the action | machine {m} at {t}: ({e.bypass},{e.replace}) vs ({bypass},{replace})"
        else pure (sl.set m none)
      | _ => throw s!"{tag}PaddingSent for a {sideName e.client} machine without a pending SendPadding | machine {m} at {t}"
    | .blockingBegin m =>
      let tag := if staleMatch st e.client m t false then "[S1-early-exec] " else ""
      match sl[m]?.join with
      | some ⟨.blockOutgoing _ _ _ _ _, due⟩ =>
        if due != t then throw s!"{tag}BlockingBegin for a {sideName e.client} machine at another time than the pending action is due | machine {m} at {t}, due {due}"
        else pure (sl.set m none)
      | _ => throw s!"{tag}BlockingBegin for a {sideName e.client} machine without a pending BlockOutgoing | machine {m} at {t}"
    | _ => pure sl
  let (sl, retired) := applyActs t sl [] x.acts
  let st := st.setSide e.client sl
  pure { st with stale := (retired.map fun (m, p) => (e.client, m, p)) ++ st.stale.filter fun (_, _, p) => p.due ≥ t }

def runMon (st : MonSt) : List EvActs → Option String
  | [] => none
  | x :: r =>
    match stepEv st x with
    | .error msg => some msg
    | .ok st => runMon st r

def monitor (nc ns : Nat) (tr : List EvActs) : Option String :=
  runMon { c := List.replicate nc none, s := List.replicate ns none } tr

end Mb.C17
