/-
  C17 — action timers.  From the property text: every PaddingSent / BlockingBegin reported for
  a machine is caused by the most recent SendPadding / BlockOutgoing action the framework
  returned for that machine, happens exactly at that action's issue time plus its timeout, and
  happens once; a newer action for the machine or a Cancel of the action timer supersedes the
  pending one; an action that is not superseded fires when due, before time moves past it.
-/
import MbVerif.Spec.SimCommon

namespace Mb.C17
open Mb Mb.Sim Mb.SimSpec

/-- a pending action timer -/
structure Pending where
  action : TAction
  due : Int
  deriving Repr, DecidableEq, Inhabited

/-- the action-timer slot of a machine after the framework returned `a` at time `t` (the contract) -/
def slotSpec (cur : Option Pending) (t : Int) (a : TAction) : Option Pending :=
  match a with
  | .cancel _ .action | .cancel _ .all => none
  | .cancel _ .internal => cur
  | .sendPadding timeout _ _ _ => some ⟨a, t + timeout * 1000⟩
  | .blockOutgoing timeout _ _ _ _ => some ⟨a, t + timeout * 1000⟩
  | .updateTimer _ _ _ => cur

structure MonSt where
  c : List (Option Pending)
  s : List (Option Pending)
  deriving Repr, Inhabited

def MonSt.side (m : MonSt) (client : Bool) : List (Option Pending) := if client then m.c else m.s
def MonSt.setSide (m : MonSt) (client : Bool) (x : List (Option Pending)) : MonSt :=
  if client then { m with c := x } else { m with s := x }

def sideName (client : Bool) : String := if client then "client" else "server"

def applyActs (t : Int) (sl : List (Option Pending)) : List TAction → List (Option Pending)
  | [] => sl
  | a :: r => applyActs t (sl.set a.machine (slotSpec (sl[a.machine]?.join) t a)) r

/-- first pending action whose due time is before `t` -/
def overdue (sl : List (Option Pending)) (t : Int) : Option (Nat × Int) :=
  (sl.zipIdx.filterMap fun (p, i) => match p with
    | some p => if p.due < t then some (i, p.due) else none
    | none => none).head?

def stepEv (st : MonSt) (x : EvActs) : Except String MonSt := do
  let e := x.ev
  let t := e.time
  for cl in [true, false] do
    if let some (m, due) := overdue (st.side cl) t then
      throw s!"action timer of {sideName cl} machine {m} was due at {due} but did not fire before time moved to {t}"
  let sl := st.side e.client
  let sl ← match e.event with
    | .paddingSent m =>
      match sl[m]?.join with
      | some ⟨.sendPadding _ bypass replace _, due⟩ =>
        if due != t then throw s!"PaddingSent for {sideName e.client} machine {m} at {t} but the pending action is due at {due}"
        else if e.bypass != bypass || e.replace != replace then
          throw s!"PaddingSent for {sideName e.client} machine {m} at {t} carries flags ({e.bypass},{e.replace}) but the action says ({bypass},{replace})"
        else pure (sl.set m none)
      | _ => throw s!"PaddingSent for {sideName e.client} machine {m} at {t} without a pending SendPadding"
    | .blockingBegin m =>
      match sl[m]?.join with
      | some ⟨.blockOutgoing _ _ _ _ _, due⟩ =>
        if due != t then throw s!"BlockingBegin for {sideName e.client} machine {m} at {t} but the pending action is due at {due}"
        else pure (sl.set m none)
      | _ => throw s!"BlockingBegin for {sideName e.client} machine {m} at {t} without a pending BlockOutgoing"
    | _ => pure sl
  pure (st.setSide e.client (applyActs t sl x.acts))

def runMon (st : MonSt) : List EvActs → Option String
  | [] => none
  | x :: r =>
    match stepEv st x with
    | .error msg => some msg
    | .ok st => runMon st r

def monitor (nc ns : Nat) (tr : List EvActs) : Option String :=
  runMon ⟨List.replicate nc none, List.replicate ns none⟩ tr

end Mb.C17
