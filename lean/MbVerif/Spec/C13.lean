/-
  C13 — sampling a validated distribution returns promptly with a value in range.

  * `InRange mx v` : the property's "real number that is at least 0 and, when a maximum is
    set, at most that maximum" for the value returned by `Dist::sample` (reading fixed in
    DESIGN §9: "real" = not NaN; `+inf` is the saturated top that every consumer absorbs).
  * `ctorOK` : the parameter checks of the rand_distr 0.4.3 constructors exactly as
    `dist_sample` calls them (Gamma with swapped arguments), plus for Uniform the
    `gen_range(low..high)` assertions of rand 0.8 (`!range.is_empty()`, the two finiteness
    debug assertions, `low < high`, `high - low` finite); `true` = no `unwrap`/assert fires.
  * `uniformF64` / `uniformF32` : one iteration of `UniformFloat::<f64/f32>::sample_single`
    (rand 0.8.8, src/distributions/uniform.rs:794-871) as a function of the RNG word.
-/
import MbVerif.Framework

namespace Mb
namespace C13
open Fp

/-! ### range of a returned sample -/

/-- not NaN and at least 0 (`+inf` allowed) -/
def NonNeg : FV → Prop
  | .fin q => 0 ≤ q
  | .inf neg => neg = false
  | .nan => False

/-- `max > 0.0`: a maximum is set -/
def MaxSet : FV → Prop
  | .fin m => 0 < m
  | .inf neg => neg = false
  | .nan => False

/-- `AtMost mx v`: `v ≤ mx` in the extended reals -/
def AtMost : FV → FV → Prop
  | .fin m, .fin q => q ≤ m
  | .inf neg, .fin _ => neg = false
  | .inf a, .inf b => a = false ∧ b = false ∨ b = true
  | .fin _, .inf b => b = true
  | _, _ => False

def InRange (mx v : FV) : Prop := NonNeg v ∧ (MaxSet mx → AtMost mx v)

instance : DecidablePred NonNeg := fun v => by cases v <;> simp only [NonNeg] <;> infer_instance
instance : DecidablePred MaxSet := fun v => by cases v <;> simp only [MaxSet] <;> infer_instance
instance (a b : FV) : Decidable (AtMost a b) := by
  cases a <;> cases b <;> simp only [AtMost] <;> infer_instance
instance (a b : FV) : Decidable (InRange a b) := by unfold InRange; infer_instance

/-- monitor: is the value returned by `Dist::sample` in range -/
def inRangeB (mx v : FV) : Bool := decide (InRange mx v)

/-! ### constructor preconditions as called by `dist_sample` -/

def finite : FV → Bool
  | .fin _ => true
  | _ => false

def ctorOK : DistType → Bool
  | .uniform lo hi =>
    let l := val64 lo
    let h := val64 hi
    if feq l h then true                         -- `if low == high { return low; }`
    else
      lt l h                                     -- gen_range: `!range.is_empty()`; sample_single: `low < high`
      && finite l && finite h                    -- debug_assert!(low.all_finite()), (high.all_finite())
      && finite (sub f64 h l)                    -- assert!(scale.all_finite())
  | .normal _ stdev => finite (val64 stdev)
  | .skewNormal _ scale shape => finite (val64 scale) && gt (val64 scale) (.fin 0) && finite (val64 shape)
  | .logNormal _ sigma => finite (val64 sigma)
  | .binomial _ p => ge (val64 p) (.fin 0) && le (val64 p) (.fin 1)
  | .geometric p => finite (val64 p) && !(lt (val64 p) (.fin 0)) && !(gt (val64 p) (.fin 1))
  | .pareto scale shape => gt (val64 scale) (.fin 0) && gt (val64 shape) (.fin 0)
  | .poisson lambda => gt (val64 lambda) (.fin 0)
  | .weibull scale shape => gt (val64 scale) (.fin 0) && gt (val64 shape) (.fin 0)
  | .gamma scale shape =>                        -- `Gamma::new(shape, scale)`
    gt (val64 shape) (.fin 0) && gt (val64 scale) (.fin 0)
    && (if feq (val64 shape) (.fin 1) then ge (div f64 (.fin 1) (val64 scale)) (.fin 0) else true)
  | .beta alpha beta => gt (val64 alpha) (.fin 0) && gt (val64 beta) (.fin 0)

/-! ### rand's uniform float sampling -/

/-- the 52 mantissa bits of a `next_u64` word as a number in [0,1): `(w >> 12) · 2^-52`
    (`into_float_with_exponent(0) - 1.0`, exact) -/
def unit64 (w : UInt64) : Rat := ((w.toNat / 2 ^ 12 : Nat) : Rat) / ((2 ^ 52 : Nat) : Rat)

/-- the 23 mantissa bits of a `next_u32` word as a number in [0,1): `(w >> 9) · 2^-23` -/
def unit32 (w : UInt32) : Rat := ((w.toNat / 2 ^ 9 : Nat) : Rat) / ((2 ^ 23 : Nat) : Rat)

/-- `res = value0_1 * scale + low` of one iteration of `UniformFloat::<f64>::sample_single`
    (two roundings; `scale = high - low` is finite after validation and never changes) -/
def uniformRes (low high : F64) (w : UInt64) : FV :=
  let l := val64 low
  let h := val64 high
  let scale := sub f64 h l
  add f64 (mul f64 (.fin (unit64 w)) scale) l

/-- one iteration of `UniformFloat::<f64>::sample_single(low, high)`:
    `none` = `res >= high`, draw again -/
def uniformF64 (low high : F64) (w : UInt64) : Option FV :=
  if lt (uniformRes low high w) (val64 high) then some (uniformRes low high w) else none

/-- one iteration of `UniformFloat::<f32>::sample_single(low, high)` -/
def uniformF32 (low high : F32) (w : UInt32) : Option FV :=
  let l := val32 low
  let h := val32 high
  let scale := sub f32 h l
  let res := add f32 (mul f32 (.fin (unit32 w)) scale) l
  if lt res h then some res else none

/-- `rng.gen_range(0.0..1.0)` on f32 as used by `State::sample_state` -/
def draw01 (w : UInt32) : Option FV := uniformF32 0 0x3f800000 w

/-- the retry loop of `sample_single` over a list of words: value and number of words consumed -/
def uniformF64Loop (low high : F64) : List UInt64 → Nat → Option (FV × Nat)
  | [], _ => none
  | w :: ws, n =>
    match uniformF64 low high w with
    | some v => some (v, n + 1)
    | none => uniformF64Loop low high ws (n + 1)

/-- bit pattern → value, identifying the two zeros (the model does not track the sign of zero) -/
def sameValue (a b : FV) : Bool :=
  match a, b with
  | .nan, .nan => true
  | a, b => decide (a = b)

end C13
end Mb
