/-
  C01 — totality and work bound, as a monitor over observed runs.
-/
import MbVerif.Trace

namespace Mb.C01
open Mb

/-- number of transition invocations recorded in a call's log -/
def steps (log : List LogEntry) : Nat :=
  log.countP (fun e => match e with | .trans .. => true | _ => false)

/-- the work bound of the property: a small constant times (events + 1) x (machines + 1) -/
def workBound (events machines : Nat) : Nat := 6 * (events + 1) * (machines + 1)

/-- widest gap (ns) between any two clock values supplied so far -/
def span (t0 : Int) (calls : List CallRec) : Nat :=
  let ts := t0 :: calls.map (·.t)
  let mx := ts.foldl (fun a b => if b > a then b else a) t0
  let mn := ts.foldl (fun a b => if b < a then b else a) t0
  (mx - mn).toNat

def monitor (t : FwTrace) : Option String :=
  if t.newRes != .ok && t.newRes != .err then
    some (match t.newRes with
      | .panic cls => s!"Framework::new panicked: {cls}"
      | _ => "Framework::new panicked") else
  let rec go (i : Nat) (seen : List CallRec) : List CallRec → Option String
    | [] => none
    | c :: cs =>
      match c.res with
      | .panic cls =>
        let sp := span t.t0 (seen ++ [c])
        -- the only known way to panic: clock spans so large that blocked time overflows Duration
        let spanClass := if sp ≥ 2 ^ 60 * 1000000000 then "span>=2^60s" else "span<2^60s"
        some s!"call {i}: panic {cls} {spanClass}"
      | _ =>
        if steps c.log > workBound c.events.length t.machines.length then
          some s!"call {i}: {steps c.log} transition steps exceed the bound {workBound c.events.length t.machines.length}"
        else go (i + 1) (seen ++ [c]) cs
  go 1 [] t.calls

end Mb.C01
