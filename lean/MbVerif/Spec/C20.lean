/-
  C20 — the C API returns exactly the framework's actions, never writes past `num_machines`,
  and reports bad arguments through error codes.

  Specification as a list of named decidable checks over what a caller of the C API observes
  (`checks`); the property is "every check holds" (`Holds`), the monitor reports the first
  failing check (`firstFail`); `firstFail_none_iff` (Props/C20.lean) proves the two equivalent.
  The same definitions are used by the theorems about the model and by the monitor that the
  driver runs on the implementation's observations.
-/
import MbVerif.Ffi

namespace Mb.C20
open Mb Mb.Ffi

/-- a named check -/
abbrev Check := Bool × String

/-- the property: every check holds -/
def Holds (cs : List Check) : Prop := ∀ c ∈ cs, c.1 = true

/-- the monitor: description of the first failing check -/
def firstFail (cs : List Check) : Option String := (cs.find? (fun c => !c.1)).map (·.2)

/-! ### `maybenot_on_events` -/

/-- what the caller observes of one call -/
structure EvObs where
  /-- which pointer arguments were null -/
  nulls : Nulls
  /-- returned `MaybenotResult` -/
  rc : Nat
  /-- the count cell after the call; `none` = still the caller's sentinel -/
  count : Option Nat
  /-- `maybenot_num_machines` -/
  nm : Nat
  /-- number of guard slots the caller placed before and after its `nm` output slots -/
  guard : Nat
  /-- the slot contents the caller filled all `guard + nm + guard` slots with before the call -/
  patSlot : Bytes
  /-- the caller's memory after the call: `guard + nm + guard` slots -/
  mem : List Bytes
  /-- the actions the Rust framework returns for the same machines and events -/
  ref : List TAction
  deriving Repr, Inhabited

/-- the `nm` output slots -/
def EvObs.slots (o : EvObs) : List Bytes := (o.mem.drop o.guard).take o.nm

def EvObs.checks (o : EvObs) : List Check :=
  [ (o.rc == onEventsRc o.nulls, "result code: a null instance/event/action/count pointer must give NullPointer, anything else Ok"),
    (o.mem.length == o.guard + o.nm + o.guard, "observation malformed: memory size"),
    (o.mem.take o.guard == List.replicate o.guard o.patSlot, "canary before the output buffer overwritten"),
    (o.mem.drop (o.guard + o.nm) == List.replicate o.guard o.patSlot, "canary after the output buffer overwritten (write past num_machines)") ] ++
  (if o.rc == RC_Ok then
    match o.count with
    | none => [(false, "Ok returned but the count was not written")]
    | some k =>
      [ (decide (k ≤ o.nm), "count exceeds maybenot_num_machines"),
        (k == o.ref.length, "count differs from the number of actions the framework returns"),
        ((o.slots.take k).map decodeAction == (o.ref.map (fun a => some (view a))),
          "written actions differ from the framework's (kind, machine, bypass, replace, timer, timeout/duration secs+nanos)"),
        (o.slots.drop k == List.replicate (o.nm - k) o.patSlot, "a slot at or beyond index `count` was written") ]
  else
    [ (o.count == none, "error returned but the count was written"),
      (o.slots == List.replicate o.nm o.patSlot, "error returned but the output buffer was written") ])

/-! ### `maybenot_start`, `maybenot_num_machines`, `maybenot_stop` -/

structure StartObs where
  outNull : Bool
  /-- the machine-string argument as the Rust API sees it (UTF-8 check, `Machine::from_str` per line) -/
  arg : MachinesArg
  fp : F64
  fb : F64
  rc : Nat
  /-- was a non-null instance pointer stored through `out` -/
  outWritten : Bool
  /-- `maybenot_num_machines` of the new instance (when one was created) -/
  nm : Option Nat
  /-- `maybenot_num_machines(NULL)` -/
  nmNull : Nat
  deriving Repr, Inhabited

def StartObs.checks (o : StartObs) : List Check :=
  [ (o.rc == startRc o.outNull o.arg o.fp o.fb,
      "start result code: NullPointer / MachineStringNotUtf8 / InvalidMachineString / StartFramework / Ok as the Rust API accepts the arguments"),
    (o.nmNull == 0, "maybenot_num_machines(NULL) is not 0"),
    (o.rc != RC_Ok || o.outWritten, "Ok returned but no instance pointer was stored") ] ++
  (match o.arg, o.nm with
   | .parsed ms, some n => [(o.rc != RC_Ok || n == ms.length, "maybenot_num_machines differs from the number of machine strings")]
   | _, _ => [])

/-- allocated bytes before `maybenot_start` and after `maybenot_stop` (counting allocator) -/
structure StopObs where
  before : Nat
  after : Nat
  deriving Repr, Inhabited

def StopObs.checks (o : StopObs) : List Check :=
  [ (o.before == o.after, "start/stop leak: allocated bytes differ before start and after stop") ]

end Mb.C20
