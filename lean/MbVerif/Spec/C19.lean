/-
  C19 — reproducible, total, filters are projections.  Over the runs of one case:
  * two runs with the same seed, machines, trace and arguments give identical traces;
  * the trace obtained with `only_client_events` and/or `only_network_activity` is exactly the
    corresponding sub-sequence of the unfiltered trace (when the length cap binds: its prefix);
  * the simulation returns without panicking and within the configured bounds.
-/
import MbVerif.Spec.SimCommon

namespace Mb.C19
open Mb Mb.Sim Mb.SimSpec

/-- the projection of an unfiltered, uncapped trace that a filtered / capped run must return -/
def project (onlyNet onlyClient : Bool) (cap : Nat) (unfiltered : List SimEvent) : List SimEvent :=
  takeCap cap (unfiltered.filter (keepObs onlyNet onlyClient))

/-- same inputs up to the filters and the length cap -/
def sameBase (a b : RunIn) : Bool :=
  a.adv == b.adv && a.pps == b.pps && a.seed == b.seed && a.seed.isSome
  && a.args.maxSimIterations == b.args.maxSimIterations
  && a.args.continueAfterAllNormal == b.args.continueAfterAllNormal
  && a.args.fpClient == b.args.fpClient && a.args.fbClient == b.args.fbClient
  && a.args.fpServer == b.args.fpServer && a.args.fbServer == b.args.fbServer

def sameArgs (a b : RunIn) : Bool :=
  sameBase a b && a.args.maxTraceLength == b.args.maxTraceLength
  && a.args.onlyClientEvents == b.args.onlyClientEvents && a.args.onlyNetworkActivity == b.args.onlyNetworkActivity

def isReference (r : RunIn) : Bool :=
  r.args.maxTraceLength == 0 && !r.args.onlyClientEvents && !r.args.onlyNetworkActivity

/-- bounds of one run -/
def boundsOK (a : Args) (tr : List SimEvent) : Bool :=
  (a.maxTraceLength == 0 || tr.length ≤ a.maxTraceLength)
  && (a.maxSimIterations == 0 || tr.length ≤ a.maxSimIterations)

/-- monitor over all runs of a case: list of failures -/
def monitor (c : CaseIn) (runs : List ObsRun) : List String :=
  let panics := runs.filterMap fun r => match r.res with
    | .panic cls => some s!"run {r.run.name}: panic {cls} (pps={r.run.pps} delay={c.delay})"
    | .ok _ => none
  let bounds := runs.filterMap fun r => match r.res with
    | .ok tr =>
      let a := r.run.effArgs c.delay
      if boundsOK a tr then none else some s!"run {r.run.name}: {tr.length} events exceed the bounds (max_trace_length={a.maxTraceLength} max_sim_iterations={a.maxSimIterations})"
    | _ => none
  let det := runs.zipIdx.flatMap fun (r, i) => (runs.drop (i + 1)).filterMap fun r' =>
    if sameArgs r.run r'.run && r.res != r'.res then some s!"runs {r.run.name} and {r'.run.name} have the same seed and arguments but differ" else none
  let proj := runs.flatMap fun u =>
    if !isReference u.run then [] else
    match u.res with
    | .panic _ => []
    | .ok ut => runs.filterMap fun f =>
      if isReference f.run || !sameBase u.run f.run then none else
      match f.res with
      | .panic _ => none
      | .ok ft =>
        if ft == project f.run.args.onlyNetworkActivity f.run.args.onlyClientEvents f.run.args.maxTraceLength ut then none
        else some s!"run {f.run.name} (oc={f.run.args.onlyClientEvents} on={f.run.args.onlyNetworkActivity} cap={f.run.args.maxTraceLength}) is not the projection of the unfiltered run {u.run.name}"
  panics ++ bounds ++ det ++ proj

end Mb.C19
