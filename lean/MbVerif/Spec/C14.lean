/-
  C14 — with no machines on either side the simulator reproduces the input trace: from the
  client's perspective a tunnel-sent packet at exactly every `s` time and a tunnel-received
  packet at exactly every `r` time and nothing else; the server shows the mirror image shifted
  by the network delay.  Stated over one observed run whose length / iteration caps do not bind.
-/
import MbVerif.Spec.SimCommon

namespace Mb.C14
open Mb Mb.Sim Mb.SimSpec

/-- times of the events of one kind on one side, as a sorted list -/
def timesOf (tr : List SimEvent) (client : Bool) (ev : TEvent) : List Int :=
  sortInts ((tr.filter fun e => e.client == client && e.event == ev).map (·.time))

/-- expected offsets (from the first base event) -/
def expSent (trace : List TraceLine) (delay : Nat) : List Int :=
  sortInts ((trace.filter (·.2)).map fun l => (l.1 : Int) - firstBase trace delay)
def expRecv (trace : List TraceLine) (delay : Nat) : List Int :=
  sortInts ((trace.filter (!·.2)).map fun l => (l.1 : Int) - firstBase trace delay)

/-- only the four packet events, never padding, never blocking or timers -/
def onlyPackets (tr : List SimEvent) : Bool :=
  tr.all fun e => !e.containsPadding && !e.bypass && !e.replace &&
    (e.event == .normalSent || e.event == .tunnelSent || e.event == .tunnelRecv || e.event == .normalRecv)

/-- the property for one run of a case without machines.  `onlyClient` / `onlyNet` are the
    filter settings of the run (the server's view is only visible without `onlyClient`). -/
def holds (trace : List TraceLine) (delay : Nat) (onlyClient : Bool) (tr : List SimEvent) : Bool :=
  onlyPackets tr
  && timesOf tr true .tunnelSent == expSent trace delay
  && timesOf tr true .tunnelRecv == expRecv trace delay
  && (onlyClient ||
      (timesOf tr false .tunnelSent == (expRecv trace delay).map (fun (t : Int) => t - delay)
       && timesOf tr false .tunnelRecv == (expSent trace delay).map (fun (t : Int) => t + delay)))
  && sortedByTime tr

/-- do the caps of the run leave room for the whole trace (4 events per packet)? -/
def capsDoNotBind (a : Args) (n : Nat) (len : Nat) : Bool :=
  (a.maxTraceLength == 0 || len < a.maxTraceLength) && (a.maxSimIterations == 0 || a.maxSimIterations > 4 * n)

/-- monitor over one observed run -/
def monitor (c : CaseIn) (r : ObsRun) : Option String :=
  if !(c.mc.isEmpty && c.ms.isEmpty) then none else
  -- an explicit packets-per-second limit is a configured bottleneck, not the baseline of the property
  if r.run.adv && r.run.pps.isSome then none else
  match r.res with
  | .panic cls => some s!"run {r.run.name}: panic {cls} without machines"
  | .ok tr =>
    let a := r.run.effArgs c.delay
    -- padding lines of the input (`sp` / `rp`) are not packets of the trace: only its normal lines count
    let trace := normalLines c.trace
    if !capsDoNotBind a trace.length tr.length then none else
    if holds trace c.delay a.onlyClientEvents tr then none else
    some s!"run {r.run.name}: output is not the input trace (oc={a.onlyClientEvents} on={a.onlyNetworkActivity} delay={c.delay})"

end Mb.C14
