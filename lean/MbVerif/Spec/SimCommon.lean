/-
  Shared vocabulary of the simulator property specifications (C14–C19): written from the
  property texts over *observed* traces.  Nothing here refers to the simulator model's
  internals (queues, pick_next, …); only the observation types and the framework model (to
  recover the actions the simulator acted on, as the properties' `observe_at` prescribes).
-/
import MbVerif.Sim.Obs

namespace Mb.SimSpec
open Mb Mb.Sim

/-- an observed event together with the actions its side's framework returned for it -/
structure EvActs where
  ev : SimEvent
  acts : List TAction
  deriving Repr, DecidableEq, Inhabited

/-- events that represent network packets (`only_network_activity`) -/
def isNetwork (e : SimEvent) : Bool := e.event == .tunnelSent || e.event == .tunnelRecv

/-- the output filters as a predicate on observed events -/
def keepObs (onlyNet onlyClient : Bool) (e : SimEvent) : Bool :=
  (!onlyNet || isNetwork e) && (!onlyClient || e.client)

/-- `max_trace_length`: 0 = no cap -/
def takeCap (cap : Nat) (l : List α) : List α := if cap > 0 then l.take cap else l

def sortedByTime : List SimEvent → Bool
  | [] => true
  | [_] => true
  | a :: b :: r => decide (a.time ≤ b.time) && sortedByTime (b :: r)

/-- insertion into a sorted list of integers -/
def insertSorted (x : Int) : List Int → List Int
  | [] => [x]
  | y :: r => if x ≤ y then x :: y :: r else y :: insertSorted x r

def sortInts (l : List Int) : List Int := l.foldr insertSorted []

/-- the time of the first base event: client packets are sent at their trace time, server
    packets one network delay before the client receives them -/
def firstBase (trace : List TraceLine) (delay : Nat) : Int :=
  match trace.map (fun l => if l.2 then (l.1 : Int) else (l.1 : Int) - delay) with
  | [] => 0
  | x :: r => r.foldl min x

section
variable {σ : Type} (ρ : Oracle σ)

/-- Recover the actions the simulator acted on by replaying an unfiltered observed trace
    through fresh frameworks (client created first, then server, both at the first base event)
    with the logged random oracle.  Returns the annotated trace and the oracle state left. -/
def recoverActions (mc ms : List Machine) (a : Args) (trace : List SimEvent) (orc : σ) :
    Option (List EvActs × σ) :=
  if !(Validate.frameworkNew mc a.fpClient a.fbClient && Validate.frameworkNew ms a.fpServer a.fbServer) then none else
  let c := Fw.init ρ mc a.fpClient a.fbClient 0 orc
  let s := Fw.init ρ ms a.fpServer a.fbServer 0 c.rng
  let rec go (c s : Fw σ) (orc : σ) : List SimEvent → List EvActs → List EvActs × σ
    | [], acc => (acc.reverse, orc)
    | e :: r, acc =>
      if e.client then
        let c := triggerEvents ρ [e.event] e.time { c with rng := orc, log := [] }
        go c s c.rng r (⟨e, c.actionsOut⟩ :: acc)
      else
        let s := triggerEvents ρ [e.event] e.time { s with rng := orc, log := [] }
        go c s s.rng r (⟨e, s.actionsOut⟩ :: acc)
  some (go { c with log := [] } { s with log := [] } s.rng trace [])

end

/-- diagnostic wording used in monitor messages -/
def durClass (d : Nat) : String := if d = 0 then "zero" else "positive"

/-- update position `i` of a list (no-op out of range) -/
def setAt (l : List α) (i : Nat) (x : α) : List α := l.set i x

end Mb.SimSpec
