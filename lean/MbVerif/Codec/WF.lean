/-
  Representability of a model `Machine` in the Rust types: the model carries `u64`/`usize`
  fields and list lengths as `Nat`; `WFm m` says every such number fits in 64 bits and every
  state has exactly `EVENT_NUM` transition slots (the fixed-size array of state.rs).
  Everything here is a `Bool` so that the driver can evaluate it.
-/
import MbVerif.Types

namespace Mb
namespace Codec

def U64 : Nat := 2 ^ 64

def wfDistType : DistType → Bool
  | .binomial t _ => decide (t < U64)
  | _ => true

def wfDist (d : Dist) : Bool := wfDistType d.dist

def wfOptDist : Option Dist → Bool
  | none => true
  | some d => wfDist d

def wfAction : Action → Bool
  | .cancel _ => true
  | .sendPadding _ _ to lim => wfDist to && wfOptDist lim
  | .blockOutgoing _ _ to du lim => wfDist to && wfDist du && wfOptDist lim
  | .updateTimer _ du lim => wfDist du && wfOptDist lim

def wfCounter (c : Counter) : Bool := wfOptDist c.dist

def wfOptAction : Option Action → Bool
  | none => true
  | some a => wfAction a

def wfOptCounter : Option Counter → Bool
  | none => true
  | some c => wfCounter c

def wfTrans (t : Trans) : Bool := decide (t.target < U64)

def wfTransVec (ts : List Trans) : Bool := decide (ts.length < U64) && ts.all wfTrans

def wfOptTransVec : Option (List Trans) → Bool
  | none => true
  | some ts => wfTransVec ts

def wfState (s : State) : Bool :=
  wfOptAction s.action && wfOptCounter s.counterA && wfOptCounter s.counterB
    && decide (s.transitions.length = EVENT_NUM) && s.transitions.all wfOptTransVec

/-- every integer of the machine fits its Rust type and every state has `EVENT_NUM` slots -/
def WFm (m : Machine) : Bool :=
  decide (m.allowedPaddingPackets < U64) && decide (m.allowedBlockedMicrosec < U64)
    && decide (m.states.length < U64) && m.states.all wfState

end Codec
end Mb
