/-
  Data types of the maybenot model: machines (as in crates/maybenot/src/{machine,state,action,counter,dist}.rs),
  trigger events and trigger actions.
-/
import MbVerif.Fp
import MbVerif.Generated.Consts

namespace Mb

inductive DistType where
  | uniform (low high : F64)
  | normal (mean stdev : F64)
  | skewNormal (location scale shape : F64)
  | logNormal (mu sigma : F64)
  | binomial (trials : Nat) (probability : F64)
  | geometric (probability : F64)
  | pareto (scale shape : F64)
  | poisson (lambda : F64)
  | weibull (scale shape : F64)
  | gamma (scale shape : F64)
  | beta (alpha beta : F64)
  deriving Repr, DecidableEq, Inhabited

structure Dist where
  dist : DistType
  start : F64
  max : F64
  deriving Repr, DecidableEq, Inhabited

inductive Timer where
  | action | internal | all
  deriving Repr, DecidableEq, Inhabited

inductive Action where
  | cancel (timer : Timer)
  | sendPadding (bypass replace : Bool) (timeout : Dist) (limit : Option Dist)
  | blockOutgoing (bypass replace : Bool) (timeout duration : Dist) (limit : Option Dist)
  | updateTimer (replace : Bool) (duration : Dist) (limit : Option Dist)
  deriving Repr, DecidableEq, Inhabited

inductive Operation where
  | increment | decrement | set
  deriving Repr, DecidableEq, Inhabited

structure Counter where
  operation : Operation
  dist : Option Dist
  copy : Bool
  deriving Repr, DecidableEq, Inhabited

structure Trans where
  target : Nat
  prob : F32
  deriving Repr, DecidableEq, Inhabited

structure State where
  action : Option Action
  counterA : Option Counter
  counterB : Option Counter
  /-- one optional vector per event, indexed by `Event.toNat`; length EVENT_NUM -/
  transitions : List (Option (List Trans))
  deriving Repr, DecidableEq, Inhabited

structure Machine where
  allowedPaddingPackets : Nat
  maxPaddingFrac : F64
  allowedBlockedMicrosec : Nat
  maxBlockingFrac : F64
  states : List State
  deriving Repr, DecidableEq, Inhabited

/-- internal events, in the order of `enum Event` (event.rs) -/
inductive Event where
  | normalRecv | paddingRecv | tunnelRecv | normalSent | paddingSent | tunnelSent
  | blockingBegin | blockingEnd | limitReached | counterZero | timerBegin | timerEnd | signal
  deriving Repr, DecidableEq, Inhabited

def Event.toNat : Event → Nat
  | .normalRecv => Gen.EV_NormalRecv
  | .paddingRecv => Gen.EV_PaddingRecv
  | .tunnelRecv => Gen.EV_TunnelRecv
  | .normalSent => Gen.EV_NormalSent
  | .paddingSent => Gen.EV_PaddingSent
  | .tunnelSent => Gen.EV_TunnelSent
  | .blockingBegin => Gen.EV_BlockingBegin
  | .blockingEnd => Gen.EV_BlockingEnd
  | .limitReached => Gen.EV_LimitReached
  | .counterZero => Gen.EV_CounterZero
  | .timerBegin => Gen.EV_TimerBegin
  | .timerEnd => Gen.EV_TimerEnd
  | .signal => Gen.EV_Signal

/-- events reported by the integrator (event.rs `TriggerEvent`) -/
inductive TEvent where
  | normalRecv | paddingRecv | tunnelRecv | normalSent
  | paddingSent (m : Nat)
  | tunnelSent
  | blockingBegin (m : Nat)
  | blockingEnd
  | timerBegin (m : Nat)
  | timerEnd (m : Nat)
  deriving Repr, DecidableEq, Inhabited

/-- actions returned to the integrator (action.rs `TriggerAction`); times in microseconds -/
inductive TAction where
  | cancel (machine : Nat) (timer : Timer)
  | sendPadding (timeout : Nat) (bypass replace : Bool) (machine : Nat)
  | blockOutgoing (timeout duration : Nat) (bypass replace : Bool) (machine : Nat)
  | updateTimer (duration : Nat) (replace : Bool) (machine : Nat)
  deriving Repr, DecidableEq, Inhabited

def TAction.machine : TAction → Nat
  | .cancel m _ => m
  | .sendPadding _ _ _ m => m
  | .blockOutgoing _ _ _ _ m => m
  | .updateTimer _ _ m => m

def STATE_END : Nat := Gen.STATE_END
def STATE_SIGNAL : Nat := Gen.STATE_SIGNAL
def STATE_MAX : Nat := Gen.STATE_MAX
def STATE_LIMIT_MAX : Nat := Gen.STATE_LIMIT_MAX
def EVENT_NUM : Nat := Gen.EVENT_NUM

end Mb
