/-
  RFC 4648 base64, standard alphabet, with padding, as accepted by the `base64` crate's
  `STANDARD` engine (0.22: `decode_allow_trailing_bits = false`,
  `DecodePaddingMode::RequireCanonical`).

  What `decode_helper` + `decode_suffix` accept, read off the source:
  * the empty input decodes to the empty output;
  * otherwise the length must be a multiple of four (with canonical padding required a final
    group of 1, 2 or 3 symbols is `InvalidLength` / `InvalidPadding`);
  * every group except the last consists of four alphabet symbols ('=' is not one);
  * the last group is `xxxx`, `xxx=` or `xx==`; '=' in the first two positions or followed by a
    non-'=' byte is `InvalidByte`;
  * the bits of the last symbol that do not belong to an output byte must be zero
    (`InvalidLastSymbol`).
-/
import MbVerif.Codec

namespace Mb
namespace B64
open Codec (Bytes)

/-- '=' -/
def pad : UInt8 := 61

/-- 6-bit value → symbol -/
def chr (v : Nat) : UInt8 :=
  if v < 26 then UInt8.ofNat (65 + v)
  else if v < 52 then UInt8.ofNat (97 + (v - 26))
  else if v < 62 then UInt8.ofNat (48 + (v - 52))
  else if v = 62 then 43
  else 47

/-- symbol → 6-bit value; `none` for every other byte, '=' included -/
def val (c : UInt8) : Option Nat :=
  let n := c.toNat
  if 65 ≤ n ∧ n ≤ 90 then some (n - 65)
  else if 97 ≤ n ∧ n ≤ 122 then some (n - 71)
  else if 48 ≤ n ∧ n ≤ 57 then some (n + 4)
  else if n = 43 then some 62
  else if n = 47 then some 63
  else none

def enc : Bytes → Bytes
  | [] => []
  | [x] => [chr (x.toNat / 4), chr (x.toNat % 4 * 16), pad, pad]
  | [x, y] => [chr (x.toNat / 4), chr (x.toNat % 4 * 16 + y.toNat / 16), chr (y.toNat % 16 * 4), pad]
  | x :: y :: z :: rest =>
    chr (x.toNat / 4) :: chr (x.toNat % 4 * 16 + y.toNat / 16) :: chr (y.toNat % 16 * 4 + z.toNat / 64)
      :: chr (z.toNat % 64) :: enc rest

/-- four symbols → three bytes -/
def quad (a b c d : UInt8) : Option Bytes :=
  match val a, val b, val c, val d with
  | some p, some q, some r, some s =>
    some [UInt8.ofNat (p * 4 + q / 16), UInt8.ofNat (q % 16 * 16 + r / 4), UInt8.ofNat (r % 4 * 64 + s)]
  | _, _, _, _ => none

/-- the final group (`decode_suffix`) -/
def last (a b c d : UInt8) : Option Bytes :=
  if d = pad then
    if c = pad then
      match val a, val b with
      | some p, some q => if q % 16 = 0 then some [UInt8.ofNat (p * 4 + q / 16)] else none
      | _, _ => none
    else
      match val a, val b, val c with
      | some p, some q, some r =>
        if r % 4 = 0 then some [UInt8.ofNat (p * 4 + q / 16), UInt8.ofNat (q % 16 * 16 + r / 4)] else none
      | _, _, _ => none
  else quad a b c d

def dec : Bytes → Option Bytes
  | [] => some []
  | a :: b :: c :: d :: rest =>
    if rest.isEmpty then last a b c d
    else
      match quad a b c d with
      | none => none
      | some t =>
        match dec rest with
        | none => none
        | some u => some (t ++ u)
  | _ => none

end B64
end Mb

namespace Mb
/-- the names used in DESIGN.md -/
abbrev b64enc := B64.enc
abbrev b64dec := B64.dec
end Mb
