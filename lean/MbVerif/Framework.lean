/-
  Executable model of crates/maybenot/src/framework.rs (plus the sampling helpers
  of state.rs, action.rs, counter.rs and the clamp of dist.rs).

  * `&mut self` becomes state-in/state-out on `Fw σ`.
  * All randomness comes from an abstract oracle `ρ : Oracle σ`.
  * Panics are explicit: `Fault`.
  * Times: instants are `Int` nanoseconds, durations `Nat` nanoseconds bounded
    by `durMax` (std::time::Duration), `+=` on durations is checked.
  * `log` is a ghost copy of the `verif` hook log (newest first).
-/
import MbVerif.Types

namespace Mb

inductive Fault where
  | oob          -- index out of bounds
  | durOverflow  -- "overflow when adding durations"
  | fuel         -- recursion fuel exhausted (never happens, see `C01`)
  deriving Repr, DecidableEq, Inhabited

/-- mirror of `maybenot::verif::Entry` -/
inductive LogEntry where
  | trans (mi : Nat) (event : Nat) (state : Nat)
  | draw (bits : F32)
  | sampled (mi : Nat) (event : Nat) (next : Nat)
  | distRaw (bits : F64)
  | counter (mi : Nat) (aOld aNew bOld bNew : Nat)
  | limit (mi : Nat) (value : Nat) (decrement : Bool)
  deriving Repr, DecidableEq, Inhabited

inductive SignalTarget where
  | all
  | allExcept (mi : Nat)
  deriving Repr, DecidableEq, Inhabited

/-- accounting part of a machine's runtime: changed only by the accounting step of an event,
    never by a transition -/
structure RtAcct where
  paddingSent : Nat
  normalSent : Nat
  blockingDur : Nat          -- ns
  machineStart : Int         -- ns
  allowedBlocked : Nat       -- ns
  deriving Repr, DecidableEq, Inhabited

structure Runtime where
  currentState : Nat
  stateLimit : Nat
  counterA : Nat
  counterB : Nat
  /-- counter A of this machine already raised CounterZero in the current call -/
  zeroedA : Bool
  /-- counter B of this machine already raised CounterZero in the current call -/
  zeroedB : Bool
  acct : RtAcct
  deriving Repr, DecidableEq, Inhabited

/-- the framework-wide accounting state and configuration: changed only at the start of a call
    and by the accounting step of an event, never by a transition -/
structure Globals where
  now : Int
  maxPaddingFrac : F64
  maxBlockingFrac : F64
  normalSent : Nat
  paddingSent : Nat
  blockingDur : Nat
  blockingStarted : Int
  blockingActive : Bool
  start : Int
  deriving Repr, DecidableEq, Inhabited

/-- the random source: one uniform f32 draw in [0,1) per transition lookup, and the raw
    (unclamped) result of a distribution sampler -/
structure Oracle (σ : Type) where
  u : σ → F32 × σ
  d : Dist → σ → F64 × σ

structure Fw (σ : Type) where
  machines : List Machine
  g : Globals
  rt : List Runtime
  actions : List (Option TAction)
  signalPending : Option SignalTarget
  rng : σ
  fault : Option Fault
  log : List LogEntry

/-- largest std::time::Duration in nanoseconds -/
def durMax : Nat := 2 ^ 64 * 1000000000 - 1

/-- `Instant::saturating_duration_since` -/
def durSince (a b : Int) : Nat := (a - b).toNat

namespace Fw
variable {σ : Type}

def withFault (s : Fw σ) (f : Fault) : Fw σ :=
  match s.fault with
  | some _ => s
  | none => { s with fault := some f }

def push (s : Fw σ) (e : LogEntry) : Fw σ := { s with log := e :: s.log }

def modRt (s : Fw σ) (mi : Nat) (f : Runtime → Runtime) : Fw σ :=
  match s.rt[mi]? with
  | some r => { s with rt := s.rt.set mi (f r) }
  | none => s.withFault .oob

end Fw

/-! ### Sampling helpers -/

/-- `State::sample_state` after the uniform draw `r` (f32 arithmetic) -/
def sampleLoop (r : FV) : FV → List Trans → Option Nat
  | _, [] => none
  | sum, t :: ts =>
    let sum' := Fp.add Fp.f32 sum (Fp.val32 t.prob)
    if Fp.lt r sum' then some t.target else sampleLoop r sum' ts

def sampleState (ts : List Trans) (r : F32) : Option Nat :=
  sampleLoop (Fp.val32 r) (.fin 0) ts

/-- `Dist::sample` given the raw value returned by the family sampler -/
def Dist.clamp (d : Dist) (raw : F64) : FV :=
  let r := Fp.fmax (.fin 0) (Fp.add Fp.f64 (Fp.val64 raw) (Fp.val64 d.start))
  if Fp.gt (Fp.val64 d.max) (.fin 0) then Fp.fmin r (Fp.val64 d.max) else r

/-- is this the constant fast path `low == high` of `dist_sample` -/
def Dist.constUniform (d : Dist) : Option F64 :=
  match d.dist with
  | .uniform lo hi => if Fp.feq (Fp.val64 lo) (Fp.val64 hi) then some lo else none
  | _ => none

section
variable {σ : Type} (ρ : Oracle σ)

/-- `Dist::sample`: the oracle is always consulted (the hook logs every call), but the
    constant fast path ignores its value -/
def distSample (d : Dist) (s : Fw σ) : FV × Fw σ :=
  let (raw, g) := ρ.d d s.rng
  let raw := match d.constUniform with
    | some lo => lo
    | none => raw
  (d.clamp raw, ({ s with rng := g }).push (.distRaw raw))

/-- `min(MAX).round() as u64` -/
def toMicros (maxUs : Nat) (v : FV) : Nat :=
  Fp.toU64 (Fp.fround (Fp.fmin v (.fin (maxUs : Rat))))

def sampleTimeout (a : Action) (s : Fw σ) : Nat × Fw σ :=
  match a with
  | .sendPadding _ _ to _ | .blockOutgoing _ _ to _ _ =>
    let (v, s) := distSample ρ to s
    (toMicros Gen.MAX_SAMPLED_TIMEOUT v, s)
  | _ => (0, s)

def sampleDuration (a : Action) (s : Fw σ) : Nat × Fw σ :=
  match a with
  | .blockOutgoing _ _ _ du _ =>
    let (v, s) := distSample ρ du s
    (toMicros Gen.MAX_SAMPLED_BLOCK_DURATION v, s)
  | .updateTimer _ du _ =>
    let (v, s) := distSample ρ du s
    (toMicros Gen.MAX_SAMPLED_TIMER_DURATION v, s)
  | _ => (0, s)

def Action.limit : Action → Option Dist
  | .sendPadding _ _ _ l | .blockOutgoing _ _ _ _ l | .updateTimer _ _ l => l
  | .cancel _ => none

def Action.hasLimit (a : Action) : Bool := a.limit.isSome

def sampleLimit (a : Action) (s : Fw σ) : Nat × Fw σ :=
  match a.limit with
  | none => (STATE_LIMIT_MAX, s)
  | some l =>
    let (v, s) := distSample ρ l s
    (Fp.toU64 (Fp.fround v), s)

def sampleValue (c : Counter) (s : Fw σ) : Nat × Fw σ :=
  match c.dist with
  | none => (1, s)
  | some d =>
    let (v, s) := distSample ρ d s
    (Fp.toU64 v, s)

end

/-! ### Limits -/

/-- `Duration::as_secs_f64` -/
def secsF64 (ns : Nat) : FV :=
  Fp.add Fp.f64 (Fp.ofNat Fp.f64 (ns / 1000000000))
    (Fp.div Fp.f64 (Fp.ofNat Fp.f64 (ns % 1000000000)) (.fin 1000000000))

/-- `div_duration_f64` of time.rs -/
def divDur (a b : Nat) : FV := Fp.div Fp.f64 (secsF64 a) (secsF64 b)

section
variable {σ : Type}

/-- result of a limit predicate: `none` = panic (duration overflow) -/
def belowLimitBlocking (s : Globals) (r : Runtime) (m : Machine) (replace : Bool) : Option Bool :=
  if replace && s.blockingActive then some (decide (r.stateLimit > 0)) else
  let ongoing := if s.blockingActive then durSince s.now s.blockingStarted else 0
  let mDur := r.acct.blockingDur + ongoing
  let gDur := s.blockingDur + ongoing
  if s.blockingActive && (mDur > durMax || gDur > durMax) then none else
  if mDur < r.acct.allowedBlocked then some (decide (r.stateLimit > 0)) else
  let mNo :=
    Fp.gt (Fp.val64 m.maxBlockingFrac) (.fin 0) &&
      Fp.ge (divDur mDur (durSince s.now r.acct.machineStart)) (Fp.val64 m.maxBlockingFrac)
  if mNo then some false else
  let gNo :=
    Fp.gt (Fp.val64 s.maxBlockingFrac) (.fin 0) &&
      Fp.ge (divDur gDur (durSince s.now s.start)) (Fp.val64 s.maxBlockingFrac)
  if gNo then some false else
  some (decide (r.stateLimit > 0))

def belowLimitPadding (s : Globals) (r : Runtime) (m : Machine) : Bool :=
  if r.acct.paddingSent < m.allowedPaddingPackets then decide (r.stateLimit > 0) else
  -- machine limit (a fraction over zero packets counts as below)
  let mTotal := r.acct.normalSent + r.acct.paddingSent
  if Fp.gt (Fp.val64 m.maxPaddingFrac) (.fin 0) && mTotal > 0 &&
      Fp.ge (Fp.div Fp.f64 (Fp.ofNat Fp.f64 r.acct.paddingSent) (Fp.ofNat Fp.f64 mTotal)) (Fp.val64 m.maxPaddingFrac)
  then false else
  -- global limit
  let gTotal := s.paddingSent + s.normalSent
  if Fp.gt (Fp.val64 s.maxPaddingFrac) (.fin 0) && gTotal > 0 &&
      Fp.ge (Fp.div Fp.f64 (Fp.ofNat Fp.f64 s.paddingSent) (Fp.ofNat Fp.f64 gTotal)) (Fp.val64 s.maxPaddingFrac)
  then false else
  decide (r.stateLimit > 0)

/-- `below_action_limits`; `none` = panic -/
def belowActionLimits (s : Globals) (r : Runtime) (m : Machine) : Option Bool :=
  match m.states[r.currentState]? with
  | none => none
  | some st =>
    match st.action with
    | none => some false
    | some (.blockOutgoing _ rp _ _ _) => belowLimitBlocking s r m rp
    | some (.sendPadding ..) => some (belowLimitPadding s r m)
    | some (.updateTimer ..) => some (decide (r.stateLimit > 0))
    | some (.cancel _) => some true

end

/-! ### schedule_action -/

section
variable {σ : Type} (ρ : Oracle σ)

def scheduleAction (mi : Nat) (state : Nat) (s : Fw σ) : Fw σ :=
  match s.machines[mi]? with
  | none => s.withFault .oob
  | some m =>
  match m.states[state]? with
  | none => s.withFault .oob
  | some st =>
  if mi ≥ s.actions.length then s.withFault .oob else
  match st.action with
  | none => { s with actions := s.actions.set mi none }
  | some (.cancel t) => { s with actions := s.actions.set mi (some (.cancel mi t)) }
  | some (.sendPadding b rp to lim) =>
    let (t, s) := sampleTimeout ρ (.sendPadding b rp to lim) s
    { s with actions := s.actions.set mi (some (.sendPadding t b rp mi)) }
  | some (.blockOutgoing b rp to du lim) =>
    let (t, s) := sampleTimeout ρ (.blockOutgoing b rp to du lim) s
    let (d, s) := sampleDuration ρ (.blockOutgoing b rp to du lim) s
    { s with actions := s.actions.set mi (some (.blockOutgoing t d b rp mi)) }
  | some (.updateTimer rp du lim) =>
    let (d, s) := sampleDuration ρ (.updateTimer rp du lim) s
    { s with actions := s.actions.set mi (some (.updateTimer d rp mi)) }

/-- saturating counter arithmetic on u64 -/
def applyOp (op : Operation) (cur change : Nat) : Nat :=
  match op with
  | .increment => if cur + change > Fp.u64Max then Fp.u64Max else cur + change
  | .decrement => cur - change
  | .set => change

/-! ### transition / update_counter (mutually recursive, structural on fuel) -/

/-- the state-change block of `transition`: when the sampled state differs from the current one,
    set it and resample the limit -/
def enterState (mi : Nat) (m : Machine) (cur next : Nat) (s : Fw σ) : Fw σ :=
  if cur ≠ next then
    let s := s.modRt mi (fun r => { r with currentState := next })
    match m.states[next]? with
    | none => s.withFault .oob
    | some nst =>
      match nst.action with
      | some a =>
        let (l, s) := sampleLimit ρ a s
        (s.modRt mi (fun r => { r with stateLimit := l })).push (.limit mi l false)
      | none =>
        (s.modRt mi (fun r => { r with stateLimit := STATE_LIMIT_MAX })).push (.limit mi STATE_LIMIT_MAX false)
  else s

/-- record a signal from machine `mi`: a lone signaller is excluded, however often it signals;
    a signal from a second machine widens the target to all -/
def signalFrom (mi : Nat) (s : Fw σ) : Fw σ :=
  { s with signalPending := match s.signalPending with
      | none => some (.allExcept mi)
      | some (.allExcept other) => if other = mi then some (.allExcept mi) else some .all
      | some .all => some .all }

/-- has counter A / B of machine `mi` already raised CounterZero in this call -/
def zeroedAOf (s : Fw σ) (mi : Nat) : Bool := match s.rt[mi]? with | some r => r.zeroedA | none => false
def zeroedBOf (s : Fw σ) (mi : Nat) : Bool := match s.rt[mi]? with | some r => r.zeroedB | none => false

/-- the operand of a counter update: the other counter's pre-transition value for `copy`,
    otherwise the sampled value (1 without a distribution) -/
def counterOperand (c : Counter) (other : Nat) (s : Fw σ) : Nat × Fw σ :=
  if c.copy then (other, s) else sampleValue ρ c s

/-- store the new value of counter A and raise "zeroed" if it went from non-zero to zero and this
    machine's flag for A is still unset -/
def storeCounterA (mi : Nat) (oldA newA : Nat) (s : Fw σ) : Fw σ × Bool :=
  let s := s.modRt mi (fun r => { r with counterA := newA })
  if oldA ≠ 0 && newA = 0 && !zeroedAOf s mi then (s.modRt mi (fun r => { r with zeroedA := true }), true)
  else (s, false)

def storeCounterB (mi : Nat) (oldB newB : Nat) (s : Fw σ) : Fw σ × Bool :=
  let s := s.modRt mi (fun r => { r with counterB := newB })
  if oldB ≠ 0 && newB = 0 && !zeroedBOf s mi then (s.modRt mi (fun r => { r with zeroedB := true }), true)
  else (s, false)

/-- counter A part of `update_counter`; returns the new framework and whether A was zeroed -/
def applyCounterA (mi : Nat) (c : Option Counter) (oldA oldB : Nat) (s : Fw σ) : Fw σ × Bool :=
  match c with
  | none => (s, false)
  | some c =>
    let p := counterOperand ρ c oldB s
    storeCounterA mi oldA (applyOp c.operation oldA p.1) p.2

/-- counter B part of `update_counter` -/
def applyCounterB (mi : Nat) (c : Option Counter) (oldA oldB : Nat) (s : Fw σ) : Fw σ × Bool :=
  match c with
  | none => (s, false)
  | some c =>
    let p := counterOperand ρ c oldA s
    storeCounterB mi oldB (applyOp c.operation oldB p.1) p.2

/-- current value of counter A of machine `mi` (0 if there is no such machine) -/
def counterAOf (s : Fw σ) (mi : Nat) : Nat := match s.rt[mi]? with | some r => r.counterA | none => 0
/-- current value of counter B of machine `mi` -/
def counterBOf (s : Fw σ) (mi : Nat) : Nat := match s.rt[mi]? with | some r => r.counterB | none => 0

mutual

/-- returns the new framework and `true` iff `StateChange::Changed` -/
def transition : Nat → Nat → Event → Fw σ → Fw σ × Bool
  | 0, _, _, s => (s.withFault .fuel, false)
  | fuel + 1, mi, ev, s =>
    match s.rt[mi]?, s.machines[mi]? with
    | some r, some m =>
      let s := s.push (.trans mi ev.toNat r.currentState)
      if r.currentState = STATE_END then (s, false) else
      match m.states[r.currentState]? with
      | none => (s.withFault .oob, false)
      | some st =>
      match st.transitions[ev.toNat]? with
      | none => (s.withFault .oob, false)
      | some none => (s, false)
      | some (some vec) =>
        let d := ρ.u s.rng
        let s := ({ s with rng := d.2 }).push (.draw d.1)
        match sampleState vec d.1 with
        | none => (s, false)
        | some next =>
          let s := s.push (.sampled mi ev.toNat next)
          if next = STATE_END then
            (s.modRt mi (fun r => { r with currentState := STATE_END }), true)
          else if next = STATE_SIGNAL then (signalFrom mi s, false)
          else
            let s := enterState ρ mi m r.currentState next s
            match s.rt[mi]? with
            | none => (s.withFault .oob, false)
            | some r1 =>
            match belowActionLimits s.g r1 m with
            | none => (s.withFault (if m.states[r1.currentState]?.isNone then .oob else .durOverflow), false)
            | some below =>
            let res := updateCounter fuel mi s
            let s := if res.2.1 && below then scheduleAction ρ mi next res.1 else res.1
            match s.rt[mi]? with
            | none => (s.withFault .oob, false)
            | some r2 => (s, !(r.currentState == r2.currentState && !res.2.2))
    | _, _ => (s.withFault .oob, false)

/-- returns (framework, allow_schedule, state_changed) -/
def updateCounter : Nat → Nat → Fw σ → Fw σ × Bool × Bool
  | 0, _, s => (s.withFault .fuel, true, false)
  | fuel + 1, mi, s =>
    match s.rt[mi]?, s.machines[mi]? with
    | some r, some m =>
      match m.states[r.currentState]? with
      | none => (s.withFault .oob, true, false)
      | some st =>
        let ra := applyCounterA ρ mi st.counterA r.counterA r.counterB s
        let rb := applyCounterB ρ mi st.counterB r.counterA r.counterB ra.1
        let s2 := rb.1.push (.counter mi r.counterA (counterAOf rb.1 mi) r.counterB (counterBOf rb.1 mi))
        if ra.2 || rb.2 then
          let res := transition fuel mi .counterZero s2
          match res.1.actions[mi]? with
          | none => (res.1.withFault .oob, true, res.2)
          | some a => (res.1, a.isNone, res.2)
        else (s2, true, false)
    | _, _ => (s.withFault .oob, true, false)

end

/-- recursion fuel that is always sufficient (see theorem `C01_fuel`) -/
def FUEL : Nat := 8

def decrementLimit (mi : Nat) (s : Fw σ) : Fw σ :=
  match s.rt[mi]?, s.machines[mi]? with
  | some r, some m =>
    let lim := if r.stateLimit > 0 then r.stateLimit - 1 else r.stateLimit
    let s := (s.modRt mi (fun r => { r with stateLimit := lim })).push (.limit mi lim true)
    match m.states[r.currentState]? with
    | none => s.withFault .oob
    | some st =>
      match st.action with
      | none => s
      | some a =>
        if lim = 0 && a.hasLimit then
          if mi ≥ s.actions.length then s.withFault .oob else
          let s := { s with actions := s.actions.set mi none }
          (transition ρ FUEL mi .limitReached s).1
        else s
  | _, _ => s.withFault .oob

/-- `for mi in 0..n { transition(mi, ev) }` -/
def transitionAll (ev : Event) (s : Fw σ) : Fw σ :=
  (List.range s.rt.length).foldl (fun s mi => (transition ρ FUEL mi ev s).1) s

/-- is machine `mi` not in END (oob counts as false) -/
def notEnded (s : Fw σ) (mi : Nat) : Bool :=
  match s.rt[mi]? with
  | some r => r.currentState != STATE_END
  | none => false

def processEvent (e : TEvent) (s : Fw σ) : Fw σ :=
  match e with
  | .normalRecv => transitionAll ρ .normalRecv s
  | .paddingRecv => transitionAll ρ .paddingRecv s
  | .tunnelRecv => transitionAll ρ .tunnelRecv s
  | .tunnelSent => transitionAll ρ .tunnelSent s
  | .normalSent =>
    let s := { s with g := { s.g with normalSent := s.g.normalSent + 1 } }
    (List.range s.rt.length).foldl (fun s mi =>
      let s := s.modRt mi (fun r => { r with acct := { r.acct with normalSent := r.acct.normalSent + 1 } })
      (transition ρ FUEL mi .normalSent s).1) s
  | .paddingSent mi =>
    let s := { s with g := { s.g with paddingSent := s.g.paddingSent + 1 } }
    if mi ≥ s.rt.length then s else
    let s := s.modRt mi (fun r => { r with acct := { r.acct with paddingSent := r.acct.paddingSent + 1 } })
    let (s, chg) := transition ρ FUEL mi .paddingSent s
    if !chg && notEnded s mi then decrementLimit ρ mi s else s
  | .blockingBegin m =>
    let s := if !s.g.blockingActive then { s with g := { s.g with blockingActive := true, blockingStarted := s.g.now } } else s
    (List.range s.rt.length).foldl (fun s mi =>
      let (s, chg) := transition ρ FUEL mi .blockingBegin s
      if !chg && notEnded s mi && mi == m then decrementLimit ρ mi s else s) s
  | .blockingEnd =>
    let blocked := if s.g.blockingActive then durSince s.g.now s.g.blockingStarted else 0
    let s :=
      if s.g.blockingActive then
        let s := if s.g.blockingDur + blocked > durMax then s.withFault .durOverflow else s
        { s with g := { s.g with blockingDur := s.g.blockingDur + blocked, blockingActive := false } }
      else s
    (List.range s.rt.length).foldl (fun s mi =>
      let s :=
        if blocked ≠ 0 then
          match s.rt[mi]? with
          | none => s.withFault .oob
          | some r =>
            let s := if r.acct.blockingDur + blocked > durMax then s.withFault .durOverflow else s
            s.modRt mi (fun r => { r with acct := { r.acct with blockingDur := r.acct.blockingDur + blocked } })
        else s
      (transition ρ FUEL mi .blockingEnd s).1) s
  | .timerBegin mi =>
    if mi ≥ s.rt.length then s else
    let (s, chg) := transition ρ FUEL mi .timerBegin s
    if !chg && notEnded s mi then decrementLimit ρ mi s else s
  | .timerEnd mi =>
    if mi ≥ s.rt.length then s else
    (transition ρ FUEL mi .timerEnd s).1

/-- the signal round at the end of `trigger_events` -/
def signalRound (s : Fw σ) : Fw σ :=
  match s.signalPending with
  | none => s
  | some sig =>
    let s := { s with signalPending := none }
    let excluded : Option Nat := match sig with
      | .all => none
      | .allExcept x => some x
    let s := (List.range s.rt.length).foldl (fun s mi =>
      if excluded == some mi then s else (transition ρ FUEL mi .signal s).1) s
    match s.signalPending with
    | none => s
    | some _ =>
      let s := { s with signalPending := none }
      match excluded with
      | none => s
      | some x => (transition ρ FUEL x .signal s).1

/-- the start of `trigger_events`: clear the slots and the counter-zero flags, take the new time -/
def Fw.callStart (s : Fw σ) (t : Int) : Fw σ :=
  { s with actions := s.actions.map (fun _ => none),
           rt := s.rt.map (fun r => { r with zeroedA := false, zeroedB := false }),
           g := { s.g with now := t } }

/-- `Framework::trigger_events`; the returned actions are `actionsOut` of the result -/
def triggerEvents (es : List TEvent) (t : Int) (s : Fw σ) : Fw σ :=
  signalRound ρ (es.foldl (fun s e => processEvent ρ e s) (s.callStart t))

end

/-- the iterator returned by `trigger_events` -/
def Fw.actionsOut {σ} (s : Fw σ) : List TAction := s.actions.filterMap id

section
variable {σ : Type} (ρ : Oracle σ)

/-- the framework record built by `Framework::new` before the initial limits are sampled -/
def Fw.init0 (machines : List Machine) (fp fb : F64) (t0 : Int) (rng : σ) : Fw σ :=
  { machines := machines,
    rt := machines.map fun m =>
      ({ currentState := 0, stateLimit := 0, counterA := 0, counterB := 0, zeroedA := false, zeroedB := false,
         acct := { paddingSent := 0, normalSent := 0, blockingDur := 0, machineStart := t0,
                   allowedBlocked := m.allowedBlockedMicrosec * 1000 } } : Runtime),
    actions := machines.map (fun _ => none),
    g := { now := t0, maxPaddingFrac := fp, maxBlockingFrac := fb, normalSent := 0, paddingSent := 0,
           blockingDur := 0, blockingStarted := t0, blockingActive := false, start := t0 },
    signalPending := none, rng := rng, fault := none, log := [] }

/-- sampling the limit of state 0 of machine `mi` at construction -/
def initLimit (s : Fw σ) (mi : Nat) : Fw σ :=
  match s.machines[mi]? with
  | none => s.withFault .oob
  | some m =>
    match m.states[0]? with
    | none => s.withFault .oob
    | some st =>
      match st.action with
      | none => s
      | some a =>
        let (l, s) := sampleLimit ρ a s
        s.modRt mi (fun r => { r with stateLimit := l })

/-- `Framework::new` after validation succeeded (validation is modelled in `Validate.lean`) -/
def Fw.init (machines : List Machine) (fp fb : F64) (t0 : Int) (rng : σ) : Fw σ :=
  (List.range machines.length).foldl (initLimit ρ) (Fw.init0 machines fp fb t0 rng)

end
end Mb

namespace Mb
section
variable {σ : Type} (ρ : Oracle σ)

/-- one call of a history: the reported events and the time passed in -/
abbrev Call := List TEvent × Int

/-- the framework after a history of calls -/
def runCalls (s : Fw σ) (h : List Call) : Fw σ :=
  h.foldl (fun s c => triggerEvents ρ c.1 c.2 s) s

/-- the frameworks reached after each call of a history (the observable run) -/
def runStates (s : Fw σ) : List Call → List (Fw σ)
  | [] => []
  | c :: h => let s' := triggerEvents ρ c.1 c.2 s; s' :: runStates s' h

/-- the actions returned by each call -/
def runActions (s : Fw σ) (h : List Call) : List (List TAction) :=
  (runStates ρ s h).map Fw.actionsOut

end
end Mb
