/-
  bincode 1.3 `DefaultOptions` (varint integers, little endian, reject trailing
  bytes) for `Machine`, as derived by serde for the structs in
  crates/maybenot/src/{machine,state,action,counter,dist}.rs.
  Variant tags come from the generated constants (enum declaration order).
-/
import MbVerif.Types

namespace Mb
namespace Codec

abbrev Bytes := List UInt8

/-- little-endian bytes of `n`, exactly `k` of them -/
def leBytes : Nat → Nat → Bytes
  | 0, _ => []
  | k+1, n => UInt8.ofNat (n % 256) :: leBytes k (n / 256)

/-- read `k` little-endian bytes -/
def readLE : Nat → Bytes → Option (Nat × Bytes)
  | 0, bs => some (0, bs)
  | _+1, [] => none
  | k+1, b :: bs =>
    match readLE k bs with
    | none => none
    | some (v, r) => some (b.toNat + 256 * v, r)

def encVarint (n : Nat) : Bytes :=
  if n < 251 then [UInt8.ofNat n]
  else if n < 2 ^ 16 then 251 :: leBytes 2 n
  else if n < 2 ^ 32 then 252 :: leBytes 4 n
  else 253 :: leBytes 8 n

/-- bincode `deserialize_varint` for u64 -/
def decVarint : Bytes → Option (Nat × Bytes)
  | [] => none
  | b :: bs =>
    if b.toNat < 251 then some (b.toNat, bs)
    else if b.toNat = 251 then readLE 2 bs
    else if b.toNat = 252 then readLE 4 bs
    else if b.toNat = 253 then readLE 8 bs
    else none

/-- u32 (enum variant index): varint then range check -/
def decU32 (bs : Bytes) : Option (Nat × Bytes) :=
  match decVarint bs with
  | some (v, r) => if v < 2 ^ 32 then some (v, r) else none
  | none => none

def encBool (b : Bool) : Bytes := [if b then 1 else 0]

def decBool : Bytes → Option (Bool × Bytes)
  | [] => none
  | b :: bs => if b = 0 then some (false, bs) else if b = 1 then some (true, bs) else none

def encF64 (x : F64) : Bytes := leBytes 8 x.toNat
def decF64 (bs : Bytes) : Option (F64 × Bytes) :=
  match readLE 8 bs with
  | some (v, r) => some (UInt64.ofNat v, r)
  | none => none

def encF32 (x : F32) : Bytes := leBytes 4 x.toNat
def decF32 (bs : Bytes) : Option (F32 × Bytes) :=
  match readLE 4 bs with
  | some (v, r) => some (UInt32.ofNat v, r)
  | none => none

def encOption {α} (enc : α → Bytes) : Option α → Bytes
  | none => [0]
  | some a => 1 :: enc a

def decOption {α} (dec : Bytes → Option (α × Bytes)) : Bytes → Option (Option α × Bytes)
  | [] => none
  | b :: bs =>
    if b = 0 then some (none, bs)
    else if b = 1 then
      match dec bs with
      | some (a, r) => some (some a, r)
      | none => none
    else none

/-- decode `n` items -/
def decN {α} (dec : Bytes → Option (α × Bytes)) : Nat → Bytes → Option (List α × Bytes)
  | 0, bs => some ([], bs)
  | n+1, bs =>
    match dec bs with
    | none => none
    | some (a, r) =>
      match decN dec n r with
      | none => none
      | some (as, r') => some (a :: as, r')

def encList {α} (enc : α → Bytes) (l : List α) : Bytes :=
  l.foldr (fun a acc => enc a ++ acc) []

def encVec {α} (enc : α → Bytes) (l : List α) : Bytes :=
  encVarint l.length ++ encList enc l

/-- does `bs` have at least `n` elements (looks at no more than `n` of them) -/
def hasAtLeast : Nat → Bytes → Bool
  | 0, _ => true
  | _ + 1, [] => false
  | n + 1, _ :: bs => hasAtLeast n bs

/-- every item consumes at least one byte, so a length larger than the remaining input fails
    without iterating (serde caps its preallocation, then fails at end of input) -/
def decVec {α} (dec : Bytes → Option (α × Bytes)) (bs : Bytes) : Option (List α × Bytes) :=
  match decVarint bs with
  | none => none
  | some (n, r) => if hasAtLeast n r then decN dec n r else none

/-! ### DistType / Dist -/

def encDistType : DistType → Bytes
  | .uniform a b => encVarint Gen.DT_Uniform ++ encF64 a ++ encF64 b
  | .normal a b => encVarint Gen.DT_Normal ++ encF64 a ++ encF64 b
  | .skewNormal a b c => encVarint Gen.DT_SkewNormal ++ encF64 a ++ encF64 b ++ encF64 c
  | .logNormal a b => encVarint Gen.DT_LogNormal ++ encF64 a ++ encF64 b
  | .binomial t p => encVarint Gen.DT_Binomial ++ encVarint t ++ encF64 p
  | .geometric p => encVarint Gen.DT_Geometric ++ encF64 p
  | .pareto a b => encVarint Gen.DT_Pareto ++ encF64 a ++ encF64 b
  | .poisson a => encVarint Gen.DT_Poisson ++ encF64 a
  | .weibull a b => encVarint Gen.DT_Weibull ++ encF64 a ++ encF64 b
  | .gamma a b => encVarint Gen.DT_Gamma ++ encF64 a ++ encF64 b
  | .beta a b => encVarint Gen.DT_Beta ++ encF64 a ++ encF64 b

def dec2F64 (bs : Bytes) : Option ((F64 × F64) × Bytes) :=
  match decF64 bs with
  | none => none
  | some (a, r) =>
    match decF64 r with
    | none => none
    | some (b, r') => some ((a, b), r')

def decDistType (bs : Bytes) : Option (DistType × Bytes) :=
  match decU32 bs with
  | none => none
  | some (tag, r) =>
    if tag = Gen.DT_Uniform then (dec2F64 r).map fun ((a, b), r) => (.uniform a b, r)
    else if tag = Gen.DT_Normal then (dec2F64 r).map fun ((a, b), r) => (.normal a b, r)
    else if tag = Gen.DT_SkewNormal then
      match dec2F64 r with
      | none => none
      | some ((a, b), r) => (decF64 r).map fun (c, r) => (.skewNormal a b c, r)
    else if tag = Gen.DT_LogNormal then (dec2F64 r).map fun ((a, b), r) => (.logNormal a b, r)
    else if tag = Gen.DT_Binomial then
      match decVarint r with
      | none => none
      | some (t, r) => (decF64 r).map fun (p, r) => (.binomial t p, r)
    else if tag = Gen.DT_Geometric then (decF64 r).map fun (p, r) => (.geometric p, r)
    else if tag = Gen.DT_Pareto then (dec2F64 r).map fun ((a, b), r) => (.pareto a b, r)
    else if tag = Gen.DT_Poisson then (decF64 r).map fun (a, r) => (.poisson a, r)
    else if tag = Gen.DT_Weibull then (dec2F64 r).map fun ((a, b), r) => (.weibull a b, r)
    else if tag = Gen.DT_Gamma then (dec2F64 r).map fun ((a, b), r) => (.gamma a b, r)
    else if tag = Gen.DT_Beta then (dec2F64 r).map fun ((a, b), r) => (.beta a b, r)
    else none

def encDist (d : Dist) : Bytes := encDistType d.dist ++ encF64 d.start ++ encF64 d.max

def decDist (bs : Bytes) : Option (Dist × Bytes) :=
  match decDistType bs with
  | none => none
  | some (dt, r) =>
    match dec2F64 r with
    | none => none
    | some ((s, m), r) => some ({ dist := dt, start := s, max := m }, r)

/-! ### Action -/

def encTimer : Timer → Bytes
  | .action => encVarint Gen.TIMER_Action
  | .internal => encVarint Gen.TIMER_Internal
  | .all => encVarint Gen.TIMER_All

def decTimer (bs : Bytes) : Option (Timer × Bytes) :=
  match decU32 bs with
  | none => none
  | some (tag, r) =>
    if tag = Gen.TIMER_Action then some (.action, r)
    else if tag = Gen.TIMER_Internal then some (.internal, r)
    else if tag = Gen.TIMER_All then some (.all, r)
    else none

def encAction : Action → Bytes
  | .cancel t => encVarint Gen.ACT_Cancel ++ encTimer t
  | .sendPadding b rp to lim =>
    encVarint Gen.ACT_SendPadding ++ encBool b ++ encBool rp ++ encDist to ++ encOption encDist lim
  | .blockOutgoing b rp to du lim =>
    encVarint Gen.ACT_BlockOutgoing ++ encBool b ++ encBool rp ++ encDist to ++ encDist du ++ encOption encDist lim
  | .updateTimer rp du lim =>
    encVarint Gen.ACT_UpdateTimer ++ encBool rp ++ encDist du ++ encOption encDist lim

def decAction (bs : Bytes) : Option (Action × Bytes) :=
  match decU32 bs with
  | none => none
  | some (tag, r) =>
    if tag = Gen.ACT_Cancel then (decTimer r).map fun (t, r) => (.cancel t, r)
    else if tag = Gen.ACT_SendPadding then
      match decBool r with
      | none => none
      | some (b, r) =>
      match decBool r with
      | none => none
      | some (rp, r) =>
      match decDist r with
      | none => none
      | some (to, r) =>
      match decOption decDist r with
      | none => none
      | some (lim, r) => some (.sendPadding b rp to lim, r)
    else if tag = Gen.ACT_BlockOutgoing then
      match decBool r with
      | none => none
      | some (b, r) =>
      match decBool r with
      | none => none
      | some (rp, r) =>
      match decDist r with
      | none => none
      | some (to, r) =>
      match decDist r with
      | none => none
      | some (du, r) =>
      match decOption decDist r with
      | none => none
      | some (lim, r) => some (.blockOutgoing b rp to du lim, r)
    else if tag = Gen.ACT_UpdateTimer then
      match decBool r with
      | none => none
      | some (rp, r) =>
      match decDist r with
      | none => none
      | some (du, r) =>
      match decOption decDist r with
      | none => none
      | some (lim, r) => some (.updateTimer rp du lim, r)
    else none

/-! ### Counter -/

def encOperation : Operation → Bytes
  | .increment => encVarint Gen.OP_Increment
  | .decrement => encVarint Gen.OP_Decrement
  | .set => encVarint Gen.OP_Set

def decOperation (bs : Bytes) : Option (Operation × Bytes) :=
  match decU32 bs with
  | none => none
  | some (tag, r) =>
    if tag = Gen.OP_Increment then some (.increment, r)
    else if tag = Gen.OP_Decrement then some (.decrement, r)
    else if tag = Gen.OP_Set then some (.set, r)
    else none

def encCounter (c : Counter) : Bytes :=
  encOperation c.operation ++ encOption encDist c.dist ++ encBool c.copy

def decCounter (bs : Bytes) : Option (Counter × Bytes) :=
  match decOperation bs with
  | none => none
  | some (op, r) =>
  match decOption decDist r with
  | none => none
  | some (d, r) =>
  match decBool r with
  | none => none
  | some (c, r) => some ({ operation := op, dist := d, copy := c }, r)

/-! ### State / Machine -/

def encTrans (t : Trans) : Bytes := encVarint t.target ++ encF32 t.prob

def decTrans (bs : Bytes) : Option (Trans × Bytes) :=
  match decVarint bs with
  | none => none
  | some (t, r) =>
  match decF32 r with
  | none => none
  | some (p, r) => some ({ target := t, prob := p }, r)

def encState (s : State) : Bytes :=
  encOption encAction s.action ++ encOption encCounter s.counterA ++ encOption encCounter s.counterB
    ++ encList (encOption (encVec encTrans)) s.transitions

def decState (bs : Bytes) : Option (State × Bytes) :=
  match decOption decAction bs with
  | none => none
  | some (a, r) =>
  match decOption decCounter r with
  | none => none
  | some (ca, r) =>
  match decOption decCounter r with
  | none => none
  | some (cb, r) =>
  match decN (decOption (decVec decTrans)) EVENT_NUM r with
  | none => none
  | some (ts, r) => some ({ action := a, counterA := ca, counterB := cb, transitions := ts }, r)

def encMachine (m : Machine) : Bytes :=
  encVarint m.allowedPaddingPackets ++ encF64 m.maxPaddingFrac ++ encVarint m.allowedBlockedMicrosec
    ++ encF64 m.maxBlockingFrac ++ encVec encState m.states

def decMachine (bs : Bytes) : Option (Machine × Bytes) :=
  match decVarint bs with
  | none => none
  | some (app, r) =>
  match decF64 r with
  | none => none
  | some (mpf, r) =>
  match decVarint r with
  | none => none
  | some (abm, r) =>
  match decF64 r with
  | none => none
  | some (mbf, r) =>
  match decVec decState r with
  | none => none
  | some (sts, r) =>
    some ({ allowedPaddingPackets := app, maxPaddingFrac := mpf, allowedBlockedMicrosec := abm,
            maxBlockingFrac := mbf, states := sts }, r)

/-- `bincoder.deserialize(bytes)` with trailing bytes rejected -/
def decodeMachine (bs : Bytes) : Option Machine :=
  match decMachine bs with
  | some (m, []) => some m
  | _ => none

end Codec
end Mb
