/-
  The legacy (v1) machine parser of parsing.rs: `parse_v1_machine` (after hex decoding and
  `read_to_end` decompression, which are inputs here), `parse_v1`, `parse_state`, `parse_dist`,
  `buf_to_dist_type`, followed by `Machine::new` (= validation).

  Every slice, index and `usize` addition/multiplication of the Rust code is a checked
  operation that yields `Stop.fault` where the Rust code would panic (out-of-bounds slice,
  arithmetic overflow with overflow checks on); `Stop.err` is an ordinary `Err(..)` return.
-/
import MbVerif.Codec
import MbVerif.Validate

namespace Mb
namespace V1
open Codec (Bytes)

inductive Fault where
  | oob | overflow
  deriving Repr, DecidableEq, Inhabited

inductive Stop where
  | fault (f : Fault)
  | err
  deriving Repr, DecidableEq, Inhabited

abbrev P := Except Stop

/-- `usize` is 64 bits on the harness's target -/
def USIZE : Nat := 2 ^ 64

def cadd (a b : Nat) : P Nat := if a + b < USIZE then .ok (a + b) else .error (.fault .overflow)
def cmul (a b : Nat) : P Nat := if a * b < USIZE then .ok (a * b) else .error (.fault .overflow)

/-- `&b[lo..hi]` -/
def slice (b : Bytes) (lo hi : Nat) : P Bytes :=
  if lo ≤ hi ∧ hi ≤ b.length then .ok ((b.drop lo).take (hi - lo)) else .error (.fault .oob)

/-- `&b[lo..]` -/
def sliceFrom (b : Bytes) (lo : Nat) : P Bytes :=
  if lo ≤ b.length then .ok (b.drop lo) else .error (.fault .oob)

/-- `b[i]` -/
def byteAt (b : Bytes) (i : Nat) : P UInt8 :=
  match b[i]? with
  | some x => .ok x
  | none => .error (.fault .oob)

/-- little-endian value of a byte string (`LittleEndian::read_u16/u64/f64` on an exact slice) -/
def leVal : Bytes → Nat
  | [] => 0
  | b :: bs => b.toNat + 256 * leVal bs

def SERIALIZED_DIST_SIZE : Nat := 2 + 8 * 4

/-- `v1_events_iter()` as indices into the transition array -/
def v1Events : List Nat :=
  [Gen.EV_NormalRecv, Gen.EV_PaddingRecv, Gen.EV_NormalSent, Gen.EV_PaddingSent,
   Gen.EV_BlockingBegin, Gen.EV_BlockingEnd, Gen.EV_LimitReached]

/-! ### float conversions used by the parser -/

/-- magnitude bits of a non-negative rational that is exactly representable in binary32 -/
def f32MagBits (r : Rat) : Nat :=
  if r = 0 then 0
  else
    let e := Fp.ilog2 r
    if e < -126 then (r / Fp.pow2 (-149)).floor.toNat
    else ((e + 127).toNat) * 2 ^ 23 + ((r / Fp.pow2 (e - 23)).floor.toNat - 2 ^ 23)

/-- `v as f32` for an `f64` bit pattern (round to nearest even, overflow to infinity, sign kept;
    NaN: sign kept, quiet bit set, top 22 payload bits kept, as the SSE2/NEON conversions do) -/
def f64ToF32 (b : F64) : F32 :=
  let n := b.toNat
  let sign := n / 2 ^ 63
  let mag : Nat :=
    match Fp.val64 b with
    | .nan => 0x7FC00000 + (n % 2 ^ 51) / 2 ^ 29
    | .inf _ => 0x7F800000
    | .fin q =>
      match Fp.f32.round (if q < 0 then -q else q) with
      | .fin r => f32MagBits r
      | _ => 0x7F800000
  UInt32.ofNat (sign * 2 ^ 31 + mag)

/-- `v != 0.0` -/
def f64ne0 (b : F64) : Bool := !(Fp.feq (Fp.val64 b) (.fin 0))

def f64OfBytes (s : Bytes) : F64 := UInt64.ofNat (leVal s)

/-! ### parse_dist -/

def bufToDistType (ty : Nat) (p1 p2 : F64) : Option DistType :=
  if ty = 1 then some (.uniform p1 p2)
  else if ty = 2 then some (.normal p1 p2)
  else if ty = 3 then some (.logNormal p1 p2)
  else if ty = 4 then some (.binomial (Fp.toU64 (Fp.val64 p1)) p2)
  else if ty = 5 then some (.geometric 0)
  else if ty = 6 then some (.pareto p1 p2)
  else if ty = 7 then some (.poisson 0)
  else if ty = 8 then some (.weibull p1 p2)
  else if ty = 9 then some (.gamma p1 p2)
  else if ty = 10 then some (.beta p1 p2)
  else none

def parseDist (buf : Bytes) : P (Option Dist) :=
  if buf.length < SERIALIZED_DIST_SIZE then .error .err
  else do
    let ty ← slice buf 0 2
    let p1 ← slice buf 2 10
    let p2 ← slice buf 10 18
    let st ← slice buf 18 26
    let mx ← slice buf 26 34
    match bufToDistType (leVal ty) (f64OfBytes p1) (f64OfBytes p2) with
    | none => .ok none
    | some dt => .ok (some { dist := dt, start := f64OfBytes st, max := f64OfBytes mx })

/-! ### parse_state -/

/-- `for i in 0..num_states + 2` with `k` iterations left -/
def rowLoop (buf : Bytes) (n : Nat) : Nat → Nat → Nat → List Trans → P (List Trans × Nat)
  | 0, _, r, acc => .ok (acc, r)
  | k + 1, i, r, acc => do
    let hi ← cadd r 8
    let sl ← slice buf r hi
    let v := f64OfBytes sl
    if f64ne0 v then
      if i < n then rowLoop buf n k (i + 1) hi (acc ++ [{ target := i, prob := f64ToF32 v }])
      else if i = n then .error .err
      else rowLoop buf n k (i + 1) hi (acc ++ [{ target := STATE_END, prob := f64ToF32 v }])
    else rowLoop buf n k (i + 1) hi acc

/-- `for event in v1_events_iter()` -/
def eventLoop (buf : Bytes) (n cnt : Nat) : List Nat → Nat → List (Nat × List Trans) → P (List (Nat × List Trans) × Nat)
  | [], r, acc => .ok (acc, r)
  | e :: es, r, acc => do
    let (row, r') ← rowLoop buf n cnt 0 r []
    eventLoop buf n cnt es r' (acc ++ [(e, row)])

/-- `State::new`: a transition array with the non-empty vectors at their event index -/
def stateNew (rows : List (Nat × List Trans)) : List (Option (List Trans)) :=
  (List.range EVENT_NUM).map fun j =>
    match rows.find? (fun p => p.1 == j) with
    | some (_, v) => if v.isEmpty then none else some v
    | none => none

def stateLenExpr (n : Nat) : P Nat := do
  let a ← cmul 3 SERIALIZED_DIST_SIZE
  let a ← cadd a 4
  let b ← cadd n 2
  let b ← cmul b 8
  let c ← cadd v1Events.length 1
  let b ← cmul b c
  cadd a b

def parseState (buf : Bytes) (n : Nat) : P State := do
  let need ← stateLenExpr n
  if buf.length < need then .error .err
  else do
    let r := 0
    let hi ← cadd r SERIALIZED_DIST_SIZE
    let duration ← parseDist (← slice buf r hi)
    let r := hi
    let hi ← cadd r SERIALIZED_DIST_SIZE
    let limit ← parseDist (← slice buf r hi)
    let r := hi
    let hi ← cadd r SERIALIZED_DIST_SIZE
    let timeout ← parseDist (← slice buf r hi)
    let r := hi
    let isBlock := (← byteAt buf r) == 1
    let r ← cadd r 1
    let bypass := (← byteAt buf r) == 1
    let r ← cadd r 1
    let replace := (← byteAt buf r) == 1
    let r ← cadd r 1
    let action : Option Action ←
      match timeout with
      | some to =>
        if isBlock then
          match duration with
          | none => .error .err
          | some du => .ok (some (.blockOutgoing bypass replace to du limit))
        else .ok (some (.sendPadding bypass replace to limit))
      | none => .ok none
    let r ← cadd r 1
    let cnt ← cadd n 2
    let (rows, _) ← eventLoop buf n cnt v1Events r []
    .ok { action := action, counterA := none, counterB := none, transitions := stateNew rows }

/-! ### parse_v1, parse_v1_machine -/

/-- `for _ in 0..num_states` with `k` iterations left -/
def statesLoop (buf : Bytes) (n esl : Nat) : Nat → Nat → List State → P (List State)
  | 0, _, acc => .ok acc
  | k + 1, r, acc => do
    let hi ← cadd r esl
    let s ← parseState (← slice buf r hi) n
    statesLoop buf n esl k hi (acc ++ [s])

/-- the part of `parse_v1` after the header: length test, state loop, `Machine::new` -/
def parseV1States (buf : Bytes) (app : Nat) (mpf : F64) (abm : Nat) (mbf : F64) (n r : Nat) : P Machine := do
  let esl ← stateLenExpr n
  let rest ← sliceFrom buf r
  let total ← cmul esl n
  if rest.length ≠ total then .error .err
  else do
    let states ← statesLoop buf n esl n r []
    let m : Machine := { allowedPaddingPackets := app, maxPaddingFrac := mpf, allowedBlockedMicrosec := abm,
                         maxBlockingFrac := mbf, states := states }
    if Validate.machine m then .ok m else .error .err

def parseV1 (buf : Bytes) : P Machine :=
  if buf.length < 4 * 8 + 1 + 2 then .error .err
  else do
    let r := 0
    let hi ← cadd r 8
    let app := leVal (← slice buf r hi)
    let r := hi
    let hi ← cadd r 8
    let mpf := f64OfBytes (← slice buf r hi)
    let r := hi
    let hi ← cadd r 8
    let abm := leVal (← slice buf r hi)
    let r := hi
    let hi ← cadd r 8
    let mbf := f64OfBytes (← slice buf r hi)
    let r := hi
    let r ← cadd r 1
    let hi ← cadd r 2
    let n := leVal (← slice buf r hi)
    let r := hi
    parseV1States buf app mpf abm mbf n r

/-- `parse_v1_machine` from the decompressed bytes on -/
def parseV1Machine (buf : Bytes) : P Machine :=
  if buf.length < 2 then .error .err
  else do
    let version ← slice buf 0 2
    let payload ← sliceFrom buf 2
    if leVal version = 1 then parseV1 payload else .error .err

/-- `hex::decode`: even length, digits of either case -/
def hexVal (c : UInt8) : Option Nat :=
  let n := c.toNat
  if 48 ≤ n ∧ n ≤ 57 then some (n - 48)
  else if 97 ≤ n ∧ n ≤ 102 then some (n - 87)
  else if 65 ≤ n ∧ n ≤ 70 then some (n - 55)
  else none

def hexDec : Bytes → Option Bytes
  | [] => some []
  | [_] => none
  | a :: b :: r =>
    match hexVal a, hexVal b, hexDec r with
    | some x, some y, some t => some (UInt8.ofNat (x * 16 + y) :: t)
    | _, _, _ => none

end V1
end Mb
