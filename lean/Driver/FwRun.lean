/-
  Framework cases: replay the operations through the model with the logged
  oracle values, compare with the implementation's outputs tag by tag.
-/
import Driver.Parse
import MbVerif.Validate

namespace Driver
open Mb

/-- oracle state of the replay: remaining logged values -/
structure OState where
  us : List F32
  ds : List F64
  starved : Bool
  deriving Repr, Inhabited

def replayOracle : Oracle OState where
  u σ := match σ.us with
    | x :: r => (x, { σ with us := r })
    | [] => (0, { σ with starved := true })
  d _ σ := match σ.ds with
    | x :: r => (x, { σ with ds := r })
    | [] => (0, { σ with starved := true })

/-- impl-side trace plus the per-op oracle values -/
structure FwCaseParsed where
  trace : FwTrace
  orcNew : List F32 × List F64
  orcCalls : List (List F32 × List F64)
  deriving Inhabited

def faultRes : Option Fault → Res
  | none => .ok
  | some .durOverflow => .panic "dur"
  | some .oob => .panic "oob"
  | some .fuel => .panic "fuel"

def emptySnap : Snap :=
  { rts := [], now := 0, normal := 0, padding := 0, blockingNs := 0, blockingStarted := 0,
    blockingActive := false, signalPending := none }

def parseFwCase (c : CaseBlock) : Except String FwCaseParsed := do
  let ms ← (c.header.filter (fun ws => ws.head? == some "m")).mapM (fun ws => match ws with
    | ["m", h] => match hexBytes h with
      | some bs => match Codec.decodeMachine bs with
        | some m => pure m
        | none => throw "machine bytes do not decode in the model"
      | none => throw "bad hex"
    | _ => throw "unexpected header line")
  match c.ops with
  | [] => throw "no ops"
  | op0 :: rest =>
    match op0.cmd with
    | ["new", fp, fb, t0] =>
      let some fp := hexNat fp | throw "bad fp"
      let some fb := hexNat fb | throw "bad fb"
      let some t0 := t0.toInt? | throw "bad t0"
      let some res0 := op0.outs.head?.bind parseRes | throw "bad res (new)"
      let snap0 := (parseSnap op0.outs).getD emptySnap
      let log0 := (parseLog op0.outs).getD []
      let mut calls : List CallRec := []
      let mut orcs : List (List F32 × List F64) := []
      for op in rest do
        match op.cmd with
        | "call" :: t :: evs =>
          let some t := t.toInt? | throw "bad call time"
          let some evs := evs.mapM parseEv | throw "bad event"
          let some res := op.outs.head?.bind parseRes | throw "bad res"
          let acts := op.outs.filter (fun w => w.head? == some "A" || w.head? == some "AT")
          let some acts := parseActions acts | throw "bad action lines"
          let snap ← match res with
            | .ok => match parseSnap op.outs with
              | some s => pure s
              | none => throw "bad snapshot"
            | _ => pure emptySnap
          let log := (parseLog op.outs).getD []
          calls := calls ++ [{ t := t, events := evs, res := res, actions := acts, snap := snap, log := log }]
          orcs := orcs ++ [(op.us, op.ds)]
        | _ => throw "unexpected op"
      return { trace := { machines := ms, fp := UInt64.ofNat fp, fb := UInt64.ofNat fb, t0 := t0,
                          newRes := res0, snap0 := snap0, log0 := log0, calls := calls },
               orcNew := (op0.us, op0.ds), orcCalls := orcs }
    | _ => throw "first op is not `new`"

/-- run the model over the parsed case; returns the model-side trace -/
def modelRun (p : FwCaseParsed) (newOk : Bool) : FwTrace × Bool :=
  let tr := p.trace
  if !newOk then ({ tr with newRes := .err, calls := [] }, false) else
  let s0 : Fw OState := Fw.init replayOracle tr.machines tr.fp tr.fb tr.t0
    { us := p.orcNew.1, ds := p.orcNew.2, starved := false }
  let log0 := s0.log.reverse
  let starved0 := s0.rng.starved || !s0.rng.us.isEmpty || !s0.rng.ds.isEmpty
  let rec go (s : Fw OState) (cs : List CallRec) (os : List (List F32 × List F64)) (acc : List CallRec) (starved : Bool) :
      List CallRec × Bool :=
    match cs, os with
    | c :: cs, o :: os =>
      let s := { s with rng := { us := o.1, ds := o.2, starved := false }, log := [] }
      let s := triggerEvents replayOracle c.events c.t s
      let starved := starved || s.rng.starved || !s.rng.us.isEmpty || !s.rng.ds.isEmpty
      let res := faultRes s.fault
      let rec' : CallRec :=
        { t := c.t, events := c.events, res := res,
          actions := if res == .ok then s.actionsOut else [],
          snap := if res == .ok then s.snap else emptySnap,
          log := if res == .ok then s.log.reverse else [] }
      if res == .ok then go s cs os (rec' :: acc) starved else ((rec' :: acc).reverse, starved)
    | _, _ => (acc.reverse, starved)
  let (calls, starved) := go s0 tr.calls p.orcCalls [] starved0
  ({ tr with newRes := faultRes s0.fault, snap0 := s0.snap, log0 := log0, calls := calls }, starved)

def actKind : TAction → TAction
  | .cancel m t => .cancel m t
  | .sendPadding _ b r m => .sendPadding 0 b r m
  | .blockOutgoing _ _ b r m => .blockOutgoing 0 0 b r m
  | .updateTimer _ r m => .updateTimer 0 r m

def actTimes : TAction → Nat × Nat
  | .cancel _ _ => (0, 0)
  | .sendPadding t _ _ _ => (t, 0)
  | .blockOutgoing t d _ _ _ => (t, d)
  | .updateTimer d _ _ => (0, d)

/-- tags on which two snapshots differ -/
def diffSnap (a b : Snap) : List String :=
  let t1 := if (a.rts.map fun r => (r.state, r.limit)) != (b.rts.map fun r => (r.state, r.limit)) then ["RS"] else []
  let t2 := if (a.rts.map fun r => (r.ctrA, r.ctrB)) != (b.rts.map fun r => (r.ctrA, r.ctrB)) then ["RC"] else []
  let t3 := if (a.rts.map fun r => (r.padding, r.normal)) != (b.rts.map fun r => (r.padding, r.normal)) then ["RP"] else []
  let t4 := if (a.rts.map fun r => r.blockingNs) != (b.rts.map fun r => r.blockingNs) then ["RB"] else []
  let t5 := if (a.now, a.normal, a.padding, a.blockingNs, a.blockingStarted, a.blockingActive)
             != (b.now, b.normal, b.padding, b.blockingNs, b.blockingStarted, b.blockingActive) then ["G"] else []
  let t6 := if a.signalPending != b.signalPending then ["GS"] else []
  let t7 := if (a.rts.map fun r => (r.zeroedA, r.zeroedB)) != (b.rts.map fun r => (r.zeroedA, r.zeroedB)) then ["RZ"] else []
  t1 ++ t2 ++ t3 ++ t4 ++ t5 ++ t6 ++ t7

def diffCall (a b : CallRec) : List String :=
  let t0 := if a.res != b.res then ["res"] else []
  let t1 := if a.actions.map actKind != b.actions.map actKind then ["A"] else []
  let t2 := if a.actions.map actTimes != b.actions.map actTimes then ["AT"] else []
  let t3 := if a.log != b.log then ["L"] else []
  t0 ++ t1 ++ t2 ++ diffSnap a.snap b.snap ++ t3

/-- compare impl and model traces: list of (op index, tags) -/
def diffTrace (impl model : FwTrace) : List (Nat × List String) :=
  let d0 :=
    (if impl.newRes != model.newRes then ["res"] else []) ++
    (if impl.newRes == .ok && model.newRes == .ok then
      diffSnap impl.snap0 model.snap0 ++ (if impl.log0 != model.log0 then ["L"] else []) else [])
  let rec go (i : Nat) (xs ys : List CallRec) (acc : List (Nat × List String)) : List (Nat × List String) :=
    match xs, ys with
    | x :: xs, y :: ys =>
      let d := diffCall x y
      go (i + 1) xs ys (if d.isEmpty then acc else (i, d) :: acc)
    | [], [] => acc.reverse
    | _, _ => ((i, ["len"]) :: acc).reverse
  (if d0.isEmpty then [] else [(0, d0)]) ++ go 1 impl.calls model.calls []

end Driver
