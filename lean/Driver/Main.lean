import Driver.FpCheck
import Driver.Monitors
import Driver.SimRun
import Driver.CodecRun
import Driver.ValRun
import Driver.FfiRun

open Driver Mb

partial def readAll (h : IO.FS.Stream) (acc : Array String) : IO (Array String) := do
  let line ← h.getLine
  if line.isEmpty then return acc else readAll h (acc.push line)

def tagsStr (ds : List (Nat × List String)) : String :=
  let tags := (ds.foldl (fun acc (_, ts) => ts.foldl (fun a t => if a.contains t then a else a ++ [t]) acc) ([] : List String))
  String.intercalate "," tags

def runFw (cases : List CaseBlock) : IO Unit := do
  for c in cases do
    match parseFwCase c with
    | .error e => IO.println s!"case {c.id} {c.kind} PARSE {e}"
    | .ok p =>
      -- a panic inside a dependency (class `ext:…`, e.g. a rand_distr sampler) leaves the oracle
      -- without a value for that draw: the comparison ends before that call; the monitors below
      -- still see the whole trace (C01 reports the panic)
      let isExt : CallRec → Bool := fun c => match c.res with
        | .panic cls => cls.startsWith "ext:" || cls.startsWith "hang"
        | _ => false
      let nKeep := (p.trace.calls.takeWhile (fun c => !isExt c)).length
      let pc : FwCaseParsed := { p with trace := { p.trace with calls := p.trace.calls.take nKeep },
                                        orcCalls := p.orcCalls.take nKeep }
      let (model, starved) := modelRun pc (Validate.frameworkNew p.trace.machines p.trace.fp p.trace.fb)
      let newExt := match p.trace.newRes with
        | .panic cls => cls.startsWith "ext:" || cls.startsWith "hang"
        | _ => false
      let ds := if newExt then [] else diffTrace pc.trace model
      let ds := if starved && !newExt then ds ++ [(0, ["oracle"])] else ds
      if ds.isEmpty then
        IO.println s!"case {c.id} {c.kind} ok calls={p.trace.calls.length}"
      else
        let first := ds.head!
        IO.println s!"case {c.id} {c.kind} DIFF tags={tagsStr ds} firstop={first.1}"
      IO.println s!"sig {c.id} {String.intercalate "," (fwSig p.trace)}"
      for (pid, r) in fwMonitors p.trace do
        match r with
        | none => pure ()
        | some msg => IO.println s!"mon {pid} FAIL {c.id} {msg}"
      match c.trailer.find? (fun w => w.head? == some "det") with
      | some ("det" :: "ok" :: _) => pure ()
      | some w =>
        IO.println s!"mon C05 FAIL {c.id} determinism: {String.intercalate " " w}"
        -- a copy of the framework (clone / clone_from) that panics where the original returns is a totality failure too
        -- the crate's own impl of its time traits for std::time deviates from the specified clock semantics
        -- (saturating difference, exact durations): the blocking budgets are computed from it
        if w.contains "default-clock" then
          IO.println s!"mon C03 FAIL {c.id} on the default clock (std::time::Instant) the framework returns other actions than for the same instants on the virtual clock: {String.intercalate " " w}"
        if w.contains "copy-panicked" then
          IO.println s!"mon C01 FAIL {c.id} a copy of the framework panicked where the original returned: {String.intercalate " " w}"
      | none => pure ()
      match c.trailer.find? (fun w => w.head? == some "ni") with
      | some ("ni" :: "ok" :: _) => pure ()
      | some w => IO.println s!"mon C10 FAIL {c.id} probe machine behaves differently next to its neighbours: {String.intercalate " " w}"
      | none => pure ()

def main (args : List String) : IO UInt32 := do
  match args with
  | ["fpcheck", n, seed] => return (← fpcheck (n.toNat?.getD 1000) (UInt64.ofNat (seed.toNat?.getD 1)))
  | _ => pure ()
  let stdin ← IO.getStdin
  let lines ← readAll stdin #[]
  let (cases, bad) := splitCases lines.toList [] 0
  if bad > 0 then IO.println s!"badblocks {bad}"
  match args with
  | ["fw"] => runFw cases; return 0
  | "sim" :: rest => SimRun.run cases rest; return 0
  | "codec" :: rest => CodecRun.run cases rest; return 0
  | "val" :: rest => ValRun.run cases rest; return 0
  | "ffi" :: rest => FfiRun.run cases rest; return 0
  | _ => IO.eprintln "usage: mbdriver fw < cases"; return 2
