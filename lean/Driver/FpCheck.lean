/-
  `mbdriver fpcheck <n> <seed>`: cross-check of the rational float model `MbVerif/Fp.lean` against the
  host's IEEE-754 arithmetic as exposed by Lean's native `Float` / `Float32` (hardware operations), on
  operand pairs drawn from a deterministic generator that favours the corners (zeros, subnormals, powers
  of two and their neighbours, huge and tiny magnitudes, infinities, NaN).  This validates the model of
  floating point that every theorem about fractions, shares, clamps and probabilities rests on,
  independently of the Rust code.  Values are compared after decoding (`val64` / `val32`), so the sign of a
  zero and NaN payloads are not distinguished (the model does not track them).
-/
import MbVerif.Fp

namespace Driver
open Mb Mb.Fp

def lcg (s : UInt64) : UInt64 := s * 6364136223846793005 + 1442695040888963407

def specials64 : Array UInt64 := #[
  0x0000000000000000, 0x8000000000000000, 0x0000000000000001, 0x000fffffffffffff, 0x0010000000000000,
  0x3ff0000000000000, 0x3ff0000000000001, 0x3fefffffffffffff, 0x3fe0000000000000, 0x4000000000000000,
  0xbff0000000000000, 0x7fefffffffffffff, 0xffefffffffffffff, 0x7ff0000000000000, 0xfff0000000000000,
  0x7ff8000000000000, 0x4340000000000000, 0x433fffffffffffff, 0x4330000000000000, 0x3cb0000000000000,
  0x3ca0000000000000, 0x3e112e0be826d695, 0x48a6f578c4e0a061, 0x4194c56d5cb851ec, 0x0020000000000001,
  0x0020000000000002, 0x41cdcd6500000000, 0x42a5000000000000 ]

def specials32 : Array UInt32 := #[
  0x00000000, 0x80000000, 0x00000001, 0x007fffff, 0x00800000, 0x3f800000, 0x3f800001, 0x3f7fffff,
  0x3f000000, 0x40000000, 0xbf800000, 0x7f7fffff, 0x7f800000, 0xff800000, 0x7fc00000, 0x33800000,
  0x34000000, 0x3e99999a, 0x3dcccccd, 0x3eaaaaab, 0x3d800000, 0x3d4ccccd ]

/-- next operand: a special value, a neighbour of one, or random bits -/
def pick64 (s : UInt64) : UInt64 × UInt64 :=
  let s := lcg s
  let k := (s >>> 60).toNat
  let s2 := lcg s
  let sp := specials64[(s2 >>> 33).toNat % specials64.size]!
  let v := if k < 5 then sp else if k < 8 then sp + ((s2 >>> 20) &&& 3) - 1 else if k < 10 then (s2 &&& 0x800fffffffffffff) else s2
  (v, s2)

def pick32 (s : UInt64) : UInt32 × UInt64 :=
  let s := lcg s
  let k := (s >>> 60).toNat
  let s2 := lcg s
  let sp := specials32[(s2 >>> 33).toNat % specials32.size]!
  let r : UInt32 := (s2 >>> 16).toUInt32
  let v := if k < 5 then sp else if k < 8 then sp + (r &&& 3) - 1 else if k < 10 then (r &&& 0x807fffff) else r
  (v, s2)

def fpcheck (n : Nat) (seed : UInt64) : IO UInt32 := do
  let mut s := seed
  let mut bad := 0
  let mut done := 0
  let mut skipped := 0
  for _ in [0:n] do
    let (a, s1) := pick64 s
    let (b, s2) := pick64 s1
    s := s2
    let fa := Float.ofBits a
    let fb := Float.ofBits b
    let va := val64 a
    let vb := val64 b
    let checks : List (String × FV × FV) := [
      ("add", add f64 va vb, val64 (fa + fb).toBits),
      ("sub", sub f64 va vb, val64 (fa - fb).toBits),
      ("mul", mul f64 va vb, val64 (fa * fb).toBits),
      ("div", div f64 va vb, val64 (fa / fb).toBits) ]
    for (op, m, h) in checks do
      -- the model does not track the sign of zero: x / -0.0 is outside its domain (the code divides
      -- non-negative counts and durations only); counted, not compared
      if op == "div" && b == 0x8000000000000000 then
        skipped := skipped + 1
        continue
      done := done + 1
      if m != h then
        bad := bad + 1
        if bad ≤ 10 then IO.println s!"fp MISMATCH f64 {op} {a.toNat} {b.toNat}: model {repr m} host {repr h}"
    let cmp : List (String × Bool × Bool) := [
      ("lt", lt va vb, fa < fb), ("le", le va vb, fa ≤ fb), ("eq", feq va vb, fa == fb) ]
    for (op, m, h) in cmp do
      done := done + 1
      if m != h then
        bad := bad + 1
        if bad ≤ 10 then IO.println s!"fp MISMATCH f64 {op} {a.toNat} {b.toNat}: model {m} host {h}"
    let (c, s3) := pick32 s
    let (d, s4) := pick32 s3
    s := s4
    let gc := Float32.ofBits c
    let gd := Float32.ofBits d
    let vc := val32 c
    let vd := val32 d
    done := done + 2
    if add f32 vc vd != val32 (gc + gd).toBits then
      bad := bad + 1
      if bad ≤ 10 then IO.println s!"fp MISMATCH f32 add {c.toNat} {d.toNat}"
    if lt vc vd != (gc < gd) then
      bad := bad + 1
      if bad ≤ 10 then IO.println s!"fp MISMATCH f32 lt {c.toNat} {d.toNat}"
    -- u64 -> f64 conversion of the first operand's bits read as an integer
    done := done + 1
    if ofNat f64 a.toNat != val64 (Float.ofNat a.toNat).toBits then
      bad := bad + 1
      if bad ≤ 10 then IO.println s!"fp MISMATCH u64->f64 {a.toNat}"
  IO.println s!"fpcheck operations={done} mismatches={bad} skipped_div_by_negative_zero={skipped}"
  return (if bad == 0 then 0 else 1)

end Driver
