/-
  Property monitors over simulator runs (implementation traces).
-/
import Driver.FwRun
import MbVerif.Sim.Obs

namespace Driver
open Mb Mb.Sim

/-- all simulator monitors: list of (property id, failure description) -/
def simMonitors (_c : CaseIn) (_runs : List ObsRun) (_orcs : List OState) : List (String × String) := []

end Driver
