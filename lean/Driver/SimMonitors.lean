/-
  Property monitors over simulator runs (implementation traces).
-/
import Driver.FwRun
import MbVerif.Spec.C14
import MbVerif.Spec.C15
import MbVerif.Spec.C16
import MbVerif.Spec.C17
import MbVerif.Spec.C18
import MbVerif.Spec.C19

namespace Driver
open Mb Mb.Sim Mb.SimSpec

def isUnfiltered (r : ObsRun) (delay : Nat) : Bool :=
  let a := r.run.effArgs delay
  !a.onlyClientEvents && !a.onlyNetworkActivity

/-- the annotated trace of an unfiltered run (actions recovered through the framework model with
    the run's oracle); `none` if the run is filtered, panicked, or the replay does not consume
    the oracle exactly -/
def annotate (c : CaseIn) (r : ObsRun) (orc : OState) : Option (List EvActs) × Option String :=
  if !isUnfiltered r c.delay then (none, none) else
  match r.res with
  | .panic _ => (none, none)
  | .ok tr =>
    match recoverActions replayOracle c.mc c.ms (r.run.effArgs c.delay) tr orc with
    | none => (none, some "machines rejected by the validation model")
    | some (ann, rest) =>
      if rest.starved || !rest.us.isEmpty || !rest.ds.isEmpty then
        (none, some s!"replay through the framework model does not consume the oracle exactly (left {rest.us.length}/{rest.ds.length}, starved={rest.starved})")
      else (some ann, none)

/-- all simulator monitors: list of (property id, failure description); property id `REPLAY`
    marks a problem of the action recovery (reported as a correspondence problem) -/
def simMonitors (c : CaseIn) (runs : List ObsRun) (orcs : List OState) : List (String × String) :=
  let c14 := runs.filterMap fun r => (C14.monitor c r).map fun m => ("C14", m)
  let c15 := runs.filterMap fun r => (C15.monitor c r).map fun m => ("C15", m)
  let c19 := (C19.monitor c runs).map fun m => ("C19", m)
  let perRun := (runs.zip orcs).flatMap fun (r, orc) =>
    match annotate c r orc with
    | (_, some err) => [("REPLAY", s!"run {r.run.name}: {err}")]
    | (none, none) => []
    | (some ann, none) =>
      let nc := c.mc.length
      let ns := c.ms.length
      ((C16.monitor nc ns ann).map fun m => ("C16", s!"run {r.run.name}: {m}")).toList ++
      ((C17.monitor nc ns ann).map fun m => ("C17", s!"run {r.run.name}: {m}")).toList ++
      ((C18.monitor nc ns ann).map fun m => ("C18", s!"run {r.run.name}: {m}")).toList
  c14 ++ c15 ++ perRun ++ c19

end Driver
