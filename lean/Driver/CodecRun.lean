/-
  Driver command `codec` (property C11): replays the harness's `codec-*` case blocks through the
  model of bincode / base64 / `from_str` / the v1 parser and runs the C11 monitors on what the
  implementation did.

  Output per case:  `case <id> <kind> ok|DIFF tags=<t1,t2,..>`, `sig <id> <features>`,
  and `mon C11 FAIL <id> <reason>` when a monitor is false on the implementation's behaviour.
-/
import Driver.Parse
import MbVerif.Spec.C11

namespace Driver.CodecRun
open Mb Driver
open Mb.Codec (Bytes)

def field (c : CaseBlock) (k : String) : Option (List String) :=
  (c.header.find? (fun w => w.head? == some k)).map (fun w => w.drop 1)

def hexField (c : CaseBlock) (k : String) : Option Bytes :=
  match field c k with
  | some [h] => hexBytes h
  | some [] => some []
  | _ => none

def kindHead (c : CaseBlock) : String := (c.kind.splitOn " ").headD ""
def kindTag (c : CaseBlock) : String := ((c.kind.splitOn " ").drop 1).headD ""

def strBytes (s : String) : Bytes := s.toUTF8.toList

def bucket (n : Nat) : String :=
  if n ≤ 1 then "n1" else if n ≤ 10 then "n10" else if n ≤ 100 then "n100"
  else if n ≤ 1000 then "n1000" else "n4000"

def distFeat (d : Dist) : List String :=
  let t := match d.dist with
    | .uniform .. => "dU" | .normal .. => "dN" | .skewNormal .. => "dSN" | .logNormal .. => "dLN"
    | .binomial .. => "dBi" | .geometric .. => "dGe" | .pareto .. => "dPa" | .poisson .. => "dPo"
    | .weibull .. => "dW" | .gamma .. => "dGa" | .beta .. => "dBe"
  let nan (x : F64) : Bool := Fp.isNan (Fp.val64 x)
  if nan d.start || nan d.max then [t, "nan"] else [t]

def optDistFeat : Option Dist → List String
  | none => []
  | some d => "lim" :: distFeat d

def actionFeat : Action → List String
  | .cancel _ => ["aC"]
  | .sendPadding _ _ to lim => "aP" :: distFeat to ++ optDistFeat lim
  | .blockOutgoing _ _ to du lim => "aB" :: distFeat to ++ distFeat du ++ optDistFeat lim
  | .updateTimer _ du lim => "aT" :: distFeat du ++ optDistFeat lim

def counterFeat (c : Counter) : List String :=
  (if c.copy then ["copy"] else []) ++ (match c.dist with | none => ["cnt"] | some d => "cntD" :: distFeat d)

def dedup (l : List String) : List String :=
  l.foldl (fun acc x => if acc.contains x then acc else acc ++ [x]) []

def machineFeat (m : Machine) : List String :=
  let per := m.states.foldl (fun acc s =>
    let a := match s.action with | none => [] | some a => actionFeat a
    let ca := match s.counterA with | none => [] | some c => counterFeat c
    let cb := match s.counterB with | none => [] | some c => counterFeat c
    let tv := s.transitions.foldl (fun acc v => match v with
      | none => acc
      | some ts =>
        let acc := if ts.length > 250 then "longvec" :: acc else acc
        let acc := if ts.any (fun t => t.target == STATE_END) then "tEnd" :: acc else acc
        if ts.any (fun t => t.target == STATE_SIGNAL) then "tSig" :: acc else acc) []
    dedup (acc ++ a ++ ca ++ cb ++ tv)) []
  let big := if m.allowedPaddingPackets ≥ 2 ^ 32 || m.allowedBlockedMicrosec ≥ 2 ^ 32 then ["u64big"] else []
  bucket m.states.length :: (per ++ big)

def errName : MStr.Err → String
  | .tooShort => "short" | .notAscii => "ascii" | .version => "version" | .base64 => "b64"
  | .zlib => "zlib" | .bincode => "bincode" | .invalid => "invalid" | .panic => "panic"

def report (c : CaseBlock) (diffs : List String) (sig : List String) (mons : List String) : IO Unit := do
  if diffs.isEmpty then IO.println s!"case {c.id} {kindHead c} ok"
  else IO.println s!"case {c.id} {kindHead c} DIFF tags={String.intercalate "," (dedup diffs)}"
  IO.println s!"sig {c.id} {String.intercalate "," (dedup sig)}"
  for m in mons do IO.println s!"mon C11 FAIL {c.id} {m}"

/-- `valid` cases: bincode correspondence, base64 correspondence, zlib contract on the real
    path, round-trip monitor on the implementation -/
def runValid (c : CaseBlock) : IO Unit := do
  let some mb := hexField c "m" | IO.println s!"case {c.id} {kindHead c} PARSE m"
  let mut diffs : List String := []
  let mut sig : List String := []
  let mut mons : List String := []
  match Codec.decodeMachine mb with
  | none => report c ["decode"] ["undecodable"] []
  | some m =>
    if Codec.encMachine m != mb then diffs := diffs ++ ["enc"]
    if !Codec.WFm m then diffs := diffs ++ ["wf"]
    let implValid := field c "val" == some ["ok"]
    if Validate.machine m != implValid then diffs := diffs ++ ["validate"]
    sig := machineFeat m ++ (if kindTag c == "" then [] else [kindTag c])
    match field c "ser" with
    | some ("panic" :: _) =>
      -- outside the property's hypothesis (encoding above the limit); the model must predict it
      if !MStr.serializePanics m then diffs := diffs ++ ["serpanic"]
      sig := sig ++ ["oversize"]
    | some ["ok", str] =>
      if MStr.serializePanics m then diffs := diffs ++ ["serpanic"]
      let sb := strBytes str
      let some z := hexField c "z" | report c (diffs ++ ["noz"]) sig mons
      if sb != MStr.versionStr ++ B64.enc z then diffs := diffs ++ ["b64enc"]
      if B64.dec (sb.drop 2) != some z then diffs := diffs ++ ["b64dec"]
      if z.length > 32768 then sig := sig ++ ["z32k"]
      -- what the single read returned on the real path
      let (raw, contract) : Option Bytes × Bool :=
        match field c "ro" with
        | some ["ok", _, "eq"] => (some mb, true)
        | some ["ok", _, "ne"] => (hexField c "rob", false)
        | _ => (none, false)
      sig := sig ++ [if contract then "contract" else "contract-broken"]
      let Z : MStr.Zlib := { deflate := fun _ => z, readOnce := fun _ => raw }
      let model := MStr.fromStr Z sb
      let rt := (field c "rt").getD []
      let implOk := rt.head? == some "ok"
      match model with
      | .ok m' =>
        if !implOk then diffs := diffs ++ ["rt-model-ok-impl-" ++ rt.headD "none"]
        if contract && m' != m then diffs := diffs ++ ["rt-model-machine"]
      | .error e =>
        if implOk then diffs := diffs ++ ["rt-impl-ok-model-" ++ errName e]
        if contract && implValid then diffs := diffs ++ ["rt-theorem"]   -- contradicts `fromStr_serialize`
      let obs : C11.RtObs := {
        parsed := implOk,
        sameString := field c "rs" == some ["same"],
        sameName := field c "nm" == some ["same"],
        sameMachine := field c "eq" == some ["same"] }
      -- "... and drives a framework identically" (harness: original and parsed machine over a scripted history)
      if implValid && (field c "dr" == some ["diff"] || field c "dr" == some ["panic"]) then
        mons := mons ++ [s!"roundtrip: the machine parsed from its own string does not drive a framework like the original ({(field c "dr").getD []}); {m.states.length} states"]
      if implValid && !C11.monRoundTrip obs then
        let readInfo := match field c "ro" with
          | some ["ok", n, _] => s!"single read returned {n} of {mb.length} bytes"
          | _ => "single read failed"
        mons := mons ++ [s!"roundtrip: valid machine, {m.states.length} states, string {sb.length} bytes, compressed {z.length} bytes; from_str(serialize(m)) -> {String.intercalate " " rt}; {readInfo}"]
    | _ => diffs := diffs ++ ["noser"]
    report c diffs sig mons

/-- how many states the decoder can complete from these bytes before it stops (all of them, or up to the
    first state that does not decode): what a streaming decoder may have built when it gives up -/
def statesDecodable (bs : Bytes) : Nat :=
  match Codec.decVarint bs with
  | none => 0
  | some (_, r) => match Codec.decF64 r with
    | none => 0
    | some (_, r) => match Codec.decVarint r with
      | none => 0
      | some (_, r) => match Codec.decF64 r with
        | none => 0
        | some (_, r) => match Codec.decVarint r with
          | none => 0
          | some (n, r) =>
            let rec go (fuel : Nat) (k : Nat) (r : Bytes) : Nat :=
              match fuel with
              | 0 => k
              | fuel + 1 => if k ≥ n then k else
                match Codec.decState r with
                | none => k
                | some (_, r') => go fuel (k + 1) r'
            go (r.length / 16 + 1) 0 r

/-- `hostile` / `bomb` cases: stage-by-stage agreement of `from_str` with the model, monitor on
    what was accepted -/
def runHostile (c : CaseBlock) : IO Unit := do
  let some sb := hexField c "s" | IO.println s!"case {c.id} {kindHead c} PARSE s"
  let mut diffs : List String := []
  let mut mons : List String := []
  let st := ((field c "st").getD []).headD "none"
  let z := hexField c "z"
  let raw := hexField c "raw"
  let Z : MStr.Zlib := { deflate := fun x => x, readOnce := fun x => if some x == z then raw else none }
  let model := MStr.fromStr Z sb
  let mstage := match model with | .ok _ => "ok" | .error e => errName e
  if mstage != st then diffs := diffs ++ [s!"stage-model-{mstage}-impl-{st}"]
  -- base64 agreement whenever the checks before it passed
  if st != "short" && st != "ascii" && st != "version" && st != "panic" then
    let md := B64.dec (sb.drop 2)
    if md != z then diffs := diffs ++ ["b64dec"]
  if (field c "replica-mismatch").isSome then diffs := diffs ++ ["replica"]
  let r := (field c "r").getD []
  let mut obs : C11.ParseObs := .rejected
  match r with
  | ["ok", h] =>
    let accepted := (hexBytes h).bind Codec.decodeMachine
    obs := .accepted accepted
    match model with
    | .ok m =>
      if some (Codec.encMachine m) != hexBytes h then diffs := diffs ++ ["accepted-machine"]
    | .error e => diffs := diffs ++ [s!"impl-accepts-model-{errName e}"]
  | "err" :: _ =>
    match model with
    | .ok _ => diffs := diffs ++ ["model-accepts-impl-rejects"]
    | .error _ => pure ()
  | "panic" :: msg =>
    obs := .panicked
    mons := mons ++ [s!"from_str panicked: {String.intercalate " " msg}"]
  | _ => diffs := diffs ++ ["nor"]
  if !C11.monParse obs && obs matches .accepted _ then
    mons := mons ++ ["from_str accepted a machine that fails validation"]
  -- a valid string parsed on the same thread right after the hostile one must still round-trip
  match field c "canary" with
  | some ("FAIL" :: why) => mons := mons ++ [s!"after this string a valid machine string no longer parses as before: {String.intercalate " " why}"]
  | _ => pure ()
  let acc := match obs with | .accepted _ => "accept" | .rejected => "reject" | .panicked => "panic"
  -- for the allocation bound of the check: states a streaming decoder can have built from the bytes read
  match raw with
  | some rb => IO.println s!"states {c.id} {statesDecodable rb}"
  | none => pure ()
  report c diffs [kindTag c, st, acc] mons

/-- `v1` cases: the legacy parser -/
def runV1 (c : CaseBlock) : IO Unit := do
  let some sb := hexField c "s" | IO.println s!"case {c.id} {kindHead c} PARSE s"
  let mut diffs : List String := []
  let mut mons : List String := []
  let st := ((field c "st").getD []).headD "none"
  let hexOk := (V1.hexDec sb).isSome
  if hexOk != (st != "hex") then diffs := diffs ++ ["hex"]
  let r := (field c "r").getD []
  let mut obs : C11.ParseObs := .rejected
  let mut mres := "none"
  match hexField c "raw" with
  | some raw =>
    let model := V1.parseV1Machine raw
    mres := match model with | .ok _ => "ok" | .error .err => "err" | .error (.fault _) => "fault"
    match r, model with
    | ["ok", h], .ok m =>
      if some (Codec.encMachine m) != hexBytes h then diffs := diffs ++ ["accepted-machine"]
    | "err" :: _, .error .err => pure ()
    | "panic" :: _, .error (.fault _) => pure ()
    | _, _ => diffs := diffs ++ [s!"result-model-{mres}-impl-{r.headD "none"}"]
  | none =>
    if st == "ok" then diffs := diffs ++ ["noraw"]
    if r.head? != some "err" && r.head? != some "panic" then diffs := diffs ++ ["early-stage-accept"]
  match r with
  | ["ok", h] =>
    obs := .accepted ((hexBytes h).bind Codec.decodeMachine)
    match field c "v2" with
    | some ["ok"] => pure ()
    | other => mons := mons ++ [s!"machine accepted by parse_v1_machine does not round-trip in the current format: {other}"]
  | "panic" :: msg =>
    obs := .panicked
    mons := mons ++ [s!"parse_v1_machine panicked: {String.intercalate " " msg}"]
  | _ => pure ()
  if !C11.monParse obs && obs matches .accepted _ then
    mons := mons ++ ["parse_v1_machine accepted a machine that fails validation"]
  let acc := match obs with | .accepted _ => "accept" | .rejected => "reject" | .panicked => "panic"
  report c diffs ["v1", kindTag c, st, acc] mons

/-- run the `codec` command over the parsed case blocks; `args` are the extra command-line words -/
def run (cases : List CaseBlock) (_args : List String) : IO Unit := do
  for c in cases do
    match kindHead c with
    | "valid" => runValid c
    | "hostile" => runHostile c
    | "bomb" => runHostile c
    | "v1" => runV1 c
    | k => IO.println s!"case {c.id} {k} PARSE unknown-kind"

end Driver.CodecRun
