/-
  Driver command `codec`: see DESIGN.md.
-/
import Driver.Parse

namespace Driver.CodecRun
open Mb Driver

/-- run the `codec` command over the parsed case blocks; `args` are the extra command-line words -/
def run (_cases : List CaseBlock) (_args : List String) : IO Unit := do
  IO.println "codec: not implemented"

end Driver.CodecRun
