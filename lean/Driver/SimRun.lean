/-
  Driver command `sim`: see DESIGN.md.
-/
import Driver.Parse

namespace Driver.SimRun
open Mb Driver

/-- run the `sim` command over the parsed case blocks; `args` are the extra command-line words -/
def run (_cases : List CaseBlock) (_args : List String) : IO Unit := do
  IO.println "sim: not implemented"

end Driver.SimRun
