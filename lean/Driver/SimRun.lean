/-
  Driver command `sim`: replay every run of a simulator case through the model with the logged
  oracle, compare the event lists exactly, print the coverage signature and run the property
  monitors on the implementation's traces.
-/
import Driver.FwRun
import Driver.SimMonitors

namespace Driver.SimRun
open Mb Mb.Sim Driver

def parseMachineHex (h : String) : Except String Machine :=
  match hexBytes h with
  | some bs => match Codec.decodeMachine bs with
    | some m => pure m
    | none => throw "machine bytes do not decode in the model"
  | none => throw "bad hex"

def parseDir (d : String) : Option Dir :=
  match d with
  | "s" => some .s | "sn" => some .sn | "r" => some .r | "rn" => some .rn | "sp" => some .sp | "rp" => some .rp
  | _ => none

/-- `<ns>:<token>[+]` (the `+` marks a line with the optional size column, which the parser ignores) -/
def parseTraceItem (w : String) : Option RawLine :=
  match w.splitOn ":" with
  | [t, d] =>
    let d := if d.endsWith "+" then (d.dropEnd 1).toString else d
    match t.toNat?, parseDir d with
    | some t, some d => some ⟨t, d⟩
    | _, _ => none
  | _ => none

def parseOptNat (s : String) : Option (Option Nat) :=
  if s == "-" then some none else s.toNat?.map some

def parseF64 (s : String) : Option F64 := (hexNat s).map UInt64.ofNat

def parseRunLine (ws : List String) : Option RunIn :=
  match ws with
  | ["run", name, api, pps, mtl, msi, cont, oc, on, fpc, fbc, fps, fbs, seed] => do
    let pps ← parseOptNat pps
    let seed ← parseOptNat seed
    some { name := name, adv := api == "adv", pps := pps, seed := seed,
           args := { network := ⟨0, pps⟩, maxTraceLength := ← mtl.toNat?, maxSimIterations := ← msi.toNat?,
                     continueAfterAllNormal := ← parseBool cont, onlyClientEvents := ← parseBool oc,
                     onlyNetworkActivity := ← parseBool on, fpClient := ← parseF64 fpc, fbClient := ← parseF64 fbc,
                     fpServer := ← parseF64 fps, fbServer := ← parseF64 fbs } }
  | _ => none

def parseObsEvent (ws : List String) : Option SimEvent :=
  match ws with
  | [t, side, ev, pad, b, r] => do
    some { event := ← parseEv ev, time := ← t.toInt?, client := side == "c",
           containsPadding := ← parseBool pad, bypass := ← parseBool b, replace := ← parseBool r }
  | _ => none

def parseRes (outs : List (List String)) : Option RunRes :=
  match outs with
  | ("res" :: "ok" :: _) :: evs => (evs.mapM parseObsEvent).map .ok
  | ("res" :: "panic" :: cls) :: _ => some (.panic (String.intercalate " " cls))
  | _ => none

structure ParsedCase where
  input : CaseIn
  runs : List (ObsRun × OState)

def parseCase (c : CaseBlock) : Except String ParsedCase := do
  let mut mc : List Machine := []
  let mut ms : List Machine := []
  let mut trace : List RawLine := []
  let mut delay : Nat := 0
  for ws in c.header do
    match ws with
    | ["mc", h] => mc := mc ++ [← parseMachineHex h]
    | ["ms", h] => ms := ms ++ [← parseMachineHex h]
    | "tr" :: _ :: items =>
      match items.mapM parseTraceItem with
      | some t => trace := t
      | none => throw "bad trace"
    | ["delay", d] =>
      match d.toNat? with
      | some d => delay := d
      | none => throw "bad delay"
    | _ => throw s!"unexpected header line {ws}"
  let mut runs : List (ObsRun × OState) := []
  for op in c.ops do
    let some r := parseRunLine op.cmd | throw "bad run line"
    let some res := parseRes op.outs | throw "bad result lines"
    runs := runs ++ [(⟨r, res⟩, { us := op.us, ds := op.ds, starved := false })]
  return { input := { mc := mc, ms := ms, trace := trace, delay := delay }, runs := runs }

/-- first index where two lists differ -/
def firstDiff {α} [BEq α] : List α → List α → Nat → Option Nat
  | [], [], _ => none
  | a :: as, b :: bs, i => if a == b then firstDiff as bs (i + 1) else some i
  | _, _, i => some i

/-- compare an implementation result with the model's -/
def diffRes (impl model : RunRes) : Option (String × Nat) :=
  match impl, model with
  | .ok a, .ok b =>
    match firstDiff a b 0 with
    | none => none
    | some i => some (if a.length != b.length && i ≥ min a.length b.length then "len" else "events", i)
  | .panic a, .panic b => if a == b then none else some (s!"panic:{a}/{b}", 0)
  | .panic a, .ok _ => some (s!"impl-panic:{a}", 0)
  | .ok _, .panic b => some (s!"model-fault:{b}", 0)

/-- main-loop fuel of the model for runs without an iteration cap (with a cap the result does not
    depend on it, `C19_function_of_inputs`): generous for the size of the input and of what the
    implementation returned, so that long traces are not cut short by the model's own budget -/
def modelBudgetFor (c : CaseIn) (impl : RunRes) : Nat :=
  4000 + 8 * c.trace.length + 4 * (match impl with | .ok evs => evs.length | .panic _ => 0)

def modelBudget : Nat := 4000

/-- per-property projections of a trace: a disagreement between model and implementation is
    attributed to the properties whose projection differs -/
def projections : List (String × (SimEvent → Bool)) :=
  [ ("C15", fun e => e.event == .tunnelSent || e.event == .tunnelRecv),
    ("C16", fun e => e.event == .tunnelSent || e.event == .blockingEnd || (match e.event with | .blockingBegin _ => true | _ => false)),
    ("C17", fun e => match e.event with | .paddingSent _ => true | .blockingBegin _ => true | _ => false),
    ("C18", fun e => match e.event with | .timerBegin _ => true | .timerEnd _ => true | _ => false),
    ("C19", fun _ => true) ]

def diffProj (noMachines : Bool) (impl model : RunRes) : List String :=
  match impl, model with
  | .ok a, .ok b =>
    (projections.filterMap fun (pid, f) => if a.filter f != b.filter f then some pid else none)
      ++ (if noMachines && a != b then ["C14"] else [])
  | _, _ => if impl != model then (if noMachines then ["C14"] else []) ++ ["C15", "C16", "C17", "C18", "C19"] else []

/-- coverage features of one run (model internals + the implementation's trace) -/
def runSig (r : ObsRun) (o : SimOut OState) : List String :=
  let f (b : Bool) (s : String) : List String := if b then [s] else []
  let evs := o.stream.map (·.ev)
  let acts := o.stream.flatMap (·.acts)
  let g := match o.final with
    | some st => st.net.ghost
    | none => {}
  f (evs.any fun e => match e.event with | .paddingSent _ => true | _ => false) "pad" ++
  f (evs.any fun e => match e.event with | .blockingBegin _ => true | _ => false) "blk" ++
  f (evs.any fun e => e.event == .blockingEnd) "blkend" ++
  f (evs.any fun e => e.event == .tunnelSent && e.bypass) "bypass" ++
  f (evs.any fun e => match e.event with | .paddingSent _ => e.replace | _ => false) "replace" ++
  f (g.replaced > 0) "repl-hit" ++ f (g.replacedBypass > 0) "repl-bypass-hit" ++
  f (evs.any fun e => match e.event with | .timerBegin _ => true | _ => false) "timer" ++
  f (evs.any fun e => match e.event with | .timerEnd _ => true | _ => false) "timerend" ++
  f (acts.any fun a => match a with | .cancel _ .action => true | _ => false) "cancelA" ++
  f (acts.any fun a => match a with | .cancel _ .internal => true | _ => false) "cancelI" ++
  f (acts.any fun a => match a with | .cancel _ .all => true | _ => false) "cancelL" ++
  f (acts.any fun a => match a with | .updateTimer _ true _ => true | _ => false) "timerR" ++
  f (acts.any fun a => match a with | .updateTimer 0 _ _ => true | _ => false) "timer0" ++
  f (acts.any fun a => match a with | .blockOutgoing _ 0 _ _ _ => true | _ => false) "blk0" ++
  f (acts.any fun a => match a with | .blockOutgoing _ _ _ true _ => true | _ => false) "blkR" ++
  f (acts.any fun a => match a with | .blockOutgoing _ _ true _ _ => true | _ => false) "blkB" ++
  f (g.aggPushed > 0) "agg" ++ f (g.aggPopped > 0) "aggpop" ++ f (g.ppsHit > 0) "pps" ++
  f (g.movedByBlocking > 0) "moved" ++
  f (o.stop == .maxTrace) "stopLen" ++ f (o.stop == .maxIter) "stopIter" ++ f (o.stop == .noNormal) "stopNormal" ++
  f (o.stop == .queueEmpty) "stopEmpty" ++
  f (match o.stop with | .fault _ => true | _ => false) "panic" ++
  f r.run.args.onlyClientEvents "fC" ++ f r.run.args.onlyNetworkActivity "fN" ++
  f (!r.run.adv) "apiSim"

/-- features of the input trace (shape of the workload) -/
def traceSig (c : CaseIn) : List String :=
  let f (b : Bool) (s : String) : List String := if b then [s] else []
  let tl := normalLines c.trace
  let ts := tl.map (·.1)
  let pairs := tl.zip (tl.drop 1)
  let n := tl.length
  f (n == 1) "n1" ++ f (n ≥ 2 && n ≤ 10) "nS" ++ f (n > 10 && n ≤ 30) "nM" ++ f (n > 30) "nL" ++
  f (pairs.any fun (a, b) => a.1 == b.1 && a.2 == b.2) "burst" ++
  f (pairs.any fun (a, b) => a.1 == b.1 && a.2 != b.2) "bothdir" ++
  f (pairs.any fun (a, b) => b.1 - a.1 ≥ 1000000000) "gap1s" ++
  f (pairs.any fun (a, b) => b.1 - a.1 > 0 && b.1 - a.1 ≤ 1000000) "gapSub1ms" ++
  f (ts.head?.getD 0 > 0) "t0pos" ++
  f (tl.all (·.2)) "onlyS" ++ f (tl.all (!·.2)) "onlyR" ++
  f (c.trace.any fun l => l.dir == .sp || l.dir == .rp) "padlines" ++
  f (c.trace.any fun l => l.dir == .sn || l.dir == .rn) "sn-rn" ++
  f (tl.isEmpty) "noNormal" ++
  [s!"d{c.delay}"]

def dedup (l : List String) : List String :=
  l.foldl (fun acc s => if acc.contains s then acc else acc ++ [s]) []

def evStr (e : SimEvent) : String :=
  let k := match e.event with
    | .normalRecv => "nr" | .paddingRecv => "pr" | .tunnelRecv => "tr" | .normalSent => "ns"
    | .paddingSent m => s!"ps:{m}" | .tunnelSent => "ts" | .blockingBegin m => s!"bb:{m}"
    | .blockingEnd => "be" | .timerBegin m => s!"tb:{m}" | .timerEnd m => s!"te:{m}"
  s!"{e.time} {if e.client then "c" else "s"} {k} {if e.containsPadding then 1 else 0} {if e.bypass then 1 else 0} {if e.replace then 1 else 0}"

def actStr : TAction → String
  | .cancel m t => s!"Cancel(m{m},{repr t})"
  | .sendPadding to b r m => s!"Pad(m{m},to={to}us,b={b},r={r})"
  | .blockOutgoing to d b r m => s!"Block(m{m},to={to}us,dur={d}us,b={b},r={r})"
  | .updateTimer d r m => s!"Timer(m{m},dur={d}us,r={r})"

def run (cases : List CaseBlock) (args : List String) : IO Unit := do
  for c in cases do
    match parseCase c with
    | .error e => IO.println s!"case {c.id} {c.kind} PARSE {e}"
    | .ok p =>
      let mut diffs : List String := []
      let mut projs : List String := []
      let noMachines := p.input.mc.isEmpty && p.input.ms.isEmpty
      let mut sigs : List String := [s!"c{p.input.mc.length}s{p.input.ms.length}"] ++ traceSig p.input
      let mut nev := 0
      let mut models : List (ObsRun × SimOut OState × Int) := []
      if args.contains "machines" then
        for (m, i) in p.input.mc.zipIdx do
          IO.println s!"client machine {i}: {repr m}"
        for (m, i) in p.input.ms.zipIdx do
          IO.println s!"server machine {i}: {repr m}"
      for (r, orc) in p.runs do
        let (o, t0) := Mb.Sim.modelRun replayOracle (modelBudgetFor p.input r.res) p.input r.run orc
        let mres := o.res t0
        match diffRes r.res mres with
        | some (what, i) =>
          diffs := diffs ++ [s!"{r.run.name}:{what} first={i}"]
          projs := projs ++ diffProj noMachines r.res mres
        | none =>
          -- the oracle must be consumed exactly (only meaningful when the run completed)
          match o.final with
          | some st =>
            if st.orc.starved || !st.orc.us.isEmpty || !st.orc.ds.isEmpty then
              diffs := diffs ++ [s!"{r.run.name}:oracle first=0"]
              projs := projs ++ ["C15", "C16", "C17", "C18", "C19"]
          | none => pure ()
        sigs := sigs ++ runSig r o
        match args.dropWhile (· != "state") with
        | _ :: k :: _ =>
          if r.run.name == "u" then
            let k := k.toNat!
            let r' : RunIn := { r.run with args := { r.run.args with maxSimIterations := k } }
            let (o', _) := Mb.Sim.modelRun replayOracle modelBudget p.input r' orc
            match o'.final with
            | some st =>
              let showSide (sd : Side OState) : String :=
                s!"acts={sd.schedAction.map (fun x => x.map (fun a => (actStr a.action, a.time - t0)))} timers={sd.schedTimer.map (fun x => x.map (· - t0))} until={sd.blockingUntil.map (· - t0)} byp={sd.blockingBypassable}"
              IO.println s!"state after {k} iterations: now={st.now - t0}"
              IO.println s!"  client {showSide st.client}"
              IO.println s!"  server {showSide st.server}"
              IO.println s!"  server internal={st.sq.server.internal.data.map (fun e => evStr (SimEvent.shift t0 e))}"
              IO.println s!"  server blocking={st.sq.server.blocking.data.map (fun e => evStr (SimEvent.shift t0 e))}"
              IO.println s!"  server bypassable={st.sq.server.bypassable.data.map (fun e => evStr (SimEvent.shift t0 e))}"
              IO.println s!"  server base={st.sq.server.base.data.map (fun e => evStr (SimEvent.shift t0 e))}"
              IO.println s!"  client internal={st.sq.client.internal.data.map (fun e => evStr (SimEvent.shift t0 e))}"
              IO.println s!"  agg c={st.net.clientAgg} s={st.net.serverAgg} pendingAgg={st.net.aggQueue.data.map (fun a => (a.time - t0, a.delay, a.client))}"
              IO.println s!"  pickDecide={repr (pickDecide st)}"
            | none => pure ()
        | _ => pure ()
        if args.contains "dump" then
          IO.println s!"dump {c.id} run {r.run.name} stop={repr o.stop}"
          for x in o.stream do
            IO.println s!"  {evStr (SimEvent.shift t0 x.ev)} net={x.net} {String.intercalate " " (x.acts.map actStr)}"
        nev := nev + (match r.res with | .ok t => t.length | _ => 0)
        models := models ++ [(r, o, t0)]
      if diffs.isEmpty then
        IO.println s!"case {c.id} {c.kind} ok runs={p.runs.length} events={nev}"
      else
        IO.println s!"case {c.id} {c.kind} DIFF proj={String.intercalate "," (dedup projs)} {String.intercalate " ; " diffs}"
      IO.println s!"sig {c.id} {String.intercalate "," (dedup sigs)}"
      for (pid, msg) in simMonitors p.input (p.runs.map (·.1)) (p.runs.map (·.2)) do
        IO.println s!"mon {pid} FAIL {c.id} {msg}"

end Driver.SimRun
