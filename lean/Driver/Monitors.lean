/-
  Property monitors over framework traces, and the coverage signature of a case.
-/
import Driver.FwRun
import MbVerif.Spec.C04
import MbVerif.Spec.C06
import MbVerif.Spec.C01
import MbVerif.Spec.C02
import MbVerif.Spec.C03
import MbVerif.Spec.C07
import MbVerif.Spec.C08
import MbVerif.Spec.C09

namespace Driver
open Mb

/-- all framework-level monitors: (property id, failure description) -/
def fwMonitors (t : FwTrace) : List (String × Option String) :=
  [ ("C01", C01.monitor t), ("C04", C04.monitor t), ("C02", C02.monitor t), ("C03", C03.monitor t),
    ("C07", C07.monitor t), ("C08", C08.monitor t), ("C09", C09.monitor t), ("C06", C06.fwMonitor t) ]

def hasEv (t : FwTrace) (ev : Nat) : Bool :=
  t.calls.any (fun c => c.log.any (fun e => match e with
    | .trans _ e' _ => e' == ev
    | _ => false))

def hasSampled (t : FwTrace) (tgt : Nat) : Bool :=
  t.calls.any (fun c => c.log.any (fun e => match e with
    | .sampled _ _ n => n == tgt
    | _ => false))

/-- coverage features of a case (on the implementation's trace) -/
def fwSig (t : FwTrace) : List String :=
  let f (b : Bool) (s : String) : List String := if b then [s] else []
  f (hasEv t Gen.EV_LimitReached) "LR" ++ f (hasEv t Gen.EV_CounterZero) "CZ" ++ f (hasEv t Gen.EV_Signal) "SIG" ++
  f (hasSampled t STATE_END) "END" ++ f (hasSampled t STATE_SIGNAL) "SGN" ++
  f (t.calls.any fun c => c.actions.any fun a => match a with | .sendPadding .. => true | _ => false) "aP" ++
  f (t.calls.any fun c => c.actions.any fun a => match a with | .blockOutgoing .. => true | _ => false) "aB" ++
  f (t.calls.any fun c => c.actions.any fun a => match a with | .updateTimer .. => true | _ => false) "aT" ++
  f (t.calls.any fun c => c.actions.any fun a => match a with | .cancel .. => true | _ => false) "aC" ++
  f (t.calls.any fun c => c.events.length ≥ 2) "batch" ++
  f (t.calls.any fun c => c.res != .ok) "panic" ++
  f (t.calls.any fun c => c.snap.blockingActive) "blk" ++
  f (t.calls.any fun c => c.snap.rts.any fun r => r.ctrA != 0 || r.ctrB != 0) "ctr" ++
  f (t.calls.any fun c => c.snap.rts.any fun r => r.limit == 0) "lim0" ++
  [s!"n{t.machines.length}"]

end Driver
