/-
  Driver command `ffi`: see DESIGN.md.
-/
import Driver.Parse

namespace Driver.FfiRun
open Mb Driver

/-- run the `ffi` command over the parsed case blocks; `args` are the extra command-line words -/
def run (_cases : List CaseBlock) (_args : List String) : IO Unit := do
  IO.println "ffi: not implemented"

end Driver.FfiRun
