/-
  Driver command `ffi` (property C20): replay the harness's C-API sessions.

  For every call the RAW BYTES of the caller's buffer are decoded with the layout derived from
  maybenot.h (`Ffi.decodeAction`) and
    (a) compared with the model of the C API (`Ffi.apiOnEvents` over the framework model, constant
        oracle: the machines are deterministic)                      → `case … ok | DIFF tags=…`
    (b) checked by the C20 monitor (`C20.EvObs.checks` …) against the actions the Rust framework
        returned for the same input, canaries, result codes            → `mon C20 FAIL …`
  Tags: LAYOUT (sizeof differs from the header-derived layout), EV (event bytes / conversion),
  RC (result code), CNT (count), A (kind, machine, flags, timer), AT (secs/nanos), BUF (bytes
  outside the written slots), MR (framework model vs Rust framework: not C20's projection),
  VAL (validation model vs `Framework::new`: not C20's projection), FAULT, PARSE.
-/
import Driver.Parse
import MbVerif.Spec.C20
import MbVerif.Codec

namespace Driver.FfiRun
open Mb Driver Mb.Ffi Mb.C20

def chunks (k : Nat) (bs : Bytes) : List Bytes :=
  if k = 0 then [] else
  let rec go (fuel : Nat) (bs : Bytes) (acc : List Bytes) : List Bytes :=
    match fuel with
    | 0 => acc.reverse
    | fuel + 1 => if bs.isEmpty then acc.reverse else go fuel (bs.drop k) (bs.take k :: acc)
  go (bs.length / k + 1) bs []

def hexOrEmpty (s : String) : Option Bytes := if s == "-" then some [] else hexBytes s

def evIndex (name : String) : Option String :=
  match name with
  | "nr" => some "NormalRecv" | "pr" => some "PaddingRecv" | "tr" => some "TunnelRecv"
  | "ns" => some "NormalSent" | "ps" => some "PaddingSent" | "ts" => some "TunnelSent"
  | "bb" => some "BlockingBegin" | "be" => some "BlockingEnd" | "tb" => some "TimerBegin"
  | "te" => some "TimerEnd" | _ => none

/-- an event word `name:machine`: the C event the integrator builds and the framework event it means -/
def parseEvWord (w : String) : Option (CEvent × TEvent) :=
  match w.splitOn ":" with
  | [k, m] => do
    let m ← m.toNat?
    let nm ← evIndex k
    let te : TEvent := match k with
      | "nr" => .normalRecv | "pr" => .paddingRecv | "tr" => .tunnelRecv | "ns" => .normalSent
      | "ps" => .paddingSent m | "ts" => .tunnelSent | "bb" => .blockingBegin m | "be" => .blockingEnd
      | "tb" => .timerBegin m | _ => .timerEnd m
    some ({ eventType := evType nm, machine := m }, te)
  | _ => none

def findOut (outs : List (List String)) (k : String) : Option (List String) :=
  (outs.find? (fun w => w.head? == some k)).map (·.drop 1)

def kindOf : CAction → CAction
  | .cancel m t => .cancel m t
  | .sendPadding m _ r b => .sendPadding m ⟨0, 0⟩ r b
  | .blockOutgoing m _ r b _ => .blockOutgoing m ⟨0, 0⟩ r b ⟨0, 0⟩
  | .updateTimer m _ r => .updateTimer m ⟨0, 0⟩ r

def timesOf : CAction → List Nat
  | .cancel .. => []
  | .sendPadding _ t _ _ => [t.secs, t.nanos]
  | .blockOutgoing _ t _ _ d => [t.secs, t.nanos, d.secs, d.nanos]
  | .updateTimer _ d _ => [d.secs, d.nanos]

structure St where
  ms : List Machine := []
  fw : Option (Fw Unit) := none
  nm : Nat := 0
  tags : List (Nat × String) := []      -- (op index, tag)
  mons : List String := []
  feats : List String := []
  calls : Nat := 0
  evTypes : List Nat := []

def St.tag (s : St) (i : Nat) (t : String) : St := { s with tags := s.tags ++ [(i, t)] }
def St.feat (s : St) (f : String) : St := if s.feats.contains f then s else { s with feats := s.feats ++ [f] }
def St.mon (s : St) (i : Nat) (r : Option String) : St :=
  match r with
  | none => s
  | some m => { s with mons := s.mons ++ [s!"op {i}: {m}"] }

def runStart (s : St) (i : Nat) (cmd : List String) (outs : List (List String)) : St :=
  match cmd, findOut outs "rc", findOut outs "ref", findOut outs "out", findOut outs "nm" with
  | [on, fp, fb], some [rc], some [utf8, parse, fwref, strict], some [outw], some [nm, nmNull] =>
    match hexNat fp, hexNat fb, rc.toNat?, nmNull.toNat? with
    | some fp, some fb, some rc, some nmNull =>
      let fp := UInt64.ofNat fp
      let fb := UInt64.ofNat fb
      let arg : MachinesArg := if utf8 != "1" then .notUtf8 else if parse != "ok" then .invalid else .parsed s.ms
      let o : StartObs := { outNull := on == "1", arg := arg, fp := fp, fb := fb, rc := rc,
                            outWritten := outw == "1", nm := nm.toNat?, nmNull := nmNull }
      let s := s.mon i (firstFail o.checks)
      let s := s.feat s!"s{rc}"
      let s := if on == "1" then s.feat "outnull" else s
      -- accepted although a literal split at LF leaves a piece the Rust API rejects (CRLF, trailing LF)
      let s := if rc == RC_Ok && strict == "bad" then s.feat "lenient-lines" else s
      -- (a) model
      let mrc := startRc o.outNull arg fp fb
      let s := if mrc != rc then s.tag i "RC" else s
      let s := match arg with
        | .parsed ms =>
          let v := Validate.frameworkNew ms fp fb
          if (fwref == "ok") != v then s.tag i "VAL" else s
        | _ => s
      if rc == RC_Ok && outw == "1" then
        let f : Fw Unit := Fw.init constOracle s.ms fp fb 0 ()
        let s := if f.fault.isSome then s.tag i "FAULT" else s
        { s with fw := some f, nm := (nm.toNat?).getD 0 }
      else s
    | _, _, _, _ => s.tag i "PARSE"
  | _, _, _, _, _ =>
    if (findOut outs "skipped").isSome then s else s.tag i "PARSE"

def runEv (s : St) (i : Nat) (cmd : List String) (outs : List (List String)) : St :=
  match cmd with
  | nulls :: guard :: pat :: words =>
    match nulls.toList, guard.toNat?, hexNat pat, words.mapM parseEvWord, findOut outs "rc",
          findOut outs "count", findOut outs "evraw", findOut outs "mem" with
    | [n0, n1, n2, n3], some g, some pat, some evs, some [rc], some [cnt], some [evraw], some [mem] =>
      match rc.toNat?, hexOrEmpty evraw, hexOrEmpty mem with
      | some rc, some evraw, some mem =>
        let nl : Nulls := { this := n0 == '1', events := n1 == '1', actions := n2 == '1', count := n3 == '1' }
        let count : Option Nat := if cnt == "unset" then none else cnt.toNat?
        let acts := outs.filter (fun w => w.head? == some "A" || w.head? == some "AT")
        let ref := (parseActions acts).getD []
        let refBad := (parseActions acts).isNone
        let patSlot : Bytes := List.replicate actionL.size (UInt8.ofNat pat)
        let o : EvObs := { nulls := nl, rc := rc, count := count, nm := s.nm, guard := g, patSlot := patSlot,
                           mem := chunks actionL.size mem, ref := ref }
        let s := { s with calls := s.calls + 1 }
        let s := if refBad then s.tag i "PARSE" else s
        -- (b) the monitor, on the implementation's observation
        let s := s.mon i (firstFail o.checks)
        -- coverage
        let s := if nl.any then s.feat "null" else s
        let s := if evs.length ≥ 2 then s.feat "batch" else s
        let s := if evs.any (fun e => e.1.machine ≥ s.nm) then s.feat "oob" else s
        let s := { s with evTypes := evs.foldl (fun (a : List Nat) (e : CEvent × TEvent) => if a.contains e.1.eventType then a else e.1.eventType :: a) s.evTypes }
        let decoded := (o.slots.take (count.getD 0)).map decodeAction
        let s := decoded.foldl (fun s d => match d with
          | some (.cancel ..) => s.feat "aC"
          | some (.sendPadding ..) => s.feat "aP"
          | some (.blockOutgoing ..) => s.feat "aB"
          | some (.updateTimer ..) => s.feat "aT"
          | none => s.feat "undecodable") s
        let s := match count with
          | some 0 => s.feat "zero"
          | some k => if k == s.nm then s.feat "full" else if k ≥ 2 then s.feat "multi" else s.feat "one"
          | none => s
        -- (a) the model
        -- events: the bytes the integrator passed, read with the header-derived layout
        let cevs := (chunks eventL.size evraw).map decodeEvent
        let s := if cevs != evs.map (fun e => some e.1) || (evs.map (fun e => convertEvent e.1)) != evs.map (fun e => some e.2)
                 then s.tag i "EV" else s
        match s.fw with
        | none =>
          -- no instance: the only possible call has a null instance pointer
          let s := if rc != onEventsRc nl then s.tag i "RC" else s
          let s := if count.isSome then s.tag i "CNT" else s
          if o.mem.any (· != patSlot) then s.tag i "BUF" else s
        | some f =>
          match apiOnEvents constOracle nl f 0 (evs.map (fun (e : CEvent × TEvent) => e.1)) (List.replicate (s.nm + g) patSlot) with
          | none => s.tag i "EV"
          | some out =>
            let s := if out.rc != rc then s.tag i "RC" else s
            let s := if out.count != count then s.tag i "CNT" else s
            let s := if out.fw.fault.isSome then s.tag i "FAULT" else s
            -- decoded slots of the implementation vs decoded slots of the model's buffer
            let k := out.count.getD 0
            let mdec := (out.buf.take k).map decodeAction
            let s := if decoded.map (Option.map kindOf) != mdec.map (Option.map kindOf) then s.tag i "A" else s
            let s := if decoded.map (Option.map timesOf) != mdec.map (Option.map timesOf) then s.tag i "AT" else s
            -- everything else in the caller's memory: untouched in the model
            let s := if o.mem.take g != List.replicate g patSlot || o.mem.drop (g + k) != out.buf.drop k then s.tag i "BUF" else s
            -- framework model vs Rust framework (reference), outside C20's projection
            let s := if !nl.any && out.fw.actionsOut != ref then s.tag i "MR" else s
            { s with fw := some out.fw }
      | _, _, _ => s.tag i "PARSE"
    | _, _, _, _, _, _, _, _ => s.tag i "PARSE"
  | _ => s.tag i "PARSE"

def runStop (s : St) (i : Nat) (outs : List (List String)) : St :=
  let s := match findOut outs "leak" with
    | some [b, a] =>
      match b.toNat?, a.toNat? with
      | some b, some a => (s.mon i (firstFail (StopObs.checks { before := b, after := a }))).feat "leakchk"
      | _, _ => s.tag i "PARSE"
    | some ["na"] => s.feat "leakna"
    | _ => s
  { s with fw := none, nm := 0 }

def runVersion (s : St) (i : Nat) (outs : List (List String)) : St :=
  match findOut outs "version" with
  | some [got, want] =>
    let s := s.feat "ver"
    if got != want then s.mon i (some s!"maybenot_version returned {got}, expected {want}") else s
  | _ => s.tag i "PARSE"

def runCase (c : CaseBlock) : St :=
  let ms := (c.header.filter (fun ws => ws.head? == some "m")).map (fun ws => match ws with
    | ["m", h] => (hexBytes h).bind Codec.decodeMachine
    | _ => none)
  let s : St := { ms := ms.filterMap id }
  let s := if ms.any Option.isNone then s.tag 0 "PARSE" else s
  -- the Rust compiler's layout vs the layout computed from maybenot.h
  let s := match c.header.find? (fun ws => ws.head? == some "sizes") with
    | some ["sizes", a, al, e] =>
      if a.toNat? != some actionL.size || al.toNat? != some actionL.align || e.toNat? != some eventL.size then s.tag 0 "LAYOUT" else s
    | _ => s.tag 0 "PARSE"
  let s := s.feat s!"n{s.ms.length}"
  let (s, _) := c.ops.foldl (fun (acc : St × Nat) op =>
    let (s, i) := acc
    let s := match op.cmd with
      | "start" :: rest => runStart s i rest op.outs
      | "ev" :: rest => runEv s i rest op.outs
      | ["stop"] => runStop s i op.outs
      | ["version"] => runVersion s i op.outs
      | _ => s.tag i "PARSE"
    (s, i + 1)) (s, 1)
  if s.evTypes.length == 10 then s.feat "ev10" else s

/-- run the `ffi` command over the parsed case blocks; `args` are the extra command-line words -/
def run (cases : List CaseBlock) (_args : List String) : IO Unit := do
  for c in cases do
    let s := runCase c
    if s.tags.isEmpty then
      IO.println s!"case {c.id} {c.kind} ok calls={s.calls}"
    else
      let tags := s.tags.foldl (fun a t => if a.contains t.2 then a else a ++ [t.2]) ([] : List String)
      IO.println s!"case {c.id} {c.kind} DIFF tags={String.intercalate "," tags} firstop={(s.tags.head?.map (·.1)).getD 0}"
    IO.println s!"sig {c.id} {String.intercalate "," s.feats}"
    for m in s.mons do
      IO.println s!"mon C20 FAIL {c.id} {m}"

end Driver.FfiRun
