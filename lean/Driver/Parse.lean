/-
  Line-protocol parsing shared by all driver commands.
-/
import MbVerif.Trace

namespace Driver
open Mb

def hexDigit (c : Char) : Option Nat :=
  if '0' ≤ c ∧ c ≤ '9' then some (c.toNat - '0'.toNat)
  else if 'a' ≤ c ∧ c ≤ 'f' then some (c.toNat - 'a'.toNat + 10)
  else if 'A' ≤ c ∧ c ≤ 'F' then some (c.toNat - 'A'.toNat + 10)
  else none

def hexNat (s : String) : Option Nat :=
  if s.isEmpty then none else
  s.toList.foldl (fun acc c => match acc, hexDigit c with
    | some a, some d => some (a * 16 + d)
    | _, _ => none) (some 0)

def hexBytesAux : List Char → List UInt8 → Option (List UInt8)
  | [], acc => some acc.reverse
  | [_], _ => none
  | a :: b :: r, acc =>
    match hexDigit a, hexDigit b with
    | some x, some y => hexBytesAux r (UInt8.ofNat (x * 16 + y) :: acc)
    | _, _ => none

def hexBytes (s : String) : Option (List UInt8) := hexBytesAux s.toList []

def words (line : String) : List String :=
  (line.trimAscii.toString.splitOn " ").filter (fun w => !w.isEmpty)

def parseEv (w : String) : Option TEvent :=
  match w.splitOn ":" with
  | ["nr"] => some .normalRecv
  | ["pr"] => some .paddingRecv
  | ["tr"] => some .tunnelRecv
  | ["ns"] => some .normalSent
  | ["ts"] => some .tunnelSent
  | ["be"] => some .blockingEnd
  | ["ps", n] => n.toNat?.map .paddingSent
  | ["bb", n] => n.toNat?.map .blockingBegin
  | ["tb", n] => n.toNat?.map .timerBegin
  | ["te", n] => n.toNat?.map .timerEnd
  | _ => none

def parseBool' (s : String) : Option Bool :=
  if s == "0" then some false else if s == "1" then some true else none

def parseLogEntry (w : String) : Option LogEntry :=
  match w.splitOn ":" with
  | ["t", a, b, c] => do some (.trans (← a.toNat?) (← b.toNat?) (← c.toNat?))
  | ["s", a, b, c] => do some (.sampled (← a.toNat?) (← b.toNat?) (← c.toNat?))
  | ["r", h] => do some (.draw (UInt32.ofNat (← hexNat h)))
  | ["d", h] => do some (.distRaw (UInt64.ofNat (← hexNat h)))
  | ["c", m, a, b, c, d] => do some (.counter (← m.toNat?) (← a.toNat?) (← b.toNat?) (← c.toNat?) (← d.toNat?))
  | ["l", m, v, d] => do some (.limit (← m.toNat?) (← v.toNat?) (← parseBool' d))
  | _ => none

/-- one operation block: oracle, command words, observed output lines (as word lists) -/
structure OpBlock where
  us : List F32
  ds : List F64
  cmd : List String
  outs : List (List String)
  deriving Repr, Inhabited

/-- one case block -/
structure CaseBlock where
  id : String
  kind : String
  header : List (List String)   -- lines before the first `orc` (e.g. `m <hex>`)
  ops : List OpBlock
  trailer : List (List String)  -- lines after the last op that are neither `o` nor commands (e.g. `det ok`)
  deriving Repr, Inhabited

def parseOrc (ws : List String) : Option (List F32 × List F64) :=
  match ws with
  | nu :: rest => do
    let n ← nu.toNat?
    let us ← (rest.take n).mapM (fun h => (hexNat h).map UInt32.ofNat)
    match rest.drop n with
    | nd :: rest2 => do
      let k ← nd.toNat?
      let ds ← (rest2.take k).mapM (fun h => (hexNat h).map UInt64.ofNat)
      if us.length = n ∧ ds.length = k then some (us, ds) else none
    | [] => none
  | [] => none

/-- split the line stream of one case (after the `case` line, up to `end`) into blocks -/
def buildCase (id kind : String) (lines : List (List String)) : Option CaseBlock := do
  let mut header : List (List String) := []
  let mut trailer : List (List String) := []
  let mut ops : List OpBlock := []
  let mut cur : Option OpBlock := none
  let mut pendingOrc : Option (List F32 × List F64) := none
  for ws in lines do
    match ws with
    | "orc" :: rest =>
      if let some c := cur then
        -- `outs` is collected newest first (linear time); put it in order when the op is closed
        ops := { c with outs := c.outs.reverse } :: ops
        cur := none
      pendingOrc := parseOrc rest
      if pendingOrc.isNone then none
    | "o" :: rest =>
      match cur with
      | some c => cur := some { c with outs := rest :: c.outs }
      | none => none
    | [] => pure ()
    | cmd =>
      match pendingOrc with
      | some (us, ds) =>
        cur := some { us := us, ds := ds, cmd := cmd, outs := [] }
        pendingOrc := none
      | none =>
        if cur.isSome then trailer := trailer ++ [cmd] else header := header ++ [cmd]
  if let some c := cur then ops := { c with outs := c.outs.reverse } :: ops
  return { id := id, kind := kind, header := header, ops := ops.reverse, trailer := trailer }

/-- read cases from a list of lines -/
partial def splitCases (lines : List String) (acc : List CaseBlock) (bad : Nat) : List CaseBlock × Nat :=
  match lines with
  | [] => (acc.reverse, bad)
  | l :: rest =>
    match words l with
    | "case" :: id :: kind =>
      let body := rest.takeWhile (fun x => words x != ["end"])
      let rest' := (rest.dropWhile (fun x => words x != ["end"])).drop 1
      match buildCase id (String.intercalate " " kind) (body.map words) with
      | some c => splitCases rest' (c :: acc) bad
      | none => splitCases rest' acc (bad + 1)
    | _ => splitCases rest acc bad

def parseRes (ws : List String) : Option Res :=
  match ws with
  | ["res", "ok"] => some .ok
  | ["res", "err"] => some .err
  | "res" :: "panic" :: cls => some (.panic (String.intercalate " " cls))
  | _ => none

def parseTimer (s : String) : Option Timer :=
  match s with
  | "a" => some .action
  | "i" => some .internal
  | "l" => some .all
  | _ => none

def parseBool (s : String) : Option Bool :=
  match s with
  | "0" => some false
  | "1" => some true
  | _ => none

/-- `A mi kind bypass replace timer` + `AT mi timeout duration` -/
def parseAction (a at_ : List String) : Option TAction :=
  match a, at_ with
  | ["A", mi, kind, b, r, tm], ["AT", mi2, to, du] => do
    let m ← mi.toNat?
    let m2 ← mi2.toNat?
    if m ≠ m2 then none
    let b ← parseBool b
    let r ← parseBool r
    let to ← to.toNat?
    let du ← du.toNat?
    match kind with
    | "C" => some (.cancel m (← parseTimer tm))
    | "P" => some (.sendPadding to b r m)
    | "B" => some (.blockOutgoing to du b r m)
    | "T" => some (.updateTimer du r m)
    | _ => none
  | _, _ => none

def parseActions : List (List String) → Option (List TAction)
  | [] => some []
  | a :: at_ :: rest => do
    let x ← parseAction a at_
    let xs ← parseActions rest
    some (x :: xs)
  | _ => none

def parseSignal (s : String) : Option (Option SignalTarget) :=
  if s == "none" then some none
  else if s == "all" then some (some .all)
  else if s.startsWith "x" then ((s.drop 1).toString.toNat?).map (fun i => some (.allExcept i))
  else none

/-- snapshot from the `RS/RC/RP/RB/G/GS` lines of one op -/
def parseSnap (outs : List (List String)) : Option Snap := do
  let rs := outs.filter (fun w => w.head? == some "RS")
  let rc := outs.filter (fun w => w.head? == some "RC")
  let rp := outs.filter (fun w => w.head? == some "RP")
  let rb := outs.filter (fun w => w.head? == some "RB")
  let rz := outs.filter (fun w => w.head? == some "RZ")
  if rs.length ≠ rc.length ∨ rs.length ≠ rp.length ∨ rs.length ≠ rb.length ∨ rs.length ≠ rz.length then none
  let mut rts : List RtSnap := []
  for ((((a, b), c), d), z) in (((rs.zip rc).zip rp).zip rb).zip rz do
    match a, b, c, d, z with
    | ["RS", _, st, lim], ["RC", _, ca, cb], ["RP", _, pd, nm], ["RB", _, bl], ["RZ", _, za, zb] =>
      rts := rts ++ [{ state := ← st.toNat?, limit := ← lim.toNat?, ctrA := ← ca.toNat?, ctrB := ← cb.toNat?,
                       padding := ← pd.toNat?, normal := ← nm.toNat?, blockingNs := ← bl.toNat?,
                       zeroedA := ← parseBool za, zeroedB := ← parseBool zb }]
    | _, _, _, _, _ => none
  match outs.find? (fun w => w.head? == some "G"), outs.find? (fun w => w.head? == some "GS") with
  | some ["G", now, nm, pd, bd, bs, ba], some ["GS", sig] =>
    some { rts := rts, now := ← now.toInt?, normal := ← nm.toNat?, padding := ← pd.toNat?,
           blockingNs := ← bd.toNat?, blockingStarted := ← bs.toInt?, blockingActive := ← parseBool ba,
           signalPending := ← parseSignal sig }
  | _, _ => none

def parseLog (outs : List (List String)) : Option (List LogEntry) :=
  match outs.find? (fun w => w.head? == some "L") with
  | some (_ :: es) => es.mapM parseLogEntry
  | _ => none

end Driver
