/-
  Driver command `val`: see DESIGN.md.
-/
import Driver.Parse

namespace Driver.ValRun
open Mb Driver

/-- run the `val` command over the parsed case blocks; `args` are the extra command-line words -/
def run (_cases : List CaseBlock) (_args : List String) : IO Unit := do
  IO.println "val: not implemented"

end Driver.ValRun
