/-
  Driver command `val`:
    mbdriver val c12        validation paths: model accept/reject vs implementation, monitor `C12.wfB`
    mbdriver val c13        `Dist::sample`: clamp and uniform model vs implementation, monitor `C13.inRangeB`
    mbdriver val c06        `State::sample_state`: per-word and exhaustive counts vs the closed form, monitor
    mbdriver val witnesses  print the counterexample machines of Props/C12 as replayable cases
  Input: the protocol text written by `mbharness val-*` (see harness/src/val.rs).
  Output: `case <id> <kind> ok|DIFF tags=…`, `sig <id> <features>`, `mon <Cxx> FAIL <id> <reason>`.
-/
import Driver.Parse
import MbVerif.Validate
import MbVerif.Spec.C12
import MbVerif.Spec.C13
import MbVerif.Spec.C06

namespace Driver.ValRun
open Mb Driver

def hexChar (n : Nat) : Char := if n < 10 then Char.ofNat (48 + n) else Char.ofNat (87 + n)

def toHex (bs : List UInt8) : String :=
  String.ofList (bs.foldr (fun b acc => hexChar (b.toNat / 16) :: hexChar (b.toNat % 16) :: acc) [])

def outOf (op : OpBlock) (key : String) : Option (List String) :=
  (op.outs.find? (fun ws => ws.head? == some key)).map (fun ws => ws.drop 1)

def out1 (op : OpBlock) (key : String) : String :=
  match outOf op key with
  | some (x :: _) => x
  | _ => "-"

def report (c : CaseBlock) (tags : List String) : IO Unit :=
  if tags.isEmpty then IO.println s!"case {c.id} {c.kind} ok"
  else IO.println s!"case {c.id} {c.kind} DIFF tags={String.intercalate "," tags}"

/-! ### C12 -/

def labelClass (kind : String) : String :=
  match (words kind).drop 1 with
  | l :: _ => (l.splitOn "-").take 2 |> String.intercalate "-"
  | [] => "?"

def runC12Case (c : CaseBlock) : IO Unit := do
  let some mline := c.header.find? (fun ws => ws.head? == some "m") | IO.println s!"case {c.id} {c.kind} PARSE no machine"
  let some bytes := (mline.getD 1 "").toList |> (fun cs => hexBytes (String.ofList cs)) | IO.println s!"case {c.id} {c.kind} PARSE hex"
  let some op := c.ops.head? | IO.println s!"case {c.id} {c.kind} PARSE no op"
  match Codec.decodeMachine bytes with
  | none =>
    -- the implementation produced these bytes from a machine, so the model must decode them
    IO.println s!"case {c.id} {c.kind} DIFF tags=decode"
  | some m =>
    let (fp, fb) : F64 × F64 := match op.cmd with
      | ["paths", a, b] => (UInt64.ofNat ((hexNat a).getD 0), UInt64.ofNat ((hexNat b).getD 0))
      | _ => (0, 0)
    let acc := Validate.machine m
    let accFw := Validate.frameworkNew [m] fp fb
    let exp (b : Bool) : String := if b then "ok" else "err"
    let vV := out1 op "validate"
    let vN := out1 op "new"
    let vS := out1 op "fromstr"
    let vF := out1 op "fwnew"
    let tags :=
      (if vV != exp acc then ["validate"] else []) ++
      (if vN != exp acc then ["new"] else []) ++
      (if vS != exp acc then ["fromstr"] else []) ++
      (if vF != exp accFw then ["fwnew"] else []) ++
      (if out1 op "enc" == "DIFF" then ["enc"] else []) ++
      (if Codec.encMachine m != bytes then ["reencode"] else [])
    report c tags
    -- monitors on what the IMPLEMENTATION did
    let accepted := [("validate", vV), ("new", vN), ("fromstr", vS), ("fwnew", vF)].filter (fun p => p.2 == "ok" || p.2 == "ok-differs")
    let wf := C12.wfB m
    if !accepted.isEmpty && !wf then
      let rs := C12.reasons m
      -- a NaN sum is only reported on its own when no NaN probability explains it
      let rs := if rs.contains "nan-transition-probability" then rs.filter (· != "nan-probability-sum") else rs
      let rs := if rs.isEmpty then ["unclassified"] else rs
      for r in rs do
        IO.println s!"mon C12 FAIL {c.id} accepted-not-wellformed reason={r} paths={String.intercalate "," (accepted.map (·.1))}"
    -- one judgement on every path
    if !(vV == vN && (vS == vV || (vS == "ok-differs" && vV == "ok"))) then
      IO.println s!"mon C12 FAIL {c.id} paths-disagree validate={vV} new={vN} fromstr={vS}"
    if vS == "ok-differs" then
      IO.println s!"mon C12 FAIL {c.id} fromstr-returns-different-machine"
    let fracsOK := decide (C12.Real01 (Fp.val64 fp)) && decide (C12.Real01 (Fp.val64 fb))
    -- a framework built from accepted machines with fractions in [0,1] never fails
    if vV == "ok" && fracsOK && vF != "ok" then
      IO.println s!"mon C12 FAIL {c.id} framework-new-fails-on-accepted-machine result={vF}"
    if vF == "ok" && !(vV == "ok" && fracsOK) then
      IO.println s!"mon C12 FAIL {c.id} framework-new-accepts result={vF} validate={vV} fractions-ok={fracsOK}"
    if [vV, vN, vS, vF].any (fun x => x == "panic" || x == "hang") then
      IO.println s!"mon C12 FAIL {c.id} construction-path-panicked validate={vV} new={vN} fromstr={vS} fwnew={vF}"
    -- Framework::new on a slice this thread has passed to it before (same address and length, new content)
    let vF2 := out1 op "fwnew2"
    if vF2 != "-" && vF != "hang" && vF2 != vF then
      IO.println s!"mon C12 FAIL {c.id} framework-new-depends-on-earlier-calls first={vF} same-slice-again={vF2}"
    -- Framework::new on [ring, m] and [m, ring] with a valid eight-state ring: the same judgement as for m alone
    match outOf op "fwnew3" with
    | some [x, y] =>
      if (vF == "ok" || vF == "err") && (x != vF || y != vF) then
        IO.println s!"mon C12 FAIL {c.id} framework-new-depends-on-neighbours alone={vF} after-a-valid-machine={x} before-a-valid-machine={y}"
    | _ => pure ()
    -- "a machine obtained from any of them can always be run": the harness drives every framework the
    -- implementation built through a scripted history; the same fact is part of C01 (totality)
    let vR := out1 op "run"
    if vF == "ok" && (vR == "panic" || vR == "hang") then
      IO.println s!"mon C12 FAIL {c.id} accepted-machine-cannot-be-run result={vR} wellformed={wf}"
      IO.println s!"mon C01 FAIL {c.id} accepted-machine-cannot-be-run result={vR} wellformed={wf}"
    IO.println s!"sig {c.id} {labelClass c.kind},{if acc then "accept" else "reject"},{if wf then "wf" else "notwf"}"

/-! ### C13 -/

def familyName : DistType → String
  | .uniform .. => "uniform" | .normal .. => "normal" | .skewNormal .. => "skewnormal"
  | .logNormal .. => "lognormal" | .binomial .. => "binomial" | .geometric .. => "geometric"
  | .pareto .. => "pareto" | .poisson .. => "poisson" | .weibull .. => "weibull"
  | .gamma .. => "gamma" | .beta .. => "beta"

def fvClass : FV → String
  | .nan => "nan"
  | .inf true => "-inf"
  | .inf false => "+inf"
  | .fin q => if q = 0 then "0" else if q < 0 then "neg" else "pos"

/-- the `64:` words of an `o words` line -/
def parseWords (ws : List String) : Nat × List UInt64 × Bool :=
  match ws with
  | total :: rest =>
    let xs := rest.filterMap (fun w => match w.splitOn ":" with
      | ["64", h] => (hexNat h).map UInt64.ofNat
      | _ => none)
    (total.toNat?.getD 0, xs, xs.length == rest.length)
  | [] => (0, [], false)

def runC13Case (c : CaseBlock) : IO Unit := do
  let some dline := c.header.find? (fun ws => ws.head? == some "d") | IO.println s!"case {c.id} {c.kind} PARSE no dist"
  let some bytes := hexBytes (dline.getD 1 "") | IO.println s!"case {c.id} {c.kind} PARSE hex"
  let some op := c.ops.head? | IO.println s!"case {c.id} {c.kind} PARSE no op"
  match Codec.decDist bytes with
  | some (d, []) =>
    let acc := Validate.dist d
    let vV := out1 op "validate"
    let res := out1 op "res"
    let mut tags : List String := if vV != (if acc then "ok" else "err") then ["validate"] else []
    -- validation must imply the constructor preconditions (runtime echo of `C13_ctor_ok`)
    if acc && !(C13.ctorOK d.dist) then tags := tags ++ ["ctor"]
    let mut feats : List String := [familyName d.dist, s!"start={fvClass (Fp.val64 d.start)}", s!"max={fvClass (Fp.val64 d.max)}",
      match op.cmd with | _ :: pk :: _ => s!"prefix={pk}" | _ => "prefix=?"]
    if res == "ok" then
      match outOf op "raw", outOf op "ret" with
      | some [rawH], some [retH] =>
        let raw : F64 := UInt64.ofNat ((hexNat rawH).getD 0)
        let ret : F64 := UInt64.ofNat ((hexNat retH).getD 0)
        -- the clamp
        if !(C13.sameValue (d.clamp raw) (Fp.val64 ret)) then tags := tags ++ ["clamp"]
        -- the uniform family is modelled down to the RNG words
        match d.dist with
        | .uniform lo hi =>
          let (total, ws, all64) := parseWords ((outOf op "words").getD [])
          if Fp.feq (Fp.val64 lo) (Fp.val64 hi) then
            feats := feats ++ ["const"]
            if !(C13.sameValue (Fp.val64 raw) (Fp.val64 lo)) || total != 0 then tags := tags ++ ["uniform-const"]
          else
            feats := feats ++ ["range"]
            if !all64 then tags := tags ++ ["uniform-word-kind"]
            else match C13.uniformF64Loop lo hi ws 0 with
              | some (v, n) =>
                if n > 1 then feats := feats ++ ["retry"]
                if !(C13.sameValue v (Fp.val64 raw)) then tags := tags ++ ["uniform-value"]
                if n != total then tags := tags ++ ["uniform-words"]
              | none => if total ≤ ws.length then tags := tags ++ ["uniform-loop"] else pure ()
        | _ => pure ()
        report c tags
        if !(C13.inRangeB (Fp.val64 d.max) (Fp.val64 ret)) then
          IO.println s!"mon C13 FAIL {c.id} out-of-range ret={retH} max={fvClass (Fp.val64 d.max)} family={familyName d.dist}"
        feats := feats ++ [s!"raw={fvClass (Fp.val64 raw)}", s!"ret={fvClass (Fp.val64 ret)}"]
      | _, _ => report c (tags ++ ["missing-output"])
    else if res == "skipped" then
      report c tags
      feats := feats ++ ["invalid"]
    else
      report c tags
      let site := String.intercalate " " (((outOf op "res").getD []).drop 1)
      IO.println s!"mon C13 FAIL {c.id} {res} family={familyName d.dist} site={site}"
    IO.println s!"sig {c.id} {String.intercalate "," feats}"
  | _ => IO.println s!"case {c.id} {c.kind} DIFF tags=decode"

/-! ### C06 -/

def parseVec (ws : List String) : Option (Nat × List Trans) :=
  match ws with
  | "v" :: ns :: rest => do
    let n ← ns.toNat?
    let ts ← rest.mapM (fun w => match w.splitOn ":" with
      | [t, h] => do some ({ target := ← t.toNat?, prob := UInt32.ofNat (← hexNat h) } : Trans)
      | _ => none)
    some (n, ts)
  | _ => none

def parseTarget (s : String) : Option (Option Nat) :=
  if s == "none" then some none else s.toNat?.map some

def two (e : Nat) : Rat := 1 / ((2 ^ e : Nat) : Rat)

def probOf (t : Trans) : Rat :=
  match Fp.val32 t.prob with
  | .fin q => q
  | _ => 0

/-- exact (unrounded) cumulative sums of the declared probabilities -/
def exactSums (ts : List Trans) : List Rat :=
  (ts.foldl (fun (acc : Rat × List Rat) t => let s := acc.1 + probOf t; (s, acc.2 ++ [s])) (0, [])).2

/-- independent reading of the property for one draw: the chosen transition's exact cumulative
    interval contains `r` up to the f32 rounding slack `(i+1)·2^-24` -/
def drawPlausible (ts : List Trans) (r : Rat) (res : Option Nat) : Bool :=
  let sums := exactSums ts
  let slack (i : Nat) : Rat := ((i + 1 : Nat) : Rat) * two 24
  match res with
  | none => decide (sums.getLast?.getD 0 - slack ts.length ≤ r)
  | some t =>
    match ts.findIdx? (fun x => x.target == t) with
    | none => false
    | some i =>
      let lo := if i = 0 then 0 else sums.getD (i - 1) 0
      let hi := sums.getD i 0
      decide (lo - slack i ≤ r) && decide (r < hi + slack i)

def runC06Case (c : CaseBlock) : IO Unit := do
  let some (ns, ts) := (c.header.find? (fun ws => ws.head? == some "v")).bind parseVec | IO.println s!"case {c.id} {c.kind} PARSE vector"
  let some op := c.ops.head? | IO.println s!"case {c.id} {c.kind} PARSE no op"
  let valid := Validate.transVec ns ts
  let wf := C12.vecWfB ns ts
  let mut tags : List String := []
  -- the harness only emits vectors that `Machine::new` accepted
  if !valid then tags := tags ++ ["validate"]
  let probOne := match ts with
    | t :: _ => Fp.val32 t.prob == .fin 1
    | [] => false
  let mut feats : List String := [s!"k{ts.length}"] ++ (if probOne then ["p1"] else []) ++
    (if ts.any (fun t => t.target == STATE_END) then ["END"] else []) ++
    (if ts.any (fun t => t.target == STATE_SIGNAL) then ["SIGNAL"] else []) ++
    (match C06.total (.fin 0) ts with | .fin q => if q = 1 then ["sum1"] else ["sum<1"] | _ => ["sum?"])
  match op.cmd with
  | "words" :: _ =>
    feats := feats ++ ["words"]
    let mut monFails : List String := []
    for o in op.outs do
      match o with
      | ["w", wordH, bitsH, tgt, n32, n64] =>
        let word : UInt32 := UInt32.ofNat ((hexNat wordH).getD 0)
        let k := word.toNat / 2 ^ 9
        match C13.draw01 word with
        | none => tags := tags ++ ["draw-retry"]
        | some r =>
          if r != C06.draw k then tags := tags ++ ["draw-model"]
          match hexNat bitsH with
          | some b => if Fp.val32 (UInt32.ofNat b) != r then tags := tags ++ ["draw"]
          | none => tags := tags ++ ["draw-missing"]
          let model := sampleLoop r (.fin 0) ts
          match parseTarget tgt with
          | some res =>
            if res != model then tags := tags ++ ["target"]
            let rq : Rat := (k : Rat) / (C06.N : Rat)
            if !(drawPlausible ts rq res) then monFails := monFails ++ [s!"word={wordH}:got={tgt}"]
            if probOne && res != ts.head?.map (·.target) then monFails := monFails ++ [s!"probability-one-not-taken:word={wordH}"]
          | none => tags := tags ++ ["target-parse"]
        if n32 != "1" || n64 != "0" then tags := tags ++ ["calls"]
      | ["novec", bits, tgt, n32, n64] =>
        if !(bits == "-" && tgt == "none" && n32 == "0" && n64 == "0") then
          tags := tags ++ ["novec"]
          monFails := monFails ++ [s!"no-vector-moved:{tgt}"]
      | _ => pure ()
    report c tags.eraseDups
    if !wf then IO.println s!"mon C06 FAIL {c.id} accepted-vector-not-wellformed"
    if !monFails.isEmpty then
      IO.println s!"mon C06 FAIL {c.id} wrong-side-of-threshold {String.intercalate " " (monFails.take 4)}"
  | ["exhaustive"] =>
    feats := feats ++ ["exhaustive"]
    let (cf, cfNone) := C06.closedForm ts
    match outOf op "counts" with
    | some ws =>
      let kv := ws.filterMap (fun w => match w.splitOn ":" with
        | [a, b] => b.toNat?.map (fun n => (a, n))
        | _ => none)
      let get (k : String) : Nat := ((kv.find? (fun p => p.1 == k)).map (·.2)).getD 0
      let implCounts := (kv.take ts.length).map (·.2)
      if implCounts != cf.map (·.2) then tags := tags ++ ["counts"]
      if (kv.take ts.length).map (·.1) != cf.map (fun p => toString p.1) then tags := tags ++ ["count-targets"]
      if get "none" != cfNone then tags := tags ++ ["count-none"]
      if get "other" != 0 then tags := tags ++ ["other-target"]
      if get "drawbad" != 0 then tags := tags ++ ["draw"]
      if get "callsbad" != 0 then tags := tags ++ ["calls"]
      report c tags
      if !wf then IO.println s!"mon C06 FAIL {c.id} accepted-vector-not-wellformed"
      -- the property: share of target i within 2^-23 + 2^-24 of p_i (`C06_share_close`); residual share likewise
      let N : Rat := (C06.N : Rat)
      let tol : Rat := two 23 + two 24
      let mut bad : List String := []
      for (t, n) in ts.zip implCounts do
        let share : Rat := (n : Rat) / N
        let d := share - probOf t
        if !(decide (-tol ≤ d) && decide (d ≤ tol)) then bad := bad ++ [s!"target={t.target}:count={n}"]
      let sumP := ts.foldl (fun a t => a + probOf t) (0 : Rat)
      let dn : Rat := (get "none" : Rat) / N - (1 - sumP)
      let tolN : Rat := two 23 + (ts.length : Rat) * two 24
      if !(decide (-tolN ≤ dn) && decide (dn ≤ tolN)) then bad := bad ++ [s!"none:count={get "none"}"]
      if implCounts.foldl (· + ·) 0 + get "none" + get "other" != C06.N then bad := bad ++ ["counts-do-not-add-up"]
      if probOne && implCounts.head? != some C06.N then bad := bad ++ ["probability-one-not-always-taken"]
      if !bad.isEmpty then IO.println s!"mon C06 FAIL {c.id} share-off {String.intercalate " " bad}"
    | none => report c (tags ++ ["missing-output"])
  | _ => IO.println s!"case {c.id} {c.kind} PARSE op"
  IO.println s!"sig {c.id} {String.intercalate "," feats}"

/-! ### witnesses of Props/C12 -/

def witnesses : IO Unit := do
  for (name, m) in [("nan-fraction", C12.witnessNanFraction), ("nan-probability", C12.witnessNanProbability)] do
    IO.println s!"case witness-{name} c12 witness-{name}"
    IO.println s!"m {toHex (Codec.encMachine m)}"
    IO.println "orc 0 0"
    IO.println "paths 0000000000000000 0000000000000000"
    IO.println "end"

/-- run the `val` command over the parsed case blocks; `args` are the extra command-line words -/
def run (cases : List CaseBlock) (args : List String) : IO Unit := do
  match args with
  | ["witnesses"] => witnesses
  | ["c12"] => for c in cases do runC12Case c
  | ["c13"] => for c in cases do runC13Case c
  | ["c06"] => for c in cases do runC06Case c
  | _ => IO.println "usage: mbdriver val c12|c13|c06|witnesses"

end Driver.ValRun
