import MbVerif.Fp
import MbVerif.Types
import MbVerif.Codec
import MbVerif.Framework
