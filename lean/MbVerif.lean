import MbVerif.Fp
import MbVerif.Types
import MbVerif.Codec
import MbVerif.Framework
import MbVerif.Validate
import MbVerif.Trace
import MbVerif.Spec.C04
import MbVerif.Props.C05
